import PPLV.WR.BoxTransProofsExpr
/-!
# C03 stage 4 — the emptiness query and `max_min` of the box model

`is_empty()` only touches the cache; `max_min` returns a bound of the expression over the box that
is strict when it is reported as not included.
-/
set_option linter.unusedVariables false
namespace PPLV.WR.BoxT
open PPLV.Interval
open PPLV.Interval.ExtRat (ninf fin pinf)

/-! ## `is_empty()` -/

theorem Box.isEmptyQ_seq (b : Box) (p : Policy) : (b.isEmptyQ p).2.seq = b.seq := by
  unfold Box.isEmptyQ Box.checkEmpty
  split_ifs <;> simp [Box.setEmpty, Box.setNonempty]

theorem Box.isEmptyQ_dim (b : Box) (p : Policy) : (b.isEmptyQ p).2.dim = b.dim := by
  unfold Box.dim; rw [Box.isEmptyQ_seq]

theorem Box.isEmptyQ_true {b : Box} {p : Policy} {x : Nat → Rat} (h : (b.isEmptyQ p).1 = true) : ¬ b.mem p x := by
  intro hx
  rw [(Box.isEmptyQ_of_mem hx).1] at h
  exact Bool.false_ne_true h

theorem Box.isEmptyQ_false_marked {b : Box} {p : Policy} (h : (b.isEmptyQ p).1 = false) :
    (b.isEmptyQ p).2.markedEmpty = false ∧ ∀ I ∈ b.seq, isEmpty p I = false := by
  unfold Box.isEmptyQ Box.checkEmpty at h ⊢
  split_ifs at h ⊢ with h1 h2
  refine ⟨by simp [Box.setNonempty, Box.markedEmpty], ?_⟩
  intro I hI
  have h3 : (b.seq.any fun I => isEmpty p I) = false := by simpa using h2
  rw [List.any_eq_false] at h3
  simpa using h3 I hI

theorem Box.isEmptyQ_mem_iff {b : Box} {p : Policy} {x : Nat → Rat} : (b.isEmptyQ p).2.mem p x ↔ b.mem p x := by
  constructor
  · intro h
    unfold Box.isEmptyQ Box.checkEmpty at h
    split_ifs at h with h1 h2
    · exact h
    · exact absurd h.1 (by simp [Box.setEmpty, Box.markedEmpty])
    · refine ⟨by simpa using h1, ?_⟩
      intro k hk
      exact h.2 k hk
  · intro h; exact (Box.isEmptyQ_of_mem h).2.1

/-! ## `max_min` -/

theorem maxMin_snd (p : Policy) (b : Box) (e : LinExpr) (m : Bool) :
    (maxMin p b e m).2 = if b.dim == 0 then b else (b.isEmptyQ p).2 := by
  unfold maxMin
  split
  · rfl
  · rcases h : b.isEmptyQ p with ⟨em, b'⟩
    simp only []
    split <;> rfl

theorem maxMin_seq (p : Policy) (b : Box) (e : LinExpr) (m : Bool) : (maxMin p b e m).2.seq = b.seq := by
  rw [maxMin_snd]; split
  · rfl
  · exact Box.isEmptyQ_seq b p

theorem maxMin_dim (p : Policy) (b : Box) (e : LinExpr) (m : Bool) : (maxMin p b e m).2.dim = b.dim := by
  unfold Box.dim; rw [maxMin_seq]

theorem maxMin_mem_iff {p : Policy} {b : Box} {e : LinExpr} {m : Bool} {x : Nat → Rat} :
    (maxMin p b e m).2.mem p x ↔ b.mem p x := by
  rw [maxMin_snd]; split
  · exact Iff.rfl
  · exact Box.isEmptyQ_mem_iff

/-- on a finite bound `is_open` is the stored OPEN bit -/
theorem isOpen_fin {p : Policy} {t : BT} {b : Bound} {u : Rat} (h : b.value = fin u) : isOpen p t b = getOpen p b := by
  unfold isOpen
  rw [isBoundaryInfinity_eq]
  unfold normalIsBoundaryInfinity getOpen
  rw [h]
  cases t <;> cases p.storeOpen <;> simp

theorem upperOk_fin {p : Policy} {b : Bound} {u t : Rat} (hv : b.value = fin u) (h : upperOk p b t) :
    t ≤ u ∧ (isOpen p .upper b = true → t < u) := by
  rw [isOpen_fin hv]
  unfold upperOk at h
  rw [hv] at h
  cases ho : getOpen p b <;> rw [ho] at h <;> simp at h ⊢
  · exact h
  · exact ⟨le_of_lt h, h⟩

theorem lowerOk_fin {p : Policy} {b : Bound} {l t : Rat} (hv : b.value = fin l) (h : lowerOk p b t) :
    l ≤ t ∧ (isOpen p .lower b = true → l < t) := by
  rw [isOpen_fin hv]
  unfold lowerOk at h
  rw [hv] at h
  cases ho : getOpen p b <;> rw [ho] at h <;> simp at h ⊢
  · exact h
  · exact ⟨le_of_lt h, h⟩

/-- the loop of `max_min`, maximisation: `s` is the exact partial sum, `r` the partial bound -/
theorem maxMinLoop_sound_max {p : Policy} {seq : List Iv} {x : Nat → Rat} :
    ∀ (ts : List (Nat × Int)) (r : Rat) (incl : Bool) (s : Rat) (q : Rat) (incl' : Bool),
      (∀ t ∈ ts, t.2 ≠ 0 ∧ (seq.getD t.1 Iv.empty).mem p (x t.1)) →
      s ≤ r → (incl = false → s < r) →
      maxMinLoop p seq true ts r incl = some (q, incl') →
      s + termSum ts x ≤ q ∧ (incl' = false → s + termSum ts x < q) := by
  intro ts
  induction ts with
  | nil =>
    intro r incl s q incl' _ h1 h2 h
    simp only [maxMinLoop, Option.some.injEq, Prod.mk.injEq] at h
    obtain ⟨rfl, rfl⟩ := h
    simpa using ⟨h1, h2⟩
  | cons t ts ih =>
    obtain ⟨i, a⟩ := t
    intro r incl s q incl' hm h1 h2 h
    obtain ⟨ha, hmem⟩ := hm (i, a) (by simp)
    have hm' : ∀ t ∈ ts, t.2 ≠ 0 ∧ (seq.getD t.1 Iv.empty).mem p (x t.1) := fun t ht => hm t (by simp [ht])
    simp only at ha hmem
    rw [termSum_cons]
    simp only [maxMinLoop] at h
    by_cases hpos : a > 0
    · have hd : (decide (a > 0) == true) = true := by simp [hpos]
      rw [if_pos hd] at h
      split at h
      · exact absurd h (by simp)
      · split at h
        · rename_i u hu
          obtain ⟨hle, hlt⟩ := upperOk_fin hu hmem.2
          have hap : (0 : Rat) < (a : Rat) := by exact_mod_cast hpos
          have key := ih (r + u * (a : Rat)) _ (s + (a : Rat) * x i) q incl' hm'
            (by nlinarith)
            (by
              intro hf
              simp only [Bool.and_eq_false_imp, Bool.not_eq_eq_eq_not, Bool.not_false] at hf
              cases hincl : incl
              · have := h2 hincl; nlinarith
              · have := hlt (hf hincl); nlinarith)
            h
          constructor
          · linarith [key.1]
          · intro hf; linarith [key.2 hf]
        · exact absurd h (by simp)
    · have hneg : a < 0 := lt_of_le_of_ne (not_lt.1 hpos) ha
      have hd : ¬ ((decide (a > 0) == true) = true) := by simp [hpos]
      rw [if_neg hd] at h
      split at h
      · exact absurd h (by simp)
      · split at h
        · rename_i l hl
          obtain ⟨hle, hlt⟩ := lowerOk_fin hl hmem.1
          have hap : (a : Rat) < 0 := by exact_mod_cast hneg
          have key := ih (r + l * (a : Rat)) _ (s + (a : Rat) * x i) q incl' hm'
            (by nlinarith)
            (by
              intro hf
              simp only [Bool.and_eq_false_imp, Bool.not_eq_eq_eq_not, Bool.not_false] at hf
              cases hincl : incl
              · have := h2 hincl; nlinarith
              · have := hlt (hf hincl); nlinarith)
            h
          constructor
          · linarith [key.1]
          · intro hf; linarith [key.2 hf]
        · exact absurd h (by simp)

/-- the loop of `max_min`, minimisation -/
theorem maxMinLoop_sound_min {p : Policy} {seq : List Iv} {x : Nat → Rat} :
    ∀ (ts : List (Nat × Int)) (r : Rat) (incl : Bool) (s : Rat) (q : Rat) (incl' : Bool),
      (∀ t ∈ ts, t.2 ≠ 0 ∧ (seq.getD t.1 Iv.empty).mem p (x t.1)) →
      r ≤ s → (incl = false → r < s) →
      maxMinLoop p seq false ts r incl = some (q, incl') →
      q ≤ s + termSum ts x ∧ (incl' = false → q < s + termSum ts x) := by
  intro ts
  induction ts with
  | nil =>
    intro r incl s q incl' _ h1 h2 h
    simp only [maxMinLoop, Option.some.injEq, Prod.mk.injEq] at h
    obtain ⟨rfl, rfl⟩ := h
    simpa using ⟨h1, h2⟩
  | cons t ts ih =>
    obtain ⟨i, a⟩ := t
    intro r incl s q incl' hm h1 h2 h
    obtain ⟨ha, hmem⟩ := hm (i, a) (by simp)
    have hm' : ∀ t ∈ ts, t.2 ≠ 0 ∧ (seq.getD t.1 Iv.empty).mem p (x t.1) := fun t ht => hm t (by simp [ht])
    simp only at ha hmem
    rw [termSum_cons]
    simp only [maxMinLoop] at h
    by_cases hpos : a > 0
    · have hd : ¬ ((decide (a > 0) == false) = true) := by simp [hpos]
      rw [if_neg hd] at h
      split at h
      · exact absurd h (by simp)
      · split at h
        · rename_i l hl
          obtain ⟨hle, hlt⟩ := lowerOk_fin hl hmem.1
          have hap : (0 : Rat) < (a : Rat) := by exact_mod_cast hpos
          have key := ih (r + l * (a : Rat)) _ (s + (a : Rat) * x i) q incl' hm'
            (by nlinarith)
            (by
              intro hf
              simp only [Bool.and_eq_false_imp, Bool.not_eq_eq_eq_not, Bool.not_false] at hf
              cases hincl : incl
              · have := h2 hincl; nlinarith
              · have := hlt (hf hincl); nlinarith)
            h
          constructor
          · linarith [key.1]
          · intro hf; linarith [key.2 hf]
        · exact absurd h (by simp)
    · have hneg : a < 0 := lt_of_le_of_ne (not_lt.1 hpos) ha
      have hd : (decide (a > 0) == false) = true := by simp [hpos]
      rw [if_pos hd] at h
      split at h
      · exact absurd h (by simp)
      · split at h
        · rename_i u hu
          obtain ⟨hle, hlt⟩ := upperOk_fin hu hmem.2
          have hap : (a : Rat) < 0 := by exact_mod_cast hneg
          have key := ih (r + u * (a : Rat)) _ (s + (a : Rat) * x i) q incl' hm'
            (by nlinarith)
            (by
              intro hf
              simp only [Bool.and_eq_false_imp, Bool.not_eq_eq_eq_not, Bool.not_false] at hf
              cases hincl : incl
              · have := h2 hincl; nlinarith
              · have := hlt (hf hincl); nlinarith)
            h
          constructor
          · linarith [key.1]
          · intro hf; linarith [key.2 hf]
        · exact absurd h (by simp)

/-- the terms of a well-formed expression read intervals that contain the coordinates -/
theorem terms_mem {p : Policy} {b : Box} {e : LinExpr} {x : Nat → Rat} (hwf : e.WF b.dim) (hx : b.mem p x) :
    ∀ t ∈ e.terms, t.2 ≠ 0 ∧ (b.seq.getD t.1 Iv.empty).mem p (x t.1) := by
  rintro ⟨i, a⟩ ht
  exact ⟨(LinExpr.mem_terms ht).1, hx.2 i (LinExpr.mem_terms_lt hwf ht)⟩

theorem eval_of_dim_zero {e : LinExpr} (hwf : e.WF 0) (x : Nat → Rat) : e.eval x = (e.inhom : Rat) := by
  have : e.coeffs = [] := List.eq_nil_of_length_eq_zero (Nat.le_zero.1 hwf)
  simp [LinExpr.eval, this, LinExpr.dot]

theorem maxMin_fst {p : Policy} {b : Box} {e : LinExpr} {m : Bool} {x : Nat → Rat} (hx : b.mem p x) :
    (maxMin p b e m).1 =
      if b.dim == 0 then some ((e.inhom : Rat), true) else maxMinLoop p b.seq m e.terms (e.inhom : Rat) true := by
  unfold maxMin
  split
  · simp [hx.1]
  · obtain ⟨h1, _, h3⟩ := Box.isEmptyQ_of_mem hx
    rcases h : b.isEmptyQ p with ⟨em, b'⟩
    rw [h] at h1 h3
    simp only at h1 h3
    subst h1
    simp [h3]

theorem maxMin_sound_max {p : Policy} {b : Box} {e : LinExpr} {x : Nat → Rat} {q : Rat} {incl : Bool}
    (hwf : e.WF b.dim) (h : (maxMin p b e true).1 = some (q, incl)) (hx : b.mem p x) :
    e.eval x ≤ q ∧ (incl = false → e.eval x < q) := by
  rw [maxMin_fst hx] at h
  split at h
  · rename_i hd
    have hd' : b.dim = 0 := by simpa using hd
    rw [hd'] at hwf
    simp only [Option.some.injEq, Prod.mk.injEq] at h
    obtain ⟨rfl, rfl⟩ := h
    rw [eval_of_dim_zero hwf]; simp
  · have := maxMinLoop_sound_max (x := x) e.terms (e.inhom : Rat) true (e.inhom : Rat) q incl
      (terms_mem hwf hx) (le_refl _) (by simp) h
    rw [LinExpr.eval_eq_terms, add_comm]; exact this

theorem maxMin_sound_min {p : Policy} {b : Box} {e : LinExpr} {x : Nat → Rat} {q : Rat} {incl : Bool}
    (hwf : e.WF b.dim) (h : (maxMin p b e false).1 = some (q, incl)) (hx : b.mem p x) :
    q ≤ e.eval x ∧ (incl = false → q < e.eval x) := by
  rw [maxMin_fst hx] at h
  split at h
  · rename_i hd
    have hd' : b.dim = 0 := by simpa using hd
    rw [hd'] at hwf
    simp only [Option.some.injEq, Prod.mk.injEq] at h
    obtain ⟨rfl, rfl⟩ := h
    rw [eval_of_dim_zero hwf]; simp
  · have := maxMinLoop_sound_min (x := x) e.terms (e.inhom : Rat) true (e.inhom : Rat) q incl
      (terms_mem hwf hx) (le_refl _) (by simp) h
    rw [LinExpr.eval_eq_terms, add_comm]; exact this

/-! ## non-vacuity -/

example : (maxMin Policy.rational ⟨[⟨⟨fin 0, false⟩, ⟨fin 2, true⟩⟩], false, true⟩ ⟨[3], 1⟩ true).1.isSome
    = true := by decide

end PPLV.WR.BoxT
