import PPLV.WR.ReduceProofsCodeClosed
import Mathlib.Tactic.Linarith
/-!
# Reduction of a closed difference-bound matrix, pure mathematics (1): zero-equivalence classes

`c.z` is the stored matrix `c.e` with the diagonal overwritten by `0` (`DBM.IsClosed c` is `Closed (n+1) c.z`).
Inside a zero-equivalence class a closed matrix is an *exact potential* (`shift_row`, `shift_col`);
consequences for an abstract leader map / predecessor map / reduction (`IsLeaderMap`, `IsPredMap`,
`IsReduction` of `ReduceProofsBase.lean`): the kept entries inside a class of size `s ≥ 2` form one cycle
(`bds_reduced_chain_out`, `bds_reduced_chain_in`), kept entries between two classes join leaders
(`bds_reduced_cross_class`).
-/
namespace PPLV.WR
open ExtRat (fin pinf)

theorem fin_le_eadd {x y : Rat} {a b : ExtRat} (h1 : fin x ≤ a) (h2 : fin y ≤ b) :
    fin (x + y) ≤ eadd a b :=
  ExtRat.fin_le_addUp (fun _ => ExtRat.le_rfl' _) h1 h2

namespace DBM
variable {n : Nat}

/-- the stored matrix with the diagonal overwritten by `0` -/
def z (c : DBM n) : Mat := Mat.diagDown (n+1) (fin 0) c.e

theorem z_ne (c : DBM n) {a b : Nat} (h : a ≠ b) : c.z a b = c.e a b := by
  unfold z; rw [Mat.diagDown_apply, if_neg (fun h' => h h'.1)]

theorem z_self (c : DBM n) {a : Nat} (h : a ≤ n) : c.z a a = fin 0 := by
  unfold z; rw [Mat.diagDown_apply, if_pos ⟨rfl, by omega⟩]

theorem IsClosed.closed {c : DBM n} (hc : c.IsClosed) : Closed (n+1) c.z := hc

theorem IsClosed.tri {c : DBM n} (hc : c.IsClosed) {i j : Nat} (k : Nat) (hi : i ≤ n) (hj : j ≤ n)
    (hk : k ≤ n) : c.z i j ≤ eadd (c.z i k) (c.z k j) :=
  hc.closed.tri i j k (by omega) (by omega) (by omega)

end DBM

/-! ## zero-equivalence -/

-- `ZEq.refl`, `ZEq.symm` (same statements) come from `ReduceProofsCodeClosed.lean`: one declaration for both proof
-- families, so that `Props/C04Reduce.lean` can import the code-spec and the mathematics together.

variable {n : Nat}

/-- zero-equivalent indices: the two entries are finite and opposite -/
theorem DBM.zeq_fin (c : DBM n) {i j : Nat} (hi : i ≤ n) (h : ZEq c.e i j) :
    ∃ p, c.z i j = fin p ∧ c.z j i = fin (-p) := by
  by_cases hij : i = j
  · subst hij
    exact ⟨0, c.z_self hi, by rw [c.z_self hi, neg_zero]⟩
  · rcases h with h | h
    · exact absurd h hij
    · rw [c.z_ne hij, c.z_ne (Ne.symm hij)]
      cases h1 : c.e i j <;> cases h2 : c.e j i <;> rw [h1, h2] at h <;> simp [ExtRat.isAddInv] at h
      rename_i p q
      exact ⟨p, rfl, by congr 1; linarith⟩

/-- in a closed matrix a 2-cycle of weight `≤ 0` is a zero-equivalence -/
theorem DBM.zeq_of_le (c : DBM n) (hc : c.IsClosed) {i j : Nat} (hi : i ≤ n) (hj : j ≤ n)
    (h : eadd (c.z i j) (c.z j i) ≤ fin 0) : ZEq c.e i j := by
  by_cases hij : i = j
  · exact Or.inl hij
  · right
    have ht := hc.tri j hi hi hj
    rw [c.z_self hi] at ht
    rw [c.z_ne hij, c.z_ne (Ne.symm hij)] at h ht
    cases h1 : c.e i j <;> cases h2 : c.e j i <;> rw [h1, h2] at h ht <;>
      simp [eadd, ExtRat.addUp] at h ht
    simp only [ExtRat.isAddInv, decide_eq_true_eq]
    linarith

/-- exact potential, rows: moving the row index inside its class shifts the row by a constant -/
theorem DBM.shift_row (c : DBM n) (hc : c.IsClosed) {a a' b : Nat} (ha : a ≤ n) (ha' : a' ≤ n)
    (hb : b ≤ n) (h : ZEq c.e a a') : c.z a b = eadd (c.z a a') (c.z a' b) := by
  obtain ⟨p, h1, h2⟩ := c.zeq_fin ha h
  have t1 := hc.tri a' ha hb ha'
  have t2 := hc.tri a ha' hb ha
  rw [h1] at t1 ⊢
  rw [h2] at t2
  cases h3 : c.z a b <;> cases h4 : c.z a' b <;> rw [h3, h4] at t1 t2 <;>
    simp [eadd, ExtRat.addUp] at t1 t2 ⊢
  linarith

/-- exact potential, columns -/
theorem DBM.shift_col (c : DBM n) (hc : c.IsClosed) {a b b' : Nat} (ha : a ≤ n) (hb : b ≤ n)
    (hb' : b' ≤ n) (h : ZEq c.e b' b) : c.z a b = eadd (c.z a b') (c.z b' b) := by
  obtain ⟨p, h1, h2⟩ := c.zeq_fin hb' h
  have t1 := hc.tri b' ha hb hb'
  have t2 := hc.tri b ha hb' hb
  rw [h1] at t1 ⊢
  rw [h2] at t2
  cases h3 : c.z a b <;> cases h4 : c.z a b' <;> rw [h3, h4] at t1 t2 <;>
    simp [eadd, ExtRat.addUp] at t1 t2 ⊢
  linarith

theorem DBM.zeq_trans (c : DBM n) (hc : c.IsClosed) {i j k : Nat} (hi : i ≤ n) (hj : j ≤ n) (hk : k ≤ n)
    (h1 : ZEq c.e i j) (h2 : ZEq c.e j k) : ZEq c.e i k := by
  apply c.zeq_of_le hc hi hk
  obtain ⟨p, e1, e2⟩ := c.zeq_fin hi h1
  obtain ⟨q, e3, e4⟩ := c.zeq_fin hj h2
  rw [c.shift_row hc hi hj hk h1, c.shift_col hc hk hi hj h1.symm, e1, e2, e3, e4]
  simp [eadd, ExtRat.addUp]

/-! ## leader maps -/

section maps
variable (c : DBM n) (hc : c.IsClosed) (lead pred : Nat → Nat) (hl : IsLeaderMap n c.e lead)
  (hp : IsPredMap n c.e pred)
include hc hl

omit hc in
theorem lead_le_n {i : Nat} (hi : i ≤ n) : lead i ≤ n := le_trans (hl.le i hi) hi

theorem lead_eq_of_zeq {i j : Nat} (hi : i ≤ n) (hj : j ≤ n) (h : ZEq c.e i j) : lead i = lead j := by
  have hli := lead_le_n c lead hl hi
  have hlj := lead_le_n c lead hl hj
  apply le_antisymm
  · exact hl.least i (lead j) hi hlj (c.zeq_trans hc hlj hj hi (hl.zeq j hj) h.symm)
  · exact hl.least j (lead i) hj hli (c.zeq_trans hc hli hi hj (hl.zeq i hi) h)

theorem lead_idem {i : Nat} (hi : i ≤ n) : lead (lead i) = lead i :=
  lead_eq_of_zeq c hc lead hl (lead_le_n c lead hl hi) hi (hl.zeq i hi)

theorem zeq_of_lead_eq {i j : Nat} (hi : i ≤ n) (hj : j ≤ n) (h : lead i = lead j) : ZEq c.e i j := by
  have h1 := (hl.zeq i hi).symm
  have h2 := hl.zeq j hj
  rw [h] at h1
  exact c.zeq_trans hc hi (lead_le_n c lead hl hj) hj h1 h2

/-- two distinct leaders are not zero-equivalent -/
theorem leaders_eq_of_zeq {i j : Nat} (hi : i ≤ n) (hj : j ≤ n) (h1 : lead i = i) (h2 : lead j = j)
    (h : ZEq c.e i j) : i = j := by
  rw [← h1, ← h2]; exact lead_eq_of_zeq c hc lead hl hi hj h

/-- an entry is the sum of the entry between the leaders and the two potentials -/
theorem DBM.decomp {a b : Nat} (ha : a ≤ n) (hb : b ≤ n) :
    c.z a b = eadd (c.z a (lead a)) (eadd (c.z (lead a) (lead b)) (c.z (lead b) b)) := by
  have hla := lead_le_n c lead hl ha
  have hlb := lead_le_n c lead hl hb
  rw [c.shift_row hc ha hla hb (hl.zeq a ha).symm, c.shift_col hc hla hb hlb (hl.zeq b hb)]

omit hl in
/-- every class has a greatest element -/
theorem exists_greatest : ∀ (d i : Nat), i ≤ n → n - i ≤ d →
    ∃ g, i ≤ g ∧ g ≤ n ∧ ZEq c.e g i ∧ ∀ k, k ≤ n → g < k → ¬ ZEq c.e k g := by
  intro d
  induction d with
  | zero =>
    intro i hi hd
    refine ⟨i, le_rfl, hi, ZEq.refl _ _, fun k hk hik => ?_⟩
    omega
  | succ d ih =>
    intro i hi hd
    by_cases h : ∃ k, k ≤ n ∧ i < k ∧ ZEq c.e k i
    · obtain ⟨k, hk, hik, hz⟩ := h
      obtain ⟨g, h1, h2, h3, h4⟩ := ih k hk (by omega)
      exact ⟨g, by omega, h2, c.zeq_trans hc h2 hk hi h3 hz, h4⟩
    · refine ⟨i, le_rfl, hi, ZEq.refl _ _, fun k hk hik hz => h ⟨k, hk, hik, hz⟩⟩

end maps

/-! ## the kept entries -/

section red
variable (c : DBM n) (hc : c.IsClosed) (lead pred : Nat → Nat) (hl : IsLeaderMap n c.e lead)
  (hp : IsPredMap n c.e pred) (red : BMat) (hr : IsReduction n c.e lead pred red)

set_option linter.unusedSectionVars false in
include hc hl hp hr in
/-- entries between different classes are kept only among leaders -/
theorem bds_reduced_cross_class (i j : Nat) (hi : i ≤ n) (hj : j ≤ n) (h : red i j = false)
    (hne : ¬ ZEq c.e i j) : lead i = i ∧ lead j = j := by
  rcases (hr.spec i j hi hj).1 h with h | h | h
  · exact ⟨h.1, h.2.1⟩
  · exfalso
    have := hp.zeq j hj
    rw [h.2] at this
    exact hne this
  · exfalso
    have := hl.zeq i hi
    rw [h.2.1] at this
    exact hne this.symm

include hc hl hr in
/-- the entries kept inside a class: the upward chain and the closing edge -/
theorem kept_in_class {i j : Nat} (hi : i ≤ n) (hj : j ≤ n) (hne : i ≠ j) (hz : ZEq c.e i j) :
    red i j = false ↔ (i < j ∧ pred j = i) ∨ (j < i ∧ lead i = j ∧ ∀ k, k ≤ n → i < k → ¬ ZEq c.e k i) := by
  rw [hr.spec i j hi hj]
  constructor
  · rintro (h | h | h)
    · exact absurd (leaders_eq_of_zeq c hc lead hl hi hj h.1 h.2.1 hz) hne
    · exact Or.inl h
    · exact Or.inr h
  · rintro (h | h)
    · exact Or.inr (Or.inl h)
    · exact Or.inr (Or.inr h)

include hp in
/-- a non-least element of a class has a proper predecessor -/
theorem pred_lt {i j : Nat} (hi : i ≤ n) (hji : j < i) (hz : ZEq c.e j i) : pred i < i := by
  have h1 := hp.le i hi
  have h2 : pred i ≠ i := fun h => hp.self i j hi h hji hz
  omega

include hp in
theorem le_pred {i j : Nat} (hi : i ≤ n) (hji : j < i) (hz : ZEq c.e j i) : j ≤ pred i := by
  by_contra h
  exact hp.greatest i j hi (by omega) hji hz

include hc hl hp hr in
/-- M4: an element of a non-singleton class has exactly one kept outgoing entry inside its class -/
theorem bds_reduced_chain_out (i : Nat) (hi : i ≤ n) (hns : ∃ j, j ≤ n ∧ j ≠ i ∧ ZEq c.e i j) :
    ∃! j, j ≤ n ∧ j ≠ i ∧ ZEq c.e i j ∧ red i j = false := by
  by_cases hg : ∃ k, i < k ∧ k ≤ n ∧ ZEq c.e k i
  · -- the successor of `i` in its class
    classical
    let k0 := Nat.find hg
    obtain ⟨h1, h2, h3⟩ : i < k0 ∧ k0 ≤ n ∧ ZEq c.e k0 i := Nat.find_spec hg
    have hmin : ∀ m, m < k0 → ¬ (i < m ∧ m ≤ n ∧ ZEq c.e m i) := fun m hm => Nat.find_min hg hm
    have hpl := pred_lt c pred hp h2 h1 h3.symm
    have hle := le_pred c pred hp h2 h1 h3.symm
    have hpk : pred k0 = i := by
      by_contra hne
      have hlt : i < pred k0 := by omega
      refine hmin (pred k0) hpl ⟨hlt, by omega, ?_⟩
      exact c.zeq_trans hc (by omega) h2 hi (hp.zeq k0 h2) h3
    refine ⟨k0, ⟨h2, by omega, h3.symm, ?_⟩, ?_⟩
    · exact (kept_in_class c hc lead pred hl red hr hi h2 (by omega) h3.symm).2 (Or.inl ⟨h1, hpk⟩)
    · rintro y ⟨hy, hyi, hyz, hyr⟩
      rcases (kept_in_class c hc lead pred hl red hr hi hy (Ne.symm hyi) hyz).1 hyr with h | h
      · by_contra hne
        rcases Nat.lt_or_gt_of_ne hne with hlt | hgt
        · exact hmin y hlt ⟨h.1, hy, hyz.symm⟩
        · refine hp.greatest y k0 hy (by omega) hgt ?_
          exact c.zeq_trans hc h2 hi hy h3 hyz
      · exact absurd h3 (h.2.2 k0 h2 h1)
  · -- `i` is the greatest element: the closing edge
    have hgr : ∀ k, k ≤ n → i < k → ¬ ZEq c.e k i := fun k hk hik hz => hg ⟨k, hik, hk, hz⟩
    have hli : lead i < i := by
      obtain ⟨j, hj, hji, hjz⟩ := hns
      have h1 := hl.least i j hi hj hjz.symm
      have h2 := hl.le i hi
      rcases Nat.lt_or_gt_of_ne hji with h | h
      · omega
      · exact absurd hjz.symm (hgr j hj h)
    have hln := lead_le_n c lead hl hi
    refine ⟨lead i, ⟨hln, by omega, (hl.zeq i hi).symm, ?_⟩, ?_⟩
    · exact (kept_in_class c hc lead pred hl red hr hi hln (by omega) (hl.zeq i hi).symm).2
        (Or.inr ⟨hli, rfl, hgr⟩)
    · rintro y ⟨hy, hyi, hyz, hyr⟩
      rcases (kept_in_class c hc lead pred hl red hr hi hy (Ne.symm hyi) hyz).1 hyr with h | h
      · exact absurd hyz.symm (hgr y hy h.1)
      · exact h.2.1.symm

include hc hl hp hr in
/-- M4: an element of a non-singleton class has exactly one kept incoming entry inside its class -/
theorem bds_reduced_chain_in (i : Nat) (hi : i ≤ n) (hns : ∃ j, j ≤ n ∧ j ≠ i ∧ ZEq c.e i j) :
    ∃! j, j ≤ n ∧ j ≠ i ∧ ZEq c.e i j ∧ red j i = false := by
  by_cases hlead : lead i = i
  · -- a leader: the closing edge from the greatest element of the class
    obtain ⟨g, h1, h2, h3, h4⟩ := exists_greatest c hc (n - i) i hi le_rfl
    have hgi : g ≠ i := by
      rintro rfl
      obtain ⟨j, hj, hji, hjz⟩ := hns
      have := hl.least g j hi hj hjz.symm
      rcases Nat.lt_or_gt_of_ne hji with h | h
      · omega
      · exact h4 j hj h hjz.symm
    have hlg : lead g = i := by rw [lead_eq_of_zeq c hc lead hl h2 hi h3, hlead]
    refine ⟨g, ⟨h2, hgi, h3.symm, ?_⟩, ?_⟩
    · exact (kept_in_class c hc lead pred hl red hr h2 hi hgi h3).2 (Or.inr ⟨by omega, hlg, h4⟩)
    · rintro y ⟨hy, hyi, hyz, hyr⟩
      rcases (kept_in_class c hc lead pred hl red hr hy hi hyi hyz.symm).1 hyr with h | h
      · have := hl.least i y hi hy hyz.symm
        omega
      · by_contra hne
        have hyg : ZEq c.e y g := c.zeq_trans hc hy hi h2 hyz.symm h3.symm
        rcases Nat.lt_or_gt_of_ne hne with hlt | hgt
        · exact h.2.2 g h2 hlt hyg.symm
        · exact h4 y hy hgt hyg
  · -- a non-leader: the chain edge from its predecessor
    have hli : lead i < i := by have := hl.le i hi; omega
    have hpl := pred_lt c pred hp hi hli (hl.zeq i hi)
    have hpn : pred i ≤ n := by omega
    refine ⟨pred i, ⟨hpn, by omega, (hp.zeq i hi).symm, ?_⟩, ?_⟩
    · exact (kept_in_class c hc lead pred hl red hr hpn hi (by omega) (hp.zeq i hi)).2 (Or.inl ⟨hpl, rfl⟩)
    · rintro y ⟨hy, hyi, hyz, hyr⟩
      rcases (kept_in_class c hc lead pred hl red hr hy hi hyi hyz.symm).1 hyr with h | h
      · exact h.2.symm
      · exfalso
        apply hlead
        rw [← h.2.1]
        exact lead_idem c hc lead hl hy

end red
end PPLV.WR
