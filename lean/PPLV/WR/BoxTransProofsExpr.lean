import PPLV.WR.BoxTransProofsBase
import Mathlib.Tactic.Linarith
import Mathlib.Tactic.Ring
import Mathlib.Tactic.LinearCombination
/-!
# C03 stage 4 — linear expressions and constraints of the box model

Values of `LinExpr` on a point, the list `terms` that the `const_iterator` visits, the builders
(`add`, `sub`, `neg`, `scale`, `const`, `var`), and the constraint constructor `mkCon` with its
`strong_normalize()`: gcd division and sign normalisation keep the solution set.
-/
set_option linter.unusedVariables false
namespace PPLV.WR.BoxT
open PPLV.Interval
open PPLV.Interval.ExtRat (ninf fin pinf)

/-- `Σ a_i * x_i` over a list of terms -/
def termSum (ts : List (Nat × Int)) (x : Nat → Rat) : Rat := (ts.map fun t => (t.2 : Rat) * x t.1).sum

@[simp] theorem termSum_nil (x : Nat → Rat) : termSum [] x = 0 := rfl
@[simp] theorem termSum_cons (t : Nat × Int) (ts : List (Nat × Int)) (x : Nat → Rat) :
    termSum (t :: ts) x = (t.2 : Rat) * x t.1 + termSum ts x := by simp [termSum]

namespace LinExpr

/-! ### `dot`, `termsFrom` -/

theorem dot_eq_termSum (i : Nat) (as : List Int) (x : Nat → Rat) :
    dot i as x = termSum (termsFrom i as) x := by
  induction as generalizing i with
  | nil => simp [dot, termsFrom]
  | cons a as ih =>
    simp only [dot, termsFrom]
    by_cases h : a = 0
    · subst h; simp [ih]
    · have h' : (a == 0) = false := by simpa using h
      simp [h', ih]

theorem mem_termsFrom_iff {i j : Nat} {a : Int} {as : List Int} :
    (j, a) ∈ termsFrom i as ↔ a ≠ 0 ∧ ∃ k, j = i + k ∧ as[k]? = some a := by
  induction as generalizing i with
  | nil => simp [termsFrom]
  | cons b bs ih =>
    simp only [termsFrom]
    constructor
    · intro h
      have h2 : ((j, a) = (i, b) ∧ b ≠ 0) ∨ (j, a) ∈ termsFrom (i + 1) bs := by
        by_cases hb : b = 0
        · subst hb; right; simpa using h
        · have h' : (b == 0) = false := by simpa using hb
          rw [h'] at h
          simp only [Bool.false_eq_true, if_false, List.mem_cons] at h
          rcases h with h | h
          · left; exact ⟨h, hb⟩
          · right; exact h
      rcases h2 with ⟨h, hb⟩ | h
      · cases h
        exact ⟨hb, 0, by simp, by simp⟩
      · obtain ⟨ha, k, hk, hk2⟩ := ih.1 h
        exact ⟨ha, k + 1, by omega, by simpa using hk2⟩
    · rintro ⟨ha, k, hk, hk2⟩
      cases k with
      | zero =>
        simp at hk2
        subst hk2
        have h' : (b == 0) = false := by simpa using ha
        simp [h', hk]
      | succ k =>
        have : (j, a) ∈ termsFrom (i + 1) bs := ih.2 ⟨ha, k, by omega, by simpa using hk2⟩
        by_cases hb : b = 0
        · subst hb; simpa using this
        · have h' : (b == 0) = false := by simpa using hb
          simp [h', this]

theorem termsFrom_pairwise (i : Nat) (as : List Int) :
    (termsFrom i as).Pairwise (fun s t => s.1 < t.1) := by
  induction as generalizing i with
  | nil => simp [termsFrom]
  | cons b bs ih =>
    simp only [termsFrom]
    split
    · exact ih (i + 1)
    · refine List.Pairwise.cons ?_ (ih (i + 1))
      rintro ⟨j, a⟩ hm
      obtain ⟨_, k, hk, _⟩ := mem_termsFrom_iff.1 hm
      show i < j
      omega

theorem getD_ne_zero {as : List Int} {k : Nat} {a : Int} (ha : a ≠ 0) :
    as[k]? = some a ↔ as.getD k 0 = a := by
  constructor
  · intro h; simp [List.getD, h]
  · intro h
    cases h2 : as[k]? with
    | none => simp [List.getD, h2] at h; exact absurd h.symm ha
    | some c => simp [List.getD, h2] at h; simp [h]

/-! ### `terms` -/

theorem mem_terms_iff {e : LinExpr} {i : Nat} {a : Int} : (i, a) ∈ e.terms ↔ a ≠ 0 ∧ e.coeff i = a := by
  unfold terms coeff
  rw [mem_termsFrom_iff]
  constructor
  · rintro ⟨ha, k, hk, hk2⟩
    have : i = k := by omega
    subst this
    exact ⟨ha, (getD_ne_zero ha).1 hk2⟩
  · rintro ⟨ha, h⟩
    exact ⟨ha, i, by omega, (getD_ne_zero ha).2 h⟩

theorem coeff_eq_zero_of_length_le {e : LinExpr} {i : Nat} (h : e.coeffs.length ≤ i) : e.coeff i = 0 := by
  simp [coeff, List.getD, List.getElem?_eq_none h]

theorem lt_length_of_coeff_ne_zero {e : LinExpr} {i : Nat} (h : e.coeff i ≠ 0) : i < e.coeffs.length := by
  by_contra hc
  exact h (coeff_eq_zero_of_length_le (by omega))

theorem mem_terms {e : LinExpr} {i : Nat} {a : Int} (h : (i, a) ∈ e.terms) :
    a ≠ 0 ∧ e.coeff i = a ∧ i < e.coeffs.length := by
  obtain ⟨ha, hc⟩ := mem_terms_iff.1 h
  exact ⟨ha, hc, lt_length_of_coeff_ne_zero (by rw [hc]; exact ha)⟩

theorem mem_terms_lt {e : LinExpr} {n i : Nat} {a : Int} (hwf : e.WF n) (h : (i, a) ∈ e.terms) : i < n :=
  Nat.lt_of_lt_of_le (mem_terms h).2.2 hwf

theorem mem_terms_of_coeff_ne_zero {e : LinExpr} {i : Nat} (h : e.coeff i ≠ 0) : (i, e.coeff i) ∈ e.terms :=
  mem_terms_iff.2 ⟨h, rfl⟩

theorem terms_pairwise (e : LinExpr) : e.terms.Pairwise (fun s t => s.1 < t.1) :=
  termsFrom_pairwise 0 e.coeffs

theorem coeff_eq_zero_of_not_mem_terms {e : LinExpr} {i : Nat} (h : ∀ a, (i, a) ∉ e.terms) : e.coeff i = 0 := by
  by_contra hc
  exact h _ (mem_terms_of_coeff_ne_zero hc)

theorem not_mem_terms_of_coeff_eq_zero {e : LinExpr} {i : Nat} (h : e.coeff i = 0) (a : Int) : (i, a) ∉ e.terms := by
  intro hm
  obtain ⟨ha, hc⟩ := mem_terms_iff.1 hm
  exact ha (by rw [← hc, h])

theorem terms_eq_nil_iff {e : LinExpr} : e.terms = [] ↔ ∀ i, e.coeff i = 0 := by
  constructor
  · intro h i
    apply coeff_eq_zero_of_not_mem_terms
    intro a; rw [h]; simp
  · intro h
    rw [List.eq_nil_iff_forall_not_mem]
    rintro ⟨i, a⟩ hm
    exact not_mem_terms_of_coeff_eq_zero (h i) a hm

theorem eval_eq_terms (e : LinExpr) (x : Nat → Rat) : e.eval x = termSum e.terms x + (e.inhom : Rat) := by
  unfold eval terms; rw [dot_eq_termSum]

theorem terms_singleton {e : LinExpr} {v : Nat} {a : Int} (h : e.terms = [(v, a)]) (x : Nat → Rat) :
    e.eval x = (a : Rat) * x v + e.inhom := by
  rw [eval_eq_terms, h]; simp

/-! ### the builders -/

theorem dot_zip (f : Int → Int → Int) (α β : Rat)
    (hf : ∀ a b : Int, ((f a b : Int) : Rat) = α * a + β * b) (i : Nat) (as bs : List Int) (x : Nat → Rat) :
    dot i (zipCoeffs f as bs) x = α * dot i as x + β * dot i bs x := by
  induction as generalizing i bs with
  | nil =>
    induction bs generalizing i with
    | nil => simp [zipCoeffs, dot]
    | cons b bs ihb =>
      simp only [zipCoeffs] at ihb
      simp only [zipCoeffs, List.map_cons, dot, ihb, hf]
      simp; ring
  | cons a as ih =>
    cases bs with
    | nil =>
      simp only [zipCoeffs, dot, ih, hf]
      simp; ring
    | cons b bs =>
      simp only [zipCoeffs, dot, ih, hf]
      ring

theorem getD_zip (f : Int → Int → Int) (hf : f 0 0 = 0) (as bs : List Int) (k : Nat) :
    (zipCoeffs f as bs).getD k 0 = f (as.getD k 0) (bs.getD k 0) := by
  induction as generalizing bs k with
  | nil =>
    induction bs generalizing k with
    | nil => simp [zipCoeffs, hf]
    | cons b bs ihb =>
      cases k with
      | zero => simp [zipCoeffs]
      | succ k => simpa [zipCoeffs] using ihb k
  | cons a as ih =>
    cases bs with
    | nil =>
      cases k with
      | zero => simp [zipCoeffs]
      | succ k => simpa [zipCoeffs] using ih [] k
    | cons b bs =>
      cases k with
      | zero => simp [zipCoeffs]
      | succ k => simpa [zipCoeffs] using ih bs k

theorem length_zip (f : Int → Int → Int) (as bs : List Int) :
    (zipCoeffs f as bs).length = max as.length bs.length := by
  induction as generalizing bs with
  | nil =>
    induction bs with
    | nil => simp [zipCoeffs]
    | cons b bs ihb => simp [zipCoeffs]
  | cons a as ih =>
    cases bs with
    | nil => have := ih []; simp [zipCoeffs] at this ⊢; exact this
    | cons b bs => simp [zipCoeffs, ih bs]

theorem dot_map (c : Int) (i : Nat) (as : List Int) (x : Nat → Rat) :
    dot i (as.map fun a => c * a) x = (c : Rat) * dot i as x := by
  induction as generalizing i with
  | nil => simp [dot]
  | cons a as ih => simp only [List.map, dot, ih]; push_cast; ring

theorem dot_map_neg (i : Nat) (as : List Int) (x : Nat → Rat) :
    dot i (as.map fun a => -a) x = - dot i as x := by
  induction as generalizing i with
  | nil => simp [dot]
  | cons a as ih => simp only [List.map, dot, ih]; push_cast; ring

@[simp] theorem eval_add (e f : LinExpr) (x : Nat → Rat) : (e.add f).eval x = e.eval x + f.eval x := by
  simp only [eval, add]
  rw [dot_zip (· + ·) 1 1 (by intro a b; push_cast; ring)]
  push_cast; ring

@[simp] theorem eval_sub (e f : LinExpr) (x : Nat → Rat) : (e.sub f).eval x = e.eval x - f.eval x := by
  simp only [eval, sub]
  rw [dot_zip (· - ·) 1 (-1) (by intro a b; push_cast; ring)]
  push_cast; ring

@[simp] theorem eval_neg (e : LinExpr) (x : Nat → Rat) : e.neg.eval x = - e.eval x := by
  simp only [eval, neg, dot_map_neg]; push_cast; ring

@[simp] theorem eval_scale (k : Int) (e : LinExpr) (x : Nat → Rat) : (e.scale k).eval x = (k : Rat) * e.eval x := by
  simp only [eval, scale, dot_map]; push_cast; ring

@[simp] theorem eval_const (n : Int) (x : Nat → Rat) : (LinExpr.const n).eval x = (n : Rat) := by
  simp [eval, LinExpr.const, dot]

theorem dot_var (i v : Nat) (k : Int) (x : Nat → Rat) :
    dot i (List.replicate v 0 ++ [k]) x = (k : Rat) * x (i + v) := by
  induction v generalizing i with
  | zero => simp [dot]
  | succ v ih =>
    simp only [List.replicate_succ, List.cons_append, dot, ih]
    have : i + 1 + v = i + (v + 1) := by omega
    rw [this]; simp

@[simp] theorem eval_var (k : Int) (v : Nat) (x : Nat → Rat) : (LinExpr.var k v).eval x = (k : Rat) * x v := by
  simp [eval, LinExpr.var, dot_var]

@[simp] theorem coeff_add (e f : LinExpr) (i : Nat) : (e.add f).coeff i = e.coeff i + f.coeff i := by
  simp only [coeff, add]; exact getD_zip (· + ·) (by simp) _ _ _

@[simp] theorem coeff_sub (e f : LinExpr) (i : Nat) : (e.sub f).coeff i = e.coeff i - f.coeff i := by
  simp only [coeff, sub]; exact getD_zip (· - ·) (by simp) _ _ _

theorem getD_map0 (g : Int → Int) (hg : g 0 = 0) (as : List Int) (i : Nat) :
    (as.map g).getD i 0 = g (as.getD i 0) := by
  simp only [List.getD, List.getElem?_map]
  cases as[i]? <;> simp [hg]

@[simp] theorem coeff_neg (e : LinExpr) (i : Nat) : e.neg.coeff i = - e.coeff i := by
  simp only [coeff, neg]; exact getD_map0 (fun a => -a) (by simp) _ _

@[simp] theorem coeff_scale (k : Int) (e : LinExpr) (i : Nat) : (e.scale k).coeff i = k * e.coeff i := by
  simp only [coeff, scale]; exact getD_map0 (fun a => k * a) (by simp) _ _

@[simp] theorem coeff_const (n : Int) (i : Nat) : (LinExpr.const n).coeff i = 0 := by
  simp [coeff, LinExpr.const]

theorem getD_var (v : Nat) (k : Int) (i : Nat) :
    (List.replicate v (0 : Int) ++ [k]).getD i 0 = if i = v then k else 0 := by
  induction v generalizing i with
  | zero => cases i <;> simp
  | succ v ih =>
    cases i with
    | zero => simp [List.replicate_succ]
    | succ i => simpa [List.replicate_succ] using ih i

theorem coeff_var (k : Int) (v i : Nat) : (LinExpr.var k v).coeff i = if i = v then k else 0 := by
  simp only [coeff, LinExpr.var]; exact getD_var v k i

@[simp] theorem coeff_var_same (k : Int) (v : Nat) : (LinExpr.var k v).coeff v = k := by simp [coeff_var]

theorem coeff_var_other (k : Int) {v i : Nat} (h : i ≠ v) : (LinExpr.var k v).coeff i = 0 := by simp [coeff_var, h]

/-! ### changing the point -/

theorem dot_congr (i : Nat) (as : List Int) (x y : Nat → Rat)
    (h : ∀ k, as.getD k 0 ≠ 0 → y (i + k) = x (i + k)) : dot i as y = dot i as x := by
  induction as generalizing i with
  | nil => simp [dot]
  | cons a as ih =>
    simp only [dot]
    have h1 : dot (i + 1) as y = dot (i + 1) as x := by
      apply ih
      intro k hk
      have := h (k + 1) (by simpa using hk)
      have e : i + 1 + k = i + (k + 1) := by omega
      rw [e]; exact this
    rw [h1]
    by_cases ha : a = 0
    · subst ha; simp
    · have := h 0 (by simpa using ha)
      simp at this; rw [this]

theorem eval_congr {e : LinExpr} {x y : Nat → Rat} (h : ∀ k, e.coeff k ≠ 0 → y k = x k) : e.eval y = e.eval x := by
  unfold eval
  rw [dot_congr 0 e.coeffs x y (by intro k hk; simpa using h k hk)]

theorem dot_upd (i : Nat) (as : List Int) (x : Nat → Rat) (v : Nat) (y : Rat) :
    dot i as (upd x v y) = dot i as x + ((if i ≤ v then as.getD (v - i) 0 else 0 : Int) : Rat) * (y - x v) := by
  induction as generalizing i with
  | nil => simp [dot]
  | cons a as ih =>
    simp only [dot, ih]
    rcases Nat.lt_trichotomy i v with h | h | h
    · have h1 : i + 1 ≤ v := h
      have h2 : i ≤ v := by omega
      have h3 : v - i = (v - (i + 1)) + 1 := by omega
      rw [if_pos h1, if_pos h2, h3, upd_other x y (by omega)]
      simp
      ring
    · subst h
      simp
      ring
    · have h1 : ¬ i + 1 ≤ v := by omega
      have h2 : ¬ i ≤ v := by omega
      rw [if_neg h1, if_neg h2, upd_other x y (by omega)]
      ring

theorem eval_upd (e : LinExpr) (x : Nat → Rat) (v : Nat) (y : Rat) :
    e.eval (upd x v y) = e.eval x + (e.coeff v : Rat) * (y - x v) := by
  unfold eval coeff
  rw [dot_upd]; simp; ring

theorem eval_upd_of_coeff_zero {e : LinExpr} {x : Nat → Rat} {v : Nat} {y : Rat} (h : e.coeff v = 0) :
    e.eval (upd x v y) = e.eval x := by
  rw [eval_upd, h]; simp

/-! ### well-formedness of the builders -/

theorem WF.add {e f : LinExpr} {n : Nat} (he : e.WF n) (hf : f.WF n) : (e.add f).WF n := by
  unfold WF at *; simp only [LinExpr.add, length_zip]; omega

theorem WF.sub {e f : LinExpr} {n : Nat} (he : e.WF n) (hf : f.WF n) : (e.sub f).WF n := by
  unfold WF at *; simp only [LinExpr.sub, length_zip]; omega

theorem WF.neg {e : LinExpr} {n : Nat} (he : e.WF n) : e.neg.WF n := by
  unfold WF at *; simpa [LinExpr.neg] using he

theorem WF.scale {e : LinExpr} {n : Nat} (k : Int) (he : e.WF n) : (e.scale k).WF n := by
  unfold WF at *; simpa [LinExpr.scale] using he

theorem WF.const (k : Int) (n : Nat) : (LinExpr.const k).WF n := by
  simp [WF, LinExpr.const]

theorem WF.var (k : Int) {v n : Nat} (h : v < n) : (LinExpr.var k v).WF n := by
  simp [WF, LinExpr.var]; omega

theorem WF.mono {e : LinExpr} {n m : Nat} (he : e.WF n) (h : n ≤ m) : e.WF m := Nat.le_trans he h

end LinExpr

/-! ## `mkCon` -/

theorem foldl_gcd_dvd (l : List Int) (g0 : Nat) :
    (l.foldl (fun g a => Nat.gcd g a.natAbs) g0 ∣ g0) ∧
    ∀ a ∈ l, ((l.foldl (fun g a => Nat.gcd g a.natAbs) g0 : Nat) : Int) ∣ a := by
  induction l generalizing g0 with
  | nil => simp
  | cons b bs ih =>
    obtain ⟨h1, h2⟩ := ih (Nat.gcd g0 b.natAbs)
    simp only [List.foldl_cons]
    refine ⟨Nat.dvd_trans h1 (Nat.gcd_dvd_left _ _), ?_⟩
    intro a ha
    rcases List.mem_cons.1 ha with rfl | ha
    · exact Int.natCast_dvd.2 (Nat.dvd_trans h1 (Nat.gcd_dvd_right _ _))
    · exact h2 a ha

theorem gcdList_dvd {l : List Int} {a : Int} (h : a ∈ l) : ((gcdList l : Nat) : Int) ∣ a :=
  (foldl_gcd_dvd l 0).2 a h

/-- the division by the gcd of `strong_normalize()` -/
def gcdNorm (e : LinExpr) : LinExpr :=
  let g := gcdList (e.inhom :: e.coeffs)
  if g > 1 then ⟨e.coeffs.map (fun a => a / (g : Int)), e.inhom / (g : Int)⟩ else e

theorem dot_map_div (g : Int) (hg : g ≠ 0) (i : Nat) (as : List Int) (h : ∀ a ∈ as, g ∣ a) (x : Nat → Rat) :
    LinExpr.dot i (as.map fun a => a / g) x * (g : Rat) = LinExpr.dot i as x := by
  induction as generalizing i with
  | nil => simp [LinExpr.dot]
  | cons a as ih =>
    have h1 : ((a / g : Int) : Rat) * (g : Rat) = (a : Rat) := by
      exact_mod_cast Int.ediv_mul_cancel (h a (by simp))
    have h2 := ih (i + 1) (fun a ha => h a (by simp [ha]))
    simp only [List.map, LinExpr.dot]
    linear_combination (x i) * h1 + h2

theorem gcdNorm_eval (e : LinExpr) (x : Nat → Rat) :
    ∃ c : Rat, 0 < c ∧ e.eval x = (gcdNorm e).eval x * c := by
  unfold gcdNorm
  simp only []
  split
  · rename_i hg
    refine ⟨((gcdList (e.inhom :: e.coeffs) : Nat) : Rat), by exact_mod_cast (by omega : 0 < gcdList (e.inhom :: e.coeffs)), ?_⟩
    have hg0 : ((gcdList (e.inhom :: e.coeffs) : Nat) : Int) ≠ 0 := by
      have : 0 < gcdList (e.inhom :: e.coeffs) := by omega
      exact_mod_cast (by omega : gcdList (e.inhom :: e.coeffs) ≠ 0)
    have h1 := dot_map_div ((gcdList (e.inhom :: e.coeffs) : Nat) : Int) hg0 0 e.coeffs
      (fun a ha => gcdList_dvd (by simp [ha])) x
    have h2 : ((e.inhom / ((gcdList (e.inhom :: e.coeffs) : Nat) : Int) : Int) : Rat)
        * (((gcdList (e.inhom :: e.coeffs) : Nat) : Int) : Rat) = (e.inhom : Rat) := by
      exact_mod_cast Int.ediv_mul_cancel (gcdList_dvd (a := e.inhom) (by simp))
    simp only [LinExpr.eval]
    push_cast at h1 h2 ⊢
    linear_combination (-1 : Rat) * h1 - h2
  · exact ⟨1, by norm_num, by simp⟩

theorem gcdNorm_WF {e : LinExpr} {n : Nat} (h : e.WF n) : (gcdNorm e).WF n := by
  unfold gcdNorm LinExpr.WF at *
  simp only []
  split
  · simpa using h
  · exact h

theorem mkCon_ty (e : LinExpr) (ty : CType) : (mkCon e ty).ty = ty := rfl

theorem mkCon_e_cases (e : LinExpr) (ty : CType) :
    (mkCon e ty).e = gcdNorm e ∨ (ty = .eq ∧ (mkCon e ty).e = (gcdNorm e).neg) := by
  have h : (mkCon e ty).e =
      if ty == .eq then
        match (gcdNorm e).terms with
        | (_, a) :: _ => if a < 0 then (gcdNorm e).neg else gcdNorm e
        | [] => gcdNorm e
      else gcdNorm e := rfl
  rw [h]
  by_cases ht : ty = .eq
  · subst ht
    simp only [beq_self_eq_true, if_true]
    split
    · split
      · right; exact ⟨by trivial, rfl⟩
      · left; rfl
    · left; rfl
  · have : (ty == CType.eq) = false := by simpa using ht
    rw [this]; left; rfl

/-- gcd division and sign normalisation keep the solution set -/
theorem mkCon_holds (e : LinExpr) (ty : CType) (x : Nat → Rat) :
    (mkCon e ty).holds x ↔ (⟨e, ty⟩ : Con).holds x := by
  obtain ⟨c, hc, hev⟩ := gcdNorm_eval e x
  rcases mkCon_e_cases e ty with h | ⟨ht, h⟩
  · unfold Con.holds
    rw [mkCon_ty, h]
    simp only []
    rw [hev]
    cases ty
    · simp only []
      constructor
      · intro h0; rw [h0]; simp
      · intro h0
        rcases mul_eq_zero.1 h0 with h1 | h1
        · exact h1
        · exact absurd h1 (ne_of_gt hc)
    · simp only []
      constructor
      · intro h0; exact mul_nonneg h0 (le_of_lt hc)
      · intro h0
        by_contra hn
        have := mul_neg_of_neg_of_pos (not_le.1 hn) hc
        linarith
    · simp only []
      constructor
      · intro h0; exact mul_pos h0 hc
      · intro h0
        by_contra hn
        have := mul_nonpos_of_nonpos_of_nonneg (not_lt.1 hn) (le_of_lt hc)
        linarith
  · subst ht
    unfold Con.holds
    rw [mkCon_ty, h]
    simp only [LinExpr.eval_neg]
    rw [hev]
    constructor
    · intro h0
      have : (gcdNorm e).eval x = 0 := by linarith
      rw [this]; simp
    · intro h0
      rcases mul_eq_zero.1 h0 with h1 | h1
      · rw [h1]; simp
      · exact absurd h1 (ne_of_gt hc)

theorem mkCon_WF {e : LinExpr} {n : Nat} {ty : CType} (h : e.WF n) : (mkCon e ty).e.WF n := by
  rcases mkCon_e_cases e ty with h1 | ⟨_, h1⟩
  · rw [h1]; exact gcdNorm_WF h
  · rw [h1]; exact LinExpr.WF.neg (gcdNorm_WF h)

/-! ## the five builders -/

theorem conGe_holds (e1 e2 : LinExpr) (x : Nat → Rat) : (conGe e1 e2).holds x ↔ e2.eval x ≤ e1.eval x := by
  unfold conGe; rw [mkCon_holds]; simp only [Con.holds, LinExpr.eval_sub]
  constructor <;> intro h <;> linarith

theorem conGt_holds (e1 e2 : LinExpr) (x : Nat → Rat) : (conGt e1 e2).holds x ↔ e2.eval x < e1.eval x := by
  unfold conGt; rw [mkCon_holds]; simp only [Con.holds, LinExpr.eval_sub]
  constructor <;> intro h <;> linarith

theorem conEq_holds (e1 e2 : LinExpr) (x : Nat → Rat) : (conEq e1 e2).holds x ↔ e1.eval x = e2.eval x := by
  unfold conEq; rw [mkCon_holds]; simp only [Con.holds, LinExpr.eval_sub]
  constructor <;> intro h <;> linarith

theorem conLe_holds (e1 e2 : LinExpr) (x : Nat → Rat) : (conLe e1 e2).holds x ↔ e1.eval x ≤ e2.eval x :=
  conGe_holds e2 e1 x

theorem conLt_holds (e1 e2 : LinExpr) (x : Nat → Rat) : (conLt e1 e2).holds x ↔ e1.eval x < e2.eval x :=
  conGt_holds e2 e1 x

theorem conGe_WF {e1 e2 : LinExpr} {n : Nat} (h1 : e1.WF n) (h2 : e2.WF n) : (conGe e1 e2).e.WF n :=
  mkCon_WF (LinExpr.WF.sub h1 h2)
theorem conGt_WF {e1 e2 : LinExpr} {n : Nat} (h1 : e1.WF n) (h2 : e2.WF n) : (conGt e1 e2).e.WF n :=
  mkCon_WF (LinExpr.WF.sub h1 h2)
theorem conEq_WF {e1 e2 : LinExpr} {n : Nat} (h1 : e1.WF n) (h2 : e2.WF n) : (conEq e1 e2).e.WF n :=
  mkCon_WF (LinExpr.WF.sub h1 h2)
theorem conLe_WF {e1 e2 : LinExpr} {n : Nat} (h1 : e1.WF n) (h2 : e2.WF n) : (conLe e1 e2).e.WF n :=
  conGe_WF h2 h1
theorem conLt_WF {e1 e2 : LinExpr} {n : Nat} (h1 : e1.WF n) (h2 : e2.WF n) : (conLt e1 e2).e.WF n :=
  conGt_WF h2 h1

/-! ## non-vacuity -/

example : (mkCon ⟨[-2, 4], 6⟩ .eq) = ⟨⟨[1, -2], -3⟩, .eq⟩ := by decide
example : (LinExpr.mk [0, 3, 0, -1] 5).terms = [(1, 3), (3, -1)] := by decide
example : (conLe (LinExpr.var 2 0) (LinExpr.const 4)).holds (fun _ => 1) :=
  (conLe_holds _ _ _).2 (by simp; norm_num)

end PPLV.WR.BoxT
