import PPLV.WR.Closure
/-!
# `BD_Shape<T>`: shortest-path reduction, the readers of `redundancy_dbm`, the exact-join test
(executable model, no Mathlib)

Code-shaped models of (`/repo/src/BD_Shape_templates.hh`, `/repo/src/BD_Shape.cc`)

* `BD_Shape<T>::compute_predecessors` (l. 979), `compute_leaders` (l. 1011), `compute_leader_indices`
  (`BD_Shape.cc` l. 85),
* `BD_Shape<T>::shortest_path_reduction_assign` (l. 2072): Step 1 (zero-equivalence classes), Step 2 (the
  redundancy test among leaders), Step 3 (the single 0-cycle through every non-singleton class),
* `BD_Shape<T>::minimized_constraints` (l. 6508), `constraints` (l. 6428), `affine_dimension` (l. 331),
  `is_shortest_path_reduced` (l. 1031),
* `BD_Shape<T>::BHZ09_upper_bound_assign_if_exact<false>` (l. 2383): the test only (the assignment is the
  pointwise maximum).

Conventions as in `Closure.lean`: `dbm[i][j]` bounds `x_j - x_i`, index `0` is the zero variable, the stored
main diagonal is `+∞`.  Every `add_assign_r(…, ROUND_UP)` is `addUp up`; the theorems and the tie are for
exact arithmetic (`up = upId`, `mpq_class`).  `std::vector<dimension_type>` is `Vec`, `Bit_Matrix` is `BMat`
(bit `true` = *redundant*, as in `redundancy_dbm`), `std::deque<bool>` is `BVec`.

Loops: `loopDown n` is `for (i = n; i-- > 0; )`, `loopUp n` is `for (i = 0; i < n; ++i)`; a loop starting at
`1` is the same loop with the body guarded by `i = 0`; a loop over the vector of leader indices is a
`List.foldl`; an inner search loop ending in `break` is `findDown` / `List.any`; the two `while (true)` walks
along predecessor chains carry a fuel (`none` on exhaustion — excluded by `bds_reduction_total`).
-/
namespace PPLV.WR
open ExtRat (fin pinf addUp)

/-! ## vectors of indices, bit vectors, bit matrices -/

/-- `std::vector<dimension_type>` (lookup function; the constant field is the compilation barrier of `Mat`) -/
structure Vec where
  f : Nat → Nat
  barrier : Unit := ()

instance : CoeFun Vec (fun _ => Nat → Nat) := ⟨Vec.f⟩

namespace Vec
/-- `for i: v.push_back(i)` -/
def iota : Vec := { f := fun i => i }
def set (v : Vec) (i x : Nat) : Vec := { f := fun a => if a = i then x else v a }
@[simp] theorem set_apply (v : Vec) (i x a : Nat) : (v.set i x) a = if a = i then x else v a := rfl
@[simp] theorem iota_apply (a : Nat) : iota a = a := rfl
def toList (n : Nat) (v : Vec) : List Nat := (List.range n).map fun i => v i
end Vec

/-- `std::deque<bool>` / `std::vector<bool>` -/
structure BVec where
  f : Nat → Bool
  barrier : Unit := ()

instance : CoeFun BVec (fun _ => Nat → Bool) := ⟨BVec.f⟩

namespace BVec
def const (b : Bool) : BVec := { f := fun _ => b }
def set (v : BVec) (i : Nat) (x : Bool) : BVec := { f := fun a => if a = i then x else v a }
@[simp] theorem set_apply (v : BVec) (i : Nat) (x : Bool) (a : Nat) : (v.set i x) a = if a = i then x else v a := rfl
@[simp] theorem const_apply (b : Bool) (a : Nat) : const b a = b := rfl
end BVec

/-- `Bit_Matrix` / `std::vector<Bit_Row>` -/
structure BMat where
  f : Nat → Nat → Bool
  barrier : Unit := ()

instance : CoeFun BMat (fun _ => Nat → Nat → Bool) := ⟨BMat.f⟩

namespace BMat
def const (b : Bool) : BMat := { f := fun _ _ => b }
/-- `row[i].set(j)` (`b = true`) / `row[i].clear(j)` (`b = false`) -/
def put (r : BMat) (i j : Nat) (b : Bool) : BMat := { f := fun a c => if a = i ∧ c = j then b else r a c }
@[simp] theorem put_apply (r : BMat) (i j : Nat) (b : Bool) (a c : Nat) :
    (r.put i j b) a c = if a = i ∧ c = j then b else r a c := rfl
@[simp] theorem const_apply (b : Bool) (a c : Nat) : const b a c = b := rfl
def toLists (rows : Nat) (rowLen : Nat → Nat) (r : BMat) : List (List Bool) :=
  (List.range rows).map fun i => (List.range (rowLen i)).map fun j => r i j
def ofLists (rows : List (List Bool)) (dflt : Bool) : BMat := { f := fun i j => (rows.getD i []).getD j dflt }
end BMat

/-- `for (j = n; j-- > 0; ) if (c(j)) { …; break; }` — the index at which the loop breaks -/
def findDown : Nat → (Nat → Bool) → Option Nat
  | 0, _ => none
  | j+1, c => if c j then some j else findDown j c

/-! ## zero-equivalence classes -/

/-- `compute_predecessors` (l. 979): `predecessor[i]` is the greatest `j < i` zero-equivalent to `i`
(`dbm[j][i] == -dbm[i][j]`), or `i` itself.  (Both tests `i == predecessor[i]`, `j == predecessor[j]` are
always true when they are evaluated, `predecessor[t]` being written in iteration `t` only; they are kept.) -/
def bdsComputePredecessors (rows : Nat) (m : Mat) : Vec :=
  loopDown rows (fun i pred =>
    if i = 0 then pred                                             -- `for (i = size; i-- > 1; )`
    else if i = pred i then
      match findDown i (fun j => j == pred j && ExtRat.isAddInv (m j i) (m i j)) with
      | some j => pred.set i j
      | none => pred
    else pred) Vec.iota

/-- `compute_leaders` (l. 1011): flatten the predecessor chains -/
def bdsComputeLeaders (rows : Nat) (m : Mat) : Vec :=
  loopUp rows (fun i leaders =>
    if i = 0 then leaders                                          -- `for (i = 1; i != l_size; ++i)`
    else
      let leaders_i := leaders i
      if leaders_i ≠ i then leaders.set i (leaders leaders_i) else leaders)
    (bdsComputePredecessors rows m)

/-- `compute_leader_indices` (`BD_Shape.cc` l. 85): the leaders in increasing order, `0` first -/
def computeLeaderIndices (size : Nat) (predecessor : Vec) : List Nat :=
  loopUp size (fun i indices =>
    if i = 0 then indices
    else if i = predecessor i then indices ++ [i] else indices) [0]

/-! ## `shortest_path_reduction_assign` -/

/-- Step 2 (l. 2112–2131): among leaders, `(i, j)` stays flagged redundant iff some leader `k` has
`dbm[i][j] >= dbm[i][k] + dbm[k][j]` (the stored diagonal being `+∞`, `k = i` and `k = j` only fire for
`dbm[i][j] = +∞`) -/
def bdsStep2 (up : Rat → ExtRat) (leaders : List Nat) (m : Mat) (redundancy : BMat) : BMat :=
  leaders.foldl (fun red i =>
    leaders.foldl (fun red j =>
      if red i j then
        let red := red.put i j false
        if leaders.any (fun k => decide (addUp up (m i k) (m k j) ≤ m i j)) then red.put i j true else red
      else red) red) redundancy

/-- the `while (true)` of Step 3 (l. 2142–2157), started at `j = i` -/
def bdsChainWalk (predecessor : Vec) (i : Nat) : Nat → Nat → BMat × BVec → Option (BMat × BVec)
  | 0, _, _ => none
  | fuel+1, j, (red, dealt_with) =>
    let predecessor_j := predecessor j
    if j = predecessor_j then some (red.put i j false, dealt_with)
    else bdsChainWalk predecessor i fuel predecessor_j (red.put predecessor_j j false, dealt_with.set predecessor_j true)

/-- Step 3 (l. 2136–2159) -/
def bdsStep3 (rows : Nat) (predecessor : Vec) (redundancy : BMat) : Option BMat :=
  (loopDown rows (fun i st =>
    st.bind fun (st : BMat × BVec) =>
      if i ≠ predecessor i && !st.2 i then bdsChainWalk predecessor i (rows + 1) i st else some st)
    (some (redundancy, BVec.const false))).map Prod.fst

/-- `shortest_path_reduction_assign` (l. 2072) on a non-empty shortest-path closed matrix of space dimension
`n ≥ 1`: the new `redundancy_dbm` -/
def bdsShortestPathReduction (up : Rat → ExtRat) (n : Nat) (m : Mat) : Option BMat :=
  let predecessor := bdsComputePredecessors (n+1) m
  let leaders := computeLeaderIndices (n+1) predecessor
  let redundancy := BMat.const true
  bdsStep3 (n+1) predecessor (bdsStep2 up leaders m redundancy)

/-- the constraints kept by the reduction: the matrix with every redundant entry replaced by `+∞` -/
def bdsReducedMat (m : Mat) (red : BMat) : Mat := { f := fun i j => if red i j then pinf else m i j }

/-! ## readers of `redundancy_dbm` -/

/-- a constraint as `minimized_constraints()` / `constraints()` build it: `Σ coeffs_k·x_k (== | <=) rhs` -/
structure LCon where
  isEq : Bool
  coeffs : List Int
  rhs : Int
  deriving DecidableEq, Repr, Inhabited

/-- `numer_denom(q, numer, denom)` of a canonical rational -/
def numerOf (e : ExtRat) : Int := e.toRat.num
def denomOf (e : ExtRat) : Int := e.toRat.den

/-- `a*Variable(p-1) - a*Variable(q-1)` with dbm indices `p`, `q` (`0` = no variable) in dimension `n` -/
def diffCoeffs (n : Nat) (a : Int) (p q : Nat) : List Int :=
  (List.range n).map fun k => (if k + 1 = p then a else 0) - (if k + 1 = q then a else 0)

/-- `minimized_constraints()` (l. 6508) after the reduction -/
def bdsMinimizedConstraints (n : Nat) (m : Mat) (redundancy_dbm : BMat) : List LCon :=
  let leaders := bdsComputeLeaders (n+1) m
  let leader_indices := computeLeaderIndices (n+1) leaders
  let num_leaders := leader_indices.length
  let li := fun (k : Nat) => leader_indices.getD k 0
  -- the non-leaders: equalities
  let cs := loopUp (n+1) (fun i cs =>
    if i = 0 then cs
    else
      let leader := leaders i
      if i ≠ leader then
        if leader = 0 then cs ++ [⟨true, diffCoeffs n (denomOf (m 0 i)) i 0, numerOf (m 0 i)⟩]
        else cs ++ [⟨true, diffCoeffs n (denomOf (m i leader)) leader i, numerOf (m i leader)⟩]
      else cs) []
  -- the leaders: unary inequalities
  let cs := loopUp num_leaders (fun l_i cs =>
    if l_i = 0 then cs
    else
      let i := li l_i
      let cs := if !redundancy_dbm 0 i then cs ++ [⟨false, diffCoeffs n (denomOf (m 0 i)) i 0, numerOf (m 0 i)⟩] else cs
      if !redundancy_dbm i 0 then cs ++ [⟨false, diffCoeffs n (denomOf (m i 0)) 0 i, numerOf (m i 0)⟩] else cs) cs
  -- binary inequalities
  loopUp num_leaders (fun l_i cs =>
    if l_i = 0 then cs
    else
      let i := li l_i
      loopUp num_leaders (fun l_j cs =>
        if l_j ≤ l_i then cs                                        -- `for (l_j = l_i + 1; …)`
        else
          let j := li l_j
          let cs := if !redundancy_dbm i j then cs ++ [⟨false, diffCoeffs n (denomOf (m i j)) j i, numerOf (m i j)⟩] else cs
          if !redundancy_dbm j i then cs ++ [⟨false, diffCoeffs n (denomOf (m j i)) i j, numerOf (m j i)⟩] else cs) cs) cs

/-- `constraints()` (l. 6428) of a non-empty shape not marked reduced -/
def bdsConstraintsAll (n : Nat) (m : Mat) : List LCon :=
  let cs := loopUp (n+1) (fun j cs =>
    if j = 0 then cs
    else
      if ExtRat.isAddInv (m j 0) (m 0 j) then cs ++ [⟨true, diffCoeffs n (denomOf (m 0 j)) j 0, numerOf (m 0 j)⟩]
      else
        let cs := if !(m 0 j).isPinf then cs ++ [⟨false, diffCoeffs n (denomOf (m 0 j)) j 0, numerOf (m 0 j)⟩] else cs
        if !(m j 0).isPinf then cs ++ [⟨false, diffCoeffs n (denomOf (m j 0)) 0 j, numerOf (m j 0)⟩] else cs) []
  loopUp (n+1) (fun i cs =>
    if i = 0 then cs
    else loopUp (n+1) (fun j cs =>
      if j ≤ i then cs
      else
        if ExtRat.isAddInv (m j i) (m i j) then cs ++ [⟨true, diffCoeffs n (denomOf (m i j)) j i, numerOf (m i j)⟩]
        else
          let cs := if !(m i j).isPinf then cs ++ [⟨false, diffCoeffs n (denomOf (m i j)) j i, numerOf (m i j)⟩] else cs
          if !(m j i).isPinf then cs ++ [⟨false, diffCoeffs n (denomOf (m j i)) i j, numerOf (m j i)⟩] else cs) cs) cs

/-- `constraints()`: `marked_shortest_path_reduced() ? minimized_constraints() : …` -/
def bdsConstraints (n : Nat) (m : Mat) (reduced : Bool) (redundancy_dbm : BMat) : List LCon :=
  if reduced then bdsMinimizedConstraints n m redundancy_dbm else bdsConstraintsAll n m

/-- `affine_dimension()` (l. 331) of a non-empty closed shape of dimension `n ≥ 1` -/
def bdsAffineDimension (n : Nat) (m : Mat) : Nat :=
  let predecessor := bdsComputePredecessors (n+1) m
  loopUp (n+1) (fun i affine_dim => if i = 0 then affine_dim else if predecessor i = i then affine_dim + 1 else affine_dim) 0

/-! ### `is_shortest_path_reduced` (l. 1031), for a non-empty shape marked reduced whose closed copy is `m` -/

/-- Step 1 (l. 1058–1074) -/
def isprLeader (n : Nat) (m : Mat) : Vec :=
  loopUp n (fun i leader =>
    loopUp (n+1) (fun j leader =>
      if j ≤ i then leader
      else if ExtRat.isAddInv (m j i) (m i j) then leader.set j (leader i) else leader) leader) Vec.iota

/-- Step 2 (l. 1082–1104): `false` = the function returns `false` here -/
def isprStep2 (up : Rat → ExtRat) (n : Nat) (m : Mat) (leader : Vec) (redundancy_dbm : BMat) : Bool :=
  (List.range (n+1)).all fun k => leader k != k ||
    (List.range (n+1)).all fun i => leader i != i ||
      (List.range (n+1)).all fun j => leader j != j ||
        (m i j).isPinf || !(decide (addUp up (m i k) (m k j) ≤ m i j) && !redundancy_dbm i j)

/-- the row scan of Step 3 (l. 1119–1177) for one `i`: `none` = `return false`, else the new `var_conn[i]` -/
def isprRow (n : Nat) (leader : Vec) (redundancy_dbm : BMat) (i : Nat) : Option (Option Nat) :=
  let leader_i := leader i
  -- state: (t, var_conn_i)
  (loopUp (n+1) (fun j (st : Option (Nat × Option Nat)) =>
    st.bind fun (t, vc) =>
      let leader_j := leader j
      if leader_i = i then
        if j ≠ leader_j then
          if !redundancy_dbm i j then
            if t = 1 then none
            else if leader_j ≠ i then none else some (t + 1, some j)
          else some (t, vc)
        else some (t, vc)
      else
        if !redundancy_dbm i j then
          if leader_i ≠ leader_j then none
          else if t = 1 then none else some (t + 1, some j)      -- (the test `t == 0` that follows is dead)
        else some (t, vc)) (some (0, none))).map Prod.snd

/-- the `while (v_con != i)` of Step 4 (l. 1196–1204): `none` = fuel exhausted, `some false` = `return false` -/
def isprCycle (var_conn : Vec) (i : Nat) : Nat → Nat → BVec → Option (Bool × BVec)
  | 0, _, _ => none
  | fuel+1, v_con, just_checked =>
    if v_con = i then some (true, just_checked)
    else
      let just_checked := just_checked.set v_con true
      let v_con := var_conn v_con
      if just_checked v_con then some (false, just_checked) else isprCycle var_conn i fuel v_con just_checked

/-- `is_shortest_path_reduced()`; `none` only on fuel exhaustion -/
def bdsIsShortestPathReduced (up : Rat → ExtRat) (n : Nat) (m : Mat) (redundancy_dbm : BMat) : Option Bool :=
  let leader := isprLeader n m
  if !isprStep2 up n m leader redundancy_dbm then some false
  else
    -- Step 3: `var_conn[i] = space_dim + 1` means "single variable"
    let step3 : Option Vec := loopUp (n+1) (fun i (vc : Option Vec) =>
      vc.bind fun vc =>
        match isprRow n leader redundancy_dbm i with
        | none => none
        | some none => some vc
        | some (some j) => some (vc.set i j)) (some { f := fun _ => n + 1 })
    match step3 with
    | none => some false
    | some var_conn =>
      -- Step 4
      let r : Option (Bool × BVec) := loopUp (n+1) (fun i (st : Option (Bool × BVec)) =>
        st.bind fun (ok, jc) =>
          if !ok then some (ok, jc)
          else
            let st' : Option (Bool × BVec) :=
              if !jc i then
                let v_con := var_conn i
                if v_con ≠ n + 1 then isprCycle var_conn i (n + 2) v_con jc else some (true, jc)
              else some (true, jc)
            st'.map fun (ok, jc) => (ok, jc.set i true)) (some (true, BVec.const false))
      r.map Prod.fst

/-! ## `BHZ09_upper_bound_assign_if_exact<false>` (l. 2383): both arguments non-empty, closed and reduced -/

/-- `max_assign` -/
def ExtRat.maxA (a b : ExtRat) : ExtRat := if a ≤ b then b else a

/-- `ub.upper_bound_assign(y)`: pointwise maximum -/
def matMax (x y : Mat) : Mat := { f := fun i j => ExtRat.maxA (x i j) (y i j) }

/-- `a < b` on bounds -/
def ExtRat.ltB (a b : ExtRat) : Bool := !decide (b ≤ a)

/-- the four nested loops of `BHZ09_upper_bound_assign_if_exact`: `true` = "the upper bound is exact" -/
def bdsBHZ09 (up : Rat → ExtRat) (n : Nat) (x y : Mat) (x_red y_red : BMat) : Bool :=
  let ub := matMax x y
  let idx := (List.range (n+1)).reverse                            -- `for (i = n + 1; i-- > 0; )`
  idx.all fun i => idx.all fun j =>
    x_red i j ||
    !(ExtRat.ltB (x i j) (y i j)) ||
    idx.all fun k =>
      let ub_k_j := if k = j then fin 0 else ub k j
      idx.all fun ell =>
        y_red k ell ||
        !(ExtRat.ltB (y k ell) (x k ell)) ||
        (let lhs := addUp up (x i j) (y k ell)
         let ub_i_ell := if i = ell then fin 0 else ub i ell
         let rhs := addUp up ub_i_ell ub_k_j
         !(ExtRat.ltB lhs rhs))

end PPLV.WR
