import PPLV.WR.TransOct2LatProofsExact
import PPLV.WR.ReduceProofsUBCompleteOctTight
import PPLV.WR.OctClosedPathsMain
import PPLV.WR.OctClosedModelMain
/-!
# Exact arithmetic: `Octagonal_Shape<T>::upper_bound_assign` computes the least octagon

`strong_closure_assign` over `ℚ` leaves a strongly closed matrix (`OctM.strongClosure_isStronglyClosed`), a
strongly closed matrix is tight (`OctM.IsStronglyClosed.exists_point_ge`): it is canonical (`octLatCanon`).
-/
set_option linter.unusedVariables false
namespace PPLV.WR
open ExtRat

theorem latExactUpO : Rnd.exact.up = upId := rfl

/-- a point satisfies the full coherent view of the matrix -/
theorem octLatFullHolds {n : Nat} {m : Mat} {x : Nat → Rat} (hx : x ∈ γO n m) {a b : Nat} (ha : a < 2 * n)
    (hb : b < 2 * n) : fin (OctM.oval x b - OctM.oval x a) ≤ octFull m a b := by
  by_cases hab : a = b
  · subst hab; rw [octFull_self]; simp
  · rw [octFull_ne m hab]
    by_cases hs : b < rowSize a
    · rw [OCM.mAt_stored m hs]; exact hx a b ⟨ha, hs⟩
    · rw [OCM.mAt_unstored m hs]
      have := hx (cidx b) (cidx a) ⟨cidx_lt hb, swap_stored hs⟩
      rw [latOval_cidx, latOval_cidx] at this
      have e : OctM.oval x b - OctM.oval x a = -OctM.oval x a - -OctM.oval x b := by ring
      rw [e]; exact this

theorem octLatOfMat_e {n : Nat} {m : Mat} (hd : octLatDiag n m) (i j : Nat) (hi : i < 2 * n) :
    (OctM.ofMat n m).e i j = m i j := by
  show Mat.diagUp (2 * n) pinf m i j = m i j
  rw [Mat.diagUp_apply]
  split
  · rename_i hc; obtain ⟨rfl, _⟩ := hc; rw [hd i hi]
  · rfl

theorem octLatOfMat_gamma {n : Nat} {m : Mat} (hd : octLatDiag n m) : OctM.γ (OctM.ofMat n m) = γO n m := by
  rw [OctM.γ_eq]
  ext x
  constructor
  · intro h a b hab
    have := h a b hab
    rw [octLatOfMat_e hd a b hab.1] at this; exact this
  · intro h a b hab
    rw [octLatOfMat_e hd a b hab.1]; exact h a b hab

/-- exact arithmetic: the closure either reports an empty shape, or leaves a strongly closed matrix of the
same shape -/
theorem octLatClose_strong {n : Nat} (hn : n ≠ 0) {m : Mat} (hd : octLatDiag n m) {m' : Mat} {c' : Bool}
    (h : octLatClose upId n false m = some (m', c')) :
    ∃ c : OctM n, c.e = m' ∧ c.IsStronglyClosed ∧ γO n m' = γO n m := by
  unfold octLatClose at h
  simp only [Bool.false_eq_true, if_false, if_neg hn] at h
  unfold octCloseFirst at h
  simp only [Bool.false_eq_true, if_false] at h
  split at h
  · simp at h
  · rename_i hne
    have hne' : OctM.strongClosureEmpty upId (OctM.ofMat n m) = false := by simpa using hne
    simp only [Option.map_some, Option.some.injEq, Prod.mk.injEq] at h
    obtain ⟨rfl, _⟩ := h
    refine ⟨OctM.strongClosure upId (OctM.ofMat n m), rfl,
      OctM.strongClosure_isStronglyClosed octTwo_closed _ hne', ?_⟩
    rw [← OctM.γ_eq, OctM.strongClosure_γ, octLatOfMat_gamma hd]

theorem octLatClose_none_empty {n : Nat} {c : Bool} {m : Mat}
    (h : octLatClose upId n c m = none) (x : Nat → Rat) : x ∉ γO n m := by
  intro hx
  obtain ⟨m', c', h1, _⟩ := octLatClose_sound (up := upId) (fun _ => le_rfl' _) n c m hx
  rw [h] at h1; simp at h1

/-- a strongly closed matrix over `ℚ` is canonical -/
theorem octLatCanon_of_strong {n : Nat} (hn : n ≠ 0) {c : OctM n} (hc : c.IsStronglyClosed) :
    octLatCanon n c.e := by
  constructor
  · have h0 : (0 : Nat) < 2 * n := by omega
    cases hv : octFull c.e 0 0 with
    | pinf =>
      obtain ⟨x, hx, _⟩ := hc.exists_point_ge h0 h0 (w := 0) (by rw [hv]; exact le_pinf _)
      exact ⟨x, (OctM.sat_iff_holds c x).1 hx⟩
    | fin u =>
      obtain ⟨x, hx, _⟩ := hc.exists_point_ge h0 h0 (w := u) (by rw [hv]; exact le_rfl' _)
      exact ⟨x, (OctM.sat_iff_holds c x).1 hx⟩
  · intro d hsub i j hi hj hij
    have := OctM.le_of_γ_subset hc (OctM.ofMat n d) (by
      rw [OctM.γ_eq, OctM.γ_eq]
      intro p hp
      exact holds_diagUp_pinf (hsub hp)) hi hj hij
    have e : (OctM.ofMat n d).e i j = d i j := by
      show Mat.diagUp (2 * n) pinf d i j = d i j
      rw [Mat.diagUp_apply, if_neg (by omega)]
    rw [e] at this; exact this

/-- `upper_bound_assign`, exact arithmetic: the result is below every octagon that contains both arguments.
A set closed flag must mean what it says (`octLatCanon`); with the flags clear there is no hypothesis. -/
theorem octLatUpperBound_least (n : Nat) (c1 c2 : Bool) (m1 m2 : Mat) (hd1 : octLatDiag n m1)
    (hd2 : octLatDiag n m2) (hc1 : c1 = true → octLatCanon n m1) (hc2 : c2 = true → octLatCanon n m2) :
    ∃ r, octLatUpperBound Rnd.exact n c1 m1 c2 m2 = some r ∧ r.dim = n ∧
      ∀ d : Mat, γO n m1 ⊆ γO n d → γO n m2 ⊆ γO n d → γO n r.m ⊆ γO n d := by
  by_cases hn : n = 0
  · subst hn
    have triv : ∀ (a d : Mat), γO 0 a ⊆ γO 0 d := by
      intro a d p _ i j hij; have := hij.1; omega
    unfold octLatUpperBound
    cases octLatClose Rnd.exact.up 0 c2 m2 with
    | none => exact ⟨_, rfl, rfl, fun d _ _ => triv _ d⟩
    | some yc =>
      obtain ⟨y, cy⟩ := yc
      cases octLatClose Rnd.exact.up 0 c1 m1 with
      | none => exact ⟨_, rfl, rfl, fun d _ _ => triv _ d⟩
      | some xc => obtain ⟨x, cx⟩ := xc; exact ⟨_, rfl, rfl, fun d _ _ => triv _ d⟩
  · -- what the closure leaves: canonical, same shape
    have closed : ∀ (c : Bool) (m m' : Mat) (c' : Bool), octLatDiag n m → (c = true → octLatCanon n m) →
        octLatClose upId n c m = some (m', c') → octLatCanon n m' ∧ γO n m' = γO n m := by
      intro c m m' c' hd hc h
      cases c with
      | true =>
        have : m' = m := by
          unfold octLatClose at h
          simp only [if_true, Option.some.injEq, Prod.mk.injEq] at h
          exact h.1.symm
        rw [this]; exact ⟨hc rfl, rfl⟩
      | false =>
        obtain ⟨cc, e, hs, hg⟩ := octLatClose_strong hn hd h
        rw [← e]; exact ⟨octLatCanon_of_strong hn hs, by rw [e]; exact hg⟩
    unfold octLatUpperBound
    rw [latExactUpO]
    cases e2 : octLatClose upId n c2 m2 with
    | none =>
      exact ⟨_, rfl, rfl, fun d h1 _ => h1⟩
    | some yc =>
      obtain ⟨y, cy⟩ := yc
      obtain ⟨cy', gy⟩ := closed c2 m2 y cy hd2 hc2 e2
      cases e1 : octLatClose upId n c1 m1 with
      | none =>
        refine ⟨_, rfl, rfl, fun d _ h2 => ?_⟩
        show γO n y ⊆ γO n d
        rw [gy]; exact h2
      | some xc =>
        obtain ⟨x, cx⟩ := xc
        obtain ⟨cx', gx⟩ := closed c1 m1 x cx hd1 hc1 e1
        refine ⟨_, rfl, rfl, fun d h1 h2 p hp a b hab => ?_⟩
        have hpab := hp a b hab
        change _ ≤ octLatUpperBoundLoop n x y a b at hpab
        rw [octLatUpperBoundLoop_apply, if_pos ⟨hab.1, hab.2⟩] at hpab
        by_cases hne : a = b
        · subst hne
          obtain ⟨q, hq⟩ := cx'.1
          have := h1 (gx ▸ hq) a a hab
          simpa using this
        · exact le_trans' hpab (latMaxA_le (cx'.2 d (by rw [gx]; exact h1) a b hab.1 hab.2 hne)
            (cy'.2 d (by rw [gy]; exact h2) a b hab.1 hab.2 hne))

end PPLV.WR
