import PPLV.WR.TransOct2ProofsBndLe
/-!
# `Octagonal_Shape<T>::bounded_affine_image`: the general `lb_expr`, the branch through an additional dimension,
and all branches together

Hypotheses beyond `CoeffExact` / `HalfFiniteOn` of the closed matrix:

* `hmono : ∀ a b, a ≤ b → R.up a ≤ R.up b` (general `lb_expr` only): the lower-bound kernel reads unary cells that
  the inner `generalized_affine_image` may have lowered, while its sum was accumulated over the old ones; a
  monotone rounding (every real `T`) keeps the rounded box of the new cells inside that of the old ones.
* `HalfFiniteOn` of the INTERMEDIATE matrix `octBoundedExtraMid` (extra-dimension branch only): the upper bound is
  approximated over the unary cells left by `affine_image(new_var, lb_expr, den)` and its incremental closure;
  that halving such a cell does not overflow is true of every real `T` but not derivable for an abstract `up`.
* `el i = 0`, `eu i = 0` for `i ≥ n` (the code checks the space dimensions of the expressions).
-/
set_option linter.unusedVariables false
set_option linter.unusedSimpArgs false
set_option linter.unusedTactic false
namespace PPLV.WR
open ExtRat

/-! ## general `lb_expr` -/

theorem octBoundedAffineImageCore_general_sound {R : Rnd} (hR : R.Sound)
    (hmono : ∀ a b : Rat, a ≤ b → R.up a ≤ R.up b) {n vid : Nat} (hv : vid < n)
    {el eu : Nat → Int} (hcl : CoeffExact R el) (hcu : CoeffExact R eu) {bl bu den : Int} (hden : den ≠ 0) {m : Mat}
    (hh : HalfFiniteOn R.up m) {x : Nat → Rat} (hx : x ∈ γO n m) {t : Rat}
    (hlb : (linEval el x n + bl) / den ≤ t) (hub : t ≤ (linEval eu x n + bu) / den)
    (h0 : ¬ exprT el (lastNonzero el n) = 0)
    (h1 : ¬ (exprT el (lastNonzero el n) = 1 ∧
        (el (lastNonzero el n - 1) = den ∨ el (lastNonzero el n - 1) = - den))) :
    ∃ m', octBoundedAffineImageCore R n vid el bl eu bu den m = some m' ∧ upd x vid t ∈ γO n m' := by
  have hx' : Holds (SO n) (OctM.oval x) m := hx
  obtain ⟨m1, hm1, hx1⟩ := octGenAffineImageCore_sound hR hv hcu hden (b := bu) hh hx true (t := t)
    (by simpa using hub)
  have hle := octGenAffineImageCore_le_unaryLe hR hv hden hm1
  have hx1' : Holds (SO n) (OctM.oval (upd x vid t)) m1 := hx1
  unfold octBoundedAffineImageCore
  dsimp only
  rw [if_neg h0, if_neg h1, hm1]
  simp only [Option.map_some]
  refine ⟨_, rfl, ?_⟩
  show Holds (SO n) (OctM.oval (upd x vid t)) _
  have hw0 : lastNonzero el n ≠ 0 := by
    intro h; apply h0; unfold exprT; rw [if_pos h]
  have hwn := lastNonzero_le el n
  have hval := sc_value el x n bl den
  have hw1 : lastNonzero el n = (lastNonzero el n - 1) + 1 := by omega
  rw [hw1] at hval
  generalize lastNonzero el n - 1 = wid at *
  have hw : wid < n := by omega
  have hd := scDen_pos hden
  rw [octAccStep_false]
  have hneg := octAccLoop_inv hR (hcl.sc den).neg _
    (OAccInv.init hR m (wid + 1) (fun i => - scExpr el den i) (minus_scb_cast bl den).symm) _ le_rfl
  generalize loopUp (wid + 1) (octAccStep R m (fun i => - scExpr el den i) true) _ = st at hneg ⊢
  by_cases hcnt : st.cnt > 1
  · rw [if_pos hcnt]; exact hx1'
  · rw [if_neg hcnt]
    have ht' : (linEval (scExpr el den) x (wid + 1) + ((if den > 0 then bl else - bl : Int) : Rat))
        / ((if den > 0 then den else - den : Int) : Rat) ≤ t := by
      rw [← hval]; exact hlb
    exact octExploitLower_holds_mono hR hmono hh hw hd hx' ht' hx1' hle hneg

/-! ## the branch through an additional dimension -/

theorem octEmbedOne_holds {n : Nat} {m : Mat} {x : Nat → Rat} (h : Holds (SO n) (OctM.oval x) m) :
    Holds (SO (n + 1)) (OctM.oval x) (octEmbedOne n m) := by
  intro a c hac
  obtain ⟨ha, hc⟩ := hac
  show fin _ ≤ (if a = 2 * n ∨ a = 2 * n + 1 ∨ c = 2 * n ∨ c = 2 * n + 1 then pinf else m a c)
  split
  · exact le_pinf _
  · exact h a c ⟨by omega, hc⟩

theorem octOval_congr {y y' : Nat → Rat} {i : Nat} (h : y (i / 2) = y' (i / 2)) : OctM.oval y i = OctM.oval y' i := by
  unfold OctM.oval; rw [h]

/-- `matrix.shrink`: a point of the `(n+1)`-dimensional octagon, restricted to the first `n` coordinates -/
theorem octRestrict_holds {n vid : Nat} (hv : vid < n) {x : Nat → Rat} {s t : Rat} {M : Mat}
    (h : Holds (SO (n + 1)) (OctM.oval (upd (upd x n s) vid t)) M) :
    Holds (SO n) (OctM.oval (upd x vid t)) M := by
  intro a c hac
  obtain ⟨ha, hc⟩ := hac
  have hc' : c < 2 * n := by unfold rowSize at hc; omega
  have := h a c ⟨by omega, hc⟩
  have e : ∀ i, i < 2 * n → OctM.oval (upd (upd x n s) vid t) i = OctM.oval (upd x vid t) i := by
    intro i hi
    apply octOval_congr
    unfold upd
    by_cases h1 : i / 2 = vid
    · simp [h1]
    · have h2 : i / 2 ≠ n := by omega
      simp [h1, h2]
  rw [e a ha, e c hc'] at this
  exact this

theorem octBoundedExtraDim_sound {R : Rnd} (hR : R.Sound) {n vid : Nat} (hv : vid < n)
    {el eu : Nat → Int} (hel : ∀ i, n ≤ i → el i = 0) (heu : ∀ i, n ≤ i → eu i = 0) (hcu : CoeffExact R eu)
    {bl bu den : Int} (hden : den ≠ 0) {m : Mat} {x : Nat → Rat} (hx : x ∈ γO n m)
    (hsp : exprT el (lastNonzero el n) = 1 ∧
      (el (lastNonzero el n - 1) = den ∨ el (lastNonzero el n - 1) = - den))
    (hmid : ∀ m1, octBoundedExtraMid R n el bl den m = some m1 → HalfFiniteOn R.up m1) {t : Rat}
    (hlb : (linEval el x n + bl) / den ≤ t) (hub : t ≤ (linEval eu x n + bu) / den) :
    ∃ m', octBoundedExtraDim R n vid el bl eu bu den m = some m' ∧ upd x vid t ∈ γO n m' := by
  have hxe : Holds (SO (n + 1)) (OctM.oval x) (octEmbedOne n m) := octEmbedOne_holds hx
  have hlast : lastNonzero el (n + 1) = lastNonzero el n := by
    simp [lastNonzero, hel n le_rfl]
  have hlin : linEval el x (n + 1) = linEval el x n := by simp [linEval, hel n le_rfl]
  -- the intermediate matrix contains `x` extended by the value of the lower bound
  obtain ⟨m1, hm1, hx1⟩ : ∃ m1, octBoundedExtraMid R n el bl den m = some m1 ∧
      upd x n ((linEval el x n + bl) / den) ∈ γO (n + 1) m1 := by
    unfold octBoundedExtraMid
    dsimp only
    split
    · exact ⟨_, rfl, holds_octForgetAll (by omega : n < n + 1) hxe _⟩
    · have := octAffineImageCore_sound_special hR (by omega : n < n + 1) hden (b := bl) (e := el)
        (x := x) (m := octEmbedOne n m) hxe (by rw [hlast]; exact Or.inr hsp)
      rw [hlin] at this
      exact this
  have hmf := hmid m1 hm1
  -- the upper bound
  have hlu : linEval eu (upd x n ((linEval el x n + bl) / den)) (n + 1) = linEval eu x n := by
    simp only [linEval, heu n le_rfl]
    rw [linEval_upd, if_neg (by omega)]
    simp
  obtain ⟨mf, hmf', hx2⟩ := octGenAffineImageCoreF_sound hR (by omega : vid < n + 1) hcu hden (b := bu) hmf hx1 true
    (t := t) (by simp only [↓reduceIte]; rw [hlu]; exact hub)
  -- `refine_no_check(var >= new_var)`
  have hcs : CSat (fun i => (if i = vid then 1 else 0) - (if i = n then 1 else 0)) (n + 1) 0 .ge
      (upd (upd x n ((linEval el x n + bl) / den)) vid t) := by
    show 0 ≤ linEval _ _ (n + 1) + ((0 : Int) : Rat)
    rw [linEval_sub, linEval_single 1 _ (by omega : vid < n + 1), linEval_single 1 _ (by omega : n < n + 1)]
    have e1 : upd (upd x n ((linEval el x n + bl) / den)) vid t vid = t := by simp [upd]
    have e2 : upd (upd x n ((linEval el x n + bl) / den)) vid t n = (linEval el x n + bl) / den := by
      unfold upd; rw [if_neg (by omega), if_pos rfl]
    rw [e1, e2]
    push_cast
    linarith
  have href := octRefineNoCheck_sound_raw hR.up_le (n := n + 1) (sd := n + 1) _ 0 .ge mf.1 hx2 hcs
  unfold octBoundedExtraDim
  rw [hm1]
  simp only [Option.bind_some, hmf']
  generalize octRefineNoCheck R (n + 1) (n + 1) _ 0 CKind.ge mf.1 = out at href ⊢
  cases out with
  | ok m3 =>
    dsimp only at href ⊢
    split
    · exact ⟨_, rfl, octRestrict_holds hv href.1⟩
    · obtain ⟨m', hm', hx'⟩ := octCloseRaw_sound hR (n := n + 1) href.1
      exact ⟨m', hm', octRestrict_holds hv hx'⟩
  | empty => exact absurd href (by simp)
  | throws => exact absurd href (by simp)

/-! ## all branches -/

theorem octBoundedAffineImageCore_sound {R : Rnd} (hR : R.Sound)
    (hmono : ∀ a b : Rat, a ≤ b → R.up a ≤ R.up b) {n vid : Nat} (hv : vid < n)
    {el eu : Nat → Int} (hel : ∀ i, n ≤ i → el i = 0) (heu : ∀ i, n ≤ i → eu i = 0)
    (hcl : CoeffExact R el) (hcu : CoeffExact R eu) {bl bu den : Int} (hden : den ≠ 0) {m : Mat}
    (hh : HalfFiniteOn R.up m)
    (hmid : ∀ m1, octBoundedExtraMid R n el bl den m = some m1 → HalfFiniteOn R.up m1)
    {x : Nat → Rat} (hx : x ∈ γO n m) {t : Rat}
    (hlb : (linEval el x n + bl) / den ≤ t) (hub : t ≤ (linEval eu x n + bu) / den) :
    ∃ m', octBoundedAffineImageCore R n vid el bl eu bu den m = some m' ∧ upd x vid t ∈ γO n m' := by
  by_cases h0 : exprT el (lastNonzero el n) = 0
  · exact octBoundedAffineImageCore_special_sound hR hv hcu hden hh hx hlb hub (Or.inl h0)
  · by_cases h1 : exprT el (lastNonzero el n) = 1 ∧
        (el (lastNonzero el n - 1) = den ∨ el (lastNonzero el n - 1) = - den)
    · by_cases hwv : lastNonzero el n - 1 = vid
      · have heq : octBoundedAffineImageCore R n vid el bl eu bu den m
            = octBoundedExtraDim R n vid el bl eu bu den m := by
          unfold octBoundedAffineImageCore
          dsimp only
          rw [if_neg h0, if_pos h1, if_pos hwv]
        rw [heq]
        exact octBoundedExtraDim_sound hR hv hel heu hcu hden hx h1 hmid hlb hub
      · exact octBoundedAffineImageCore_special_sound hR hv hcu hden hh hx hlb hub (Or.inr ⟨h1.1, hwv, h1.2⟩)
    · exact octBoundedAffineImageCore_general_sound hR hmono hv hcl hcu hden hh hx hlb hub h0 h1

/-- `bounded_affine_image(var, lb_expr, ub_expr, den)`: all branches -/
theorem octBoundedAffineImage_sound {R : Rnd} (hR : R.Sound)
    (hmono : ∀ a b : Rat, a ≤ b → R.up a ≤ R.up b) {n : Nat} (m : OctM n) (closed : Bool)
    {vid : Nat} (hv : vid < n) {el eu : Nat → Int} {bl bu den : Int} (hden : den ≠ 0)
    (hel : ∀ i, n ≤ i → el i = 0) (heu : ∀ i, n ≤ i → eu i = 0)
    (hcl : CoeffExact R el) (hcu : CoeffExact R eu)
    (hh : ∀ m', octCloseFirst R.up closed m = some m' → HalfFiniteOn R.up m')
    (hmid : ∀ m0 m1, octCloseFirst R.up closed m = some m0 → octBoundedExtraMid R n el bl den m0 = some m1 →
      HalfFiniteOn R.up m1) :
    ∀ x ∈ OctM.γ m, ∀ t : Rat, (linEval el x n + bl) / den ≤ t → t ≤ (linEval eu x n + bu) / den →
      ∃ m', octBoundedAffineImage R closed vid el bl eu bu den m = some m' ∧ upd x vid t ∈ γO n m' := by
  intro x hx t hlb hub
  obtain ⟨m1, h1, hx1⟩ := octCloseFirst_sound hR.up_le closed m hx
  obtain ⟨m', hm', hx'⟩ := octBoundedAffineImageCore_sound hR hmono hv hel heu hcl hcu hden (hh m1 h1)
    (hmid m1 · h1) hx1 hlb hub
  exact ⟨m', by simp [octBoundedAffineImage, h1, hm'], hx'⟩

theorem octUpId_mono : ∀ a b : Rat, a ≤ b → Rnd.exact.up a ≤ Rnd.exact.up b :=
  fun a b h => fin_le_fin.2 h

theorem octUpCeil_mono : ∀ a b : Rat, a ≤ b → Rnd.ceil.up a ≤ Rnd.ceil.up b := by
  intro a b h
  simp only [Rnd.ceil, upCeil]
  have : a.ceil ≤ b.ceil := Rat.ceil_le_iff.mpr (le_trans h Rat.le_ceil)
  exact fin_le_fin.2 (by exact_mod_cast this)

end PPLV.WR
