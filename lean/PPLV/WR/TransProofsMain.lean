import PPLV.WR.TransProofsExploit
import PPLV.WR.TransProofsGenFrame
import PPLV.WR.TransProofsAffSpecial
/-!
# The transformers as a whole: every branch of `affine_image`, `generalized_affine_image`,
`bounded_affine_image`, `unconstrain`, including the initial closure
-/
set_option linter.unusedVariables false
set_option linter.unusedSimpArgs false
namespace PPLV.WR
open ExtRat

/-! ## `affine_image`, `generalized_affine_image` after the closure -/

theorem affineImageCore_sound {R : Rnd} (hR : R.Sound) {n var : Nat} (hvar : var < n)
    {e : Nat → Int} (hc : CoeffExact R e) {b den : Int} (hden : den ≠ 0) {m : Mat} {x : Nat → Rat}
    (hx : x ∈ γB n m) :
    upd x var ((linEval e x n + b) / den) ∈ γB n (affineImageCore R n var e b den m) := by
  by_cases hsp : exprT e (lastNonzero e n) = 0 ∨
      (exprT e (lastNonzero e n) = 1 ∧
        (e (lastNonzero e n - 1) = den ∨ e (lastNonzero e n - 1) = - den))
  · exact affineImageCore_special_sound hR hvar hden hx hsp
  · have h0 : ¬ exprT e (lastNonzero e n) = 0 := fun h => hsp (Or.inl h)
    have h1 : ¬ (exprT e (lastNonzero e n) = 1 ∧
        (e (lastNonzero e n - 1) = den ∨ e (lastNonzero e n - 1) = - den)) := fun h => hsp (Or.inr h)
    unfold affineImageCore
    dsimp only
    rw [if_neg h0, if_neg h1]
    exact affineImageGeneral_sound hR hc hden hx

theorem genAffineImageCore_sound {R : Rnd} (hR : R.Sound) {n var : Nat} (hvar : var < n)
    {e : Nat → Int} (hc : CoeffExact R e) {b den : Int} (hden : den ≠ 0) {m : Mat} {x : Nat → Rat}
    (hx : x ∈ γB n m) (isLe : Bool) {t : Rat}
    (ht : if isLe then t ≤ (linEval e x n + b) / den else (linEval e x n + b) / den ≤ t) :
    upd x var t ∈ γB n (genAffineImageCore R n var isLe e b den m) := by
  by_cases hsp : exprT e (lastNonzero e n) = 0 ∨
      (exprT e (lastNonzero e n) = 1 ∧
        (e (lastNonzero e n - 1) = den ∨ e (lastNonzero e n - 1) = - den))
  · exact genAffineImageCore_special_sound hR hvar hden hx isLe ht hsp
  · have h0 : ¬ exprT e (lastNonzero e n) = 0 := fun h => hsp (Or.inl h)
    have h1 : ¬ (exprT e (lastNonzero e n) = 1 ∧
        (e (lastNonzero e n - 1) = den ∨ e (lastNonzero e n - 1) = - den)) := fun h => hsp (Or.inr h)
    unfold genAffineImageCore
    dsimp only
    rw [if_neg h0, if_neg h1]
    exact genAffineImageGeneral_sound hR hc hden hx isLe ht

/-! ## `bounded_affine_image`: the general case -/

/-- the tail of the general case of `boundedAffineImageCore`, with the sign-corrected data as parameters;
`m0` is the matrix the sum was accumulated on, `mg` the matrix after the inner `generalized_affine_image` -/
def bndGenTail (R : Rnd) (v w : Nat) (sc : Nat → Int) (scb scd : Int) (m0 mg : Mat) : Option Mat :=
  let pos := loopUp w (accStepA R m0 sc true) ⟨R.up (scb : Rat), 0, 0⟩
  if pos.cnt > 1 then some mg else some (exploitUpper R v w sc scd pos mg)

theorem bndGenTail_sound {R : Rnd} (hR : R.Sound) {n var w : Nat} (hw : w ≤ n) {sc : Nat → Int}
    (hc : CoeffExact R sc) {scb scd : Int} (hd : 0 < scd) {m0 mg : Mat} {x : Nat → Rat}
    (hx : Holds (SB (n+1)) (DBM.val x) m0) {t : Rat}
    (ht : t ≤ (linEval sc x w + (scb : Rat)) / (scd : Rat))
    (hg : Holds (SB (n+1)) (DBM.val (upd x var t)) mg) (hun : UnaryEq (var+1) mg m0) :
    ∃ m', bndGenTail R (var+1) w sc scb scd m0 mg = some m' ∧ Holds (SB (n+1)) (DBM.val (upd x var t)) m' := by
  unfold bndGenTail
  dsimp only
  have hpos := accLoopA_inv hR hc _ (AccInv.init hR m0 w sc (scb : Rat)) _ le_rfl
  split
  · exact ⟨_, rfl, hg⟩
  · exact ⟨_, rfl, exploitUpper_holds hR hw hd hx ht hg hun hpos⟩

theorem boundedAffineImageCore_general_sound {R : Rnd} (hR : R.Sound) {n var : Nat} (hvar : var < n)
    {el : Nat → Int} {bl : Int} {eu : Nat → Int} (hcu : CoeffExact R eu) {bu den : Int} (hden : den ≠ 0)
    {m : Mat} {x : Nat → Rat} (hx : x ∈ γB n m) {t : Rat} (hub : t ≤ (linEval eu x n + bu) / den)
    (hgen : upd x var t ∈ γB n (genAffineImageCore R n var false el bl den m))
    (h0 : ¬ exprT eu (lastNonzero eu n) = 0)
    (h1 : ¬ (exprT eu (lastNonzero eu n) = 1 ∧
        (eu (lastNonzero eu n - 1) = den ∨ eu (lastNonzero eu n - 1) = - den))) :
    ∃ m', boundedAffineImageCore R n var el bl eu bu den m = some m' ∧ upd x var t ∈ γB n m' := by
  have heq : boundedAffineImageCore R n var el bl eu bu den m
      = bndGenTail R (var+1) (lastNonzero eu n) (scExpr eu den) (if den > 0 then bu else - bu)
          (if den > 0 then den else - den) m (genAffineImageCore R n var false el bl den m) := by
    unfold boundedAffineImageCore
    dsimp only
    rw [if_neg h0, if_neg h1]
    rfl
  rw [heq]
  rw [sc_value eu x n bu den] at hub
  refine bndGenTail_sound hR (lastNonzero_le eu n) (hcu.sc den) (scDen_pos hden) hx hub hgen ?_
  intro u hu
  exact ⟨genAffineImageCore_frame R n var false el bl den m 0 (u+1) (by omega) hu,
    genAffineImageCore_frame R n var false el bl den m (u+1) 0 hu (by omega)⟩

/-! ## the initial closure -/

theorem closeFirst_sound {n : Nat} {up : Rat → ExtRat} (hup : ∀ q, fin q ≤ up q) (closed : Bool) (m : DBM n)
    {x : Nat → Rat} (hx : x ∈ DBM.γ m) :
    ∃ m', closeFirst up closed m = some m' ∧ x ∈ γB n m' := by
  unfold closeFirst
  split
  · exact ⟨_, rfl, (DBM.sat_iff_holds m x).1 hx⟩
  · split
    · rename_i he
      exact absurd hx (DBM.closureEmpty_sound hup m he x)
    · exact ⟨_, rfl, (DBM.sat_iff_holds _ x).1 (DBM.closure_sat hup m x hx)⟩

theorem forgetAll_sound {n var : Nat} {m : Mat} {x : Nat → Rat} (hx : x ∈ γB n m) (t : Rat) :
    upd x var t ∈ γB n (forgetAll (n+1) (var+1) m) := holds_forgetAll hx t

end PPLV.WR

namespace PPLV.WR
open ExtRat

/-- bounded integers (`Rnd.range lo hi`, `int8_t`: `lo = -126`, `hi = 126`) satisfy the hypotheses -/
theorem Rnd.range_sound (lo hi : Int) (hhi : 0 < hi) : (Rnd.range lo hi).Sound := by
  refine ⟨upCeilRange_sound lo hi, fun y hy => ?_, fun y hy => ?_, fun s c a => ?_⟩
  · have h1 : (1 : Int) ≤ y.floor := Rat.le_floor_iff.2 (by exact_mod_cast hy)
    simp only [Rnd.range]
    split
    · exact_mod_cast hhi
    · have : (1 : Rat) ≤ (y.floor : Rat) := by exact_mod_cast h1
      linarith
  · simp only [Rnd.range]
    split
    · rename_i h
      have : (hi : Rat) < (y.floor : Rat) := by exact_mod_cast h
      have := Rat.floor_le y
      linarith
    · exact Rat.floor_le y
  · simp only [Rnd.range, addMulRange]
    split
    · rename_i hp
      split
      · rename_i hs
        exact fin_le_fin.2 (by linarith)
      · exact fin_le_fin.2 (by linarith)
    · split
      · exact le_pinf _
      · exact upCeilRange_sound lo hi _

end PPLV.WR
