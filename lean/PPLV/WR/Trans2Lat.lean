import PPLV.WR.Trans
/-!
# BD_Shape<T>: lattice-style and dimension-changing operations (executable model, no Mathlib)

Code-shaped models of (`/repo/src/BD_Shape_templates.hh`, `BD_Shape_inlines.hh`, current tree)

* `intersection_assign` (`:3038`), `upper_bound_assign` (`:2172`), `concatenate_assign` (`:580`)
* `add_space_dimensions_and_embed` (`:2803`), `add_space_dimensions_and_project` (`:2832`)
* `remove_space_dimensions` (`:2881`), `remove_higher_space_dimensions` (`BD_Shape_inlines.hh:780`)
* `map_space_dimensions` (`:2969`), `expand_space_dimension` (`:6593`), `fold_space_dimensions` (`:6638`)
* `difference_assign` (`:2490`): control flow over an abstract list of the constraints of `y`
  (`bdsLatDifference`, see there)
* `time_elapse_assign`: NOT modelled (round trip through `C_Polyhedron`).

for **every** bound type `T` (`R : Rnd` as in `Trans.lean`; the only rounded operation any of these
functions performs is the `add_assign_r(…, ROUND_UP)` inside `shortest_path_closure_assign`).
Orientation as in `Closure.lean`: `dbm[i][j]` bounds `x_j - x_i`, index `0` is the zero variable,
`Variable(k)` has index `k+1`; a shape of dimension `n` reads the cells `i, j ≤ n` of its `Mat`.

## ENTRY POINTS (all arguments are NOT marked empty; `none` = the receiver is marked empty afterwards)

```
structure LatRes where  dim : Nat ; m : Mat ; closed : Bool
    -- space dimension afterwards, matrix (cells i, j ≤ dim are meaningful), marked_shortest_path_closed() afterwards

bdsLatIntersection (R : Rnd) (n : Nat) (c1 : Bool) (m1 : Mat) (c2 : Bool) (m2 : Mat) : Option LatRes
bdsLatUpperBound   (R : Rnd) (n : Nat) (c1 : Bool) (m1 : Mat) (c2 : Bool) (m2 : Mat) : Option LatRes
bdsLatConcatenate  (R : Rnd) (n1 : Nat) (c1 : Bool) (m1 : Mat) (n2 : Nat) (c2 : Bool) (m2 : Mat) : Option LatRes
bdsLatEmbed        (R : Rnd) (n : Nat) (c : Bool) (m : Mat) (k : Nat) : Option LatRes
bdsLatProject      (R : Rnd) (n : Nat) (c : Bool) (m : Mat) (k : Nat) : Option LatRes
bdsLatRemoveDims   (R : Rnd) (n : Nat) (c : Bool) (m : Mat) (vars : List Nat) : Option LatRes   -- ascending ids < n
bdsLatRemoveHigher (R : Rnd) (n : Nat) (c : Bool) (m : Mat) (newDim : Nat) : Option LatRes      -- newDim ≤ n
bdsLatMapDims      (R : Rnd) (n : Nat) (c : Bool) (m : Mat) (pf : List (Option Nat)) : Option LatRes
    -- pf[i] = image of Variable(i) (i < n), `none`/missing = not mapped; injective
bdsLatExpand       (R : Rnd) (n : Nat) (c : Bool) (m : Mat) (var k : Nat) : Option LatRes       -- var < n
bdsLatFold         (R : Rnd) (n : Nat) (c : Bool) (m : Mat) (vars : List Nat) (dest : Nat) : Option LatRes
    -- ascending ids < n, dest < n, dest ∉ vars
bdsLatDifference   (R : Rnd) (n : Nat) (c1 : Bool) (m1 : Mat) (c2 : Bool) (m2 : Mat)
                   (yContainsX : Bool) (pieces : List (Option Mat)) : Option LatRes              -- see the definition
```
`c`, `c1`, `c2` are `marked_shortest_path_closed()` of the receiver / the argument before the call.
The first argument (`c1 m1`, `n1 c1 m1`) is the receiver `*this`, the second one is `y`.

Quirks kept: `shortest_path_closure_assign` returns before touching the flag on a 0-dimensional shape;
`set_zero_dim_univ()` clears the closed flag; `upper_bound_assign` closes `y` first and returns `*this`
untouched (unclosed) when `y` is found empty; `map_space_dimensions` closes only when the dimension
shrinks; `fold_space_dimensions` does not reset the closed flag after its `max_assign`s, so that the
closure at the head of the inner `remove_space_dimensions` is a no-op; `add_space_dimensions_and_project`
on a 0-dimensional shape sets the closed flag, on any other one resets it.

`remove_space_dimensions` shifts rows and columns in place (`swap` / `assign_or_swap`) with
`dst < src` throughout: every cell it reads is an original cell.  The model walks `dst` / `src` exactly
as the code does and records the source index of every destination index (`bdsLatRemoveTable`); the
resulting matrix is `m[tbl a][tbl b]`.
-/
namespace PPLV.WR
open ExtRat (fin pinf minA addUp)

/-- result of a lattice / dimension operation: the new space dimension, the matrix, the closed flag -/
structure LatRes where
  dim : Nat
  m : Mat
  closed : Bool

/-- `max_assign(x, y)`: `if (x < y) x = y` -/
def latMaxA (a b : ExtRat) : ExtRat := if b ≤ a then a else b

/-- `shortest_path_closure_assign()` (`:1900`) with the flag: no-op when marked closed, no-op WITHOUT
setting the flag on a 0-dimensional shape; `none` = marked empty -/
def bdsLatClose (up : Rat → ExtRat) (n : Nat) (c : Bool) (m : Mat) : Option (Mat × Bool) :=
  if c then some (m, true)
  else if n = 0 then some (m, false)
  else (closeFirst up false (DBM.ofMat n m)).map fun m' => (m', true)

/-- `DB_Matrix::grow(rows)` from `old` rows: the new cells are `+∞` -/
def bdsLatGrow (old : Nat) (m : Mat) : Mat :=
  { f := fun i j => if i < old ∧ j < old then m i j else pinf }

/-! ## `intersection_assign` -/

/-- the loop nest of `intersection_assign` (`:3062-3073`): matrix and `changed` -/
def bdsLatIntersectionLoop (n : Nat) (m1 m2 : Mat) : Mat × Bool :=
  loopDown (n + 1) (fun i st =>
    loopDown (n + 1) (fun j st =>
      -- `if (dbm_ij > y_dbm_ij) { dbm_ij = y_dbm_ij; changed = true; }`
      if st.1 i j ≤ m2 i j then st else (st.1.set i j (m2 i j), true)) st) (m1, false)

/-- `intersection_assign(y)` (`:3038`) -/
def bdsLatIntersection (_R : Rnd) (n : Nat) (c1 : Bool) (m1 : Mat) (_c2 : Bool) (m2 : Mat) : Option LatRes :=
  if n = 0 then some ⟨n, m1, c1⟩
  else
    let st := bdsLatIntersectionLoop n m1 m2
    -- `if (changed && marked_shortest_path_closed()) reset_shortest_path_closed();`
    some ⟨n, st.1, if st.2 && c1 then false else c1⟩

/-! ## `upper_bound_assign` -/

/-- the loop nest of `upper_bound_assign` (`:2194-2204`) -/
def bdsLatUpperBoundLoop (n : Nat) (x y : Mat) : Mat :=
  loopDown (n + 1) (fun i m =>
    loopDown (n + 1) (fun j m =>
      -- `if (dbm_ij < y_dbm_ij) dbm_ij = y_dbm_ij;`
      if y i j ≤ m i j then m else m.set i j (y i j)) m) x

/-- `upper_bound_assign(y)` (`:2172`): `y` is closed first; `*this` is returned untouched when `y` is
empty; `*this = y` when `*this` is found empty -/
def bdsLatUpperBound (R : Rnd) (n : Nat) (c1 : Bool) (m1 : Mat) (c2 : Bool) (m2 : Mat) : Option LatRes :=
  match bdsLatClose R.up n c2 m2 with
  | none => some ⟨n, m1, c1⟩
  | some (y, cy) =>
    match bdsLatClose R.up n c1 m1 with
    | none => some ⟨n, y, cy⟩
    | some (x, cx) => some ⟨n, bdsLatUpperBoundLoop n x y, cx⟩

/-! ## `add_space_dimensions_and_embed`, `add_space_dimensions_and_project` -/

/-- `add_space_dimensions_and_embed(k)` (`:2803`) -/
def bdsLatEmbed (_R : Rnd) (n : Nat) (c : Bool) (m : Mat) (k : Nat) : Option LatRes :=
  if k = 0 then some ⟨n, m, c⟩
  else
    -- `was_zero_dim_univ`: the receiver is not marked empty
    some ⟨n + k, bdsLatGrow (n + 1) m, if n = 0 then true else c⟩

/-- `add_space_dimensions_and_project(k)` (`:2832`) -/
def bdsLatProject (_R : Rnd) (n : Nat) (c : Bool) (m : Mat) (k : Nat) : Option LatRes :=
  if k = 0 then some ⟨n, m, c⟩
  else if n = 0 then
    let m := bdsLatGrow 1 m
    let m := loopDown (k + 1) (fun i m =>
      loopDown (k + 1) (fun j m => if i ≠ j then m.set i j (fin 0) else m) m) m
    some ⟨k, m, true⟩
  else
    let m := bdsLatGrow (n + 1) m
    -- `for (i = space_dim + 1; i <= new_space_dim; ++i) { dbm[i][0] = 0; dbm_0[i] = 0; }`
    let m := loopUp k (fun t m => let i := n + 1 + t; (m.set i 0 (fin 0)).set 0 i (fin 0)) m
    some ⟨n + k, m, false⟩

/-! ## `concatenate_assign` -/

/-- the copy loop of `concatenate_assign` (`:618-625`) -/
def bdsLatConcatLoop (n1 n2 : Nat) (m y : Mat) : Mat :=
  loopUp n2 (fun t m =>
    let i := n1 + 1 + t
    let m := m.set i 0 (y (i - n1) 0)
    let m := m.set 0 i (y 0 (i - n1))
    loopUp n2 (fun s m => let j := n1 + 1 + s; m.set i j (y (i - n1) (j - n1))) m) m

/-- `concatenate_assign(y)` (`:580`), neither shape marked empty -/
def bdsLatConcatenate (R : Rnd) (n1 : Nat) (c1 : Bool) (m1 : Mat) (n2 : Nat) (_c2 : Bool) (m2 : Mat) :
    Option LatRes :=
  match bdsLatEmbed R n1 c1 m1 n2 with
  | none => none
  | some r =>
    -- `if (marked_shortest_path_closed()) reset_shortest_path_closed();`
    some ⟨n1 + n2, bdsLatConcatLoop n1 n2 r.m m2, false⟩

/-! ## `remove_space_dimensions`, `remove_higher_space_dimensions` -/

/-- the `src` indices moved by the shifting loops of `remove_space_dimensions` (`:2926-2953`), in the
order of `dst`: `rest` are the variables after the first one, `src` the current source index -/
def bdsLatRemoveSrcs (old : Nat) : List Nat → Nat → List Nat
  | [], src => List.range' src (old + 1 - src)                 -- `while (src <= old_space_dim)`
  | v :: vs, src =>
    -- `while (src < vsi_next) { …; ++dst; ++src; }  ++src;`
    List.range' src (v + 1 - src) ++ bdsLatRemoveSrcs old vs (max src (v + 1) + 1)

/-- source index of every index of the resulting matrix: `dst` starts at `*vsi + 1`, the indices below
it are not moved -/
def bdsLatRemoveTable (old : Nat) : List Nat → List Nat
  | [] => List.range (old + 1)
  | first :: rest => List.range (first + 1) ++ bdsLatRemoveSrcs old rest (first + 2)

/-- the matrix `m[tbl a][tbl b]` -/
def latReindex (tbl : List Nat) (m : Mat) : Mat :=
  { f := fun a b => m (tbl.getD a 0) (tbl.getD b 0) }

/-- `remove_space_dimensions(vars)` (`:2881`) -/
def bdsLatRemoveDims (R : Rnd) (n : Nat) (c : Bool) (m : Mat) (vars : List Nat) : Option LatRes :=
  if vars.isEmpty then some ⟨n, m, c⟩
  else
    match bdsLatClose R.up n c m with
    | none => none
    | some (m', c') =>
      let new_space_dim := n - vars.length
      -- `set_zero_dim_univ()` clears every flag
      if new_space_dim = 0 then some ⟨0, m', false⟩
      else some ⟨new_space_dim, latReindex (bdsLatRemoveTable n vars) m', c'⟩

/-- `remove_higher_space_dimensions(new_dimension)` (`BD_Shape_inlines.hh:780`) -/
def bdsLatRemoveHigher (R : Rnd) (n : Nat) (c : Bool) (m : Mat) (newDim : Nat) : Option LatRes :=
  if newDim = n then some ⟨n, m, c⟩
  else
    match bdsLatClose R.up n c m with
    | none => none
    | some (m', c') => some ⟨newDim, m', if newDim = 0 then false else c'⟩

/-! ## `map_space_dimensions` -/

/-- `pfunc.maps(i, j)` -/
def latMaps (pf : List (Option Nat)) (i : Nat) : Option Nat := pf.getD i none

/-- `pfunc.has_empty_codomain()` (over the variables of the shape) -/
def latEmptyCodomain (pf : List (Option Nat)) (n : Nat) : Bool :=
  (List.range n).all fun i => (latMaps pf i).isNone

/-- `pfunc.max_in_codomain()` -/
def latMaxInCodomain (pf : List (Option Nat)) (n : Nat) : Nat :=
  (List.range n).foldl (fun acc i => match latMaps pf i with | some j => max acc j | none => acc) 0

/-- the two loop nests of `map_space_dimensions` (`:3005-3030`) filling the fresh matrix `x` -/
def bdsLatMapLoops (n : Nat) (pf : List (Option Nat)) (dbm : Mat) (x : Mat) : Mat :=
  -- unary constraints
  let x := loopUp n (fun j0 x =>
    let j := j0 + 1
    match latMaps pf (j - 1) with
    | some new_j => (x.set 0 (new_j + 1) (dbm 0 j)).set (new_j + 1) 0 (dbm j 0)
    | none => x) x
  -- binary constraints
  loopUp n (fun i0 x =>
    let i := i0 + 1
    match latMaps pf (i - 1) with
    | some new_i0 =>
      let new_i := new_i0 + 1
      loopUp (n - i) (fun s x =>
        let j := i + 1 + s
        match latMaps pf (j - 1) with
        | some new_j0 =>
          let new_j := new_j0 + 1
          (x.set new_i new_j (dbm i j)).set new_j new_i (dbm j i)
        | none => x) x
    | none => x) x

/-- `map_space_dimensions(pfunc)` (`:2969`) -/
def bdsLatMapDims (R : Rnd) (n : Nat) (c : Bool) (m : Mat) (pf : List (Option Nat)) : Option LatRes :=
  if n = 0 then some ⟨n, m, c⟩
  else if latEmptyCodomain pf n then bdsLatRemoveHigher R n c m 0
  else
    let new_space_dim := latMaxInCodomain pf n + 1
    let st := if new_space_dim < n then bdsLatClose R.up n c m else some (m, c)
    match st with
    | none => none
    | some (m', c') =>
      let x : Mat := { f := fun _ _ => pinf }
      some ⟨new_space_dim, bdsLatMapLoops n pf m' x, c'⟩

/-! ## `expand_space_dimension`, `fold_space_dimensions` -/

/-- the loop nest of `expand_space_dimension` (`:6623-6631`) -/
def bdsLatExpandLoop (n v k : Nat) (m : Mat) : Mat :=
  loopDown (n + 1) (fun i m =>
    loopUp k (fun t m =>
      let j := n + 1 + t
      -- `dbm_i[j] = dbm_i_v; dbm[j][i] = dbm_v_i;`
      let m := m.set i j (m i v)
      m.set j i (m v i)) m) m

/-- `expand_space_dimension(var, k)` (`:6593`) -/
def bdsLatExpand (R : Rnd) (n : Nat) (c : Bool) (m : Mat) (var k : Nat) : Option LatRes :=
  if k = 0 then some ⟨n, m, c⟩
  else
    match bdsLatEmbed R n c m k with
    | none => none
    | some r => some ⟨n + k, bdsLatExpandLoop n (var + 1) k r.m, false⟩

/-- the loops of `fold_space_dimensions` (`:6668-6678`) -/
def bdsLatFoldLoop (n v : Nat) (vars : List Nat) (m : Mat) : Mat :=
  vars.foldl (fun m tbf =>
    let t := tbf + 1
    loopDown (n + 1) (fun j m =>
      -- `max_assign(dbm[j][v_id], dbm[j][to_be_folded_id]); max_assign(dbm_v[j], dbm_to_be_folded_id[j]);`
      let m := m.set j v (latMaxA (m j v) (m j t))
      m.set v j (latMaxA (m v j) (m t j))) m) m

/-- `fold_space_dimensions(vars, dest)` (`:6638`): the closed flag is NOT reset by the `max_assign`s -/
def bdsLatFold (R : Rnd) (n : Nat) (c : Bool) (m : Mat) (vars : List Nat) (dest : Nat) : Option LatRes :=
  if vars.isEmpty then some ⟨n, m, c⟩
  else
    match bdsLatClose R.up n c m with
    | none => none
    | some (m', c') => bdsLatRemoveDims R n c' (bdsLatFoldLoop n (dest + 1) vars m') vars

/-! ## `difference_assign`

`difference_assign` (`:2490`) closes `x`, then `y`, tests `y.contains(x)`, and then, for every constraint
`c` of `y.constraints()` that `x.relation_with(c)` does not report as included, joins into an initially
empty shape the pieces `x ∧ ¬c` (one piece for an inequality, two for an equality) that `is_empty()`
does not refute.  `contains`, `constraints`, `relation_with`, `add_constraint` and `is_empty` are models
of other stages; here their results are arguments: `yContainsX` is `y.contains(x)` (on the closed
matrices) and `pieces` lists, in the order of the code, for every non-skipped constraint the matrix `z`
of each non-empty piece AFTER `z.is_empty()` closed it (`none` = that piece was found empty, nothing
is joined). -/

/-- `new_bd_shape.upper_bound_assign(z)` on an accumulator that may still be marked empty; `z` is closed
and non-empty (its `is_empty()` just ran) -/
def bdsLatDiffJoin (R : Rnd) (n : Nat) (acc : Option LatRes) (z : Mat) : Option LatRes :=
  match acc with
  | none => some ⟨n, z, true⟩                       -- `*this = y`
  | some a => bdsLatUpperBound R n a.closed a.m true z

def bdsLatDifference (R : Rnd) (n : Nat) (c1 : Bool) (m1 : Mat) (c2 : Bool) (m2 : Mat)
    (yContainsX : Bool) (pieces : List (Option Mat)) : Option LatRes :=
  match bdsLatClose R.up n c1 m1 with
  | none => none
  | some (x, cx) =>
    match bdsLatClose R.up n c2 m2 with
    | none => some ⟨n, x, cx⟩
    | some _ =>
      if n = 0 then none
      else if yContainsX then none
      else
        pieces.foldl (fun acc z => match z with | none => acc | some z => bdsLatDiffJoin R n acc z) none

end PPLV.WR
