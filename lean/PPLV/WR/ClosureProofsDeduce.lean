import PPLV.WR.ClosureProofsBDS
import Mathlib.Tactic.FieldSimp
/-!
# Deduction helpers: the `q ≥ 1` / `0 < q < 1` rules, abstractly, and for `BD_Shape`

Setting of every `deduce_*` call: a variable `v` receives the new value `v' ⋈ e(x)/d`; the caller has
computed a *finite* bound `c` of `e/d` over the box of the unary bounds of the other variables
(`hS`).  Moving one coordinate `u` of the old point `x` inside its box (`Slide`) gives
`E + q * (t - x_u) ≤ c` for every admissible `t`, from which the four rules follow.
-/
namespace PPLV.WR
open ExtRat

/-- the box `[-LB, UB]` of one variable with old value `X`, and the bound `c` of the expression
`E + q * (t - X)` obtained by moving that variable to any `t` of its box -/
structure Slide (E q X c : Rat) (UB LB : ExtRat) : Prop where
  hX : fin X ≤ UB
  hX' : fin (-X) ≤ LB
  sl : ∀ t : Rat, fin t ≤ UB → fin (-t) ≤ LB → E + q * (t - X) ≤ c

namespace Slide
variable {E q X c U L : Rat} {UB LB : ExtRat}

/-- a smaller box -/
theorem mono {UB' LB' : ExtRat} (h : Slide E q X c UB LB) (h1 : UB' ≤ UB) (h2 : LB' ≤ LB)
    (hX : fin X ≤ UB') (hX' : fin (-X) ≤ LB') : Slide E q X c UB' LB' :=
  ⟨hX, hX', fun t a b => h.sl t (le_trans' a h1) (le_trans' b h2)⟩

/-- `q ≥ 1`: `v - u ≤ ub_v - ub_u` -/
theorem ruleA (h : Slide E q X c (fin U) LB) (hq : 1 ≤ q) : E - X ≤ c - U := by
  have hXU : X ≤ U := fin_le_fin.1 h.hX
  have := h.sl U (le_rfl' _) (le_trans' (fin_le_fin.2 (by linarith)) h.hX')
  nlinarith [mul_nonneg (sub_nonneg.2 hq) (sub_nonneg.2 hXU)]

/-- a positive coefficient on a variable without upper bound: no finite `c` exists -/
theorem ruleAinf (h : Slide E q X c pinf LB) (hq : 0 < q) : False := by
  by_cases hc : 0 ≤ c - E
  · have hs : 0 ≤ (c - E) / q + 1 := add_nonneg (div_nonneg hc hq.le) zero_le_one
    have := h.sl (X + ((c - E) / q + 1)) (le_pinf _) (le_trans' (fin_le_fin.2 (by linarith)) h.hX')
    have e : q * (X + ((c - E) / q + 1) - X) = (c - E) + q := by
      have hq' : q ≠ 0 := ne_of_gt hq
      have : q * (X + ((c - E) / q + 1) - X) = q * ((c - E) / q) + q := by ring
      rw [this, mul_div_cancel₀ _ hq']
    rw [e] at this
    linarith
  · have := h.sl X (le_pinf _) h.hX'
    simp at this
    linarith

/-- `0 < q < 1`: `v - u ≤ ub_v + ((-lb_u) - q * (ub_u - lb_u))` -/
theorem ruleB (h : Slide E q X c (fin U) (fin L)) (_hq0 : 0 < q) (hq1 : q < 1) :
    E - X ≤ c + (L - q * (U + L)) := by
  have hXU : X ≤ U := fin_le_fin.1 h.hX
  have hXL : -X ≤ L := fin_le_fin.1 h.hX'
  have := h.sl U (le_rfl' _) (fin_le_fin.2 (by linarith))
  nlinarith [mul_nonneg (le_of_lt (sub_pos.2 hq1)) (show 0 ≤ L + X by linarith)]

/-- `q ≤ -1`: `v + u ≤ ub_v - (-lb_u)` -/
theorem ruleC (h : Slide E q X c UB (fin L)) (hq : q ≤ -1) : E + X ≤ c - L := by
  have hXL : -X ≤ L := fin_le_fin.1 h.hX'
  have := h.sl (-L) (le_trans' (fin_le_fin.2 (by linarith)) h.hX) (by simp)
  nlinarith [mul_nonneg (show 0 ≤ -1 - q by linarith) (show 0 ≤ L + X by linarith)]

/-- a negative coefficient on a variable without lower bound -/
theorem ruleCinf (h : Slide E q X c UB pinf) (hq : q < 0) : False := by
  by_cases hc : 0 ≤ c - E
  · have hs : 0 ≤ (c - E) / (-q) + 1 :=
      add_nonneg (div_nonneg hc (by linarith)) zero_le_one
    have := h.sl (X - ((c - E) / (-q) + 1)) (le_trans' (fin_le_fin.2 (by linarith)) h.hX) (le_pinf _)
    have hq' : -q ≠ 0 := by linarith
    have e : q * (X - ((c - E) / (-q) + 1) - X) = (c - E) + (-q) := by
      have : q * (X - ((c - E) / (-q) + 1) - X) = (-q) * ((c - E) / (-q)) + (-q) := by ring
      rw [this, mul_div_cancel₀ _ hq']
    rw [e] at this
    linarith
  · have := h.sl X h.hX (le_pinf _)
    simp at this
    linarith

/-- `-1 < q < 0`: `v + u ≤ ub_v + (ub_u + (-q) * (lb_u - ub_u))` -/
theorem ruleD (h : Slide E q X c (fin U) (fin L)) (_hq0 : q < 0) (hq1 : -1 < q) :
    E + X ≤ c + (U + (-q) * (-L - U)) := by
  have hXU : X ≤ U := fin_le_fin.1 h.hX
  have hXL : -X ≤ L := fin_le_fin.1 h.hX'
  have := h.sl (-L) (fin_le_fin.2 (by linarith)) (by simp)
  nlinarith [mul_nonneg (show 0 ≤ 1 + q by linarith) (show 0 ≤ U - X by linarith)]

end Slide

/-! ## moving one coordinate of the old point -/

/-- `x` with coordinate `u` replaced by `t` -/
def upd (x : Nat → Rat) (u : Nat) (t : Rat) : Nat → Rat := fun i => if i = u then t else x i

theorem linEval_upd (e : Nat → Int) (x : Nat → Rat) (u : Nat) (t : Rat) (k : Nat) :
    linEval e (upd x u t) k = linEval e x k + (if u < k then (e u : Rat) * (t - x u) else 0) := by
  induction k with
  | zero => simp [linEval]
  | succ k ih =>
    simp only [linEval, ih, upd]
    split_ifs <;> first | (exfalso; omega) | ring1 | (subst_vars; ring1)

theorem linEval_neg (e : Nat → Int) (x : Nat → Rat) (k : Nat) :
    linEval (fun i => - e i) x k = - linEval e x k := by
  induction k with
  | zero => simp [linEval]
  | succ k ih => simp only [linEval, ih]; push_cast; ring

/-- the caller's bound `c` of `(e·y + b)/d` over the box gives a `Slide` for every other variable -/
theorem slide_of_box {e : Nat → Int} {b c : Rat} {d : Int} (hd : 0 < d) {last vid : Nat}
    {x : Nat → Rat} {UBf LBf : Nat → ExtRat}
    (hbox : ∀ w, w < last → w ≠ vid → fin (x w) ≤ UBf w ∧ fin (-(x w)) ≤ LBf w)
    (hS : ∀ y : Nat → Rat, y vid = x vid →
      (∀ w, w < last → w ≠ vid → fin (y w) ≤ UBf w ∧ fin (-(y w)) ≤ LBf w) →
      (linEval e y last + b) / d ≤ c)
    {u : Nat} (hu : u < last) (huv : u ≠ vid) :
    Slide ((linEval e x last + b) / d) ((e u : Rat) / d) (x u) c (UBf u) (LBf u) := by
  refine ⟨(hbox u hu huv).1, (hbox u hu huv).2, fun t h1 h2 => ?_⟩
  have hy := hS (upd x u t) (by simp [upd, Ne.symm huv]) (by
    intro w hw hwv
    by_cases hwu : w = u
    · subst hwu; simp only [upd, if_pos]; exact ⟨h1, h2⟩
    · simp only [upd, if_neg hwu]; exact hbox w hw hwv)
  rw [linEval_upd, if_pos hu] at hy
  have hd' : (d : Rat) ≠ 0 := by exact_mod_cast (ne_of_gt hd)
  have e1 : (linEval e x last + (e u : Rat) * (t - x u) + b) / d
      = (linEval e x last + b) / d + (e u : Rat) / d * (t - x u) := by
    field_simp; ring
  rw [e1] at hy
  exact hy

theorem q_ge_one {a d : Int} (hd : 0 < d) (h : a ≥ d) : (1 : Rat) ≤ (a : Rat) / d := by
  have hd' : (0 : Rat) < d := by exact_mod_cast hd
  rw [le_div_iff₀ hd']
  have : (d : Rat) ≤ a := by exact_mod_cast h
  linarith

theorem q_lt_one {a d : Int} (hd : 0 < d) (h : ¬ a ≥ d) : (a : Rat) / d < 1 := by
  have hd' : (0 : Rat) < d := by exact_mod_cast hd
  rw [div_lt_iff₀ hd']
  have : (a : Rat) < d := by exact_mod_cast (not_le.1 h)
  linarith

theorem q_pos {a d : Int} (hd : 0 < d) (h : 0 < a) : (0 : Rat) < (a : Rat) / d := by
  have hd' : (0 : Rat) < d := by exact_mod_cast hd
  have : (0 : Rat) < a := by exact_mod_cast h
  exact div_pos this hd'

/-! ## `BD_Shape::deduce_v_minus_u_bounds`, `deduce_u_minus_v_bounds` -/

/-- loop invariant: the new point satisfies the matrix and the unary entries are those of `m` -/
def BInv (n : Nat) (x' : Nat → Rat) (m m' : Mat) : Prop :=
  Holds (SB (n+1)) (DBM.val x') m' ∧ ∀ a, m' 0 a = m 0 a ∧ m' a 0 = m a 0

theorem BInv.set {n : Nat} {x' : Nat → Rat} {m m' : Mat} (h : BInv n x' m m') {a b : Nat} {v : ExtRat}
    (ha : a ≠ 0) (hb : b ≠ 0) (hv : fin (DBM.val x' b - DBM.val x' a) ≤ v) :
    BInv n x' m (m'.set a b v) := by
  constructor
  · intro i j hij
    simp only [Mat.set_apply]
    split
    · rename_i hc; obtain ⟨rfl, rfl⟩ := hc; exact hv
    · exact h.1 i j hij
  · intro i
    simp only [Mat.set_apply]
    rw [if_neg (by omega), if_neg (by omega)]
    exact h.2 i

theorem bds_box {n : Nat} {x' : Nat → Rat} {m : Mat} (h : Holds (SB (n+1)) (DBM.val x') m) {w : Nat}
    (hw : w + 1 ≤ n) : fin (x' w) ≤ m 0 (w+1) ∧ fin (-(x' w)) ≤ m (w+1) 0 := by
  have h1 := h 0 (w+1) ⟨by omega, by omega⟩
  have h2 := h (w+1) 0 ⟨by omega, by omega⟩
  simp only [DBM.val, sub_zero, zero_sub] at h1 h2
  exact ⟨h1, h2⟩

/-- points of a raw `(n+1) × (n+1)` difference-bound matrix (the helpers run on matrices in the middle
of a transformer, e.g. after `forget_all_dbm_constraints(v)`) -/
def γB (n : Nat) (m : Mat) : Set (ℕ → ℚ) := {x | Holds (SB (n+1)) (DBM.val x) m}

theorem DBM.γ_eq {n : Nat} (m : DBM n) : m.γ = γB n m.e := by
  ext x; exact DBM.sat_iff_holds m x

variable {up : Rat → ExtRat}

theorem fin_le_subUp_fin (hup : ∀ x, fin x ≤ up x) {a c U : Rat} (h : a ≤ c - U) :
    fin a ≤ subUp up (fin c) (fin U) :=
  le_trans' (fin_le_fin.2 h) (hup _)

theorem fin_le_addUp_up (hup : ∀ x, fin x ≤ up x) {a c R : Rat} (h : a ≤ c + R) :
    fin a ≤ addUp up (fin c) (up R) :=
  le_trans' (fin_le_fin.2 h) (fin_le_addUp hup (le_rfl' _) (hup R))

theorem fin_le_addUp_up' (hup : ∀ x, fin x ≤ up x) {a c R : Rat} (h : a ≤ c + R) :
    fin a ≤ addUp up (up R) (fin c) :=
  le_trans' (fin_le_fin.2 (by linarith)) (fin_le_addUp hup (hup R) (le_rfl' _))

/-- `deduce_v_minus_u_bounds`: the new point `x'` (`x'_v ≤ e(x)/d`, other coordinates those of `x`)
satisfies every bound written by the helper. -/
theorem deduceVMinusU_holds (hup : ∀ x, fin x ≤ up x) {n : Nat} {m : Mat} {vid last : Nat}
    {e : Nat → Int} {d : Int} (hd : 0 < d) {b c : Rat} (hlast : last ≤ n)
    {x x' : Nat → Rat}
    (hx' : Holds (SB (n+1)) (DBM.val x') m)
    (hframe : ∀ u, u ≠ vid → x' u = x u)
    (hval : x' vid ≤ (linEval e x last + b) / d)
    (hS : ∀ y : Nat → Rat, y vid = x vid →
      (∀ w, w < last → w ≠ vid → fin (y w) ≤ m 0 (w+1) ∧ fin (-(y w)) ≤ m (w+1) 0) →
      (linEval e y last + b) / d ≤ c) :
    Holds (SB (n+1)) (DBM.val x') (deduceVMinusU up (vid+1) last e d (fin c) m) := by
  have hbox : ∀ w, w < last → w ≠ vid → fin (x w) ≤ m 0 (w+1) ∧ fin (-(x w)) ≤ m (w+1) 0 := by
    intro w hw hwv
    rw [← hframe w hwv]
    exact bds_box hx' (by omega)
  suffices h : BInv n x' m (deduceVMinusU up (vid+1) last e d (fin c) m) from h.1
  unfold deduceVMinusU
  refine loopUp_rel (fun a b => BInv n x' m a → BInv n x' m b) (fun _ h => h)
    (fun _ _ _ h1 h2 h => h2 (h1 h)) last _ ?_ m ⟨hx', fun _ => ⟨rfl, rfl⟩⟩
  intro u hu m' hI
  unfold deduceVMinusUStep
  dsimp only
  split; exact hI
  split; exact hI
  split; exact hI
  rename_i h0 huv hneg
  have huv' : u ≠ vid := by omega
  have hepos : 0 < e u := by omega
  have sl := slide_of_box hd hbox hS hu huv'
  have hgoal : DBM.val x' (vid+1) - DBM.val x' (u+1) ≤ (linEval e x last + b) / d - x u := by
    simp only [DBM.val]; rw [hframe u huv']; linarith
  rw [(hI.2 (u+1)).1, (hI.2 (u+1)).2]
  split
  · -- `q ≥ 1`
    rename_i hge
    apply hI.set (by omega) (by omega)
    cases hub : m 0 (u+1) with
    | pinf => rw [hub] at sl; exact (sl.ruleAinf (q_pos hd hepos)).elim
    | fin U =>
      rw [hub] at sl
      exact fin_le_subUp_fin hup (le_trans hgoal (sl.ruleA (q_ge_one hd hge)))
  · -- `0 < q < 1`
    rename_i hlt
    split
    · exact hI
    · rename_i L hL
      apply hI.set (by omega) (by omega)
      cases hub : m 0 (u+1) with
      | pinf => rw [hub] at sl; exact (sl.ruleAinf (q_pos hd hepos)).elim
      | fin U =>
        rw [hub, hL] at sl
        simp only [toRat]
        exact fin_le_addUp_up hup (le_trans hgoal (sl.ruleB (q_pos hd hepos) (q_lt_one hd hlt)))

/-- `deduce_u_minus_v_bounds`: the same for `x'_v ≥ e(x)/d` and a bound `c` of `-e/d` over the box. -/
theorem deduceUMinusV_holds (hup : ∀ x, fin x ≤ up x) {n : Nat} {m : Mat} {vid last : Nat}
    {e : Nat → Int} {d : Int} (hd : 0 < d) {b c : Rat} (hlast : last ≤ n)
    {x x' : Nat → Rat}
    (hx' : Holds (SB (n+1)) (DBM.val x') m)
    (hframe : ∀ u, u ≠ vid → x' u = x u)
    (hval : (linEval e x last + b) / d ≤ x' vid)
    (hS : ∀ y : Nat → Rat, y vid = x vid →
      (∀ w, w < last → w ≠ vid → fin (y w) ≤ m 0 (w+1) ∧ fin (-(y w)) ≤ m (w+1) 0) →
      -((linEval e y last + b) / d) ≤ c) :
    Holds (SB (n+1)) (DBM.val x') (deduceUMinusV up (vid+1) last e d (fin c) m) := by
  have hbox : ∀ w, w < last → w ≠ vid → fin (x w) ≤ m 0 (w+1) ∧ fin (-(x w)) ≤ m (w+1) 0 := by
    intro w hw hwv
    rw [← hframe w hwv]
    exact bds_box hx' (by omega)
  have hS' : ∀ y : Nat → Rat, y vid = x vid →
      (∀ w, w < last → w ≠ vid → fin (y w) ≤ m 0 (w+1) ∧ fin (-(y w)) ≤ m (w+1) 0) →
      (linEval (fun i => - e i) y last + -b) / d ≤ c := by
    intro y h1 h2
    have := hS y h1 h2
    rw [linEval_neg]
    have e1 : (-linEval e y last + -b) / (d : Rat) = -((linEval e y last + b) / d) := by ring
    rw [e1]; exact this
  have hE : (linEval (fun i => - e i) x last + -b) / (d : Rat) = -((linEval e x last + b) / d) := by
    rw [linEval_neg]; ring
  suffices h : BInv n x' m (deduceUMinusV up (vid+1) last e d (fin c) m) from h.1
  unfold deduceUMinusV
  refine loopUp_rel (fun a b => BInv n x' m a → BInv n x' m b) (fun _ h => h)
    (fun _ _ _ h1 h2 h => h2 (h1 h)) last _ ?_ m ⟨hx', fun _ => ⟨rfl, rfl⟩⟩
  intro u hu m' hI
  unfold deduceUMinusVStep
  dsimp only
  split; exact hI
  split; exact hI
  split; exact hI
  rename_i h0 huv hneg
  have huv' : u ≠ vid := by omega
  have hepos : 0 < e u := by omega
  have sl := slide_of_box hd hbox hS' hu huv'
  rw [hE] at sl
  have hq : ((fun i => - e i) u : Rat) / (d : Rat) = -((e u : Rat) / d) := by push_cast; ring
  rw [hq] at sl
  have hgoal : DBM.val x' (u+1) - DBM.val x' (vid+1) ≤ -((linEval e x last + b) / d) + x u := by
    simp only [DBM.val]; rw [hframe u huv']; linarith
  rw [(hI.2 (u+1)).1, (hI.2 (u+1)).2]
  split
  · -- `q ≥ 1`
    rename_i hge
    apply hI.set (by omega) (by omega)
    cases hlb : m (u+1) 0 with
    | pinf =>
      rw [hlb] at sl
      exact (sl.ruleCinf (by have := q_pos hd hepos; linarith)).elim
    | fin L =>
      rw [hlb] at sl
      exact fin_le_subUp_fin hup (le_trans hgoal (sl.ruleC (by have := q_ge_one hd hge; linarith)))
  · -- `0 < q < 1`
    rename_i hlt
    split
    · exact hI
    · rename_i U hU
      apply hI.set (by omega) (by omega)
      cases hlb : m (u+1) 0 with
      | pinf =>
        rw [hlb] at sl
        exact (sl.ruleCinf (by have := q_pos hd hepos; linarith)).elim
      | fin L =>
        rw [hU, hlb] at sl
        simp only [toRat]
        refine fin_le_addUp_up' hup (le_trans hgoal ?_)
        have := sl.ruleD (by have := q_pos hd hepos; linarith) (by have := q_lt_one hd hlt; linarith)
        have e2 : U + -(-((e u : Rat) / d)) * (-L - U) = U - (e u : Rat) / d * (L + U) := by ring
        rw [e2] at this
        exact this

end PPLV.WR
