import PPLV.WR.ReduceOctProofsPreserveBase
/-!
# Octagon reduction keeps every point, part 3 (stages (s), (x)): the 0-cycle through the singular class pins
every member to the constant `octFull (cidx a) a / 2`; a pinned index and the unary cell of `j` give the cell
`(i, j)` (cells between the singular class and anything else are never examined by the code)
-/
namespace PPLV.WR
open ExtRat (fin pinf addUp halfUp)

/-- `p a` sits on its upper bound: `2 p_a = octFull (cidx a) a` -/
def Pin (m : Mat) (p : Nat → Rat) (a : Nat) : Prop := octFull m (cidx a) a = fin (2 * p a)

/-- stage (x): from a pinned `i` and the unary cell of `j` -/
theorem ok_of_pin {n : Nat} {c : OctM n} (hc : c.IsStronglyClosed) {p : Nat → Rat} (hp : Coh p) {i j : Nat}
    (hi : i < 2 * n) (hj : j < 2 * n) (hpin : Pin c.e p i) (hu : Ok c.e p (cidx j) j) : Ok c.e p i j := by
  cases hv : octFull c.e i j with
  | pinf => exact Ok.of_pinf hv
  | fin v =>
    have t1 := hc.tri (cidx j) i (cidx i) (cidx_lt hj) hi (cidx_lt hi)
    rw [octFull_coh' c.e j i, hv, hpin, eadd_fin] at t1
    obtain ⟨w, hw, hle⟩ := ExtRat.le_fin_inv t1
    have t2 := hc.tri (cidx j) j i (cidx_lt hj) hj hi
    rw [hw, hv, eadd_fin] at t2
    obtain ⟨t, ht, hle'⟩ := ExtRat.le_fin_inv t2
    unfold Ok at hu ⊢
    rw [ht, hp] at hu
    have := ExtRat.fin_le_fin.1 hu
    rw [hv]
    exact ExtRat.fin_le_fin.2 (by linarith)

theorem Pin.unary {m : Mat} {p : Nat → Rat} (hp : Coh p) {a : Nat} (h : Pin m p a) : Ok m p (cidx a) a := by
  unfold Ok; rw [h, hp]; exact ExtRat.fin_le_fin.2 (by linarith)

section ctx
variable {n : Nat} {c : OctM n} {succ : Nat → Nat} {nr : BMat} {p : Nat → Rat} (X : RCtx c succ nr p)
include X

/-- excess of `p a` over its pinned value -/
def sexc (m : Mat) (p : Nat → Rat) (a : Nat) : Rat := 2 * p a - (octFull m (cidx a) a).toRat

omit X in
theorem sexc_eq {m : Mat} {p : Nat → Rat} {a : Nat} {w : Rat} (h : octFull m (cidx a) a = fin w) :
    sexc m p a = 2 * p a - w := by unfold sexc; rw [h]; rfl

/-- a kept cell `(b, a)` between two singular indices orders their excesses -/
theorem RCtx.sing_step {a b : Nat} (ha : a < 2 * n) (hb : b < 2 * n) (hne : a ≠ b)
    (hsa : OZEq c.e a (cidx a)) (hsb : OZEq c.e b (cidx b)) (hok : Ok c.e p b a) :
    sexc c.e p a ≤ sexc c.e p b := by
  obtain ⟨ua, wa, hua, hwa, ea⟩ := hsa.fin_of_ne (cidx_ne a).symm
  obtain ⟨ub, wb, hub, hwb, eb⟩ := hsb.fin_of_ne (cidx_ne b).symm
  have hcoh := X.hc.coh b a hb ha (Ne.symm hne)
  rw [hub, hwa, eadd_fin, halfUp_fin] at hcoh
  obtain ⟨v, hv, hle⟩ := ExtRat.le_fin_inv hcoh
  unfold Ok at hok
  rw [hv] at hok
  have := ExtRat.fin_le_fin.1 hok
  rw [sexc_eq hwa, sexc_eq hwb]
  linarith

/-- the excess grows along the even members of the singular class -/
theorem RCtx.sing_mono {s : Nat} (hS : SingL (2 * n) c.e s) :
    ∀ d a b, b - a ≤ d → a ≤ b → b < 2 * n → a % 2 = 0 → b % 2 = 0 → OZEq c.e a s → OZEq c.e b s →
      sexc c.e p a ≤ sexc c.e p b := by
  intro d
  induction d with
  | zero =>
    intro a b h1 h2 _ _ _ _ _
    have : a = b := by omega
    subst this; exact le_refl _
  | succ d ih =>
    intro a b h1 h2 hb hae hbe haz hbz
    by_cases e : a = b
    · subst e; exact le_refl _
    have ha : a < 2 * n := by omega
    have hsa : OZEq c.e a (cidx a) := sing_of_zeq c X.hc ha hS.lt haz hS.sing
    have hba : OZEq c.e b a := OZEq.trans c X.hc hb hS.lt ha hbz haz.symm
    have hsa' : OZEq c.e a (a + 1) := by rw [← cidx_of_even hae]; exact hsa
    have hne : succ (a + 1) ≠ a + 1 := fun e' =>
      X.hs.self (a + 1) b e' (by omega) hb (OZEq.trans c X.hc hb ha (by omega) hba hsa')
    obtain ⟨s1, s2, s3, s4, s5⟩ := sing_next c X.hc (succ := ⟨succ, ()⟩) X.hs ha hae hsa hne
    have s1 : succ (a + 1) % 2 = 0 := s1
    have s2 : succ (a + 1) < 2 * n := s2
    have s3 : a + 1 < succ (a + 1) := s3
    have s4 : OZEq c.e (succ (a + 1)) a := s4
    have hle : succ (a + 1) ≤ b := s5 b hbe (by omega) hb hba
    have hnz : OZEq c.e (succ (a + 1)) s := OZEq.trans c X.hc s2 ha hS.lt s4 haz
    have hok : Ok c.e p (succ (a + 1)) a :=
      X.ok_of_kept s2 (by unfold rowSize; omega) (by omega) (X.hk.singc s a hS ha hae haz hne)
    have h1' := X.sing_step ha s2 (by omega) hsa (sing_of_zeq c X.hc s2 hS.lt hnz hS.sing) hok
    have h2' := ih (succ (a + 1)) b (by omega) hle hb s1 hbe hnz hbz
    exact le_trans h1' h2'

/-- the greatest even member of the singular class -/
theorem RCtx.sing_top {s : Nat} (hS : SingL (2 * n) c.e s) :
    ∀ d a, 2 * n - a ≤ d → a < 2 * n → a % 2 = 0 → OZEq c.e a s →
      ∃ z, a ≤ z ∧ z < 2 * n ∧ z % 2 = 0 ∧ OZEq c.e z s ∧ succ (z + 1) = z + 1 := by
  intro d
  induction d with
  | zero => intro a h1 h2; omega
  | succ d ih =>
    intro a h1 ha hae haz
    by_cases e : succ (a + 1) = a + 1
    · exact ⟨a, Nat.le_refl _, ha, hae, haz, e⟩
    · have hsa : OZEq c.e a (cidx a) := sing_of_zeq c X.hc ha hS.lt haz hS.sing
      obtain ⟨s1, s2, s3, s4, _⟩ := sing_next c X.hc (succ := ⟨succ, ()⟩) X.hs ha hae hsa e
      have s1 : succ (a + 1) % 2 = 0 := s1
      have s2 : succ (a + 1) < 2 * n := s2
      have s3 : a + 1 < succ (a + 1) := s3
      have s4 : OZEq c.e (succ (a + 1)) a := s4
      obtain ⟨z, z1, z2, z3, z4, z5⟩ := ih (succ (a + 1)) (by omega) s2 s1
        (OZEq.trans c X.hc s2 ha hS.lt s4 haz)
      exact ⟨z, by omega, z2, z3, z4, z5⟩

/-- stage (s): every member of the singular class is pinned -/
theorem RCtx.sing_pin {s : Nat} (hS : SingL (2 * n) c.e s) {a : Nat} (ha : a < 2 * n) (haz : OZEq c.e a s) :
    Pin c.e p a := by
  have hsev : s % 2 = 0 := by
    have := hS.least (cidx s) (cidx_lt hS.lt) (by rw [cidx_cidx]; exact hS.sing.symm)
    have := cidx_spec s
    omega
  -- even members
  have heven : ∀ a, a < 2 * n → a % 2 = 0 → OZEq c.e a s → Pin c.e p a := by
    intro a ha hae haz
    have hsa : OZEq c.e a (cidx a) := sing_of_zeq c X.hc ha hS.lt haz hS.sing
    obtain ⟨z, z1, z2, z3, z4, z5⟩ := X.sing_top hS (2 * n - s) s (Nat.le_refl _) hS.lt hsev (OZEq.refl _ _)
    have hsz : OZEq c.e z (cidx z) := sing_of_zeq c X.hc z2 hS.lt z4 hS.sing
    have hsa' := hsa
    have hsz' := hsz
    rw [cidx_of_even hae] at hsa'
    rw [cidx_of_even z3] at hsz'
    have hale : s ≤ a := hS.least a ha hsa
    have haz' : a ≤ z := by
      by_cases hh : z + 1 < a
      · exact absurd (OZEq.trans c X.hc ha z2 (by omega) (OZEq.trans c X.hc ha hS.lt z2 haz z4.symm) hsz')
          (X.hs.self (z + 1) a z5 hh ha)
      · omega
    have m1 := X.sing_mono hS (a - s) s a (Nat.le_refl _) hale ha hsev hae (OZEq.refl _ _) haz
    have m2 := X.sing_mono hS (z - a) a z (Nat.le_refl _) haz' z2 hae z3 haz z4
    -- bottom
    have hb : 0 ≤ sexc c.e p s := by
      have hk := X.ok_of_kept hS.lt (j := s + 1) (by unfold rowSize; omega) (by omega) (X.hk.sing0 s hS)
      obtain ⟨u, w, hu, hw, e⟩ := hS.sing.fin_of_ne (cidx_ne s).symm
      rw [sexc_eq hw]
      unfold Ok at hk
      rw [← cidx_of_even hsev, hu, X.hp] at hk
      have := ExtRat.fin_le_fin.1 hk
      linarith
    -- top
    have ht : sexc c.e p z ≤ 0 := by
      have hk := X.ok_of_kept (i := z + 1) (j := z) (by omega) (by unfold rowSize; omega) (by omega)
        (X.hk.singz s z hS z2 z3 z4 z5)
      obtain ⟨u, w, hu, hw, e⟩ := hsz.fin_of_ne (cidx_ne z).symm
      rw [sexc_eq hw]
      unfold Ok at hk
      rw [← cidx_of_even z3, hw, X.hp] at hk
      have := ExtRat.fin_le_fin.1 hk
      linarith
    obtain ⟨u, w, hu, hw, e⟩ := hsa.fin_of_ne (cidx_ne a).symm
    rw [sexc_eq hw] at m1 m2
    unfold Pin
    rw [hw]; congr 1; linarith
  by_cases hae : a % 2 = 0
  · exact heven a ha hae haz
  · have s1 := cidx_spec a
    have hca : cidx a < 2 * n := cidx_lt ha
    have hsa : OZEq c.e a (cidx a) := sing_of_zeq c X.hc ha hS.lt haz hS.sing
    have hcz : OZEq c.e (cidx a) s := OZEq.trans c X.hc hca ha hS.lt hsa.symm haz
    have h := heven (cidx a) hca (by omega) hcz
    unfold Pin at h ⊢
    rw [cidx_cidx] at h
    obtain ⟨u, w, hu, hw, e⟩ := hsa.fin_of_ne (cidx_ne a).symm
    rw [hu] at h
    cases h
    rw [hw]; congr 1; rw [X.hp] at e; linarith

end ctx

end PPLV.WR
