import PPLV.WR.Trans2LatProofsSem1
/-!
# Lattice / dimension operations of `BD_Shape<T>`: concatenate, remove_space_dimensions (soundness)
-/
set_option linter.unusedVariables false
namespace PPLV.WR
open ExtRat

/-! ## `concatenate_assign` -/

theorem bdsLatConcatenate_eq (R : Rnd) (n1 : Nat) (c1 : Bool) (m1 : Mat) (n2 : Nat) (c2 : Bool) (m2 : Mat) :
    ∃ r, bdsLatConcatenate R n1 c1 m1 n2 c2 m2 = some r ∧ r.dim = n1 + n2 ∧
      ∀ a b, a ≤ n1 + n2 → b ≤ n1 + n2 →
        r.m a b = if n1 + 1 ≤ a then
          (if b = 0 then m2 (a - n1) 0 else if n1 + 1 ≤ b then m2 (a - n1) (b - n1) else pinf)
        else if a = 0 ∧ n1 + 1 ≤ b then m2 0 (b - n1)
        else if b ≤ n1 then m1 a b else pinf := by
  unfold bdsLatConcatenate bdsLatEmbed
  by_cases hk : n2 = 0
  · subst hk
    simp only [if_true]
    refine ⟨_, rfl, rfl, ?_⟩
    intro a b ha hb
    rw [bdsLatConcatLoop_apply]
    rw [if_neg (by omega), if_neg (by omega), if_neg (by omega), if_neg (by omega), if_pos (by omega)]
  · simp only [if_neg hk]
    refine ⟨_, rfl, rfl, ?_⟩
    intro a b ha hb
    rw [bdsLatConcatLoop_apply]
    simp only [bdsLatGrow]
    split_ifs <;> first | rfl | omega

/-- the point of the concatenation: `z` restricted to the first `n1` coordinates, and the last `n2` ones -/
theorem bdsLatConcatenate_sound (R : Rnd) (n1 : Nat) (c1 : Bool) (m1 : Mat) (n2 : Nat) (c2 : Bool) (m2 : Mat)
    {z : Nat → Rat} (h1 : z ∈ γB n1 m1) (h2 : (fun i => z (n1 + i)) ∈ γB n2 m2) :
    ∃ r, bdsLatConcatenate R n1 c1 m1 n2 c2 m2 = some r ∧ r.dim = n1 + n2 ∧ z ∈ γB (n1 + n2) r.m := by
  obtain ⟨r, e, hd, hm⟩ := bdsLatConcatenate_eq R n1 c1 m1 n2 c2 m2
  refine ⟨r, e, hd, ?_⟩
  have hv : ∀ a, n1 + 1 ≤ a → DBM.val z a = DBM.val (fun i => z (n1 + i)) (a - n1) := by
    intro a ha
    obtain ⟨t, rfl⟩ : ∃ t, a = n1 + 1 + t := ⟨a - (n1 + 1), by omega⟩
    have e1 : n1 + 1 + t - n1 = t + 1 := by omega
    have e2 : n1 + 1 + t = (n1 + t) + 1 := by omega
    rw [e1, e2]
    simp only [DBM.val]
  intro a b hab
  have ha : a ≤ n1 + n2 := by have := hab.1; omega
  have hb : b ≤ n1 + n2 := by have := hab.2; omega
  rw [hm a b ha hb]
  split
  · rename_i h
    split
    · rename_i hb0; subst hb0
      rw [hv a h]
      exact h2 (a - n1) 0 ⟨by omega, by omega⟩
    · split
      · rename_i hb1
        rw [hv a h, hv b hb1]
        exact h2 (a - n1) (b - n1) ⟨by omega, by omega⟩
      · exact le_pinf _
  · split
    · rename_i hc
      obtain ⟨rfl, hb1⟩ := hc
      rw [hv b hb1]
      exact h2 0 (b - n1) ⟨by omega, by omega⟩
    · split
      · exact h1 a b ⟨by omega, by omega⟩
      · exact le_pinf _

/-- `concatenate_assign` is exact for every bound type (class invariant on `y`: `dbm[0][0] = +∞`) -/
theorem bdsLatConcatenate_exact (R : Rnd) (n1 : Nat) (c1 : Bool) (m1 : Mat) (n2 : Nat) (c2 : Bool) (m2 : Mat)
    (hd2 : bdsLatDiag n2 m2) :
    ∃ r, bdsLatConcatenate R n1 c1 m1 n2 c2 m2 = some r ∧ r.dim = n1 + n2 ∧
      ∀ z, z ∈ γB (n1 + n2) r.m ↔ (z ∈ γB n1 m1 ∧ (fun i => z (n1 + i)) ∈ γB n2 m2) := by
  obtain ⟨r, e, hd, hm⟩ := bdsLatConcatenate_eq R n1 c1 m1 n2 c2 m2
  refine ⟨r, e, hd, fun z => ⟨fun h => ⟨?_, ?_⟩, fun h => ?_⟩⟩
  · intro a b hab
    have := h a b ⟨by have := hab.1; omega, by have := hab.2; omega⟩
    rw [hm a b (by have := hab.1; omega) (by have := hab.2; omega)] at this
    rw [if_neg (by have := hab.1; omega), if_neg (by have := hab.2; omega),
      if_pos (by have := hab.2; omega)] at this
    exact this
  · have hv : ∀ a, 1 ≤ a → DBM.val (fun i => z (n1 + i)) a = DBM.val z (a + n1) := by
      intro a ha
      obtain ⟨t, rfl⟩ : ∃ t, a = t + 1 := ⟨a - 1, by omega⟩
      have : t + 1 + n1 = (n1 + t) + 1 := by omega
      rw [this]; simp only [DBM.val]
    intro a b hab
    have ha := hab.1
    have hb := hab.2
    by_cases ha0 : a = 0
    · by_cases hb0 : b = 0
      · subst ha0; subst hb0
        rw [hd2 0 (by omega)]; exact le_pinf _
      · subst ha0
        rw [hv b (by omega)]
        have := h 0 (b + n1) ⟨by omega, by omega⟩
        rw [hm 0 (b + n1) (by omega) (by omega)] at this
        rw [if_neg (by omega), if_pos (by omega), show b + n1 - n1 = b by omega] at this
        exact this
    · by_cases hb0 : b = 0
      · subst hb0
        rw [hv a (by omega)]
        have := h (a + n1) 0 ⟨by omega, by omega⟩
        rw [hm (a + n1) 0 (by omega) (by omega)] at this
        rw [if_pos (by omega), if_pos rfl, show a + n1 - n1 = a by omega] at this
        exact this
      · rw [hv a (by omega), hv b (by omega)]
        have := h (a + n1) (b + n1) ⟨by omega, by omega⟩
        rw [hm (a + n1) (b + n1) (by omega) (by omega)] at this
        rw [if_pos (by omega), if_neg (by omega), if_pos (by omega), show a + n1 - n1 = a by omega,
          show b + n1 - n1 = b by omega] at this
        exact this
  · obtain ⟨r', e', _, h'⟩ := bdsLatConcatenate_sound R n1 c1 m1 n2 c2 m2 h.1 h.2
    rw [e] at e'
    simp only [Option.some.injEq] at e'
    rw [e']; exact h'

/-! ## `remove_space_dimensions` (soundness) -/

theorem bdsLatRemoveSrcs_le (old : Nat) (vs : List Nat) (hvs : ∀ v, v ∈ vs → v < old) (src : Nat) :
    ∀ s, s ∈ bdsLatRemoveSrcs old vs src → s ≤ old := by
  induction vs generalizing src with
  | nil =>
    intro s hs
    simp only [bdsLatRemoveSrcs, List.mem_range'_1] at hs
    omega
  | cons v vs ih =>
    intro s hs
    simp only [bdsLatRemoveSrcs, List.mem_append, List.mem_range'_1] at hs
    rcases hs with hs | hs
    · have := hvs v List.mem_cons_self
      omega
    · exact ih (fun w hw => hvs w (List.mem_cons_of_mem _ hw)) _ s hs

theorem bdsLatRemoveTable_mem_le (old : Nat) (vars : List Nat) (hvs : ∀ v, v ∈ vars → v < old) :
    ∀ s, s ∈ bdsLatRemoveTable old vars → s ≤ old := by
  cases vars with
  | nil =>
    intro s hs
    simp only [bdsLatRemoveTable, List.mem_range] at hs
    omega
  | cons first rest =>
    intro s hs
    simp only [bdsLatRemoveTable, List.mem_append, List.mem_range] at hs
    rcases hs with hs | hs
    · have := hvs first List.mem_cons_self
      omega
    · exact bdsLatRemoveSrcs_le old rest (fun w hw => hvs w (List.mem_cons_of_mem _ hw)) _ s hs

theorem latGetD_le {l : List Nat} {B : Nat} (h : ∀ s, s ∈ l → s ≤ B) (a : Nat) : l.getD a 0 ≤ B := by
  rw [List.getD_eq_getElem?_getD]
  cases hq : l[a]? with
  | none => simp
  | some v => simp only [Option.getD_some]; exact h v (List.mem_of_getElem? hq)

theorem bdsLatRemoveTable_zero (old : Nat) (vars : List Nat) : (bdsLatRemoveTable old vars).getD 0 0 = 0 := by
  cases vars with
  | nil => simp [bdsLatRemoveTable, List.getD_eq_getElem?_getD]
  | cons first rest =>
    simp only [bdsLatRemoveTable, List.getD_eq_getElem?_getD]
    rw [List.getElem?_append_left (by simp)]
    simp

/-- the point with the removed coordinates dropped: new coordinate `i` is the old dbm index
`tbl[i+1]` -/
def bdsLatDropPoint (n : Nat) (vars : List Nat) (x : Nat → Rat) : Nat → Rat :=
  fun i => DBM.val x ((bdsLatRemoveTable n vars).getD (i + 1) 0)

theorem latReindex_holds {n k : Nat} {tbl : List Nat} (h0 : tbl.getD 0 0 = 0) (hle : ∀ a, tbl.getD a 0 ≤ n)
    {m : Mat} {x : Nat → Rat} (hx : x ∈ γB n m) :
    (fun i => DBM.val x (tbl.getD (i + 1) 0)) ∈ γB k (latReindex tbl m) := by
  have hv : ∀ a, DBM.val (fun i => DBM.val x (tbl.getD (i + 1) 0)) a = DBM.val x (tbl.getD a 0) := by
    intro a
    cases a with
    | zero => rw [h0]; rfl
    | succ a => rfl
  intro a b hab
  rw [hv, hv]
  exact hx _ _ ⟨by have := hle a; omega, by have := hle b; omega⟩

theorem bdsLatRemoveDims_sound {R : Rnd} (hR : R.Sound) (n : Nat) (c : Bool) (m : Mat) (vars : List Nat)
    (hne : vars ≠ []) (hvs : ∀ v, v ∈ vars → v < n) {x : Nat → Rat} (hx : x ∈ γB n m) :
    ∃ r, bdsLatRemoveDims R n c m vars = some r ∧ r.dim = n - vars.length ∧
      bdsLatDropPoint n vars x ∈ γB r.dim r.m := by
  unfold bdsLatRemoveDims
  have : vars.isEmpty = false := by cases vars <;> simp_all
  simp only [this, Bool.false_eq_true, if_false]
  obtain ⟨m', c', e, hx'⟩ := bdsLatClose_sound hR.up_le n c m hx
  simp only [e]
  split
  · rename_i h0
    refine ⟨_, rfl, h0.symm, ?_⟩
    intro a b hab
    have ha : a = 0 := by have := hab.1; simp only at this; omega
    have hb : b = 0 := by have := hab.2; simp only at this; omega
    subst ha; subst hb
    have := hx' 0 0 ⟨by omega, by omega⟩
    simpa [DBM.val] using this
  · refine ⟨_, rfl, rfl, ?_⟩
    exact latReindex_holds (bdsLatRemoveTable_zero n vars)
      (latGetD_le (bdsLatRemoveTable_mem_le n vars hvs)) hx'

end PPLV.WR
