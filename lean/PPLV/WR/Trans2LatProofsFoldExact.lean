import PPLV.WR.Trans2LatProofsRemoveExact
/-!
# Exact arithmetic: `BD_Shape<T>::fold_space_dimensions` computes the LEAST bounded-difference shape that
contains every folded piece

After the exact shortest-path closure the matrix is canonical (`bdsLatCanon`, from `DBM.closure_tight`):
every off-diagonal cell is the least bound of its difference over the points of the shape.  The
`max_assign`s of `fold_space_dimensions` only write row and column `dest`; a cell `(j, dest)` ends up below
every common bound of the closed cells `(j, dest)`, `(j, w)` (`w` folded), each of which is the least bound
of `x_w - x_j` over the shape, i.e. of `y_dest - y_j` over the piece folded through `w`.  The inner
`remove_space_dimensions` runs no closure (the closed flag is still set) and only re-indexes.
-/
set_option linter.unusedVariables false
namespace PPLV.WR
open ExtRat

/-! ## the table of source indices never selects a removed variable (`vars` ascending) -/

theorem bdsLatFoldXSrcs_notvar (old : Nat) (vs : List Nat) (src : Nat) (hs : vs.Pairwise (· < ·))
    (hge : ∀ u, u ∈ vs → src ≤ u + 1) :
    ∀ s, s ∈ bdsLatRemoveSrcs old vs src → ∀ u, u ∈ vs → s ≠ u + 1 := by
  induction vs generalizing src with
  | nil => intro s _ u hu; simp at hu
  | cons v vs ih =>
    intro s hs' u hu
    simp only [bdsLatRemoveSrcs, List.mem_append, List.mem_range'_1] at hs'
    have hv := hge v List.mem_cons_self
    rw [List.pairwise_cons] at hs
    obtain ⟨hlt, hsv⟩ := hs
    rcases hs' with h | h
    · rcases List.mem_cons.1 hu with rfl | hu'
      · omega
      · have := hlt u hu'; omega
    · have hge2 := bdsLatRemoveSrcs_ge old vs _ s h
      rcases List.mem_cons.1 hu with rfl | hu'
      · omega
      · exact ih (max src (v + 1) + 1) hsv (fun u hu => by have := hlt u hu; omega) s h u hu'

theorem bdsLatFoldXTable_notvar (old : Nat) (vars : List Nat) (hs : vars.Pairwise (· < ·)) :
    ∀ s, s ∈ bdsLatRemoveTable old vars → ∀ u, u ∈ vars → s ≠ u + 1 := by
  cases vars with
  | nil => intro s _ u hu; simp at hu
  | cons first rest =>
    intro s hs' u hu
    simp only [bdsLatRemoveTable, List.mem_append, List.mem_range] at hs'
    rw [List.pairwise_cons] at hs
    obtain ⟨hlt, hsv⟩ := hs
    rcases hs' with h | h
    · rcases List.mem_cons.1 hu with rfl | hu'
      · omega
      · have := hlt u hu'; omega
    · have hge2 := bdsLatRemoveSrcs_ge old rest _ s h
      rcases List.mem_cons.1 hu with rfl | hu'
      · omega
      · exact bdsLatFoldXSrcs_notvar old rest (first + 2) hsv (fun u hu => by have := hlt u hu; omega) s h u hu'

theorem bdsLatFoldXVal_drop (n : Nat) (vars : List Nat) (y : Nat → Rat) (a : Nat) :
    DBM.val (bdsLatDropPoint n vars y) a = DBM.val y ((bdsLatRemoveTable n vars).getD a 0) := by
  cases a with
  | zero => rw [bdsLatRemoveTable_zero]; rfl
  | succ a => rfl

/-! ## what the `max_assign`s leave -/

/-- the cells off row and column `v` are those of `C`; the cells of column `v` are below `E`, those of
row `v` below `E'` -/
def bdsLatFoldXInv (v : Nat) (C : Mat) (E E' : Nat → ExtRat) (s : Mat) : Prop :=
  (∀ A B, A ≠ v → B ≠ v → s A B = C A B) ∧ (∀ A, A ≠ v → s A v ≤ E A) ∧ (∀ B, B ≠ v → s v B ≤ E' B)

theorem bdsLatFoldXInv_one (n v t : Nat) (C : Mat) (E E' : Nat → ExtRat) (ht : t ≠ v)
    (hE : ∀ A, A ≠ v → C A t ≤ E A) (hE' : ∀ B, B ≠ v → C t B ≤ E' B) {s : Mat}
    (h : bdsLatFoldXInv v C E E' s) : bdsLatFoldXInv v C E E' (bdsLatFoldOne n v t s) := by
  unfold bdsLatFoldOne
  apply latLoopDown_inv (bdsLatFoldXInv v C E E') h
  intro j s hj hs
  obtain ⟨h1, h2, h3⟩ := hs
  refine ⟨?_, ?_, ?_⟩
  · intro A B hA hB
    simp only [Mat.set_apply]
    rw [if_neg (fun h => hA h.1), if_neg (fun h => hB h.2)]
    exact h1 A B hA hB
  · intro A hA
    simp only [Mat.set_apply]
    rw [if_neg (fun h => hA h.1)]
    by_cases hAj : A = j
    · subst hAj
      rw [if_pos (by simp)]
      exact latMaxA_le (h2 A hA) (by rw [h1 A t hA ht]; exact hE A hA)
    · rw [if_neg (fun h => hAj h.1)]
      exact h2 A hA
  · intro B hB
    simp only [Mat.set_apply]
    by_cases hBj : B = j
    · subst hBj
      rw [if_pos (by simp), if_neg (fun h => hB h.2), if_neg (fun h => hB h.2)]
      exact latMaxA_le (h3 B hB) (by rw [h1 t B ht hB]; exact hE' B hB)
    · rw [if_neg (fun h => hBj h.2), if_neg (fun h => hB h.2)]
      exact h3 B hB

theorem bdsLatFoldXInv_loop (n v : Nat) (vars : List Nat) (C : Mat) (E E' : Nat → ExtRat)
    (ht : ∀ t, t ∈ vars → t + 1 ≠ v)
    (hE : ∀ t, t ∈ vars → ∀ A, A ≠ v → C A (t + 1) ≤ E A)
    (hE' : ∀ t, t ∈ vars → ∀ B, B ≠ v → C (t + 1) B ≤ E' B) {s : Mat}
    (h : bdsLatFoldXInv v C E E' s) : bdsLatFoldXInv v C E E' (bdsLatFoldLoop n v vars s) := by
  rw [bdsLatFoldLoop_eq]
  induction vars generalizing s with
  | nil => exact h
  | cons u us ih =>
    simp only [List.foldl_cons]
    exact ih (fun t ht' => ht t (List.mem_cons_of_mem _ ht'))
      (fun t ht' => hE t (List.mem_cons_of_mem _ ht'))
      (fun t ht' => hE' t (List.mem_cons_of_mem _ ht'))
      (bdsLatFoldXInv_one n v (u + 1) C E E' (ht u List.mem_cons_self) (hE u List.mem_cons_self)
        (hE' u List.mem_cons_self) h)

/-- the cells off row and column `v` are never written (no hypothesis on `vars`) -/
theorem bdsLatFoldXLoop_off (n v : Nat) (vars : List Nat) (s : Mat) {A B : Nat} (hA : A ≠ v) (hB : B ≠ v) :
    bdsLatFoldLoop n v vars s A B = s A B := by
  rw [bdsLatFoldLoop_eq]
  induction vars generalizing s with
  | nil => rfl
  | cons u us ih =>
    simp only [List.foldl_cons]
    rw [ih]
    unfold bdsLatFoldOne
    refine latLoopDown_frame (fun s : Mat => s A B) ?_
    intro j s hj
    simp only [Mat.set_apply]
    rw [if_neg (fun h => hA h.1), if_neg (fun h => hB h.2)]

/-! ## canonical matrices -/

/-- a cell of a canonical matrix is below every bound of its difference over the shape -/
theorem bdsLatFoldXCanon_le {n : Nat} {C : Mat} (hc : bdsLatCanon n C) {I J : Nat} (hI : I ≤ n) (hJ : J ≤ n)
    (hIJ : I ≠ J) (e : ExtRat) (h : ∀ x, x ∈ γB n C → fin (DBM.val x J - DBM.val x I) ≤ e) : C I J ≤ e := by
  have := hc.2 { f := fun i j => if i = I ∧ j = J then e else pinf } (by
    intro x hx a b hab
    show _ ≤ (if a = I ∧ b = J then e else pinf)
    split
    · rename_i hab'; obtain ⟨rfl, rfl⟩ := hab'; exact h x hx
    · exact le_pinf _) I J hI hJ hIJ
  simpa using this

/-- the closure at the head of `fold_space_dimensions`, exact arithmetic, on a non-empty shape of positive
dimension: the flag is set afterwards and the matrix is canonical -/
theorem bdsLatFoldXClose {n : Nat} (hn : n ≠ 0) (c : Bool) {m : Mat} (hd : bdsLatDiag n m)
    (hc : c = true → bdsLatCanon n m) (hq : ∃ q, q ∈ γB n m) :
    ∃ C, bdsLatClose upId n c m = some (C, true) ∧ bdsLatCanon n C ∧ γB n C = γB n m := by
  obtain ⟨q, hq⟩ := hq
  obtain ⟨m', c', e, _⟩ := bdsLatClose_sound (up := upId) (fun _ => le_rfl' _) n c m hq
  have hc' : c' = true := by
    have e' := e
    unfold bdsLatClose at e'
    cases c with
    | true => simp at e'; exact e'.2
    | false =>
      simp only [Bool.false_eq_true, if_false, if_neg hn] at e'
      cases hcf : closeFirst upId false (DBM.ofMat n m) with
      | none => rw [hcf] at e'; simp at e'
      | some a => rw [hcf] at e'; simp at e'; exact e'.2
  subst hc'
  refine ⟨m', e, ?_, bdsLatClose_gamma hd e⟩
  cases c with
  | true =>
    have : m' = m := by
      unfold bdsLatClose at e
      simp only [if_true, Option.some.injEq, Prod.mk.injEq] at e
      exact e.1.symm
    rw [this]; exact hc rfl
  | false => exact bdsLatClose_canon hn hd e

theorem bdsLatFoldXClose_marked (n : Nat) (F : Mat) : bdsLatClose upId n true F = some (F, true) := by
  simp [bdsLatClose]

/-! ## the theorem -/

/-- `fold_space_dimensions(vars, dest)`, exact arithmetic, non-empty shape: the result is the least
bounded-difference shape containing every folded piece — it is contained in `γ d` for every matrix `d` whose
shape contains the folded images (through `dest` itself and through every `w ∈ vars`) of every point.
`vars` is ascending with ids `< n` (the `Variables_Set` of the call); a set closed flag has to mean what it
says (`bdsLatCanon`), with the flag clear there is no hypothesis besides the class invariant. -/
theorem bdsLatFold_exact (n : Nat) (c : Bool) (m : Mat) (hd : bdsLatDiag n m)
    (hc : c = true → bdsLatCanon n m) (hq : ∃ q, q ∈ γB n m) (vars : List Nat) (dest : Nat) (hne : vars ≠ [])
    (hsorted : vars.Pairwise (· < ·)) (hvs : ∀ v, v ∈ vars → v < n) :
    ∃ r, bdsLatFold Rnd.exact n c m vars dest = some r ∧ r.dim = n - vars.length ∧
      ∀ d : Mat, (∀ x, x ∈ γB n m → ∀ w, (w = dest ∨ w ∈ vars) →
          bdsLatDropPoint n vars (upd x dest (x w)) ∈ γB r.dim d) → γB r.dim r.m ⊆ γB r.dim d := by
  unfold bdsLatFold
  have hie : vars.isEmpty = false := by cases vars <;> simp_all
  simp only [hie, Bool.false_eq_true, if_false]
  rw [latExactUp]
  have hn : n ≠ 0 := by
    cases vars with
    | nil => exact absurd rfl hne
    | cons v vs => have := hvs v List.mem_cons_self; omega
  obtain ⟨C, e, hcan, hg⟩ := bdsLatFoldXClose hn c hd hc hq
  simp only [e]
  unfold bdsLatRemoveDims
  simp only [hie, Bool.false_eq_true, if_false]
  rw [latExactUp, bdsLatFoldXClose_marked]
  dsimp only
  obtain ⟨q, hq⟩ := hq
  by_cases h0 : n - vars.length = 0
  · simp only [if_pos h0]
    refine ⟨_, rfl, h0.symm, ?_⟩
    intro d hdp z hz a b hab
    have ha : a = 0 := by have := hab.1; simp only at this; omega
    have hb : b = 0 := by have := hab.2; simp only at this; omega
    subst ha; subst hb
    have := hdp q hq dest (Or.inl rfl) 0 0 ⟨by simp, by simp⟩
    simpa using this
  · simp only [if_neg h0]
    refine ⟨_, rfl, rfl, ?_⟩
    intro d hdp z hz a b hab
    have hak : a < n - vars.length + 1 := hab.1
    have hbk : b < n - vars.length + 1 := hab.2
    have hz' := hz a b hab
    by_cases hab' : a = b
    · subst hab'
      have := hdp q hq dest (Or.inl rfl) a a hab
      simp only [sub_self] at this ⊢
      exact this
    · refine le_trans' hz' ?_
      show bdsLatFoldLoop n (dest + 1) vars C ((bdsLatRemoveTable n vars).getD a 0)
        ((bdsLatRemoveTable n vars).getD b 0) ≤ d a b
      have hsortedT := bdsLatRemoveTable_sorted n vars
      have hlen := bdsLatRemoveTable_length n vars hvs
      have hnodup : (bdsLatRemoveTable n vars).Nodup := hsortedT.imp (fun h => Nat.ne_of_lt h)
      have hmemA := bdsLatGetD_mem (l := bdsLatRemoveTable n vars) (a := a) (by omega)
      have hmemB := bdsLatGetD_mem (l := bdsLatRemoveTable n vars) (a := b) (by omega)
      have hAB : (bdsLatRemoveTable n vars).getD a 0 ≠ (bdsLatRemoveTable n vars).getD b 0 := by
        intro h
        rw [List.getD_eq_getElem?_getD, List.getD_eq_getElem?_getD, List.getElem?_eq_getElem (by omega),
          List.getElem?_eq_getElem (by omega)] at h
        simp only [Option.getD_some] at h
        exact hab' ((List.Nodup.getElem_inj_iff hnodup).1 h)
      have hA := bdsLatRemoveTable_mem_le n vars hvs _ hmemA
      have hB := bdsLatRemoveTable_mem_le n vars hvs _ hmemB
      have hAvars := bdsLatFoldXTable_notvar n vars hsorted _ hmemA
      have hBvars := bdsLatFoldXTable_notvar n vars hsorted _ hmemB
      have key : ∀ w, (w = dest ∨ w ∈ vars) → ∀ I J, I ≤ n → J ≤ n → I ≠ J →
          (∀ x : Nat → Rat, DBM.val (upd x dest (x w)) ((bdsLatRemoveTable n vars).getD b 0)
              - DBM.val (upd x dest (x w)) ((bdsLatRemoveTable n vars).getD a 0)
            = DBM.val x J - DBM.val x I) → C I J ≤ d a b := by
        intro w hw I J hI hJ hIJ hval
        apply bdsLatFoldXCanon_le hcan hI hJ hIJ
        intro x hx
        have := hdp x (hg ▸ hx) w hw a b hab
        rw [bdsLatFoldXVal_drop, bdsLatFoldXVal_drop, hval x] at this
        exact this
      generalize (bdsLatRemoveTable n vars).getD a 0 = A at hAB hA hB hAvars hBvars hmemA hmemB key ⊢
      generalize (bdsLatRemoveTable n vars).getD b 0 = B at hAB hB hBvars hmemB key ⊢
      by_cases hBv : B = dest + 1
      · have hAv : A ≠ dest + 1 := hBv ▸ hAB
        have htv : ∀ t, t ∈ vars → t + 1 ≠ dest + 1 := fun t ht h => hBvars t ht (hBv.trans h.symm)
        have inv := bdsLatFoldXInv_loop n (dest + 1) vars C (fun X => if X = A then d a b else pinf)
          (fun _ => pinf) htv
          (by
            intro t ht X hX
            show _ ≤ (if X = A then d a b else pinf)
            split
            · rename_i hXA; subst hXA
              exact key t (Or.inr ht) X (t + 1) hA (hvs t ht) (hAvars t ht)
                (fun x => by rw [hBv, val_upd_self, val_upd_ne _ _ hAv]; rfl)
            · exact le_pinf _)
          (fun _ _ _ _ => le_pinf _) (s := C)
          ⟨fun _ _ _ _ => rfl, by
            intro X hX
            show _ ≤ (if X = A then d a b else pinf)
            split
            · rename_i hXA; subst hXA
              exact key dest (Or.inl rfl) X (dest + 1) hA (hBv ▸ hB) hAv
                (fun x => by rw [latUpd_self, hBv])
            · exact le_pinf _, fun _ _ => le_pinf _⟩
        have := inv.2.1 A hAv
        rw [hBv]
        simpa using this
      · by_cases hAv : A = dest + 1
        · have htv : ∀ t, t ∈ vars → t + 1 ≠ dest + 1 := fun t ht h => hAvars t ht (hAv.trans h.symm)
          have inv := bdsLatFoldXInv_loop n (dest + 1) vars C (fun _ => pinf)
            (fun X => if X = B then d a b else pinf) htv
            (fun _ _ _ _ => le_pinf _)
            (by
              intro t ht X hX
              show _ ≤ (if X = B then d a b else pinf)
              split
              · rename_i hXB; subst hXB
                exact key t (Or.inr ht) (t + 1) X (hvs t ht) hB (fun h => hBvars t ht h.symm)
                  (fun x => by rw [hAv, val_upd_self, val_upd_ne _ _ hBv]; rfl)
              · exact le_pinf _) (s := C)
            ⟨fun _ _ _ _ => rfl, fun _ _ => le_pinf _, by
              intro X hX
              show _ ≤ (if X = B then d a b else pinf)
              split
              · rename_i hXB; subst hXB
                exact key dest (Or.inl rfl) (dest + 1) X (hAv ▸ hA) hB (fun h => hBv h.symm)
                  (fun x => by rw [latUpd_self, hAv])
              · exact le_pinf _⟩
          have := inv.2.2 B hBv
          rw [hAv]
          simpa using this
        · rw [bdsLatFoldXLoop_off n _ vars C hAv hBv]
          exact key dest (Or.inl rfl) A B hA hB hAB (fun x => by rw [latUpd_self])

end PPLV.WR
