import PPLV.WR.ReduceProofsMathPreserve
/-!
# Reduction of a closed difference-bound matrix, pure mathematics (4): the affine dimension

`leaderCount n lead` = number of zero-equivalence classes not containing the zero variable (leaders among the
indices `1..n`; `lead 0 = 0`).  Geometric content of `affine_dimension() = leaderCount`:

* (i) every non-leader is an affine function of its leader on the whole shape (`n - d` independent equalities:
  each one mentions a different non-leader);
* (ii) there is a point of the shape around which the `d` classes can be translated independently and
  simultaneously by any amounts `|t_l| ≤ δ` (`d` independent directions: the indicator vectors of the classes).

The point of (ii) is a relative-interior point: strictly inside every entry between two indices that are not
zero-equivalent.  It is obtained by averaging, one pair at a time (`exists_strict_all`).
-/
namespace PPLV.WR
open ExtRat (fin pinf)

/-- number of leaders among the indices `1..n` -/
def leaderCount (n : Nat) (lead : Nat → Nat) : Nat :=
  ((List.range (n+1)).filter (fun i => i != 0 && lead i == i)).length

/-! ## a relative-interior potential of a closed matrix -/

theorem holds_mid {S : Nat → Nat → Prop} {p q : Nat → Rat} {m : Mat} (hp : Holds S p m) (hq : Holds S q m) :
    Holds S (fun i => (p i + q i) / 2) m := by
  intro a b hab
  have h1 := hp a b hab
  have h2 := hq a b hab
  show fin ((p b + q b) / 2 - (p a + q a) / 2) ≤ m a b
  cases h : m a b with
  | pinf => exact ExtRat.le_pinf _
  | fin u =>
    rw [h, ExtRat.fin_le_fin] at h1 h2
    rw [ExtRat.fin_le_fin]; linarith

/-- `p` is strictly inside the entry `(u, v)` whenever `u`, `v` are distinct and not on a zero-weight 2-cycle -/
def StrictAt (m : Mat) (p : Nat → Rat) (u v : Nat) : Prop :=
  u ≠ v → ¬ (eadd (m u v) (m v u) ≤ fin 0) → ∀ q, m u v = fin q → p v - p u < q

theorem exists_strict {R : Nat} {m : Mat} (hm : Closed R m) {u v : Nat} (hu : u < R) (hv : v < R) :
    ∃ p, Holds (SB R) p m ∧ StrictAt m p u v := by
  by_cases huv : u = v
  · obtain ⟨p, hp⟩ := hm.nonempty
    exact ⟨p, hp, fun h => absurd huv h⟩
  by_cases hnz : eadd (m u v) (m v u) ≤ fin 0
  · obtain ⟨p, hp⟩ := hm.nonempty
    exact ⟨p, hp, fun _ h => absurd hnz h⟩
  cases h1 : m u v with
  | pinf =>
    obtain ⟨p, hp⟩ := hm.nonempty
    refine ⟨p, hp, fun _ _ q hq => ?_⟩
    rw [h1] at hq
    exact ExtRat.noConfusion hq
  | fin q =>
    cases h2 : m v u with
    | pinf =>
      obtain ⟨p, hp, hd⟩ := hm.attains hu hv huv (q - 1) (by rw [h1, ExtRat.fin_le_fin]; linarith)
        (by rw [h2]; exact ExtRat.le_pinf _)
      refine ⟨p, hp, fun _ _ q' hq' => ?_⟩
      rw [h1] at hq'
      injection hq' with hq'
      rw [hd, ← hq']; linarith
    | fin r =>
      rw [h1, h2] at hnz
      simp only [eadd, ExtRat.addUp, ExtRat.fin_le_fin, not_le] at hnz
      obtain ⟨p, hp, hd⟩ := hm.attains hu hv huv ((q - r) / 2) (by rw [h1, ExtRat.fin_le_fin]; linarith)
        (by rw [h2, ExtRat.fin_le_fin]; linarith)
      refine ⟨p, hp, fun _ _ q' hq' => ?_⟩
      rw [h1] at hq'
      injection hq' with hq'
      rw [hd, ← hq']; linarith

theorem StrictAt.mid_left {R : Nat} {m : Mat} {p q : Nat → Rat} {u v : Nat} (hu : u < R) (hv : v < R)
    (hp : StrictAt m p u v) (hq : Holds (SB R) q m) : StrictAt m (fun i => (p i + q i) / 2) u v := by
  intro h1 h2 w hw
  have e1 := hp h1 h2 w hw
  have e2 := hq u v ⟨hu, hv⟩
  rw [hw, ExtRat.fin_le_fin] at e2
  show (p v + q v) / 2 - (p u + q u) / 2 < w
  linarith

theorem StrictAt.mid_right {R : Nat} {m : Mat} {p q : Nat → Rat} {u v : Nat} (hu : u < R) (hv : v < R)
    (hp : Holds (SB R) p m) (hq : StrictAt m q u v) : StrictAt m (fun i => (p i + q i) / 2) u v := by
  intro h1 h2 w hw
  have e1 := hq h1 h2 w hw
  have e2 := hp u v ⟨hu, hv⟩
  rw [hw, ExtRat.fin_le_fin] at e2
  show (p v + q v) / 2 - (p u + q u) / 2 < w
  linarith

/-- averaging one pair at a time -/
theorem exists_strict_list {R : Nat} {m : Mat} (hm : Closed R m) (L : List (Nat × Nat))
    (hL : ∀ uv, uv ∈ L → uv.1 < R ∧ uv.2 < R) :
    ∃ p, Holds (SB R) p m ∧ ∀ uv, uv ∈ L → StrictAt m p uv.1 uv.2 := by
  induction L with
  | nil =>
    obtain ⟨p, hp⟩ := hm.nonempty
    exact ⟨p, hp, fun _ h => by simp at h⟩
  | cons a L ih =>
    obtain ⟨p, hp, hs⟩ := ih (fun uv h => hL uv (List.mem_cons_of_mem _ h))
    obtain ⟨ha1, ha2⟩ := hL a List.mem_cons_self
    obtain ⟨q, hq, hqs⟩ := exists_strict hm ha1 ha2
    refine ⟨fun i => (p i + q i) / 2, holds_mid hp hq, fun uv huv => ?_⟩
    rcases List.mem_cons.1 huv with rfl | h
    · exact StrictAt.mid_right ha1 ha2 hp hqs
    · obtain ⟨h1, h2⟩ := hL uv (List.mem_cons_of_mem _ h)
      exact StrictAt.mid_left h1 h2 (hs uv h) hq

def allPairs (R : Nat) : List (Nat × Nat) :=
  (List.range R).flatMap fun u => (List.range R).map fun v => (u, v)

theorem mem_allPairs (R u v : Nat) : (u, v) ∈ allPairs R ↔ u < R ∧ v < R := by
  simp [allPairs]

theorem exists_strict_all {R : Nat} {m : Mat} (hm : Closed R m) :
    ∃ p, Holds (SB R) p m ∧ ∀ u v, u < R → v < R → StrictAt m p u v := by
  obtain ⟨p, hp, hs⟩ := exists_strict_list hm (allPairs R) (by
    rintro ⟨u, v⟩ h
    exact (mem_allPairs R u v).1 h)
  exact ⟨p, hp, fun u v hu hv => hs (u, v) ((mem_allPairs R u v).2 ⟨hu, hv⟩)⟩

theorem exists_pos_le_all {α : Type} (L : List α) (f : α → Rat) (hf : ∀ a, a ∈ L → 0 < f a) :
    ∃ δ : Rat, 0 < δ ∧ ∀ a, a ∈ L → δ ≤ f a := by
  induction L with
  | nil => exact ⟨1, by norm_num, fun _ h => by simp at h⟩
  | cons a L ih =>
    obtain ⟨δ, h1, h2⟩ := ih (fun b hb => hf b (List.mem_cons_of_mem _ hb))
    refine ⟨min δ (f a), lt_min h1 (hf a List.mem_cons_self), fun b hb => ?_⟩
    rcases List.mem_cons.1 hb with rfl | hb
    · exact min_le_right _ _
    · exact le_trans (min_le_left _ _) (h2 b hb)

/-- half of the slack of `p` at `(u, v)` (`1` when there is none to speak of) -/
def halfSlack (m : Mat) (p : Nat → Rat) (uv : Nat × Nat) : Rat :=
  match m uv.1 uv.2 with
  | fin q => if p uv.2 - p uv.1 < q then (q - (p uv.2 - p uv.1)) / 2 else 1
  | pinf => 1

theorem halfSlack_pos (m : Mat) (p : Nat → Rat) (uv : Nat × Nat) : 0 < halfSlack m p uv := by
  unfold halfSlack
  split
  · split
    · linarith
    · norm_num
  · norm_num

/-! ## the two halves of the geometric statement -/

variable {n : Nat}

section
variable (c : DBM n) (hc : c.IsClosed) (lead : Nat → Nat) (hl : IsLeaderMap n c.e lead)
include hc hl

omit hc in
/-- (i) a non-leader is an affine function of its leader on the shape -/
theorem affine_nonleader_eq (x : Nat → Rat) (hx : x ∈ DBM.γ c) (i : Nat) (hi : i ≤ n)
    (hne : lead i ≠ i) : fin (DBM.val x i - DBM.val x (lead i)) = c.e (lead i) i := by
  have hln := lead_le_n c lead hl hi
  obtain ⟨p, h1, h2⟩ := c.zeq_fin hln (hl.zeq i hi)
  rw [c.z_ne hne] at h1
  rw [c.z_ne (Ne.symm hne)] at h2
  have e1 := hx (lead i) i hln hi
  have e2 := hx i (lead i) hi hln
  rw [h1, ExtRat.fin_le_fin] at e1
  rw [h2, ExtRat.fin_le_fin] at e2
  rw [h1]
  congr 1
  linarith

/-- (ii) the classes not containing the zero variable move freely, simultaneously and independently, around a
relative-interior point -/
theorem affine_free_directions :
    ∃ x0, x0 ∈ DBM.γ c ∧ ∃ δ : Rat, 0 < δ ∧ ∀ t : Nat → Rat, (∀ l, |t l| ≤ δ) →
      (fun k => x0 k + if lead (k+1) = lead 0 then 0 else t (lead (k+1))) ∈ DBM.γ c := by
  obtain ⟨p, hp, hs⟩ := exists_strict_all hc.closed
  obtain ⟨x0, hx0, hv⟩ := c.point_of_z hp
  obtain ⟨δ, hδ, hle⟩ := exists_pos_le_all (allPairs (n+1)) (halfSlack c.z p)
    (fun a _ => halfSlack_pos _ _ _)
  refine ⟨x0, hx0, δ, hδ, fun t ht => ?_⟩
  -- the translation of index `a`
  obtain ⟨s, hs1, hs2, hs3⟩ : ∃ s : Nat → Rat, (∀ a, |s a| ≤ δ) ∧
      (∀ a b, lead a = lead b → s a = s b) ∧
      ∀ a, DBM.val (fun k => x0 k + if lead (k+1) = lead 0 then 0 else t (lead (k+1))) a
        = DBM.val x0 a + s a := by
    refine ⟨fun a => if lead a = lead 0 then 0 else t (lead a), fun a => ?_, fun a b hab => ?_, fun a => ?_⟩
    · show |if lead a = lead 0 then 0 else t (lead a)| ≤ δ
      split
      · rw [abs_zero]; exact le_of_lt hδ
      · exact ht _
    · show (if lead a = lead 0 then 0 else t (lead a)) = (if lead b = lead 0 then 0 else t (lead b))
      rw [hab]
    · cases a with
      | zero => simp [DBM.val]
      | succ a => rfl
  intro a b ha hb
  rw [hs3, hs3]
  by_cases hab : a = b
  · rw [hab, c.diag b hb]; exact ExtRat.le_pinf _
  by_cases hz : ZEq c.e a b
  · have := hs2 a b (lead_eq_of_zeq c hc lead hl ha hb hz)
    rw [this]
    have e : DBM.val x0 b + s b - (DBM.val x0 a + s b) = DBM.val x0 b - DBM.val x0 a := by ring
    rw [e]
    exact hx0 a b ha hb
  · cases hq : c.e a b with
    | pinf => exact ExtRat.le_pinf _
    | fin q =>
      have hq' : c.z a b = fin q := by rw [c.z_ne hab]; exact hq
      have hst := hs a b (by omega) (by omega) hab (fun h => hz (c.zeq_of_le hc ha hb h)) q hq'
      have h1 := hle (a, b) ((mem_allPairs (n+1) a b).2 ⟨by omega, by omega⟩)
      have h2 : halfSlack c.z p (a, b) = (q - (p b - p a)) / 2 := by
        unfold halfSlack
        simp only [hq', if_pos hst]
      rw [h2] at h1
      have ba := abs_le.1 (hs1 a)
      have bb := abs_le.1 (hs1 b)
      rw [hv, hv, ExtRat.fin_le_fin]
      linarith

end

section
variable (c : DBM n) (hc : c.IsClosed) (lead pred : Nat → Nat) (hl : IsLeaderMap n c.e lead)
  (hp : IsPredMap n c.e pred) (red : BMat) (hr : IsReduction n c.e lead pred red)

set_option linter.unusedSectionVars false in
include hc hl hp hr in
/-- M5, simultaneous form: (i) the non-leaders are affine functions of their leaders; (ii) around some point of
the shape all classes not containing the zero variable — there are `leaderCount n lead` of them, one for each
leader `l` with `1 ≤ l ≤ n` — can be translated at once by arbitrary amounts `|t l| ≤ δ`. -/
theorem bds_affine_dimension_geom_simul :
    (∀ x ∈ DBM.γ c, ∀ i, i ≤ n → lead i ≠ i → fin (DBM.val x i - DBM.val x (lead i)) = c.e (lead i) i) ∧
    (∃ x0 ∈ DBM.γ c, ∃ δ : ℚ, 0 < δ ∧ ∀ t : Nat → ℚ, (∀ l, |t l| ≤ δ) →
      (fun k => x0 k + if lead (k+1) = lead 0 then 0 else t (lead (k+1))) ∈ DBM.γ c) := by
  refine ⟨fun x hx i hi hne => affine_nonleader_eq c lead hl x hx i hi hne, ?_⟩
  obtain ⟨x0, h1, δ, h2, h3⟩ := affine_free_directions c hc lead hl
  exact ⟨x0, h1, δ, h2, h3⟩

set_option linter.unusedSectionVars false in
include hc hl hp hr in
/-- M5, one class at a time (a consequence of the simultaneous form) -/
theorem bds_affine_dimension_geom :
    (∀ x ∈ DBM.γ c, ∀ i, i ≤ n → lead i ≠ i → fin (DBM.val x i - DBM.val x (lead i)) = c.e (lead i) i) ∧
    (∃ x0 ∈ DBM.γ c, ∃ δ : ℚ, 0 < δ ∧ ∀ l, 1 ≤ l → l ≤ n → lead l = l → lead 0 ≠ l → ∀ t : ℚ, |t| ≤ δ →
      (fun k => x0 k + if lead (k+1) = l then t else 0) ∈ DBM.γ c) := by
  obtain ⟨h0, x0, h1, δ, h2, h3⟩ := bds_affine_dimension_geom_simul c hc lead pred hl hp red hr
  refine ⟨h0, x0, h1, δ, h2, fun l _ _ _ hl0 t ht => ?_⟩
  have := h3 (fun l' => if l' = l then t else 0) (fun l' => by
    show |if l' = l then t else 0| ≤ δ
    split
    · exact ht
    · rw [abs_zero]; exact le_of_lt h2)
  have e : (fun k => x0 k + if lead (k+1) = l then t else 0)
      = (fun k => x0 k + if lead (k+1) = lead 0 then 0 else (fun l' => if l' = l then t else 0) (lead (k+1))) := by
    funext k
    by_cases h : lead (k+1) = l
    · rw [if_pos h, if_neg (by rw [h]; exact Ne.symm hl0)]
      simp [h]
    · rw [if_neg h]
      by_cases h' : lead (k+1) = lead 0
      · rw [if_pos h']
      · rw [if_neg h']
        simp [h]
  rw [e]
  exact this

end
end PPLV.WR

namespace PPLV.WR

/-- at most `n` leaders among `1..n` -/
theorem leaderCount_le (n : Nat) (lead : Nat → Nat) : leaderCount n lead ≤ n := by
  unfold leaderCount
  rw [List.range_succ_eq_map, List.filter_cons]
  simp only [bne_self_eq_false, Bool.false_and, Bool.false_eq_true, if_false]
  refine le_trans (List.length_filter_le _ _) ?_
  simp

end PPLV.WR
