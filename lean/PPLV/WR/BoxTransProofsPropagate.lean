import PPLV.WR.BoxTransProofsBlock
/-!
# C03 stage 4 — soundness of `propagate_constraint_no_check`, `refine_no_check`,
`propagate_constraints_no_check`

Every function keeps the members of the box that satisfy the constraint(s), provided the
coefficients of the variables are values of the temporary boundary type (`CoeffsExact`; always
true for `mpq_class` / `mpz_class` temporaries: `refineSound_of_intExact`).  The hypothesis is
needed: `BoxTransProofsFails.lean`.  (Before /repo dee742e `propagate_constraint_no_check` marked the
box empty on the tautology `0 == 0`: `propagateConstraintNoCheckBeforeFix`, same file.)
-/
set_option linter.unusedVariables false
set_option linter.unusedSimpArgs false
set_option linter.unnecessarySeqFocus false
namespace PPLV.WR.BoxT
open PPLV.Interval
open PPLV.Interval.ExtRat (ninf fin pinf)

/-! ## applying a block -/

theorem applyBlock_dim (cfg : Cfg) (B : Block) (b : Box) (c : Con) (k : Nat) (ak : Int) (strict : Bool) :
    (applyBlock cfg B b c k ak strict).dim = b.dim := by
  unfold applyBlock
  split <;> simp [Box.dim, Box.resetEmptyUpToDate, Box.setIv]

theorem coeff_mem_coeffs {e : LinExpr} {i : Nat} (h : i < e.coeffs.length) : e.coeff i ∈ e.coeffs := by
  have : e.coeff i = e.coeffs[i] := by simp [LinExpr.coeff, List.getD, h]
  rw [this]; exact List.getElem_mem _

theorem termsOK_of_mem {cfg : Cfg} {b : Box} {c : Con} {x : Nat → Rat} (hwf : c.e.WF b.dim)
    (hex : CoeffsExact cfg.TR c.e) (hx : b.mem cfg.p x) : TermsOK cfg b.seq x c.e.terms := by
  intro t ht
  obtain ⟨i, a⟩ := t
  obtain ⟨ha, hc, hlt⟩ := LinExpr.mem_terms ht
  refine ⟨ha, ?_, hx.2 i (Nat.lt_of_lt_of_le hlt hwf)⟩
  show ExactAt cfg.TR a
  rw [← hc]; exact hex _ (coeff_mem_coeffs hlt)

/-- the value of the expression with the term of `x_k` split off -/
theorem eval_split {c : Con} {k : Nat} {ak : Int} (x : Nat → Rat) (hm : (k, ak) ∈ c.e.terms) :
    c.e.eval x = ((ak : Rat) * x k + restSum k c.e.terms x) + (c.e.inhom : Rat) := by
  rw [LinExpr.eval_eq_terms, termSum_split x (LinExpr.terms_pairwise c.e) hm]

/-- every constraint type gives `−n ≤ Y` (strictly for `>`) -/
theorem hY_down {c : Con} {x : Nat → Rat} {Y : Rat} (hc : c.holds x) (he : c.e.eval x = Y + (c.e.inhom : Rat)) :
    dcmp .down (c.ty == .gt) (-(c.e.inhom : Rat)) Y := by
  unfold Con.holds at hc
  rw [he] at hc
  show cmp _ _ _
  cases hty : c.ty <;> rw [hty] at hc <;> simp only at hc
  · show cmp false _ _
    simp; linarith
  · show cmp false _ _
    simp; linarith
  · show cmp true _ _
    simp; linarith

/-- an equality gives `Y ≤ −n` too -/
theorem hY_up {c : Con} {x : Nat → Rat} {Y : Rat} (hty : c.ty = .eq) (hc : c.holds x)
    (he : c.e.eval x = Y + (c.e.inhom : Rat)) : dcmp .up false (-(c.e.inhom : Rat)) Y := by
  unfold Con.holds at hc
  rw [he, hty] at hc
  simp only at hc
  show cmp false _ _
  simp; linarith

theorem applyBlock_sound {cfg : Cfg} (hS : cfg.Sound) {B : Block} {D : Dir} {pos : Bool} (hOK : B.OK D pos)
    {b : Box} {c : Con} {k : Nat} {ak : Int} {strict : Bool} {x : Nat → Rat}
    (hwf : c.e.WF b.dim) (hex : CoeffsExact cfg.TR c.e) (hx : b.mem cfg.p x) (hm : (k, ak) ∈ c.e.terms)
    (hak : if pos then 0 < ak else ak < 0)
    (hY : dcmp D strict (-(c.e.inhom : Rat)) ((ak : Rat) * x k + restSum k c.e.terms x)) :
    (applyBlock cfg B b c k ak strict).mem cfg.p x := by
  unfold applyBlock
  split
  · exact hx
  · rename_i I hI
    obtain ⟨_, hcoef, hlt⟩ := LinExpr.mem_terms hm
    have hk : k < b.dim := Nat.lt_of_lt_of_le hlt hwf
    apply Box.mem_resetEmptyUpToDate
    apply Box.mem_setIv_self hx
    exact runBlock_sound hS hOK hak (by rw [← hcoef]; exact hex _ (coeff_mem_coeffs hlt))
      (termsOK_of_mem hwf hex hx) (hx.2 k hk) hY hI

/-! ## the body of the `k` loop -/

theorem propagateStep_dim (cfg : Cfg) (c : Con) (b : Box) (t : Nat × Int) :
    (propagateStep cfg c b t).dim = b.dim := by
  obtain ⟨k, ak⟩ := t
  unfold propagateStep
  simp only
  split_ifs <;> simp only [applyBlock_dim]

theorem propagateStep_sound {cfg : Cfg} (hS : cfg.Sound) {b : Box} {c : Con} {t : Nat × Int} {x : Nat → Rat}
    (hwf : c.e.WF b.dim) (hex : CoeffsExact cfg.TR c.e) (hx : b.mem cfg.p x) (hc : c.holds x)
    (hm : t ∈ c.e.terms) : (propagateStep cfg c b t).mem cfg.p x := by
  obtain ⟨k, ak⟩ := t
  have he := eval_split x hm
  have hd := hY_down hc he
  unfold propagateStep
  simp only
  by_cases hpos : ak > 0
  · rw [if_pos hpos]
    have h1 := applyBlock_sound hS blockPosLower_ok hwf hex hx hm (by simpa using hpos) hd
    by_cases hne : (c.ty != CType.eq) = true
    · rw [if_pos hne]; exact h1
    · rw [if_neg hne]
      have hty : c.ty = .eq := by simpa using hne
      exact applyBlock_sound hS blockPosUpper_ok (by rw [applyBlock_dim]; exact hwf) hex h1 hm
        (by simpa using hpos) (hY_up hty hc he)
  · rw [if_neg hpos]
    have hneg : ak < 0 := by
      have := (LinExpr.mem_terms hm).1
      omega
    have h1 := applyBlock_sound hS blockNegUpper_ok hwf hex hx hm (by simpa using hneg) hd
    by_cases hne : (c.ty != CType.eq) = true
    · rw [if_pos hne]; exact h1
    · rw [if_neg hne]
      have hty : c.ty = .eq := by simpa using hne
      exact applyBlock_sound hS blockNegLower_ok (by rw [applyBlock_dim]; exact hwf) hex h1 hm
        (by simpa using hneg) (hY_up hty hc he)

theorem foldl_propagateStep_dim (cfg : Cfg) (c : Con) (ts : List (Nat × Int)) (b : Box) :
    (ts.foldl (propagateStep cfg c) b).dim = b.dim := by
  induction ts generalizing b with
  | nil => rfl
  | cons t ts ih => rw [List.foldl_cons, ih, propagateStep_dim]

theorem foldl_propagateStep_sound {cfg : Cfg} (hS : cfg.Sound) {c : Con} {x : Nat → Rat}
    (hex : CoeffsExact cfg.TR c.e) (hc : c.holds x) (ts : List (Nat × Int)) (hsub : ∀ t ∈ ts, t ∈ c.e.terms)
    (b : Box) (hwf : c.e.WF b.dim) (hx : b.mem cfg.p x) : (ts.foldl (propagateStep cfg c) b).mem cfg.p x := by
  induction ts generalizing b with
  | nil => exact hx
  | cons t ts ih =>
    rw [List.foldl_cons]
    apply ih (fun t' ht' => hsub t' (List.mem_cons_of_mem _ ht'))
    · rw [propagateStep_dim]; exact hwf
    · exact propagateStep_sound hS hwf hex hx hc (hsub t (by simp))

/-! ## `propagate_constraint_no_check` -/

theorem propagateConstraintNoCheck_dim (cfg : Cfg) (b : Box) (c : Con) :
    (propagateConstraintNoCheck cfg b c).dim = b.dim := by
  unfold propagateConstraintNoCheck
  split
  · split_ifs <;> rfl
  · exact foldl_propagateStep_dim ..

/-- `propagate_constraint_no_check` keeps the members that satisfy the constraint (the trivial case of the
repaired tree: no exclusion of the tautology `0 == 0` any more). -/
theorem propagateConstraintNoCheck_sound {cfg : Cfg} (hS : cfg.Sound) {b : Box} {c : Con} {x : Nat → Rat}
    (hwf : c.e.WF b.dim) (hex : CoeffsExact cfg.TR c.e)
    (hx : b.mem cfg.p x) (hc : c.holds x) : (propagateConstraintNoCheck cfg b c).mem cfg.p x := by
  unfold propagateConstraintNoCheck
  split
  · rename_i ht
    have he : c.e.eval x = (c.e.inhom : Rat) := by rw [LinExpr.eval_eq_terms, ht]; simp
    have hcond : ¬ ((decide (c.e.inhom < 0) || (c.e.inhom == 0 && c.ty == CType.gt)
        || (decide (c.e.inhom > 0) && c.ty == CType.eq)) = true) := by
      unfold Con.holds at hc
      rw [he] at hc
      cases hty : c.ty <;> rw [hty] at hc <;> simp only at hc
      · have : c.e.inhom = 0 := by exact_mod_cast hc
        simp [this]
      · have : 0 ≤ c.e.inhom := by exact_mod_cast hc
        simp; omega
      · have : 0 < c.e.inhom := by exact_mod_cast hc
        simp; omega
    rw [if_neg hcond]; exact hx
  · exact foldl_propagateStep_sound hS hex hc _ (fun t h => h) b hwf hx

/-! ## `refine_no_check(const Constraint&)`, `refine_with_constraint` -/

theorem refineNoCheck_dim (cfg : Cfg) (b : Box) (c : Con) : (refineNoCheck cfg b c).dim = b.dim := by
  unfold refineNoCheck
  split
  · exact propagateConstraintNoCheck_dim ..
  · split_ifs <;> rfl
  · exact addIntervalConstraintNoCheck_dim ..

theorem refineNoCheck_sound {cfg : Cfg} (hS : cfg.Sound) {b : Box} {c : Con} {x : Nat → Rat}
    (hwf : c.e.WF b.dim) (hex : extractIntervalConstraint c = none → CoeffsExact cfg.TR c.e)
    (hx : b.mem cfg.p x) (hc : c.holds x) : (refineNoCheck cfg b c).mem cfg.p x := by
  unfold refineNoCheck
  split
  · rename_i hnone
    exact propagateConstraintNoCheck_sound hS hwf (hex hnone) hx hc
  · rename_i h
    rw [trivialFalse_of_holds (extract_some_none h) hc]; exact hx
  · rename_i v h
    obtain ⟨a, ht⟩ := extract_some_some h
    exact intervalArm_sound hS hwf ht hx hc

theorem refineWithConstraint_dim (cfg : Cfg) (b : Box) (c : Con) : (refineWithConstraint cfg b c).dim = b.dim := by
  unfold refineWithConstraint
  split_ifs
  · rfl
  · exact refineNoCheck_dim ..

theorem refineWithConstraint_sound {cfg : Cfg} (hS : cfg.Sound) {b : Box} {c : Con} {x : Nat → Rat}
    (hwf : c.e.WF b.dim) (hex : extractIntervalConstraint c = none → CoeffsExact cfg.TR c.e)
    (hx : b.mem cfg.p x) (hc : c.holds x) : (refineWithConstraint cfg b c).mem cfg.p x := by
  unfold refineWithConstraint
  split_ifs
  · exact hx
  · exact refineNoCheck_sound hS hwf hex hx hc

/-- temporaries that hold every integer (`mpq_class`, `mpz_class`): `refine_with_constraint` is sound -/
theorem refineSound_of_intExact {cfg : Cfg} (hS : cfg.Sound) (h : IntExact cfg.TR) : RefineSound cfg :=
  fun b c x hwf hx hc => refineWithConstraint_sound hS hwf (fun _ => h.coeffsExact _) hx hc

theorem refineSound_mpq : RefineSound Cfg.mpq := refineSound_of_intExact Cfg.mpq_sound intExact_id
theorem refineSound_mpz : RefineSound Cfg.mpz := refineSound_of_intExact Cfg.mpz_sound intExact_int

/-! ## `refine_no_check(const Constraint_System&)` -/

theorem foldl_refine_dim (cfg : Cfg) (cs : List Con) (b : Box) :
    (cs.foldl (fun b c => if b.markedEmpty then b else refineNoCheck cfg b c) b).dim = b.dim := by
  induction cs generalizing b with
  | nil => rfl
  | cons c cs ih =>
    rw [List.foldl_cons, ih]
    split_ifs
    · rfl
    · exact refineNoCheck_dim ..

theorem refineWithConstraints_dim (cfg : Cfg) (b : Box) (cs : List Con) :
    (refineWithConstraints cfg b cs).dim = b.dim := by
  unfold refineWithConstraints
  split_ifs
  · rfl
  · exact foldl_refine_dim ..

theorem foldl_refine_sound {cfg : Cfg} (hS : cfg.Sound) {x : Nat → Rat} (cs : List Con) (b : Box)
    (hwf : ∀ c ∈ cs, c.e.WF b.dim)
    (hex : ∀ c ∈ cs, extractIntervalConstraint c = none → CoeffsExact cfg.TR c.e)
    (hx : b.mem cfg.p x) (hc : ∀ c ∈ cs, c.holds x) :
    (cs.foldl (fun b c => if b.markedEmpty then b else refineNoCheck cfg b c) b).mem cfg.p x := by
  induction cs generalizing b with
  | nil => exact hx
  | cons c cs ih =>
    rw [List.foldl_cons]
    have h1 : (if b.markedEmpty then b else refineNoCheck cfg b c).mem cfg.p x := by
      split_ifs
      · exact hx
      · exact refineNoCheck_sound hS (hwf c (by simp)) (hex c (by simp)) hx (hc c (by simp))
    have hd : (if b.markedEmpty then b else refineNoCheck cfg b c).dim = b.dim := by
      split_ifs
      · rfl
      · exact refineNoCheck_dim ..
    apply ih _ _ (fun c' h' => hex c' (List.mem_cons_of_mem _ h')) h1 (fun c' h' => hc c' (List.mem_cons_of_mem _ h'))
    intro c' h'
    rw [hd]; exact hwf c' (List.mem_cons_of_mem _ h')

theorem refineWithConstraints_sound {cfg : Cfg} (hS : cfg.Sound) {b : Box} {cs : List Con} {x : Nat → Rat}
    (hwf : ∀ c ∈ cs, c.e.WF b.dim)
    (hex : ∀ c ∈ cs, extractIntervalConstraint c = none → CoeffsExact cfg.TR c.e)
    (hx : b.mem cfg.p x) (hc : ∀ c ∈ cs, c.holds x) : (refineWithConstraints cfg b cs).mem cfg.p x := by
  unfold refineWithConstraints
  split_ifs
  · exact hx
  · exact foldl_refine_sound hS cs b hwf hex hx hc

/-! ## `propagate_constraints_no_check` -/

theorem foldl_propagate_dim (cfg : Cfg) (cs : List Con) (b : Box) :
    (cs.foldl (propagateConstraintNoCheck cfg) b).dim = b.dim := by
  induction cs generalizing b with
  | nil => rfl
  | cons c cs ih => rw [List.foldl_cons, ih, propagateConstraintNoCheck_dim]

theorem foldl_propagate_sound {cfg : Cfg} (hS : cfg.Sound) {x : Nat → Rat} (cs : List Con) (b : Box)
    (hwf : ∀ c ∈ cs, c.e.WF b.dim) (hex : ∀ c ∈ cs, CoeffsExact cfg.TR c.e)
    (hx : b.mem cfg.p x) (hc : ∀ c ∈ cs, c.holds x) :
    (cs.foldl (propagateConstraintNoCheck cfg) b).mem cfg.p x := by
  induction cs generalizing b with
  | nil => exact hx
  | cons c cs ih =>
    rw [List.foldl_cons]
    apply ih _ _ (fun c' h' => hex c' (List.mem_cons_of_mem _ h'))
      (propagateConstraintNoCheck_sound hS (hwf c (by simp)) (hex c (by simp)) hx (hc c (by simp)))
      (fun c' h' => hc c' (List.mem_cons_of_mem _ h'))
    intro c' h'
    rw [propagateConstraintNoCheck_dim]; exact hwf c' (List.mem_cons_of_mem _ h')

theorem propagateConstraintsNoCheck_dim (cfg : Cfg) (cs : List Con) (maxIter fuel num : Nat) (b : Box) :
    (propagateConstraintsNoCheck cfg cs maxIter fuel num b).dim = b.dim := by
  induction fuel generalizing num b with
  | zero => rfl
  | succ fuel ih =>
    unfold propagateConstraintsNoCheck
    simp only
    split_ifs
    · exact foldl_propagate_dim ..
    · exact foldl_propagate_dim ..
    · rw [ih, foldl_propagate_dim]

/-- every `fuel`, every `max_iterations`, every value of the iteration counter -/
theorem propagateConstraintsNoCheck_sound {cfg : Cfg} (hS : cfg.Sound) {x : Nat → Rat} (cs : List Con)
    (maxIter fuel num : Nat) (b : Box)
    (hwf : ∀ c ∈ cs, c.e.WF b.dim) (hex : ∀ c ∈ cs, CoeffsExact cfg.TR c.e)
    (hx : b.mem cfg.p x) (hc : ∀ c ∈ cs, c.holds x) :
    (propagateConstraintsNoCheck cfg cs maxIter fuel num b).mem cfg.p x := by
  induction fuel generalizing num b with
  | zero => exact hx
  | succ fuel ih =>
    have h1 := foldl_propagate_sound hS cs b hwf hex hx hc
    unfold propagateConstraintsNoCheck
    simp only
    split_ifs
    · exact h1
    · exact h1
    · apply ih _ _ _ h1
      intro c' h'
      rw [foldl_propagate_dim]; exact hwf c' h'

theorem propagateConstraints_dim (cfg : Cfg) (fuel : Nat) (b : Box) (cs : List Con) (maxIter : Nat) :
    (propagateConstraints cfg fuel b cs maxIter).dim = b.dim := by
  unfold propagateConstraints
  split_ifs
  · rfl
  · exact propagateConstraintsNoCheck_dim ..

/-- `propagate_constraints(cs, max_iterations)`: every `fuel`, every `maxIter` -/
theorem propagateConstraints_sound {cfg : Cfg} (hS : cfg.Sound) (fuel maxIter : Nat) {b : Box} {cs : List Con}
    {x : Nat → Rat} (hwf : ∀ c ∈ cs, c.e.WF b.dim) (hex : ∀ c ∈ cs, CoeffsExact cfg.TR c.e)
    (hx : b.mem cfg.p x) (hc : ∀ c ∈ cs, c.holds x) : (propagateConstraints cfg fuel b cs maxIter).mem cfg.p x := by
  unfold propagateConstraints
  split_ifs
  · exact hx
  · exact propagateConstraintsNoCheck_sound hS cs maxIter fuel 0 b hwf hex hx hc

theorem propagateConstraint_dim (cfg : Cfg) (b : Box) (c : Con) : (propagateConstraint cfg b c).dim = b.dim := by
  unfold propagateConstraint
  split_ifs
  · rfl
  · exact propagateConstraintNoCheck_dim ..

theorem propagateConstraint_sound {cfg : Cfg} (hS : cfg.Sound) {b : Box} {c : Con} {x : Nat → Rat}
    (hwf : c.e.WF b.dim) (hex : CoeffsExact cfg.TR c.e)
    (hx : b.mem cfg.p x) (hc : c.holds x) : (propagateConstraint cfg b c).mem cfg.p x := by
  unfold propagateConstraint
  split_ifs
  · exact hx
  · exact propagateConstraintNoCheck_sound hS hwf hex hx hc

/-! ## the hypotheses are satisfiable -/

private theorem univ_mem_aux (p : Policy) (n : Nat) (x : Nat → Rat) : (Box.univ p n).mem p x := by
  refine ⟨rfl, fun k hk => ?_⟩
  have hk' : k < n := by simpa [Box.univ] using hk
  have : (Box.univ p n).get k = Iv.universe p := by
    simp [Box.get, Box.univ, List.getD, List.getElem?_replicate, hk']
  rw [this]; exact mem_universe p _

private def exCon : Con := ⟨⟨[1, -2], -1⟩, .ge⟩
private def exCon2 : Con := ⟨⟨[1, 1], -10⟩, .eq⟩
private def exPt : Nat → Rat := fun k => if k = 0 then 7 else 3

private theorem exCon_holds : exCon.holds exPt := by
  show (0 : Rat) ≤ LinExpr.eval ⟨[1, -2], -1⟩ exPt
  norm_num [LinExpr.eval, LinExpr.dot, exPt]
private theorem exCon2_holds : exCon2.holds exPt := by
  show LinExpr.eval ⟨[1, 1], -10⟩ exPt = 0
  norm_num [LinExpr.eval, LinExpr.dot, exPt]

example : (propagateConstraintNoCheck Cfg.mpq (Box.univ Policy.rational 2) exCon).mem Policy.rational exPt :=
  propagateConstraintNoCheck_sound Cfg.mpq_sound (by simp [LinExpr.WF, exCon, Box.univ, Box.dim])
    (intExact_id.coeffsExact _) (univ_mem_aux _ _ _) exCon_holds

example : (refineWithConstraint Cfg.mpz (Box.univ Policy.integer 2) exCon2).mem Policy.integer exPt :=
  refineWithConstraint_sound Cfg.mpz_sound (by simp [LinExpr.WF, exCon2, Box.univ, Box.dim])
    (fun _ => intExact_int.coeffsExact _) (univ_mem_aux _ _ _) exCon2_holds

example : (refineWithConstraints Cfg.mpq (Box.univ Policy.rational 2) [exCon, exCon2]).mem Policy.rational exPt :=
  refineWithConstraints_sound Cfg.mpq_sound
    (by intro c hc; simp at hc; rcases hc with rfl | rfl <;> simp [LinExpr.WF, exCon, exCon2, Box.univ, Box.dim])
    (fun c _ _ => intExact_id.coeffsExact _) (univ_mem_aux _ _ _)
    (by intro c hc; simp at hc; rcases hc with rfl | rfl; exact exCon_holds; exact exCon2_holds)

example : (propagateConstraints Cfg.mpq 5 (Box.univ Policy.rational 2) [exCon, exCon2] 0).mem Policy.rational exPt :=
  propagateConstraints_sound Cfg.mpq_sound 5 0
    (by intro c hc; simp at hc; rcases hc with rfl | rfl <;> simp [LinExpr.WF, exCon, exCon2, Box.univ, Box.dim])
    (fun c _ => intExact_id.coeffsExact _)
    (univ_mem_aux _ _ _)
    (by intro c hc; simp at hc; rcases hc with rfl | rfl; exact exCon_holds; exact exCon2_holds)

/-- the hypothesis `CoeffsExact` is satisfiable for `double` temporaries too: small coefficients -/
example : CoeffsExact Cfg.dbl.TR exCon.e := by
  intro a ha
  simp [exCon] at ha
  rcases ha with rfl | rfl <;> constructor <;> decide +kernel

end PPLV.WR.BoxT
