import PPLV.WR.Model
import PPLV.Lin.Sup

/-!
# K3 theorems: `bestU` is a shape, contains every piece, and is the least such shape

`semU Ps` is the union of the pieces.  `IsSup S f s` is the meaning of a `Sup` verdict (the shape of
`supB_spec`); `maxSup` of two verdicts is a verdict for the union.
-/
namespace PPLV.WR
open PPLV.Lin

/-- the union of the point sets of the pieces -/
def semU (Ps : List (List Con)) : Set Val := {x | ∃ P ∈ Ps, Sat P x}

/-- what a `Sup` verdict says about `sup {f x | x ∈ S}` -/
def IsSup (S : Set Val) (f : Val → Rat) : Sup → Prop
  | .empty => S = ∅
  | .unbounded => (∃ x, x ∈ S) ∧ ∀ M : Rat, ∃ x ∈ S, M < f x
  | .val p q att => 0 < q ∧ (∀ x ∈ S, f x ≤ (p:Rat)/q) ∧
      (att = true → ∃ x ∈ S, f x = (p:Rat)/q) ∧
      (att = false → (∀ x ∈ S, f x < (p:Rat)/q) ∧ ∀ ε : Rat, 0 < ε → ∃ x ∈ S, (p:Rat)/q - ε < f x)

theorem supB_isSup (n : Nat) (e : List Int) (cs : List Con) (hwf : WF n cs) (he : e.length ≤ n) :
    IsSup (sem cs) (fun x => dot e x) (supB n e 0 cs) := by
  have h := supB_spec n e 0 cs hwf he
  cases hs : supB n e 0 cs with
  | empty => rw [hs] at h; exact h
  | unbounded =>
    rw [hs] at h
    simp only [Int.cast_zero, add_zero] at h
    exact h
  | val p q att =>
    rw [hs] at h
    simp only [Int.cast_zero, add_zero] at h
    exact h

/-! ### consequences of a verdict used below -/

/-- a verdict on a non-empty set bounded by `B` is a value `≤ B` -/
theorem IsSup.le_of_bound {S : Set Val} {f : Val → Rat} {s : Sup} (h : IsSup S f s)
    (hne : ∃ x, x ∈ S) (B : Rat) (hB : ∀ x ∈ S, f x ≤ B) :
    ∃ p q att, s = .val p q att ∧ 0 < q ∧ (p:Rat)/q ≤ B := by
  cases s with
  | empty =>
    obtain ⟨x, hx⟩ := hne
    have : S = ∅ := h
    rw [this] at hx; exact absurd hx (Set.notMem_empty x)
  | unbounded =>
    obtain ⟨-, hM⟩ := h
    obtain ⟨x, hx, hlt⟩ := hM B
    exact absurd (hB x hx) (not_le.mpr hlt)
  | val p q att =>
    obtain ⟨hq, -, hatt, hnatt⟩ := h
    refine ⟨p, q, att, rfl, hq, ?_⟩
    cases att with
    | true =>
      obtain ⟨x, hx, hxe⟩ := hatt rfl
      rw [← hxe]; exact hB x hx
    | false =>
      obtain ⟨-, happ⟩ := hnatt rfl
      by_contra hcon
      push Not at hcon
      obtain ⟨x, hx, hlt⟩ := happ ((p:Rat)/q - B) (by linarith)
      have := hB x hx
      linarith

/-- with a strict bound, an attained value is strictly below it -/
theorem IsSup.lt_of_strict_bound {S : Set Val} {f : Val → Rat} {p q : Int} (h : IsSup S f (.val p q true))
    (B : Rat) (hB : ∀ x ∈ S, f x < B) : (p:Rat)/q < B := by
  obtain ⟨-, -, hatt, -⟩ := h
  obtain ⟨x, hx, hxe⟩ := hatt rfl
  rw [← hxe]; exact hB x hx

theorem IsSup.val_le {S : Set Val} {f : Val → Rat} {p q : Int} {att : Bool} (h : IsSup S f (.val p q att))
    (x : Val) (hx : x ∈ S) : f x ≤ (p:Rat)/q := h.2.1 x hx

theorem IsSup.val_lt {S : Set Val} {f : Val → Rat} {p q : Int} (h : IsSup S f (.val p q false))
    (x : Val) (hx : x ∈ S) : f x < (p:Rat)/q := (h.2.2.2 rfl).1 x hx

/-! ### the verdict for a union -/

theorem div_lt_div_of_cross {p q p' q' : Int} (hq : 0 < q) (hq' : 0 < q') :
    (p:Rat)/q < (p':Rat)/q' ↔ p * q' < p' * q := by
  have h1 : (0:Rat) < q := by exact_mod_cast hq
  have h2 : (0:Rat) < q' := by exact_mod_cast hq'
  rw [div_lt_div_iff₀ h1 h2]
  exact_mod_cast Iff.rfl

theorem div_eq_div_of_cross {p q p' q' : Int} (hq : 0 < q) (hq' : 0 < q') :
    (p:Rat)/q = (p':Rat)/q' ↔ p * q' = p' * q := by
  have h1 : (q:Rat) ≠ 0 := by exact_mod_cast (ne_of_gt hq)
  have h2 : (q':Rat) ≠ 0 := by exact_mod_cast (ne_of_gt hq')
  rw [div_eq_div_iff h1 h2]
  exact_mod_cast Iff.rfl

theorem IsSup_union (S T : Set Val) (f : Val → Rat) (s t : Sup) (hs : IsSup S f s) (ht : IsSup T f t) :
    IsSup (S ∪ T) f (maxSup s t) := by
  cases s with
  | empty =>
    have hS : S = ∅ := hs
    have : maxSup .empty t = t := by cases t <;> rfl
    rw [this, hS, Set.empty_union]; exact ht
  | unbounded =>
    cases t with
    | empty =>
      have hT : T = ∅ := ht
      show IsSup (S ∪ T) f .unbounded
      rw [hT, Set.union_empty]; exact hs
    | unbounded =>
      show IsSup (S ∪ T) f .unbounded
      obtain ⟨⟨x, hx⟩, hM⟩ := hs
      exact ⟨⟨x, Or.inl hx⟩, fun M => by obtain ⟨y, hy, hlt⟩ := hM M; exact ⟨y, Or.inl hy, hlt⟩⟩
    | val p q a =>
      show IsSup (S ∪ T) f .unbounded
      obtain ⟨⟨x, hx⟩, hM⟩ := hs
      exact ⟨⟨x, Or.inl hx⟩, fun M => by obtain ⟨y, hy, hlt⟩ := hM M; exact ⟨y, Or.inl hy, hlt⟩⟩
  | val p q a =>
    cases t with
    | empty =>
      have hT : T = ∅ := ht
      show IsSup (S ∪ T) f (.val p q a)
      rw [hT, Set.union_empty]; exact hs
    | unbounded =>
      show IsSup (S ∪ T) f .unbounded
      obtain ⟨⟨x, hx⟩, hM⟩ := ht
      exact ⟨⟨x, Or.inr hx⟩, fun M => by obtain ⟨y, hy, hlt⟩ := hM M; exact ⟨y, Or.inr hy, hlt⟩⟩
    | val p' q' a' =>
      obtain ⟨hq, hub, hatt, hnatt⟩ := hs
      obtain ⟨hq', hub', hatt', hnatt'⟩ := ht
      show IsSup (S ∪ T) f
        (if p * q' < p' * q then .val p' q' a' else if p * q' = p' * q then .val p q (a || a') else .val p q a)
      by_cases hlt : p * q' < p' * q
      · rw [if_pos hlt]
        have hv : (p:Rat)/q < (p':Rat)/q' := (div_lt_div_of_cross hq hq').mpr hlt
        refine ⟨hq', ?_, ?_, ?_⟩
        · rintro x (hx | hx)
          · exact le_of_lt (lt_of_le_of_lt (hub x hx) hv)
          · exact hub' x hx
        · intro h; obtain ⟨x, hx, hxe⟩ := hatt' h; exact ⟨x, Or.inr hx, hxe⟩
        · intro h
          obtain ⟨hst, happ⟩ := hnatt' h
          refine ⟨?_, fun ε hε => ?_⟩
          · rintro x (hx | hx)
            · exact lt_of_le_of_lt (hub x hx) hv
            · exact hst x hx
          · obtain ⟨x, hx, hxl⟩ := happ ε hε; exact ⟨x, Or.inr hx, hxl⟩
      · rw [if_neg hlt]
        by_cases heq : p * q' = p' * q
        · rw [if_pos heq]
          have hv : (p:Rat)/q = (p':Rat)/q' := (div_eq_div_of_cross hq hq').mpr heq
          refine ⟨hq, ?_, ?_, ?_⟩
          · rintro x (hx | hx)
            · exact hub x hx
            · rw [hv]; exact hub' x hx
          · intro h
            rcases Bool.or_eq_true_iff.mp h with h1 | h1
            · obtain ⟨x, hx, hxe⟩ := hatt h1; exact ⟨x, Or.inl hx, hxe⟩
            · obtain ⟨x, hx, hxe⟩ := hatt' h1; exact ⟨x, Or.inr hx, by rw [hv]; exact hxe⟩
          · intro h
            obtain ⟨h1, h2⟩ := Bool.or_eq_false_iff.mp h
            obtain ⟨hst, happ⟩ := hnatt h1
            obtain ⟨hst', -⟩ := hnatt' h2
            refine ⟨?_, fun ε hε => ?_⟩
            · rintro x (hx | hx)
              · exact hst x hx
              · rw [hv]; exact hst' x hx
            · obtain ⟨x, hx, hxl⟩ := happ ε hε; exact ⟨x, Or.inl hx, hxl⟩
        · rw [if_neg heq]
          have hgt : p' * q < p * q' := lt_of_le_of_ne (not_lt.mp hlt) (fun h => heq h.symm)
          have hv : (p':Rat)/q' < (p:Rat)/q := (div_lt_div_of_cross hq' hq).mpr hgt
          refine ⟨hq, ?_, ?_, ?_⟩
          · rintro x (hx | hx)
            · exact hub x hx
            · exact le_of_lt (lt_of_le_of_lt (hub' x hx) hv)
          · intro h; obtain ⟨x, hx, hxe⟩ := hatt h; exact ⟨x, Or.inl hx, hxe⟩
          · intro h
            obtain ⟨hst, happ⟩ := hnatt h
            refine ⟨?_, fun ε hε => ?_⟩
            · rintro x (hx | hx)
              · exact hst x hx
              · exact lt_of_le_of_lt (hub' x hx) hv
            · obtain ⟨x, hx, hxl⟩ := happ ε hε; exact ⟨x, Or.inl hx, hxl⟩

theorem semU_nil : semU [] = ∅ := by
  ext x; simp [semU]

theorem semU_cons (P : List Con) (Ps : List (List Con)) : semU (P :: Ps) = sem P ∪ semU Ps := by
  ext x; simp [semU, sem]

theorem supU_isSup (n : Nat) (e : List Int) (Ps : List (List Con)) (hwf : ∀ P ∈ Ps, WF n P)
    (he : e.length ≤ n) : IsSup (semU Ps) (fun x => dot e x) (supU n e Ps) := by
  induction Ps with
  | nil => show semU [] = ∅; exact semU_nil
  | cons P Ps ih =>
    rw [semU_cons]
    exact IsSup_union _ _ _ _ _ (supB_isSup n e P (hwf P (by simp)) he)
      (ih fun Q hQ => hwf Q (by simp [hQ]))

/-! ### template directions -/

theorem unitV_length (n i : Nat) (a : Int) : (unitV n i a).length = n := by simp [unitV]
theorem pairV_length (n i j : Nat) (a b : Int) : (pairV n i j a b).length = n := by simp [pairV]

theorem boxDirs_length (n : Nat) : ∀ e ∈ boxDirs n, e.length = n := by
  intro e he
  simp only [boxDirs, List.mem_flatMap, List.mem_range, List.mem_cons, List.not_mem_nil, or_false] at he
  obtain ⟨i, -, rfl | rfl⟩ := he <;> exact unitV_length _ _ _

theorem diffDirs_length (n : Nat) : ∀ e ∈ diffDirs n, e.length = n := by
  intro e he
  simp only [diffDirs, List.mem_flatMap, List.mem_range, List.mem_filterMap] at he
  obtain ⟨i, -, j, -, h⟩ := he
  split at h
  · cases h
  · cases h; exact pairV_length _ _ _ _ _

theorem sumDirs_length (n : Nat) : ∀ e ∈ sumDirs n, e.length = n := by
  intro e he
  simp only [sumDirs, List.mem_flatMap, List.mem_range] at he
  obtain ⟨i, -, j, -, h⟩ := he
  split at h
  · simp only [List.mem_cons, List.not_mem_nil, or_false] at h
    rcases h with rfl | rfl <;> exact pairV_length _ _ _ _ _
  · cases h

theorem dirs_length (K : ShapeKind) (n : Nat) : ∀ e ∈ dirs K n, e.length = n := by
  intro e he
  cases K with
  | box => exact boxDirs_length n e he
  | bds =>
    rcases List.mem_append.mp he with h | h
    · exact boxDirs_length n e h
    · exact diffDirs_length n e h
  | oct =>
    rcases List.mem_append.mp he with h | h
    · rcases List.mem_append.mp h with h | h
      · exact boxDirs_length n e h
      · exact diffDirs_length n e h
    · exact sumDirs_length n e h

/-! ### shapes -/

/-- `c` is a row of the domain `K` over `n` variables: its coefficient vector is a positive multiple
    of a template direction (or zero), and it is non-strict unless `K` is the box domain -/
def KindRow (K : ShapeKind) (n : Nat) (c : Con) : Prop :=
  (c.allZero = true ∨ ∃ e ∈ dirs K n, ∃ m : Int, 0 < m ∧ c.coeffs = e.map (m * ·)) ∧
  (K ≠ .box → c.strict = false)

/-- a constraint system all of whose rows belong to the domain `K` -/
def OfKind (K : ShapeKind) (n : Nat) (Q : List Con) : Prop := ∀ c ∈ Q, KindRow K n c

theorem dot_map_neg (e : List Int) (x : Val) : dot (e.map (- ·)) x = - dot e x := by
  have : e.map (- ·) = e.map ((-1 : Int) * ·) := by
    apply List.map_congr_left; intro a _; ring
  rw [this, dot_map_mul]; push_cast; ring

theorem mem_bestU_rows (K : ShapeKind) (n : Nat) (Ps : List (List Con)) (c : Con)
    (hfeas : ¬ (Ps.all (fun P => !feasible n P)) = true) :
    c ∈ bestU K n Ps ↔ ∃ e ∈ dirs K n, bestRow K e (supU n (e.map (- ·)) Ps) = some c := by
  unfold bestU
  rw [if_neg hfeas, List.mem_filterMap]

theorem bestRow_some (K : ShapeKind) (e : List Int) (s : Sup) (c : Con) (h : bestRow K e s = some c) :
    ∃ p q att, s = .val p q att ∧ c = ⟨e.map (q * ·), p, (K == .box) && !att⟩ := by
  cases s with
  | empty => cases h
  | unbounded => cases h
  | val p q att => exact ⟨p, q, att, rfl, by simpa [bestRow] using h.symm⟩

/-- a row `q·(e·x) + p ≥ 0` (`> 0`) of `bestU` holds at `x` iff `−e·x ≤ p/q` (`<`) -/
theorem sat_bestRow (e : List Int) (p q : Int) (st : Bool) (hq : 0 < q) (x : Val) :
    (⟨e.map (q * ·), p, st⟩ : Con).sat x ↔
      (if st then - dot e x < (p:Rat)/q else - dot e x ≤ (p:Rat)/q) := by
  have hq' : (0:Rat) < q := by exact_mod_cast hq
  unfold Con.sat Con.eval
  simp only [dot_map_mul]
  cases st with
  | true =>
    simp only [if_true]
    rw [lt_div_iff₀ hq']
    constructor <;> intro h <;> nlinarith
  | false =>
    simp only [Bool.false_eq_true, if_false]
    rw [le_div_iff₀ hq']
    constructor <;> intro h <;> nlinarith

theorem all_infeasible_iff (n : Nat) (Ps : List (List Con)) (hwf : ∀ P ∈ Ps, WF n P) :
    (Ps.all (fun P => !feasible n P)) = true ↔ semU Ps = ∅ := by
  rw [List.all_eq_true, Set.eq_empty_iff_forall_notMem]
  constructor
  · rintro h x ⟨P, hP, hx⟩
    have := h P hP
    rw [Bool.not_eq_true', ← Bool.not_eq_true, feasible_iff n P (hwf P hP)] at this
    exact this ⟨x, hx⟩
  · intro h P hP
    rw [Bool.not_eq_true', ← Bool.not_eq_true, feasible_iff n P (hwf P hP)]
    rintro ⟨x, hx⟩
    exact h x ⟨P, hP, hx⟩

/-- **Soundness**: every piece is contained in `bestU`. -/
theorem bestU_sound (K : ShapeKind) (n : Nat) (Ps : List (List Con)) (hwf : ∀ P ∈ Ps, WF n P) :
    semU Ps ⊆ sem (bestU K n Ps) := by
  intro x hx c hc
  have hne : ¬ (Ps.all (fun P => !feasible n P)) = true := by
    rw [all_infeasible_iff n Ps hwf]
    intro h; rw [h] at hx; exact hx
  obtain ⟨e, he, hrow⟩ := (mem_bestU_rows K n Ps c hne).mp hc
  obtain ⟨p, q, att, hs, rfl⟩ := bestRow_some K e _ c hrow
  have hlen : (e.map (- ·)).length ≤ n := by rw [List.length_map, dirs_length K n e he]
  have hsup := supU_isSup n (e.map (- ·)) Ps hwf hlen
  rw [hs] at hsup
  rw [sat_bestRow e p q _ hsup.1 x]
  have hle := hsup.val_le x hx
  simp only [dot_map_neg] at hle
  cases att with
  | true => simp only [Bool.not_true, Bool.and_false, Bool.false_eq_true, if_false]; exact hle
  | false =>
    have hlt := IsSup.val_lt hsup x hx
    simp only [dot_map_neg] at hlt
    split
    · exact hlt
    · exact hle

/-- `bestU` is an element of the domain. -/
theorem bestU_ofKind (K : ShapeKind) (n : Nat) (Ps : List (List Con)) (hwf : ∀ P ∈ Ps, WF n P) :
    OfKind K n (bestU K n Ps) := by
  intro c hc
  by_cases hall : (Ps.all (fun P => !feasible n P)) = true
  · unfold bestU at hc
    rw [if_pos hall] at hc
    rw [List.mem_singleton] at hc
    subst hc
    exact ⟨Or.inl rfl, fun _ => rfl⟩
  · obtain ⟨e, he, hrow⟩ := (mem_bestU_rows K n Ps c hall).mp hc
    obtain ⟨p, q, att, hs, rfl⟩ := bestRow_some K e _ c hrow
    have hlen : (e.map (- ·)).length ≤ n := by rw [List.length_map, dirs_length K n e he]
    have hsup := supU_isSup n (e.map (- ·)) Ps hwf hlen
    rw [hs] at hsup
    refine ⟨Or.inr ⟨e, he, q, hsup.1, rfl⟩, fun hK => ?_⟩
    cases K with
    | box => exact absurd rfl hK
    | bds => rfl
    | oct => rfl

theorem bestU_wf (K : ShapeKind) (n : Nat) (Ps : List (List Con)) : WF n (bestU K n Ps) := by
  intro c hc
  by_cases hall : (Ps.all (fun P => !feasible n P)) = true
  · unfold bestU at hc
    rw [if_pos hall, List.mem_singleton] at hc
    subst hc; simp [falseRow]
  · obtain ⟨e, he, hrow⟩ := (mem_bestU_rows K n Ps c hall).mp hc
    obtain ⟨p, q, att, -, rfl⟩ := bestRow_some K e _ c hrow
    simp [dirs_length K n e he]

/-- **Leastness**: every shape of the domain that contains every piece contains `bestU`. -/
theorem bestU_least (K : ShapeKind) (n : Nat) (Ps : List (List Con)) (hwf : ∀ P ∈ Ps, WF n P)
    (Q : List Con) (hQ : OfKind K n Q) (hsub : semU Ps ⊆ sem Q) : sem (bestU K n Ps) ⊆ sem Q := by
  intro x hx c hc
  by_cases hall : (Ps.all (fun P => !feasible n P)) = true
  · exfalso
    have hx' : Sat (bestU K n Ps) x := hx
    unfold bestU at hx'
    rw [if_pos hall] at hx'
    exact not_sat_falseRow x (hx' falseRow (by simp))
  · have hne : ∃ y, y ∈ semU Ps := by
      by_contra hcon
      apply hall
      rw [all_infeasible_iff n Ps hwf, Set.eq_empty_iff_forall_notMem]
      exact fun y hy => hcon ⟨y, hy⟩
    obtain ⟨hshape, hstrict⟩ := hQ c hc
    rcases hshape with hz | ⟨e, he, m, hm, hcf⟩
    · -- a constant row: it holds at a point of a piece, hence everywhere
      obtain ⟨y, hy⟩ := hne
      have hcy : c.sat y := hsub hy c hc
      unfold Con.sat at hcy ⊢
      rw [eval_allZero c hz] at hcy ⊢
      exact hcy
    · have hlen : (e.map (- ·)).length ≤ n := by rw [List.length_map, dirs_length K n e he]
      have hsup := supU_isSup n (e.map (- ·)) Ps hwf hlen
      have hm' : (0:Rat) < m := by exact_mod_cast hm
      have hev : ∀ y, c.eval y = (m:Rat) * dot e y + c.k := by
        intro y; unfold Con.eval; rw [hcf, dot_map_mul]
      -- on the pieces −e·y ≤ k/m
      have hB : ∀ y ∈ semU Ps, (fun y => dot (e.map (- ·)) y) y ≤ (c.k:Rat)/m := by
        intro y hy
        have hcy : c.sat y := hsub hy c hc
        simp only [dot_map_neg]
        rw [le_div_iff₀ hm']
        unfold Con.sat at hcy
        rw [hev y] at hcy
        split at hcy <;> nlinarith
      obtain ⟨p, q, att, hs, hq, hpq⟩ := hsup.le_of_bound hne _ hB
      have hrow : (⟨e.map (q * ·), p, (K == .box) && !att⟩ : Con) ∈ bestU K n Ps :=
        (mem_bestU_rows K n Ps _ hall).mpr ⟨e, he, by rw [hs]; rfl⟩
      have hxrow := (sat_bestRow e p q _ hq x).mp (hx _ hrow)
      unfold Con.sat
      rw [hev x]
      by_cases hst : c.strict = true
      · -- strict rows only in the box domain
        have hKbox : K = .box := by
          by_contra hK; have := hstrict hK; rw [this] at hst; cases hst
        rw [if_pos hst]
        have hBs : ∀ y ∈ semU Ps, (fun y => dot (e.map (- ·)) y) y < (c.k:Rat)/m := by
          intro y hy
          have hcy : c.sat y := hsub hy c hc
          simp only [dot_map_neg]
          rw [lt_div_iff₀ hm']
          unfold Con.sat at hcy
          rw [hev y, if_pos hst] at hcy
          nlinarith
        cases att with
        | true =>
          rw [hs] at hsup
          have hlt := IsSup.lt_of_strict_bound hsup _ hBs
          simp only [Bool.not_true, Bool.and_false, Bool.false_eq_true, if_false] at hxrow
          have : - dot e x < (c.k:Rat)/m := lt_of_le_of_lt hxrow hlt
          rw [lt_div_iff₀ hm'] at this
          nlinarith
        | false =>
          subst hKbox
          simp only [beq_self_eq_true, Bool.not_false, Bool.and_self, if_true] at hxrow
          have : - dot e x < (c.k:Rat)/m := lt_of_lt_of_le hxrow hpq
          rw [lt_div_iff₀ hm'] at this
          nlinarith
      · rw [if_neg hst]
        have hle : - dot e x ≤ (p:Rat)/q := by
          split at hxrow
          · exact le_of_lt hxrow
          · exact hxrow
        have : - dot e x ≤ (c.k:Rat)/m := le_trans hle hpq
        rw [le_div_iff₀ hm'] at this
        nlinarith

/-! ### "the union already is an element of the domain" -/

theorem subsetUnion_iff (n : Nat) (R A B : List Con) (hR : WF n R) (hA : WF n A) (hB : WF n B) :
    subsetUnion n R A B = true ↔ sem R ⊆ sem A ∪ sem B := by
  unfold subsetUnion
  simp only [List.all_eq_true, Bool.not_eq_true', ← Bool.not_eq_true]
  have hwf : ∀ a ∈ A, ∀ b ∈ B, WF n (b.neg :: a.neg :: R) := by
    intro a ha b hb c hc
    rcases List.mem_cons.mp hc with rfl | hc
    · simpa [Con.neg] using hB b hb
    · rcases List.mem_cons.mp hc with rfl | hc
      · simpa [Con.neg] using hA a ha
      · exact hR c hc
  constructor
  · intro h x hx
    by_contra hcon
    rw [Set.mem_union, not_or] at hcon
    obtain ⟨hnA, hnB⟩ := hcon
    have hA' : ∃ a ∈ A, ¬ a.sat x := by
      by_contra h'; push Not at h'; exact hnA h'
    have hB' : ∃ b ∈ B, ¬ b.sat x := by
      by_contra h'; push Not at h'; exact hnB h'
    obtain ⟨a, ha, hna⟩ := hA'
    obtain ⟨b, hb, hnb⟩ := hB'
    apply h a ha b hb
    rw [feasible_iff n _ (hwf a ha b hb)]
    refine ⟨x, ?_⟩
    rw [Sat_cons, Sat_cons]
    exact ⟨(sat_neg_iff b x).mpr hnb, (sat_neg_iff a x).mpr hna, hx⟩
  · intro h a ha b hb hfeas
    rw [feasible_iff n _ (hwf a ha b hb)] at hfeas
    obtain ⟨x, hx⟩ := hfeas
    rw [Sat_cons, Sat_cons] at hx
    obtain ⟨hnb, hna, hxR⟩ := hx
    rcases h hxR with hxa | hxb
    · exact (sat_neg_iff a x).mp hna (hxa a ha)
    · exact (sat_neg_iff b x).mp hnb (hxb b hb)

theorem semU_pair (A B : List Con) : semU [A, B] = sem A ∪ sem B := by
  rw [semU_cons, semU_cons, semU_nil, Set.union_empty]

/-- `unionInDomain` decides whether `sem A ∪ sem B` is the point set of a shape of the domain. -/
theorem unionInDomain_iff (K : ShapeKind) (n : Nat) (A B : List Con) (hA : WF n A) (hB : WF n B) :
    unionInDomain K n A B = true ↔ ∃ Q, OfKind K n Q ∧ sem Q = sem A ∪ sem B := by
  have hwf : ∀ P ∈ [A, B], WF n P := by
    intro P hP
    simp only [List.mem_cons, List.not_mem_nil, or_false] at hP
    rcases hP with rfl | rfl <;> assumption
  have hsound := bestU_sound K n [A, B] hwf
  rw [semU_pair] at hsound
  unfold unionInDomain
  rw [subsetUnion_iff n _ A B (bestU_wf K n [A, B]) hA hB]
  constructor
  · intro h
    exact ⟨bestU K n [A, B], bestU_ofKind K n [A, B] hwf, Set.Subset.antisymm h hsound⟩
  · rintro ⟨Q, hQ, hQe⟩
    have := bestU_least K n [A, B] hwf Q hQ (by rw [semU_pair, hQe])
    rw [hQe] at this
    exact this

/-- when the union is in the domain, `bestU` is the union -/
theorem unionInDomain_best (K : ShapeKind) (n : Nat) (A B : List Con) (hA : WF n A) (hB : WF n B)
    (h : unionInDomain K n A B = true) : sem (bestU K n [A, B]) = sem A ∪ sem B := by
  have hwf : ∀ P ∈ [A, B], WF n P := by
    intro P hP
    simp only [List.mem_cons, List.not_mem_nil, or_false] at hP
    rcases hP with rfl | rfl <;> assumption
  have hsound := bestU_sound K n [A, B] hwf
  rw [semU_pair] at hsound
  unfold unionInDomain at h
  rw [subsetUnion_iff n _ A B (bestU_wf K n [A, B]) hA hB] at h
  exact Set.Subset.antisymm h hsound

/-- the pieces of a difference: `semU (diffPieces A B) = sem A \ sem B` -/
theorem diffPieces_sem (A B : List Con) : semU (diffPieces A B) = sem A \ sem B := by
  ext x
  simp only [semU, diffPieces, List.mem_map, Set.mem_ofPred_eq, Set.mem_sdiff, sem]
  constructor
  · rintro ⟨P, ⟨b, hb, rfl⟩, hx⟩
    rw [Sat_cons] at hx
    exact ⟨hx.2, fun hB => (sat_neg_iff b x).mp hx.1 (hB b hb)⟩
  · rintro ⟨hA, hnB⟩
    have : ∃ b ∈ B, ¬ b.sat x := by
      by_contra h'; push Not at h'; exact hnB h'
    obtain ⟨b, hb, hnb⟩ := this
    exact ⟨b.neg :: A, ⟨b, hb, rfl⟩, (Sat_cons _ _ _).mpr ⟨(sat_neg_iff b x).mpr hnb, hA⟩⟩

theorem diffPieces_wf (n : Nat) (A B : List Con) (hA : WF n A) (hB : WF n B) :
    ∀ P ∈ diffPieces A B, WF n P := by
  intro P hP c hc
  obtain ⟨b, hb, rfl⟩ := List.mem_map.mp hP
  rcases List.mem_cons.mp hc with rfl | hc
  · simpa [Con.neg] using hB b hb
  · exact hA c hc

end PPLV.WR
