import PPLV.WR.TransOct2LatProofsSem5
/-!
# Lattice / dimension operations of `Octagonal_Shape<T>`: fold_space_dimensions (soundness), conclusion
-/
set_option linter.unusedVariables false
namespace PPLV.WR
open ExtRat

def octLatFoldAll (n dest : Nat) (vars : List Nat) (m : Mat) : Mat :=
  vars.foldl (fun m tbf => octLatFoldOne n dest tbf m) m

theorem octLatFoldAll_infl (n dest : Nat) (vars : List Nat) (m : Mat) : MLe m (octLatFoldAll n dest vars m) := by
  unfold octLatFoldAll
  induction vars generalizing m with
  | nil => exact latMLe_refl m
  | cons w ws ih =>
    simp only [List.foldl_cons]
    exact latMLe_trans (octLatFoldOne_infl n dest w m) (ih _)

theorem octLatFoldAll_bounds (n dest : Nat) (vars : List Nat) (m0 s : Mat) (hs : MLe m0 s) (w : Nat)
    (hw : w ∈ vars) : octLatFoldBounds n dest w m0 (octLatFoldAll n dest vars s) := by
  unfold octLatFoldAll
  induction vars generalizing s with
  | nil => simp at hw
  | cons u us ih =>
    simp only [List.foldl_cons]
    by_cases hwu : w = u
    · subst hwu
      exact octLatFoldBounds_mono (octLatFoldAll_infl n dest us _) (octLatFoldOne_bounds n dest w m0 s hs)
    · have hw' : w ∈ us := by
        rcases List.mem_cons.1 hw with h | h
        · exact absurd h hwu
        · exact h
      exact ih _ (latMLe_trans hs (octLatFoldOne_infl n dest u s)) hw'

/-- after the `max_assign`s, the point with `dest := x_w` satisfies every stored cell between kept
variables -/
theorem octLatFoldAll_holds {n dest : Nat} {vars : List Nat} {m : Mat} {x : Nat → Rat} (hx : x ∈ γO n m)
    {w : Nat} (hw : w = dest ∨ w ∈ vars) (hwn : w < n) (hdn : dest < n) :
    octLatKeptHolds n vars (upd x dest (x w)) (octLatFoldAll n dest vars m) := by
  have hinfl := octLatFoldAll_infl n dest vars m
  rcases hw with rfl | hw
  · rw [latUpd_self]
    intro a b ha hb _ _
    exact le_trans' (hx a b ⟨ha, hb⟩) (hinfl a b)
  · obtain ⟨B1, B2, B3, B4, B5, B6⟩ := octLatFoldAll_bounds n dest vars m m (latMLe_refl m) w hw
    intro a b ha hb hka hkb
    have haw : a / 2 ≠ w := fun h => hka (h ▸ hw)
    have hbw : b / 2 ≠ w := fun h => hkb (h ▸ hw)
    have hxe : OctM.oval x (2 * w) = x w := oval_even x w
    have hxo : OctM.oval x (2 * w + 1) = - x w := oval_odd x w
    by_cases hav : a / 2 = dest
    · by_cases hbv : b / 2 = dest
      · rcases (by omega : a = 2 * dest ∨ a = 2 * dest + 1) with rfl | rfl <;>
          rcases (by omega : b = 2 * dest ∨ b = 2 * dest + 1) with rfl | rfl
        · have := hx (2 * dest) (2 * dest) ⟨ha, hb⟩
          simp only [sub_self] at this ⊢
          exact le_trans' this (hinfl _ _)
        · rw [latOval_upd_even, latOval_upd_odd]
          have := hx (2 * w) (2 * w + 1) ⟨by omega, by unfold rowSize; omega⟩
          rw [hxe, hxo] at this
          exact le_trans' this B1
        · rw [latOval_upd_even, latOval_upd_odd]
          have := hx (2 * w + 1) (2 * w) ⟨by omega, by unfold rowSize; omega⟩
          rw [hxe, hxo] at this
          exact le_trans' this B2
        · have := hx (2 * dest + 1) (2 * dest + 1) ⟨ha, hb⟩
          simp only [sub_self] at this ⊢
          exact le_trans' this (hinfl _ _)
      · have hblt : b < 2 * dest := by unfold rowSize at hb; omega
        rw [latOval_upd_ne x dest _ hbv]
        by_cases hbt : b < 2 * w
        · rcases (by omega : a = 2 * dest ∨ a = 2 * dest + 1) with rfl | rfl
          · rw [latOval_upd_even]
            have := hx (2 * w) b ⟨by omega, by unfold rowSize; omega⟩
            rw [hxe] at this
            exact le_trans' this (B3 b hblt hbt).1
          · rw [latOval_upd_odd]
            have := hx (2 * w + 1) b ⟨by omega, by unfold rowSize; omega⟩
            rw [hxo] at this
            exact le_trans' this (B3 b hblt hbt).2
        · have hbge : 2 * w + 2 ≤ b := by omega
          have hcb : 2 * w + 2 ≤ cidx b ∧ cidx b < 2 * n := by
            unfold cidx; split <;> omega
          have hoc := latOval_cidx x b
          rcases (by omega : a = 2 * dest ∨ a = 2 * dest + 1) with rfl | rfl
          · rw [latOval_upd_even]
            have := hx (cidx b) (2 * w + 1) ⟨hcb.2, by unfold rowSize; omega⟩
            rw [hxo, hoc] at this
            have e : OctM.oval x b - x w = -x w - -OctM.oval x b := by ring
            rw [e]
            exact le_trans' this (B4 b hbge hblt).1
          · rw [latOval_upd_odd]
            have := hx (cidx b) (2 * w) ⟨hcb.2, by unfold rowSize; omega⟩
            rw [hxe, hoc] at this
            have e : OctM.oval x b - -x w = x w - -OctM.oval x b := by ring
            rw [e]
            exact le_trans' this (B4 b hbge hblt).2
    · by_cases hbv : b / 2 = dest
      · have hage : 2 * dest + 2 ≤ a := by unfold rowSize at hb; omega
        rw [latOval_upd_ne x dest _ hav]
        by_cases hat : a < 2 * w
        · have hca : cidx a < 2 * w := by unfold cidx; split <;> omega
          have hoc := latOval_cidx x a
          rcases (by omega : b = 2 * dest ∨ b = 2 * dest + 1) with rfl | rfl
          · rw [latOval_upd_even]
            have := hx (2 * w + 1) (cidx a) ⟨by omega, by unfold rowSize; omega⟩
            rw [hxo, hoc] at this
            have e : x w - OctM.oval x a = -OctM.oval x a - -x w := by ring
            rw [e]
            exact le_trans' this (B5 a hage hat).1
          · rw [latOval_upd_odd]
            have := hx (2 * w) (cidx a) ⟨by omega, by unfold rowSize; omega⟩
            rw [hxe, hoc] at this
            have e : -x w - OctM.oval x a = -OctM.oval x a - x w := by ring
            rw [e]
            exact le_trans' this (B5 a hage hat).2
        · have hage2 : 2 * w + 2 ≤ a := by omega
          rcases (by omega : b = 2 * dest ∨ b = 2 * dest + 1) with rfl | rfl
          · rw [latOval_upd_even]
            have := hx a (2 * w) ⟨ha, by unfold rowSize; omega⟩
            rw [hxe] at this
            exact le_trans' this (B6 a hage hage2 ha).1
          · rw [latOval_upd_odd]
            have := hx a (2 * w + 1) ⟨ha, by unfold rowSize; omega⟩
            rw [hxo] at this
            exact le_trans' this (B6 a hage hage2 ha).2
      · rw [latOval_upd_ne x dest _ hav, latOval_upd_ne x dest _ hbv]
        exact le_trans' (hx a b ⟨ha, hb⟩) (hinfl a b)

/-- `fold_space_dimensions(vars, dest)`: for every point `x` of the shape and every `w ∈ vars ∪ {dest}`,
the point obtained by moving `x_w` to `dest` and dropping `vars` is in the result -/
theorem octLatFold_sound {R : Rnd} (hR : R.Sound) (n : Nat) (c : Bool) (m : Mat) (vars : List Nat)
    (dest : Nat) (hne : vars ≠ []) (hsorted : vars.Pairwise (· < ·)) (hvs : ∀ v, v ∈ vars → v < n)
    (hdest : dest < n) {x : Nat → Rat} (hx : x ∈ γO n m) {w : Nat} (hw : w = dest ∨ w ∈ vars) :
    ∃ r, octLatFold R n c m vars dest = some r ∧ r.dim = n - vars.length ∧
      octLatDropPoint n vars (upd x dest (x w)) ∈ γO r.dim r.m := by
  unfold octLatFold
  have : vars.isEmpty = false := by cases vars <;> simp_all
  simp only [this, Bool.false_eq_true, if_false]
  obtain ⟨m', c', e, hx'⟩ := octLatClose_sound hR.up_le n c m hx
  simp only [e]
  have hn : n ≠ 0 := by omega
  have hc' : c' = true := by
    unfold octLatClose at e
    split at e
    · simp only [Option.some.injEq, Prod.mk.injEq] at e; exact e.2.symm
    · try rw [if_neg hn] at e
      cases h : octCloseFirst R.up false (OctM.ofMat n m) with
      | none => rw [h] at e; simp at e
      | some v => rw [h] at e; simp only [Option.map_some, Option.some.injEq, Prod.mk.injEq] at e; exact e.2.symm
  subst hc'
  have hwn : w < n := by
    rcases hw with rfl | hw
    · exact hdest
    · exact hvs w hw
  exact octLatRemoveDims_closed_sound R n _ vars hne hsorted hvs (octLatFoldAll_holds hx' hw hwn hdest)

end PPLV.WR
