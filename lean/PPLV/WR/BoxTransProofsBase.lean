import PPLV.WR.BoxTrans2
import PPLV.Interval.ProofsSet
import PPLV.Interval.ProofsRefine
import PPLV.Interval.ProofsDiv
import PPLV.Interval.ProofsMul
/-!
# C03 stage 4 — semantics of the box model and the shared vocabulary of the proofs

`Box.mem p b x`: the point `x` (a valuation of the variables) belongs to the box: the box is not
marked empty and every interval contains its coordinate (`Iv.mem` of property C12 reads the OPEN
bit through the policy as the class does).
-/
set_option linter.unusedVariables false
namespace PPLV.WR.BoxT
open PPLV.Interval
open PPLV.Interval.ExtRat (ninf fin pinf)

/-- both roundings of the instantiation are sound directed roundings (the C12 hypothesis) -/
structure Cfg.Sound (cfg : Cfg) : Prop where
  R : cfg.R.Sound
  TR : cfg.TR.Sound

/-- γ(box) -/
def Box.mem (p : Policy) (b : Box) (x : Nat → Rat) : Prop :=
  b.markedEmpty = false ∧ ∀ k, k < b.seq.length → (b.get k).mem p (x k)

/-- the integer `z` is a value of the temporary type -/
def ExactAt (TR : Rounding) (z : Int) : Prop := TR.down (z : Rat) = fin (z : Rat) ∧ TR.up (z : Rat) = fin (z : Rat)

/-- every coefficient of the variables is a value of the temporary type -/
def CoeffsExact (TR : Rounding) (e : LinExpr) : Prop := ∀ a ∈ e.coeffs, ExactAt TR a

/-- the temporary type holds every integer (`mpq_class`, `mpz_class`) -/
def IntExact (TR : Rounding) : Prop := ∀ z : Int, ExactAt TR z

/-- the expression mentions variables of the box only -/
def LinExpr.WF (e : LinExpr) (n : Nat) : Prop := e.coeffs.length ≤ n

/-- `x[v := y]` -/
def upd (x : Nat → Rat) (v : Nat) (y : Rat) : Nat → Rat := fun k => if k = v then y else x k

/-- `y` differs from `x` on variables of `lhs` only -/
def AgreeOff (lhs : LinExpr) (x y : Nat → Rat) : Prop := ∀ k, lhs.coeff k = 0 → y k = x k

/-- soundness of `refine_with_constraint` as a property of an instantiation (proved from
`IntExact` in `BoxTransProofsRefine.lean`; the transformers that refine internally take it as a
hypothesis) -/
def RefineSound (cfg : Cfg) : Prop :=
  ∀ (b : Box) (c : Con) (x : Nat → Rat), c.e.WF b.dim → b.mem cfg.p x → c.holds x →
    (refineWithConstraint cfg b c).mem cfg.p x

theorem Cfg.mpq_sound : Cfg.mpq.Sound := ⟨Rounding.id_sound, Rounding.id_sound⟩
theorem Cfg.mpz_sound : Cfg.mpz.Sound := ⟨Rounding.int_sound, Rounding.int_sound⟩
theorem Cfg.dbl_sound : Cfg.dbl.Sound := ⟨Rounding.double_sound, Rounding.double_sound⟩

theorem rangeRounding_sound (lo hi : Int) : (rangeRounding lo hi).Sound := by
  constructor
  · intro q
    simp only [rangeRounding]
    split_ifs with h1 h2
    · simp
    · simp; linarith
    · simpa using Rat.floor_le q
  · intro q
    simp only [rangeRounding]
    split_ifs with h1 h2
    · simp
    · simp; linarith
    · simpa using (Rat.le_ceil (x := q))

theorem Cfg.int8_sound : Cfg.int8.Sound := ⟨rangeRounding_sound _ _, rangeRounding_sound _ _⟩

theorem intExact_id : IntExact Rounding.id := fun z => ⟨rfl, rfl⟩

theorem intExact_int : IntExact Rounding.int := fun z => by
  constructor <;> simp [Rounding.int]

theorem IntExact.coeffsExact {TR : Rounding} (h : IntExact TR) (e : LinExpr) : CoeffsExact TR e :=
  fun a _ => h a

@[simp] theorem upd_same (x : Nat → Rat) (v : Nat) (y : Rat) : upd x v y v = y := by simp [upd]
theorem upd_other (x : Nat → Rat) {v k : Nat} (y : Rat) (h : k ≠ v) : upd x v y k = x k := by simp [upd, h]

theorem Box.get_setIv_same (b : Box) {k : Nat} (I : Iv) (h : k < b.seq.length) : (b.setIv k I).get k = I := by
  simp [Box.get, Box.setIv, List.getD, h]

theorem Box.get_setIv_other (b : Box) {k j : Nat} (I : Iv) (h : j ≠ k) : (b.setIv k I).get j = b.get j := by
  simp [Box.get, Box.setIv, List.getD, List.getElem?_set_ne (Ne.symm h)]

@[simp] theorem Box.setIv_length (b : Box) (k : Nat) (I : Iv) : (b.setIv k I).seq.length = b.seq.length := by
  simp [Box.setIv]

/-- replacing one interval by one that contains the new coordinate -/
theorem Box.mem_setIv {p : Policy} {b : Box} {x : Nat → Rat} {v : Nat} {I : Iv} {y : Rat}
    (hx : b.mem p x) (hI : I.mem p y) : (b.setIv v I).mem p (upd x v y) := by
  refine ⟨by simpa [Box.setIv, Box.markedEmpty] using hx.1, ?_⟩
  intro k hk
  rw [Box.setIv_length] at hk
  by_cases h : k = v
  · subst h; rw [Box.get_setIv_same b I hk, upd_same]; exact hI
  · rw [Box.get_setIv_other b I h, upd_other x y h]; exact hx.2 k hk

/-- same, the coordinate unchanged -/
theorem Box.mem_setIv_self {p : Policy} {b : Box} {x : Nat → Rat} {v : Nat} {I : Iv}
    (hx : b.mem p x) (hI : I.mem p (x v)) : (b.setIv v I).mem p x := by
  have := Box.mem_setIv (v := v) hx hI
  have e : upd x v (x v) = x := by funext k; by_cases h : k = v <;> simp [upd, h]
  rwa [e] at this

theorem Box.mem_resetEmptyUpToDate {p : Policy} {b : Box} {x : Nat → Rat} (hx : b.mem p x) :
    b.resetEmptyUpToDate.mem p x := by
  refine ⟨by simp [Box.resetEmptyUpToDate, Box.markedEmpty], ?_⟩
  intro k hk; exact hx.2 k hk

/-- a member shows that no interval is empty: the emptiness query answers `false` and only
touches the cache -/
theorem Box.isEmptyQ_of_mem {p : Policy} {b : Box} {x : Nat → Rat} (hx : b.mem p x) :
    (b.isEmptyQ p).1 = false ∧ (b.isEmptyQ p).2.mem p x ∧ (b.isEmptyQ p).2.seq = b.seq := by
  have hany : (b.seq.any fun I => isEmpty p I) = false := by
    rw [List.any_eq_false]
    intro I hI
    obtain ⟨k, hk, rfl⟩ := List.getElem_of_mem hI
    have := hx.2 k hk
    have hg : b.get k = b.seq[k] := by simp [Box.get, List.getD, hk]
    rw [hg] at this
    simp [isEmpty_of_mem this]
  unfold Box.isEmptyQ Box.checkEmpty
  rw [hx.1, hany]
  refine ⟨by simp, ⟨by simp [Box.setNonempty, Box.markedEmpty], ?_⟩, by simp [Box.setNonempty]⟩
  intro k hk; exact hx.2 k hk

end PPLV.WR.BoxT
