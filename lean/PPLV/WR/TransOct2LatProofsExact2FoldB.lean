import PPLV.WR.TransOct2LatProofsExact2FoldA
/-!
# `fold_space_dimensions` (octagons), exactness: the loop bodies at an odd index
-/
set_option linter.unusedVariables false
namespace PPLV.WR
open ExtRat

theorem octLatFoldB1_o {n : Nat} {c : OctM n} (hc : c.IsStronglyClosed) {dest w a b : Nat} {t : ExtRat}
    (hdn : dest < n) (hwn : w < n) (hwd : w ≠ dest)
    (H : ∀ x, c.Sat x →
      fin (OctM.oval (upd x dest (x w)) b - OctM.oval (upd x dest (x w)) a) ≤ t)
    {j : Nat} (hj1 : j < 2 * dest) (hj2 : j < 2 * w) (hp : (j) % 2 = 1)
    {S : Mat} (hS : octLatFoldInv dest c.e a b t S) :
    octLatFoldInv dest c.e a b t (latMaxAt (latMaxAt (latMaxAt (latMaxAt S (2 * dest) (j) (2 * w) (j)) (2 * dest + 1) (j) (2 * w + 1) (j))
      (2 * dest + 1) (cidx (j)) (2 * w + 1) (cidx (j))) (2 * dest) (cidx (j)) (2 * w) (cidx (j))) := by
  have hcv : cidx (j) = j - 1 := by unfold cidx; rw [if_pos (by omega)]
  simp only [hcv]
  refine octLatFoldInv_op (octLatFoldInv_op (octLatFoldInv_op (octLatFoldInv_op hS ?_ ?_ ?_) ?_ ?_ ?_)
      ?_ ?_ ?_) ?_ ?_ ?_
  all_goals first | (left; omega) | (right; omega) | (constructor <;> omega) |
    (intro ha hb; subst ha; subst hb; exact octLatSem hc H (by oct_idx) (by oct_idx) (by oct_idx) (by oct_idx))

theorem octLatFoldB2a_o {n : Nat} {c : OctM n} (hc : c.IsStronglyClosed) {dest w a b : Nat} {t : ExtRat}
    (hdn : dest < n) (hwn : w < n) (hwd : w ≠ dest)
    (H : ∀ x, c.Sat x →
      fin (OctM.oval (upd x dest (x w)) b - OctM.oval (upd x dest (x w)) a) ≤ t)
    {j : Nat} (hj1 : 2 * dest + 2 ≤ j) (hj2 : j < 2 * w) (hp : (j) % 2 = 1)
    {S : Mat} (hS : octLatFoldInv dest c.e a b t S) :
    octLatFoldInv dest c.e a b t (latMaxAt (latMaxAt (latMaxAt (latMaxAt S (cidx (j)) (2 * dest + 1) (2 * w) (j)) (cidx (j)) (2 * dest) (2 * w + 1) (j))
      (j) (2 * dest) (2 * w + 1) (cidx (j))) (j) (2 * dest + 1) (2 * w) (cidx (j))) := by
  have hcv : cidx (j) = j - 1 := by unfold cidx; rw [if_pos (by omega)]
  simp only [hcv]
  refine octLatFoldInv_op (octLatFoldInv_op (octLatFoldInv_op (octLatFoldInv_op hS ?_ ?_ ?_) ?_ ?_ ?_)
      ?_ ?_ ?_) ?_ ?_ ?_
  all_goals first | (left; omega) | (right; omega) | (constructor <;> omega) |
    (intro ha hb; subst ha; subst hb; exact octLatSem hc H (by oct_idx) (by oct_idx) (by oct_idx) (by oct_idx))

theorem octLatFoldB2b_o {n : Nat} {c : OctM n} (hc : c.IsStronglyClosed) {dest w a b : Nat} {t : ExtRat}
    (hdn : dest < n) (hwn : w < n) (hwd : w ≠ dest)
    (H : ∀ x, c.Sat x →
      fin (OctM.oval (upd x dest (x w)) b - OctM.oval (upd x dest (x w)) a) ≤ t)
    {j : Nat} (hj1 : 2 * w + 2 ≤ j) (hj2 : j < 2 * dest) (hp : (j) % 2 = 1)
    {S : Mat} (hS : octLatFoldInv dest c.e a b t S) :
    octLatFoldInv dest c.e a b t (latMaxAt (latMaxAt (latMaxAt (latMaxAt S (2 * dest) (j) (cidx (j)) (2 * w + 1)) (2 * dest + 1) (j) (cidx (j)) (2 * w))
      (2 * dest + 1) (cidx (j)) (j) (2 * w)) (2 * dest) (cidx (j)) (j) (2 * w + 1)) := by
  have hcv : cidx (j) = j - 1 := by unfold cidx; rw [if_pos (by omega)]
  simp only [hcv]
  refine octLatFoldInv_op (octLatFoldInv_op (octLatFoldInv_op (octLatFoldInv_op hS ?_ ?_ ?_) ?_ ?_ ?_)
      ?_ ?_ ?_) ?_ ?_ ?_
  all_goals first | (left; omega) | (right; omega) | (constructor <;> omega) |
    (intro ha hb; subst ha; subst hb; exact octLatSem hc H (by oct_idx) (by oct_idx) (by oct_idx) (by oct_idx))

theorem octLatFoldB3_o {n : Nat} {c : OctM n} (hc : c.IsStronglyClosed) {dest w a b : Nat} {t : ExtRat}
    (hdn : dest < n) (hwn : w < n) (hwd : w ≠ dest)
    (H : ∀ x, c.Sat x →
      fin (OctM.oval (upd x dest (x w)) b - OctM.oval (upd x dest (x w)) a) ≤ t)
    {j : Nat} (hj1 : 2 * dest + 2 ≤ j) (hj2 : 2 * w + 2 ≤ j) (hj3 : j < 2 * n) (hp : (j) % 2 = 1)
    {S : Mat} (hS : octLatFoldInv dest c.e a b t S) :
    octLatFoldInv dest c.e a b t (latMaxAt (latMaxAt (latMaxAt (latMaxAt S (cidx (j)) (2 * dest + 1) (cidx (j)) (2 * w + 1)) (cidx (j)) (2 * dest) (cidx (j)) (2 * w))
      (j) (2 * dest) (j) (2 * w)) (j) (2 * dest + 1) (j) (2 * w + 1)) := by
  have hcv : cidx (j) = j - 1 := by unfold cidx; rw [if_pos (by omega)]
  simp only [hcv]
  refine octLatFoldInv_op (octLatFoldInv_op (octLatFoldInv_op (octLatFoldInv_op hS ?_ ?_ ?_) ?_ ?_ ?_)
      ?_ ?_ ?_) ?_ ?_ ?_
  all_goals first | (left; omega) | (right; omega) | (constructor <;> omega) |
    (intro ha hb; subst ha; subst hb; exact octLatSem hc H (by oct_idx) (by oct_idx) (by oct_idx) (by oct_idx))


end PPLV.WR
