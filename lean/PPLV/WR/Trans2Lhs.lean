import PPLV.WR.Trans
/-!
# BD_Shape<T>: the transformers with an EXPRESSION on the left-hand side (executable model, no Mathlib)

Code-shaped models of (`/repo/src/BD_Shape_templates.hh`, `BD_Shape_inlines.hh`, `Constraint_inlines.hh`,
`Constraint.cc`, `Linear_Expression_Impl*.{hh,cc}`, `Dense_Row.cc` / `Sparse_Row.cc`, as they are in the tree NOW):

* `generalized_affine_image(lhs, relsym, rhs)`        (`BD_Shape_templates.hh:5974`)
* `generalized_affine_preimage(lhs, relsym, rhs)`     (`BD_Shape_templates.hh:6254`)
* the private `refine(var, relsym, expr, denominator)` (`:3645`; stage 3's `refineVar`) as an entry point
* the `Constraint` objects `lhs <= rhs`, `lhs == rhs`, `lhs >= rhs` that are handed to `refine_no_check`
  (`operator<=`, `operator>=`, `operator==` on `Linear_Expression`s, `Constraint_inlines.hh:356-385, 493`;
  the constructor `Constraint(Linear_Expression&, Type, Topology)` (`:154`) calls `strong_normalize()`:
  `expr.normalize()` divides every coefficient AND the inhomogeneous term by their gcd (`Dense_Row.cc:396`,
  `Sparse_Row.cc:212`), `sign_normalize()` (`Constraint.cc:252`) makes the first non-zero homogeneous
  coefficient of an EQUALITY positive (`Linear_Expression_Impl_templates.hh:696`))
* `Linear_Expression::have_a_common_variable` (`Linear_Expression_Impl.cc:427-498`),
  `add_space_dimensions_and_embed(1)` (`:2803`), `remove_higher_space_dimensions` (`BD_Shape_inlines.hh:780`).

An expression is `e : Nat → Int` (coefficient of `Variable(i)`, zero at indices `≥ n`) with inhomogeneous term
`b`; its space dimension is (index of the last non-zero coefficient) + 1 (`lhsSpaceDim`): the harness builds
expressions as sums of their non-zero terms.  The shortest-path-closed flag is modelled explicitly where the
code tests it in the middle (`is_empty()`, `shortest_path_closure_assign()`, `remove_higher_space_dimensions`).
Result convention: `none` = the shape is marked empty afterwards.
-/
namespace PPLV.WR
open ExtRat (fin pinf)

/-! ## expressions and `Constraint` objects -/

/-- `Linear_Expression::space_dimension()` of an expression that was built as the sum of its non-zero
terms: index of the last non-zero coefficient + 1 (`0` for a constant) -/
def lhsSpaceDim (e : Nat → Int) (n : Nat) : Nat := lastNonzero e n

/-- the gcd that `Dense_Row::normalize` / `Sparse_Row::normalize` compute: all `sd` coefficients and the
inhomogeneous term (`0` when everything is zero) -/
def lhsGcd (cf : Nat → Int) (inhomo : Int) : Nat → Nat
  | 0 => inhomo.natAbs
  | k+1 => Nat.gcd (cf k).natAbs (lhsGcd cf inhomo k)

/-- `Constraint::Constraint(Linear_Expression& e, Type type, NECESSARILY_CLOSED)` (`Constraint_inlines.hh:154`):
`strong_normalize()` = `expr.normalize()` (divide by the gcd unless it is `0` or `1`), then, for an equality,
`expr.sign_normalize()` (if the first non-zero homogeneous coefficient is negative, negate every
coefficient and the inhomogeneous term).  The result is `(c.space_dimension(), coefficients,
c.inhomogeneous_term(), kind)` as `refine_no_check` reads them. -/
def lhsMkConstraint (sd : Nat) (cf : Nat → Int) (inhomo : Int) (kind : CKind) :
    Nat × (Nat → Int) × Int × CKind :=
  let g : Int := (lhsGcd cf inhomo sd : Nat)
  let cf1 : Nat → Int := if g = 0 ∨ g = 1 then cf else fun i => cf i / g
  let k1 : Int := if g = 0 ∨ g = 1 then inhomo else inhomo / g
  if kind = .eq then
    let f := firstNonzero cf1 1 (sd + 1)
    if f ≠ sd + 1 ∧ cf1 (f - 1) < 0 then (sd, fun i => - cf1 i, - k1, kind) else (sd, cf1, k1, kind)
  else (sd, cf1, k1, kind)

/-- the `Constraint` `lhs relsym rhs` (`Constraint_inlines.hh`): `e1 >= e2` and `e1 == e2` build
`diff = e1 - e2` in the space dimension `max(e1.space_dimension(), e2.space_dimension())`,
`e1 <= e2` is `e2 >= e1` (`:493`).  `sdl`, `sdr` are the space dimensions of the two expressions. -/
def lhsRelConstraint (rel : RelSym) (sdl : Nat) (el : Nat → Int) (bl : Int) (sdr : Nat) (er : Nat → Int)
    (br : Int) : Nat × (Nat → Int) × Int × CKind :=
  match rel with
  | .le => lhsMkConstraint (max sdr sdl) (fun i => er i - el i) (br - bl) .ge
  | .eq => lhsMkConstraint (max sdl sdr) (fun i => el i - er i) (bl - br) .eq
  | .ge => lhsMkConstraint (max sdl sdr) (fun i => el i - er i) (bl - br) .ge

/-- `refine_no_check(lhs relsym rhs)` -/
def lhsRefineRel (R : Rnd) (rel : RelSym) (sdl : Nat) (el : Nat → Int) (bl : Int) (sdr : Nat)
    (er : Nat → Int) (br : Int) (m : Mat) : Outcome :=
  let c := lhsRelConstraint rel sdl el bl sdr er br
  refineNoCheck R c.1 c.2.1 c.2.2.1 c.2.2.2 m

/-- the `changed` flag of `refine_no_check(const Constraint&)` (`:550-574`): the shape stays marked
shortest-path closed iff no cell was overwritten -/
def lhsRefineChanged (R : Rnd) (sd : Nat) (cf : Nat → Int) (inhomo : Int) (kind : CKind) (m : Mat) : Bool :=
  let x := extractBoundedDifference sd cf
  if !x.ok then false
  else if x.numVars = 0 then false
  else
    let negative := x.coeff < 0
    let coeff := if negative then - x.coeff else x.coeff
    let (xi, xj) := if negative then (x.i, x.j) else (x.j, x.i)
    let d := divRoundUp R inhomo coeff
    let changed := !decide (m xi xj ≤ d)
    let m := if m xi xj ≤ d then m else m.set xi xj d
    if kind = .eq then
      let d := divRoundUp R (- inhomo) coeff
      changed || !decide (m xj xi ≤ d)
    else changed

def lhsRefineRelChanged (R : Rnd) (rel : RelSym) (sdl : Nat) (el : Nat → Int) (bl : Int) (sdr : Nat)
    (er : Nat → Int) (br : Int) (m : Mat) : Bool :=
  let c := lhsRelConstraint rel sdl el bl sdr er br
  lhsRefineChanged R c.1 c.2.1 c.2.2.1 c.2.2.2 m

/-- `lhs_vars`: the variables of `lhs` in the order of `Linear_Expression::const_iterator` (ascending,
zero coefficients skipped) (`:6070-6074`) -/
def lhsVars (el : Nat → Int) (n : Nat) : List Nat := (List.range n).filter fun i => el i != 0

/-- `lhs.have_a_common_variable(rhs, Variable(0), Variable(num_common_dims))`
(`Linear_Expression_Impl.cc:427`): some variable of id `< num_common_dims` has a non-zero coefficient in both -/
def lhsHaveCommonVar (el er : Nat → Int) (numCommonDims : Nat) : Bool :=
  (List.range numCommonDims).any fun i => el i != 0 && er i != 0

/-- `for (i = lhs_vars.size(); i-- > 0; ) forget_all_dbm_constraints(lhs_vars[i].id() + 1);`;
`rows = dbm.num_rows()` -/
def bdsLhsForgetVars (rows : Nat) (vars : List Nat) (m : Mat) : Mat :=
  loopDown vars.length (fun i m => forgetAll rows (vars.getD i 0 + 1) m) m

/-- `t_lhs` and `j_lhs` (`:6010-6020`): `(t_lhs, j_lhs)`, `j_lhs` already decremented to a variable id -/
def lhsForm (el : Nat → Int) (n : Nat) : Nat × Nat :=
  let j := lastNonzero el n
  (exprT el j, j - 1)

/-- "Compute a sign-corrected relation symbol" (`:6053-6063`) -/
def lhsNewRelSym (rel : RelSym) (denom : Int) : RelSym :=
  if denom < 0 then
    match rel with
    | .le => .ge
    | .ge => .le
    | .eq => .eq
  else rel

/-! ## `generalized_affine_image(lhs, relsym, rhs)` -/

/-- an `Outcome` of `refine_no_check` as the state of the shape (`refine_no_check` never throws) -/
def lhsOutcomeToOption : Outcome → Option Mat
  | .ok m => some m
  | .empty => none
  | .throws => none

/-- `generalized_affine_image(lhs, relsym, rhs)` after the initial closure (`:6008-6169`); the matrix is
closed and marked closed -/
def bdsLhsGenAffineImageCore (R : Rnd) (n : Nat) (rel : RelSym) (el : Nat → Int) (bl : Int)
    (er : Nat → Int) (br : Int) (m : Mat) : Option Mat :=
  let lhs_space_dim := lhsSpaceDim el n
  let rhs_space_dim := lhsSpaceDim er n
  let tj := lhsForm el n
  let t_lhs := tj.1
  let j_lhs := tj.2
  if t_lhs = 0 then
    -- `lhs` is a constant: `refine_no_check(lhs relsym rhs)`
    lhsOutcomeToOption (lhsRefineRel R rel lhs_space_dim el bl rhs_space_dim er br m)
  else if t_lhs = 1 then
    -- `lhs == a_lhs * v + b_lhs`: `generalized_affine_image(v, new_relsym, rhs - b_lhs, a_lhs)`;
    -- the closure at its head is a no-op (the shape is marked closed)
    let denom := el j_lhs
    match lhsNewRelSym rel denom with
    | .eq => some (affineImageCore R n j_lhs er (br - bl) denom m)
    | .le => some (genAffineImageCore R n j_lhs true er (br - bl) denom m)
    | .ge => some (genAffineImageCore R n j_lhs false er (br - bl) denom m)
  else
    let lhs_vars := lhsVars el n
    let num_common_dims := min lhs_space_dim rhs_space_dim
    if !lhsHaveCommonVar el er num_common_dims then
      -- `lhs` and `rhs` variables are disjoint: forget, then `refine_no_check(lhs relsym rhs)`
      let m := bdsLhsForgetVars (n + 1) lhs_vars m
      lhsOutcomeToOption (lhsRefineRel R rel lhs_space_dim el bl rhs_space_dim er br m)
    else
      -- `#if 1`: simplified computation, the variables of `lhs` are forgotten and nothing else
      some (bdsLhsForgetVars (n + 1) lhs_vars m)

/-- `generalized_affine_image(lhs, relsym, rhs)` (`:5974`): `none` = the shape is (marked) empty -/
def bdsLhsGenAffineImage {n : Nat} (R : Rnd) (closed : Bool) (rel : RelSym) (el : Nat → Int) (bl : Int)
    (er : Nat → Int) (br : Int) (m : DBM n) : Option Mat :=
  (closeFirst R.up closed m).bind (bdsLhsGenAffineImageCore R n rel el bl er br)

/-! ## `generalized_affine_preimage(lhs, relsym, rhs)` -/

/-- the shortest-path-closed flag after the GENERAL case of `affine_image(var, expr, denominator)`
(`:4199-4374`): `forget_all_dbm_constraints` preserves it, the early return at `:4314` keeps it,
otherwise `reset_shortest_path_closed()` (`:4320`) — whether or not a cell is written afterwards. -/
def bdsLhsAffineImageGeneralClosed (R : Rnd) (w : Nat) (e : Nat → Int) (b den : Int) (m : Mat) : Bool :=
  let is_sc := den > 0
  let sc_b := if is_sc then b else - b
  let minus_sc_b := if is_sc then - b else b
  let sc := scExpr e den
  let pn := loopUp w (fun i (pq : Acc × Acc) => (accStepA R m sc true i pq.1, accStepA R m sc false i pq.2))
    (⟨R.up (sc_b : Rat), 0, 0⟩, ⟨R.up (minus_sc_b : Rat), 0, 0⟩)
  decide (pn.1.cnt > 1 ∧ pn.2.cnt > 1)

/-- the branch "some variables in `lhs` also occur in `rhs`" (`:6374-6420`): through an additional
dimension `new_var = Variable(n)`.  `m` is closed and marked closed. -/
def bdsLhsPreimageNewDim (R : Rnd) (n : Nat) (rel : RelSym) (el : Nat → Int) (bl : Int)
    (er : Nat → Int) (br : Int) (m : Mat) : Option Mat :=
  -- `add_space_dimensions_and_embed(1)`: the closed flag is maintained
  let m := embedOne n m
  -- `affine_image(new_var, lhs)` (denominator 1): the closure at its head is a no-op; `t_lhs == 2`
  -- forces the general case
  let m1 := affineImageCore R (n + 1) n el bl 1 m
  let closed1 := bdsLhsAffineImageGeneralClosed R (lastNonzero el (n + 1)) el bl 1 m
  -- `shortest_path_closure_assign()` (`:6387`)
  let d1 : DBM (n + 1) := DBM.ofMat (n + 1) m1
  if !closed1 && DBM.closureEmpty R.up d1 then none
  else
    let m2 := if closed1 then m1 else (DBM.closure R.up d1).e
    -- existentially quantify all variables in the lhs: the closed flag is preserved
    let m3 := bdsLhsForgetVars (n + 2) (lhsVars el n) m2
    -- `refine_no_check(new_var relsym rhs)`: `new_var` is converted to a `Linear_Expression` of
    -- space dimension `n + 1`
    let nv : Nat → Int := fun i => if i = n then 1 else 0
    let rhs_space_dim := lhsSpaceDim er n
    match lhsRefineRel R rel (n + 1) nv 0 rhs_space_dim er br m3 with
    | .empty => none
    | .throws => none
    | .ok m4 =>
      let changed := lhsRefineRelChanged R rel (n + 1) nv 0 rhs_space_dim er br m3
      -- `remove_higher_space_dimensions(bds_space_dim)`: `shortest_path_closure_assign()` (a no-op when
      -- still marked closed), then the matrix is cut
      if !changed then some m4
      else
        let d4 : DBM (n + 1) := DBM.ofMat (n + 1) m4
        if DBM.closureEmpty R.up d4 then none else some (DBM.closure R.up d4).e

/-- `generalized_affine_preimage(lhs, relsym, rhs)` after the initial closure (`:6288-6423`) -/
def bdsLhsGenAffinePreimageCore (R : Rnd) (n : Nat) (rel : RelSym) (el : Nat → Int) (bl : Int)
    (er : Nat → Int) (br : Int) (m : Mat) : Option Mat :=
  let lhs_space_dim := lhsSpaceDim el n
  let rhs_space_dim := lhsSpaceDim er n
  let tj := lhsForm el n
  let t_lhs := tj.1
  let j_lhs := tj.2
  if t_lhs = 0 then
    -- `generalized_affine_image(lhs, relsym, rhs)`: its initial closure is a no-op
    bdsLhsGenAffineImageCore R n rel el bl er br m
  else if t_lhs = 1 then
    -- `generalized_affine_preimage(v, new_relsym, rhs - b_lhs, a_lhs)`
    let denom := el j_lhs
    match lhsNewRelSym rel denom with
    | .eq => some (affinePreimageCore R n j_lhs er (br - bl) denom m)
    | .le => genAffinePreimageCore R n j_lhs true er (br - bl) denom m
    | .ge => genAffinePreimageCore R n j_lhs false er (br - bl) denom m
  else
    let lhs_vars := lhsVars el n
    let num_common_dims := min lhs_space_dim rhs_space_dim
    if !lhsHaveCommonVar el er num_common_dims then
      -- disjoint: `refine_no_check(lhs relsym rhs)`, `is_empty()`, forget
      match lhsRefineRel R rel lhs_space_dim el bl rhs_space_dim er br m with
      | .empty => none
      | .throws => none
      | .ok m1 =>
        let changed := lhsRefineRelChanged R rel lhs_space_dim el bl rhs_space_dim er br m
        -- `is_empty()`: the closure runs unless the shape is still marked closed
        if !changed then some (bdsLhsForgetVars (n + 1) lhs_vars m1)
        else
          let d : DBM n := DBM.ofMat n m1
          if DBM.closureEmpty R.up d then none
          else some (bdsLhsForgetVars (n + 1) lhs_vars (DBM.closure R.up d).e)
    else bdsLhsPreimageNewDim R n rel el bl er br m

/-- `generalized_affine_preimage(lhs, relsym, rhs)` (`:6254`): `none` = the shape is (marked) empty -/
def bdsLhsGenAffinePreimage {n : Nat} (R : Rnd) (closed : Bool) (rel : RelSym) (el : Nat → Int) (bl : Int)
    (er : Nat → Int) (br : Int) (m : DBM n) : Option Mat :=
  (closeFirst R.up closed m).bind (bdsLhsGenAffinePreimageCore R n rel el bl er br)

/-! ## the private `refine(var, relsym, expr, denominator)` as an entry point -/

/-- `refine(var, relsym, expr, denominator)` (`:3645`): the matrix left behind (the closed flag is the
second component of stage 3's `refineVar`) -/
def bdsRefineVar (R : Rnd) (n var : Nat) (rel : RelSym) (e : Nat → Int) (b den : Int) (m : Mat) : Mat :=
  (refineVar R n var rel e b den m).1

end PPLV.WR
