import PPLV.WR.ReduceProofsBase
import Mathlib.Tactic.Linarith
import Mathlib.Tactic.Ring
/-!
# Semantics of the constraint lists of `minimized_constraints()` / `constraints()` (M6)

`LCon.Sat` and the evaluation of `diffCoeffs n a p q` (`a*Variable(p-1) - a*Variable(q-1)`, dbm indices) at a
point: `a * (val x p - val x q)`.
-/
namespace PPLV.WR
open ExtRat (fin pinf)

/-- the point `x` satisfies the constraint `Σ coeffs_k·x_k (== | <=) rhs` -/
def LCon.Sat (c : LCon) (x : ℕ → ℚ) : Prop :=
  let s := ((List.range c.coeffs.length).map fun k => (c.coeffs.getD k 0 : ℚ) * x k).sum
  if c.isEq then s = c.rhs else s ≤ c.rhs

theorem sum_range_succ_map (g : Nat → ℚ) (n : Nat) :
    ((List.range (n+1)).map g).sum = ((List.range n).map g).sum + g n := by
  rw [List.range_succ, List.map_append, List.sum_append]
  simp

theorem sum_range_map_sub (g h : Nat → ℚ) (n : Nat) :
    ((List.range n).map fun k => g k - h k).sum = ((List.range n).map g).sum - ((List.range n).map h).sum := by
  induction n with
  | zero => simp
  | succ n ih => rw [sum_range_succ_map, sum_range_succ_map, sum_range_succ_map, ih]; ring

theorem sum_range_single (x : Nat → ℚ) (a : ℚ) (p n : Nat) :
    ((List.range n).map fun k => (if k + 1 = p then a else 0) * x k).sum
      = if p ≤ n then a * DBM.val x p else 0 := by
  induction n with
  | zero =>
    by_cases hp : p = 0
    · subst hp; simp [DBM.val]
    · rw [if_neg (by omega)]; simp
  | succ n ih =>
    rw [sum_range_succ_map, ih]
    by_cases h1 : p ≤ n
    · rw [if_pos h1, if_pos (show p ≤ n + 1 by omega), if_neg (show ¬ n + 1 = p by omega)]; ring
    · rw [if_neg h1]
      by_cases h2 : p = n + 1
      · subst h2
        rw [if_pos rfl, if_pos le_rfl]
        simp [DBM.val]
      · rw [if_neg (show ¬ n + 1 = p by omega), if_neg (show ¬ p ≤ n + 1 by omega)]; ring

/-- evaluation of `a*Variable(p-1) - a*Variable(q-1)` -/
theorem diffCoeffs_eval (n : Nat) (a : Int) (p q : Nat) (hp : p ≤ n) (hq : q ≤ n) (x : ℕ → ℚ) :
    ((List.range n).map fun k => ((diffCoeffs n a p q).getD k 0 : ℚ) * x k).sum
      = a * (DBM.val x p - DBM.val x q) := by
  have e : ((List.range n).map fun k => ((diffCoeffs n a p q).getD k 0 : ℚ) * x k)
      = ((List.range n).map fun k =>
          (if k + 1 = p then (a : ℚ) else 0) * x k - (if k + 1 = q then (a : ℚ) else 0) * x k) := by
    apply List.map_congr_left
    intro k hk
    have hk' : k < n := List.mem_range.1 hk
    have : (diffCoeffs n a p q).getD k 0
        = (if k + 1 = p then a else 0) - (if k + 1 = q then a else 0) := by
      simp [diffCoeffs, List.getD, hk']
    rw [this]
    push_cast
    ring
  rw [e, sum_range_map_sub, sum_range_single, sum_range_single, if_pos hp, if_pos hq]
  ring

theorem diffCoeffs_length (n : Nat) (a : Int) (p q : Nat) : (diffCoeffs n a p q).length = n := by
  simp [diffCoeffs]

theorem num_den_le_iff (r d : ℚ) : ((denomOf (fin r) : ℤ) : ℚ) * d ≤ ((numerOf (fin r) : ℤ) : ℚ) ↔ d ≤ r := by
  show ((r.den : ℤ) : ℚ) * d ≤ ((r.num : ℤ) : ℚ) ↔ d ≤ r
  have hpos : (0 : ℚ) < (r.den : ℚ) := by exact_mod_cast r.den_pos
  have hr : r = (r.num : ℚ) / (r.den : ℚ) := (Rat.num_div_den r).symm
  rw [Int.cast_natCast]
  constructor
  · intro h
    rw [hr, le_div_iff₀ hpos]; linarith
  · intro h
    rw [hr, le_div_iff₀ hpos] at h; linarith

theorem num_den_eq_iff (r d : ℚ) : ((denomOf (fin r) : ℤ) : ℚ) * d = ((numerOf (fin r) : ℤ) : ℚ) ↔ d = r := by
  constructor
  · intro h
    have h1 := (num_den_le_iff r d).1 (le_of_eq h)
    have hpos : (0 : ℚ) < ((denomOf (fin r) : ℤ) : ℚ) := by
      show (0 : ℚ) < ((r.den : ℤ) : ℚ)
      exact_mod_cast r.den_pos
    have h2 : ((denomOf (fin r) : ℤ) : ℚ) * r ≤ ((numerOf (fin r) : ℤ) : ℚ) := (num_den_le_iff r r).2 le_rfl
    have h3 : ((denomOf (fin r) : ℤ) : ℚ) * r ≤ ((denomOf (fin r) : ℤ) : ℚ) * d := by rw [h]; exact h2
    exact le_antisymm h1 (le_of_mul_le_mul_left h3 hpos)
  · rintro rfl
    show ((d.den : ℤ) : ℚ) * d = ((d.num : ℤ) : ℚ)
    rw [Int.cast_natCast, mul_comm]
    exact Rat.mul_den_eq_num d

/-- the inequality `denom·(x_p - x_q) <= numer` built from a finite entry `r` says `x_p - x_q ≤ r` -/
theorem LCon.sat_diff_le (n : Nat) (r : ℚ) (p q : Nat) (hp : p ≤ n) (hq : q ≤ n) (x : ℕ → ℚ) :
    (⟨false, diffCoeffs n (denomOf (fin r)) p q, numerOf (fin r)⟩ : LCon).Sat x
      ↔ fin (DBM.val x p - DBM.val x q) ≤ fin r := by
  unfold LCon.Sat
  simp only [diffCoeffs_length, Bool.false_eq_true, if_false]
  rw [diffCoeffs_eval n _ p q hp hq x, num_den_le_iff, ExtRat.fin_le_fin]

/-- the equality `denom·(x_p - x_q) == numer` built from a finite entry `r` says `x_p - x_q = r` -/
theorem LCon.sat_diff_eq (n : Nat) (r : ℚ) (p q : Nat) (hp : p ≤ n) (hq : q ≤ n) (x : ℕ → ℚ) :
    (⟨true, diffCoeffs n (denomOf (fin r)) p q, numerOf (fin r)⟩ : LCon).Sat x
      ↔ DBM.val x p - DBM.val x q = r := by
  unfold LCon.Sat
  simp only [diffCoeffs_length, if_true]
  rw [diffCoeffs_eval n _ p q hp hq x, num_den_eq_iff]

end PPLV.WR
