import PPLV.WR.BoxTransProofsRefine
/-!
# C03 stage 4 — the blocks of `propagate_constraint_no_check`: one generic soundness lemma

One generic lemma about `blockLoop` / `runBlock`, parametrised by the direction table of a block
through the predicate `Block.OK B D pos`:

* `D` is the direction in which the numerator `t_bound` is approximated (`.down`: a lower
  approximation of `−n − Σ_{i≠k} a_i x_i`, `.up`: an upper approximation);
* `pos` is the sign of `a_k`.

The invariant of the loop is `dcmp D (opn || inex) t_bound Y`: the temporary is on the `D` side of
the exact value, strictly so as soon as the OPEN flag or the "some operation was inexact" flag is
set.  The coefficients are assumed to be values of the temporary type (`CoeffsExact`): without
that the code is not sound (`BoxTransProofsFails.lean`).
-/
set_option linter.unusedVariables false
set_option linter.unusedSimpArgs false
set_option linter.unnecessarySeqFocus false
namespace PPLV.WR.BoxT
open PPLV.Interval
open PPLV.Interval.ExtRat (ninf fin pinf)

/-! ## flagged comparisons -/

theorem cmp_trans {o1 o2 : Bool} {x y z : Rat} (h1 : cmp o1 x y) (h2 : cmp o2 y z) : cmp (o1 || o2) x z := by
  cases o1 <;> cases o2 <;> simp at * <;> linarith

theorem cmp_mono {o o' : Bool} {x y : Rat} (ho : o' = true → o = true) (h : cmp o x y) : cmp o' x y := by
  cases o <;> cases o' <;> simp at * <;> linarith

theorem cmp_mul_pos {o : Bool} {a u v : Rat} (ha : 0 < a) (h : cmp o u v) : cmp o (a * u) (a * v) := by
  cases o <;> simp at *
  · exact mul_le_mul_of_nonneg_left h ha.le
  · exact mul_lt_mul_of_pos_left h ha

theorem cmp_mul_neg {o : Bool} {a u v : Rat} (ha : a < 0) (h : cmp o u v) : cmp o (a * v) (a * u) := by
  cases o <;> simp at *
  · exact mul_le_mul_of_nonpos_left h ha.le
  · exact mul_lt_mul_of_neg_left h ha

/-- `acc ≤ Y`, `p1 ≤ p2` give `acc − p2 ≤ Y − p1` -/
theorem cmp_sub {o o' : Bool} {acc Y p1 p2 : Rat} (h1 : cmp o acc Y) (h2 : cmp o' p1 p2) :
    cmp (o || o') (acc - p2) (Y - p1) := by
  cases o <;> cases o' <;> simp at * <;> linarith

theorem cmp_div_pos {o : Bool} {a v y : Rat} (ha : 0 < a) (h : cmp o v (a * y)) : cmp o (v / a) y := by
  have key : y - v / a = (a * y - v) / a := by rw [sub_div, mul_div_cancel_left₀ y ha.ne']
  cases o <;> simp at *
  · have := div_nonneg (sub_nonneg.2 h) ha.le; linarith
  · have := div_pos (sub_pos.2 h) ha; linarith

theorem cmp_div_pos' {o : Bool} {a v y : Rat} (ha : 0 < a) (h : cmp o (a * y) v) : cmp o y (v / a) := by
  have key : y - v / a = (a * y - v) / a := by rw [sub_div, mul_div_cancel_left₀ y ha.ne']
  cases o <;> simp at *
  · have := div_nonpos_of_nonpos_of_nonneg (sub_nonpos.2 h) ha.le; linarith
  · have := div_neg_of_neg_of_pos (sub_neg.2 h) ha; linarith

theorem cmp_div_neg {o : Bool} {a v y : Rat} (ha : a < 0) (h : cmp o v (a * y)) : cmp o y (v / a) := by
  have key : y - v / a = (a * y - v) / a := by rw [sub_div, mul_div_cancel_left₀ y ha.ne]
  cases o <;> simp at *
  · have := div_nonpos_of_nonneg_of_nonpos (sub_nonneg.2 h) ha.le; linarith
  · have := div_neg_of_pos_of_neg (sub_pos.2 h) ha; linarith

theorem cmp_div_neg' {o : Bool} {a v y : Rat} (ha : a < 0) (h : cmp o (a * y) v) : cmp o (v / a) y := by
  have key : y - v / a = (a * y - v) / a := by rw [sub_div, mul_div_cancel_left₀ y ha.ne]
  cases o <;> simp at *
  · have := div_nonneg_of_nonpos (sub_nonpos.2 h) ha.le; linarith
  · have := div_pos_of_neg_of_neg (sub_neg.2 h) ha; linarith

/-- comparison in the direction of a rounding: `.down`: `u ≤ v`, `.up`: `v ≤ u`; strict when `o` -/
def dcmp (d : Dir) (o : Bool) (u v : Rat) : Prop :=
  match d with
  | .down => cmp o u v
  | .up => cmp o v u

theorem dcmp_mono {d : Dir} {o o' : Bool} {x y : Rat} (ho : o' = true → o = true) (h : dcmp d o x y) :
    dcmp d o' x y := by
  cases d <;> exact cmp_mono ho h

/-! ## the operations on the temporary type -/

/-- a successful operation stores a value on the side of its direction, different from the exact
result exactly when it is reported inexact -/
theorem tmpOp_sound {TR : Rounding} (hT : TR.Sound) {d : Dir} {q v : Rat} {i : Bool}
    (h : tmpOp TR d q = some (v, i)) : dcmp d i v q := by
  unfold tmpOp at h
  cases d
  · have hs := hT.down_le q
    simp only [rnd] at h
    cases hq : TR.down q with
    | ninf => rw [hq] at h; simp at h
    | pinf => rw [hq] at h; simp at h
    | fin w =>
      rw [hq] at h hs
      simp only [Option.some.injEq, Prod.mk.injEq] at h
      obtain ⟨rfl, rfl⟩ := h
      simp only [lowerOkV_fin_closed] at hs
      show cmp (w != q) w q
      by_cases hwq : w = q
      · simp [hwq]
      · have hb : (w != q) = true := by simp [hwq]
        rw [hb]; simp; exact lt_of_le_of_ne hs hwq
  · have hs := hT.le_up q
    simp only [rnd] at h
    cases hq : TR.up q with
    | ninf => rw [hq] at h; simp at h
    | pinf => rw [hq] at h; simp at h
    | fin w =>
      rw [hq] at h hs
      simp only [Option.some.injEq, Prod.mk.injEq] at h
      obtain ⟨rfl, rfl⟩ := h
      simp only [upperOkV_fin_closed] at hs
      show cmp (w != q) q w
      by_cases hwq : w = q
      · simp [hwq]
      · have hb : (w != q) = true := by simp [hwq]
        rw [hb]; simp; exact lt_of_le_of_ne hs (Ne.symm hwq)

/-- a coefficient that is a value of the temporary type is stored exactly -/
theorem tmpOp_exact {TR : Rounding} {z : Int} (h : ExactAt TR z) (d : Dir) :
    tmpOp TR d (z : Rat) = some ((z : Rat), false) := by
  cases d <;> simp [tmpOp, rnd, h.1, h.2]

/-! ## reading a bound of `x_i` -/

theorem isOpen_eq_getOpen {p : Policy} {t : BT} {b : Bound} (h : isBoundaryInfinity p t b = false) :
    isOpen p t b = getOpen p b := by
  unfold isOpen getOpen
  cases hso : p.storeOpen <;> simp [h, hso]

theorem read_lower {p : Policy} {I : Iv} {xi xv : Rat} (hI : I.mem p xi)
    (hinf : isBoundaryInfinity p .lower I.lo = false) (hxv : I.lo.value = fin xv) :
    cmp (isOpen p .lower I.lo) xv xi := by
  rw [isOpen_eq_getOpen hinf, ← lowerOkV_fin_iff, ← hxv]
  exact hI.1

theorem read_upper {p : Policy} {I : Iv} {xi xv : Rat} (hI : I.mem p xi)
    (hinf : isBoundaryInfinity p .upper I.hi = false) (hxv : I.hi.value = fin xv) :
    cmp (isOpen p .upper I.hi) xi xv := by
  rw [isOpen_eq_getOpen hinf, ← upperOkV_fin_iff, ← hxv]
  exact hI.2

/-! ## the direction table of a block -/

/-- the directions of the block fit the approximation side `D` of the numerator and the sign
`pos` of `a_k` (the directions of `assign_r(t_a, a_i, ·)` do not matter: the coefficients are
exact) -/
structure Block.OK (B : Block) (D : Dir) (pos : Bool) : Prop where
  hInh : B.dInh = D.flip
  hNeg : B.dNeg = D
  hNegLower : B.negLower = decide (D = .down)
  hNegX : B.dNegX = D
  hPosLower : B.posLower = decide (D = .up)
  hPosX : B.dPosX = D.flip
  hSubNeg : B.dSubMulNeg = D
  hSubPos : B.dSubMulPos = D
  hDiv : B.dDiv = (if decide (D = .down) = pos then .down else .up)
  hRef : B.refinesLower = decide (B.dDiv = .down)

theorem blockPosLower_ok : blockPosLower.OK .down true := by constructor <;> decide
theorem blockPosUpper_ok : blockPosUpper.OK .up true := by constructor <;> decide
theorem blockNegUpper_ok : blockNegUpper.OK .down false := by constructor <;> decide
theorem blockNegLower_ok : blockNegLower.OK .up false := by constructor <;> decide

/-! ## the sum over the other variables -/

/-- `Σ_{i ≠ k} a_i x_i` -/
def restSum (k : Nat) (ts : List (Nat × Int)) (x : Nat → Rat) : Rat :=
  termSum (ts.filter fun t => !(t.1 == k)) x

@[simp] theorem restSum_nil (k : Nat) (x : Nat → Rat) : restSum k [] x = 0 := rfl

theorem restSum_cons_eq {k : Nat} {t : Nat × Int} (ts : List (Nat × Int)) (x : Nat → Rat) (h : (t.1 == k) = true) :
    restSum k (t :: ts) x = restSum k ts x := by
  simp [restSum, List.filter_cons, h]

theorem restSum_cons_ne {k : Nat} {t : Nat × Int} (ts : List (Nat × Int)) (x : Nat → Rat) (h : (t.1 == k) = false) :
    restSum k (t :: ts) x = (t.2 : Rat) * x t.1 + restSum k ts x := by
  simp [restSum, List.filter_cons, h]

theorem restSum_eq_termSum {k : Nat} {ts : List (Nat × Int)} (x : Nat → Rat) (h : ∀ t ∈ ts, t.1 ≠ k) :
    restSum k ts x = termSum ts x := by
  unfold restSum
  rw [List.filter_eq_self.2]
  intro t ht
  simpa using h t ht

/-- the term of `x_k` is split off -/
theorem termSum_split {k : Nat} {ak : Int} {ts : List (Nat × Int)} (x : Nat → Rat)
    (hp : ts.Pairwise (fun s t => s.1 < t.1)) (hm : (k, ak) ∈ ts) :
    termSum ts x = (ak : Rat) * x k + restSum k ts x := by
  induction ts with
  | nil => simp at hm
  | cons t ts ih =>
    rw [List.pairwise_cons] at hp
    rcases List.mem_cons.1 hm with heq | hmem
    · subst heq
      rw [restSum_cons_eq ts x (by simp), termSum_cons]
      rw [restSum_eq_termSum x (fun t ht => by have := hp.1 t ht; simp at this; omega)]
    · have hlt : t.1 < k := hp.1 _ hmem
      rw [restSum_cons_ne ts x (by simp; omega), termSum_cons, ih hp.2 hmem]
      ring

/-! ## one term of the inner loop (pure arithmetic) -/

/-- lower approximation, `a_i < 0`: the lower bound of `x_i` is read -/
theorem term_down_neg {a xi xv tx pr acc Y tb : Rat} {o oB i2 i3 i4 : Bool} (ha : a < 0)
    (hb : cmp oB xv xi) (htx : cmp i2 tx xv) (hpr : cmp i3 (a * tx) pr) (hacc : cmp o acc Y)
    (htb : cmp i4 tb (acc - pr)) :
    cmp (i4 || (o || ((i2 || oB) || i3))) tb (Y - a * xi) :=
  cmp_trans htb (cmp_sub hacc (cmp_trans (cmp_mul_neg ha (cmp_trans htx hb)) hpr))

/-- lower approximation, `a_i > 0`: the upper bound of `x_i` is read -/
theorem term_down_pos {a xi xv tx pr acc Y tb : Rat} {o oB i2 i3 i4 : Bool} (ha : 0 < a)
    (hb : cmp oB xi xv) (htx : cmp i2 xv tx) (hpr : cmp i3 (a * tx) pr) (hacc : cmp o acc Y)
    (htb : cmp i4 tb (acc - pr)) :
    cmp (i4 || (o || ((oB || i2) || i3))) tb (Y - a * xi) :=
  cmp_trans htb (cmp_sub hacc (cmp_trans (cmp_mul_pos ha (cmp_trans hb htx)) hpr))

/-- `Y ≤ acc`, `p2 ≤ p1` give `Y − p1 ≤ acc − p2` -/
theorem cmp_sub' {o o' : Bool} {acc Y p1 p2 : Rat} (h1 : cmp o Y acc) (h2 : cmp o' p2 p1) :
    cmp (o || o') (Y - p1) (acc - p2) := by
  cases o <;> cases o' <;> simp at * <;> linarith

/-- upper approximation, `a_i < 0`: the upper bound of `x_i` is read -/
theorem term_up_neg {a xi xv tx pr acc Y tb : Rat} {o oB i2 i3 i4 : Bool} (ha : a < 0)
    (hb : cmp oB xi xv) (htx : cmp i2 xv tx) (hpr : cmp i3 pr (a * tx)) (hacc : cmp o Y acc)
    (htb : cmp i4 (acc - pr) tb) :
    cmp ((o || (i3 || (oB || i2))) || i4) (Y - a * xi) tb :=
  cmp_trans (cmp_sub' hacc (cmp_trans hpr (cmp_mul_neg ha (cmp_trans hb htx)))) htb

/-- upper approximation, `a_i > 0`: the lower bound of `x_i` is read -/
theorem term_up_pos {a xi xv tx pr acc Y tb : Rat} {o oB i2 i3 i4 : Bool} (ha : 0 < a)
    (hb : cmp oB xv xi) (htx : cmp i2 tx xv) (hpr : cmp i3 pr (a * tx)) (hacc : cmp o Y acc)
    (htb : cmp i4 (acc - pr) tb) :
    cmp ((o || (i3 || (i2 || oB))) || i4) (Y - a * xi) tb :=
  cmp_trans (cmp_sub' hacc (cmp_trans hpr (cmp_mul_pos ha (cmp_trans htx hb)))) htb

/-! ## the inner loop -/

/-- what the box and the constraint give for every term -/
def TermsOK (cfg : Cfg) (seq : List Iv) (x : Nat → Rat) (ts : List (Nat × Int)) : Prop :=
  ∀ t ∈ ts, t.2 ≠ 0 ∧ ExactAt cfg.TR t.2 ∧ (seq.getD t.1 Iv.empty).mem cfg.p (x t.1)

theorem blockLoop_sound {cfg : Cfg} (hT : cfg.TR.Sound) {B : Block} {D : Dir} {pos : Bool} (hOK : B.OK D pos)
    {seq : List Iv} {k : Nat} {x : Nat → Rat} (ts : List (Nat × Int)) (hts : TermsOK cfg seq x ts)
    (acc acc' : Acc) (Y : Rat) (hacc : dcmp D (acc.opn || acc.inex) acc.v Y)
    (h : blockLoop cfg B seq k ts acc = some acc') :
    dcmp D (acc'.opn || acc'.inex) acc'.v (Y - restSum k ts x) := by
  induction ts generalizing acc Y with
  | nil =>
    simp only [blockLoop, Option.some.injEq] at h
    subst h
    simpa using hacc
  | cons t ts ih =>
    obtain ⟨i, a⟩ := t
    obtain ⟨ha0, hex, hI⟩ := hts (i, a) (by simp)
    have hts' : TermsOK cfg seq x ts := fun t ht => hts t (List.mem_cons_of_mem _ ht)
    by_cases hik : (i == k) = true
    · rw [blockLoop, if_pos hik] at h
      rw [restSum_cons_eq ts x hik]
      exact ih hts' acc Y hacc h
    · have hik' : (i == k) = false := by simpa using hik
      rw [restSum_cons_ne ts x hik']
      have hring : Y - ((a : Rat) * x i + restSum k ts x) = (Y - (a : Rat) * x i) - restSum k ts x := by ring
      rw [hring]
      rw [blockLoop, if_neg hik] at h
      obtain ⟨_, _, hNL, hNX, hPL, hPX, hSN, hSP, _, _⟩ := hOK
      have hI' : (seq.getD i Iv.empty).mem cfg.p (x i) := hI
      rcases lt_or_gt_of_ne (show (a : Rat) ≠ 0 by exact_mod_cast ha0) with hneg | hpos
      · have hn : a < 0 := by exact_mod_cast hneg
        cases D
        · simp only [hn, decide_true, if_true, hNL, hNX, hSN, tmpOp_exact hex] at h
          split at h
          · simp at h
          rename_i hinf
          simp only [Bool.not_eq_true] at hinf
          split at h
          · rename_i xv hxv
            split at h
            · simp at h
            rename_i tx i2 htx
            split at h
            · simp at h
            rename_i pr i3 hpr
            split at h
            · simp at h
            rename_i tb i4 htb
            refine ih hts' ⟨tb, _, _⟩ _ (dcmp_mono ?_ (term_down_neg hneg (read_lower hI' hinf hxv) (tmpOp_sound hT htx)
              (tmpOp_sound hT hpr) hacc (tmpOp_sound hT htb))) h
            simp only [Bool.or_eq_true, Bool.false_eq_true, or_false]; tauto
          · simp at h
        · simp only [hn, decide_true, if_true, hNL, hNX, hSN, tmpOp_exact hex, reduceCtorEq, decide_false,
            Bool.false_eq_true, if_false] at h
          split at h
          · simp at h
          rename_i hinf
          simp only [Bool.not_eq_true] at hinf
          split at h
          · rename_i xv hxv
            split at h
            · simp at h
            rename_i tx i2 htx
            split at h
            · simp at h
            rename_i pr i3 hpr
            split at h
            · simp at h
            rename_i tb i4 htb
            refine ih hts' ⟨tb, _, _⟩ _ (dcmp_mono ?_ (term_up_neg hneg (read_upper hI' hinf hxv) (tmpOp_sound hT htx)
              (tmpOp_sound hT hpr) hacc (tmpOp_sound hT htb))) h
            simp only [Bool.or_eq_true, Bool.false_eq_true, or_false]; tauto
          · simp at h
      · have hp : ¬ a < 0 := by
          have : (0 : Int) < a := by exact_mod_cast hpos
          omega
        cases D
        · simp only [hp, decide_false, Bool.false_eq_true, if_false, hPL, hPX, hSP, tmpOp_exact hex,
            reduceCtorEq] at h
          split at h
          · simp at h
          rename_i hinf
          simp only [Bool.not_eq_true] at hinf
          split at h
          · rename_i xv hxv
            split at h
            · simp at h
            rename_i tx i2 htx
            split at h
            · simp at h
            rename_i pr i3 hpr
            split at h
            · simp at h
            rename_i tb i4 htb
            refine ih hts' ⟨tb, _, _⟩ _ (dcmp_mono ?_ (term_down_pos hpos (read_upper hI' hinf hxv) (tmpOp_sound hT htx)
              (tmpOp_sound hT hpr) hacc (tmpOp_sound hT htb))) h
            simp only [Bool.or_eq_true, Bool.false_eq_true, or_false]; tauto
          · simp at h
        · simp only [hp, decide_false, Bool.false_eq_true, if_false, hPL, hPX, hSP, tmpOp_exact hex,
            decide_true, if_true] at h
          split at h
          · simp at h
          rename_i hinf
          simp only [Bool.not_eq_true] at hinf
          split at h
          · rename_i xv hxv
            split at h
            · simp at h
            rename_i tx i2 htx
            split at h
            · simp at h
            rename_i pr i3 hpr
            split at h
            · simp at h
            rename_i tb i4 htb
            refine ih hts' ⟨tb, _, _⟩ _ (dcmp_mono ?_ (term_up_pos hpos (read_lower hI' hinf hxv) (tmpOp_sound hT htx)
              (tmpOp_sound hT hpr) hacc (tmpOp_sound hT htb))) h
            simp only [Bool.or_eq_true, Bool.false_eq_true, or_false]; tauto
          · simp at h

/-! ## one block -/

theorem rel_lower {o opn : Bool} {tb xk : Rat} (h : cmp o tb xk) (ho : opn = true → o = true) :
    Rel.holds (if opn then Rel.gt else Rel.ge) xk tb := by
  cases opn
  · simpa [Rel.holds] using cmp_le h
  · have := cmp_mono (o' := true) (fun _ => ho rfl) h
    simpa [Rel.holds] using this

theorem rel_upper {o opn : Bool} {tb xk : Rat} (h : cmp o xk tb) (ho : opn = true → o = true) :
    Rel.holds (if opn then Rel.lt else Rel.le) xk tb := by
  cases opn
  · simpa [Rel.holds] using cmp_le h
  · have := cmp_mono (o' := true) (fun _ => ho rfl) h
    simpa [Rel.holds] using this

/-- a block that runs to its end computes a bound that the point `x` satisfies; `hY` is the
constraint read as `−n ⋈ a_k x_k + Σ_{i≠k} a_i x_i` on the side `D` -/
theorem runBlock_sound {cfg : Cfg} (hS : cfg.Sound) {B : Block} {D : Dir} {pos : Bool} (hOK : B.OK D pos)
    {seq : List Iv} {c : Con} {k : Nat} {ak : Int} {strict : Bool} {x : Nat → Rat} {I : Iv}
    (hak : if pos then 0 < ak else ak < 0) (hakex : ExactAt cfg.TR ak)
    (hts : TermsOK cfg seq x c.e.terms) (hk : (seq.getD k Iv.empty).mem cfg.p (x k))
    (hY : dcmp D strict (-(c.e.inhom : Rat)) ((ak : Rat) * x k + restSum k c.e.terms x))
    (h : runBlock cfg B seq c k ak strict = some I) : I.mem cfg.p (x k) := by
  have hT := hS.TR
  unfold runBlock at h
  split at h
  · simp at h
  rename_i t0 i0 h0
  split at h
  · simp at h
  rename_i t1 i1 h1
  split at h
  · simp at h
  rename_i acc hloop
  simp only [tmpOp_exact hakex] at h
  split at h
  · simp at h
  split at h
  · simp at h
  rename_i tb i3 hdiv
  simp only [Option.some.injEq] at h
  subst h
  apply addConstraintIv_sound hS.R hk
  have s0 := tmpOp_sound hT h0
  have s1 := tmpOp_sound hT h1
  have sd := tmpOp_sound hT hdiv
  obtain ⟨hInh, hNeg, _, _, _, _, _, _, hDiv, hRef⟩ := hOK
  rw [hInh] at s0
  rw [hNeg] at s1
  rw [hRef]
  -- the start of the loop
  have hinit : dcmp D (strict || (i0 || i1)) t1 ((ak : Rat) * x k + restSum k c.e.terms x) := by
    cases D
    · have a0 : cmp i0 (-t0) (-(c.e.inhom : Rat)) := cmp_neg.2 s0
      exact cmp_mono (by simp only [Bool.or_eq_true]; tauto) (cmp_trans s1 (cmp_trans a0 hY))
    · have a0 : cmp i0 (-(c.e.inhom : Rat)) (-t0) := cmp_neg.2 s0
      exact cmp_mono (by simp only [Bool.or_eq_true]; tauto) (cmp_trans (cmp_trans hY a0) s1)
  have hloop' := blockLoop_sound hT ⟨hInh, hNeg, ‹_›, ‹_›, ‹_›, ‹_›, ‹_›, ‹_›, hDiv, hRef⟩ c.e.terms hts
    ⟨t1, strict, i0 || i1⟩ acc _ hinit hloop
  have hring : (ak : Rat) * x k + restSum k c.e.terms x - restSum k c.e.terms x = (ak : Rat) * x k := by ring
  rw [hring] at hloop'
  have hflag : ∀ fpu : Bool, (acc.opn || (acc.inex || false || i3) && fpu) = true →
      ((acc.opn || acc.inex) || i3) = true := by
    intro fpu; cases acc.opn <;> cases acc.inex <;> cases i3 <;> cases fpu <;> simp
  cases D <;> cases pos <;> simp only [if_true, if_false, Bool.false_eq_true, decide_true, decide_false,
    reduceCtorEq] at hak hDiv
  · -- lower approximation, a_k < 0: upper bound of x_k
    have hakq : (ak : Rat) < 0 := by exact_mod_cast hak
    rw [hDiv] at sd ⊢
    simp only [reduceCtorEq, decide_false, Bool.false_eq_true, if_false]
    have hq : cmp (acc.opn || acc.inex) (x k) (acc.v / (ak : Rat)) := cmp_div_neg hakq hloop'
    exact rel_upper (cmp_trans hq sd) (hflag _)
  · -- lower approximation, a_k > 0: lower bound of x_k
    have hakq : (0 : Rat) < (ak : Rat) := by exact_mod_cast hak
    rw [hDiv] at sd ⊢
    simp only [decide_true, if_true]
    have hq : cmp (acc.opn || acc.inex) (acc.v / (ak : Rat)) (x k) := cmp_div_pos hakq hloop'
    refine rel_lower (cmp_trans sd hq) (fun h => ?_)
    have := hflag _ h
    simp only [Bool.or_eq_true] at this ⊢; tauto
  · -- upper approximation, a_k < 0: lower bound of x_k
    have hakq : (ak : Rat) < 0 := by exact_mod_cast hak
    rw [hDiv] at sd ⊢
    simp only [decide_true, if_true]
    have hq : cmp (acc.opn || acc.inex) (acc.v / (ak : Rat)) (x k) := cmp_div_neg' hakq hloop'
    refine rel_lower (cmp_trans sd hq) (fun h => ?_)
    have := hflag _ h
    simp only [Bool.or_eq_true] at this ⊢; tauto
  · -- upper approximation, a_k > 0: upper bound of x_k
    have hakq : (0 : Rat) < (ak : Rat) := by exact_mod_cast hak
    rw [hDiv] at sd ⊢
    simp only [reduceCtorEq, decide_false, Bool.false_eq_true, if_false]
    have hq : cmp (acc.opn || acc.inex) (x k) (acc.v / (ak : Rat)) := cmp_div_pos' hakq hloop'
    exact rel_upper (cmp_trans hq sd) (hflag _)

end PPLV.WR.BoxT
