import PPLV.WR.ReduceOctProofsPreserveBase
/-!
# Octagon reduction keeps every point, part 2 (stage (e)): inside a non-singular class every full-view cell
follows from the increasing chain and the closing cell (a 0-cycle); the odd partner class follows by coherence
-/
namespace PPLV.WR
open ExtRat (fin pinf addUp halfUp)

section ctx
variable {n : Nat} {c : OctM n} {succ : Nat → Nat} {nr : BMat} {p : Nat → Rat} (X : RCtx c succ nr p)
include X

/-- every class has a greatest element -/
theorem RCtx.class_top : ∀ d a, 2 * n - a ≤ d → a < 2 * n →
    ∃ z, a ≤ z ∧ z < 2 * n ∧ OZEq c.e z a ∧ succ z = z := by
  intro d
  induction d with
  | zero => intro a h1 h2; omega
  | succ d ih =>
    intro a h1 h2
    by_cases e : succ a = a
    · exact ⟨a, Nat.le_refl _, h2, OZEq.refl _ _, e⟩
    · have hge := X.hs.ge a
      have hlt := X.hs.lt a h2
      obtain ⟨z, z1, z2, z3, z4⟩ := ih (succ a) (by omega) hlt
      exact ⟨z, by omega, z2, OZEq.trans c X.hc z2 hlt h2 z3 (X.hs.zeq a), z4⟩

/-- along the increasing chain of a positive class: the cell `(b, a)` for `a ≤ b` -/
theorem RCtx.class_up {i : Nat} (hi : NSL (2 * n) c.e i) (hev : i % 2 = 0) :
    ∀ d a b, b - a ≤ d → a ≤ b → b < 2 * n → OZEq c.e a i → OZEq c.e b i → Ok c.e p b a := by
  intro d
  induction d with
  | zero =>
    intro a b h1 h2 _ _ _
    have : a = b := by omega
    subst this; exact Ok.self _ _ _
  | succ d ih =>
    intro a b h1 h2 hb haz hbz
    by_cases e : a = b
    · subst e; exact Ok.self _ _ _
    have ha : a < 2 * n := by omega
    have hba : OZEq c.e b a := OZEq.trans c X.hc hb hi.lt ha hbz haz.symm
    have hne : succ a ≠ a := fun e' => X.hs.self a b e' (by omega) hb hba
    have hge := X.hs.ge a
    have hlt := X.hs.lt a ha
    have hle : succ a ≤ b := by
      by_cases hh : b < succ a
      · exact absurd hba (X.hs.between a b (by omega) hh)
      · omega
    have hsz : OZEq c.e (succ a) i := OZEq.trans c X.hc hlt ha hi.lt (X.hs.zeq a) haz
    have h1' : Ok c.e p (succ a) a :=
      X.ok_of_kept hlt (by unfold rowSize; omega) hne (X.hk.chain i a hi hev ha haz hne)
    have h2' : Ok c.e p b (succ a) := ih (succ a) b (by omega) hle hb hsz hbz
    refine Ok.trans h2' h1' ?_
    rw [zeq_add_left X.hc hb hlt ha (OZEq.trans c X.hc hb hi.lt hlt hbz hsz.symm)]
    exact ExtRat.le_rfl' _

/-- stage (e) for a class with even least element -/
theorem RCtx.class_even {i : Nat} (hi : NSL (2 * n) c.e i) (hev : i % 2 = 0) {a b : Nat}
    (ha : a < 2 * n) (hb : b < 2 * n) (haz : OZEq c.e a i) (hbz : OZEq c.e b i) : Ok c.e p a b := by
  obtain ⟨z, z1, z2, z3, z4⟩ := X.class_top (2 * n - i) i (Nat.le_refl _) hi.lt
  have hle : ∀ t, t < 2 * n → OZEq c.e t i → i ≤ t ∧ t ≤ z := by
    intro t ht htz
    refine ⟨hi.least t ht htz, ?_⟩
    by_cases hh : z < t
    · exact absurd (OZEq.trans c X.hc ht hi.lt z2 htz z3.symm) (X.hs.self z t z4 hh ht)
    · omega
  obtain ⟨a1, a2⟩ := hle a ha haz
  obtain ⟨b1, b2⟩ := hle b hb hbz
  by_cases e : z = i
  · have : a = b := by omega
    subst this; exact Ok.self _ _ _
  · have hiz : Ok c.e p i z := by
      have hk := X.hk.close i z hi hev z2 z3 z4 e
      have s1 := cidx_spec i
      have s2 := cidx_spec z
      have hst : cidx i < rowSize (cidx z) := by unfold rowSize; omega
      exact Ok.twin X.hp (X.ok_of_kept (cidx_lt z2) hst (fun e' => e (cidx_inj e')) hk)
    have hai : Ok c.e p a i := X.class_up hi hev (a - i) i a (Nat.le_refl _) a1 ha (OZEq.refl _ _) haz
    have hzb : Ok c.e p z b := X.class_up hi hev (z - b) b z (Nat.le_refl _) b2 z2 hbz z3
    have haz' : Ok c.e p a z := by
      refine Ok.trans hai hiz ?_
      rw [zeq_add_left X.hc ha hi.lt z2 haz]; exact ExtRat.le_rfl' _
    refine Ok.trans haz' hzb ?_
    rw [zeq_add_left X.hc ha z2 hb (OZEq.trans c X.hc ha hi.lt z2 haz z3.symm)]; exact ExtRat.le_rfl' _

/-- stage (e): two members of a non-singular class -/
theorem RCtx.class_ok {i : Nat} (hi : NSL (2 * n) c.e i) {a b : Nat}
    (ha : a < 2 * n) (hb : b < 2 * n) (haz : OZEq c.e a i) (hbz : OZEq c.e b i) : Ok c.e p a b := by
  by_cases hev : i % 2 = 0
  · exact X.class_even hi hev ha hb haz hbz
  · have s1 := cidx_spec i
    exact Ok.twin X.hp (X.class_even (NSL.cidx hi) (by omega) (cidx_lt hb) (cidx_lt ha)
      (OZEq.cidx hbz) (OZEq.cidx haz))

end ctx

end PPLV.WR
