import PPLV.WR.ReduceProofsBase
import PPLV.WR.ReduceProofsUB
import Mathlib.Tactic.Linarith
/-!
# `Octagonal_Shape::upper_bound_assign_if_exact`: when the test answers `true` the join is the union

`x`, `y` strongly closed matrices, `xr`, `yr` the outputs of `non_redundant_matrix_entries` (`true` = kept), assumed
to denote the shapes (`hxp`, `hyp`: the conclusion of `oct_reduction_preserves`).  A point of the join outside both
shapes violates a kept stored cell `(i, j)` of `x` and a kept stored cell `(k, ℓ)` of `y`; with `P = oval p`
(`P (cidx t) = -P t`) each of the six sums the code compares (conditions 3–8 of the BHZ09 theorem) is bounded below
by the corresponding combination of the two violated differences, so all eight conditions hold and the test returns
`false` at `(i, j, k, ℓ)`.
-/
namespace PPLV.WR
open ExtRat (fin pinf)

namespace OctM
variable {n : Nat}

/-- `upper_bound_assign`: the pointwise maximum -/
def join (x y : OctM n) : OctM n where
  e := matMax x.e y.e
  diag := by
    intro i hi
    show ExtRat.maxA (x.e i i) (y.e i i) = pinf
    rw [x.diag i hi, y.diag i hi]; rfl

theorem join_apply (x y : OctM n) (i j : Nat) : (join x y).e i j = ExtRat.maxA (x.e i j) (y.e i j) := rfl

theorem γ_subset_join_left (x y : OctM n) : OctM.γ x ⊆ OctM.γ (join x y) :=
  fun p hp i j hi hj => ExtRat.le_trans' (hp i j hi hj) (by rw [join_apply]; exact ExtRat.le_maxA_left _ _)

theorem γ_subset_join_right (x y : OctM n) : OctM.γ y ⊆ OctM.γ (join x y) :=
  fun p hp i j hi hj => ExtRat.le_trans' (hp i j hi hj) (by rw [join_apply]; exact ExtRat.le_maxA_right _ _)

/-- a valuation outside a shape violates a kept stored cell of a reduction that denotes the shape -/
theorem exists_violated_kept (c : OctM n) (nr : BMat) (hpres : OctM.γ (c.reduced nr) = OctM.γ c)
    (p : ℕ → ℚ) (hp : p ∉ OctM.γ c) :
    ∃ i j, i < 2 * n ∧ j < rowSize i ∧ nr i j = true ∧ ∃ a : ℚ, c.e i j = fin a ∧ a < oval p j - oval p i := by
  rw [← hpres] at hp
  have hp' : ¬ (c.reduced nr).Sat p := hp
  unfold OctM.Sat at hp'
  push Not at hp'
  obtain ⟨i, j, hi, hj, hv⟩ := hp'
  have er : (c.reduced nr).e i j = if nr i j then c.e i j else pinf := rfl
  rw [er] at hv
  cases hk : nr i j with
  | false => rw [hk] at hv; simp at hv
  | true =>
    rw [hk] at hv
    simp only [if_true] at hv
    cases hq : c.e i j with
    | pinf => rw [hq] at hv; simp at hv
    | fin a =>
      rw [hq, ExtRat.fin_le_fin] at hv
      exact ⟨i, j, hi, hj, hk, a, hq, by linarith⟩

end OctM

private theorem cc (i : Nat) : cidx (cidx i) = i := by unfold cidx; split <;> split <;> omega

/-- the value the code reads for "`ub[a][b]` with a zero diagonal" -/
def ubRead (ub : Mat) (a b : Nat) : ExtRat :=
  if a = b then fin 0 else if b < rowSize a then ub a b else ub (cidx b) (cidx a)

theorem ubRead_ge {n : Nat} {ub : Mat} {P : Nat → Rat} (h : Holds (SO n) P ub) (hc : Coh P) {a b : Nat}
    (ha : a < 2 * n) (hb : b < 2 * n) : fin (P b - P a) ≤ ubRead ub a b := by
  unfold ubRead
  split
  · rename_i e; rw [e, sub_self]; exact ExtRat.le_rfl' _
  · exact holds_mAt h hc ha hb

theorem le_of_fin_le_two {A B : ExtRat} {u v s : Rat} (h1 : fin u ≤ A) (h2 : fin v ≤ B)
    (h : ExtRat.addUp upId A B ≤ fin s) : u + v ≤ s := by
  have := ExtRat.le_trans' (ExtRat.fin_le_addUp upId_sound h1 h2) h
  rwa [ExtRat.fin_le_fin] at this

theorem le_of_fin_le_three {A B C : ExtRat} {u v w s : Rat} (h1 : fin u ≤ A) (h2 : fin v ≤ B) (h3 : fin w ≤ C)
    (h : ExtRat.addUp upId (ExtRat.addUp upId A B) C ≤ fin s) : u + v + w ≤ s := by
  have := ExtRat.le_trans' (ExtRat.fin_le_addUp upId_sound (ExtRat.fin_le_addUp upId_sound h1 h2) h3) h
  rwa [ExtRat.fin_le_fin] at this

/-- **`Octagonal_Shape::upper_bound_assign_if_exact`, soundness of the answer `true`** (given that the two
reductions denote the operands) -/
theorem octUB_sound {n : Nat} (x y : OctM n) (xr yr : BMat)
    (hxp : OctM.γ (x.reduced xr) = OctM.γ x) (hyp : OctM.γ (y.reduced yr) = OctM.γ y)
    (ht : octUpperBoundIfExact upId n x.e y.e xr yr = true) :
    OctM.γ (OctM.join x y) = OctM.γ x ∪ OctM.γ y := by
  apply Set.Subset.antisymm
  · intro p hp
    by_contra hnot
    have hnx : p ∉ OctM.γ x := fun h => hnot (Or.inl h)
    have hny : p ∉ OctM.γ y := fun h => hnot (Or.inr h)
    obtain ⟨i, j, hi, hj, hkx, a, hxa, hva⟩ := OctM.exists_violated_kept x xr hxp p hnx
    obtain ⟨k, l, hk, hl, hky, b, hyb, hvb⟩ := OctM.exists_violated_kept y yr hyp p hny
    have hjn : j < 2 * n := lt_of_lt_of_le hj (rowSize_le hi)
    have hln : l < 2 * n := lt_of_lt_of_le hl (rowSize_le hk)
    have hH : Holds (SO n) (OctM.oval p) (matMax x.e y.e) := (OctM.sat_iff_holds (OctM.join x y) p).1 hp
    have hC := coh_oval p
    generalize hP : OctM.oval p = P at hva hvb hH hC
    -- the first two conditions
    have ub_ij := hH i j ⟨hi, hj⟩
    have ub_kl := hH k l ⟨hk, hl⟩
    have c1 : decide (y.e i j ≤ x.e i j) = false := by
      rw [decide_eq_false_iff_not, hxa]
      intro hle
      rcases ExtRat.maxA_cases (x.e i j) (y.e i j) with e | e
      · have : fin (P j - P i) ≤ x.e i j := by rw [← e]; exact ub_ij
        rw [hxa, ExtRat.fin_le_fin] at this; linarith
      · have : fin (P j - P i) ≤ y.e i j := by rw [← e]; exact ub_ij
        have := ExtRat.le_trans' this hle
        rw [ExtRat.fin_le_fin] at this; linarith
    have c2 : decide (x.e k l ≤ y.e k l) = false := by
      rw [decide_eq_false_iff_not, hyb]
      intro hle
      rcases ExtRat.maxA_cases (x.e k l) (y.e k l) with e | e
      · have : fin (P l - P k) ≤ x.e k l := by rw [← e]; exact ub_kl
        have := ExtRat.le_trans' this hle
        rw [ExtRat.fin_le_fin] at this; linarith
      · have : fin (P l - P k) ≤ y.e k l := by rw [← e]; exact ub_kl
        rw [hyb, ExtRat.fin_le_fin] at this; linarith
    unfold octUpperBoundIfExact at ht
    simp only [List.all_eq_true, List.mem_reverse, List.mem_range] at ht
    have t := ht i hi j hj
    rw [hkx, c1] at t
    simp only [Bool.not_true, Bool.false_or, List.all_eq_true, List.mem_reverse, List.mem_range] at t
    have t2 := t k hk l hl
    rw [hky, c2] at t2
    simp only [Bool.not_true, Bool.false_or, Bool.or_eq_true, decide_eq_true_eq, ExtRat.ltB, Bool.not_not] at t2
    -- the reads of the upper bound, each bounded below by the corresponding difference at the point
    have r_il := ubRead_ge hH hC hi hln
    have r_kj := ubRead_ge hH hC hk hjn
    have r_ick := ubRead_ge hH hC hi (cidx_lt hk)
    have r_cjl := ubRead_ge hH hC (cidx_lt hjn) hln
    have r_cjj := hH (cidx j) j ⟨cidx_lt hjn, lt_rowSize_cidx j⟩
    have r_ici := hH i (cidx i) ⟨hi, cidx_lt_rowSize i⟩
    have r_kck := hH k (cidx k) ⟨hk, cidx_lt_rowSize k⟩
    have r_cll := hH (cidx l) l ⟨cidx_lt hln, lt_rowSize_cidx l⟩
    unfold ubRead at r_il r_kj r_ick r_cjl
    rw [cc] at r_ick r_cjl
    rw [hC] at r_ick r_cjl r_cjj r_ici r_kck r_cll
    rw [hxa, hyb] at t2
    have e2 : ExtRat.addUp upId (fin a) (fin b) = fin (a + b) := rfl
    have e3a : ExtRat.addUp upId (fin (a + b)) (fin a) = fin (a + b + a) := rfl
    have e3b : ExtRat.addUp upId (fin (a + b)) (fin b) = fin (a + b + b) := rfl
    rw [e2, e3a, e3b] at t2
    rcases t2 with (h | h) | ((h | h) | (h | h))
    · have := le_of_fin_le_two r_il r_kj h; linarith
    · have := le_of_fin_le_two r_ick r_cjl h; linarith
    · have := le_of_fin_le_three r_il r_ick r_cjj h; linarith
    · have := le_of_fin_le_three r_kj r_cjl r_ici h; linarith
    · have := le_of_fin_le_three r_il r_cjl r_kck h; linarith
    · have := le_of_fin_le_three r_kj r_ick r_cll h; linarith
  · intro p hp
    rcases hp with hp | hp
    · exact OctM.γ_subset_join_left x y hp
    · exact OctM.γ_subset_join_right x y hp

end PPLV.WR
