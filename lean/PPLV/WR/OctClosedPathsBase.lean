import PPLV.WR.OctClosedBase
import Mathlib.Data.List.Nodup
/-!
# Two passes of weak octagonal steps close the matrix: walks, their weights, list splitting

`pw d i l j` is the weight in `d` of the walk `i → l[0] → … → l[last] → j`.  The invariants of the two passes
(`OctClosedPathsPass1`, `OctClosedPathsPass2`) have the form `PInv d0 Q d`: every entry `d i j` is below the weight in
the *initial* matrix `d0` of every walk `i → l → j` whose list of inner vertices satisfies `Q`.  One weak step
`octT h` extends the class `Q` by the lists that split at a pivot `2h` or `2h+1` into two lists of `Q` (`pinv_step`).
-/
namespace PPLV.WR
open ExtRat

/-- weight of the walk `i → l → j` -/
def pw (d : Mat) : Nat → List Nat → Nat → ExtRat
  | i, [], j => d i j
  | i, v :: l, j => eadd (d i v) (pw d v l j)

@[simp] theorem pw_nil (d : Mat) (i j : Nat) : pw d i [] j = d i j := rfl
@[simp] theorem pw_cons (d : Mat) (i v j : Nat) (l : List Nat) :
    pw d i (v :: l) j = eadd (d i v) (pw d v l j) := rfl

theorem pw_append (d : Mat) (i v j : Nat) (l1 l2 : List Nat) :
    pw d i (l1 ++ v :: l2) j = eadd (pw d i l1 v) (pw d v l2 j) := by
  induction l1 generalizing i with
  | nil => rfl
  | cons u l1 ih => simp only [List.cons_append, pw_cons, ih, eadd_assoc]

/-! ## the weak step -/

theorem octT_le (h : Nat) (d : Mat) (i j : Nat) : octT h d i j ≤ d i j := by
  rw [octT_apply]; exact minA_le_left _ _

theorem octT_le_pivot {h k : Nat} (hk : k = 2 * h ∨ k = 2 * h + 1) (d : Mat) (i j : Nat) :
    octT h d i j ≤ eadd (d i k) (d k j) := by
  rw [octT_apply]
  rcases hk with rfl | rfl
  · exact le_trans' (minA_le_right _ _) (minA_le_left _ _)
  · exact le_trans' (minA_le_right _ _) (minA_le_right _ _)

theorem octT_cases (h : Nat) (d : Mat) (i j : Nat) :
    octT h d i j = d i j ∨ ∃ k, (k = 2 * h ∨ k = 2 * h + 1) ∧ octT h d i j = eadd (d i k) (d k j) := by
  rw [octT_apply]
  rcases minA_cases (d i j) (minA (eadd (d i (2*h)) (d (2*h) j)) (eadd (d i (2*h+1)) (d (2*h+1) j))) with e | e
  · exact Or.inl e
  · right
    rw [e]
    rcases minA_cases (eadd (d i (2*h)) (d (2*h) j)) (eadd (d i (2*h+1)) (d (2*h+1) j)) with e' | e'
    · exact ⟨2 * h, Or.inl rfl, e'⟩
    · exact ⟨2 * h + 1, Or.inr rfl, e'⟩

/-! ## loops with a progress-indexed invariant -/

theorem octLoopUp_ind {α : Type} (I : Nat → α → Prop) (n : Nat) (f : Nat → α → α) (a : α)
    (h0 : I 0 a) (hs : ∀ t, t < n → ∀ s, I t s → I (t+1) (f t s)) : I n (loopUp n f a) := by
  induction n with
  | zero => exact h0
  | succ n ih =>
    simp only [loopUp]
    exact hs n (Nat.lt_succ_self n) _ (ih (fun t ht s => hs t (Nat.lt_succ_of_lt ht) s))

/-! ## the shape of the invariants -/

/-- every entry of `d` is below the weight in `d0` of every walk whose inner vertices satisfy `Q` -/
def PInv (d0 : Mat) (Q : List Nat → Prop) (d : Mat) : Prop :=
  ∀ i j l, Q l → d i j ≤ pw d0 i l j

theorem pinv_step {d0 d : Mat} {Q Q' : List Nat → Prop} {h : Nat} (hinv : PInv d0 Q d)
    (hstep : ∀ l, Q' l → Q l ∨ ∃ l1 k l2, l = l1 ++ k :: l2 ∧ (k = 2 * h ∨ k = 2 * h + 1) ∧ Q l1 ∧ Q l2) :
    PInv d0 Q' (octT h d) := by
  intro i j l hl
  rcases hstep l hl with hq | ⟨l1, k, l2, rfl, hk, h1, h2⟩
  · exact le_trans' (octT_le h d i j) (hinv i j l hq)
  · rw [pw_append]
    exact le_trans' (octT_le_pivot hk d i j) (eadd_mono (hinv i k l1 h1) (hinv k j l2 h2))

theorem PInv.mono {d0 d : Mat} {Q Q' : List Nat → Prop} (hinv : PInv d0 Q d) (h : ∀ l, Q' l → Q l) :
    PInv d0 Q' d := fun i j l hl => hinv i j l (h l hl)

/-! ## lists -/

/-- every pair `2g`, `2g+1` contained in `l` has index `g < h` -/
def PairsBelow (h : Nat) (l : List Nat) : Prop := ∀ g, 2 * g ∈ l → 2 * g + 1 ∈ l → g < h

/-- a duplicate-free list splits at any of its elements into two duplicate-free lists without it -/
theorem nodup_split {l : List Nat} {k : Nat} (hn : l.Nodup) (hk : k ∈ l) :
    ∃ l1 l2, l = l1 ++ k :: l2 ∧ l1.Nodup ∧ l2.Nodup ∧ k ∉ l1 ∧ k ∉ l2 := by
  obtain ⟨l1, l2, rfl⟩ := List.append_of_mem hk
  refine ⟨l1, l2, rfl, ?_⟩
  rw [List.nodup_append] at hn
  obtain ⟨h1, h2, h3⟩ := hn
  rw [List.nodup_cons] at h2
  refine ⟨h1, h2.2, fun hm => ?_, h2.1⟩
  exact h3 k hm k List.mem_cons_self rfl

/-- a list with a duplicate -/
theorem not_nodup_split {l : List Nat} (hn : ¬ l.Nodup) :
    ∃ l1 v l2 l3, l = l1 ++ v :: (l2 ++ v :: l3) := by
  induction l with
  | nil => exact absurd List.nodup_nil hn
  | cons u l ih =>
    by_cases hu : u ∈ l
    · obtain ⟨l2, l3, rfl⟩ := List.append_of_mem hu
      exact ⟨[], u, l2, l3, rfl⟩
    · have : ¬ l.Nodup := fun h => hn (List.nodup_cons.2 ⟨hu, h⟩)
      obtain ⟨l1, v, l2, l3, rfl⟩ := ih this
      exact ⟨u :: l1, v, l2, l3, rfl⟩

end PPLV.WR
