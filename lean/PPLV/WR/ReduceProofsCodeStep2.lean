import PPLV.WR.ReduceProofsCodeLeaders
/-!
# Reduction (BD shapes): Step 2 of `shortest_path_reduction_assign`
-/
namespace PPLV.WR
open ExtRat (fin pinf addUp)

/-- the loop nest of Step 2 for an arbitrary redundancy test `g` -/
def step2Gen (g : Nat → Nat → Bool) (L1 L2 : List Nat) (red : BMat) : BMat :=
  L1.foldl (fun red i =>
    L2.foldl (fun red j =>
      if red i j then
        let red := red.put i j false
        if g i j then red.put i j true else red
      else red) red) red

theorem bdsStep2_eq (up : Rat → ExtRat) (L : List Nat) (m : Mat) (red : BMat) :
    bdsStep2 up L m red
      = step2Gen (fun i j => L.any (fun k => decide (addUp up (m i k) (m k j) ≤ m i j))) L L red := rfl

theorem step2_cell (g : Nat → Nat → Bool) (i j : Nat) (red : BMat) (a b : Nat) :
    (if red i j then
        let red := red.put i j false
        if g i j then red.put i j true else red
      else red) a b = if a = i ∧ b = j then (red a b && g a b) else red a b := by
  by_cases hab : a = i ∧ b = j
  · obtain ⟨ha, hb⟩ := hab
    subst ha; subst hb
    rw [if_pos (And.intro rfl rfl)]
    by_cases hr : red a b = true
    · rw [if_pos hr]
      dsimp only
      by_cases hg : g a b = true
      · rw [if_pos hg, hr, hg]; simp only [BMat.put_apply, and_self, if_true, Bool.and_self]
      · rw [if_neg hg, hr]
        have hg' : g a b = false := by simpa using hg
        rw [hg']; simp only [BMat.put_apply, and_self, if_true, Bool.and_false]
    · rw [if_neg hr]
      have hr' : red a b = false := by simpa using hr
      rw [hr']; rfl
  · rw [if_neg hab]
    by_cases hr : red i j = true
    · rw [if_pos hr]
      dsimp only
      by_cases hg : g i j = true
      · rw [if_pos hg]; simp only [BMat.put_apply, if_neg hab]
      · rw [if_neg hg]; simp only [BMat.put_apply, if_neg hab]
    · rw [if_neg hr]

theorem step2_inner (g : Nat → Nat → Bool) (i : Nat) (L : List Nat) (red : BMat) (a b : Nat) :
    (L.foldl (fun red j =>
      if red i j then
        let red := red.put i j false
        if g i j then red.put i j true else red
      else red) red) a b = if a = i ∧ b ∈ L then (red a b && g a b) else red a b := by
  induction L generalizing red with
  | nil => simp
  | cons j L ih =>
    rw [List.foldl_cons, ih, step2_cell]
    by_cases hai : a = i
    · by_cases hbj : b = j
      · subst hai; subst hbj
        cases hr : red a b <;> cases hg : g a b <;> simp
      · simp [hai, hbj]
    · simp [hai]

theorem step2Gen_apply (g : Nat → Nat → Bool) (L1 L2 : List Nat) (red : BMat) (a b : Nat) :
    step2Gen g L1 L2 red a b = if a ∈ L1 ∧ b ∈ L2 then (red a b && g a b) else red a b := by
  unfold step2Gen
  induction L1 generalizing red with
  | nil => simp
  | cons i L1 ih =>
    rw [List.foldl_cons, ih, step2_inner]
    by_cases hai : a = i
    · by_cases hb : b ∈ L2
      · subst hai
        cases hr : red a b <;> cases hg : g a b <;> simp [hb]
      · simp [hb]
    · simp [hai]

/-- after Step 2 (exact arithmetic) a bit is cleared iff both indices are in the list and no list element
matches the entry -/
theorem bdsStep2_false_iff (L : List Nat) (m : Mat) (a b : Nat) :
    bdsStep2 upId L m (BMat.const true) a b = false
      ↔ a ∈ L ∧ b ∈ L ∧ ∀ k, k ∈ L → ¬ (eadd (m a k) (m k b) ≤ m a b) := by
  rw [bdsStep2_eq, step2Gen_apply]
  by_cases hab : a ∈ L ∧ b ∈ L
  · rw [if_pos hab]
    simp only [BMat.const_apply, Bool.true_and, List.any_eq_false, decide_eq_true_eq]
    constructor
    · intro h
      exact ⟨hab.1, hab.2, fun k hk => h k hk⟩
    · intro h k hk
      exact h.2.2 k hk
  · rw [if_neg hab]
    simp only [BMat.const_apply]
    constructor
    · intro h; cases h
    · intro h; exact absurd ⟨h.1, h.2.1⟩ hab

end PPLV.WR
