import PPLV.WR.Trans2LatProofsSem4
import PPLV.WR.ClosureProofsFW
/-!
# Exact arithmetic: `upper_bound_assign` computes the least bounded-difference shape,
`remove_higher_space_dimensions` the exact projection
-/
set_option linter.unusedVariables false
namespace PPLV.WR
open ExtRat

/-- the meaning of the shortest-path-closed flag in exact arithmetic: the shape has a point and the
matrix is the least one of its shape (off the diagonal) -/
def bdsLatCanon (n : Nat) (m : Mat) : Prop :=
  (∃ q, q ∈ γB n m) ∧
    ∀ d : Mat, γB n m ⊆ γB n d → ∀ i j, i ≤ n → j ≤ n → i ≠ j → m i j ≤ d i j

theorem latExactUp : Rnd.exact.up = upId := rfl

theorem latOfMat_e {n : Nat} {m : Mat} (hd : bdsLatDiag n m) (i j : Nat) (hi : i ≤ n) (hj : j ≤ n) :
    (DBM.ofMat n m).e i j = m i j := by
  show Mat.diagDown (n+1) pinf m i j = m i j
  rw [Mat.diagDown_apply]
  split
  · rename_i hc; obtain ⟨rfl, _⟩ := hc; rw [hd i hi]
  · rfl

theorem latOfMat_sat {n : Nat} {m : Mat} (hd : bdsLatDiag n m) (x : Nat → Rat) :
    (DBM.ofMat n m).Sat x ↔ x ∈ γB n m := by
  constructor
  · intro h a b hab
    have := h a b (by have := hab.1; omega) (by have := hab.2; omega)
    rw [latOfMat_e hd a b (by have := hab.1; omega) (by have := hab.2; omega)] at this
    exact this
  · intro h a b ha hb
    rw [latOfMat_e hd a b ha hb]
    exact h a b ⟨by omega, by omega⟩

/-- in exact arithmetic the closure leaves the canonical matrix -/
theorem bdsLatClose_canon {n : Nat} (hn : n ≠ 0) {m : Mat} (hd : bdsLatDiag n m) {m' : Mat} {c' : Bool}
    (h : bdsLatClose upId n false m = some (m', c')) : bdsLatCanon n m' := by
  unfold bdsLatClose at h
  simp only [Bool.false_eq_true, if_false, if_neg hn] at h
  unfold closeFirst at h
  simp only [Bool.false_eq_true, if_false] at h
  split at h
  · simp at h
  · rename_i hne
    have hne' : DBM.closureEmpty upId (DBM.ofMat n m) = false := by simpa using hne
    simp only [Option.map_some, Option.some.injEq, Prod.mk.injEq] at h
    obtain ⟨rfl, _⟩ := h
    have hsound : ∀ x, (DBM.ofMat n m).Sat x → x ∈ γB n (DBM.closure upId (DBM.ofMat n m)).e := by
      intro x hx
      exact (DBM.sat_iff_holds _ x).1 (DBM.closure_sat (up := upId) (fun _ => le_rfl' _) _ x hx)
    constructor
    · obtain ⟨x, hx⟩ := DBM.closure_nonempty (DBM.ofMat n m) hne'
      exact ⟨x, hsound x hx⟩
    · intro d hsub i j hi hj hij
      have ht := DBM.closure_tight (DBM.ofMat n m) hne' hi hj hij
      cases hv : d i j with
      | pinf => exact le_pinf _
      | fin u =>
        cases hw : (DBM.closure upId (DBM.ofMat n m)).e i j with
        | fin w =>
          obtain ⟨x, hx, hdiff⟩ := ht.1 w hw
          have := hsub (hsound x hx) i j ⟨by omega, by omega⟩
          rw [hv, hdiff] at this
          exact this
        | pinf =>
          obtain ⟨x, hx, hdiff⟩ := ht.2 hw (u + 1)
          have := hsub (hsound x hx) i j ⟨by omega, by omega⟩
          rw [hv, fin_le_fin] at this
          linarith

/-- the closed matrix denotes the same set (exact arithmetic, class invariant) -/
theorem bdsLatClose_gamma {n : Nat} {c : Bool} {m : Mat} (hd : bdsLatDiag n m) {m' : Mat} {c' : Bool}
    (h : bdsLatClose upId n c m = some (m', c')) : γB n m' = γB n m := by
  ext x
  constructor
  · exact fun hx => bdsLatClose_sub (up := upId) (fun _ => le_rfl' _) hd h hx
  · intro hx
    obtain ⟨m'', c'', e, hx'⟩ := bdsLatClose_sound (up := upId) (fun _ => le_rfl' _) n c m hx
    rw [h] at e
    simp only [Option.some.injEq, Prod.mk.injEq] at e
    rw [e.1]; exact hx'

theorem bdsLatCanon_le {n : Nat} {m d : Mat} (hc : bdsLatCanon n m) (hsub : γB n m ⊆ γB n d)
    (i j : Nat) (hi : i ≤ n) (hj : j ≤ n) : m i j ≤ d i j ∨ (i = j ∧ fin 0 ≤ d i j) := by
  by_cases hij : i = j
  · right
    obtain ⟨q, hq⟩ := hc.1
    have := hsub hq i j ⟨by omega, by omega⟩
    rw [hij] at this ⊢
    simpa using this
  · left; exact hc.2 d hsub i j hi hj hij

/-- `upper_bound_assign`, exact arithmetic: the result is below every shape that contains both
arguments.  A set closed flag must mean what it says (`bdsLatCanon`); with the flags clear there is no
hypothesis. -/
theorem bdsLatUpperBound_least (n : Nat) (c1 c2 : Bool) (m1 m2 : Mat) (hd1 : bdsLatDiag n m1)
    (hd2 : bdsLatDiag n m2) (hc1 : c1 = true → bdsLatCanon n m1) (hc2 : c2 = true → bdsLatCanon n m2) :
    ∃ r, bdsLatUpperBound Rnd.exact n c1 m1 c2 m2 = some r ∧ r.dim = n ∧
      ∀ d : Mat, γB n m1 ⊆ γB n d → γB n m2 ⊆ γB n d → γB n r.m ⊆ γB n d := by
  unfold bdsLatUpperBound
  rw [latExactUp]
  cases e2 : bdsLatClose upId n c2 m2 with
  | none => exact ⟨_, rfl, rfl, fun d h1 _ => h1⟩
  | some yc =>
    obtain ⟨y, cy⟩ := yc
    have gy := bdsLatClose_gamma hd2 e2
    cases e1 : bdsLatClose upId n c1 m1 with
    | none =>
      refine ⟨_, rfl, rfl, fun d _ h2 => ?_⟩
      show γB n y ⊆ γB n d
      rw [gy]; exact h2
    | some xc =>
      obtain ⟨x, cx⟩ := xc
      have gx := bdsLatClose_gamma hd1 e1
      refine ⟨_, rfl, rfl, fun d h1 h2 => ?_⟩
      show γB n (bdsLatUpperBoundLoop n x y) ⊆ γB n d
      by_cases hn : n = 0
      · subst hn
        intro p hp
        apply h1
        intro a b hab
        have ha : a = 0 := by have := hab.1; omega
        have hb : b = 0 := by have := hab.2; omega
        subst ha; subst hb
        rw [hd1 0 (le_refl _)]; exact le_pinf _
      · have canon : ∀ (c : Bool) (m m' : Mat) (c' : Bool), bdsLatDiag n m → (c = true → bdsLatCanon n m) →
            bdsLatClose upId n c m = some (m', c') → bdsLatCanon n m' := by
          intro c m m' c' hd hc h
          cases c with
          | true =>
            have : m' = m := by
              unfold bdsLatClose at h
              simp only [if_true, Option.some.injEq, Prod.mk.injEq] at h
              exact h.1.symm
            rw [this]; exact hc rfl
          | false => exact bdsLatClose_canon hn hd h
        have cx' := canon c1 m1 x cx hd1 hc1 e1
        have cy' := canon c2 m2 y cy hd2 hc2 e2
        intro p hp a b hab
        have ha : a ≤ n := by have := hab.1; omega
        have hb : b ≤ n := by have := hab.2; omega
        have hpab := hp a b hab
        rw [bdsLatUpperBoundLoop_apply, if_pos ⟨hab.1, hab.2⟩] at hpab
        rcases bdsLatCanon_le (d := d) cx' (by rw [gx]; exact h1) a b ha hb with hx1 | ⟨hab', h0⟩
        · rcases bdsLatCanon_le (d := d) cy' (by rw [gy]; exact h2) a b ha hb with hy1 | ⟨hab', h0⟩
          · exact le_trans' hpab (latMaxA_le hx1 hy1)
          · rw [hab'] at h0 ⊢; simpa using h0
        · rw [hab'] at h0 ⊢; simpa using h0

/-! ## `remove_higher_space_dimensions`: exact projection -/

/-- a point of the leading `(k+1) × (k+1)` block of a closed matrix extends to a point of the matrix -/
theorem latClosed_extend {n k : Nat} (hk : k ≤ n) {core : Mat} (hc : Closed (n + 1) core) {z : Nat → Rat}
    (hz : ∀ a b, a ≤ k → b ≤ k → a ≠ b → fin (DBM.val z b - DBM.val z a) ≤ core a b) :
    ∃ x : Nat → Rat, (∀ a b, a ≤ n → b ≤ n → fin (DBM.val x b - DBM.val x a) ≤ core a b) ∧
      ∀ i, i < k → x i = z i := by
  have hA : Among (List.range (k + 1)) (DBM.val z) core := by
    intro i hi j hj
    have hi' := List.mem_range.1 hi
    have hj' := List.mem_range.1 hj
    by_cases hij : i = j
    · subst hij; rw [hc.diag i (by omega)]; simp
    · exact hz i j (by omega) (by omega) hij
  obtain ⟨p, hp1, hp2⟩ := extend_all hc (List.range (k + 1)) (by
    intro i hi; have := List.mem_range.1 hi; omega) (DBM.val z) hA (n + 1) (le_refl _)
  have hH := holds_of_among hp2
  have hp0 : p 0 = 0 := by rw [hp1 0 (List.mem_range.2 (by omega))]; rfl
  refine ⟨fun i => p (i + 1), ?_, ?_⟩
  · have hv : ∀ a, DBM.val (fun i => p (i + 1)) a = p a := by
      intro a; cases a with
      | zero => simp [DBM.val, hp0]
      | succ a => rfl
    intro a b ha hb
    rw [hv, hv]
    exact hH a b ⟨by omega, by omega⟩
  · intro i hi
    show p (i + 1) = z i
    rw [hp1 (i + 1) (List.mem_range.2 (by omega))]; rfl

/-- `remove_higher_space_dimensions(newDim)`, exact arithmetic, closure run inside: every point of the
result is the restriction of a point of the shape; an empty result means an empty shape -/
theorem bdsLatRemoveHigher_exact (n : Nat) (m : Mat) (hd : bdsLatDiag n m) (newDim : Nat) (hnd : newDim < n) :
    match bdsLatRemoveHigher Rnd.exact n false m newDim with
    | none => γB n m = ∅
    | some r => r.dim = newDim ∧
        ∀ z, z ∈ γB newDim r.m → ∃ x, x ∈ γB n m ∧ ∀ i, i < newDim → x i = z i := by
  unfold bdsLatRemoveHigher
  rw [if_neg (by omega), latExactUp]
  cases e : bdsLatClose upId n false m with
  | none =>
    dsimp only
    ext x
    simp only [Set.mem_empty_iff_false, iff_false]
    exact bdsLatClose_none (up := upId) (fun _ => le_rfl' _) e x
  | some mc =>
    obtain ⟨m', c'⟩ := mc
    dsimp only
    refine ⟨rfl, ?_⟩
    intro z hz
    have hn : n ≠ 0 := by omega
    -- the closed core
    have e' := e
    unfold bdsLatClose at e'
    simp only [Bool.false_eq_true, if_false, if_neg hn] at e'
    unfold closeFirst at e'
    simp only [Bool.false_eq_true, if_false] at e'
    split at e'
    · simp at e'
    · rename_i hne
      have hne' : DBM.closureEmpty upId (DBM.ofMat n m) = false := by simpa using hne
      simp only [Option.map_some, Option.some.injEq, Prod.mk.injEq] at e'
      obtain ⟨rfl, _⟩ := e'
      have hcl := DBM.closure_core_closed (DBM.ofMat n m) hne'
      obtain ⟨x, hx1, hx2⟩ := latClosed_extend (Nat.le_of_lt hnd) hcl (z := z) (by
        intro a b ha hb hab
        have := hz a b ⟨by omega, by omega⟩
        rw [DBM.closure_offdiag _ hab] at this
        exact this)
      refine ⟨x, ?_, hx2⟩
      apply bdsLatClose_sub (up := upId) (fun _ => le_rfl' _) hd e
      intro a b hab
      by_cases hab' : a = b
      · subst hab'
        rw [(DBM.closure upId (DBM.ofMat n m)).diag a (by have := hab.1; omega)]; exact le_pinf _
      · rw [DBM.closure_offdiag _ hab']
        exact hx1 a b (by have := hab.1; omega) (by have := hab.2; omega)

end PPLV.WR
