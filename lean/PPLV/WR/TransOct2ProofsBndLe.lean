import PPLV.WR.TransOct2ProofsBndMono
/-!
# `generalized_affine_image(var, ≤, expr, den)` only lowers the unary cells of the other variables
-/
set_option linter.unusedVariables false
set_option linter.unusedSimpArgs false
set_option linter.unusedTactic false
namespace PPLV.WR
open ExtRat

theorem octUnaryEq_trans {v : Nat} {a b c : Mat} (h1 : OUnaryEq v a b) (h2 : OUnaryEq v b c) : OUnaryEq v a c := by
  intro u hu; rw [(h1 u hu).1, (h1 u hu).2]; exact h2 u hu

theorem octUnaryEq_addDbm' {v : Nat} (m : Mat) {i j : Nat} (k : ExtRat)
    (hij : i = 2 * v ∨ i = 2 * v + 1 ∨ j = 2 * v ∨ j = 2 * v + 1) : OUnaryEq v (addDbmConstraint m i j k) m := by
  intro u hu
  rw [addDbm_apply, addDbm_apply, if_neg (by omega), if_neg (by omega)]
  exact ⟨rfl, rfl⟩

theorem octUnaryEq_addDbmQ' {v : Nat} (R : Rnd) (m : Mat) {i j : Nat} (num dn : Int)
    (hij : i = 2 * v ∨ i = 2 * v + 1 ∨ j = 2 * v ∨ j = 2 * v + 1) : OUnaryEq v (addDbmConstraintQ R m i j num dn) m :=
  octUnaryEq_addDbm' m _ hij

theorem octUnaryEq_set {v : Nat} (m : Mat) {i j : Nat} (k : ExtRat)
    (hij : i = 2 * v ∨ i = 2 * v + 1 ∨ j = 2 * v ∨ j = 2 * v + 1) : OUnaryEq v (m.set i j k) m := by
  intro u hu
  simp only [Mat.set_apply]
  rw [if_neg (by omega), if_neg (by omega)]
  exact ⟨rfl, rfl⟩

/-- cells off the rows and columns of `var` are not touched by the one-sided translation -/
theorem octShiftP_frame (up : Rat → ExtRat) (n vid : Nat) (ord : Bool) (u0 u1 : ExtRat) (m : Mat) {a c : Nat}
    (ha0 : a ≠ 2 * vid) (ha1 : a ≠ 2 * vid + 1) (hc0 : c ≠ 2 * vid) (hc1 : c ≠ 2 * vid + 1) :
    octShiftP up n vid ord u0 u1 m a c = m a c := by
  unfold octShiftP
  cases ord <;> simp only [Bool.false_eq_true, ↓reduceIte, Mat.set_apply, transCols_apply, transRows_apply] <;>
    simp (disch := omega) only [if_neg, and_false, false_and, and_true, true_and]

theorem octGenTranslate_unaryEq (R : Rnd) (n vid : Nat) (isLe plus : Bool) (d : ExtRat) (m : Mat) :
    OUnaryEq vid (octGenTranslate R n vid isLe plus d m) m := by
  intro u hu
  cases plus
  · unfold octGenTranslate
    simp only [Bool.false_eq_true, ↓reduceIte]
    rw [octForgetBinary_apply, octForgetBinary_apply]
    cases isLe <;> simp only [Bool.false_eq_true, ↓reduceIte] <;>
      rw [if_neg (by omega), if_neg (by omega)] <;> simp only [Mat.set_apply] <;>
      rw [if_neg (by omega), if_neg (by omega), if_neg (by omega), if_neg (by omega)] <;> exact ⟨rfl, rfl⟩
  · rw [octGenTranslate_plus_eq]
    exact ⟨octShiftP_frame _ _ _ _ _ _ _ (by omega) (by omega) (by omega) (by omega),
      octShiftP_frame _ _ _ _ _ _ _ (by omega) (by omega) (by omega) (by omega)⟩

theorem octGenAffineImageGeneral_le_unaryEq (R : Rnd) (n vid wid : Nat) (e : Nat → Int) (b : Int) {den : Int}
    (hden : den ≠ 0) (m : Mat) :
    OUnaryEq vid (octGenAffineImageGeneral R n vid wid true e b den m).1 m := by
  unfold octGenAffineImageGeneral
  dsimp only
  simp only [↓reduceIte]
  generalize loopUp (wid + 1) (octAccStepG R m (scExpr e den) true) _ = st
  by_cases hcnt : st.cnt > 1
  · rw [if_pos hcnt]; exact ounaryEq_forgetAll n vid m
  · rw [if_neg hcnt]
    show OUnaryEq vid (octGenExploitUpper _ _ _ _ _ _ _ _ _) m
    rw [octGenExploitUpper_eq (octScTests (e := e) hden) (by omega)]
    intro u hu
    rw [octExploitUpper_frame _ _ _ _ _ _ _ _ _ (by omega) (by omega),
      octExploitUpper_frame _ _ _ _ _ _ _ _ _ (by omega) (by omega)]
    exact ounaryEq_forgetAll n vid m u hu

/-- `incremental_strong_closure_assign` only lowers the off-diagonal stored cells -/
theorem octIncClose_le {R : Rnd} (hR : R.Sound) {n vid : Nat} (hv : vid < n) {M m' : Mat}
    (h : octIncClose R n vid M = some m') {a c : Nat} (ha : a < 2 * n) (hc : c < rowSize a) (hac : a ≠ c) :
    m' a c ≤ M a c := by
  unfold octIncClose at h
  dsimp only at h
  split at h
  · exact absurd h (by simp)
  · injection h with h
    subst h
    have := OctM.incStrongClosure_le hR.up_le hv (OctM.ofMat n M) a c ha hc
    have e : (OctM.ofMat n M).e a c = M a c := by
      show Mat.diagUp (2 * n) pinf M a c = M a c
      rw [Mat.diagUp_apply, if_neg (by omega)]
    rw [e] at this
    exact this

theorem octGenAffineImageCoreF_le_unaryLe {R : Rnd} (hR : R.Sound) {n vid : Nat} (hv : vid < n) {e : Nat → Int}
    {b den : Int} (hden : den ≠ 0) {m : Mat} {mf : Mat × Bool}
    (h : octGenAffineImageCoreF R n vid true e b den m = some mf) : OctUnaryLe n vid mf.1 m := by
  unfold octGenAffineImageCoreF at h
  dsimp only at h
  simp only [↓reduceIte] at h
  split at h
  · injection h with h; subst h
    exact octUnaryLe_of_eq (octUnaryEq_trans (octUnaryEq_addDbmQ' R _ _ _ (by omega)) (ounaryEq_forgetAll n vid m))
  · split at h
    · split at h
      · injection h with h; subst h
        exact octUnaryLe_of_eq (octGenTranslate_unaryEq R n vid true _ _ m)
      · injection h with h; subst h
        refine octUnaryLe_of_eq (octUnaryEq_trans ?_ (ounaryEq_forgetAll n vid m))
        split_ifs <;> rw [octAddQF_fst] <;> exact octUnaryEq_addDbmQ' R _ _ _ (by omega)
    · have hg := octGenAffineImageGeneral_le_unaryEq R n vid (lastNonzero e n - 1) e b hden m
      generalize octGenAffineImageGeneral R n vid (lastNonzero e n - 1) true e b den m = g at h hg
      split at h
      · injection h with h; subst h
        exact octUnaryLe_of_eq hg
      · cases hc : octIncClose R n vid g.1 with
        | none => rw [hc] at h; simp at h
        | some m' =>
          rw [hc] at h
          simp only [Option.map_some] at h
          injection h with h; subst h
          intro u hun hu
          have h1 := octIncClose_le hR hv hc (a := 2 * u + 1) (c := 2 * u) (by omega) (by unfold rowSize; omega) (by omega)
          have h2 := octIncClose_le hR hv hc (a := 2 * u) (c := 2 * u + 1) (by omega) (by unfold rowSize; omega) (by omega)
          rw [(hg u hu).1] at h1
          rw [(hg u hu).2] at h2
          exact ⟨h1, h2⟩

theorem octGenAffineImageCore_le_unaryLe {R : Rnd} (hR : R.Sound) {n vid : Nat} (hv : vid < n) {e : Nat → Int}
    {b den : Int} (hden : den ≠ 0) {m m1 : Mat}
    (h : octGenAffineImageCore R n vid true e b den m = some m1) : OctUnaryLe n vid m1 m := by
  unfold octGenAffineImageCore at h
  cases hc : octGenAffineImageCoreF R n vid true e b den m with
  | none => rw [hc] at h; simp at h
  | some mf =>
    rw [hc] at h
    simp only [Option.map_some] at h
    injection h with h; subst h
    exact octGenAffineImageCoreF_le_unaryLe hR hv hden hc

end PPLV.WR
