import PPLV.WR.TransOct
import PPLV.WR.Trans2Lat
/-!
# Octagonal_Shape<T>: lattice-style and dimension-changing operations (executable model, no Mathlib)

Code-shaped models of (`/repo/src/Octagonal_Shape_templates.hh`, `Octagonal_Shape_inlines.hh`, current tree)

* `intersection_assign` (`:3795`), `upper_bound_assign` (`:3221`), `concatenate_assign` (`:1146`)
* `add_space_dimensions_and_embed` (`:3583`), `add_space_dimensions_and_project` (`:3607`)
* `remove_space_dimensions` (`:3637`), `remove_higher_space_dimensions` (`Octagonal_Shape_inlines.hh:556`)
* `map_space_dimensions` (`:3710`), `expand_space_dimension` (`:7472`), `fold_space_dimensions` (`:7540`)
* `difference_assign` (`:3252`): control flow over an abstract list of pieces (`octLatDifference`)
* `time_elapse_assign`: NOT modelled (round trip through `C_Polyhedron`).

Matrix conventions as in `Closure.lean`: index `2k` is `+x_k`, `2k+1` is `-x_k`, `matrix[i][j]` bounds
`V_j - V_i`, row `i` stores the cells `j < rowSize i`; a shape of dimension `n` reads the stored cells
of the rows `i < 2n` of its `Mat`.  Every function below reads and writes stored cells only (the code
uses row references, never `matrix_at`).

## ENTRY POINTS (all arguments are NOT marked empty; `none` = the receiver is marked empty afterwards)

```
octLatIntersection (R : Rnd) (n : Nat) (c1 : Bool) (m1 : Mat) (c2 : Bool) (m2 : Mat) : Option LatRes
octLatUpperBound   (R : Rnd) (n : Nat) (c1 : Bool) (m1 : Mat) (c2 : Bool) (m2 : Mat) : Option LatRes
octLatConcatenate  (R : Rnd) (n1 : Nat) (c1 : Bool) (m1 : Mat) (n2 : Nat) (c2 : Bool) (m2 : Mat) : Option LatRes
octLatEmbed        (R : Rnd) (n : Nat) (c : Bool) (m : Mat) (k : Nat) : Option LatRes
octLatProject      (R : Rnd) (n : Nat) (c : Bool) (m : Mat) (k : Nat) : Option LatRes
octLatRemoveDims   (R : Rnd) (n : Nat) (c : Bool) (m : Mat) (vars : List Nat) : Option LatRes   -- ascending ids < n
octLatRemoveHigher (R : Rnd) (n : Nat) (c : Bool) (m : Mat) (newDim : Nat) : Option LatRes      -- newDim ≤ n
octLatMapDims      (R : Rnd) (n : Nat) (c : Bool) (m : Mat) (pf : List (Option Nat)) : Option LatRes
octLatExpand       (R : Rnd) (n : Nat) (c : Bool) (m : Mat) (var k : Nat) : Option LatRes       -- var < n
octLatFold         (R : Rnd) (n : Nat) (c : Bool) (m : Mat) (vars : List Nat) (dest : Nat) : Option LatRes
octLatDifference   (R : Rnd) (n : Nat) (c1 : Bool) (m1 : Mat) (c2 : Bool) (m2 : Mat)
                   (yContainsX : Bool) (pieces : List (Option Mat)) : Option LatRes
```
`LatRes` (`dim`, `m`, `closed` = `marked_strongly_closed()` afterwards) is the structure of
`Trans2Lat.lean`; `c`, `c1`, `c2` are `marked_strongly_closed()` before the call; the first shape is the
receiver `*this`, the second one is `y`.

Quirks kept: `strong_closure_assign` returns before touching the flag on a 0-dimensional shape;
`set_zero_dim_univ()` clears the closed flag; `concatenate_assign` returns at once (flag untouched) when
`y` is 0-dimensional; `add_space_dimensions_and_project` ALWAYS ends with the closed flag reset (also on
a 0-dimensional receiver, unlike `BD_Shape`); `fold_space_dimensions` has no emptiness test after its
closure and does not reset the closed flag after its `max_assign`s; `difference_assign` closes `x` only
(not `y`).

`remove_space_dimensions` shifts cells in place through one linear element iterator that stays strictly
behind every cell it reads: every cell read is an original cell.  The model records, exactly as the
code selects them (`vars.count(i) == 0`), the old variable of every new variable (`octLatRemoveTable`);
the resulting matrix is `m[2·tbl(i/2) + i%2][2·tbl(j/2) + j%2]`.
-/
namespace PPLV.WR
open ExtRat (fin pinf minA addUp)

/-- `strong_closure_assign()` (`:2574`) with the flag: no-op when marked closed, no-op WITHOUT setting
the flag on a 0-dimensional shape; `none` = marked empty -/
def octLatClose (up : Rat → ExtRat) (n : Nat) (c : Bool) (m : Mat) : Option (Mat × Bool) :=
  if c then some (m, true)
  else if n = 0 then some (m, false)
  else (octCloseFirst up false (OctM.ofMat n m)).map fun m' => (m', true)

/-- `OR_Matrix::grow` from `oldRows` rows: the new rows are `+∞` -/
def octLatGrow (oldRows : Nat) (m : Mat) : Mat :=
  { f := fun i j => if i < oldRows then m i j else pinf }

/-- `max_assign(m[a][b], m[c][d])` -/
def latMaxAt (m : Mat) (a b c d : Nat) : Mat := m.set a b (latMaxA (m a b) (m c d))

/-! ## `intersection_assign`, `upper_bound_assign` -/

/-- the element loop of `intersection_assign` (`:3818-3829`), row-major over the stored cells -/
def octLatIntersectionLoop (n : Nat) (m1 m2 : Mat) : Mat × Bool :=
  loopUp (2 * n) (fun i st =>
    loopUp (rowSize i) (fun j st =>
      -- `if (y_elem < elem) { elem = y_elem; changed = true; }`
      if st.1 i j ≤ m2 i j then st else (st.1.set i j (m2 i j), true)) st) (m1, false)

/-- `intersection_assign(y)` (`:3795`) -/
def octLatIntersection (_R : Rnd) (n : Nat) (c1 : Bool) (m1 : Mat) (_c2 : Bool) (m2 : Mat) : Option LatRes :=
  if n = 0 then some ⟨n, m1, c1⟩
  else
    let st := octLatIntersectionLoop n m1 m2
    some ⟨n, st.1, if st.2 && c1 then false else c1⟩

/-- the element loop of `upper_bound_assign` (`:3239-3244`) -/
def octLatUpperBoundLoop (n : Nat) (x y : Mat) : Mat :=
  loopUp (2 * n) (fun i m =>
    loopUp (rowSize i) (fun j m => m.set i j (latMaxA (m i j) (y i j))) m) x

/-- `upper_bound_assign(y)` (`:3221`) -/
def octLatUpperBound (R : Rnd) (n : Nat) (c1 : Bool) (m1 : Mat) (c2 : Bool) (m2 : Mat) : Option LatRes :=
  match octLatClose R.up n c2 m2 with
  | none => some ⟨n, m1, c1⟩
  | some (y, cy) =>
    match octLatClose R.up n c1 m1 with
    | none => some ⟨n, y, cy⟩
    | some (x, cx) => some ⟨n, octLatUpperBoundLoop n x y, cx⟩

/-! ## `add_space_dimensions_and_embed`, `add_space_dimensions_and_project`, `concatenate_assign` -/

/-- `add_space_dimensions_and_embed(k)` (`:3583`) -/
def octLatEmbed (_R : Rnd) (n : Nat) (c : Bool) (m : Mat) (k : Nat) : Option LatRes :=
  if k = 0 then some ⟨n, m, c⟩
  else some ⟨n + k, octLatGrow (2 * n) m, if n = 0 then true else c⟩

/-- `add_space_dimensions_and_project(k)` (`:3607`) -/
def octLatProject (R : Rnd) (n : Nat) (c : Bool) (m : Mat) (k : Nat) : Option LatRes :=
  if k = 0 then some ⟨n, m, c⟩
  else
    match octLatEmbed R n c m k with
    | none => none
    | some r =>
      -- `for (i = row_begin() + n; i != row_end(); i += 2) { x_i[ind + 1] = 0; x_ci[ind] = 0; }`
      let m := loopUp k (fun t m =>
        let ind := 2 * n + 2 * t
        (m.set ind (ind + 1) (fin 0)).set (ind + 1) ind (fin 0)) r.m
      -- `if (marked_strongly_closed()) reset_strongly_closed();`
      some ⟨n + k, m, false⟩

/-- the copy loop of `concatenate_assign` (`:1180-1189`): `y_it` walks all stored cells of `y` -/
def octLatConcatLoop (n1 n2 : Nat) (m y : Mat) : Mat :=
  let old_num_rows := 2 * n1
  loopUp (2 * n2) (fun t m =>
    let i := old_num_rows + t
    -- `for (j = old_num_rows; j < rs_i; ++j, ++y_it) r[j] = *y_it;`
    loopUp (rowSize i - old_num_rows) (fun s m => m.set i (old_num_rows + s) (y t s)) m) m

/-- `concatenate_assign(y)` (`:1146`), neither shape marked empty -/
def octLatConcatenate (R : Rnd) (n1 : Nat) (c1 : Bool) (m1 : Mat) (n2 : Nat) (_c2 : Bool) (m2 : Mat) :
    Option LatRes :=
  if n2 = 0 then some ⟨n1, m1, c1⟩
  else
    match octLatEmbed R n1 c1 m1 n2 with
    | none => none
    | some r => some ⟨n1 + n2, octLatConcatLoop n1 n2 r.m m2, false⟩

/-! ## `remove_space_dimensions`, `remove_higher_space_dimensions` -/

/-- old variable id of every variable of the result (`:3675-3700`): the variables below
`first = *vars.begin()` stay, then every `i` in `first+1 .. space_dim-1` with `vars.count(i) == 0` -/
def octLatRemoveTable (n : Nat) : List Nat → List Nat
  | [] => List.range n
  | first :: rest =>
    List.range first ++
      (List.range' (first + 1) (n - (first + 1))).filter fun i => !(first :: rest).contains i

/-- the matrix `m[2·tbl(i/2) + i%2][2·tbl(j/2) + j%2]` -/
def octLatReindex (tbl : List Nat) (m : Mat) : Mat :=
  { f := fun i j => m (2 * tbl.getD (i / 2) 0 + i % 2) (2 * tbl.getD (j / 2) 0 + j % 2) }

/-- `remove_space_dimensions(vars)` (`:3637`) -/
def octLatRemoveDims (R : Rnd) (n : Nat) (c : Bool) (m : Mat) (vars : List Nat) : Option LatRes :=
  if vars.isEmpty then some ⟨n, m, c⟩
  else
    let new_space_dim := n - vars.length
    match octLatClose R.up n c m with
    | none => none
    | some (m', c') =>
      if new_space_dim = 0 then some ⟨0, m', false⟩
      else some ⟨new_space_dim, octLatReindex (octLatRemoveTable n vars) m', c'⟩

/-- `remove_higher_space_dimensions(new_dimension)` (`Octagonal_Shape_inlines.hh:556`) -/
def octLatRemoveHigher (R : Rnd) (n : Nat) (c : Bool) (m : Mat) (newDim : Nat) : Option LatRes :=
  if newDim = n then some ⟨n, m, c⟩
  else
    match octLatClose R.up n c m with
    | none => none
    | some (m', c') => some ⟨newDim, m', if newDim = 0 then false else c'⟩

/-! ## `map_space_dimensions` -/

/-- the loop nest of `map_space_dimensions` (`:3741-3788`) filling the fresh matrix `x` -/
def octLatMapLoops (n : Nat) (pf : List (Option Nat)) (mat : Mat) (x : Mat) : Mat :=
  loopUp n (fun i x =>
    match latMaps pf i with
    | some new_i =>
      let dni := 2 * new_i
      loopUp (i + 1) (fun j x =>
        match latMaps pf j with
        | some new_j =>
          let dj := 2 * j
          let dnj := 2 * new_j
          if new_i ≥ new_j then
            let x := x.set dni dnj (mat (2 * i) dj)
            let x := x.set (dni + 1) dnj (mat (2 * i + 1) dj)
            let x := x.set (dni + 1) (dnj + 1) (mat (2 * i + 1) (dj + 1))
            x.set dni (dnj + 1) (mat (2 * i) (dj + 1))
          else
            let x := x.set (dnj + 1) (dni + 1) (mat (2 * i) dj)
            let x := x.set (dnj + 1) dni (mat (2 * i + 1) dj)
            let x := x.set dnj (dni + 1) (mat (2 * i) (dj + 1))
            x.set dnj dni (mat (2 * i + 1) (dj + 1))
        | none => x) x
    | none => x) x

/-- `map_space_dimensions(pfunc)` (`:3710`) -/
def octLatMapDims (R : Rnd) (n : Nat) (c : Bool) (m : Mat) (pf : List (Option Nat)) : Option LatRes :=
  if n = 0 then some ⟨n, m, c⟩
  else if latEmptyCodomain pf n then octLatRemoveHigher R n c m 0
  else
    let new_space_dim := latMaxInCodomain pf n + 1
    let st := if new_space_dim < n then octLatClose R.up n c m else some (m, c)
    match st with
    | none => none
    | some (m', c') =>
      let x : Mat := { f := fun _ _ => pinf }
      some ⟨new_space_dim, octLatMapLoops n pf m' x, c'⟩

/-! ## `expand_space_dimension`, `fold_space_dimensions` -/

/-- the loop nest of `expand_space_dimension` (`:7518-7535`) -/
def octLatExpandLoop (n var k : Nat) (m : Mat) : Mat :=
  let old_num_rows := 2 * n
  let n_var := 2 * var
  loopUp k (fun t m =>
    let i := old_num_rows + 2 * t
    let ci := i + 1
    let m := m.set i ci (m n_var (n_var + 1))
    let m := m.set ci i (m (n_var + 1) n_var)
    let m := loopUp n_var (fun j m =>
      let m := m.set i j (m n_var j)
      m.set ci j (m (n_var + 1) j)) m
    loopUp (old_num_rows - (n_var + 2)) (fun s m =>
      let j := n_var + 2 + s
      let cj := cidx j
      let m := m.set i j (m cj (n_var + 1))
      m.set ci j (m cj n_var)) m) m

/-- `expand_space_dimension(var, k)` (`:7472`) -/
def octLatExpand (R : Rnd) (n : Nat) (c : Bool) (m : Mat) (var k : Nat) : Option LatRes :=
  if k = 0 then some ⟨n, m, c⟩
  else
    match octLatEmbed R n c m k with
    | none => none
    | some r => some ⟨n + k, octLatExpandLoop n var k r.m, false⟩

/-- the body of the outer loop of `fold_space_dimensions` (`:7581-7627`) for one variable `tbf_id` -/
def octLatFoldOne (n dest tbf_id : Nat) (m : Mat) : Mat :=
  let n_rows := 2 * n
  let n_dest := 2 * dest
  let tbf_var := 2 * tbf_id
  let m := latMaxAt m n_dest (n_dest + 1) tbf_var (tbf_var + 1)
  let m := latMaxAt m (n_dest + 1) n_dest (tbf_var + 1) tbf_var
  let min_id := min n_dest tbf_var
  let max_id := max n_dest tbf_var
  let m := loopUp min_id (fun j m =>
    let cj := cidx j
    let m := latMaxAt m n_dest j tbf_var j
    let m := latMaxAt m (n_dest + 1) j (tbf_var + 1) j
    let m := latMaxAt m (n_dest + 1) cj (tbf_var + 1) cj
    latMaxAt m n_dest cj tbf_var cj) m
  let m := loopUp (max_id - (min_id + 2)) (fun s m =>
    let j := min_id + 2 + s
    let cj := cidx j
    if n_dest = min_id then
      let m := latMaxAt m cj (n_dest + 1) tbf_var j
      let m := latMaxAt m cj n_dest (tbf_var + 1) j
      let m := latMaxAt m j n_dest (tbf_var + 1) cj
      latMaxAt m j (n_dest + 1) tbf_var cj
    else
      let m := latMaxAt m n_dest j cj (tbf_var + 1)
      let m := latMaxAt m (n_dest + 1) j cj tbf_var
      let m := latMaxAt m (n_dest + 1) cj j tbf_var
      latMaxAt m n_dest cj j (tbf_var + 1)) m
  loopUp (n_rows - (max_id + 2)) (fun s m =>
    let j := max_id + 2 + s
    let cj := cidx j
    let m := latMaxAt m cj (n_dest + 1) cj (tbf_var + 1)
    let m := latMaxAt m cj n_dest cj tbf_var
    let m := latMaxAt m j n_dest j tbf_var
    latMaxAt m j (n_dest + 1) j (tbf_var + 1)) m

/-- `fold_space_dimensions(vars, dest)` (`:7540`): no emptiness test after the closure (an empty shape
stays marked empty through `remove_space_dimensions`), the closed flag is NOT reset -/
def octLatFold (R : Rnd) (n : Nat) (c : Bool) (m : Mat) (vars : List Nat) (dest : Nat) : Option LatRes :=
  if vars.isEmpty then some ⟨n, m, c⟩
  else
    match octLatClose R.up n c m with
    | none => none
    | some (m', c') =>
      octLatRemoveDims R n c' (vars.foldl (fun m tbf => octLatFoldOne n dest tbf m) m') vars

/-! ## `difference_assign`

As `bdsLatDifference` (`Trans2Lat.lean`), with the differences of the octagon code (`:3252`): only `x` is
closed (`y` is just tested for the empty mark, which the harness never passes), the 0-dimensional test
follows.  `yContainsX` is `y.contains(x)`; `pieces` lists, in the order of the code, for every
non-skipped constraint the matrix of each piece after `z.is_empty()` strongly closed it (`none` = the
piece was found empty). -/

def octLatDiffJoin (R : Rnd) (n : Nat) (acc : Option LatRes) (z : Mat) : Option LatRes :=
  match acc with
  | none => some ⟨n, z, true⟩
  | some a => octLatUpperBound R n a.closed a.m true z

def octLatDifference (R : Rnd) (n : Nat) (c1 : Bool) (m1 : Mat) (_c2 : Bool) (_m2 : Mat)
    (yContainsX : Bool) (pieces : List (Option Mat)) : Option LatRes :=
  match octLatClose R.up n c1 m1 with
  | none => none
  | some _ =>
    if n = 0 then none
    else if yContainsX then none
    else
      pieces.foldl (fun acc z => match z with | none => acc | some z => octLatDiffJoin R n acc z) none

end PPLV.WR
