import PPLV.WR.TransOctProofsBase
import PPLV.WR.TransProofsGenSpecial
import Mathlib.Tactic.Linarith
import Mathlib.Tactic.FieldSimp
import Mathlib.Tactic.Ring
import Mathlib.Tactic.NormNum
/-!
# `Octagonal_Shape<T>::affine_image`: the branches `expr == b` and `expr == ±den * w + b`, `w ≠ var`

Soundness of the branches `t = 0` and `t = 1 ∧ w_id ≠ vid ∧ w_coeff = ±den` of `octAffineImageCore`.
-/
set_option linter.unusedVariables false
set_option linter.unusedSimpArgs false
namespace PPLV.WR
open ExtRat

/-- one `add_octagonal_constraint(i, j, numer, denom)` whose rational bound is satisfied by the point -/
theorem holds_addDbmQ {R : Rnd} (hR : R.Sound) {S : Nat → Nat → Prop} {p : Nat → Rat} {m : Mat} {i j : Nat}
    {num dn : Int} (h : Holds S p m) (hk : p j - p i ≤ (num : Rat) / (dn : Rat)) :
    Holds S p (addDbmConstraintQ R m i j num dn) := by
  unfold addDbmConstraintQ
  exact holds_addDbm h (fun _ => fin_le_divRoundUp hR hk)

theorem two_mul_div (b den : Int) : ((2 * b : Int) : Rat) / (den : Rat) = 2 * ((b : Rat) / den) := by
  push_cast; ring

theorem two_mul_div_neg (b den : Int) :
    ((2 * b : Int) : Rat) / ((- den : Int) : Rat) = - (2 * ((b : Rat) / den)) := by
  push_cast; rw [div_neg]; ring

theorem octAffineImageCore_special_sound {R : Rnd} (hR : R.Sound) {n vid : Nat} (hv : vid < n)
    {e : Nat → Int} {b den : Int} (hden : den ≠ 0) {m : Mat} {x : Nat → Rat} (hx : x ∈ γO n m)
    (hsp : exprT e (lastNonzero e n) = 0 ∨
      (exprT e (lastNonzero e n) = 1 ∧ lastNonzero e n - 1 ≠ vid ∧
        (e (lastNonzero e n - 1) = den ∨ e (lastNonzero e n - 1) = - den))) :
    ∃ m', octAffineImageCore R n vid e b den m = some m' ∧
      upd x vid ((linEval e x n + b) / den) ∈ γO n m' := by
  have hx' : Holds (SO n) (OctM.oval x) m := hx
  have hF := holds_octForgetAll hv hx' ((linEval e x n + b) / den)
  have ov0 : ∀ t : Rat, OctM.oval (upd x vid t) (2 * vid) = t := by
    intro t; rw [oval_upd, if_pos rfl]
  have ov1 : ∀ t : Rat, OctM.oval (upd x vid t) (2 * vid + 1) = - t := by
    intro t; rw [oval_upd, if_neg (by omega), if_pos rfl]
  unfold octAffineImageCore
  simp only []
  rcases hsp with h0 | ⟨h1, hwv, ha⟩
  · -- `expr == b`
    rw [if_pos h0]
    refine ⟨_, rfl, ?_⟩
    show Holds (SO n) (OctM.oval (upd x vid ((linEval e x n + b) / den))) _
    rw [linEval_t0 x h0, zero_add] at hF ⊢
    refine holds_addDbmQ hR (holds_addDbmQ hR hF ?_) ?_
    · rw [ov0, ov1, two_mul_div]; linarith
    · rw [ov0, ov1, two_mul_div_neg]; linarith
  · obtain ⟨hw0, hE⟩ := linEval_t1 x h1
    have hwn := lastNonzero_le e n
    rw [if_neg (by omega), if_pos ⟨h1, ha⟩, if_neg hwv]
    rw [hE] at hF ⊢
    generalize lastNonzero e n = w at *
    obtain ⟨k, rfl⟩ : ∃ k, w = k + 1 := ⟨w - 1, by omega⟩
    simp only [Nat.add_sub_cancel] at *
    have ovk0 : ∀ t : Rat, OctM.oval (upd x vid t) (2 * k) = x k := by
      intro t; rw [oval_upd_ne x t (by omega) (by omega), oval_even]
    have ovk1 : ∀ t : Rat, OctM.oval (upd x vid t) (2 * k + 1) = - x k := by
      intro t; rw [oval_upd_ne x t (by omega) (by omega), oval_odd]
    have hfin : ∀ M : Mat, Holds (SO n) (OctM.oval (upd x vid (((e k : Rat) * x k + b) / den))) M →
        ∃ m', octIncClose R n vid M = some m' ∧ upd x vid (((e k : Rat) * x k + b) / den) ∈ γO n m' :=
      fun M hM => octIncClose_sound hR hv hM
    apply hfin
    by_cases ha1 : e k = den
    · rw [if_pos ha1]
      rw [special_val_pos hden ha1] at hF ⊢
      split
      · refine holds_addDbmQ hR (holds_addDbmQ hR hF ?_) ?_
        · rw [ov0, ovk0]; linarith
        · rw [ov1, ovk1, div_negden]; linarith
      · refine holds_addDbmQ hR (holds_addDbmQ hR hF ?_) ?_
        · rw [ov1, ovk1]; linarith
        · rw [ov0, ovk0, div_negden]; linarith
    · rw [if_neg ha1]
      rw [special_val_neg hden (ha.resolve_left ha1)] at hF ⊢
      split
      · refine holds_addDbmQ hR (holds_addDbmQ hR hF ?_) ?_
        · rw [ov0, ovk1]; linarith
        · rw [ov1, ovk0, div_negden]; linarith
      · refine holds_addDbmQ hR (holds_addDbmQ hR hF ?_) ?_
        · rw [ov1, ovk0]; linarith
        · rw [ov0, ovk1, div_negden]; linarith

end PPLV.WR
