import PPLV.WR.ReduceProofsUBCompleteOctPairs
import PPLV.WR.ReduceProofsUBCompleteOctTight
/-!
# `Octagonal_Shape::upper_bound_assign_if_exact`: when the test answers `false` the union is not an octagon

`x`, `y` strongly closed matrices over `ℚ`, arbitrary bit matrices.  The answer `false` exhibits `(i, j, k, ℓ)`
with the eight strict conditions (`octUB_false_tuple`).  With `V` the full view of the join (strongly closed:
`OctM.join_isStronglyClosed`) these give, for a small margin `ε`, the lower bounds `OctFacts` with
`a' = x_ij + ε`, `b' = y_kℓ + ε` (the two bounds on the unary entries, `2a' ≤ V_{i,ci} + V_{cj,j}` and
`2b' ≤ V_{k,ck} + V_{cℓ,ℓ}`, come from strong coherence of `y` resp. `x` and the first two conditions).  Then `V`
tightened by `P_j - P_i ≥ a'`, `P_ℓ - P_k ≥ b'` and the coherent twins is closed (`oct_two_pairs`), a potential of it
is symmetrised into a point of the join (`OctM.point_of_potential_below`) that violates cell `(i, j)` of `x` and
cell `(k, ℓ)` of `y` (`octUB_witness`); the union is not an octagon (`octUB_complete`).
-/
namespace PPLV.WR
open ExtRat (fin pinf addUp halfUp)

/-- strict form of strong coherence: an entry strictly above `a` forces the two unary entries above `2a` -/
theorem strict_coh {Y A B A' B' : ExtRat} {a : Rat} (h : ¬ (Y ≤ fin a)) (hc : Y ≤ halfUp fin (eadd A B))
    (hA : A ≤ A') (hB : B ≤ B') : ¬ (eadd A' B' ≤ fin (2 * a)) := by
  cases Y <;> cases A <;> cases B <;> cases A' <;> cases B' <;> simp_all [eadd, addUp, halfUp]
  linarith

theorem ExtRat.fin_of_not_le {a b : ExtRat} (h : ¬ (b ≤ a)) : ∃ q, a = fin q := by
  cases a with
  | fin q => exact ⟨q, rfl⟩
  | pinf => exact absurd (ExtRat.le_pinf b) h

/-- a common margin below ten positive gaps, with the multiplicities that are needed -/
theorem exists_margin {g1 g2 g3 g4 g5 g6 g7 g8 g9 g10 : Rat} (h1 : 0 < g1) (h2 : 0 < g2) (h3 : 0 < g3)
    (h4 : 0 < g4) (h5 : 0 < g5) (h6 : 0 < g6) (h7 : 0 < g7) (h8 : 0 < g8) (h9 : 0 < g9) (h10 : 0 < g10) :
    ∃ ε : Rat, 0 < ε ∧ 3 * ε ≤ g1 ∧ 3 * ε ≤ g2 ∧ 3 * ε ≤ g3 ∧ 3 * ε ≤ g4 ∧ 3 * ε ≤ g5 ∧ 3 * ε ≤ g6 ∧
      3 * ε ≤ g7 ∧ 3 * ε ≤ g8 ∧ 3 * ε ≤ g9 ∧ 3 * ε ≤ g10 := by
  have hm : ∀ {u v : Rat}, 0 < u → 0 < v → ∃ m, 0 < m ∧ m ≤ u ∧ m ≤ v :=
    fun {u v} hu hv => ⟨min u v, lt_min hu hv, min_le_left _ _, min_le_right _ _⟩
  obtain ⟨m1, p1, a1, b1⟩ := hm h1 h2
  obtain ⟨m2, p2, a2, b2⟩ := hm p1 h3
  obtain ⟨m3, p3, a3, b3⟩ := hm p2 h4
  obtain ⟨m4, p4, a4, b4⟩ := hm p3 h5
  obtain ⟨m5, p5, a5, b5⟩ := hm p4 h6
  obtain ⟨m6, p6, a6, b6⟩ := hm p5 h7
  obtain ⟨m7, p7, a7, b7⟩ := hm p6 h8
  obtain ⟨m8, p8, a8, b8⟩ := hm p7 h9
  obtain ⟨m9, p9, a9, b9⟩ := hm p8 h10
  refine ⟨m9 / 3, by linarith, ?_, ?_, ?_, ?_, ?_, ?_, ?_, ?_, ?_, ?_⟩ <;> linarith

theorem fin_le_of_gap {q q' g : Rat} {e : ExtRat} (h : fin (q + g) ≤ e) (hq : q' ≤ q + g) : fin q' ≤ e :=
  ExtRat.le_trans' (by rw [ExtRat.fin_le_fin]; exact hq) h

/-- **the answer `false` exhibits a point of the join outside both operands** -/
theorem octUB_witness {n : Nat} (x y : OctM n) (hx : x.IsStronglyClosed) (hy : y.IsStronglyClosed)
    (xr yr : BMat) (ht : octUpperBoundIfExact upId n x.e y.e xr yr = false) :
    ∃ p, p ∈ OctM.γ (OctM.join x y) ∧ p ∉ OctM.γ x ∧ p ∉ OctM.γ y := by
  obtain ⟨i, j, k, l, hi, hj, hk, hl, C⟩ := octUB_false_tuple n x.e y.e xr yr ht
  have hjn : j < 2 * n := lt_of_lt_of_le hj (rowSize_le hi)
  have hln : l < 2 * n := lt_of_lt_of_le hl (rowSize_le hk)
  have hci : cidx i < 2 * n := cidx_lt hi
  have hcj : cidx j < 2 * n := cidx_lt hjn
  have hck : cidx k < 2 * n := cidx_lt hk
  have hcl : cidx l < 2 * n := cidx_lt hln
  obtain ⟨a, hxa⟩ := ExtRat.fin_of_not_le C.c1
  obtain ⟨b, hyb⟩ := ExtRat.fin_of_not_le C.c2
  have hij : i ≠ j := by
    rintro rfl
    rw [x.diag i hi] at hxa
    exact ExtRat.noConfusion hxa
  have hkl : k ≠ l := by
    rintro rfl
    rw [y.diag k hk] at hyb
    exact ExtRat.noConfusion hyb
  have hJ : (OctM.join x y).IsStronglyClosed := OctM.join_isStronglyClosed hx hy
  -- the ten strict inequalities on the full view of the join
  have c1 := C.c1
  have c2 := C.c2
  rw [hxa, raw_eq_octFull y.e hj hij] at c1
  rw [hyb, raw_eq_octFull x.e hl hkl] at c2
  have s1 : ¬ (octFull (OctM.join x y).e i j ≤ fin a) := fun h =>
    c1 (ExtRat.le_trans' (OctM.full_le_join_right x y i j) h)
  have s2 : ¬ (octFull (OctM.join x y).e k l ≤ fin b) := fun h =>
    c2 (ExtRat.le_trans' (OctM.full_le_join_left x y k l) h)
  have s1b : ¬ (eadd (octFull (OctM.join x y).e i (cidx i)) (octFull (OctM.join x y).e (cidx j) j) ≤
      fin (2 * a)) :=
    strict_coh c1 (hy.coh' hi hjn) (OctM.full_le_join_right x y _ _) (OctM.full_le_join_right x y _ _)
  have s2b : ¬ (eadd (octFull (OctM.join x y).e k (cidx k)) (octFull (OctM.join x y).e (cidx l) l) ≤
      fin (2 * b)) :=
    strict_coh c2 (hx.coh' hk hln) (OctM.full_le_join_left x y _ _) (OctM.full_le_join_left x y _ _)
  have s3 : ¬ (eadd (octFull (OctM.join x y).e i l) (octFull (OctM.join x y).e k j) ≤ fin (a + b)) := by
    have := C.c3; rw [hxa, hyb] at this; exact this
  have s4 : ¬ (eadd (octFull (OctM.join x y).e i (cidx k)) (octFull (OctM.join x y).e (cidx j) l) ≤
      fin (a + b)) := by
    have := C.c4; rw [hxa, hyb] at this; exact this
  have s5 : ¬ (eadd (eadd (octFull (OctM.join x y).e i l) (octFull (OctM.join x y).e i (cidx k)))
      (octFull (OctM.join x y).e (cidx j) j) ≤ fin (a + b + a)) := by
    have := C.c5; rw [hxa, hyb] at this; exact this
  have s6 : ¬ (eadd (eadd (octFull (OctM.join x y).e k j) (octFull (OctM.join x y).e (cidx j) l))
      (octFull (OctM.join x y).e i (cidx i)) ≤ fin (a + b + a)) := by
    have := C.c6; rw [hxa, hyb] at this; exact this
  have s7 : ¬ (eadd (eadd (octFull (OctM.join x y).e i l) (octFull (OctM.join x y).e (cidx j) l))
      (octFull (OctM.join x y).e k (cidx k)) ≤ fin (a + b + b)) := by
    have := C.c7; rw [hxa, hyb] at this; exact this
  have s8 : ¬ (eadd (eadd (octFull (OctM.join x y).e k j) (octFull (OctM.join x y).e i (cidx k)))
      (octFull (OctM.join x y).e (cidx l) l) ≤ fin (a + b + b)) := by
    have := C.c8; rw [hxa, hyb] at this; exact this
  -- the margin
  obtain ⟨g1, g1p, hg1⟩ := ExtRat.exists_gap s1
  obtain ⟨g2, g2p, hg2⟩ := ExtRat.exists_gap s2
  obtain ⟨g1b, g1bp, hg1b⟩ := ExtRat.exists_gap s1b
  obtain ⟨g2b, g2bp, hg2b⟩ := ExtRat.exists_gap s2b
  obtain ⟨g3, g3p, hg3⟩ := ExtRat.exists_gap s3
  obtain ⟨g4, g4p, hg4⟩ := ExtRat.exists_gap s4
  obtain ⟨g5, g5p, hg5⟩ := ExtRat.exists_gap s5
  obtain ⟨g6, g6p, hg6⟩ := ExtRat.exists_gap s6
  obtain ⟨g7, g7p, hg7⟩ := ExtRat.exists_gap s7
  obtain ⟨g8, g8p, hg8⟩ := ExtRat.exists_gap s8
  obtain ⟨ε, εp, e1, e2, e1b, e2b, e3, e4, e5, e6, e7, e8⟩ :=
    exists_margin g1p g2p g1bp g2bp g3p g4p g5p g6p g7p g8p
  -- the lower bounds
  have hV : Closed (2 * n) { f := octFull (OctM.join x y).e } := hJ.closedFull
  have h3' := hJ.coh' hi hck
  have h4' := hJ.coh' hcj hln
  rw [cidx_cidx] at h3' h4'
  have F : OctFacts (a + ε) (b + ε) (octFull (OctM.join x y).e k l) (octFull (OctM.join x y).e i l)
      (octFull (OctM.join x y).e k j) (octFull (OctM.join x y).e i (cidx k))
      (octFull (OctM.join x y).e (cidx j) l) (octFull (OctM.join x y).e i (cidx i))
      (octFull (OctM.join x y).e (cidx j) j) (octFull (OctM.join x y).e k (cidx k))
      (octFull (OctM.join x y).e (cidx l) l) :=
    { f1b := fin_le_of_gap hg1b (by linarith)
      f2 := fin_le_of_gap hg2 (by linarith)
      f2b := fin_le_of_gap hg2b (by linarith)
      f3 := fin_le_of_gap hg3 (by linarith)
      f4 := fin_le_of_gap hg4 (by linarith)
      f5 := fin_le_of_gap hg5 (by linarith)
      f6 := fin_le_of_gap hg6 (by linarith)
      f7 := fin_le_of_gap hg7 (by linarith)
      f8 := fin_le_of_gap hg8 (by linarith)
      h1 := hJ.coh' hi hln
      h2 := hJ.coh' hk hjn
      h3 := h3'
      h4 := h4' }
  obtain ⟨d, hd, hdV, d1, d1', d2, d2'⟩ := oct_two_pairs (V := { f := octFull (OctM.join x y).e }) hV
    (fun u v => octFull_coh (OctM.join x y).e u v) hi hjn hk hln hci hcj hck hcl
    (fin_le_of_gap hg1 (by linarith)) F
  obtain ⟨q, hq⟩ := hd.nonempty
  have r1 := ExtRat.le_trans' (hq j i ⟨hjn, hi⟩) d1
  have r1' := ExtRat.le_trans' (hq (cidx i) (cidx j) ⟨hci, hcj⟩) d1'
  have r2 := ExtRat.le_trans' (hq l k ⟨hln, hk⟩) d2
  have r2' := ExtRat.le_trans' (hq (cidx k) (cidx l) ⟨hck, hcl⟩) d2'
  rw [ExtRat.fin_le_fin] at r1 r1' r2 r2'
  obtain ⟨p, hp, hv⟩ := (OctM.join x y).point_of_potential_below (d := d) hdV hq
  refine ⟨p, hp, fun hpx => ?_, fun hpy => ?_⟩
  · have := hpx i j hi hj
    rw [hv, hv, hxa, ExtRat.fin_le_fin] at this
    linarith
  · have := hpy k l hk hl
    rw [hv, hv, hyb, ExtRat.fin_le_fin] at this
    linarith

/-- **`Octagonal_Shape::upper_bound_assign_if_exact`, completeness of the answer `false`**: the join has a point
outside both operands, and the union of the two octagons is not an octagon -/
theorem octUB_complete {n : Nat} (x y : OctM n) (hx : x.IsStronglyClosed) (hy : y.IsStronglyClosed)
    (xr yr : BMat) (ht : octUpperBoundIfExact upId n x.e y.e xr yr = false) :
    (∃ p, p ∈ OctM.γ (OctM.join x y) ∧ p ∉ OctM.γ x ∧ p ∉ OctM.γ y) ∧
    ¬ ∃ Q : OctM n, OctM.γ Q = OctM.γ x ∪ OctM.γ y :=
  ⟨octUB_witness x y hx hy xr yr ht,
    octUB_complete_of_witness x y hx hy (octUB_witness x y hx hy xr yr ht)⟩

/-- the test decides exactness of the join, given that the two reductions denote the operands -/
theorem octUB_iff {n : Nat} (x y : OctM n) (hx : x.IsStronglyClosed) (hy : y.IsStronglyClosed) (xr yr : BMat)
    (hxp : OctM.γ (x.reduced xr) = OctM.γ x) (hyp : OctM.γ (y.reduced yr) = OctM.γ y) :
    octUpperBoundIfExact upId n x.e y.e xr yr = true ↔
      OctM.γ (OctM.join x y) = OctM.γ x ∪ OctM.γ y := by
  constructor
  · exact octUB_sound x y xr yr hxp hyp
  · intro h
    cases ht : octUpperBoundIfExact upId n x.e y.e xr yr with
    | true => rfl
    | false =>
      exfalso
      obtain ⟨p, hp, hpx, hpy⟩ := octUB_witness x y hx hy xr yr ht
      rw [h] at hp
      rcases hp with hp | hp
      · exact hpx hp
      · exact hpy hp

end PPLV.WR
