import PPLV.WR.ReduceProofsBase
import Mathlib.Tactic.Linarith
/-!
# Octagon reduction, base facts: `ExtRat` inversion lemmas, coherence of the full view `octFull`, raw reads
inside the stored part, zero-equivalence `OZEq` is an equivalence compatible with `cidx`
-/
namespace PPLV.WR
open ExtRat (fin pinf addUp halfUp)

/-! ## `ExtRat` inversion -/

theorem ExtRat.le_fin_inv {x : ExtRat} {v : Rat} (h : x ≤ fin v) : ∃ a, x = fin a ∧ a ≤ v := by
  cases x with
  | fin a => exact ⟨a, rfl, ExtRat.fin_le_fin.1 h⟩
  | pinf => exact absurd h (ExtRat.not_pinf_le_fin v)

theorem eadd_fin (a b : Rat) : eadd (fin a) (fin b) = fin (a + b) := rfl

theorem eadd_le_fin_inv {x y : ExtRat} {v : Rat} (h : eadd x y ≤ fin v) :
    ∃ a b, x = fin a ∧ y = fin b ∧ a + b ≤ v := by
  cases x with
  | pinf => rw [eadd_pinf_left] at h; exact absurd h (ExtRat.not_pinf_le_fin v)
  | fin a =>
    cases y with
    | pinf => rw [eadd_pinf_right] at h; exact absurd h (ExtRat.not_pinf_le_fin v)
    | fin b => exact ⟨a, b, rfl, rfl, ExtRat.fin_le_fin.1 h⟩

theorem halfUp_fin (a : Rat) : halfUp fin (fin a) = fin (a / 2) := rfl
theorem halfUp_pinf : halfUp fin pinf = pinf := rfl

theorem half_eadd_le_fin_inv {x y : ExtRat} {v : Rat} (h : halfUp fin (eadd x y) ≤ fin v) :
    ∃ a b, x = fin a ∧ y = fin b ∧ (a + b) / 2 ≤ v := by
  cases x with
  | pinf => rw [eadd_pinf_left] at h; exact absurd h (ExtRat.not_pinf_le_fin v)
  | fin a =>
    cases y with
    | pinf => rw [eadd_pinf_right] at h; exact absurd h (ExtRat.not_pinf_le_fin v)
    | fin b => exact ⟨a, b, rfl, rfl, ExtRat.fin_le_fin.1 h⟩

theorem isAddInv_iff (x y : ExtRat) :
    ExtRat.isAddInv x y = true ↔ ∃ a b, x = fin a ∧ y = fin b ∧ a + b = 0 := by
  cases x <;> cases y <;> simp [ExtRat.isAddInv]

theorem isAddInv_comm (x y : ExtRat) : ExtRat.isAddInv x y = ExtRat.isAddInv y x := by
  cases x <;> cases y <;> simp [ExtRat.isAddInv, add_comm]

/-! ## index arithmetic -/

/-- `omega`-friendly description of `cidx` -/
theorem cidx_spec (i : Nat) : (i % 2 = 0 ∧ cidx i = i + 1) ∨ (i % 2 = 1 ∧ cidx i + 1 = i) := by
  unfold cidx; split <;> omega

theorem cidx_cidx (i : Nat) : cidx (cidx i) = i := by
  unfold cidx; split <;> split <;> omega

theorem cidx_ne (i : Nat) : cidx i ≠ i := by
  unfold cidx; split <;> omega

theorem cidx_inj {i j : Nat} (h : cidx i = cidx j) : i = j := by
  have := congrArg cidx h; rwa [cidx_cidx, cidx_cidx] at this

theorem cidx_eq_iff {i j : Nat} : cidx i = j ↔ i = cidx j := by
  constructor
  · intro h; rw [← h, cidx_cidx]
  · intro h; rw [h, cidx_cidx]

theorem cidx_of_even {i : Nat} (h : i % 2 = 0) : cidx i = i + 1 := by
  unfold cidx; split <;> omega

theorem cidx_of_odd {i : Nat} (h : i % 2 = 1) : cidx i = i - 1 := by
  unfold cidx; split <;> omega

theorem cidx_le_succ (i : Nat) : cidx i ≤ i + 1 := by
  unfold cidx; split <;> omega

theorem cidx_lt_iff {dim i : Nat} : cidx i < 2 * dim ↔ i < 2 * dim := by
  constructor
  · intro h; have := cidx_lt h; rwa [cidx_cidx] at this
  · exact cidx_lt

/-! ## the full view -/

theorem octFull_self (m : Mat) (i : Nat) : octFull m i i = fin 0 := by
  unfold octFull; rw [if_pos rfl]

theorem octFull_ne (m : Mat) {i j : Nat} (h : i ≠ j) : octFull m i j = m.mAt i j := by
  unfold octFull; rw [if_neg h]

/-- a raw read of a stored off-diagonal cell is the full view -/
theorem raw_eq_octFull (m : Mat) {i j : Nat} (hs : j < rowSize i) (h : i ≠ j) : m i j = octFull m i j := by
  rw [octFull_ne m h]; unfold Mat.mAt; rw [if_pos hs]

/-- the full view is coherent (the only cells stored twice are diagonal ones) -/
theorem octFull_coh (m : Mat) (i j : Nat) : octFull m i j = octFull m (cidx j) (cidx i) := by
  by_cases h : i = j
  · subst h; rw [octFull_self, octFull_self]
  · have h' : cidx j ≠ cidx i := fun e => h (cidx_inj e).symm
    rw [octFull_ne m h, octFull_ne m h']
    unfold Mat.mAt
    by_cases hs : j < rowSize i
    · rw [if_pos hs]
      by_cases hs' : cidx i < rowSize (cidx j)
      · rw [if_pos hs']
        have : j = cidx i := by
          have := cidx_spec i; have := cidx_spec j
          unfold rowSize at *; omega
        subst this
        rw [cidx_cidx]
      · rw [if_neg hs', cidx_cidx, cidx_cidx]
    · rw [if_neg hs, if_pos (swap_stored hs)]

theorem octFull_coh' (m : Mat) (i j : Nat) : octFull m (cidx i) (cidx j) = octFull m j i := by
  rw [octFull_coh m j i]

/-- the raw test of `compute_successors` / `compute_leaders` (`j < i`): both reads are stored cells and the
test is zero-equivalence on the full view -/
theorem oct_test_eq (m : Mat) {i j : Nat} (h : j < i) :
    ExtRat.isAddInv (m (cidx i) (cidx j)) (m i j) = ExtRat.isAddInv (octFull m i j) (octFull m j i) := by
  have hne : i ≠ j := by omega
  have h1 : m i j = octFull m i j := raw_eq_octFull m (by unfold rowSize; omega) hne
  have h2 : m (cidx i) (cidx j) = octFull m (cidx i) (cidx j) :=
    raw_eq_octFull m (by have := cidx_spec i; have := cidx_spec j; unfold rowSize; omega)
      (fun e => hne (cidx_inj e))
  rw [h1, h2, octFull_coh' m i j, isAddInv_comm]

theorem oct_test_iff (m : Mat) {i j : Nat} (h : j < i) :
    ExtRat.isAddInv (m (cidx i) (cidx j)) (m i j) = true ↔ OZEq m i j := by
  rw [oct_test_eq m h]; unfold OZEq
  constructor
  · exact Or.inr
  · rintro (e | e)
    · omega
    · exact e

/-! ## zero-equivalence -/

theorem OZEq.refl (m : Mat) (i : Nat) : OZEq m i i := Or.inl rfl

theorem OZEq.symm {m : Mat} {i j : Nat} (h : OZEq m i j) : OZEq m j i := by
  rcases h with h | h
  · exact Or.inl h.symm
  · exact Or.inr (by rw [isAddInv_comm]; exact h)

theorem OZEq.cidx {m : Mat} {i j : Nat} (h : OZEq m i j) : OZEq m (cidx i) (cidx j) := by
  rcases h with h | h
  · exact Or.inl (by rw [h])
  · refine Or.inr ?_
    rw [octFull_coh' m i j, octFull_coh' m j i, isAddInv_comm]; exact h

theorem OZEq.of_cidx {m : Mat} {i j : Nat} (h : OZEq m (WR.cidx i) (WR.cidx j)) : OZEq m i j := by
  have := OZEq.cidx h; rwa [cidx_cidx, cidx_cidx] at this

theorem OZEq.cidx_iff {m : Mat} {i j : Nat} : OZEq m (WR.cidx i) (WR.cidx j) ↔ OZEq m i j :=
  ⟨OZEq.of_cidx, OZEq.cidx⟩

theorem OZEq.fin_of_ne {m : Mat} {i j : Nat} (h : OZEq m i j) (hne : i ≠ j) :
    ∃ a b, octFull m i j = fin a ∧ octFull m j i = fin b ∧ a + b = 0 := by
  rcases h with h | h
  · exact absurd h hne
  · exact (isAddInv_iff _ _).1 h

theorem OZEq.of_fin {m : Mat} {i j : Nat} {a b : Rat} (h1 : octFull m i j = fin a) (h2 : octFull m j i = fin b)
    (h : a + b = 0) : OZEq m i j :=
  Or.inr ((isAddInv_iff _ _).2 ⟨a, b, h1, h2, h⟩)

section closed
variable {n : Nat} (c : OctM n) (hc : c.IsStronglyClosed)
include hc

/-- triangle inequality on finite entries -/
theorem OctM.IsStronglyClosed.tri_fin {i j k : Nat} (hi : i < 2 * n) (hj : j < 2 * n) (hk : k < 2 * n)
    {a b : Rat} (h1 : octFull c.e i k = fin a) (h2 : octFull c.e k j = fin b) :
    ∃ v, octFull c.e i j = fin v ∧ v ≤ a + b := by
  have := hc.tri i j k hi hj hk
  rw [h1, h2, eadd_fin] at this
  exact ExtRat.le_fin_inv this

/-- no negative 2-cycle -/
theorem OctM.IsStronglyClosed.cycle_nonneg {i j : Nat} (hi : i < 2 * n) (hj : j < 2 * n)
    {a b : Rat} (h1 : octFull c.e i j = fin a) (h2 : octFull c.e j i = fin b) : 0 ≤ a + b := by
  obtain ⟨v, hv, hle⟩ := hc.tri_fin c hi hi hj h1 h2
  rw [octFull_self] at hv
  cases hv; exact hle

theorem OZEq.trans {i j k : Nat} (hi : i < 2 * n) (hj : j < 2 * n) (hk : k < 2 * n) :
    OZEq c.e i j → OZEq c.e j k → OZEq c.e i k := by
  intro h1 h2
  by_cases e1 : i = j
  · subst e1; exact h2
  by_cases e2 : j = k
  · subst e2; exact h1
  by_cases e3 : i = k
  · exact Or.inl e3
  obtain ⟨a, a', ha, ha', hs1⟩ := h1.fin_of_ne e1
  obtain ⟨b, b', hb, hb', hs2⟩ := h2.fin_of_ne e2
  obtain ⟨v, hv, hle⟩ := hc.tri_fin c hi hk hj ha hb
  obtain ⟨w, hw, hle'⟩ := hc.tri_fin c hk hi hj hb' ha'
  have := hc.cycle_nonneg c hi hk hv hw
  exact OZEq.of_fin hv hw (by linarith)

/-- the full view of a strongly closed matrix on one class: an exact potential difference -/
theorem OZEq.add_eq {i j k : Nat} (hi : i < 2 * n) (hj : j < 2 * n) (hk : k < 2 * n)
    (h1 : OZEq c.e i j) {a b : Rat} (ha : octFull c.e i j = fin a) (hb : octFull c.e j k = fin b) :
    octFull c.e i k = fin (a + b) := by
  by_cases e1 : i = j
  · subst e1; rw [octFull_self] at ha; cases ha; rw [hb]; congr 1; simp
  obtain ⟨a1, a', ha1, ha', hs1⟩ := h1.fin_of_ne e1
  rw [ha] at ha1; cases ha1
  obtain ⟨v, hv, hle⟩ := hc.tri_fin c hi hk hj ha hb
  obtain ⟨w, hw, hle'⟩ := hc.tri_fin c hj hk hi ha' hv
  rw [hb] at hw; cases hw
  rw [hv]; congr 1; linarith

/-- two singular indices are zero-equivalent: there is at most one singular class -/
theorem OZEq.sing_unique {i j : Nat} (hi : i < 2 * n) (hj : j < 2 * n)
    (h1 : OZEq c.e i (WR.cidx i)) (h2 : OZEq c.e j (WR.cidx j)) : OZEq c.e i j := by
  by_cases e : i = j
  · exact Or.inl e
  obtain ⟨a, a', ha, ha', hs1⟩ := h1.fin_of_ne (cidx_ne i).symm
  obtain ⟨b, b', hb, hb', hs2⟩ := h2.fin_of_ne (cidx_ne j).symm
  have c1 := hc.coh i j hi hj e
  have c2 := hc.coh j i hj hi (Ne.symm e)
  rw [ha, hb', eadd_fin, halfUp_fin] at c1
  rw [hb, ha', eadd_fin, halfUp_fin] at c2
  obtain ⟨v, hv, hle⟩ := ExtRat.le_fin_inv c1
  obtain ⟨w, hw, hle'⟩ := ExtRat.le_fin_inv c2
  have := hc.cycle_nonneg c hi hj hv hw
  exact OZEq.of_fin hv hw (by linarith)

end closed

end PPLV.WR
