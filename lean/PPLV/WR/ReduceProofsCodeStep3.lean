import PPLV.WR.ReduceProofsCodeStep2
/-!
# Reduction (BD shapes): Step 3 of `shortest_path_reduction_assign` — totality of the fuel, the chain walk
-/
namespace PPLV.WR
open ExtRat (fin pinf)

/-! ## totality -/

theorem bdsChainWalk_total (P : Vec) (hle : ∀ t, P t ≤ t) (i : Nat) :
    ∀ fuel j (st : BMat × BVec), j < fuel → ∃ st', bdsChainWalk P i fuel j st = some st' := by
  intro fuel
  induction fuel with
  | zero => intro j st h; omega
  | succ fuel ih =>
    intro j st h
    obtain ⟨red, dw⟩ := st
    simp only [bdsChainWalk]
    by_cases hj : j = P j
    · rw [if_pos hj]; exact ⟨_, rfl⟩
    · rw [if_neg hj]
      have := hle j
      exact ih _ _ (by omega)

theorem bdsStep3_total (rows : Nat) (P : Vec) (hle : ∀ t, P t ≤ t) (red : BMat) :
    ∃ r, bdsStep3 rows P red = some r := by
  have key := loopDown_ind (fun _ (o : Option (BMat × BVec)) => ∃ st, o = some st) rows
    (fun i st => st.bind fun (st : BMat × BVec) =>
      if i ≠ P i && !st.2 i then bdsChainWalk P i (rows + 1) i st else some st)
    (some (red, BVec.const false)) ⟨_, rfl⟩ ?_
  · obtain ⟨st, hst⟩ := key
    refine ⟨st.1, ?_⟩
    unfold bdsStep3
    rw [hst]
    rfl
  · rintro t ht _ ⟨st, rfl⟩
    simp only [Option.bind_some]
    split
    · exact bdsChainWalk_total P hle t _ _ _ (by omega)
    · exact ⟨_, rfl⟩

theorem bds_reduction_total {n : Nat} (c : DBM n) :
    ∃ red, bdsShortestPathReduction upId n c.e = some red := by
  unfold bdsShortestPathReduction
  exact bdsStep3_total _ _ (bdsPred_le_all _ _) _

/-! ## the chain walk -/

/-- `g` is the greatest index of its zero-equivalence class -/
def Top (n : Nat) (c : Mat) (g : Nat) : Prop := g ≤ n ∧ ∀ k, k ≤ n → g < k → ¬ ZEq c k g

/-- the cells cleared by the walk started at `i` when it stands at `j`: the closing edge `(i, leader)` and the
chain edges `(pred b, b)` for the non-leaders `b ≤ j` of the class -/
def WalkCells (c : Mat) (P : Nat → Nat) (i j a b : Nat) : Prop :=
  (a = i ∧ b ≤ j ∧ ZEq c b j ∧ P b = b) ∨ (a < b ∧ b ≤ j ∧ ZEq c b j ∧ P b = a)

section
variable {n : Nat} {c : DBM n}

/-- a class-mate strictly below `j` is at most `pred j`, and in the class of `pred j` -/
theorem below_pred (hc : c.IsClosed) {P : Nat → Nat} (hP : IsPredMap n c.e P) {j b : Nat}
    (hj : j ≤ n) (hb : b < j) (hz : ZEq c.e b j) : b ≤ P j ∧ ZEq c.e b (P j) := by
  have hle := hP.le j hj
  constructor
  · by_cases h : P j < b
    · exact absurd hz (hP.greatest j b hj h hb)
    · omega
  · exact ZEq.trans hc (by omega) hj (by omega) hz (hP.zeq j hj).symm

/-- below a leader there is no class-mate -/
theorem eq_of_pred_self {P : Nat → Nat} (hP : IsPredMap n c.e P) {j b : Nat}
    (hj : j ≤ n) (hpj : P j = j) (hb : b ≤ j) (hz : ZEq c.e b j) : b = j := by
  by_cases h : b < j
  · exact absurd hz (hP.self j b hj hpj h)
  · omega

theorem bdsChainWalk_spec (hc : c.IsClosed) (P : Vec) (hP : IsPredMap n c.e P) (i : Nat) :
    ∀ fuel j (red : BMat) (dw : BVec), j ≤ n → j < fuel →
      ∃ red' dw', bdsChainWalk P i fuel j (red, dw) = some (red', dw') ∧
        (∀ a b, red' a b = false ↔ red a b = false ∨ WalkCells c.e P i j a b) ∧
        (∀ s, dw' s = true ↔ dw s = true ∨ (s < j ∧ ZEq c.e s j)) := by
  intro fuel
  induction fuel with
  | zero => intro j red dw _ h; omega
  | succ fuel ih =>
    intro j red dw hj hf
    simp only [bdsChainWalk]
    by_cases hpj : j = P j
    · rw [if_pos hpj]
      refine ⟨_, _, rfl, ?_, ?_⟩
      · intro a b
        simp only [BMat.put_apply]
        constructor
        · intro h
          by_cases hab : a = i ∧ b = j
          · right; left
            exact ⟨hab.1, by omega, by rw [hab.2]; exact ZEq.refl _ _, by rw [hab.2]; exact hpj.symm⟩
          · rw [if_neg hab] at h
            exact Or.inl h
        · rintro (h | ⟨ha, hb, hz, _⟩ | ⟨hab, hb, hz, hp⟩)
          · by_cases hab : a = i ∧ b = j
            · rw [if_pos hab]
            · rw [if_neg hab]; exact h
          · have := eq_of_pred_self hP hj hpj.symm hb hz
            rw [if_pos ⟨ha, this⟩]
          · have := eq_of_pred_self hP hj hpj.symm hb hz
            subst this
            omega
      · intro s
        constructor
        · intro h; exact Or.inl h
        · rintro (h | ⟨hs, hz⟩)
          · exact h
          · have := eq_of_pred_self hP hj hpj.symm (Nat.le_of_lt hs) hz
            omega
    · rw [if_neg hpj]
      have hle := hP.le j hj
      have hlt : P j < j := by omega
      have hzj : ZEq c.e (P j) j := hP.zeq j hj
      obtain ⟨red', dw', hw, hr, hd⟩ :=
        ih (P j) (red.put (P j) j false) (dw.set (P j) true) (by omega) (by omega)
      refine ⟨red', dw', hw, ?_, ?_⟩
      · intro a b
        rw [hr a b]
        simp only [BMat.put_apply]
        constructor
        · rintro (h | ⟨ha, hb, hz, hp⟩ | ⟨hab, hb, hz, hp⟩)
          · by_cases hab : a = P j ∧ b = j
            · right; right
              exact ⟨by omega, by omega, by rw [hab.2]; exact ZEq.refl _ _, by rw [hab.2]; exact hab.1.symm⟩
            · rw [if_neg hab] at h
              exact Or.inl h
          · right; left
            exact ⟨ha, by omega, ZEq.trans hc (by omega) (by omega) hj hz hzj, hp⟩
          · right; right
            exact ⟨hab, by omega, ZEq.trans hc (by omega) (by omega) hj hz hzj, hp⟩
        · rintro (h | ⟨ha, hb, hz, hp⟩ | ⟨hab, hb, hz, hp⟩)
          · left
            by_cases hab : a = P j ∧ b = j
            · rw [if_pos hab]
            · rw [if_neg hab]; exact h
          · have hbj : b ≠ j := by
              intro e; rw [e] at hp; exact hpj hp.symm
            have := below_pred hc hP hj (by omega) hz
            right; left
            exact ⟨ha, this.1, this.2, hp⟩
          · by_cases hbj : b = j
            · left
              rw [if_pos ⟨by rw [← hp, hbj], hbj⟩]
            · have := below_pred hc hP hj (by omega) hz
              right; right
              exact ⟨hab, this.1, this.2, hp⟩
      · intro s
        rw [hd s]
        simp only [BVec.set_apply]
        constructor
        · rintro (h | ⟨hs, hz⟩)
          · by_cases hsp : s = P j
            · right
              rw [hsp]; exact ⟨hlt, hzj⟩
            · rw [if_neg hsp] at h
              exact Or.inl h
          · right
            exact ⟨by omega, ZEq.trans hc (by omega) (by omega) hj hz hzj⟩
        · rintro (h | ⟨hs, hz⟩)
          · left
            by_cases hsp : s = P j
            · rw [if_pos hsp]
            · rw [if_neg hsp]; exact h
          · have := below_pred hc hP hj hs hz
            by_cases hsp : s = P j
            · left; rw [if_pos hsp]
            · right
              exact ⟨by omega, this.2⟩

end

end PPLV.WR
