import PPLV.WR.ReduceOctProofsPreserveInd
/-!
# Octagon reduction keeps every point, part 5: pairs on a tight path to the unary bound

`Tight0 a b`: the unary bound of `a` is attained through `b`:
`octFull a (cidx a) = 2 * octFull a b + octFull b (cidx b)` (all finite).  Such a pair of distinct non-singular
leaders is never redundant by strong coherence (that would make `b` singular), and splitting it by closure
stays inside the family, so all of them hold without any unary cell.
-/
namespace PPLV.WR
open ExtRat (fin pinf addUp halfUp)

def Tight0 (m : Mat) (a b : Nat) : Prop :=
  ∃ x y z, octFull m a (cidx a) = fin x ∧ octFull m a b = fin y ∧ octFull m b (cidx b) = fin z ∧ x = 2 * y + z

section closed
variable {n : Nat} {c : OctM n} (hc : c.IsStronglyClosed)
include hc

/-- `octFull a (cidx a) ≤ 2 * octFull a k + octFull k (cidx k)` (the path `a → k → ck → ca`) -/
theorem unary_le {a k : Nat} (ha : a < 2 * n) (hk : k < 2 * n) {r q : Rat}
    (hr : octFull c.e a k = fin r) (hq : octFull c.e k (cidx k) = fin q) :
    ∃ x, octFull c.e a (cidx a) = fin x ∧ x ≤ 2 * r + q := by
  have e : octFull c.e (cidx k) (cidx a) = fin r := by rw [octFull_coh' c.e k a]; exact hr
  obtain ⟨α, hα, h1⟩ := hc.tri_fin c hk (cidx_lt ha) (cidx_lt hk) hq e
  obtain ⟨x, hx, h2⟩ := hc.tri_fin c ha (cidx_lt ha) hk hr hα
  exact ⟨x, hx, by linarith⟩

theorem Tight0.trans {i k l : Nat} (hi : i < 2 * n) (hk : k < 2 * n) (hl : l < 2 * n)
    (h1 : Tight0 c.e i k) (h2 : Tight0 c.e k l) : Tight0 c.e i l := by
  obtain ⟨x, r, xk, hx, hr, hxk, e1⟩ := h1
  obtain ⟨xk', t, xl, hxk', ht, hxl, e2⟩ := h2
  rw [hxk] at hxk'; cases hxk'
  obtain ⟨y, hy, hle⟩ := hc.tri_fin c hi hl hk hr ht
  obtain ⟨x', hx', hle'⟩ := unary_le hc hi hl hy hxl
  rw [hx] at hx'; cases hx'
  exact ⟨x, y, xl, hx, hy, hxl, by linarith⟩

omit hc in
theorem Tight0.antisymm {i k : Nat} (hi : NSL (2 * n) c.e i) (hk : NSL (2 * n) c.e k)
    (h1 : Tight0 c.e i k) (h2 : Tight0 c.e k i) : i = k := by
  obtain ⟨x, r, xk, hx, hr, hxk, e1⟩ := h1
  obtain ⟨xk', t, x', hxk', ht, hx', e2⟩ := h2
  rw [hxk] at hxk'; cases hxk'
  rw [hx] at hx'; cases hx'
  exact NSL.eq_of_zeq hi hk (OZEq.of_fin hr ht (by linarith))

end closed

section ctx
variable {n : Nat} {c : OctM n} {succ : Nat → Nat} {nr : BMat} {p : Nat → Rat} (X : RCtx c succ nr p)
include X

/-- a tight pair of distinct non-singular leaders holds -/
theorem RCtx.ok_of_tight {a b : Nat} (ha : NSL (2 * n) c.e a) (hb : NSL (2 * n) c.e b) (hne : a ≠ b)
    (ht : Tight0 c.e a b) : Ok c.e p a b := by
  refine X.ok_of_family (fun a b => NSL (2 * n) c.e a ∧ NSL (2 * n) c.e b ∧ a ≠ b ∧ Tight0 c.e a b)
    (fun a b h => ⟨h.1, h.2.1, h.2.2.1⟩) ?_ ?_ a b ⟨ha, hb, hne, ht⟩
  · rintro a b ⟨ha, hb, hne, x, y, z, hx, hy, hz, e⟩ ⟨_, hco⟩
    exfalso
    rw [hy] at hco
    obtain ⟨x', w, hx', hw, hle⟩ := half_eadd_le_fin_inv hco
    rw [hx] at hx'; cases hx'
    have := nonsing_pos X.hc hb.lt hb.ns hz hw
    linarith
  · rintro a b k ⟨ha, hb, hne, x, y, z, hx, hy, hz, e⟩ hk hka hkb hle _
    rw [hy] at hle
    obtain ⟨r, t, hr, ht, hrt⟩ := eadd_le_fin_inv hle
    obtain ⟨q, hq, hq'⟩ := unary_le X.hc hk.lt hb.lt ht hz
    obtain ⟨x', hx', hx''⟩ := unary_le X.hc ha.lt hk.lt hr hq
    rw [hx] at hx'; cases hx'
    exact ⟨⟨ha, hk, Ne.symm hka, x, r, q, hx, hr, hq, by linarith⟩,
      ⟨hk, hb, hkb, q, t, z, hq, ht, hz, by linarith⟩⟩

end ctx

end PPLV.WR
