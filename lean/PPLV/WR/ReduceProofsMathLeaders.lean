import PPLV.WR.ReduceProofsMathClass
import Mathlib.Data.Finset.Card
import Mathlib.Tactic.Ring
/-!
# Reduction of a closed difference-bound matrix, pure mathematics (2): the kept entries imply all entries

For a point `x` of the *reduced* matrix (it satisfies every kept entry):

* `class_le` : inside a zero-equivalence class `x` satisfies every entry of `c` (the kept upward chain and the
  closing edge form a cycle of weight `0`);
* `leader_le` : between two leaders `x` satisfies the entry of `c` — strong induction on the number of
  leaders `k` *between* `i` and `j` (`c i j = c i k + c k j`).
-/
namespace PPLV.WR
open ExtRat (fin pinf)

variable {n : Nat}

section
variable (c : DBM n) (hc : c.IsClosed) (lead pred : Nat → Nat) (hl : IsLeaderMap n c.e lead)
  (hp : IsPredMap n c.e pred) (red : BMat) (hr : IsReduction n c.e lead pred red)
  (x : Nat → Rat) (hx : (c.reduced red).Sat x)

include hx in
omit hc hl hp hr in
theorem kept_le {a b : Nat} (ha : a ≤ n) (hb : b ≤ n) (h : red a b = false) :
    fin (DBM.val x b - DBM.val x a) ≤ c.e a b := by
  have := hx a b ha hb
  have e : (c.reduced red).e a b = if red a b then pinf else c.e a b := rfl
  rw [e, h] at this
  exact this

include hc hp hr hx in
/-- along the kept upward chain -/
theorem chain_up : ∀ b, b ≤ n → ∀ a, a ≤ b → ZEq c.e a b →
    fin (DBM.val x b - DBM.val x a) ≤ c.z a b := by
  intro b
  induction b using Nat.strong_induction_on with
  | _ b ih =>
    intro hb a hab hz
    by_cases heq : a = b
    · subst heq
      rw [c.z_self hb, sub_self]
      exact ExtRat.le_rfl' _
    · have hlt : a < b := by omega
      have hpl := pred_lt c pred hp hb hlt hz
      have hle := le_pred c pred hp hb hlt hz
      have hpn : pred b ≤ n := by omega
      have han : a ≤ n := by omega
      have hzp := hp.zeq b hb
      have h1 := ih (pred b) hpl hpn a hle (c.zeq_trans hc han hb hpn hz hzp.symm)
      have hk : red (pred b) b = false := (hr.spec (pred b) b hpn hb).2 (Or.inr (Or.inl ⟨hpl, rfl⟩))
      have h2 := kept_le c red x hx hpn hb hk
      rw [← c.z_ne (by omega : pred b ≠ b)] at h2
      rw [c.shift_col hc han hb hpn hzp]
      have e : DBM.val x b - DBM.val x a
          = (DBM.val x (pred b) - DBM.val x a) + (DBM.val x b - DBM.val x (pred b)) := by ring
      rw [e]
      exact fin_le_eadd h1 h2

include hc hl hp hr hx in
/-- downwards, through the closing edge of the class -/
theorem close_down {a b : Nat} (hb : b ≤ n) (hab : a ≤ b) (hz : ZEq c.e a b) :
    fin (DBM.val x a - DBM.val x b) ≤ c.z b a := by
  have han : a ≤ n := by omega
  obtain ⟨g, h1, h2, h3, h4⟩ := exists_greatest c hc (n - b) b hb le_rfl
  have hln := lead_le_n c lead hl hb
  have hlab : lead a = lead b := lead_eq_of_zeq c hc lead hl han hb hz
  have hlg : lead g = lead b := lead_eq_of_zeq c hc lead hl h2 hb h3
  have hla : lead b ≤ a := by rw [← hlab]; exact hl.le a han
  by_cases hgl : lead b = g
  · have : a = b := by omega
    subst this
    rw [c.z_self hb, sub_self]
    exact ExtRat.le_rfl' _
  · have hlt : lead b < g := by omega
    have hzl : ZEq c.e (lead b) b := hl.zeq b hb
    have hk : red g (lead b) = false :=
      (hr.spec g (lead b) h2 hln).2 (Or.inr (Or.inr ⟨hlt, hlg, h4⟩))
    have e1 := kept_le c red x hx h2 hln hk
    rw [← c.z_ne (by omega : g ≠ lead b)] at e1
    have e2 := chain_up c hc lead pred hp red hr x hx a han (lead b) hla
      (c.zeq_trans hc hln hb han hzl hz.symm)
    have e3 := chain_up c hc lead pred hp red hr x hx g h2 b h1 h3.symm
    rw [c.shift_row hc hb h2 han h3.symm,
      c.shift_row hc h2 hln han (c.zeq_trans hc h2 hb hln h3 hzl.symm)]
    have e : DBM.val x a - DBM.val x b = (DBM.val x g - DBM.val x b)
        + ((DBM.val x (lead b) - DBM.val x g) + (DBM.val x a - DBM.val x (lead b))) := by ring
    rw [e]
    exact fin_le_eadd e3 (fin_le_eadd e1 e2)

include hc hl hp hr hx in
/-- (a): inside a class the kept entries imply every entry -/
theorem class_le {a b : Nat} (ha : a ≤ n) (hb : b ≤ n) (hz : ZEq c.e a b) :
    fin (DBM.val x b - DBM.val x a) ≤ c.z a b := by
  rcases Nat.le_total a b with h | h
  · exact chain_up c hc lead pred hp red hr x hx b hb a h hz
  · exact close_down c hc lead pred hl hp red hr x hx ha h hz.symm

end

/-! ## leaders -/

/-- the leaders between `i` and `j` -/
def DBM.betw (c : DBM n) (lead : Nat → Nat) (i j : Nat) : Finset Nat :=
  (Finset.range (n+1)).filter (fun k => lead k = k ∧ c.z i j = eadd (c.z i k) (c.z k j))

theorem DBM.mem_betw (c : DBM n) (lead : Nat → Nat) (i j k : Nat) :
    k ∈ c.betw lead i j ↔ k ≤ n ∧ lead k = k ∧ c.z i j = eadd (c.z i k) (c.z k j) := by
  unfold DBM.betw
  rw [Finset.mem_filter, Finset.mem_range]
  constructor
  · rintro ⟨h1, h2⟩; exact ⟨by omega, h2⟩
  · rintro ⟨h1, h2⟩; exact ⟨by omega, h2⟩

theorem eadd_fin_zero_right (a : ExtRat) : eadd a (fin 0) = a := by
  cases a <;> simp [eadd, ExtRat.addUp]

theorem eadd_fin_zero_left (a : ExtRat) : eadd (fin 0) a = a := by
  cases a <;> simp [eadd, ExtRat.addUp]

/-- cancellation of a finite summand -/
theorem eadd_cancel {q : Rat} {a : ExtRat} (h : fin q = eadd (fin q) a) : a = fin 0 := by
  cases a <;> simp [eadd, ExtRat.addUp] at h ⊢
  exact h

section
variable (c : DBM n) (hc : c.IsClosed) (lead pred : Nat → Nat) (hl : IsLeaderMap n c.e lead)
include hc hl

theorem betw_left {i j k : Nat} (hi : i ≤ n) (hj : j ≤ n) (hk : k ≤ n) (hlj : lead j = j)
    (hlk : lead k = k) (hjk : j ≠ k) {q : Rat} (hq : c.z i j = fin q)
    (heq : c.z i j = eadd (c.z i k) (c.z k j)) : (c.betw lead i k).card < (c.betw lead i j).card := by
  apply Finset.card_lt_card
  rw [Finset.ssubset_iff_of_subset]
  · refine ⟨j, (c.mem_betw lead i j j).2 ⟨hj, hlj, by rw [c.z_self hj, eadd_fin_zero_right]⟩, ?_⟩
    intro hm
    obtain ⟨_, _, h3⟩ := (c.mem_betw lead i k j).1 hm
    rw [h3, eadd_assoc, hq] at heq
    have := eadd_cancel heq
    have hz := c.zeq_of_le hc hj hk (by rw [this]; exact ExtRat.le_rfl' _)
    exact hjk (leaders_eq_of_zeq c hc lead hl hj hk hlj hlk hz)
  · intro m hm
    obtain ⟨h1, h2, h3⟩ := (c.mem_betw lead i k m).1 hm
    refine (c.mem_betw lead i j m).2 ⟨h1, h2, ?_⟩
    apply DBM.le_antisymm' (hc.tri m hi hj h1)
    rw [heq, h3, eadd_assoc]
    exact eadd_mono (ExtRat.le_rfl' _) (hc.tri k h1 hj hk)

theorem betw_right {i j k : Nat} (hi : i ≤ n) (hj : j ≤ n) (hk : k ≤ n) (hli : lead i = i)
    (hlk : lead k = k) (hik : i ≠ k) {q : Rat} (hq : c.z i j = fin q)
    (heq : c.z i j = eadd (c.z i k) (c.z k j)) : (c.betw lead k j).card < (c.betw lead i j).card := by
  apply Finset.card_lt_card
  rw [Finset.ssubset_iff_of_subset]
  · refine ⟨i, (c.mem_betw lead i j i).2 ⟨hi, hli, by rw [c.z_self hi, eadd_fin_zero_left]⟩, ?_⟩
    intro hm
    obtain ⟨_, _, h3⟩ := (c.mem_betw lead k j i).1 hm
    rw [h3, ← eadd_assoc, eadd_comm, hq] at heq
    have := eadd_cancel heq
    have hz := c.zeq_of_le hc hi hk (by rw [this]; exact ExtRat.le_rfl' _)
    exact hik (leaders_eq_of_zeq c hc lead hl hi hk hli hlk hz)
  · intro m hm
    obtain ⟨h1, h2, h3⟩ := (c.mem_betw lead k j m).1 hm
    refine (c.mem_betw lead i j m).2 ⟨h1, h2, ?_⟩
    apply DBM.le_antisymm' (hc.tri m hi hj h1)
    rw [heq, h3, ← eadd_assoc]
    exact eadd_mono (hc.tri k hi h1 hk) (ExtRat.le_rfl' _)

end

section
variable (c : DBM n) (hc : c.IsClosed) (lead pred : Nat → Nat) (hl : IsLeaderMap n c.e lead)
  (hp : IsPredMap n c.e pred) (red : BMat) (hr : IsReduction n c.e lead pred red)
  (x : Nat → Rat) (hx : (c.reduced red).Sat x)

include hc hl hr hx in
omit hp in
theorem leader_le_aux : ∀ (N i j : Nat), i ≤ n → j ≤ n → lead i = i → lead j = j →
    (c.betw lead i j).card ≤ N → fin (DBM.val x j - DBM.val x i) ≤ c.z i j := by
  intro N
  induction N with
  | zero =>
    intro i j hi hj hli hlj hN
    exfalso
    have hm : j ∈ c.betw lead i j :=
      (c.mem_betw lead i j j).2 ⟨hj, hlj, by rw [c.z_self hj, eadd_fin_zero_right]⟩
    have := Finset.card_pos.2 ⟨j, hm⟩
    omega
  | succ N ih =>
    intro i j hi hj hli hlj hN
    by_cases hij : i = j
    · subst hij
      rw [c.z_self hi, sub_self]
      exact ExtRat.le_rfl' _
    by_cases hk : red i j = false
    · rw [c.z_ne hij]
      exact kept_le c red x hx hi hj hk
    cases hq : c.z i j with
    | pinf => exact ExtRat.le_pinf _
    | fin q =>
      have hq' : c.e i j = fin q := by rw [← c.z_ne hij]; exact hq
      have hA : ¬ ∀ k, k ≤ n → lead k = k → ¬ (eadd (c.e i k) (c.e k j) ≤ c.e i j) := by
        intro hA
        exact hk ((hr.spec i j hi hj).2 (Or.inl ⟨hli, hlj, hA⟩))
      push Not at hA
      obtain ⟨k, hkn, hlk, hle⟩ := hA
      have hki : k ≠ i := by
        rintro rfl
        rw [c.diag k hkn, eadd_pinf_left, hq'] at hle
        exact ExtRat.not_pinf_le_fin _ hle
      have hkj : k ≠ j := by
        rintro rfl
        rw [c.diag k hkn, eadd_pinf_right, hq'] at hle
        exact ExtRat.not_pinf_le_fin _ hle
      rw [← c.z_ne (Ne.symm hki), ← c.z_ne hkj, ← c.z_ne hij] at hle
      have heq : c.z i j = eadd (c.z i k) (c.z k j) := DBM.le_antisymm' (hc.tri k hi hj hkn) hle
      have c1 := betw_left c hc lead hl hi hj hkn hlj hlk (Ne.symm hkj) hq heq
      have c2 := betw_right c hc lead hl hi hj hkn hli hlk (Ne.symm hki) hq heq
      have e1 := ih i k hi hkn hli hlk (by omega)
      have e2 := ih k j hkn hj hlk hlj (by omega)
      rw [← hq, heq]
      have e : DBM.val x j - DBM.val x i
          = (DBM.val x k - DBM.val x i) + (DBM.val x j - DBM.val x k) := by ring
      rw [e]
      exact fin_le_eadd e1 e2

include hc hl hr hx in
omit hp in
/-- (b): between leaders the kept entries imply every entry -/
theorem leader_le {i j : Nat} (hi : i ≤ n) (hj : j ≤ n) (hli : lead i = i) (hlj : lead j = j) :
    fin (DBM.val x j - DBM.val x i) ≤ c.z i j :=
  leader_le_aux c hc lead pred hl red hr x hx _ i j hi hj hli hlj le_rfl

include hc hl hp hr hx in
/-- (c): a point of the reduced matrix satisfies every entry of `c` (zero diagonal) -/
theorem reduced_le {a b : Nat} (ha : a ≤ n) (hb : b ≤ n) :
    fin (DBM.val x b - DBM.val x a) ≤ c.z a b := by
  have hla := lead_le_n c lead hl ha
  have hlb := lead_le_n c lead hl hb
  rw [DBM.decomp c hc lead hl ha hb]
  have e1 := class_le c hc lead pred hl hp red hr x hx ha hla (hl.zeq a ha).symm
  have e2 := leader_le c hc lead pred hl red hr x hx hla hlb (lead_idem c hc lead hl ha)
    (lead_idem c hc lead hl hb)
  have e3 := class_le c hc lead pred hl hp red hr x hx hlb hb (hl.zeq b hb)
  have e : DBM.val x b - DBM.val x a = (DBM.val x (lead a) - DBM.val x a)
      + ((DBM.val x (lead b) - DBM.val x (lead a)) + (DBM.val x b - DBM.val x (lead b))) := by ring
  rw [e]
  exact fin_le_eadd e1 (fin_le_eadd e2 e3)

end
end PPLV.WR
