import PPLV.WR.TransProofsGenSpecial
/-!
# Frame lemmas: `generalized_affine_image(var, …)` only touches row and column `var + 1`

`deduce_v_minus_u_bounds(v, …)` writes only cells `(u+1, v)`, `deduce_u_minus_v_bounds(v, …)` only cells
`(v, u+1)`; "exploit the upper approximation" writes only column `v`, "exploit the lower approximation"
only row `v`; every branch of `genAffineImageCore` (the general case included) leaves every cell outside
row and column `v = var + 1` as it was.
-/
set_option linter.unusedVariables false
set_option linter.unusedSimpArgs false
namespace PPLV.WR
open ExtRat

/-! ## the deduction helpers -/

theorem deduceVMinusUStep_frame (up : Rat → ExtRat) (v : Nat) (e : Nat → Int) (d : Int) (ub : ExtRat)
    (u : Nat) (m : Mat) (a c : Nat) (hc : c ≠ v) : deduceVMinusUStep up v e d ub u m a c = m a c := by
  unfold deduceVMinusUStep
  simp only []
  split_ifs
  · rfl
  · rfl
  · rfl
  · rw [Mat.set_apply, if_neg (fun h => hc h.2)]
  · split
    · rfl
    · rw [Mat.set_apply, if_neg (fun h => hc h.2)]

theorem deduceVMinusU_frame (up : Rat → ExtRat) (v last : Nat) (e : Nat → Int) (d : Int) (ub : ExtRat)
    (m : Mat) (a c : Nat) (hc : c ≠ v) : deduceVMinusU up v last e d ub m a c = m a c := by
  unfold deduceVMinusU
  induction last with
  | zero => rfl
  | succ k ih => simp only [loopUp]; rw [deduceVMinusUStep_frame _ _ _ _ _ _ _ _ _ hc, ih]

theorem deduceUMinusVStep_frame (up : Rat → ExtRat) (v : Nat) (e : Nat → Int) (d : Int) (lb : ExtRat)
    (u : Nat) (m : Mat) (a c : Nat) (ha : a ≠ v) : deduceUMinusVStep up v e d lb u m a c = m a c := by
  unfold deduceUMinusVStep
  simp only []
  split_ifs
  · rfl
  · rfl
  · rfl
  · rw [Mat.set_apply, if_neg (fun h => ha h.1)]
  · split
    · rfl
    · rw [Mat.set_apply, if_neg (fun h => ha h.1)]

theorem deduceUMinusV_frame (up : Rat → ExtRat) (v last : Nat) (e : Nat → Int) (d : Int) (lb : ExtRat)
    (m : Mat) (a c : Nat) (ha : a ≠ v) : deduceUMinusV up v last e d lb m a c = m a c := by
  unfold deduceUMinusV
  induction last with
  | zero => rfl
  | succ k ih => simp only [loopUp]; rw [deduceUMinusVStep_frame _ _ _ _ _ _ _ _ _ ha, ih]

/-! ## "exploit the upper / lower approximation" -/

theorem exploitUpper_frame (R : Rnd) (v w : Nat) (sc : Nat → Int) (scDen : Int) (pos : Acc) (m : Mat)
    (a c : Nat) (hc : c ≠ v) : exploitUpper R v w sc scDen pos m a c = m a c := by
  unfold exploitUpper
  simp only []
  split_ifs <;> first
    | rfl
    | rw [deduceVMinusU_frame _ _ _ _ _ _ _ _ _ hc, Mat.set_apply, if_neg (fun h => hc h.2)]
    | rw [Mat.set_apply, if_neg (fun h => hc h.2)]

theorem exploitLower_frame (R : Rnd) (v w : Nat) (sc : Nat → Int) (scDen : Int) (neg : Acc) (m : Mat)
    (a c : Nat) (ha : a ≠ v) : exploitLower R v w sc scDen neg m a c = m a c := by
  unfold exploitLower
  simp only []
  split_ifs <;> first
    | rfl
    | rw [deduceUMinusV_frame _ _ _ _ _ _ _ _ _ ha, Mat.set_apply, if_neg (fun h => ha h.1)]
    | rw [Mat.set_apply, if_neg (fun h => ha h.1)]

/-! ## `generalized_affine_image` -/

theorem addDbm_frame (m : Mat) (i j : Nat) (k : ExtRat) (a c : Nat) (h : ¬ (a = i ∧ c = j)) :
    addDbmConstraint m i j k a c = m a c := by
  rw [addDbm_apply, if_neg h]

theorem forgetAll_frame (rows v : Nat) (m : Mat) (a c : Nat) (ha : a ≠ v) (hc : c ≠ v) :
    forgetAll rows v m a c = m a c := by
  rw [forgetAll_apply, if_neg (by omega)]

theorem forgetBinary_frame (rows v : Nat) (m : Mat) (a c : Nat) (ha : a ≠ v) (hc : c ≠ v) :
    forgetBinary rows v m a c = m a c := by
  rw [forgetBinary_apply, if_neg (by omega)]

theorem genAffineImageGeneral_frame (R : Rnd) (n v w : Nat) (isLe : Bool) (e : Nat → Int) (b den : Int)
    (m : Mat) (a c : Nat) (ha : a ≠ v) (hc : c ≠ v) :
    genAffineImageGeneral R n v w isLe e b den m a c = m a c := by
  unfold genAffineImageGeneral
  simp only []
  split_ifs <;> first
    | rw [forgetAll_frame _ _ _ _ _ ha hc]
    | rw [deduceVMinusU_frame _ _ _ _ _ _ _ _ _ hc, addDbm_frame _ _ _ _ _ _ (fun h => hc h.2),
        forgetAll_frame _ _ _ _ _ ha hc]
    | rw [deduceUMinusV_frame _ _ _ _ _ _ _ _ _ ha, addDbm_frame _ _ _ _ _ _ (fun h => ha h.1),
        forgetAll_frame _ _ _ _ _ ha hc]
    | rw [addDbm_frame _ _ _ _ _ _ (fun h => hc h.2), forgetAll_frame _ _ _ _ _ ha hc]
    | rw [addDbm_frame _ _ _ _ _ _ (fun h => ha h.1), forgetAll_frame _ _ _ _ _ ha hc]

/-- Task B: `generalized_affine_image(var, ≤ / ≥, expr, den)` leaves every cell outside row and column
`var + 1` as it was (every branch, the general case included) -/
theorem genAffineImageCore_frame (R : Rnd) (n var : Nat) (isLe : Bool) (e : Nat → Int) (b den : Int) (m : Mat)
    (a c : Nat) (ha : a ≠ var + 1) (hc : c ≠ var + 1) :
    genAffineImageCore R n var isLe e b den m a c = m a c := by
  unfold genAffineImageCore
  simp only []
  split_ifs <;>
    simp only [addDbmConstraintQ, addDbm_apply, forgetAll_apply, forgetBinary_apply, loopShiftCol_apply,
      loopShiftRow_apply, Mat.set_apply, genAffineImageGeneral_frame _ _ _ _ _ _ _ _ _ _ _ ha hc,
      ha, hc, false_and, and_false, or_self, if_false]

end PPLV.WR
