import PPLV.WR.ReduceOctProofsPreserveBase
import Mathlib.Data.Finset.Card
/-!
# Octagon reduction keeps every point, part 4: the induction over pairs of non-singular leaders

`Bset i j` is the set of indices on a tight two-step path from `i` to `j`; a closure-redundant pair
`(i, j)` through `k` splits into `(i, k)`, `(k, j)` with strictly smaller sets (distinct non-singular leaders
lie on strictly positive cycles).  A family of pairs closed under this splitting all of whose
coherence-redundant members are known to hold, holds.
-/
namespace PPLV.WR
open ExtRat (fin pinf addUp halfUp)

/-- indices on a tight two-step path -/
def Bset {n : Nat} (c : OctM n) (i j : Nat) : Finset Nat :=
  (Finset.range (2 * n)).filter fun k => eadd (octFull c.e i k) (octFull c.e k j) ≤ octFull c.e i j

section closed
variable {n : Nat} {c : OctM n} (hc : c.IsStronglyClosed)
include hc

theorem Bset_ssubset_left {a b k : Nat} (_ha : a < 2 * n) (hb : NSL (2 * n) c.e b) (hk : NSL (2 * n) c.e k)
    (hkb : k ≠ b) {v : Rat} (hv : octFull c.e a b = fin v)
    (hle : eadd (octFull c.e a k) (octFull c.e k b) ≤ octFull c.e a b) : Bset c a k ⊂ Bset c a b := by
  have hsub : Bset c a k ⊆ Bset c a b := by
    intro l hl
    unfold Bset at hl ⊢
    rw [Finset.mem_filter, Finset.mem_range] at hl ⊢
    refine ⟨hl.1, ?_⟩
    have t := hc.tri l b k hl.1 hb.lt hk.lt
    have s1 := eadd_mono (ExtRat.le_rfl' (octFull c.e a l)) t
    rw [← eadd_assoc] at s1
    have s2 := eadd_mono hl.2 (ExtRat.le_rfl' (octFull c.e k b))
    exact ExtRat.le_trans' s1 (ExtRat.le_trans' s2 hle)
  rw [Finset.ssubset_iff_of_subset hsub]
  refine ⟨b, ?_, ?_⟩
  · unfold Bset
    rw [Finset.mem_filter, Finset.mem_range, octFull_self, eadd_zero_right]
    exact ⟨hb.lt, ExtRat.le_rfl' _⟩
  · intro hmem
    unfold Bset at hmem
    rw [Finset.mem_filter] at hmem
    have s2 := ExtRat.le_trans' (eadd_mono hmem.2 (ExtRat.le_rfl' (octFull c.e k b))) hle
    rw [hv, eadd_assoc] at s2
    obtain ⟨x, y, hx, hy, hxy⟩ := eadd_le_fin_inv s2
    cases hx
    obtain ⟨r, t, hr, ht, hrt⟩ := eadd_le_fin_inv (x := octFull c.e b k) (y := octFull c.e k b) (v := y)
      (by rw [hy]; exact ExtRat.le_rfl' _)
    have := NSL.cycle_pos hc hb hk (Ne.symm hkb) hr ht
    linarith

theorem Bset_ssubset_right {a b k : Nat} (ha : NSL (2 * n) c.e a) (_hb : b < 2 * n) (hk : NSL (2 * n) c.e k)
    (hka : k ≠ a) {v : Rat} (hv : octFull c.e a b = fin v)
    (hle : eadd (octFull c.e a k) (octFull c.e k b) ≤ octFull c.e a b) : Bset c k b ⊂ Bset c a b := by
  have hsub : Bset c k b ⊆ Bset c a b := by
    intro l hl
    unfold Bset at hl ⊢
    rw [Finset.mem_filter, Finset.mem_range] at hl ⊢
    refine ⟨hl.1, ?_⟩
    have t := hc.tri a l k ha.lt hl.1 hk.lt
    have s1 := eadd_mono t (ExtRat.le_rfl' (octFull c.e l b))
    rw [eadd_assoc] at s1
    have s2 := eadd_mono (ExtRat.le_rfl' (octFull c.e a k)) hl.2
    exact ExtRat.le_trans' s1 (ExtRat.le_trans' s2 hle)
  rw [Finset.ssubset_iff_of_subset hsub]
  refine ⟨a, ?_, ?_⟩
  · unfold Bset
    rw [Finset.mem_filter, Finset.mem_range, octFull_self, eadd_zero_left]
    exact ⟨ha.lt, ExtRat.le_rfl' _⟩
  · intro hmem
    unfold Bset at hmem
    rw [Finset.mem_filter] at hmem
    have s2 := ExtRat.le_trans' (eadd_mono (ExtRat.le_rfl' (octFull c.e a k)) hmem.2) hle
    rw [hv, ← eadd_assoc] at s2
    obtain ⟨x, y, hx, hy, hxy⟩ := eadd_le_fin_inv s2
    cases hy
    obtain ⟨r, t, hr, ht, hrt⟩ := eadd_le_fin_inv (x := octFull c.e a k) (y := octFull c.e k a) (v := x)
      (by rw [hx]; exact ExtRat.le_rfl' _)
    have := NSL.cycle_pos hc ha hk (Ne.symm hka) hr ht
    linarith

end closed

section ctx
variable {n : Nat} {c : OctM n} {succ : Nat → Nat} {nr : BMat} {p : Nat → Rat} (X : RCtx c succ nr p)
include X

/-- the induction over pairs of non-singular leaders -/
theorem RCtx.ok_of_family (C : Nat → Nat → Prop)
    (hC : ∀ a b, C a b → NSL (2 * n) c.e a ∧ NSL (2 * n) c.e b ∧ a ≠ b)
    (hcoh : ∀ a b, C a b → CohRed c.e a b → Ok c.e p a b)
    (hclo : ∀ a b k, C a b → NSL (2 * n) c.e k → k ≠ a → k ≠ b →
      eadd (octFull c.e a k) (octFull c.e k b) ≤ octFull c.e a b → octFull c.e a b ≠ pinf → C a k ∧ C k b) :
    ∀ a b, C a b → Ok c.e p a b := by
  suffices h : ∀ N a b, (Bset c a b).card < N → C a b → Ok c.e p a b from
    fun a b hab => h _ a b (Nat.lt_succ_self _) hab
  intro N
  induction N with
  | zero => intro a b h; omega
  | succ N ih =>
    intro a b hcard hab
    obtain ⟨ha, hb, hne⟩ := hC a b hab
    cases hv : octFull c.e a b with
    | pinf => exact Ok.of_pinf hv
    | fin v =>
      rcases X.trichotomy ha hb hne with h | h | h
      · exact h
      · exact hcoh a b hab h
      · obtain ⟨k, hk, hka, hkb, hle⟩ := h
        obtain ⟨c1, c2⟩ := hclo a b k hab hk hka hkb hle (by rw [hv]; intro e; cases e)
        have l1 := Finset.card_lt_card (Bset_ssubset_left X.hc ha.lt hb hk hkb hv hle)
        have l2 := Finset.card_lt_card (Bset_ssubset_right X.hc ha hb.lt hk hka hv hle)
        exact Ok.trans (ih a k (by omega) c1) (ih k b (by omega) c2) hle

end ctx

end PPLV.WR
