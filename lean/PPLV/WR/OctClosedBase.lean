import PPLV.WR.ReduceProofsBase
/-!
# `strong_closure_assign` establishes `IsStronglyClosed`: shared definitions

On the full (coherent) view of the matrix, one iteration of the outer loop of `strong_closure_assign` for the variable
`h` is the *weak* Floyd–Warshall step `octT h`: every cell is relaxed through the pivot `2h` and through the pivot
`2h+1`, both read from a snapshot (the copies `vec_k`, `vec_ck`) — but not through `2h` and then `2h+1`.  The code runs
the whole pass twice.  `OctTwoClosed` is the combinatorial fact that two passes close every matrix with a zero
diagonal (when no diagonal entry becomes negative).
-/
namespace PPLV.WR
open ExtRat (fin pinf minA)

/-- the weak step for the pivot pair `2h`, `2h+1` -/
def octT (h : Nat) (d : Mat) : Mat :=
  { f := fun i j => minA (d i j) (minA (eadd (d i (2*h)) (d (2*h) j)) (eadd (d i (2*h+1)) (d (2*h+1) j))) }

theorem octT_apply (h : Nat) (d : Mat) (i j : Nat) :
    octT h d i j = minA (d i j) (minA (eadd (d i (2*h)) (d (2*h) j)) (eadd (d i (2*h+1)) (d (2*h+1) j))) := rfl

/-- one pass: `h = 0, 1, …, n-1` -/
def octPass (n : Nat) (d : Mat) : Mat := loopUp n octT d

/-- the two passes of the code -/
def octTwo (n : Nat) (d : Mat) : Mat := octPass n (octPass n d)

/-- two passes of weak steps close a matrix on `2n` indices with zero diagonal, provided the result has no negative
diagonal entry -/
def OctTwoClosed : Prop :=
  ∀ (n : Nat) (d0 : Mat), (∀ i, i < 2 * n → d0 i i = fin 0) → (∀ i, i < 2 * n → fin 0 ≤ octTwo n d0 i i) →
    Closed (2 * n) (octTwo n d0)

end PPLV.WR
