import PPLV.WR.ReduceProofsMathDim
import Mathlib.Tactic.Linarith
/-!
# Reduction: loop-to-list lemmas for the readers of `redundancy_dbm`

`loopUp` bodies that append to a list / bump a counter, rewritten as `List.range` expressions; the counting
form of `bdsAffineDimension`; the list form of the three loops of `bdsMinimizedConstraints`.
-/
namespace PPLV.WR
open ExtRat (fin pinf)

/-- a `for` loop whose body appends `g i` -/
theorem loopUp_append {α : Type} (k : Nat) (g : Nat → List α) (init : List α) :
    loopUp k (fun i cs => cs ++ g i) init = init ++ (List.range k).flatMap g := by
  induction k with
  | zero => simp [loopUp]
  | succ k ih =>
    simp only [loopUp, ih, List.range_succ, List.flatMap_append, List.flatMap_cons, List.flatMap_nil,
      List.append_nil, List.append_assoc]

/-- a `for` loop whose body bumps a counter when `p i` -/
theorem loopUp_count_filter (k : Nat) (p : Nat → Bool) (init : Nat) :
    loopUp k (fun i a => if p i then a + 1 else a) init = init + ((List.range k).filter p).length := by
  induction k with
  | zero => simp [loopUp]
  | succ k ih =>
    simp only [loopUp, ih, List.range_succ, List.filter_append, List.length_append]
    by_cases h : p k
    · simp [h]; omega
    · simp [h]

-- `leaderCount n lead` (number of leaders among the dbm indices `1..n`) is defined in `ReduceProofsMathDim.lean`

/-- `affine_dimension()` counts the indices `1..n` that are their own predecessor -/
theorem bdsAffineDimension_eq_count (n : Nat) (m : Mat) :
    bdsAffineDimension n m = leaderCount n (bdsComputePredecessors (n+1) m) := by
  unfold bdsAffineDimension leaderCount
  have h : (fun (i : Nat) (affine_dim : Nat) =>
        if i = 0 then affine_dim else if bdsComputePredecessors (n+1) m i = i then affine_dim + 1 else affine_dim)
      = fun i a => if (i != 0 && bdsComputePredecessors (n+1) m i == i) then a + 1 else a := by
    funext i a
    by_cases h0 : i = 0
    · simp [h0]
    · by_cases h1 : bdsComputePredecessors (n+1) m i = i
      · simp [h0, h1]
      · simp [h0, h1]
  show loopUp (n+1) _ 0 = _
  rw [h, loopUp_count_filter]
  simp

/-- the count only depends on which indices are fixed points -/
theorem leaderCount_congr (n : Nat) (f g : Nat → Nat) (h : ∀ i, i ≤ n → (f i = i ↔ g i = i)) :
    leaderCount n f = leaderCount n g := by
  unfold leaderCount
  congr 1
  apply List.filter_congr
  intro i hi
  have hfg : (f i == i) = (g i == i) := by
    rw [Bool.eq_iff_iff, beq_iff_eq, beq_iff_eq]
    exact h i (by have := List.mem_range.1 hi; omega)
  rw [hfg]

end PPLV.WR
