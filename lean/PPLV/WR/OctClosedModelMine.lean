import PPLV.WR.OctClosedModelSweep
/-!
# Miné's lemma: strong coherence after closure gives a strongly closed matrix (pure `ExtRat` algebra)

For `R` closed and coherent on `N` indices, `mineS R i j = min (R i j) ((R i ī + R j̄ j) / 2)` satisfies the triangle
inequality and `mineS R i j ≤ (mineS R i ī + mineS R j̄ j) / 2`; its diagonal is zero.
-/
namespace PPLV.WR.OCM
open ExtRat

theorem half_eadd_self (x : ExtRat) : halfUp fin (eadd x x) = x := by
  cases x with
  | pinf => rfl
  | fin q =>
    show fin ((q + q) / 2) = fin q
    congr 1; ring

theorem minA_self (x : ExtRat) : minA x x = x := minA_eq_left (le_rfl' x)

theorem half_nonneg {x : ExtRat} (h : fin 0 ≤ x) : fin 0 ≤ halfUp fin x := by
  cases x with
  | pinf => exact le_pinf _
  | fin q =>
    rw [fin_le_fin] at h
    show fin 0 ≤ fin (q / 2)
    rw [fin_le_fin]; linarith

theorem mine_b {x y a b : ExtRat} (h : x ≤ eadd (eadd a b) a) :
    halfUp fin (eadd x y) ≤ eadd a (halfUp fin (eadd b y)) := by
  cases x <;> cases y <;> cases a <;> cases b <;> simp_all [eadd, addUp, halfUp]
  linarith

theorem mine_c {x y a b : ExtRat} (h : y ≤ eadd (eadd a b) a) :
    halfUp fin (eadd x y) ≤ eadd (halfUp fin (eadd x b)) a := by
  cases x <;> cases y <;> cases a <;> cases b <;> simp_all [eadd, addUp, halfUp]
  linarith

theorem mine_d {x y b b' : ExtRat} (h : fin 0 ≤ eadd b b') :
    halfUp fin (eadd x y) ≤ eadd (halfUp fin (eadd x b)) (halfUp fin (eadd b' y)) := by
  cases x <;> cases y <;> cases b <;> cases b' <;> simp_all [eadd, addUp, halfUp]
  linarith

/-- the half-sum of the two unary entries -/
def mineH (R : Mat) (i j : Nat) : ExtRat := halfUp fin (eadd (R i (cidx i)) (R (cidx j) j))

/-- the matrix after strong coherence -/
def mineS (R : Mat) (i j : Nat) : ExtRat := minA (R i j) (mineH R i j)

theorem mineS_le_H (R : Mat) (i j : Nat) : mineS R i j ≤ mineH R i j := minA_le_right _ _

theorem mineS_unary (R : Mat) (i : Nat) : mineS R i (cidx i) = R i (cidx i) := by
  unfold mineS mineH
  rw [cidx_cidx, half_eadd_self, minA_self]

theorem mineS_unary' (R : Mat) (j : Nat) : mineS R (cidx j) j = R (cidx j) j := by
  have := mineS_unary R (cidx j)
  rwa [cidx_cidx] at this

/-- strong coherence of the result -/
theorem mineS_coh (R : Mat) (i j : Nat) :
    mineS R i j ≤ halfUp fin (eadd (mineS R i (cidx i)) (mineS R (cidx j) j)) := by
  rw [mineS_unary, mineS_unary']
  exact mineS_le_H R i j

section
variable {n : Nat} {R : Mat} (hc : Closed (2 * n) R) (hcoh : CohM (2 * n) R)
include hc hcoh

omit hcoh in
theorem mineS_diag {i : Nat} (hi : i < 2 * n) : mineS R i i = fin 0 := by
  unfold mineS mineH
  rw [hc.diag i hi]
  apply minA_eq_left
  apply half_nonneg
  have := hc.tri i i (cidx i) hi hi (cidx_lt hi)
  rwa [hc.diag i hi] at this

/-- triangle inequality of the result -/
theorem mineS_tri {i j k : Nat} (hi : i < 2 * n) (hj : j < 2 * n) (hk : k < 2 * n) :
    mineS R i j ≤ eadd (mineS R i k) (mineS R k j) := by
  have hci := cidx_lt hi
  have hcj := cidx_lt hj
  have hck := cidx_lt hk
  have hH := mineS_le_H R i j
  have hR : mineS R i j ≤ R i j := minA_le_left _ _
  -- `R i ī ≤ 2 R i k + R k k̄`
  have u1 : R i (cidx i) ≤ eadd (eadd (R i k) (R k (cidx k))) (R i k) := by
    have t1 := hc.tri i (cidx i) (cidx k) hi hci hck
    have t2 := hc.tri i (cidx k) k hi hck hk
    have e : R (cidx k) (cidx i) = R i k := (hcoh i k hi hk).symm
    rw [e] at t1
    exact le_trans' t1 (eadd_mono t2 (le_rfl' _))
  -- `R j̄ j ≤ 2 R k j + R k̄ k`
  have u2 : R (cidx j) j ≤ eadd (eadd (R k j) (R (cidx k) k)) (R k j) := by
    have t1 := hc.tri (cidx j) j k hcj hj hk
    have t2 := hc.tri (cidx j) k (cidx k) hcj hk hck
    have e : R (cidx j) (cidx k) = R k j := (hcoh k j hk hj).symm
    rw [e] at t2
    exact le_trans' t1 (eadd_mono t2 (le_rfl' _))
  have u3 : fin 0 ≤ eadd (R (cidx k) k) (R k (cidx k)) := by
    have := hc.tri (cidx k) (cidx k) k hck hck hk
    rwa [hc.diag _ hck] at this
  unfold mineS at hH hR ⊢
  rcases minA_cases (R i k) (mineH R i k) with h1 | h1 <;>
    rcases minA_cases (R k j) (mineH R k j) with h2 | h2 <;> rw [h1, h2]
  · exact le_trans' hR (hc.tri i j k hi hj hk)
  · exact le_trans' hH (mine_b u1)
  · exact le_trans' hH (mine_c u2)
  · exact le_trans' hH (mine_d u3)

end

end PPLV.WR.OCM
