import PPLV.WR.OctClosedPathsPass2
/-!
# Two passes of weak octagonal steps close the matrix (`OctTwoClosed`)

* every entry of every iterate is `+∞` or the weight in the initial matrix of a walk (`OctReal`);
* with a non-negative diagonal after the two passes, the bound by the walks with distinct inner vertices
  (`octTwo_le_simple`) extends to all walks (`octTwo_le_walk`): a closed sub-walk weighs at least the diagonal entry;
* hence the triangle inequality: the two entries are realised by walks, whose concatenation is a walk.
-/
namespace PPLV.WR
open ExtRat

/-- every entry is `+∞` or the weight in `d0` of a walk through vertices `< 2n` -/
def OctReal (n : Nat) (d0 d : Mat) : Prop :=
  ∀ a b, d a b = pinf ∨ ∃ l : List Nat, (∀ v, v ∈ l → v < 2 * n) ∧ d a b = pw d0 a l b

theorem octReal_refl (n : Nat) (d0 : Mat) : OctReal n d0 d0 :=
  fun _ _ => Or.inr ⟨[], fun _ hv => absurd hv List.not_mem_nil, rfl⟩

theorem octReal_step {n h : Nat} {d0 d : Mat} (hh : h < n) (hr : OctReal n d0 d) : OctReal n d0 (octT h d) := by
  intro a b
  rcases octT_cases h d a b with e | ⟨k, hk, e⟩
  · rw [e]; exact hr a b
  · rw [e]
    have hk2 : k < 2 * n := by omega
    rcases hr a k with e1 | ⟨l1, b1, e1⟩
    · left; rw [e1, eadd_pinf_left]
    · rcases hr k b with e2 | ⟨l2, b2, e2⟩
      · left; rw [e2, eadd_pinf_right]
      · right
        refine ⟨l1 ++ k :: l2, fun v hv => ?_, ?_⟩
        · rcases List.mem_append.1 hv with hv | hv
          · exact b1 v hv
          · rcases List.mem_cons.1 hv with rfl | hv
            · exact hk2
            · exact b2 v hv
        · rw [pw_append, e1, e2]

theorem octReal_pass {n : Nat} {d0 d : Mat} (hr : OctReal n d0 d) : OctReal n d0 (octPass n d) :=
  octLoopUp_ind (fun _ d => OctReal n d0 d) n octT d hr (fun _ ht _ hs => octReal_step ht hs)

/-- with a non-negative diagonal, every entry of the result is below the weight of every walk -/
theorem octTwo_le_walk (n : Nat) (d0 : Mat) (hdiag : ∀ v, v < 2 * n → fin 0 ≤ octTwo n d0 v v) :
    ∀ (m : Nat) (l : List Nat), l.length ≤ m → (∀ v, v ∈ l → v < 2 * n) →
      ∀ a b, octTwo n d0 a b ≤ pw d0 a l b := by
  intro m
  induction m with
  | zero =>
    intro l hl hb a b
    have : l = [] := List.eq_nil_of_length_eq_zero (by omega)
    subst this
    exact octTwo_le_simple n d0 a b [] List.nodup_nil hb
  | succ m ih =>
    intro l hl hb a b
    by_cases hn : l.Nodup
    · exact octTwo_le_simple n d0 a b l hn hb
    · obtain ⟨l1, v, l2, l3, rfl⟩ := not_nodup_split hn
      simp only [List.length_append, List.length_cons] at hl
      have hv : v < 2 * n := hb v (by simp)
      have h2 : fin 0 ≤ pw d0 v l2 v :=
        le_trans' (hdiag v hv) (ih l2 (by omega) (fun u hu => hb u (by simp [hu])) v v)
      have h3 := ih (l1 ++ v :: l3) (by simp only [List.length_append, List.length_cons]; omega)
        (fun u hu => hb u (by
          rcases List.mem_append.1 hu with hu | hu
          · simp [hu]
          · rcases List.mem_cons.1 hu with hu | hu
            · simp [hu]
            · simp [hu])) a b
      rw [pw_append] at h3
      rw [pw_append, pw_append]
      exact le_trans' h3 (eadd_mono (le_rfl' _) (le_eadd_left h2))

/-- two passes of weak steps close a matrix with zero diagonal, when no diagonal entry of the result is negative -/
theorem octTwo_closed : OctTwoClosed := by
  intro n d0 hd0 hdiag
  have hR : OctReal n d0 (octTwo n d0) := octReal_pass (octReal_pass (octReal_refl n d0))
  constructor
  · intro i hi
    have h1 := octTwo_le_simple n d0 i i [] List.nodup_nil (fun _ hv => absurd hv List.not_mem_nil)
    rw [pw_nil, hd0 i hi] at h1
    exact DBM.le_antisymm' h1 (hdiag i hi)
  · intro i j k _ _ hk
    rcases hR i k with e1 | ⟨l1, b1, e1⟩
    · rw [e1, eadd_pinf_left]; exact le_pinf _
    · rcases hR k j with e2 | ⟨l2, b2, e2⟩
      · rw [e2, eadd_pinf_right]; exact le_pinf _
      · rw [e1, e2, ← pw_append]
        refine octTwo_le_walk n d0 hdiag _ (l1 ++ k :: l2) (Nat.le_refl _) (fun v hv => ?_) i j
        rcases List.mem_append.1 hv with hv | hv
        · exact b1 v hv
        · rcases List.mem_cons.1 hv with rfl | hv
          · exact hk
          · exact b2 v hv

end PPLV.WR
