import PPLV.WR.ReduceOct
import PPLV.WR.ClosureProofsFW
import PPLV.WR.ClosureProofsOct
/-!
# Reduction: shared definitions of the statements (closed matrices in stored form, zero-equivalence,
the specification of leader / predecessor maps and of `redundancy_dbm`)

The matrices of the code keep `+∞` on the main diagonal; `Closed` (of `ClosureProofsExact.lean`) speaks
about the matrix with the diagonal filled with zeros, as the closure kernels do between "fill" and "restore".
-/
namespace PPLV.WR
open ExtRat (fin pinf)

/-! ## bounded-difference shapes -/

/-- zero-equivalence of dbm indices, read on the stored matrix: equal, or on a zero-weight 2-cycle
(`is_additive_inverse(dbm[j][i], dbm[i][j])`) -/
def ZEq (c : Mat) (i j : Nat) : Prop := i = j ∨ ExtRat.isAddInv (c i j) (c j i) = true

instance (c : Mat) (i j : Nat) : Decidable (ZEq c i j) := by unfold ZEq; infer_instance

namespace DBM
variable {n : Nat}

/-- the stored matrix `c` (diagonal `+∞`) is shortest-path closed: with a zero diagonal it satisfies the
triangle inequality.  This is what `shortest_path_closure_assign` leaves when it does not mark the shape
empty (`DBM.closure_isClosed` below). -/
def IsClosed (c : DBM n) : Prop := Closed (n+1) (Mat.diagDown (n+1) (fin 0) c.e)

/-- the constraints kept by `redundancy_dbm` (`true` = redundant): every other entry is `+∞` -/
def reduced (c : DBM n) (red : BMat) : DBM n where
  e := bdsReducedMat c.e red
  diag := by
    intro i hi
    show (if red i i then pinf else c.e i i) = pinf
    split
    · rfl
    · exact c.diag i hi

end DBM

/-- `lead i` is the least index of the zero-equivalence class of `i` (indices `≤ n`) -/
structure IsLeaderMap (n : Nat) (c : Mat) (lead : Nat → Nat) : Prop where
  le : ∀ i, i ≤ n → lead i ≤ i
  zeq : ∀ i, i ≤ n → ZEq c (lead i) i
  least : ∀ i j, i ≤ n → j ≤ n → ZEq c j i → lead i ≤ j

/-- `pred i` is the greatest index below `i` in the class of `i`, or `i` itself when `i` is the least -/
structure IsPredMap (n : Nat) (c : Mat) (pred : Nat → Nat) : Prop where
  le : ∀ i, i ≤ n → pred i ≤ i
  zeq : ∀ i, i ≤ n → ZEq c (pred i) i
  greatest : ∀ i j, i ≤ n → pred i < j → j < i → ¬ ZEq c j i
  self : ∀ i j, i ≤ n → pred i = i → j < i → ¬ ZEq c j i

/-- what the three steps of `shortest_path_reduction_assign` leave in `redundancy_dbm`: a bit is *cleared*
(the constraint is kept) exactly for
* (A) a pair of leaders `(i, j)` whose entry is not matched by the sum through any leader `k` — read on the
  stored matrix, so `k = i`, `k = j` (diagonal `+∞`) never match a finite entry and an entry `+∞` (in
  particular `i = j`) is always matched;
* (B) the upward chain `(pred j, j)` of a non-leader `j`;
* (C) the closing edge `(i, lead i)` from the greatest element `i` of a non-singleton class to its leader. -/
structure IsReduction (n : Nat) (c : Mat) (lead pred : Nat → Nat) (red : BMat) : Prop where
  spec : ∀ i j, i ≤ n → j ≤ n → (red i j = false ↔
      (lead i = i ∧ lead j = j ∧ ∀ k, k ≤ n → lead k = k → ¬ (eadd (c i k) (c k j) ≤ c i j))
    ∨ (i < j ∧ pred j = i)
    ∨ (j < i ∧ lead i = j ∧ ∀ k, k ≤ n → i < k → ¬ ZEq c k i))

/-! ## octagonal shapes -/

/-- zero-equivalence of octagon indices on the stored matrix, as `compute_successors` / `compute_leaders`
test it for `j < i`: `is_additive_inverse(matrix[ci][cj], matrix[i][j])` -/
def OZEq (c : Mat) (i j : Nat) : Prop := i = j ∨ ExtRat.isAddInv (octFull c i j) (octFull c j i) = true

instance (c : Mat) (i j : Nat) : Decidable (OZEq c i j) := by unfold OZEq; infer_instance

namespace OctM
variable {n : Nat}

/-- the stored matrix `c` is strongly closed: the full view with zero diagonal satisfies the triangle
inequality and strong coherence `m_ij ≤ (m_{i,ci} + m_{cj,j}) / 2`.  (That `strong_closure_assign` establishes
this for exact arithmetic is not proved in `ClosureProofsOct.lean`; the driver `pplv_wrr` evaluates
`isStronglyClosedB` (`ReduceOct.lean`) on every journalled matrix.) -/
structure IsStronglyClosed (c : OctM n) : Prop where
  tri : ∀ i j k, i < 2 * n → j < 2 * n → k < 2 * n →
    octFull c.e i j ≤ eadd (octFull c.e i k) (octFull c.e k j)
  coh : ∀ i j, i < 2 * n → j < 2 * n → i ≠ j →
    octFull c.e i j ≤ ExtRat.halfUp fin (eadd (octFull c.e i (cidx i)) (octFull c.e (cidx j) j))

/-- the matrix left by `strong_reduction_assign` (`non_red`: `true` = kept) -/
def reduced (c : OctM n) (non_red : BMat) : OctM n where
  e := octReducedMat c.e non_red
  diag := by
    intro i hi
    show (if non_red i i then c.e i i else pinf) = pinf
    split
    · exact c.diag i hi
    · rfl

end OctM

end PPLV.WR
