import PPLV.WR.ReduceProofsBase
/-!
# Reduction (BD shapes): closedness of the stored closure, zero-equivalence is an equivalence
-/
namespace PPLV.WR
open ExtRat (fin pinf)

theorem Closed.congr {R : Nat} {c c' : Mat} (h : ∀ i j, i < R → j < R → c' i j = c i j)
    (hc : Closed R c) : Closed R c' := by
  refine ⟨fun i hi => by rw [h i i hi hi]; exact hc.diag i hi, ?_⟩
  intro i j k hi hj hk
  rw [h i j hi hj, h i k hi hk, h k j hk hj]
  exact hc.tri i j k hi hj hk

theorem DBM.closure_isClosed {n : Nat} (m : DBM n) (hne : DBM.closureEmpty upId m = false) :
    (DBM.closure upId m).IsClosed := by
  have hc := DBM.closure_core_closed m hne
  refine Closed.congr ?_ hc
  intro i j hi hj
  show Mat.diagDown (n+1) (fin 0) (Mat.diagDown (n+1) pinf (bdsCore upId (n+1) m.e)) i j = _
  rw [Mat.diagDown_apply, Mat.diagDown_apply]
  by_cases hij : i = j
  · subst hij
    rw [if_pos ⟨rfl, hi⟩]
    exact (hc.diag i hi).symm
  · rw [if_neg (by omega), if_neg (by omega)]
    rfl

/-! ## `isAddInv` -/

theorem ExtRat.isAddInv_iff (a b : ExtRat) :
    ExtRat.isAddInv a b = true ↔ ∃ x y, a = fin x ∧ b = fin y ∧ x + y = 0 := by
  cases a <;> cases b <;> simp [ExtRat.isAddInv]

theorem ExtRat.isAddInv_comm (a b : ExtRat) : ExtRat.isAddInv a b = ExtRat.isAddInv b a := by
  cases a <;> cases b <;> simp [ExtRat.isAddInv, add_comm]

/-! ## zero-equivalence -/

theorem ZEq.refl (c : Mat) (i : Nat) : ZEq c i i := Or.inl rfl

theorem ZEq.symm {c : Mat} {i j : Nat} (h : ZEq c i j) : ZEq c j i := by
  rcases h with h | h
  · exact Or.inl h.symm
  · exact Or.inr (by rw [ExtRat.isAddInv_comm]; exact h)

theorem ZEq.comm {c : Mat} {i j : Nat} : ZEq c i j ↔ ZEq c j i := ⟨ZEq.symm, ZEq.symm⟩

/-- off the diagonal the zero-diagonal view is the stored matrix -/
theorem DBM.IsClosed.tri' {n : Nat} {c : DBM n} (hc : c.IsClosed) {i j k : Nat}
    (hi : i ≤ n) (hj : j ≤ n) (hk : k ≤ n) (hij : i ≠ j) (hik : i ≠ k) (hkj : k ≠ j) :
    c.e i j ≤ eadd (c.e i k) (c.e k j) := by
  have h := hc.tri i j k (by omega) (by omega) (by omega)
  rw [Mat.diagDown_apply, Mat.diagDown_apply, Mat.diagDown_apply,
    if_neg (by omega), if_neg (by omega), if_neg (by omega)] at h
  exact h

/-- a 2-cycle has non-negative weight -/
theorem DBM.IsClosed.cyc {n : Nat} {c : DBM n} (hc : c.IsClosed) {i k : Nat}
    (hi : i ≤ n) (hk : k ≤ n) (hik : i ≠ k) : fin 0 ≤ eadd (c.e i k) (c.e k i) := by
  have h := hc.tri i i k (by omega) (by omega) (by omega)
  rw [Mat.diagDown_apply, Mat.diagDown_apply, Mat.diagDown_apply,
    if_pos ⟨rfl, by omega⟩, if_neg (by omega), if_neg (by omega)] at h
  exact h

theorem ZEq.trans {n : Nat} {c : DBM n} (hc : c.IsClosed) {i j k : Nat} (hi : i ≤ n) (hj : j ≤ n)
    (hk : k ≤ n) (h1 : ZEq c.e i j) (h2 : ZEq c.e j k) : ZEq c.e i k := by
  rcases h1 with h1 | h1
  · subst h1; exact h2
  rcases h2 with h2 | h2
  · subst h2; exact Or.inr h1
  by_cases hik : i = k
  · exact Or.inl hik
  by_cases hij : i = j
  · subst hij; exact Or.inr h2
  by_cases hjk : j = k
  · subst hjk; exact Or.inr h1
  right
  obtain ⟨a, b, ha, hb, hab⟩ := (ExtRat.isAddInv_iff _ _).1 h1
  obtain ⟨a', b', ha', hb', hab'⟩ := (ExtRat.isAddInv_iff _ _).1 h2
  have t1 := hc.tri' hi hk hj hik hij hjk
  have t2 := hc.tri' hk hi hj (Ne.symm hik) (Ne.symm hjk) (Ne.symm hij)
  have t3 := hc.cyc hi hk hik
  rw [ha, ha'] at t1
  rw [hb, hb'] at t2
  rw [ExtRat.isAddInv_iff]
  cases hx : c.e i k with
  | pinf => rw [hx] at t1; simp [eadd, ExtRat.addUp] at t1
  | fin x =>
    cases hy : c.e k i with
    | pinf => rw [hy] at t2; simp [eadd, ExtRat.addUp] at t2
    | fin y =>
      rw [hx] at t1 t3
      rw [hy] at t2 t3
      simp only [eadd, ExtRat.addUp, ExtRat.fin_le_fin] at t1 t2 t3
      exact ⟨x, y, rfl, rfl, by linarith⟩

end PPLV.WR
