import PPLV.WR.ReduceUBOctProofs
import PPLV.WR.ReduceOctProofsBase
import PPLV.WR.ReduceProofsUBCompleteEdge
/-!
# `Octagonal_Shape::upper_bound_assign_if_exact`, answer `false`: groundwork

* `octUB_false_tuple`: the answer `false` exhibits `(i, j, k, ℓ)` at which the eight strict conditions of the
  test hold, read on `octFull` of the pointwise maximum (full coherent view, zero diagonal);
* `OctM.join_isStronglyClosed`: the pointwise maximum of two strongly closed matrices is strongly closed;
* `OctM.IsStronglyClosed.closedFull`: the full view of a strongly closed matrix is `Closed (2n)`;
* `OctM.point_of_potential_below`: a potential (coherent or not) of a matrix below the full view gives,
  after the symmetrisation `P t = (q t - q (cidx t)) / 2`, a point of the octagon with `oval x = P`.

(The construction of the point of the join outside both operands — four applications of `Closed.addEdge` to the
full view of the join, for the two violated cells and their coherent twins — is in
`ReduceProofsUBCompleteOctLeaves.lean`, `…OctPairs.lean`, `…OctMain.lean`.)
-/
namespace PPLV.WR
open ExtRat (fin pinf addUp halfUp)

/-! ## the tuple -/

/-- the eight strict conditions of the test at `(i, j, k, ℓ)`, `V` the full view of the upper bound -/
structure OctUBFalseAt (x y : Mat) (i j k l : Nat) : Prop where
  c1 : ¬ (y i j ≤ x i j)
  c2 : ¬ (x k l ≤ y k l)
  c3 : ¬ (eadd (octFull (matMax x y) i l) (octFull (matMax x y) k j) ≤ eadd (x i j) (y k l))
  c4 : ¬ (eadd (octFull (matMax x y) i (cidx k)) (octFull (matMax x y) (cidx j) l) ≤ eadd (x i j) (y k l))
  c5 : ¬ (eadd (eadd (octFull (matMax x y) i l) (octFull (matMax x y) i (cidx k)))
        (octFull (matMax x y) (cidx j) j) ≤ eadd (eadd (x i j) (y k l)) (x i j))
  c6 : ¬ (eadd (eadd (octFull (matMax x y) k j) (octFull (matMax x y) (cidx j) l))
        (octFull (matMax x y) i (cidx i)) ≤ eadd (eadd (x i j) (y k l)) (x i j))
  c7 : ¬ (eadd (eadd (octFull (matMax x y) i l) (octFull (matMax x y) (cidx j) l))
        (octFull (matMax x y) k (cidx k)) ≤ eadd (eadd (x i j) (y k l)) (y k l))
  c8 : ¬ (eadd (eadd (octFull (matMax x y) k j) (octFull (matMax x y) i (cidx k)))
        (octFull (matMax x y) (cidx l) l) ≤ eadd (eadd (x i j) (y k l)) (y k l))

theorem octFull_read (ub : Mat) (a b : Nat) :
    (if a = b then fin 0 else if b < rowSize a then ub a b else ub (cidx b) (cidx a)) = octFull ub a b := rfl

theorem octFull_read_cidx (ub : Mat) (a k : Nat) :
    (if a = cidx k then fin 0 else if cidx k < rowSize a then ub a (cidx k) else ub k (cidx a)) =
      octFull ub a (cidx k) := by
  rw [← octFull_read, cidx_cidx]

theorem octFull_read_cidx' (ub : Mat) (j b : Nat) :
    (if cidx j = b then fin 0 else if b < rowSize (cidx j) then ub (cidx j) b else ub (cidx b) j) =
      octFull ub (cidx j) b := by
  rw [← octFull_read, cidx_cidx]

theorem octFull_read_unary (ub : Mat) (a : Nat) : ub a (cidx a) = octFull ub a (cidx a) :=
  raw_eq_octFull ub (cidx_lt_rowSize a) (cidx_ne a).symm

theorem octFull_read_unary' (ub : Mat) (a : Nat) : ub (cidx a) a = octFull ub (cidx a) a :=
  raw_eq_octFull ub (lt_rowSize_cidx a) (cidx_ne a)

/-- the tuple at which the loops return `false` (whatever the bits are) -/
theorem octUB_false_tuple (n : Nat) (x y : Mat) (xr yr : BMat)
    (ht : octUpperBoundIfExact upId n x y xr yr = false) :
    ∃ i j k l, i < 2 * n ∧ j < rowSize i ∧ k < 2 * n ∧ l < rowSize k ∧ OctUBFalseAt x y i j k l := by
  unfold octUpperBoundIfExact at ht
  simp only [List.all_eq_false, List.mem_reverse, List.mem_range, Bool.or_eq_true, not_or,
    Bool.not_eq_true, Bool.not_eq_false, decide_eq_true_eq,
    ExtRat.ltB, Bool.not_not, Bool.not_eq_eq_eq_not, Bool.not_true] at ht
  obtain ⟨i, hi, j, hj, ⟨_, h1⟩, k, hk, l, hl, ⟨_, h2⟩, ⟨⟨h3, h4⟩, ⟨h5, h6⟩, h7, h8⟩⟩ := ht
  rw [octFull_read, octFull_read] at h3
  rw [octFull_read_cidx, octFull_read_cidx'] at h4
  rw [octFull_read, octFull_read_cidx, octFull_read_unary'] at h5
  rw [octFull_read, octFull_read_cidx', octFull_read_unary] at h6
  rw [octFull_read, octFull_read_cidx', octFull_read_unary] at h7
  rw [octFull_read, octFull_read_cidx, octFull_read_unary'] at h8
  exact ⟨i, j, k, l, hi, hj, hk, hl, h1, h2, h3, h4, h5, h6, h7, h8⟩

/-! ## the join is strongly closed -/

theorem ExtRat.maxA_self (a : ExtRat) : ExtRat.maxA a a = a := by
  unfold ExtRat.maxA; split <;> rfl

theorem octFull_matMax (x y : Mat) (a b : Nat) :
    octFull (matMax x y) a b = ExtRat.maxA (octFull x a b) (octFull y a b) := by
  unfold octFull
  split
  · rw [ExtRat.maxA_self]
  · unfold Mat.mAt
    split <;> rfl

theorem halfUp_mono {a b : ExtRat} (h : a ≤ b) : halfUp fin a ≤ halfUp fin b := by
  cases a <;> cases b <;> simp_all [halfUp]
  linarith

namespace OctM
variable {n : Nat}

theorem full_le_join_left (x y : OctM n) (a b : Nat) : octFull x.e a b ≤ octFull (join x y).e a b := by
  show _ ≤ octFull (matMax x.e y.e) a b
  rw [octFull_matMax]; exact ExtRat.le_maxA_left _ _

theorem full_le_join_right (x y : OctM n) (a b : Nat) : octFull y.e a b ≤ octFull (join x y).e a b := by
  show _ ≤ octFull (matMax x.e y.e) a b
  rw [octFull_matMax]; exact ExtRat.le_maxA_right _ _

theorem join_full_cases (x y : OctM n) (a b : Nat) :
    octFull (join x y).e a b = octFull x.e a b ∨ octFull (join x y).e a b = octFull y.e a b := by
  show octFull (matMax x.e y.e) a b = _ ∨ octFull (matMax x.e y.e) a b = _
  rw [octFull_matMax]; exact ExtRat.maxA_cases _ _

/-- the pointwise maximum of two strongly closed matrices is strongly closed -/
theorem join_isStronglyClosed {x y : OctM n} (hx : x.IsStronglyClosed) (hy : y.IsStronglyClosed) :
    (join x y).IsStronglyClosed := by
  constructor
  · intro i j k hi hj hk
    rcases join_full_cases x y i j with e | e <;> rw [e]
    · exact ExtRat.le_trans' (hx.tri i j k hi hj hk)
        (eadd_mono (full_le_join_left x y i k) (full_le_join_left x y k j))
    · exact ExtRat.le_trans' (hy.tri i j k hi hj hk)
        (eadd_mono (full_le_join_right x y i k) (full_le_join_right x y k j))
  · intro i j hi hj hij
    rcases join_full_cases x y i j with e | e <;> rw [e]
    · exact ExtRat.le_trans' (hx.coh i j hi hj hij)
        (halfUp_mono (eadd_mono (full_le_join_left x y _ _) (full_le_join_left x y _ _)))
    · exact ExtRat.le_trans' (hy.coh i j hi hj hij)
        (halfUp_mono (eadd_mono (full_le_join_right x y _ _) (full_le_join_right x y _ _)))

/-- the full view of a strongly closed matrix is shortest-path closed on the `2n` indices -/
theorem IsStronglyClosed.closedFull {c : OctM n} (hc : c.IsStronglyClosed) :
    Closed (2 * n) { f := octFull c.e } :=
  ⟨fun i _ => octFull_self c.e i, fun i j k hi hj hk => hc.tri i j k hi hj hk⟩

/-- strong coherence, diagonal included -/
theorem IsStronglyClosed.coh' {c : OctM n} (hc : c.IsStronglyClosed) {i j : Nat} (hi : i < 2 * n)
    (hj : j < 2 * n) : octFull c.e i j ≤ halfUp fin (eadd (octFull c.e i (cidx i)) (octFull c.e (cidx j) j)) := by
  by_cases hij : i = j
  · subst hij
    have := hc.tri i i (cidx i) hi hi (cidx_lt hi)
    rw [octFull_self] at this ⊢
    cases h1 : octFull c.e i (cidx i) <;> cases h2 : octFull c.e (cidx i) i <;> rw [h1, h2] at this <;>
      simp_all [eadd, addUp, halfUp]
    linarith
  · exact hc.coh i j hi hj hij

/-- symmetrisation: a potential of a matrix below the full view, made coherent, is a point of the octagon -/
theorem point_of_potential_below (c : OctM n) {d : Mat} (hd : ∀ u v, d u v ≤ octFull c.e u v)
    {q : Nat → Rat} (hq : Holds (SB (2 * n)) q d) :
    ∃ x : Nat → Rat, c.Sat x ∧ ∀ t, oval x t = (q t - q (cidx t)) / 2 := by
  have hv : ∀ t, oval (fun h => (q (2 * h) - q (cidx (2 * h))) / 2) t = (q t - q (cidx t)) / 2 := by
    intro t
    unfold oval
    split
    · rename_i ht
      have : 2 * (t / 2) = t := by omega
      show (q (2 * (t / 2)) - q (cidx (2 * (t / 2)))) / 2 = _
      rw [this]
    · rename_i ht
      have e : 2 * (t / 2) = cidx t := by
        have := cidx_spec t; omega
      show -((q (2 * (t / 2)) - q (cidx (2 * (t / 2)))) / 2) = _
      rw [e, cidx_cidx]; ring
  refine ⟨fun h => (q (2 * h) - q (cidx (2 * h))) / 2, ?_, hv⟩
  intro i j hi hj
  rw [hv, hv]
  by_cases hij : i = j
  · rw [hij, c.diag j (by omega)]; exact ExtRat.le_pinf _
  · have hjn : j < 2 * n := lt_of_lt_of_le hj (rowSize_le hi)
    rw [raw_eq_octFull c.e hj hij]
    have h1 := ExtRat.le_trans' (hq i j ⟨hi, hjn⟩) (hd i j)
    have h2 := ExtRat.le_trans' (hq (cidx j) (cidx i) ⟨cidx_lt hjn, cidx_lt hi⟩) (hd (cidx j) (cidx i))
    rw [← octFull_coh c.e i j] at h2
    cases hw : octFull c.e i j with
    | pinf => exact ExtRat.le_pinf _
    | fin w =>
      rw [hw, ExtRat.fin_le_fin] at h1 h2
      rw [ExtRat.fin_le_fin]
      linarith

end OctM
end PPLV.WR
