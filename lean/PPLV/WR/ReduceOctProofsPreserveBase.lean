import PPLV.WR.ReduceOctProofsSpec
import Mathlib.Tactic.Ring
/-!
# Octagon reduction keeps every point, part 1: the setting (`RCtx`), `Ok i j` (the point satisfies the full-view
cell), twins, exact sums inside a class, non-singular leaders, the trichotomy kept / coherence-redundant /
closure-redundant read on the full view
-/
namespace PPLV.WR
open ExtRat (fin pinf addUp halfUp)

/-- the setting of `oct_reduction_preserves`: `p` is the coherent potential of a point that satisfies every
cell that is certainly kept -/
structure RCtx {n : Nat} (c : OctM n) (succ : Nat → Nat) (nr : BMat) (p : Nat → Rat) : Prop where
  hc : c.IsStronglyClosed
  hs : IsOctSucc (2 * n) c.e succ
  hk : OctKept (2 * n) c.e succ nr
  hp : Coh p
  hsat : ∀ i j, i < 2 * n → j < rowSize i → nr i j = true → fin (p j - p i) ≤ c.e i j

/-- the potential satisfies the full-view cell `(i, j)` -/
def Ok (m : Mat) (p : Nat → Rat) (i j : Nat) : Prop := fin (p j - p i) ≤ octFull m i j

theorem Ok.self (m : Mat) (p : Nat → Rat) (i : Nat) : Ok m p i i := by
  unfold Ok; rw [octFull_self, sub_self]; exact ExtRat.le_rfl' _

theorem Ok.of_pinf {m : Mat} {p : Nat → Rat} {i j : Nat} (h : octFull m i j = pinf) : Ok m p i j := by
  unfold Ok; rw [h]; exact ExtRat.le_pinf _

theorem Ok.twin {m : Mat} {p : Nat → Rat} (hp : Coh p) {i j : Nat} (h : Ok m p (cidx j) (cidx i)) : Ok m p i j := by
  unfold Ok at *
  rw [octFull_coh' m j i, hp, hp] at h
  have e : p j - p i = -p i - -p j := by ring
  rw [e]; exact h

theorem Ok.twin_iff {m : Mat} {p : Nat → Rat} (hp : Coh p) {i j : Nat} : Ok m p (cidx j) (cidx i) ↔ Ok m p i j :=
  ⟨Ok.twin hp, fun h => Ok.twin hp (by rw [cidx_cidx, cidx_cidx]; exact h)⟩

theorem fin_le_eadd {x y : Rat} {a b : ExtRat} (h1 : fin x ≤ a) (h2 : fin y ≤ b) : fin (x + y) ≤ eadd a b :=
  ExtRat.fin_le_addUp (fun _ => ExtRat.le_rfl' _) h1 h2

/-- a cell that is at least a two-step sum follows from the two steps -/
theorem Ok.trans {m : Mat} {p : Nat → Rat} {i k j : Nat} (h1 : Ok m p i k) (h2 : Ok m p k j)
    (h : eadd (octFull m i k) (octFull m k j) ≤ octFull m i j) : Ok m p i j := by
  unfold Ok at *
  have := fin_le_eadd h1 h2
  have e : p k - p i + (p j - p k) = p j - p i := by ring
  rw [e] at this
  exact ExtRat.le_trans' this h

/-- a cell that is at least the half-sum of the two unary cells follows from them -/
theorem Ok.of_coh {m : Mat} {p : Nat → Rat} (hp : Coh p) {i j : Nat} (h1 : Ok m p i (cidx i))
    (h2 : Ok m p (cidx j) j)
    (h : halfUp fin (eadd (octFull m i (cidx i)) (octFull m (cidx j) j)) ≤ octFull m i j) : Ok m p i j := by
  unfold Ok at *
  rw [hp] at h1 h2
  have := ExtRat.fin_le_halfUp (up := fin) (fun _ => ExtRat.le_rfl' _) (fin_le_eadd h1 h2)
  have e : (-p i - p i + (p j - -p j)) / 2 = p j - p i := by ring
  rw [e] at this
  exact ExtRat.le_trans' this h

theorem eadd_zero_left (a : ExtRat) : eadd (fin 0) a = a := by
  cases a
  · show fin (0 + _) = _; rw [zero_add]
  · rfl

theorem eadd_zero_right (a : ExtRat) : eadd a (fin 0) = a := by rw [eadd_comm, eadd_zero_left]

section closed
variable {n : Nat} {c : OctM n} (hc : c.IsStronglyClosed)
include hc

/-- inside a class the full view adds up exactly (first step inside the class) -/
theorem zeq_add_left {i k j : Nat} (hi : i < 2 * n) (hk : k < 2 * n) (hj : j < 2 * n) (hz : OZEq c.e i k) :
    eadd (octFull c.e i k) (octFull c.e k j) = octFull c.e i j := by
  by_cases e : i = k
  · subst e; rw [octFull_self, eadd_zero_left]
  obtain ⟨a, a', ha, ha', hs⟩ := hz.fin_of_ne e
  have t1 := hc.tri i j k hi hj hk
  have t2 := hc.tri k j i hk hj hi
  rw [ha] at t1 ⊢
  rw [ha'] at t2
  cases hkj : octFull c.e k j with
  | pinf =>
    rw [hkj] at t2
    cases hij : octFull c.e i j with
    | pinf => rfl
    | fin v => rw [hij] at t2; exact absurd t2 (ExtRat.not_pinf_le_fin _)
  | fin b =>
    rw [hkj] at t1 t2
    obtain ⟨v, hv, hle⟩ := ExtRat.le_fin_inv t1
    rw [hv] at t2 ⊢
    have := ExtRat.fin_le_fin.1 t2
    show fin (a + b) = fin v
    congr 1; linarith

/-- the same with the second step inside the class -/
theorem zeq_add_right {i k j : Nat} (hi : i < 2 * n) (hk : k < 2 * n) (hj : j < 2 * n) (hz : OZEq c.e k j) :
    eadd (octFull c.e i k) (octFull c.e k j) = octFull c.e i j := by
  have := zeq_add_left hc (cidx_lt hj) (cidx_lt hk) (cidx_lt hi) (OZEq.cidx hz.symm)
  rw [octFull_coh' c.e j k, octFull_coh' c.e k i, octFull_coh' c.e j i, eadd_comm] at this
  exact this

omit hc in
/-- the twin of a least element of a non-singular class is one -/
theorem NSL.cidx {i : Nat} (h : NSL (2 * n) c.e i) : NSL (2 * n) c.e (cidx i) := by
  refine ⟨cidx_lt h.lt, fun t ht hz => ?_, fun hz => h.ns (by rw [cidx_cidx] at hz; exact hz.symm)⟩
  have hz' : OZEq c.e (WR.cidx t) i := by have := OZEq.cidx hz; rwa [cidx_cidx] at this
  have h1 := h.least _ (cidx_lt ht) hz'
  have s1 := cidx_spec i
  have s2 := cidx_spec t
  by_cases e : t = i
  · subst e; exact absurd hz h.ns
  · omega

omit hc in
theorem NSL.eq_of_zeq {i j : Nat} (hi : NSL (2 * n) c.e i) (hj : NSL (2 * n) c.e j) (hz : OZEq c.e i j) : i = j := by
  have := hi.least j hj.lt hz.symm
  have := hj.least i hi.lt hz
  omega

/-- distinct non-singular leaders lie on a strictly positive 2-cycle -/
theorem NSL.cycle_pos {i j : Nat} (hi : NSL (2 * n) c.e i) (hj : NSL (2 * n) c.e j) (hne : i ≠ j)
    {a b : Rat} (h1 : octFull c.e i j = fin a) (h2 : octFull c.e j i = fin b) : 0 < a + b := by
  have h := hc.cycle_nonneg c hi.lt hj.lt h1 h2
  by_contra hcon
  exact hne (NSL.eq_of_zeq hi hj (OZEq.of_fin h1 h2 (by linarith)))

omit hc in
/-- a non-singular index has a positive unary 2-cycle (`hc` enters through `cycle_nonneg`) -/
theorem nonsing_pos (hc : c.IsStronglyClosed) {i : Nat} (hi : i < 2 * n) (hns : ¬ OZEq c.e i (WR.cidx i))
    {a b : Rat} (h1 : octFull c.e i (WR.cidx i) = fin a) (h2 : octFull c.e (WR.cidx i) i = fin b) : 0 < a + b := by
  have h := hc.cycle_nonneg c hi (cidx_lt hi) h1 h2
  by_contra hcon
  exact hns (OZEq.of_fin h1 h2 (by linarith))

end closed

/-! ## kept cells and the trichotomy -/

/-- redundant by strong coherence (full view) -/
def CohRed (m : Mat) (i j : Nat) : Prop :=
  j ≠ cidx i ∧ halfUp fin (eadd (octFull m i (cidx i)) (octFull m (cidx j) j)) ≤ octFull m i j

/-- redundant by strong closure through a third non-singular leader (full view) -/
def ClosRed (N : Nat) (m : Mat) (i j : Nat) : Prop :=
  ∃ k, NSL N m k ∧ k ≠ i ∧ k ≠ j ∧ eadd (octFull m i k) (octFull m k j) ≤ octFull m i j

section ctx
variable {n : Nat} {c : OctM n} {succ : Nat → Nat} {nr : BMat} {p : Nat → Rat} (X : RCtx c succ nr p)
include X

/-- a kept stored off-diagonal cell -/
theorem RCtx.ok_of_kept {i j : Nat} (hi : i < 2 * n) (hs : j < rowSize i) (hne : i ≠ j) (h : nr i j = true) :
    Ok c.e p i j := by
  unfold Ok
  rw [← raw_eq_octFull c.e hs hne]
  exact X.hsat i j hi hs h

theorem RCtx.trichotomy_stored {i j : Nat} (hi : NSL (2 * n) c.e i) (hj : NSL (2 * n) c.e j) (hne : i ≠ j)
    (hs : j < rowSize i) : Ok c.e p i j ∨ CohRed c.e i j ∨ ClosRed (2 * n) c.e i j := by
  by_cases h1 : CohRed c.e i j
  · exact Or.inr (Or.inl h1)
  by_cases h2 : ClosRed (2 * n) c.e i j
  · exact Or.inr (Or.inr h2)
  left
  refine X.ok_of_kept hi.lt hs hne (X.hk.lead i j hi hj hs hne h1 ?_)
  intro k hk hki hkj hle
  exact h2 ⟨k, hk, hki, hkj, hle⟩

/-- every pair of distinct non-singular leaders is kept, or redundant by coherence, or redundant by closure
(an unstored pair is its stored twin) -/
theorem RCtx.trichotomy {i j : Nat} (hi : NSL (2 * n) c.e i) (hj : NSL (2 * n) c.e j) (hne : i ≠ j) :
    Ok c.e p i j ∨ CohRed c.e i j ∨ ClosRed (2 * n) c.e i j := by
  by_cases hs : j < rowSize i
  · exact X.trichotomy_stored hi hj hne hs
  · have hs' := swap_stored hs
    have hne' : cidx j ≠ cidx i := fun e => hne (cidx_inj e).symm
    rcases X.trichotomy_stored (NSL.cidx hj) (NSL.cidx hi) hne' hs' with h | h | h
    · exact Or.inl (Ok.twin X.hp h)
    · right; left
      obtain ⟨h1, h2⟩ := h
      rw [cidx_cidx, cidx_cidx, octFull_coh' c.e j i, eadd_comm] at h2
      exact ⟨fun e => h1 (by rw [e, cidx_cidx]), h2⟩
    · right; right
      obtain ⟨k, hk, h1, h2, h3⟩ := h
      refine ⟨cidx k, NSL.cidx hk, fun e => h2 (by rw [← e, cidx_cidx]),
        fun e => h1 (by rw [← e, cidx_cidx]), ?_⟩
      have e1 : octFull c.e (cidx j) k = octFull c.e (cidx k) j := by
        have := octFull_coh' c.e j (cidx k); rw [cidx_cidx] at this; exact this
      have e2 : octFull c.e k (cidx i) = octFull c.e i (cidx k) := by
        have := octFull_coh' c.e (cidx k) i; rw [cidx_cidx] at this; exact this
      rw [e1, e2, octFull_coh' c.e j i, eadd_comm] at h3
      exact h3

end ctx

end PPLV.WR
