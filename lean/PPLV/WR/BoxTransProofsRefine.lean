import PPLV.WR.BoxTransProofsBase
import PPLV.WR.BoxTransProofsExpr
/-!
# C03 stage 4 — soundness of the interval constraints, `add_constraint_no_check` and the
interval-constraint arm of `refine_no_check`

Every function keeps the members that satisfy the constraint (`_sound`) and the dimension
(`_dim`).
-/
set_option linter.unusedVariables false
set_option linter.unusedSimpArgs false
set_option linter.unnecessarySeqFocus false
namespace PPLV.WR.BoxT
open PPLV.Interval
open PPLV.Interval.ExtRat (ninf fin pinf)

/-! ## interval constraints -/

theorem mem_universe (p : Policy) (a : Rat) : (Iv.universe p).mem p a := by
  constructor
  · simp [Iv.universe, setUnbounded, lowerOk, infOf]
  · simp [Iv.universe, setUnbounded, upperOk, infOf]

private theorem scalar_lower (q a : Rat) (h : q ≤ a) : sideOk Policy.scalar .lower ⟨fin q, false⟩ a := by
  simpa [sideOk, sideOkV, getOpen] using h
private theorem scalar_upper (q a : Rat) (h : a ≤ q) : sideOk Policy.scalar .upper ⟨fin q, false⟩ a := by
  simpa [sideOk, sideOkV, getOpen] using h

/-- `refine_existential(rel, q)` with a scalar: a member related to the scalar stays -/
theorem refineExistentialScalar_sound {p : Policy} {R : Rounding} (hR : R.Sound) {tv : Iv} {rel : Rel} {a q : Rat}
    (ha : tv.mem p a) (hrel : Rel.holds rel a q) : (refineExistentialScalar p R tv rel q).mem p a := by
  unfold refineExistentialScalar
  cases rel <;> simp only [Rel.holds] at hrel ⊢
  · -- eq
    subst hrel
    unfold bMax1 bMin1
    refine ⟨?_, ?_⟩
    · show lowerOk p (if _ then _ else _) a
      split_ifs
      · exact bAssign_sound' (t := .lower) hR (scalar_lower a a le_rfl)
      · exact ha.1
    · show upperOk p (if _ then _ else _) a
      split_ifs
      · exact bAssign_sound' (t := .upper) hR (scalar_upper a a le_rfl)
      · exact ha.2
  · -- lt
    split_ifs
    · exact ha
    · refine ⟨ha.1, ?_⟩
      apply bAssign_sound (t := .upper) hR
      simpa [sideOkV] using hrel
  · -- le
    split_ifs
    · exact ha
    · refine ⟨ha.1, ?_⟩
      apply bAssign_sound (t := .upper) hR
      simpa [sideOkV, getOpen] using hrel
  · -- gt
    split_ifs
    · exact ha
    · refine ⟨?_, ha.2⟩
      apply bAssign_sound (t := .lower) hR
      simpa [sideOkV] using hrel
  · -- ge
    split_ifs
    · exact ha
    · refine ⟨?_, ha.2⟩
      apply bAssign_sound (t := .lower) hR
      simpa [sideOkV, getOpen] using hrel
  · exact ha

theorem buildC_sound {p : Policy} {R : Rounding} (hR : R.Sound) {rel : Rel} {a q : Rat}
    (hrel : Rel.holds rel a q) : (buildC p R rel q).mem p a :=
  refineExistentialScalar_sound hR (mem_universe p a) hrel

theorem addConstraintIv_sound {p : Policy} {R : Rounding} (hR : R.Sound) {tv : Iv} {rel : Rel} {a q : Rat}
    (ha : tv.mem p a) (hrel : Rel.holds rel a q) : (addConstraintIv p R tv rel q).mem p a :=
  intersectAssign_encloses hR ha (buildC_sound hR hrel)

theorem build2_sound {p : Policy} {R : Rounding} (hR : R.Sound) {a : Rat} {c1 c2 : Option (Rel × Rat)}
    (h1 : ∀ r q, c1 = some (r, q) → Rel.holds r a q) (h2 : ∀ r q, c2 = some (r, q) → Rel.holds r a q) :
    (build2 p R c1 c2).mem p a := by
  unfold build2
  rcases c1 with _ | ⟨r1, q1⟩ <;> rcases c2 with _ | ⟨r2, q2⟩
  · exact mem_universe p a
  · exact buildC_sound hR (h2 r2 q2 rfl)
  · exact buildC_sound hR (h1 r1 q1 rfl)
  · exact addConstraintIv_sound hR (buildC_sound hR (h1 r1 q1 rfl)) (h2 r2 q2 rfl)

theorem ivOfInt_sound {p : Policy} {R : Rounding} (hR : R.Sound) (z : Int) : (ivOfInt p R z).mem p (z : Rat) := by
  unfold ivOfInt assign
  have hm : (⟨⟨fin (z : Rat), false⟩, ⟨fin (z : Rat), false⟩⟩ : Iv).mem Policy.scalar (z : Rat) :=
    ⟨scalar_lower _ _ le_rfl, scalar_upper _ _ le_rfl⟩
  rw [checkEmptyArg_of_mem hm]
  exact ⟨bAssign_sound' (t := .lower) hR hm.1, bAssign_sound' (t := .upper) hR hm.2⟩

example : (buildC Policy.rational Rounding.id .ge 3).mem Policy.rational 5 :=
  buildC_sound Rounding.id_sound (by norm_num [Rel.holds])
example : (build2 Policy.integer Rounding.int (some (.ge, 1/2)) (some (.lt, 7/2))).mem Policy.integer 2 :=
  build2_sound Rounding.int_sound (fun r q h => by cases h; norm_num [Rel.holds])
    (fun r q h => by cases h; norm_num [Rel.holds])
example : (ivOfInt Policy.floating Rounding.double 9007199254740993).mem Policy.floating 9007199254740993 := by
  simpa using ivOfInt_sound (p := Policy.floating) Rounding.double_sound 9007199254740993

/-! ## `add_interval_constraint_no_check` -/

/-- the constraint `denom * x_v + numer ⋈ 0` read on the point -/
def ivConHolds (ty : CType) (numer denom : Int) (xv : Rat) : Prop :=
  match ty with
  | .eq => (denom : Rat) * xv + (numer : Rat) = 0
  | .ge => 0 ≤ (denom : Rat) * xv + (numer : Rat)
  | .gt => 0 < (denom : Rat) * xv + (numer : Rat)

/-- the relation symbol of `refine_interval_no_check` -/
def ivRel (ty : CType) (denom : Int) : Rel :=
  match ty with
  | .eq => .eq
  | .ge => if denom > 0 then .ge else .le
  | .gt => if denom > 0 then .gt else .lt

/-- the relation symbol and the bound that `refine_interval_no_check` computes are implied by the
constraint -/
theorem ivCon_rel {ty : CType} {numer denom : Int} {xv : Rat} (hd : denom ≠ 0) (hc : ivConHolds ty numer denom xv) :
    Rel.holds (ivRel ty denom) xv (-((numer : Rat) / (denom : Rat))) := by
  have hd' : (denom : Rat) ≠ 0 := by exact_mod_cast hd
  have key : xv - (-((numer : Rat) / (denom : Rat))) = ((denom : Rat) * xv + (numer : Rat)) / (denom : Rat) := by
    rw [add_div, mul_div_cancel_left₀ xv hd']; ring
  rcases lt_or_gt_of_ne hd with hneg | hpos
  · have hn : (denom : Rat) < 0 := by exact_mod_cast hneg
    have hng : ¬ denom > 0 := by omega
    cases ty <;> simp only [ivConHolds] at hc <;> simp only [ivRel, hng, if_false, Rel.holds]
    · rw [hc, zero_div] at key; linarith
    · have := div_nonpos_of_nonneg_of_nonpos hc hn.le; linarith
    · have := div_neg_of_pos_of_neg hc hn; linarith
  · have hp : (0 : Rat) < (denom : Rat) := by exact_mod_cast hpos
    have hpg : denom > 0 := hpos
    cases ty <;> simp only [ivConHolds] at hc <;> simp only [ivRel, hpg, if_true, Rel.holds]
    · rw [hc, zero_div] at key; linarith
    · have := div_nonneg hc hp.le; linarith
    · have := div_pos hc hp; linarith

theorem addIntervalConstraintNoCheck_dim (cfg : Cfg) (b : Box) (v : Nat) (ty : CType) (numer denom : Int) :
    (addIntervalConstraintNoCheck cfg b v ty numer denom).dim = b.dim := by
  simp [addIntervalConstraintNoCheck, Box.dim, Box.resetEmptyUpToDate, Box.setIv]

theorem addIntervalConstraintNoCheck_sound {cfg : Cfg} (hS : cfg.Sound) {b : Box} {v : Nat} {ty : CType}
    {numer denom : Int} {x : Nat → Rat} (hv : v < b.dim) (hd : denom ≠ 0) (hx : b.mem cfg.p x)
    (hc : match ty with
      | .eq => (denom : Rat) * x v + (numer : Rat) = 0
      | .ge => 0 ≤ (denom : Rat) * x v + (numer : Rat)
      | .gt => 0 < (denom : Rat) * x v + (numer : Rat)) :
    (addIntervalConstraintNoCheck cfg b v ty numer denom).mem cfg.p x := by
  unfold addIntervalConstraintNoCheck
  apply Box.mem_resetEmptyUpToDate
  apply Box.mem_setIv_self hx
  have h := addConstraintIv_sound hS.R (hx.2 v hv) (ivCon_rel (ty := ty) (numer := numer) hd (by cases ty <;> exact hc))
  cases ty <;> exact h

example : (addIntervalConstraintNoCheck Cfg.mpq (Box.univ Policy.rational 2) 1 .ge (-3) 2).mem Policy.rational
    (fun _ => 2) := by
  apply addIntervalConstraintNoCheck_sound Cfg.mpq_sound (by decide) (by decide)
  · refine ⟨rfl, fun k hk => ?_⟩
    have : k < 2 := by simpa [Box.univ] using hk
    have hg : (Box.univ Policy.rational 2).get k = Iv.universe Policy.rational := by
      rcases k with _ | _ | k
      · rfl
      · rfl
      · omega
    rw [hg]; exact mem_universe _ _
  · show (0 : Rat) ≤ ((2 : Int) : Rat) * 2 + ((-3 : Int) : Rat); norm_num

/-! ## `add_constraint_no_check` and the non-propagating arms of `refine_no_check` -/

theorem extract_some_none {c : Con} (h : extractIntervalConstraint c = some none) : c.e.terms = [] := by
  unfold extractIntervalConstraint at h
  split at h <;> simp_all

theorem extract_some_some {c : Con} {v : Nat} (h : extractIntervalConstraint c = some (some v)) :
    ∃ a, c.e.terms = [(v, a)] := by
  unfold extractIntervalConstraint at h
  split at h
  · simp at h
  · rename_i w a hw
    simp only [Option.some.injEq] at h
    subst h
    exact ⟨a, hw⟩
  · simp at h

/-- `extract_interval_constraint` fails exactly when two variables at least occur -/
theorem extract_none {c : Con} (h : extractIntervalConstraint c = none) :
    ∃ t1 t2 ts, c.e.terms = t1 :: t2 :: ts := by
  unfold extractIntervalConstraint at h
  split at h
  · simp at h
  · simp at h
  · rename_i h1 h2
    rcases hts : c.e.terms with _ | ⟨t1, _ | ⟨t2, ts⟩⟩
    · exact absurd hts h1
    · exact absurd hts (h2 t1.1 t1.2)
    · exact ⟨t1, t2, ts, rfl⟩

/-- a consistent trivial constraint is not reported inconsistent -/
theorem trivialFalse_of_holds {c : Con} {x : Nat → Rat} (ht : c.e.terms = []) (hc : c.holds x) :
    trivialFalse c.ty c.e.inhom = false := by
  have he : c.e.eval x = (c.e.inhom : Rat) := by rw [LinExpr.eval_eq_terms, ht]; simp
  unfold Con.holds at hc
  rw [he] at hc
  unfold trivialFalse
  cases hty : c.ty <;> rw [hty] at hc <;> simp only at hc
  · have : c.e.inhom = 0 := by exact_mod_cast hc
    simp [this]
  · have : 0 ≤ c.e.inhom := by exact_mod_cast hc
    simp; omega
  · have : 0 < c.e.inhom := by exact_mod_cast hc
    simp; omega

/-- the arm `add_interval_constraint_no_check(v, type, inhomogeneous_term, coefficient(v))` -/
theorem intervalArm_sound {cfg : Cfg} (hS : cfg.Sound) {b : Box} {c : Con} {v : Nat} {a : Int} {x : Nat → Rat}
    (hwf : c.e.WF b.dim) (ht : c.e.terms = [(v, a)]) (hx : b.mem cfg.p x) (hc : c.holds x) :
    (addIntervalConstraintNoCheck cfg b v c.ty c.e.inhom (c.e.coeff v)).mem cfg.p x := by
  have hm : (v, a) ∈ c.e.terms := by rw [ht]; simp
  obtain ⟨ha, hcv, hlt⟩ := LinExpr.mem_terms hm
  have he := LinExpr.terms_singleton ht x
  rw [hcv]
  apply addIntervalConstraintNoCheck_sound hS (Nat.lt_of_lt_of_le hlt hwf) ha hx
  unfold Con.holds at hc
  rw [he] at hc
  cases hty : c.ty <;> rw [hty] at hc <;> exact hc

theorem addConstraintNoCheck_cases {cfg : Cfg} {b b' : Box} {c : Con} (h : addConstraintNoCheck cfg b c = some b') :
    b' = b ∨ (c.e.terms = [] ∧ b' = (if trivialFalse c.ty c.e.inhom then b.setEmpty else b)) ∨
      ∃ v a, c.e.terms = [(v, a)] ∧ b' = addIntervalConstraintNoCheck cfg b v c.ty c.e.inhom (c.e.coeff v) := by
  unfold addConstraintNoCheck at h
  cases hov : extractIntervalConstraint c with
  | none => rw [hov] at h; simp at h
  | some ov =>
    rw [hov] at h
    simp only at h
    by_cases h1 : (c.ty == CType.gt && ov.isSome && !cfg.p.storeOpen) = true
    · rw [if_pos h1] at h; simp at h
    · rw [if_neg h1] at h
      by_cases h2 : b.markedEmpty = true
      · rw [if_pos h2] at h; cases h; exact Or.inl rfl
      · rw [if_neg h2] at h
        cases ov with
        | none =>
          simp only [Option.some.injEq] at h
          exact Or.inr (Or.inl ⟨extract_some_none hov, h.symm⟩)
        | some v =>
          simp only [Option.some.injEq] at h
          obtain ⟨a, ht⟩ := extract_some_some hov
          exact Or.inr (Or.inr ⟨v, a, ht, h.symm⟩)

theorem addConstraintNoCheck_dim {cfg : Cfg} {b b' : Box} {c : Con} (h : addConstraintNoCheck cfg b c = some b') :
    b'.dim = b.dim := by
  rcases addConstraintNoCheck_cases h with rfl | ⟨_, rfl⟩ | ⟨v, a, _, rfl⟩
  · rfl
  · split_ifs <;> rfl
  · exact addIntervalConstraintNoCheck_dim ..

theorem addConstraintNoCheck_sound {cfg : Cfg} (hS : cfg.Sound) {b b' : Box} {c : Con} {x : Nat → Rat}
    (hwf : c.e.WF b.dim) (h : addConstraintNoCheck cfg b c = some b') (hx : b.mem cfg.p x) (hc : c.holds x) :
    b'.mem cfg.p x := by
  rcases addConstraintNoCheck_cases h with rfl | ⟨ht, rfl⟩ | ⟨v, a, ht, rfl⟩
  · exact hx
  · rw [trivialFalse_of_holds ht hc]; exact hx
  · exact intervalArm_sound hS hwf ht hx hc

example : ∃ b', addConstraintNoCheck Cfg.mpq (Box.univ Policy.rational 2) ⟨⟨[0, 2], -3⟩, .ge⟩ = some b' ∧
    b'.mem Policy.rational (fun _ => 2) := by
  refine ⟨_, rfl, ?_⟩
  apply addConstraintNoCheck_sound Cfg.mpq_sound (b := Box.univ Policy.rational 2) (c := ⟨⟨[0, 2], -3⟩, .ge⟩) (by simp [LinExpr.WF, Box.univ, Box.dim]) rfl
  · refine ⟨rfl, fun k hk => ?_⟩
    have : k < 2 := by simpa [Box.univ] using hk
    have hg : (Box.univ Policy.rational 2).get k = Iv.universe Policy.rational := by
      rcases k with _ | _ | k
      · rfl
      · rfl
      · omega
    rw [hg]; exact mem_universe _ _
  · show (0 : Rat) ≤ LinExpr.eval ⟨[0, 2], -3⟩ (fun _ => 2)
    norm_num [LinExpr.eval, LinExpr.dot]

end PPLV.WR.BoxT
