import PPLV.WR.TransOct2LatProofsSem3
import Mathlib.Tactic.IntervalCases
import Mathlib.Tactic.Ring
/-!
# Lattice / dimension operations of `Octagonal_Shape<T>`: expand_space_dimension (exact characterisation)
-/
set_option linter.unusedVariables false
namespace PPLV.WR
open ExtRat

theorem latOval_upd_ne (y : Nat → Rat) (var : Nat) (w : Rat) {c : Nat} (h : c / 2 ≠ var) :
    OctM.oval (upd y var w) c = OctM.oval y c := by
  unfold OctM.oval upd
  rw [if_neg h]

theorem latOval_upd_even (y : Nat → Rat) (var : Nat) (w : Rat) : OctM.oval (upd y var w) (2 * var) = w := by
  rw [oval_even]; simp [upd]

theorem latOval_upd_odd (y : Nat → Rat) (var : Nat) (w : Rat) :
    OctM.oval (upd y var w) (2 * var + 1) = - w := by
  rw [oval_odd]; simp [upd]

/-- the matrix of `expand_space_dimension(var, k)`, `k ≠ 0` -/
theorem octLatExpand_cells (R : Rnd) (n : Nat) (c : Bool) (m : Mat) (var k : Nat) (hvar : var < n)
    (hk : k ≠ 0) :
    ∃ r, octLatExpand R n c m var k = some r ∧ r.dim = n + k ∧
      (∀ a b, a < 2 * n → r.m a b = m a b) ∧
      (∀ j, n ≤ j → j < n + k →
        r.m (2 * j) (2 * j + 1) = m (2 * var) (2 * var + 1) ∧
        r.m (2 * j + 1) (2 * j) = m (2 * var + 1) (2 * var) ∧
        (∀ b, b < 2 * var → r.m (2 * j) b = m (2 * var) b ∧ r.m (2 * j + 1) b = m (2 * var + 1) b) ∧
        (∀ b, 2 * var + 2 ≤ b → b < 2 * n →
          r.m (2 * j) b = m (cidx b) (2 * var + 1) ∧ r.m (2 * j + 1) b = m (cidx b) (2 * var)) ∧
        (∀ b, (b = 2 * var ∨ b = 2 * var + 1 ∨ (2 * n ≤ b ∧ b ≠ 2 * j + 1)) → r.m (2 * j) b = pinf) ∧
        (∀ b, (b = 2 * var ∨ b = 2 * var + 1 ∨ (2 * n ≤ b ∧ b ≠ 2 * j)) → r.m (2 * j + 1) b = pinf)) := by
  unfold octLatExpand octLatEmbed
  simp only [if_neg hk]
  refine ⟨_, rfl, rfl, ?_, ?_⟩
  · intro a b ha
    rw [octLatExpandLoop_apply n var k hvar, if_neg (by omega)]
    simp only [octLatGrow, if_pos ha]
  · intro j hj1 hj2
    have hcb : ∀ b, b < 2 * n → cidx b < 2 * n := by
      intro b hb; unfold cidx; split <;> omega
    have hg : ∀ a b, a < 2 * n → octLatGrow (2 * n) m a b = m a b := by
      intro a b ha; simp only [octLatGrow, if_pos ha]
    have hp : ∀ a b, ¬ a < 2 * n → octLatGrow (2 * n) m a b = pinf := by
      intro a b ha; simp only [octLatGrow, if_neg ha]
    have ev : ∀ b, octLatExpandLoop n var k (octLatGrow (2 * n) m) (2 * j) b
        = octLatExpandCell n var (octLatGrow (2 * n) m) (2 * j) b := by
      intro b; rw [octLatExpandLoop_apply n var k hvar, if_pos (by omega)]
    have od : ∀ b, octLatExpandLoop n var k (octLatGrow (2 * n) m) (2 * j + 1) b
        = octLatExpandCell n var (octLatGrow (2 * n) m) (2 * j + 1) b := by
      intro b; rw [octLatExpandLoop_apply n var k hvar, if_pos (by omega)]
    refine ⟨?_, ?_, ?_, ?_, ?_, ?_⟩
    · show octLatExpandLoop n var k (octLatGrow (2 * n) m) (2 * j) (2 * j + 1) = _
      rw [ev]; unfold octLatExpandCell
      rw [if_pos (by omega), if_pos rfl, hg _ _ (by omega)]
    · show octLatExpandLoop n var k (octLatGrow (2 * n) m) (2 * j + 1) (2 * j) = _
      rw [od]; unfold octLatExpandCell
      rw [if_neg (by omega), if_pos rfl, hg _ _ (by omega)]
    · intro b hb
      constructor
      · show octLatExpandLoop n var k (octLatGrow (2 * n) m) (2 * j) b = _
        rw [ev]; unfold octLatExpandCell
        rw [if_pos (by omega), if_neg (by omega), if_pos hb, hg _ _ (by omega)]
      · show octLatExpandLoop n var k (octLatGrow (2 * n) m) (2 * j + 1) b = _
        rw [od]; unfold octLatExpandCell
        rw [if_neg (by omega), if_neg (by omega), if_pos hb, hg _ _ (by omega)]
    · intro b hb1 hb2
      constructor
      · show octLatExpandLoop n var k (octLatGrow (2 * n) m) (2 * j) b = _
        rw [ev]; unfold octLatExpandCell
        rw [if_pos (by omega), if_neg (by omega), if_neg (by omega), if_pos ⟨hb1, hb2⟩, hg _ _ (hcb b hb2)]
      · show octLatExpandLoop n var k (octLatGrow (2 * n) m) (2 * j + 1) b = _
        rw [od]; unfold octLatExpandCell
        rw [if_neg (by omega), if_neg (by omega), if_neg (by omega), if_pos ⟨hb1, hb2⟩, hg _ _ (hcb b hb2)]
    · intro b hb
      show octLatExpandLoop n var k (octLatGrow (2 * n) m) (2 * j) b = _
      rw [ev]; unfold octLatExpandCell
      rw [if_pos (by omega), if_neg (by omega), if_neg (by omega), if_neg (by omega), hp _ _ (by omega)]
    · intro b hb
      show octLatExpandLoop n var k (octLatGrow (2 * n) m) (2 * j + 1) b = _
      rw [od]; unfold octLatExpandCell
      rw [if_neg (by omega), if_neg (by omega), if_neg (by omega), if_neg (by omega), hp _ _ (by omega)]

/-- `expand_space_dimension(var, k)`: a point is in the result iff substituting any copy for `var` gives a
point of the original shape (every bound type, no hypothesis on the matrix) -/
theorem octLatExpand_spec (R : Rnd) (n : Nat) (c : Bool) (m : Mat) (var k : Nat) (hvar : var < n) :
    ∃ r, octLatExpand R n c m var k = some r ∧ r.dim = n + k ∧
      ∀ y, y ∈ γO (n + k) r.m ↔
        ∀ j, (j = var ∨ (n ≤ j ∧ j < n + k)) → upd y var (y j) ∈ γO n m := by
  by_cases hk : k = 0
  · subst hk
    unfold octLatExpand
    simp only [if_true]
    refine ⟨_, rfl, rfl, fun y => ⟨fun h j hj => ?_, fun h => ?_⟩⟩
    · have : j = var := by omega
      subst this
      rw [latUpd_self]; exact h
    · have := h var (Or.inl rfl)
      rw [latUpd_self] at this; exact this
  · obtain ⟨r, e, hd, hold, hnew⟩ := octLatExpand_cells R n c m var k hvar hk
    refine ⟨r, e, hd, fun y => ⟨fun h j hj => ?_, fun h => ?_⟩⟩
    · -- every copy substituted for `var` gives a point of `m`
      rcases hj with rfl | hj
      · rw [latUpd_self]
        intro a b hab
        have := h a b ⟨by have := hab.1; omega, hab.2⟩
        rw [hold a b hab.1] at this
        exact this
      · obtain ⟨h1, h2, h3, h4, _, _⟩ := hnew j hj.1 hj.2
        have hrow0 : 2 * j < 2 * (n + k) := by omega
        have hrow1 : 2 * j + 1 < 2 * (n + k) := by omega
        have hy0 : OctM.oval y (2 * j) = y j := oval_even y j
        have hy1 : OctM.oval y (2 * j + 1) = - y j := oval_odd y j
        intro a b hab
        have ha := hab.1
        have hb := hab.2
        by_cases hav : a / 2 = var
        · by_cases hbv : b / 2 = var
          · -- both cells of `var`
            rcases (by omega : a = 2 * var ∨ a = 2 * var + 1) with rfl | rfl <;>
              rcases (by omega : b = 2 * var ∨ b = 2 * var + 1) with rfl | rfl
            · have := h (2 * var) (2 * var) ⟨by omega, by unfold rowSize; omega⟩
              rw [hold _ _ (by omega)] at this
              simpa using this
            · have := h (2 * j) (2 * j + 1) ⟨hrow0, by unfold rowSize; omega⟩
              rw [h1, hy0, hy1] at this
              rw [latOval_upd_even, latOval_upd_odd]
              exact this
            · have := h (2 * j + 1) (2 * j) ⟨hrow1, by unfold rowSize; omega⟩
              rw [h2, hy0, hy1] at this
              rw [latOval_upd_even, latOval_upd_odd]
              exact this
            · have := h (2 * var + 1) (2 * var + 1) ⟨by omega, by unfold rowSize; omega⟩
              rw [hold _ _ (by omega)] at this
              simpa using this
          · -- row of `var`, column of another variable (necessarily below)
            have hblt : b < 2 * var := by unfold rowSize at hb; omega
            rw [latOval_upd_ne y var _ hbv]
            rcases (by omega : a = 2 * var ∨ a = 2 * var + 1) with rfl | rfl
            · have := h (2 * j) b ⟨hrow0, by unfold rowSize; omega⟩
              rw [(h3 b hblt).1, hy0] at this
              rw [latOval_upd_even]; exact this
            · have := h (2 * j + 1) b ⟨hrow1, by unfold rowSize; omega⟩
              rw [(h3 b hblt).2, hy1] at this
              rw [latOval_upd_odd]; exact this
        · by_cases hbv : b / 2 = var
          · -- column of `var`, row of another variable (necessarily above)
            have hage : 2 * var + 2 ≤ a := by unfold rowSize at hb; omega
            rw [latOval_upd_ne y var _ hav]
            have hca : 2 * var + 2 ≤ cidx a ∧ cidx a < 2 * n ∧ cidx (cidx a) = a := by
              unfold cidx; split <;> split <;> omega
            have hoc : OctM.oval y (cidx a) = - OctM.oval y a := latOval_cidx y a
            rcases (by omega : b = 2 * var ∨ b = 2 * var + 1) with rfl | rfl
            · have := h (2 * j + 1) (cidx a) ⟨hrow1, by unfold rowSize; omega⟩
              rw [(h4 (cidx a) hca.1 hca.2.1).2, hca.2.2, hy1, hoc] at this
              rw [latOval_upd_even]
              have e : y j - OctM.oval y a = -OctM.oval y a - -y j := by ring
              rw [e]; exact this
            · have := h (2 * j) (cidx a) ⟨hrow0, by unfold rowSize; omega⟩
              rw [(h4 (cidx a) hca.1 hca.2.1).1, hca.2.2, hy0, hoc] at this
              rw [latOval_upd_odd]
              have e : -y j - OctM.oval y a = -OctM.oval y a - y j := by ring
              rw [e]; exact this
          · rw [latOval_upd_ne y var _ hav, latOval_upd_ne y var _ hbv]
            have := h a b ⟨by omega, hb⟩
            rw [hold a b ha] at this
            exact this
    · -- a point all of whose substitutions are in `m` satisfies every cell of the result
      intro a b hab
      have ha := hab.1
      have hb := hab.2
      by_cases hold' : a < 2 * n
      · have := h var (Or.inl rfl)
        rw [latUpd_self] at this
        rw [hold a b hold']
        exact this a b ⟨hold', hb⟩
      · obtain ⟨j, hja⟩ : ∃ j, a = 2 * j ∨ a = 2 * j + 1 := ⟨a / 2, by omega⟩
        have hj1 : n ≤ j := by omega
        have hj2 : j < n + k := by omega
        obtain ⟨h1, h2, h3, h4, h5, h6⟩ := hnew j hj1 hj2
        have hj := h j (Or.inr ⟨hj1, hj2⟩)
        have hy0 : OctM.oval y (2 * j) = y j := oval_even y j
        have hy1 : OctM.oval y (2 * j + 1) = - y j := oval_odd y j
        have hbne : ∀ b, b < 2 * n → b / 2 ≠ var → OctM.oval y b = OctM.oval (upd y var (y j)) b :=
          fun b _ hne => (latOval_upd_ne y var _ hne).symm
        rcases hja with rfl | rfl
        · by_cases hb1 : b = 2 * j + 1
          · subst hb1
            rw [h1, hy0, hy1]
            have := hj (2 * var) (2 * var + 1) ⟨by omega, by unfold rowSize; omega⟩
            rw [latOval_upd_even, latOval_upd_odd] at this
            exact this
          · by_cases hb2 : b < 2 * var
            · rw [(h3 b hb2).1, hy0, hbne b (by omega) (by omega)]
              have := hj (2 * var) b ⟨by omega, by unfold rowSize; omega⟩
              rw [latOval_upd_even] at this
              exact this
            · by_cases hb3 : 2 * var + 2 ≤ b ∧ b < 2 * n
              · rw [(h4 b hb3.1 hb3.2).1, hy0]
                have hcb : 2 * var + 2 ≤ cidx b ∧ cidx b < 2 * n ∧ cidx (cidx b) = b := by
                  unfold cidx; split <;> split <;> omega
                have := hj (cidx b) (2 * var + 1) ⟨hcb.2.1, by unfold rowSize; omega⟩
                rw [latOval_upd_odd, latOval_upd_ne y var _ (by omega), latOval_cidx] at this
                have e : OctM.oval y b - y j = -y j - -OctM.oval y b := by ring
                rw [e]; exact this
              · rw [h5 b (by unfold rowSize at hb; omega)]; exact le_pinf _
        · by_cases hb1 : b = 2 * j
          · subst hb1
            rw [h2, hy0, hy1]
            have := hj (2 * var + 1) (2 * var) ⟨by omega, by unfold rowSize; omega⟩
            rw [latOval_upd_even, latOval_upd_odd] at this
            exact this
          · by_cases hb2 : b < 2 * var
            · rw [(h3 b hb2).2, hy1, hbne b (by omega) (by omega)]
              have := hj (2 * var + 1) b ⟨by omega, by unfold rowSize; omega⟩
              rw [latOval_upd_odd] at this
              exact this
            · by_cases hb3 : 2 * var + 2 ≤ b ∧ b < 2 * n
              · rw [(h4 b hb3.1 hb3.2).2, hy1]
                have hcb : 2 * var + 2 ≤ cidx b ∧ cidx b < 2 * n ∧ cidx (cidx b) = b := by
                  unfold cidx; split <;> split <;> omega
                have := hj (cidx b) (2 * var) ⟨hcb.2.1, by unfold rowSize; omega⟩
                rw [latOval_upd_even, latOval_upd_ne y var _ (by omega), latOval_cidx] at this
                have e : OctM.oval y b - -y j = y j - -OctM.oval y b := by ring
                rw [e]; exact this
              · rw [h6 b (by unfold rowSize at hb; omega)]; exact le_pinf _

end PPLV.WR
