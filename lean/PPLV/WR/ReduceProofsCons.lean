import PPLV.WR.ReduceProofsCodeMain
import PPLV.WR.ReduceProofsGlue
import PPLV.WR.ReduceProofsMathLCon
/-!
# `BD_Shape::minimized_constraints()` / `constraints()`: the lists in `List.range` form

The three loops of `bdsMinimizedConstraints` (equalities of the non-leaders, unary inequalities of the leaders,
binary inequalities of the leaders) and the two loops of `bdsConstraintsAll`, each body rewritten as
"append `g i`", so that membership in the emitted list is membership in a `flatMap`.
-/
set_option linter.unusedSectionVars false
set_option linter.unusedSimpArgs false
namespace PPLV.WR
open ExtRat (fin pinf)

/-- the `<=` constraint the code builds for the entry `(p, q)`: `x_q - x_p <= m p q` -/
def leCon (n : Nat) (m : Mat) (p q : Nat) : LCon := ⟨false, diffCoeffs n (denomOf (m p q)) q p, numerOf (m p q)⟩
/-- the `==` constraint built from the entry `(p, q)`: `x_q - x_p == m p q` -/
def eqCon (n : Nat) (m : Mat) (p q : Nat) : LCon := ⟨true, diffCoeffs n (denomOf (m p q)) q p, numerOf (m p q)⟩

/-! ## `minimized_constraints()` -/

/-- what the first loop emits for the dbm index `i` -/
def mcEq (n : Nat) (m : Mat) (leaders : Nat → Nat) (i : Nat) : List LCon :=
  if i = 0 then []
  else if i ≠ leaders i then (if leaders i = 0 then [eqCon n m 0 i] else [eqCon n m i (leaders i)]) else []

/-- … the second loop for the position `l_i` in the vector of leader indices -/
def mcUn (n : Nat) (m : Mat) (red : BMat) (li : Nat → Nat) (l_i : Nat) : List LCon :=
  if l_i = 0 then []
  else (if red 0 (li l_i) then [] else [leCon n m 0 (li l_i)]) ++ (if red (li l_i) 0 then [] else [leCon n m (li l_i) 0])

/-- … the inner body of the third loop -/
def mcBin1 (n : Nat) (m : Mat) (red : BMat) (li : Nat → Nat) (l_i l_j : Nat) : List LCon :=
  if l_j ≤ l_i then []
  else (if red (li l_i) (li l_j) then [] else [leCon n m (li l_i) (li l_j)]) ++
       (if red (li l_j) (li l_i) then [] else [leCon n m (li l_j) (li l_i)])

/-- … the third loop for the position `l_i` -/
def mcBin (n : Nat) (m : Mat) (red : BMat) (li : Nat → Nat) (num : Nat) (l_i : Nat) : List LCon :=
  if l_i = 0 then [] else (List.range num).flatMap (mcBin1 n m red li l_i)

/-- the loop bodies exactly as `bdsMinimizedConstraints` writes them -/
def eqBody (n : Nat) (m : Mat) (leaders : Nat → Nat) (i : Nat) (cs : List LCon) : List LCon :=
  if i = 0 then cs
  else
    let leader := leaders i
    if i ≠ leader then
      if leader = 0 then cs ++ [⟨true, diffCoeffs n (denomOf (m 0 i)) i 0, numerOf (m 0 i)⟩]
      else cs ++ [⟨true, diffCoeffs n (denomOf (m i leader)) leader i, numerOf (m i leader)⟩]
    else cs

def unBody (n : Nat) (m : Mat) (red : BMat) (li : Nat → Nat) (l_i : Nat) (cs : List LCon) : List LCon :=
  if l_i = 0 then cs
  else
    let i := li l_i
    let cs := if !red 0 i then cs ++ [⟨false, diffCoeffs n (denomOf (m 0 i)) i 0, numerOf (m 0 i)⟩] else cs
    if !red i 0 then cs ++ [⟨false, diffCoeffs n (denomOf (m i 0)) 0 i, numerOf (m i 0)⟩] else cs

def binBody1 (n : Nat) (m : Mat) (red : BMat) (li : Nat → Nat) (l_i l_j : Nat) (cs : List LCon) : List LCon :=
  if l_j ≤ l_i then cs
  else
    let i := li l_i
    let j := li l_j
    let cs := if !red i j then cs ++ [⟨false, diffCoeffs n (denomOf (m i j)) j i, numerOf (m i j)⟩] else cs
    if !red j i then cs ++ [⟨false, diffCoeffs n (denomOf (m j i)) i j, numerOf (m j i)⟩] else cs

def binBody (n : Nat) (m : Mat) (red : BMat) (li : Nat → Nat) (num : Nat) (l_i : Nat) (cs : List LCon) : List LCon :=
  if l_i = 0 then cs else loopUp num (binBody1 n m red li l_i) cs

theorem eqBody_eq (n : Nat) (m : Mat) (leaders : Nat → Nat) :
    eqBody n m leaders = fun i cs => cs ++ mcEq n m leaders i := by
  funext i cs
  unfold eqBody mcEq eqCon
  by_cases h0 : i = 0
  · simp [h0]
  · by_cases hl : i = leaders i
    · simp [h0, ← hl]
    · by_cases hz : leaders i = 0
      · simp [h0, hz]
      · simp [h0, hl, hz]

theorem unBody_eq (n : Nat) (m : Mat) (red : BMat) (li : Nat → Nat) :
    unBody n m red li = fun l_i cs => cs ++ mcUn n m red li l_i := by
  funext l_i cs
  unfold unBody mcUn leCon
  by_cases h0 : l_i = 0
  · simp [h0]
  · generalize li l_i = i
    cases ha : red 0 i <;> cases hb : red i 0 <;> simp [h0, ha, hb]

theorem binBody1_eq (n : Nat) (m : Mat) (red : BMat) (li : Nat → Nat) (l_i : Nat) :
    binBody1 n m red li l_i = fun l_j cs => cs ++ mcBin1 n m red li l_i l_j := by
  funext l_j cs
  unfold binBody1 mcBin1 leCon
  by_cases h0 : l_j ≤ l_i
  · simp [h0]
  · generalize li l_i = i
    generalize li l_j = j
    cases ha : red i j <;> cases hb : red j i <;> simp [h0, ha, hb]

theorem binBody_eq (n : Nat) (m : Mat) (red : BMat) (li : Nat → Nat) (num : Nat) :
    binBody n m red li num = fun l_i cs => cs ++ mcBin n m red li num l_i := by
  funext l_i cs
  unfold binBody mcBin
  by_cases h0 : l_i = 0
  · simp [h0]
  · rw [if_neg h0, if_neg h0, binBody1_eq, loopUp_append]

/-- `minimized_constraints()` as three `flatMap`s -/
theorem bdsMinimizedConstraints_eq (n : Nat) (m : Mat) (red : BMat) :
    bdsMinimizedConstraints n m red =
      (List.range (n+1)).flatMap (mcEq n m (bdsComputeLeaders (n+1) m)) ++
      (List.range (computeLeaderIndices (n+1) (bdsComputeLeaders (n+1) m)).length).flatMap
        (mcUn n m red (fun k => (computeLeaderIndices (n+1) (bdsComputeLeaders (n+1) m)).getD k 0)) ++
      (List.range (computeLeaderIndices (n+1) (bdsComputeLeaders (n+1) m)).length).flatMap
        (mcBin n m red (fun k => (computeLeaderIndices (n+1) (bdsComputeLeaders (n+1) m)).getD k 0)
          (computeLeaderIndices (n+1) (bdsComputeLeaders (n+1) m)).length) := by
  show loopUp _ (binBody n m red _ _) (loopUp _ (unBody n m red _) (loopUp (n+1) (eqBody n m _) [])) = _
  rw [eqBody_eq, unBody_eq, binBody_eq, loopUp_append, loopUp_append, loopUp_append, List.nil_append]

/-! ## membership -/

theorem mem_flatMap_range {α : Type} (k : Nat) (g : Nat → List α) (a : α) :
    a ∈ (List.range k).flatMap g ↔ ∃ i, i < k ∧ a ∈ g i := by
  simp [List.mem_flatMap, List.mem_range]

/-- the vector of leader indices of a vector `p`: the indices `≤ n` that are `0` or fixed by `p`, `0` first -/
theorem mem_leaderIndices (n : Nat) (p : Vec) (i : Nat) :
    i ∈ computeLeaderIndices (n+1) p ↔ i ≤ n ∧ (i = 0 ∨ p i = i) := by
  rw [computeLeaderIndices_succ]
  simp only [List.mem_filter, List.mem_range, Bool.or_eq_true, beq_iff_eq]
  constructor
  · rintro ⟨h1, h2⟩; exact ⟨by omega, h2⟩
  · rintro ⟨h1, h2⟩; exact ⟨by omega, h2⟩

theorem leaderIndices_cons (n : Nat) (p : Vec) :
    ∃ rest, computeLeaderIndices (n+1) p = 0 :: rest ∧ 0 ∉ rest := by
  rw [computeLeaderIndices_succ]
  have hr : List.range (n+1) = 0 :: (List.range n).map (· + 1) := by
    rw [List.range_succ_eq_map]
  rw [hr, List.filter_cons_of_pos (by simp)]
  refine ⟨_, rfl, ?_⟩
  intro h
  have := (List.mem_filter.1 h).1
  simp at this

/-- every element of the vector sits at a position, position `0` holds the index `0` only -/
theorem leaderIndices_pos (n : Nat) (p : Vec) (i : Nat) (hi : i ∈ computeLeaderIndices (n+1) p) :
    ∃ k, k < (computeLeaderIndices (n+1) p).length ∧ (computeLeaderIndices (n+1) p).getD k 0 = i ∧ (k = 0 ↔ i = 0) := by
  obtain ⟨rest, hc, h0⟩ := leaderIndices_cons n p
  rw [hc] at hi ⊢
  rcases List.mem_cons.1 hi with rfl | hr
  · exact ⟨0, by simp, by simp, by simp⟩
  · obtain ⟨k, hk, hk2⟩ := List.mem_iff_getElem.1 hr
    refine ⟨k+1, by simp; omega, ?_, ?_⟩
    · simp [List.getD_eq_getElem?_getD, hk, hk2]
    · constructor
      · intro h; omega
      · intro h; subst h; exact absurd hr h0

theorem leaderIndices_getD_mem (n : Nat) (p : Vec) (k : Nat) (hk : k < (computeLeaderIndices (n+1) p).length) :
    (computeLeaderIndices (n+1) p).getD k 0 ∈ computeLeaderIndices (n+1) p := by
  rw [List.getD_eq_getElem?_getD, List.getElem?_eq_getElem hk]
  exact List.getElem_mem hk

theorem leaderIndices_getD_ne_zero (n : Nat) (p : Vec) (k : Nat) (hk : k < (computeLeaderIndices (n+1) p).length)
    (h0 : k ≠ 0) : (computeLeaderIndices (n+1) p).getD k 0 ≠ 0 := by
  obtain ⟨rest, hc, hz⟩ := leaderIndices_cons n p
  rw [hc] at hk ⊢
  obtain ⟨k', rfl⟩ := Nat.exists_eq_succ_of_ne_zero h0
  have hk' : k' < rest.length := by simpa using hk
  intro h
  apply hz
  have : rest[k'] = 0 := by simpa [List.getD_eq_getElem?_getD, hk'] using h
  rw [← this]; exact List.getElem_mem hk'

theorem mem_pair {a b : Bool} {u v lc : LCon} :
    lc ∈ (if a = true then [] else [u]) ++ (if b = true then [] else [v]) ↔ (a = false ∧ lc = u) ∨ (b = false ∧ lc = v) := by
  cases a <;> cases b <;> simp

/-! ## what a single emitted constraint says -/

theorem leCon_sat (n : Nat) (m : Mat) {p q : Nat} (hp : p ≤ n) (hq : q ≤ n) {r : Rat} (hr : m p q = fin r)
    (x : ℕ → ℚ) : (leCon n m p q).Sat x ↔ fin (DBM.val x q - DBM.val x p) ≤ m p q := by
  unfold leCon
  rw [hr]
  exact LCon.sat_diff_le n r q p hq hp x

theorem eqCon_sat (n : Nat) (m : Mat) {p q : Nat} (hp : p ≤ n) (hq : q ≤ n) {r : Rat} (hr : m p q = fin r)
    (x : ℕ → ℚ) : (eqCon n m p q).Sat x ↔ DBM.val x q - DBM.val x p = r := by
  unfold eqCon
  rw [hr]
  exact LCon.sat_diff_eq n r q p hq hp x

/-! ## `minimized_constraints()` denotes the shape -/

section
variable {n : Nat} (c : DBM n) (hc : c.IsClosed) (red : BMat)
  (h : bdsShortestPathReduction upId n c.e = some red)

include hc in
/-- positions of the vector of leader indices hold leaders -/
theorem idx_leader (k : Nat) (hk : k < (computeLeaderIndices (n+1) (bdsComputeLeaders (n+1) c.e)).length) :
    (computeLeaderIndices (n+1) (bdsComputeLeaders (n+1) c.e)).getD k 0 ≤ n ∧
    bdsComputeLeaders (n+1) c.e ((computeLeaderIndices (n+1) (bdsComputeLeaders (n+1) c.e)).getD k 0)
      = (computeLeaderIndices (n+1) (bdsComputeLeaders (n+1) c.e)).getD k 0 := by
  have hl := bdsComputeLeaders_spec c hc
  have hm := (mem_leaderIndices n _ _).1 (leaderIndices_getD_mem n (bdsComputeLeaders (n+1) c.e) k hk)
  refine ⟨hm.1, ?_⟩
  rcases hm.2 with h0 | h1
  · rw [h0]; have := hl.le 0 (Nat.zero_le n); omega
  · exact h1

include hc h in
/-- a point of the shape satisfies every emitted constraint -/
theorem minimized_constraints_of_mem (x : ℕ → ℚ) (hx : c.Sat x) (lc : LCon)
    (hlc : lc ∈ bdsMinimizedConstraints n c.e red) : lc.Sat x := by
  have hl := bdsComputeLeaders_spec c hc
  have hp := bdsComputePredecessors_spec c
  have hr := bdsShortestPathReduction_spec c hc red h
  have irr := fun i j hi hj hk hli hlj =>
    (bds_reduced_irredundant c hc _ _ hl hp red hr i j hi hj hk hli hlj).2.1
  rw [bdsMinimizedConstraints_eq] at hlc
  rcases List.mem_append.1 hlc with hlc | hlc
  rcases List.mem_append.1 hlc with hlc | hlc
  · -- an equality of a non-leader
    obtain ⟨i, hi, hm⟩ := (mem_flatMap_range _ _ _).1 hlc
    have hin : i ≤ n := by omega
    unfold mcEq at hm
    by_cases h0 : i = 0
    · simp [h0] at hm
    rw [if_neg h0] at hm
    by_cases hne : i ≠ bdsComputeLeaders (n+1) c.e i
    · rw [if_pos hne] at hm
      have hln := lead_le_n c _ hl hin
      obtain ⟨p, hp1, hp2⟩ := c.zeq_fin hln (hl.zeq i hin)
      rw [c.z_ne (Ne.symm hne)] at hp1
      rw [c.z_ne hne] at hp2
      have e1 := hx _ _ hln hin
      have e2 := hx _ _ hin hln
      rw [hp1, ExtRat.fin_le_fin] at e1
      rw [hp2, ExtRat.fin_le_fin] at e2
      by_cases hz : bdsComputeLeaders (n+1) c.e i = 0
      · rw [if_pos hz] at hm
        rw [List.mem_singleton.1 hm]
        rw [hz] at hp1 e1 e2
        rw [eqCon_sat n c.e (Nat.zero_le n) hin hp1]
        linarith
      · rw [if_neg hz] at hm
        rw [List.mem_singleton.1 hm]
        rw [eqCon_sat n c.e hin hln hp2]
        linarith
    · rw [if_neg hne] at hm
      simp at hm
  · -- a unary inequality of a leader
    obtain ⟨k, hk, hm⟩ := (mem_flatMap_range _ _ _).1 hlc
    unfold mcUn at hm
    by_cases h0 : k = 0
    · simp [h0] at hm
    rw [if_neg h0] at hm
    obtain ⟨hin, hli⟩ := idx_leader c hc k hk
    have hl0 : bdsComputeLeaders (n+1) c.e 0 = 0 := by have := hl.le 0 (Nat.zero_le n); omega
    rw [mem_pair] at hm
    beta_reduce at hm
    generalize (computeLeaderIndices (n+1) (bdsComputeLeaders (n+1) c.e)).getD k 0 = i at hm hin hli
    rcases hm with ⟨hb, rfl⟩ | ⟨hb, rfl⟩
    · obtain ⟨q, hq⟩ := irr 0 i (Nat.zero_le n) hin hb hl0 hli
      rw [leCon_sat n c.e (Nat.zero_le n) hin hq]
      exact hx _ _ (Nat.zero_le n) hin
    · obtain ⟨q, hq⟩ := irr i 0 hin (Nat.zero_le n) hb hli hl0
      rw [leCon_sat n c.e hin (Nat.zero_le n) hq]
      exact hx _ _ hin (Nat.zero_le n)
  · -- a binary inequality of two leaders
    obtain ⟨k, hk, hm⟩ := (mem_flatMap_range _ _ _).1 hlc
    unfold mcBin at hm
    by_cases h0 : k = 0
    · simp [h0] at hm
    rw [if_neg h0] at hm
    obtain ⟨k2, hk2, hm⟩ := (mem_flatMap_range _ _ _).1 hm
    unfold mcBin1 at hm
    by_cases hle : k2 ≤ k
    · simp [hle] at hm
    rw [if_neg hle] at hm
    obtain ⟨hin, hli⟩ := idx_leader c hc k hk
    obtain ⟨hjn, hlj⟩ := idx_leader c hc k2 hk2
    rw [mem_pair] at hm
    beta_reduce at hm
    generalize (computeLeaderIndices (n+1) (bdsComputeLeaders (n+1) c.e)).getD k 0 = i at hm hin hli
    generalize (computeLeaderIndices (n+1) (bdsComputeLeaders (n+1) c.e)).getD k2 0 = j at hm hjn hlj
    rcases hm with ⟨hb, rfl⟩ | ⟨hb, rfl⟩
    · obtain ⟨q, hq⟩ := irr i j hin hjn hb hli hlj
      rw [leCon_sat n c.e hin hjn hq]
      exact hx _ _ hin hjn
    · obtain ⟨q, hq⟩ := irr j i hjn hin hb hlj hli
      rw [leCon_sat n c.e hjn hin hq]
      exact hx _ _ hjn hin

end

section
variable {n : Nat} (c : DBM n) (hc : c.IsClosed) (red : BMat)
  (h : bdsShortestPathReduction upId n c.e = some red)

include hc in
/-- the equality of a non-leader is emitted -/
theorem minimized_emits_eq (i : Nat) (h1 : 1 ≤ i) (hi : i ≤ n) (hne : bdsComputeLeaders (n+1) c.e i ≠ i) :
    (if bdsComputeLeaders (n+1) c.e i = 0 then eqCon n c.e 0 i else eqCon n c.e i (bdsComputeLeaders (n+1) c.e i))
      ∈ bdsMinimizedConstraints n c.e red := by
  rw [bdsMinimizedConstraints_eq]
  apply List.mem_append_left; apply List.mem_append_left
  rw [mem_flatMap_range]
  refine ⟨i, by omega, ?_⟩
  unfold mcEq
  rw [if_neg (by omega), if_pos (Ne.symm hne)]
  split <;> simp

include hc in
/-- a kept entry between two distinct leaders is emitted -/
theorem minimized_emits_le (a b : Nat) (ha : a ≤ n) (hb : b ≤ n) (hab : a ≠ b)
    (hla : bdsComputeLeaders (n+1) c.e a = a) (hlb : bdsComputeLeaders (n+1) c.e b = b) (hk : red a b = false) :
    leCon n c.e a b ∈ bdsMinimizedConstraints n c.e red := by
  have ma : a ∈ computeLeaderIndices (n+1) (bdsComputeLeaders (n+1) c.e) := (mem_leaderIndices n _ a).2 ⟨ha, Or.inr hla⟩
  have mb : b ∈ computeLeaderIndices (n+1) (bdsComputeLeaders (n+1) c.e) := (mem_leaderIndices n _ b).2 ⟨hb, Or.inr hlb⟩
  obtain ⟨ka, hka, ea, za⟩ := leaderIndices_pos n _ a ma
  obtain ⟨kb, hkb, eb, zb⟩ := leaderIndices_pos n _ b mb
  have hkab : ka ≠ kb := by
    intro e; rw [e] at ea; exact hab (ea.symm.trans eb)
  rw [bdsMinimizedConstraints_eq]
  by_cases h0a : ka = 0
  · -- `a = 0`: the first unary inequality of `b`
    have a0 : a = 0 := za.1 h0a
    apply List.mem_append_left; apply List.mem_append_right
    rw [mem_flatMap_range]
    refine ⟨kb, hkb, ?_⟩
    unfold mcUn
    rw [if_neg (by omega), mem_pair]
    beta_reduce
    rw [eb]
    left; rw [← a0]; exact ⟨hk, rfl⟩
  by_cases h0b : kb = 0
  · have b0 : b = 0 := zb.1 h0b
    apply List.mem_append_left; apply List.mem_append_right
    rw [mem_flatMap_range]
    refine ⟨ka, hka, ?_⟩
    unfold mcUn
    rw [if_neg h0a, mem_pair]
    beta_reduce
    rw [ea]
    right; rw [← b0]; exact ⟨hk, rfl⟩
  apply List.mem_append_right
  rw [mem_flatMap_range]
  rcases Nat.lt_or_gt_of_ne hkab with hlt | hgt
  · refine ⟨ka, hka, ?_⟩
    unfold mcBin
    rw [if_neg h0a, mem_flatMap_range]
    refine ⟨kb, hkb, ?_⟩
    unfold mcBin1
    rw [if_neg (by omega), mem_pair]
    beta_reduce
    rw [ea, eb]
    left; exact ⟨hk, rfl⟩
  · refine ⟨kb, hkb, ?_⟩
    unfold mcBin
    rw [if_neg h0b, mem_flatMap_range]
    refine ⟨ka, hka, ?_⟩
    unfold mcBin1
    rw [if_neg (by omega), mem_pair]
    beta_reduce
    rw [ea, eb]
    right; exact ⟨hk, rfl⟩

include hc h in
/-- a valuation satisfying every emitted constraint is a point of the shape -/
theorem mem_of_minimized_constraints (x : ℕ → ℚ)
    (hs : ∀ lc ∈ bdsMinimizedConstraints n c.e red, lc.Sat x) : c.Sat x := by
  have hl := bdsComputeLeaders_spec c hc
  have hp := bdsComputePredecessors_spec c
  have hr := bdsShortestPathReduction_spec c hc red h
  -- every index sits at the exact distance from its leader
  have star : ∀ i, i ≤ n → c.z (bdsComputeLeaders (n+1) c.e i) i
      = fin (DBM.val x i - DBM.val x (bdsComputeLeaders (n+1) c.e i)) := by
    intro i hi
    by_cases hne : bdsComputeLeaders (n+1) c.e i = i
    · rw [hne, c.z_self hi, sub_self]
    · have h1 : 1 ≤ i := by
        rcases Nat.eq_zero_or_pos i with h0 | h0
        · exfalso; apply hne; rw [h0]; have := hl.le 0 (Nat.zero_le n); omega
        · exact h0
      have hln := lead_le_n c _ hl hi
      obtain ⟨p, hp1, hp2⟩ := c.zeq_fin hln (hl.zeq i hi)
      have hm := hs _ (minimized_emits_eq c hc red i h1 hi hne)
      rw [hp1]
      rw [c.z_ne hne] at hp1
      rw [c.z_ne (Ne.symm hne)] at hp2
      by_cases hz : bdsComputeLeaders (n+1) c.e i = 0
      · rw [if_pos hz] at hm
        rw [hz] at hp1 ⊢
        rw [eqCon_sat n c.e (Nat.zero_le n) hi hp1] at hm
        rw [hm]
      · rw [if_neg hz] at hm
        rw [eqCon_sat n c.e hi hln hp2] at hm
        congr 1; linarith
  -- hence every kept entry holds
  have hred : (c.reduced red).Sat x := by
    intro a b ha hb
    show fin (DBM.val x b - DBM.val x a) ≤ (if red a b then pinf else c.e a b)
    cases hk : red a b with
    | true => simp
    | false =>
      simp only [Bool.false_eq_true, if_false]
      have inclass : ∀ a b, a ≤ n → b ≤ n → a ≠ b → ZEq c.e a b →
          fin (DBM.val x b - DBM.val x a) ≤ c.e a b := by
        intro a b ha hb hab hz
        have hla := lead_le_n c _ hl ha
        have hll := lead_eq_of_zeq c hc _ hl ha hb hz
        have e1 := star a ha
        have e2 := star b hb
        rw [← hll] at e2
        obtain ⟨p, hp1, hp2⟩ := c.zeq_fin hla (hl.zeq a ha)
        rw [← c.z_ne hab, c.shift_row hc ha hla hb (hl.zeq a ha).symm, hp2, e2]
        rw [hp1] at e1
        have : p = DBM.val x a - DBM.val x (bdsComputeLeaders (n+1) c.e a) := by
          have := e1; simpa using ExtRat.fin.inj this
        show fin _ ≤ eadd (fin (-p)) (fin _)
        simp only [eadd, ExtRat.addUp, ExtRat.fin_le_fin]
        rw [this]; linarith
      rcases (hr.spec a b ha hb).1 hk with hA | hB | hC
      · obtain ⟨hla, hlb, _⟩ := hA
        have hab : a ≠ b := (bds_reduced_irredundant c hc _ _ hl hp red hr a b ha hb hk hla hlb).1
        obtain ⟨q, hq⟩ := (bds_reduced_irredundant c hc _ _ hl hp red hr a b ha hb hk hla hlb).2.1
        have hm := hs _ (minimized_emits_le c hc red a b ha hb hab hla hlb hk)
        rwa [leCon_sat n c.e ha hb hq] at hm
      · obtain ⟨hlt, hpb⟩ := hB
        have hz := hp.zeq b hb
        rw [hpb] at hz
        exact inclass a b ha hb (by omega) hz
      · obtain ⟨hlt, hla, _⟩ := hC
        have hz := hl.zeq a ha
        rw [hla] at hz
        exact inclass a b ha hb (by omega) hz.symm
  have e := bds_reduced_preserves c hc _ _ hl hp red hr
  have : x ∈ DBM.γ (c.reduced red) := hred
  rw [e] at this
  exact this

include hc h in
/-- **`minimized_constraints()` denotes the shape** -/
theorem bds_minimized_constraints_sem_aux :
    {x : ℕ → ℚ | ∀ lc ∈ bdsMinimizedConstraints n c.e red, lc.Sat x} = DBM.γ c := by
  ext x
  exact ⟨fun hs => mem_of_minimized_constraints c hc red h x hs,
    fun hx lc hlc => minimized_constraints_of_mem c hc red h x hx lc hlc⟩

end

/-! ## the number of equalities `minimized_constraints()` emits -/

theorem filter_isEq_flatMap_of_all_false (l : List Nat) (g : Nat → List LCon)
    (hg : ∀ i lc, lc ∈ g i → lc.isEq = false) : (l.flatMap g).filter (·.isEq) = [] := by
  rw [List.filter_eq_nil_iff]
  intro lc hlc
  obtain ⟨i, _, hi⟩ := List.mem_flatMap.1 hlc
  simp [hg i lc hi]

theorem length_filter_flatMap_single (l : List Nat) (g : Nat → List LCon) (p : Nat → Bool)
    (hg : ∀ i, ((g i).filter (·.isEq)).length = if p i then 1 else 0) :
    ((l.flatMap g).filter (·.isEq)).length = (l.filter p).length := by
  induction l with
  | nil => simp
  | cons a l ih =>
    rw [List.flatMap_cons, List.filter_append, List.length_append, ih, hg a]
    by_cases hp : p a
    · simp [hp]; omega
    · simp [hp]

theorem length_filter_ne_zero (n : Nat) : ((List.range (n+1)).filter (fun i => i != 0)).length = n := by
  rw [List.range_succ_eq_map, List.filter_cons_of_neg (by simp)]
  rw [List.filter_eq_self.2 (by intro a ha; obtain ⟨b, _, rfl⟩ := List.mem_map.1 ha; simp)]
  simp

/-- `minimized_constraints()` emits one equality per non-leader among `1..n`: `n - affine_dimension()` of them -/
theorem bds_minimized_constraints_equalities {n : Nat} (c : DBM n) (hc : c.IsClosed) (red : BMat) :
    ((bdsMinimizedConstraints n c.e red).filter (·.isEq)).length + bdsAffineDimension n c.e = n := by
  rw [bdsMinimizedConstraints_eq, List.filter_append, List.filter_append,
    filter_isEq_flatMap_of_all_false _ (mcUn n c.e red _), filter_isEq_flatMap_of_all_false _ (mcBin n c.e red _ _),
    List.append_nil, List.append_nil,
    length_filter_flatMap_single _ _ (fun i => i != 0 && bdsComputeLeaders (n+1) c.e i != i)]
  · rw [bdsAffineDimension_eq_count,
      leaderCount_congr n _ _ (fun i hi => bdsPred_self_iff_leader c hc i hi)]
    unfold leaderCount
    have e := List.length_eq_length_filter_add (l := (List.range (n+1)).filter (fun i => i != 0))
      (fun i => bdsComputeLeaders (n+1) c.e i == i)
    rw [length_filter_ne_zero, List.filter_filter, List.filter_filter] at e
    have e1 : (List.range (n+1)).filter (fun i => (bdsComputeLeaders (n+1) c.e i == i) && (i != 0))
        = (List.range (n+1)).filter (fun i => i != 0 && bdsComputeLeaders (n+1) c.e i == i) :=
      List.filter_congr (fun i _ => Bool.and_comm _ _)
    have e2 : (List.range (n+1)).filter (fun i => (!(bdsComputeLeaders (n+1) c.e i == i)) && (i != 0))
        = (List.range (n+1)).filter (fun i => i != 0 && bdsComputeLeaders (n+1) c.e i != i) :=
      List.filter_congr (fun i _ => by rw [Bool.and_comm]; rfl)
    rw [e1, e2] at e
    omega
  · intro i
    unfold mcEq eqCon
    by_cases h0 : i = 0
    · simp [h0]
    · by_cases hne : i = bdsComputeLeaders (n+1) c.e i
      · simp [h0, ← hne]
      · have hne' : bdsComputeLeaders (n+1) c.e i ≠ i := fun e => hne e.symm
        by_cases hz : bdsComputeLeaders (n+1) c.e i = 0
        · simp [h0, hz]
          exact fun e => h0 e.symm
        · simp [h0, hne, hne', hz]
  · intro k lc hlc
    unfold mcBin at hlc
    split at hlc
    · simp at hlc
    · obtain ⟨k2, _, h2⟩ := List.mem_flatMap.1 hlc
      unfold mcBin1 at h2
      split at h2
      · simp at h2
      · rw [mem_pair] at h2
        rcases h2 with ⟨_, rfl⟩ | ⟨_, rfl⟩ <;> rfl
  · intro k lc hlc
    unfold mcUn at hlc
    split at hlc
    · simp at hlc
    · rw [mem_pair] at hlc
      rcases hlc with ⟨_, rfl⟩ | ⟨_, rfl⟩ <;> rfl

/-! ## `constraints()` of a shape not marked reduced: every matrix, closed or not -/

/-- what `constraints()` emits for the pair of dbm indices `i < j` -/
def caPair (n : Nat) (m : Mat) (i j : Nat) : List LCon :=
  if j ≤ i then []
  else if ExtRat.isAddInv (m j i) (m i j) then [eqCon n m i j]
  else (if (m i j).isPinf = true then [] else [leCon n m i j]) ++ (if (m j i).isPinf = true then [] else [leCon n m j i])

def caBody1 (n : Nat) (m : Mat) (j : Nat) (cs : List LCon) : List LCon :=
  if j = 0 then cs
  else
    if ExtRat.isAddInv (m j 0) (m 0 j) then cs ++ [⟨true, diffCoeffs n (denomOf (m 0 j)) j 0, numerOf (m 0 j)⟩]
    else
      let cs := if !(m 0 j).isPinf then cs ++ [⟨false, diffCoeffs n (denomOf (m 0 j)) j 0, numerOf (m 0 j)⟩] else cs
      if !(m j 0).isPinf then cs ++ [⟨false, diffCoeffs n (denomOf (m j 0)) 0 j, numerOf (m j 0)⟩] else cs

def caBody2 (n : Nat) (m : Mat) (i j : Nat) (cs : List LCon) : List LCon :=
  if j ≤ i then cs
  else
    if ExtRat.isAddInv (m j i) (m i j) then cs ++ [⟨true, diffCoeffs n (denomOf (m i j)) j i, numerOf (m i j)⟩]
    else
      let cs := if !(m i j).isPinf then cs ++ [⟨false, diffCoeffs n (denomOf (m i j)) j i, numerOf (m i j)⟩] else cs
      if !(m j i).isPinf then cs ++ [⟨false, diffCoeffs n (denomOf (m j i)) i j, numerOf (m j i)⟩] else cs

def caBody3 (n : Nat) (m : Mat) (i : Nat) (cs : List LCon) : List LCon :=
  if i = 0 then cs else loopUp (n+1) (caBody2 n m i) cs

theorem caBody2_eq (n : Nat) (m : Mat) (i : Nat) : caBody2 n m i = fun j cs => cs ++ caPair n m i j := by
  funext j cs
  unfold caBody2 caPair eqCon leCon
  by_cases h0 : j ≤ i
  · simp [h0]
  · cases ha : ExtRat.isAddInv (m j i) (m i j) <;> cases hb : (m i j).isPinf <;> cases hc : (m j i).isPinf <;>
      simp [h0, ha, hb, hc]

theorem caBody1_eq (n : Nat) (m : Mat) : caBody1 n m = fun j cs => cs ++ caPair n m 0 j := by
  funext j cs
  unfold caBody1 caPair eqCon leCon
  by_cases h0 : j = 0
  · simp [h0]
  · have h0' : ¬ j ≤ 0 := by omega
    cases ha : ExtRat.isAddInv (m j 0) (m 0 j) <;> cases hb : (m 0 j).isPinf <;> cases hc : (m j 0).isPinf <;>
      simp [h0, h0', ha, hb, hc]

theorem caBody3_eq (n : Nat) (m : Mat) :
    caBody3 n m = fun i cs => cs ++ (if i = 0 then [] else (List.range (n+1)).flatMap (caPair n m i)) := by
  funext i cs
  unfold caBody3
  by_cases h0 : i = 0
  · simp [h0]
  · rw [if_neg h0, if_neg h0, caBody2_eq, loopUp_append]

theorem bdsConstraintsAll_eq (n : Nat) (m : Mat) :
    bdsConstraintsAll n m = (List.range (n+1)).flatMap (caPair n m 0) ++
      (List.range (n+1)).flatMap (fun i => if i = 0 then [] else (List.range (n+1)).flatMap (caPair n m i)) := by
  show loopUp (n+1) (caBody3 n m) (loopUp (n+1) (caBody1 n m) []) = _
  rw [caBody1_eq, caBody3_eq, loopUp_append, loopUp_append, List.nil_append]

theorem mem_bdsConstraintsAll (n : Nat) (m : Mat) (lc : LCon) :
    lc ∈ bdsConstraintsAll n m ↔ ∃ i j, i < j ∧ j ≤ n ∧ lc ∈ caPair n m i j := by
  rw [bdsConstraintsAll_eq, List.mem_append, mem_flatMap_range, mem_flatMap_range]
  constructor
  · rintro (⟨j, hj, hm⟩ | ⟨i, hi, hm⟩)
    · have : ¬ j ≤ 0 := by intro h; unfold caPair at hm; rw [if_pos h] at hm; simp at hm
      exact ⟨0, j, by omega, by omega, hm⟩
    · by_cases h0 : i = 0
      · simp [h0] at hm
      · rw [if_neg h0, mem_flatMap_range] at hm
        obtain ⟨j, hj, hm⟩ := hm
        have : ¬ j ≤ i := by intro h; unfold caPair at hm; rw [if_pos h] at hm; simp at hm
        exact ⟨i, j, by omega, by omega, hm⟩
  · rintro ⟨i, j, hij, hj, hm⟩
    by_cases h0 : i = 0
    · left; subst h0; exact ⟨j, by omega, hm⟩
    · right
      refine ⟨i, by omega, ?_⟩
      rw [if_neg h0, mem_flatMap_range]
      exact ⟨j, by omega, hm⟩

theorem isPinf_false {a : ExtRat} (h : a.isPinf = false) : ∃ r, a = fin r := by
  cases a with
  | fin r => exact ⟨r, rfl⟩
  | pinf => simp [ExtRat.isPinf] at h

/-- the constraints emitted for a pair hold exactly when both entries of the pair hold -/
theorem caPair_sat (n : Nat) (m : Mat) {i j : Nat} (hij : i < j) (hj : j ≤ n) (x : ℕ → ℚ) :
    (∀ lc ∈ caPair n m i j, lc.Sat x) ↔
      fin (DBM.val x j - DBM.val x i) ≤ m i j ∧ fin (DBM.val x i - DBM.val x j) ≤ m j i := by
  have hi : i ≤ n := by omega
  unfold caPair
  rw [if_neg (by omega)]
  cases ha : ExtRat.isAddInv (m j i) (m i j) with
  | true =>
    obtain ⟨a, b, e1, e2, hab⟩ := (ExtRat.isAddInv_iff _ _).1 ha
    simp only [if_true, List.mem_singleton, forall_eq]
    rw [eqCon_sat n m hi hj e2, e1, e2, ExtRat.fin_le_fin, ExtRat.fin_le_fin]
    constructor
    · intro h; constructor <;> linarith
    · rintro ⟨h1, h2⟩; linarith
  | false =>
    simp only [Bool.false_eq_true, if_false]
    cases hb : (m i j).isPinf <;> cases hc : (m j i).isPinf
    · obtain ⟨r1, e1⟩ := isPinf_false hb
      obtain ⟨r2, e2⟩ := isPinf_false hc
      simp only [Bool.false_eq_true, if_false, List.mem_append, List.mem_singleton]
      constructor
      · intro h
        exact ⟨(leCon_sat n m hi hj e1 x).1 (h _ (Or.inl rfl)), (leCon_sat n m hj hi e2 x).1 (h _ (Or.inr rfl))⟩
      · rintro ⟨h1, h2⟩ lc (rfl | rfl)
        · exact (leCon_sat n m hi hj e1 x).2 h1
        · exact (leCon_sat n m hj hi e2 x).2 h2
    · obtain ⟨r1, e1⟩ := isPinf_false hb
      have e2 := (ExtRat.isPinf_iff _).1 hc
      simp only [Bool.false_eq_true, if_false, if_true, List.append_nil, List.mem_singleton, forall_eq]
      rw [leCon_sat n m hi hj e1 x, e2]
      simp
    · have e1 := (ExtRat.isPinf_iff _).1 hb
      obtain ⟨r2, e2⟩ := isPinf_false hc
      simp only [Bool.false_eq_true, if_false, if_true, List.nil_append, List.mem_singleton, forall_eq]
      rw [leCon_sat n m hj hi e2 x, e1]
      simp
    · have e1 := (ExtRat.isPinf_iff _).1 hb
      have e2 := (ExtRat.isPinf_iff _).1 hc
      simp [e1, e2]

/-- **`constraints()` of a shape not marked reduced denotes the shape** (any matrix, closed or not) -/
theorem bds_constraints_all_sem {n : Nat} (m : DBM n) :
    {x : ℕ → ℚ | ∀ lc ∈ bdsConstraintsAll n m.e, lc.Sat x} = DBM.γ m := by
  ext x
  constructor
  · intro hs i j hi hj
    rcases Nat.lt_trichotomy i j with hlt | heq | hgt
    · exact ((caPair_sat n m.e hlt hj x).1 (fun lc hlc => hs lc ((mem_bdsConstraintsAll n m.e lc).2 ⟨i, j, hlt, hj, hlc⟩))).1
    · subst heq; rw [m.diag i hi]; exact ExtRat.le_pinf _
    · exact ((caPair_sat n m.e hgt hi x).1 (fun lc hlc => hs lc ((mem_bdsConstraintsAll n m.e lc).2 ⟨j, i, hgt, hi, hlc⟩))).2
  · intro hx lc hlc
    obtain ⟨i, j, hij, hj, hm⟩ := (mem_bdsConstraintsAll n m.e lc).1 hlc
    exact (caPair_sat n m.e hij hj x).2 ⟨hx i j (by omega) hj, hx j i hj (by omega)⟩ lc hm

end PPLV.WR
