import PPLV.WR.Trans2LhsProofsBase
/-!
# `BD_Shape<T>::generalized_affine_image(lhs, relsym, rhs)`: soundness of every branch
-/
set_option linter.unusedVariables false
set_option linter.unusedSimpArgs false
namespace PPLV.WR
open ExtRat

/-- the sign-corrected relation symbol: `a*t + b_lhs ⋈ r + b_rhs` is `t ⋈' (r + (b_rhs - b_lhs))/a` -/
theorem lhs_newRel_holds {a : Int} (ha : a ≠ 0) {rel : RelSym} {t r : Rat} {bl br : Int}
    (h : rel.holds ((a : Rat) * t + bl) (r + br)) :
    (lhsNewRelSym rel a).holds t ((r + ((br - bl : Int) : Rat)) / (a : Rat)) := by
  unfold lhsNewRelSym
  push_cast
  rcases lt_or_gt_of_ne ha with hn | hp
  · have hn' : (a : Rat) < 0 := by exact_mod_cast hn
    rw [if_pos hn]
    cases rel with
    | le =>
      have h' : (a : Rat) * t + bl ≤ r + br := h
      show (r + ((br : Rat) - bl)) / (a : Rat) ≤ t
      have hc : (0 : Rat) < - (a : Rat) := by linarith
      rw [← neg_div_neg_eq, div_le_iff₀ hc]; linarith
    | ge =>
      have h' : r + br ≤ (a : Rat) * t + bl := h
      show t ≤ (r + ((br : Rat) - bl)) / (a : Rat)
      have hc : (0 : Rat) < - (a : Rat) := by linarith
      rw [← neg_div_neg_eq, le_div_iff₀ hc]; linarith
    | eq =>
      have h' : (a : Rat) * t + bl = r + br := h
      show t = (r + ((br : Rat) - bl)) / (a : Rat)
      rw [eq_div_iff hn'.ne]; linarith
  · have hp' : (0 : Rat) < a := by exact_mod_cast hp
    rw [if_neg (by omega)]
    cases rel with
    | le =>
      have h' : (a : Rat) * t + bl ≤ r + br := h
      show t ≤ (r + ((br : Rat) - bl)) / (a : Rat)
      rw [le_div_iff₀ hp']; linarith
    | ge =>
      have h' : r + br ≤ (a : Rat) * t + bl := h
      show (r + ((br : Rat) - bl)) / (a : Rat) ≤ t
      rw [div_le_iff₀ hp']; linarith
    | eq =>
      have h' : (a : Rat) * t + bl = r + br := h
      show t = (r + ((br : Rat) - bl)) / (a : Rat)
      rw [eq_div_iff hp'.ne']; linarith

/-- `lhs` constant: `refine_no_check(lhs relsym rhs)`; no side condition -/
theorem bdsLhsImage_t0_sound {R : Rnd} (hR : R.Sound) {n : Nat} (rel : RelSym) {el er : Nat → Int} (bl br : Int)
    (h0 : exprT el (lastNonzero el n) = 0) {m : Mat} {x x' : Nat → Rat} (hx : x ∈ γB n m)
    (hag : ∀ i, i < n → el i = 0 → x' i = x i)
    (hrel : rel.holds (linEval el x' n + bl) (linEval er x n + br)) :
    ∃ m', bdsLhsGenAffineImageCore R n rel el bl er br m = some m' ∧ x' ∈ γB n m' := by
  have hall : ∀ i, i < n → x' i = x i := fun i hi => hag i hi (lhs_t0_zero h0 i hi)
  have hx' : x' ∈ γB n m := lhs_holds_congr hall hx
  rw [← linEval_congr_x er hall] at hrel
  obtain ⟨m', hm', hy, _⟩ := lhsRefineRel_sound (R := R) hR.up_le rel bl br (lastNonzero_le el n)
    (lastNonzero_le er n) (lastNonzero_above el n) (lastNonzero_above er n) hx' hrel
  refine ⟨m', ?_, hy⟩
  unfold bdsLhsGenAffineImageCore
  dsimp only [lhsForm, lhsSpaceDim]
  rw [if_pos h0, hm']
  rfl

/-- `lhs == a*v + b`: the delegate `generalized_affine_image(v, relsym', rhs - b_lhs, a)` -/
theorem bdsLhsImage_t1_sound {R : Rnd} (hR : R.Sound) {n : Nat} (rel : RelSym) {el er : Nat → Int} (bl br : Int)
    (h1 : exprT el (lastNonzero el n) = 1) (hc : CoeffExact R er) {m : Mat} {x x' : Nat → Rat} (hx : x ∈ γB n m)
    (hag : ∀ i, i < n → el i = 0 → x' i = x i)
    (hrel : rel.holds (linEval el x' n + bl) (linEval er x n + br)) :
    ∃ m', bdsLhsGenAffineImageCore R n rel el bl er br m = some m' ∧ x' ∈ γB n m' := by
  obtain ⟨hw0, ha0, hz⟩ := lhs_t1_zero h1
  obtain ⟨_, hval⟩ := linEval_t1 x' h1
  have hwn := lastNonzero_le el n
  have hj : lastNonzero el n - 1 < n := by omega
  rw [hval] at hrel
  have hnew := lhs_newRel_holds ha0 hrel
  have hcong : ∀ i, i < n → x' i = upd x (lastNonzero el n - 1) (x' (lastNonzero el n - 1)) i := by
    intro i hi
    unfold upd
    split
    · rename_i h; rw [h]
    · rename_i h; exact hag i hi (hz i hi h)
  unfold bdsLhsGenAffineImageCore
  dsimp only [lhsForm, lhsSpaceDim]
  rw [if_neg (by omega), if_pos h1]
  generalize lhsNewRelSym rel (el (lastNonzero el n - 1)) = rel' at hnew ⊢
  cases rel' with
  | eq =>
    have ht : x' (lastNonzero el n - 1) = _ := hnew
    refine ⟨_, rfl, lhs_holds_congr hcong ?_⟩
    rw [ht]
    exact affineImageCore_sound hR hj hc ha0 hx
  | le =>
    have ht : x' (lastNonzero el n - 1) ≤ _ := hnew
    exact ⟨_, rfl, lhs_holds_congr hcong
      (genAffineImageCore_sound hR hj hc ha0 hx true (by simpa using ht))⟩
  | ge =>
    have ht : _ ≤ x' (lastNonzero el n - 1) := hnew
    exact ⟨_, rfl, lhs_holds_congr hcong
      (genAffineImageCore_sound hR hj hc ha0 hx false (by simpa using ht))⟩

/-- `lhs` general: forget the variables of `lhs`, then (disjoint case) `refine_no_check`; no side condition -/
theorem bdsLhsImage_t2_sound {R : Rnd} (hR : R.Sound) {n : Nat} (rel : RelSym) {el er : Nat → Int} (bl br : Int)
    (h0 : ¬ exprT el (lastNonzero el n) = 0) (h1 : ¬ exprT el (lastNonzero el n) = 1)
    {m : Mat} {x x' : Nat → Rat} (hx : x ∈ γB n m)
    (hag : ∀ i, i < n → el i = 0 → x' i = x i)
    (hrel : rel.holds (linEval el x' n + bl) (linEval er x n + br)) :
    ∃ m', bdsLhsGenAffineImageCore R n rel el bl er br m = some m' ∧ x' ∈ γB n m' := by
  have hfor : x' ∈ γB n (bdsLhsForgetVars (n + 1) (lhsVars el n) m) :=
    holds_forget_lhsVars (le_refl n) hx hag (fun i h1 h2 => by omega)
  unfold bdsLhsGenAffineImageCore
  dsimp only [lhsForm, lhsSpaceDim]
  rw [if_neg h0, if_neg h1]
  split
  · rename_i hcom
    have hcom' : lhsHaveCommonVar el er (min (lhsSpaceDim el n) (lhsSpaceDim er n)) = false := by
      simpa [lhsSpaceDim] using hcom
    have hnc := lhs_no_common hcom'
    have hr : linEval er x' n = linEval er x n :=
      lhs_linEval_support er (fun i hi hne => hag i hi (by
        by_contra hel
        exact hne (hnc i hi hel)))
    rw [← hr] at hrel
    obtain ⟨m', hm', hy, _⟩ := lhsRefineRel_sound (R := R) hR.up_le rel bl br (lastNonzero_le el n)
      (lastNonzero_le er n) (lastNonzero_above el n) (lastNonzero_above er n) hfor hrel
    rw [hm']
    exact ⟨m', rfl, hy⟩
  · exact ⟨_, rfl, hfor⟩

theorem bdsLhsGenAffineImageCore_sound {R : Rnd} (hR : R.Sound) {n : Nat} (rel : RelSym) {el er : Nat → Int}
    (bl br : Int) (hc : exprT el (lastNonzero el n) = 1 → CoeffExact R er) {m : Mat} {x x' : Nat → Rat}
    (hx : x ∈ γB n m) (hag : ∀ i, i < n → el i = 0 → x' i = x i)
    (hrel : rel.holds (linEval el x' n + bl) (linEval er x n + br)) :
    ∃ m', bdsLhsGenAffineImageCore R n rel el bl er br m = some m' ∧ x' ∈ γB n m' := by
  by_cases h0 : exprT el (lastNonzero el n) = 0
  · exact bdsLhsImage_t0_sound hR rel bl br h0 hx hag hrel
  · by_cases h1 : exprT el (lastNonzero el n) = 1
    · exact bdsLhsImage_t1_sound hR rel bl br h1 (hc h1) hx hag hrel
    · exact bdsLhsImage_t2_sound hR rel bl br h0 h1 hx hag hrel

/-- `generalized_affine_image(lhs, relsym, rhs)` with the initial closure -/
theorem bdsLhsGenAffineImage_sound {R : Rnd} (hR : R.Sound) {n : Nat} (m : DBM n) (closed : Bool) (rel : RelSym)
    {el er : Nat → Int} (bl br : Int) (hc : exprT el (lastNonzero el n) = 1 → CoeffExact R er)
    {x x' : Nat → Rat} (hx : x ∈ DBM.γ m) (hag : ∀ i, i < n → el i = 0 → x' i = x i)
    (hrel : rel.holds (linEval el x' n + bl) (linEval er x n + br)) :
    ∃ m', bdsLhsGenAffineImage R closed rel el bl er br m = some m' ∧ x' ∈ γB n m' := by
  obtain ⟨m1, h1, hx1⟩ := closeFirst_sound hR.up_le closed m hx
  obtain ⟨m', hm', hx'⟩ := bdsLhsGenAffineImageCore_sound hR rel bl br hc hx1 hag hrel
  exact ⟨m', by simp [bdsLhsGenAffineImage, h1, hm'], hx'⟩

end PPLV.WR
