import PPLV.WR.ReduceProofsUBCompleteOctBase
import PPLV.WR.ReduceProofsUBCompleteMain
/-!
# Strongly closed octagons over `ℚ` are tight; the join is the least octagon above two strongly closed ones

* `OctM.IsStronglyClosed.exists_point_ge`: every value below an entry of the full view of a strongly closed
  matrix is exceeded by the corresponding difference at a point of the octagon (the entry is attained, an
  infinite entry is unbounded).  The full view tightened by `P_b - P_a ≥ w` and by the coherent twin of this
  constraint is still closed (`Closed.addEdge` twice: the first by `w ≤ m_ab`, the second by strong coherence
  `2 m_ab ≤ m_{a,ca} + m_{cb,b}`); a potential of it is symmetrised (`OctM.point_of_potential_below`).
* `OctM.le_of_γ_subset`, `OctM.γ_join_least`, `OctM.join_of_union_eq`: as for bounded-difference shapes.
* `octUB_complete_of_witness`: a point of the join outside both (strongly closed) operands shows that the union
  is not an octagon.  (That the answer `false` of `octUpperBoundIfExact` yields such a point: `octUB_witness` in
  `ReduceProofsUBCompleteOctMain.lean`.)
-/
namespace PPLV.WR
open ExtRat (fin pinf addUp halfUp)

/-- the twin edge against the path through the first one: strong coherence -/
theorem fin_le_path_coh {w : Rat} {E A B : ExtRat} (h : fin w ≤ E) (hc : E ≤ halfUp fin (eadd A B)) :
    fin w ≤ eadd B (eadd (fin (-w)) A) := by
  cases A <;> cases B <;> cases E <;> simp_all [eadd, addUp, halfUp]
  linarith

namespace OctM
variable {n : Nat}

/-- **tightness of a strongly closed matrix over `ℚ`** -/
theorem IsStronglyClosed.exists_point_ge {c : OctM n} (hc : c.IsStronglyClosed) {a b : Nat}
    (ha : a < 2 * n) (hb : b < 2 * n) {w : Rat} (hw : fin w ≤ octFull c.e a b) :
    ∃ x : Nat → Rat, c.Sat x ∧ w ≤ oval x b - oval x a := by
  have hV := hc.closedFull
  have ha' : cidx a < 2 * n := cidx_lt ha
  have hb' : cidx b < 2 * n := cidx_lt hb
  -- first edge: `P_a - P_b ≤ -w`
  have hc1 : Closed (2 * n) (Mat.addEdge { f := octFull c.e } b a (-w)) :=
    hV.addEdge hb ha _ (fin_zero_le_eadd_neg hw)
  -- its twin: `P_cb - P_ca ≤ -w`
  have k2 : fin w ≤ (Mat.addEdge { f := octFull c.e } b a (-w)) (cidx b) (cidx a) := by
    refine ExtRat.le_minA ?_ ?_
    · show fin w ≤ octFull c.e (cidx b) (cidx a)
      rw [octFull_coh' c.e b a]; exact hw
    · show fin w ≤ eadd (octFull c.e (cidx b) b) (eadd (fin (-w)) (octFull c.e a (cidx a)))
      exact fin_le_path_coh hw (hc.coh' ha hb)
  have hc2 : Closed (2 * n)
      ((Mat.addEdge { f := octFull c.e } b a (-w)).addEdge (cidx a) (cidx b) (-w)) :=
    hc1.addEdge ha' hb' _ (fin_zero_le_eadd_neg k2)
  obtain ⟨q, hq⟩ := hc2.nonempty
  have e1 : fin (q a - q b) ≤ fin (-w) :=
    ExtRat.le_trans' (hq b a ⟨hb, ha⟩)
      (ExtRat.le_trans' (Mat.addEdge_le _ _ _ _ _ _) (hV.addEdge_edge hb ha _))
  have e2 : fin (q (cidx b) - q (cidx a)) ≤ fin (-w) :=
    ExtRat.le_trans' (hq (cidx a) (cidx b) ⟨ha', hb'⟩) (hc1.addEdge_edge ha' hb' _)
  rw [ExtRat.fin_le_fin] at e1 e2
  obtain ⟨x, hx, hv⟩ := c.point_of_potential_below (d := (Mat.addEdge { f := octFull c.e } b a
    (-w)).addEdge (cidx a) (cidx b) (-w))
    (fun u v => ExtRat.le_trans' (Mat.addEdge_le _ _ _ _ _ _) (Mat.addEdge_le _ _ _ _ _ _)) hq
  refine ⟨x, hx, ?_⟩
  rw [hv, hv]
  linarith

/-- a strongly closed matrix is the least one (off the diagonal) among the matrices containing its points -/
theorem le_of_γ_subset {x : OctM n} (hx : x.IsStronglyClosed) (Q : OctM n) (h : OctM.γ x ⊆ OctM.γ Q)
    {a b : Nat} (ha : a < 2 * n) (hb : b < rowSize a) (hab : a ≠ b) : x.e a b ≤ Q.e a b := by
  have hbn : b < 2 * n := lt_of_lt_of_le hb (rowSize_le ha)
  cases hu : Q.e a b with
  | pinf => exact ExtRat.le_pinf _
  | fin u =>
    cases hw : x.e a b with
    | fin w =>
      obtain ⟨p, hp, hd⟩ := hx.exists_point_ge ha hbn (w := w)
        (by rw [← raw_eq_octFull x.e hb hab, hw]; exact ExtRat.le_rfl' _)
      have := h hp a b ha hb
      rw [hu, ExtRat.fin_le_fin] at this
      rw [ExtRat.fin_le_fin]; linarith
    | pinf =>
      exfalso
      obtain ⟨p, hp, hd⟩ := hx.exists_point_ge ha hbn (w := u + 1)
        (by rw [← raw_eq_octFull x.e hb hab, hw]; exact ExtRat.le_pinf _)
      have := h hp a b ha hb
      rw [hu, ExtRat.fin_le_fin] at this
      linarith

/-- the join of two strongly closed matrices is included in every octagon containing both -/
theorem γ_join_least {x y : OctM n} (hx : x.IsStronglyClosed) (hy : y.IsStronglyClosed) (Q : OctM n)
    (h1 : OctM.γ x ⊆ OctM.γ Q) (h2 : OctM.γ y ⊆ OctM.γ Q) : OctM.γ (join x y) ⊆ OctM.γ Q := by
  intro p hp i j hi hj
  by_cases hij : i = j
  · rw [hij, Q.diag j (by omega)]; exact ExtRat.le_pinf _
  · refine ExtRat.le_trans' (hp i j hi hj) ?_
    rw [join_apply]
    rcases ExtRat.maxA_cases (x.e i j) (y.e i j) with e | e <;> rw [e]
    · exact le_of_γ_subset hx Q h1 hi hj hij
    · exact le_of_γ_subset hy Q h2 hi hj hij

/-- if the union of two strongly closed octagons is an octagon, it is their join -/
theorem join_of_union_eq {x y : OctM n} (hx : x.IsStronglyClosed) (hy : y.IsStronglyClosed) (Q : OctM n)
    (h : OctM.γ Q = OctM.γ x ∪ OctM.γ y) : OctM.γ (join x y) = OctM.γ x ∪ OctM.γ y := by
  apply Set.Subset.antisymm
  · rw [← h]
    exact γ_join_least hx hy Q (by rw [h]; exact Set.subset_union_left)
      (by rw [h]; exact Set.subset_union_right)
  · exact Set.union_subset (γ_subset_join_left x y) (γ_subset_join_right x y)

end OctM

/-- a point of the join outside both operands: the union is not an octagon -/
theorem octUB_complete_of_witness {n : Nat} (x y : OctM n) (hx : x.IsStronglyClosed) (hy : y.IsStronglyClosed)
    (hw : ∃ p, p ∈ OctM.γ (OctM.join x y) ∧ p ∉ OctM.γ x ∧ p ∉ OctM.γ y) :
    ¬ ∃ Q : OctM n, OctM.γ Q = OctM.γ x ∪ OctM.γ y := by
  rintro ⟨Q, hQ⟩
  obtain ⟨p, hp, hpx, hpy⟩ := hw
  rw [OctM.join_of_union_eq hx hy Q hQ] at hp
  rcases hp with hp | hp
  · exact hpx hp
  · exact hpy hp

end PPLV.WR
