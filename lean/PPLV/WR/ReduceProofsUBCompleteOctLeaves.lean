import PPLV.WR.ClosureProofsFW
import Mathlib.Tactic.Linarith
/-!
# Octagon exact-join test, answer `false`: the arithmetic of the tightened matrix (pure `ExtRat`)

`Alts6 X A B C D P5 P6 w S`: `S` is one of the six sums that make up an entry `(u, v)` of a matrix `V` tightened by
the constraint of cell `(j, i)` and by its coherent twin `(ci, cj)`, both of weight `w`
(`X = V u v`, `A = V u j`, `B = V i v`, `C = V u ci`, `D = V cj v`, `P5 = V i ci`, `P6 = V cj j`).

`OctFacts`: the lower bounds on the entries `p1 = V i ℓ`, `p2 = V k j`, `p3 = V i ck`, `p4 = V cj ℓ`,
`p5 = V i ci`, `p6 = V cj j`, `p7 = V k ck`, `p8 = V cℓ ℓ`, `e2 = V k ℓ` of the join that the eight conditions of the
test provide (with the margin already added: `a' = x_ij + ε`, `b' = y_kℓ + ε`), and the four instances of strong
coherence of the join that are used.  `lb_K3`, `lb_K4a`, `lb_K4b`: the compatibility conditions of the second pair
of edges.
-/
set_option linter.unnecessarySeqFocus false

namespace PPLV.WR
open ExtRat

/-- the six alternatives of an entry after a pair of coherent edges of weight `w` -/
def Alts6 (X A B C D P5 P6 : ExtRat) (w : Rat) (S : ExtRat) : Prop :=
  S = X ∨ S = eadd A (eadd (fin w) B) ∨ S = eadd C (eadd (fin w) D) ∨
  S = eadd C (eadd (fin w) (eadd P6 (eadd (fin w) B))) ∨
  S = eadd (eadd A (eadd (fin w) P5)) (eadd (fin w) D) ∨
  S = eadd (eadd A (eadd (fin w) P5)) (eadd (fin w) (eadd P6 (eadd (fin w) B)))

/-- what the test and strong coherence of the join give -/
structure OctFacts (a' b' : Rat) (e2 p1 p2 p3 p4 p5 p6 p7 p8 : ExtRat) : Prop where
  f1b : fin (2 * a') ≤ eadd p5 p6
  f2 : fin b' ≤ e2
  f2b : fin (2 * b') ≤ eadd p7 p8
  f3 : fin (a' + b') ≤ eadd p1 p2
  f4 : fin (a' + b') ≤ eadd p3 p4
  f5 : fin (2 * a' + b') ≤ eadd (eadd p1 p3) p6
  f6 : fin (2 * a' + b') ≤ eadd (eadd p2 p4) p5
  f7 : fin (a' + 2 * b') ≤ eadd (eadd p1 p4) p7
  f8 : fin (a' + 2 * b') ≤ eadd (eadd p2 p3) p8
  h1 : p1 ≤ halfUp fin (eadd p5 p8)
  h2 : p2 ≤ halfUp fin (eadd p7 p6)
  h3 : p3 ≤ halfUp fin (eadd p5 p7)
  h4 : p4 ≤ halfUp fin (eadd p6 p8)

/-- `cases` on an entry; the branch `+∞` is closed when the bounded sum collapses -/
macro "cs " x:ident : tactic =>
  `(tactic| (cases $x:ident <;>
      try (simp only [eadd_pinf_left, eadd_pinf_right, ExtRat.le_pinf]; done)))

macro "fin_arith" : tactic =>
  `(tactic| (simp_all [eadd, ExtRat.addUp, ExtRat.halfUp] <;> linarith))

/-- `cases` on the listed entries (pruning), then linear arithmetic on the finite branch -/
syntax "lf" (ppSpace ident)* : tactic
macro_rules
  | `(tactic| lf) => `(tactic| fin_arith)
  | `(tactic| lf $x $xs*) => `(tactic| (cs $x <;> lf $xs*))

variable {a' b' : Rat} {e2 p1 p2 p3 p4 p5 p6 p7 p8 : ExtRat}

/-- the second edge against the matrix tightened by the first pair -/
theorem lb_K3 (F : OctFacts a' b' e2 p1 p2 p3 p4 p5 p6 p7 p8) {S : ExtRat}
    (hS : Alts6 e2 p2 p1 p3 p4 p5 p6 (-a') S) : fin b' ≤ S := by
  obtain ⟨f1b, f2, f2b, f3, f4, f5, f6, f7, f8, h1, h2, h3, h4⟩ := F
  clear f2b f7 f8 h1 h2 h3 h4
  rcases hS with rfl | rfl | rfl | rfl | rfl | rfl
  · exact f2
  · clear f1b f2 f4 f5 f6
    cs p2 <;> cs p1 <;> fin_arith
  · clear f1b f2 f3 f5 f6
    cs p3 <;> cs p4 <;> fin_arith
  · clear f1b f2 f3 f4 f6
    cs p3 <;> cs p6 <;> cs p1 <;> fin_arith
  · clear f1b f2 f3 f4 f5
    cs p2 <;> cs p5 <;> cs p4 <;> fin_arith
  · clear f2 f4 f5 f6
    cs p2 <;> cs p5 <;> cs p6 <;> cs p1 <;> fin_arith

/-- the twin of the second edge against the same matrix: the mirror image of `lb_K3` -/
theorem lb_K4a (F : OctFacts a' b' e2 p1 p2 p3 p4 p5 p6 p7 p8) {S : ExtRat}
    (hS : Alts6 e2 p4 p3 p1 p2 p5 p6 (-a') S) : fin b' ≤ S := by
  obtain ⟨f1b, f2, f2b, f3, f4, f5, f6, f7, f8, h1, h2, h3, h4⟩ := F
  clear f2b f7 f8 h1 h2 h3 h4
  rcases hS with rfl | rfl | rfl | rfl | rfl | rfl
  · exact f2
  · clear f1b f2 f3 f5 f6
    cs p4 <;> cs p3 <;> fin_arith
  · clear f1b f2 f4 f5 f6
    cs p1 <;> cs p2 <;> fin_arith
  · clear f1b f2 f3 f4 f6
    cs p1 <;> cs p6 <;> cs p3 <;> fin_arith
  · clear f1b f2 f3 f4 f5
    cs p4 <;> cs p5 <;> cs p2 <;> fin_arith
  · clear f2 f3 f5 f6
    cs p4 <;> cs p5 <;> cs p6 <;> cs p3 <;> fin_arith

theorem lb_K4b_0 (F : OctFacts a' b' e2 p1 p2 p3 p4 p5 p6 p7 p8) {T : ExtRat}
    (hT : Alts6 p8 p4 p1 p1 p4 p5 p6 (-a') T) :
    fin b' ≤ eadd T (eadd (fin (-b')) p7) := by
  obtain ⟨f1b, f2, f2b, f3, f4, f5, f6, f7, f8, h1, h2, h3, h4⟩ := F
  clear f2
  rcases hT with hT0 | rfl | rfl | rfl | rfl | rfl
  on_goal 1 => rw [hT0]; clear hT0 T
  · clear f1b f3 f4 f5 f6 f7 f8 h1 h2 h3 h4
    lf p8 p7
  · clear f1b f2b f3 f4 f5 f6 f8 h1 h2 h3 h4
    lf p4 p1 p7
  · clear f1b f2b f3 f4 f5 f6 f8 h1 h2 h3 h4
    lf p1 p4 p7
  · clear f1b f2b f4 f5 f6 f7 f8 h1 h3 h4
    lf p1 p6 p7 p2
  · clear f1b f2b f3 f5 f6 f7 f8 h1 h2 h4
    lf p4 p5 p7 p3
  · clear f2b f3 f4 f5 f6 f8 h1 h2 h3 h4
    lf p4 p5 p6 p1 p7

theorem lb_K4b_1 (F : OctFacts a' b' e2 p1 p2 p3 p4 p5 p6 p7 p8) {T : ExtRat}
    (hT : Alts6 p8 p4 p1 p1 p4 p5 p6 (-a') T) :
    fin b' ≤ eadd T (eadd (fin (-b')) (eadd p2 (eadd (fin (-a')) p3))) := by
  obtain ⟨f1b, f2, f2b, f3, f4, f5, f6, f7, f8, h1, h2, h3, h4⟩ := F
  clear f2
  rcases hT with hT0 | rfl | rfl | rfl | rfl | rfl
  on_goal 1 => rw [hT0]; clear hT0 T
  · clear f1b f2b f3 f4 f5 f6 f7 h1 h2 h3 h4
    lf p8 p2 p3
  · clear f1b f2b f5 f6 f7 f8 h1 h2 h3 h4
    lf p4 p1 p2 p3
  · clear f1b f2b f5 f6 f7 f8 h1 h2 h3 h4
    lf p1 p4 p2 p3
  · clear f1b f2b f4 f6 f7 f8 h1 h2 h3 h4
    lf p1 p6 p2 p3
  · clear f1b f2b f3 f5 f7 f8 h1 h2 h3 h4
    lf p4 p5 p2 p3
  · clear f2b f5 f6 f7 f8 h1 h2 h3 h4
    lf p4 p5 p6 p1 p2 p3

theorem lb_K4b_1p (F : OctFacts a' b' e2 p1 p2 p3 p4 p5 p6 p7 p8) {T : ExtRat}
    (hT : Alts6 p8 p4 p1 p1 p4 p5 p6 (-a') T) :
    fin b' ≤ eadd T (eadd (fin (-b')) (eadd p3 (eadd (fin (-a')) p2))) := by
  obtain ⟨f1b, f2, f2b, f3, f4, f5, f6, f7, f8, h1, h2, h3, h4⟩ := F
  clear f2
  rcases hT with hT0 | rfl | rfl | rfl | rfl | rfl
  on_goal 1 => rw [hT0]; clear hT0 T
  · clear f1b f2b f3 f4 f5 f6 f7 h1 h2 h3 h4
    lf p8 p3 p2
  · clear f1b f2b f5 f6 f7 f8 h1 h2 h3 h4
    lf p4 p1 p3 p2
  · clear f1b f2b f5 f6 f7 f8 h1 h2 h3 h4
    lf p1 p4 p3 p2
  · clear f1b f2b f4 f6 f7 f8 h1 h2 h3 h4
    lf p1 p6 p3 p2
  · clear f1b f2b f3 f5 f7 f8 h1 h2 h3 h4
    lf p4 p5 p3 p2
  · clear f2b f5 f6 f7 f8 h1 h2 h3 h4
    lf p4 p5 p6 p1 p3 p2

theorem lb_K4b_3 (F : OctFacts a' b' e2 p1 p2 p3 p4 p5 p6 p7 p8) {T : ExtRat}
    (hT : Alts6 p8 p4 p1 p1 p4 p5 p6 (-a') T) :
    fin b' ≤ eadd T (eadd (fin (-b')) (eadd p3 (eadd (fin (-a')) (eadd p6 (eadd (fin (-a')) p3))))) := by
  obtain ⟨f1b, f2, f2b, f3, f4, f5, f6, f7, f8, h1, h2, h3, h4⟩ := F
  clear f2
  rcases hT with hT0 | rfl | rfl | rfl | rfl | rfl
  on_goal 1 => rw [hT0]; clear hT0 T
  · clear f1b f2b f3 f5 f6 f7 f8 h1 h2 h3
    lf p8 p3 p6 p4
  · clear f1b f2b f3 f6 f7 f8 h1 h2 h3 h4
    lf p4 p1 p3 p6
  · clear f1b f2b f3 f6 f7 f8 h1 h2 h3 h4
    lf p1 p4 p3 p6
  · clear f1b f2b f3 f4 f6 f7 f8 h1 h2 h3 h4
    lf p1 p6 p3
  · clear f2b f3 f5 f6 f7 f8 h1 h2 h3 h4
    lf p4 p5 p3 p6
  · clear f2b f3 f6 f7 f8 h1 h2 h3 h4
    lf p4 p5 p6 p1 p3

theorem lb_K4b_2 (F : OctFacts a' b' e2 p1 p2 p3 p4 p5 p6 p7 p8) {T : ExtRat}
    (hT : Alts6 p8 p4 p1 p1 p4 p5 p6 (-a') T) :
    fin b' ≤ eadd T (eadd (fin (-b')) (eadd (eadd p2 (eadd (fin (-a')) p5)) (eadd (fin (-a')) p2))) := by
  obtain ⟨f1b, f2, f2b, f3, f4, f5, f6, f7, f8, h1, h2, h3, h4⟩ := F
  clear f2
  rcases hT with hT0 | rfl | rfl | rfl | rfl | rfl
  on_goal 1 => rw [hT0]; clear hT0 T
  · clear f1b f2b f4 f5 f6 f7 f8 h2 h3 h4
    lf p8 p2 p5 p1
  · clear f1b f2b f4 f5 f7 f8 h1 h2 h3 h4
    lf p4 p1 p2 p5
  · clear f1b f2b f4 f5 f7 f8 h1 h2 h3 h4
    lf p1 p4 p2 p5
  · clear f2b f4 f5 f6 f7 f8 h1 h2 h3 h4
    lf p1 p6 p2 p5
  · clear f1b f2b f3 f4 f5 f7 f8 h1 h2 h3 h4
    lf p4 p5 p2
  · clear f2b f4 f5 f7 f8 h1 h2 h3 h4
    lf p4 p5 p6 p1 p2

theorem lb_K4b_4 (F : OctFacts a' b' e2 p1 p2 p3 p4 p5 p6 p7 p8) {T : ExtRat}
    (hT : Alts6 p8 p4 p1 p1 p4 p5 p6 (-a') T) :
    fin b' ≤ eadd T (eadd (fin (-b')) (eadd (eadd p2 (eadd (fin (-a')) p5)) (eadd (fin (-a')) (eadd p6 (eadd (fin (-a')) p3))))) := by
  obtain ⟨f1b, f2, f2b, f3, f4, f5, f6, f7, f8, h1, h2, h3, h4⟩ := F
  clear f2
  rcases hT with hT0 | rfl | rfl | rfl | rfl | rfl
  on_goal 1 => rw [hT0]; clear hT0 T
  · clear f2b f3 f4 f5 f6 f7 h1 h2 h3 h4
    lf p8 p2 p5 p6 p3
  · clear f2b f5 f6 f7 f8 h1 h2 h3 h4
    lf p4 p1 p2 p5 p6 p3
  · clear f2b f5 f6 f7 f8 h1 h2 h3 h4
    lf p1 p4 p2 p5 p6 p3
  · clear f2b f4 f6 f7 f8 h1 h2 h3 h4
    lf p1 p6 p2 p5 p3
  · clear f2b f3 f5 f7 f8 h1 h2 h3 h4
    lf p4 p5 p2 p6 p3
  · clear f2b f5 f6 f7 f8 h1 h2 h3 h4
    lf p4 p5 p6 p1 p2 p3

/-- the twin of the second edge against the path through the second edge: the thirty-six products -/
theorem lb_K4b (F : OctFacts a' b' e2 p1 p2 p3 p4 p5 p6 p7 p8) {S T : ExtRat}
    (hS : Alts6 p7 p2 p3 p3 p2 p5 p6 (-a') S) (hT : Alts6 p8 p4 p1 p1 p4 p5 p6 (-a') T) :
    fin b' ≤ eadd T (eadd (fin (-b')) S) := by
  rcases hS with h | h | h | h | h | h <;> rw [h]
  · exact lb_K4b_0 F hT
  · exact lb_K4b_1 F hT
  · exact lb_K4b_1p F hT
  · exact lb_K4b_3 F hT
  · exact lb_K4b_2 F hT
  · exact lb_K4b_4 F hT

end PPLV.WR
