import PPLV.WR.OctClosedBase
import PPLV.WR.ReduceOctProofsBase
/-!
# `strong_closure_assign` on the full view: one outer iteration is the weak step `octT`

Helper namespace `PPLV.WR.OCM`.  Generic "sweep over the stored cells" loop lemmas (`row_spec`, `rows_spec`), the
value every stored cell holds after one iteration of the outer loop (`octClosureK_cell`), coherence of matrices on an
index range (`CohM`), and `fv_octLoops`: on the full view `fv m = m.mAt`, the loop nest of the code is `octTwo`.
-/
namespace PPLV.WR.OCM
open ExtRat

/-! ## generic sweeps -/

/-- a loop over the cells `(i, 0), …, (i, r-1)` of row `i`, every step writing (at most) its own cell -/
theorem row_spec (i r : Nat) (f : Nat → Mat → Mat) (I : Mat → Prop) (s0 : Mat) (g : Nat → ExtRat)
    (hcell : ∀ j s, j < r → I s → s i j = s0 i j →
      I (f j s) ∧ f j s i j = g j ∧ (∀ a b, ¬(a = i ∧ b = j) → f j s a b = s a b))
    (hI0 : I s0) :
    I (loopUp r f s0) ∧ (∀ b, b < r → loopUp r f s0 i b = g b) ∧
      (∀ a b, ¬(a = i ∧ b < r) → loopUp r f s0 a b = s0 a b) := by
  induction r with
  | zero => exact ⟨hI0, fun b hb => absurd hb (by omega), fun _ _ _ => rfl⟩
  | succ r ih =>
    obtain ⟨h1, h2, h3⟩ := ih (fun j s hj => hcell j s (by omega))
    simp only [loopUp]
    obtain ⟨c1, c2, c3⟩ := hcell r _ (by omega) h1 (h3 i r (by omega))
    refine ⟨c1, fun b hb => ?_, fun a b hab => ?_⟩
    · by_cases hbr : b = r
      · subst hbr; exact c2
      · rw [c3 i b (by omega)]; exact h2 b (by omega)
    · rw [c3 a b (by omega)]; exact h3 a b (by omega)

/-- a loop over the rows, every step writing (at most) the first `rs i` cells of its own row -/
theorem rows_spec (rows : Nat) (rs : Nat → Nat) (F : Nat → Mat → Mat) (I : Mat → Prop) (m0 : Mat)
    (g : Nat → Nat → ExtRat)
    (hrow : ∀ i s, i < rows → I s → (∀ b, b < rs i → s i b = m0 i b) →
      I (F i s) ∧ (∀ b, b < rs i → F i s i b = g i b) ∧ (∀ a b, ¬(a = i ∧ b < rs i) → F i s a b = s a b))
    (hI0 : I m0) :
    I (loopUp rows F m0) ∧ (∀ a b, a < rows → b < rs a → loopUp rows F m0 a b = g a b) ∧
      (∀ a b, ¬(a < rows ∧ b < rs a) → loopUp rows F m0 a b = m0 a b) := by
  induction rows with
  | zero => exact ⟨hI0, fun a b ha => absurd ha (by omega), fun _ _ _ => rfl⟩
  | succ t ih =>
    obtain ⟨h1, h2, h3⟩ := ih (fun i s hi => hrow i s (by omega))
    simp only [loopUp]
    obtain ⟨c1, c2, c3⟩ := hrow t _ (by omega) h1 (fun b hb => h3 t b (by omega))
    refine ⟨c1, fun a b ha hb => ?_, fun a b hab => ?_⟩
    · by_cases hat : a = t
      · subst hat; exact c2 b hb
      · rw [c3 a b (by omega)]; exact h2 a b (by omega) hb
    · rw [c3 a b (by rintro ⟨rfl, hb⟩; exact hab ⟨by omega, hb⟩)]
      exact h3 a b (fun ⟨h, hb⟩ => hab ⟨by omega, hb⟩)

/-! ## one iteration of the outer loop, cell by cell -/

/-- the value stored at `(a, b)` by the iteration for the variable `kk` -/
def kval (m : Mat) (kk a b : Nat) : ExtRat :=
  minA (m a b) (minA (eadd (m.mAt (2*kk+1) (cidx a)) (m.mAt (2*kk) b))
    (eadd (m.mAt (2*kk) (cidx a)) (m.mAt (2*kk+1) b)))

theorem octClosureK_cell (dim kk : Nat) (m : Mat) {a b : Nat} (ha : a < 2 * dim) (hb : b < rowSize a) :
    octClosureK fin (2 * dim) (2 * kk) m a b = kval m kk a b := by
  unfold octClosureK
  simp only [vecK_eq, vecCK_eq]
  refine (rows_spec (2 * dim) rowSize _ (fun _ => True) m (kval m kk) ?_ trivial).2.1 a b ha hb
  intro i s hi _ hs
  refine row_spec i (rowSize i) _ (fun _ => True) s (kval m kk i) ?_ trivial
  intro j t hj _ ht
  refine ⟨trivial, ?_, ?_⟩
  · rw [Mat.set_apply, if_pos ⟨rfl, rfl⟩, ht, hs j hj]; rfl
  · intro a b hab; rw [Mat.set_apply, if_neg hab]

/-! ## the full view -/

/-- the full view of a pseudo-triangular matrix (no diagonal override) -/
def fv (m : Mat) : Mat := { f := fun i j => m.mAt i j }

theorem fv_apply (m : Mat) (i j : Nat) : fv m i j = m.mAt i j := rfl

theorem mAt_stored (m : Mat) {i j : Nat} (h : j < rowSize i) : m.mAt i j = m i j := by
  unfold Mat.mAt; rw [if_pos h]

theorem mAt_unstored (m : Mat) {i j : Nat} (h : ¬ j < rowSize i) : m.mAt i j = m (cidx j) (cidx i) := by
  unfold Mat.mAt; rw [if_neg h]

/-- coherence on the first `N` indices -/
def CohM (N : Nat) (d : Mat) : Prop := ∀ i j, i < N → j < N → d i j = d (cidx j) (cidx i)

/-- equality on the first `N` indices -/
def EqOn (N : Nat) (d d' : Mat) : Prop := ∀ i j, i < N → j < N → d i j = d' i j

theorem EqOn.symm {N : Nat} {d d' : Mat} (h : EqOn N d d') : EqOn N d' d := fun i j hi hj => (h i j hi hj).symm

theorem EqOn.trans {N : Nat} {a b c : Mat} (h1 : EqOn N a b) (h2 : EqOn N b c) : EqOn N a c :=
  fun i j hi hj => (h1 i j hi hj).trans (h2 i j hi hj)

theorem CohM.congr {n : Nat} {d d' : Mat} (h : EqOn (2 * n) d' d) (hc : CohM (2 * n) d) : CohM (2 * n) d' := by
  intro i j hi hj
  rw [h i j hi hj, h _ _ (cidx_lt hj) (cidx_lt hi)]
  exact hc i j hi hj

theorem closed_congr {R : Nat} {c c' : Mat} (h : EqOn R c' c) (hc : Closed R c) : Closed R c' := by
  refine ⟨fun i hi => by rw [h i i hi hi]; exact hc.diag i hi, ?_⟩
  intro i j k hi hj hk
  rw [h i j hi hj, h i k hi hk, h k j hk hj]
  exact hc.tri i j k hi hj hk

theorem minA_comm (a b : ExtRat) : minA a b = minA b a := by
  unfold minA
  by_cases h1 : a ≤ b <;> by_cases h2 : b ≤ a
  · rw [if_pos h1, if_pos h2]; exact DBM.le_antisymm' h1 h2
  · rw [if_pos h1, if_neg h2]
  · rw [if_neg h1, if_pos h2]
  · rcases le_total' a b with h | h <;> contradiction

theorem octT_congr {N h : Nat} {d d' : Mat} (he : EqOn N d d') (hh : 2 * h + 1 < N) :
    EqOn N (octT h d) (octT h d') := by
  intro i j hi hj
  rw [octT_apply, octT_apply, he i j hi hj, he i (2*h) hi (by omega), he (2*h) j (by omega) hj,
    he i (2*h+1) hi hh, he (2*h+1) j hh hj]

/-- the weak step keeps coherence -/
theorem octT_coh {n h : Nat} {d : Mat} (hd : CohM (2 * n) d) (hh : h < n) : CohM (2 * n) (octT h d) := by
  intro i j hi hj
  have a1 := hd i j hi hj
  have a2 := hd i (2*h) hi (by omega)
  have a3 := hd (2*h) j (by omega) hj
  have a4 := hd i (2*h+1) hi (by omega)
  have a5 := hd (2*h+1) j (by omega) hj
  rw [cidx_even] at a2 a3
  rw [cidx_odd] at a4 a5
  rw [octT_apply, octT_apply, a1, a2, a3, a4, a5,
    minA_comm (eadd (d (2*h+1) (cidx i)) (d (cidx j) (2*h+1))),
    eadd_comm (d (2*h) (cidx i)), eadd_comm (d (2*h+1) (cidx i))]

/-- one iteration of the outer loop is the weak step on the full view -/
theorem fv_octClosureK {dim kk : Nat} (hkk : kk < dim) {m : Mat} (hc : CohM (2 * dim) (fv m)) :
    EqOn (2 * dim) (fv (octClosureK fin (2 * dim) (2 * kk) m)) (octT kk (fv m)) := by
  have stored : ∀ a b, a < 2 * dim → b < rowSize a →
      octClosureK fin (2 * dim) (2 * kk) m a b = octT kk (fv m) a b := by
    intro a b ha hb
    rw [octClosureK_cell dim kk m ha hb, octT_apply]
    unfold kval
    simp only [fv_apply]
    have e1 : m.mAt (2*kk+1) (cidx a) = m.mAt a (2*kk) := by
      have := hc (2*kk+1) (cidx a) (by omega) (cidx_lt ha)
      simp only [fv_apply, cidx_cidx, cidx_odd] at this; exact this
    have e2 : m.mAt (2*kk) (cidx a) = m.mAt a (2*kk+1) := by
      have := hc (2*kk) (cidx a) (by omega) (cidx_lt ha)
      simp only [fv_apply, cidx_cidx, cidx_even] at this; exact this
    rw [e1, e2, mAt_stored m hb]
  intro i j hi hj
  rw [fv_apply]
  by_cases hs : j < rowSize i
  · rw [mAt_stored _ hs]; exact stored i j hi hs
  · rw [mAt_unstored _ hs, stored _ _ (cidx_lt hj) (swap_stored hs)]
    exact (octT_coh hc hkk i j hi hj).symm

/-- one pass of the code -/
def pass (dim : Nat) (m : Mat) : Mat := loopUp dim (fun kk m => octClosureK fin (2 * dim) (2 * kk) m) m

theorem octLoops_eq (dim : Nat) (m : Mat) : octLoops fin dim m = pass dim (pass dim m) := rfl

theorem fv_pass_aux {dim : Nat} {m d : Mat} (hc : CohM (2 * dim) d) (he : EqOn (2 * dim) (fv m) d)
    (t : Nat) (ht : t ≤ dim) :
    EqOn (2 * dim) (fv (loopUp t (fun kk m => octClosureK fin (2 * dim) (2 * kk) m) m)) (loopUp t octT d) ∧
      CohM (2 * dim) (loopUp t octT d) := by
  induction t with
  | zero => exact ⟨he, hc⟩
  | succ t ih =>
    obtain ⟨h1, h2⟩ := ih (by omega)
    simp only [loopUp]
    exact ⟨(fv_octClosureK (by omega) (h2.congr h1)).trans (octT_congr h1 (by omega)), octT_coh h2 (by omega)⟩

theorem fv_pass {dim : Nat} {m d : Mat} (hc : CohM (2 * dim) d) (he : EqOn (2 * dim) (fv m) d) :
    EqOn (2 * dim) (fv (pass dim m)) (octPass dim d) ∧ CohM (2 * dim) (octPass dim d) :=
  fv_pass_aux hc he dim le_rfl

/-- the loop nest of `strong_closure_assign` is `octTwo` on the full view -/
theorem fv_octLoops {dim : Nat} {m d : Mat} (hc : CohM (2 * dim) d) (he : EqOn (2 * dim) (fv m) d) :
    EqOn (2 * dim) (fv (octLoops fin dim m)) (octTwo dim d) ∧ CohM (2 * dim) (octTwo dim d) := by
  obtain ⟨h1, h2⟩ := fv_pass hc he
  rw [octLoops_eq]
  exact fv_pass h2 h1

end PPLV.WR.OCM
