import PPLV.WR.Closure
/-!
# BD_Shape<T>: the sign-case transformers (executable model, no Mathlib)

Code-shaped models of (`/repo/src/BD_Shape_templates.hh`, `BD_Shape_inlines.hh`, `BD_Shape.cc`,
`math_utilities_inlines.hh`, as they are in the tree NOW, i.e. after the repair commit 559045b that
introduced `div_round_up_by_positive`):

* `BD_Shape_Helpers::extract_bounded_difference`, `add_dbm_constraint` (both overloads),
  `add_constraint`, `refine_no_check(const Constraint&)`
* `forget_all_dbm_constraints`, `forget_binary_dbm_constraints`, `unconstrain(Variable)`
* `affine_image(var, expr, denominator)` — constant, `±var + b`, `±w + b`, general case
* `generalized_affine_image(var, relsym, expr, denominator)`, `bounded_affine_image`
* `refine(var, relsym, expr, denominator)`, `affine_preimage`, `generalized_affine_preimage(var, …)`

for **every** bound type `T`.  A matrix entry is an extended rational (`ExtRat`, `+∞` distinguished),
the directed operations of `T` are the fields of `Rnd`:

* `up q`        — `assign_r(to, q, ROUND_UP)` of an exact rational (also the final step of `div_round_up`,
                  and of `add_assign_r / sub_assign_r / div_assign_r (…, ROUND_UP)` on finite operands:
                  these are `up` of the exact result, as in `PPLV/WR/Closure.lean`)
* `dn q`        — `assign_r(to, q, ROUND_DOWN)` of a positive integer (`div_round_up_by_positive`)
* `addMul s c a`— `add_mul_assign_r(s, c, a, ROUND_UP)` on finite operands (for a bounded integer `T`
                  this is *not* `up (s + c*a)`: the product is formed first, see `addMulRange`)

The proofs (`PPLV/WR/TransProofs*.lean`, `PPLV/Props/C03Trans.lean`) assume only the one-sided facts
that the directions guarantee (`Rnd.Sound`).  Orientation as in `Closure.lean`: `dbm[i][j]` bounds
`x_j - x_i`, index `0` is the zero variable, `Variable(k)` has index `k+1`.

An expression is `e : Nat → Int` (coefficient of `Variable(i)`), `b` its inhomogeneous term; a
constraint is `cf·x + inhomo ⋈ 0` with `⋈ ∈ {=, ≥, >}` (`Constraint::expression()` carries the
inhomogeneous term).
-/
namespace PPLV.WR
open ExtRat (fin pinf minA addUp subUp)

/-! ## the directed operations of a bound type -/

structure Rnd where
  /-- `assign_r(to, q, ROUND_UP)` -/
  up : Rat → ExtRat
  /-- `assign_r(to, q, ROUND_DOWN)` for a positive integer `q` (finite: the result is never `-∞`) -/
  dn : Rat → Rat
  /-- `add_mul_assign_r(s, c, a, ROUND_UP)` on finite operands -/
  addMul : Rat → Rat → Rat → ExtRat

/-- `mpq_class` -/
def Rnd.exact : Rnd := ⟨upId, id, fun s c a => fin (s + c * a)⟩
/-- `mpz_class` -/
def Rnd.ceil : Rnd := ⟨upCeil, fun y => (y.floor : Int), fun s c a => upCeil (s + c * a)⟩

/-- `add_mul_int` (`checked_int_inlines.hh:1590`) with `ROUND_UP` on a bounded integer type with
finite range `[lo, hi]`: the product is formed first; when it is below `lo` the result is `lo`
(`to <= 0`, `set_neg_overflow_int`) or `to + lo`; when it is above `hi` the result is `+∞` for
`to >= 0` — and Not-a-Number for `to < 0` in the code (`V_UNKNOWN_POS_OVERFLOW`, open finding
`native_int_product_overflows_T`): the model answers `+∞` there, `addMulRangeNaN` tells the driver. -/
def addMulRange (lo hi : Int) (s c a : Rat) : ExtRat :=
  let p := c * a
  if p < lo then (if s ≤ 0 then fin lo else fin (s + lo))
  else if p > hi then pinf
  else upCeilRange lo hi (s + p)

def addMulRangeNaN (hi : Int) (s c a : Rat) : Bool := decide (c * a > hi) && decide (s < 0)

/-- bounded integers (`int8_t` with the extended policy: `[-126, 126]`) -/
def Rnd.range (lo hi : Int) : Rnd :=
  ⟨upCeilRange lo hi, fun y => if y.floor > hi then (hi : Int) else (y.floor : Int), addMulRange lo hi⟩

/-- `add_mul_assign_r(to, c, a, ROUND_UP)` on extended numbers (`add_mul_ext`,
`checked_ext_inlines.hh:373`).  `c = +∞` arises only from a coefficient beyond the range of a bounded
`T`; the code then stores `-∞` (`a < 0`) or Not-a-Number (`a = 0`), values the model does not have
(it stores `0`): the theorems exclude it by `CoeffExact`.  `a = +∞` is never passed (every caller tests
`is_plus_infinity` first). -/
def addMulUp (R : Rnd) : ExtRat → ExtRat → ExtRat → ExtRat
  | fin s, fin c, fin a => R.addMul s c a
  | pinf, fin _, fin _ => pinf
  | _, pinf, fin a => if a > 0 then pinf else fin 0
  | _, _, pinf => pinf

/-- `sign_i > 0 ? sc_i : -sc_i` (the code negates a negative coefficient before converting it) -/
def absI (a : Int) : Int := if a > 0 then a else - a

/-- `div_round_up(to, x, y)` (`math_utilities_inlines.hh:65`): exact quotient, then `ROUND_UP` -/
def divRoundUp (R : Rnd) (x y : Int) : ExtRat := R.up ((x : Rat) / (y : Rat))

/-- `div_round_up_by_positive(x, y)` (`math_utilities_inlines.hh:80`, commit 559045b): the divisor is
rounded up when `x < 0`, down otherwise, then `div_assign_r(x, x, approx_y, ROUND_UP)`; a finite `x`
divided by `+∞` is `0` (`div_ext`). -/
def divRoundUpByPositive (R : Rnd) (x : ExtRat) (y : Int) : ExtRat :=
  match x with
  | pinf => pinf
  | fin s =>
    if s < 0 then
      match R.up (y : Rat) with
      | fin ay => R.up (s / ay)
      | pinf => fin 0
    else R.up (s / R.dn (y : Rat))

/-! ## expressions -/

/-- `Linear_Expression::last_nonzero()` among the first `k` variables: dbm index, `0` if none -/
def lastNonzero (e : Nat → Int) : Nat → Nat
  | 0 => 0
  | k+1 => if e k ≠ 0 then k + 1 else lastNonzero e k

/-- `!expr.all_zeroes(1, w)`: some variable of id `< k` has a non-zero coefficient -/
def anyNonzeroBelow (e : Nat → Int) : Nat → Bool
  | 0 => false
  | k+1 => e k != 0 || anyNonzeroBelow e k

/-- the `t` of the transformers: `0`, `1`, or `2` (= more than one) non-zero coefficients -/
def exprT (e : Nat → Int) (w : Nat) : Nat :=
  if w = 0 then 0 else if anyNonzeroBelow e (w - 1) then 2 else 1

/-! ## constraints on the matrix -/

/-- `forget_all_dbm_constraints(v)` (`:3571`) -/
def forgetAll (rows v : Nat) (m : Mat) : Mat :=
  loopDown rows (fun i m => (m.set v i pinf).set i v pinf) m

/-- `forget_binary_dbm_constraints(v)` (`:3582`): `for (i = rows-1; i > 0; --i)` -/
def forgetBinary (rows v : Nat) (m : Mat) : Mat :=
  loopDown (rows - 1) (fun k m => (m.set v (k+1) pinf).set (k+1) v pinf) m

/-- `add_dbm_constraint(i, j, k)` (`BD_Shape_inlines.hh:698`) -/
def addDbmConstraint (m : Mat) (i j : Nat) (k : ExtRat) : Mat :=
  if m i j ≤ k then m else m.set i j k

/-- `add_dbm_constraint(i, j, numer, denom)` (`BD_Shape_inlines.hh:714`) -/
def addDbmConstraintQ (R : Rnd) (m : Mat) (i j : Nat) (numer denom : Int) : Mat :=
  addDbmConstraint m i j (divRoundUp R numer denom)

/-! ## `extract_bounded_difference`, `add_constraint`, `refine_no_check` -/

inductive CKind | eq | ge | gt
  deriving DecidableEq, Repr, Inhabited

/-- `expr.first_nonzero(lo, hi)` over expression indices (`index k` is `Variable(k-1)`), with fuel
`hi - lo`; answers `hi` when there is none -/
def firstNonzeroAux (cf : Nat → Int) (k : Nat) : Nat → Nat
  | 0 => k
  | f+1 => if cf (k - 1) ≠ 0 then k else firstNonzeroAux cf (k + 1) f

def firstNonzero (cf : Nat → Int) (lo hi : Nat) : Nat := firstNonzeroAux cf lo (hi - lo)

/-- `expr.all_zeroes(lo, hi)` -/
def allZeroes (cf : Nat → Int) (lo hi : Nat) : Bool := firstNonzero cf lo hi == hi

structure BDX where
  ok : Bool
  numVars : Nat
  i : Nat
  j : Nat
  coeff : Int
  deriving Repr, DecidableEq, Inhabited

/-- `BD_Shape_Helpers::extract_bounded_difference(c, num_vars, i, j, coeff)` (`BD_Shape.cc:33`);
`sd` is `c.space_dimension()` -/
def extractBoundedDifference (sd : Nat) (cf : Nat → Int) : BDX :=
  let first := firstNonzero cf 1 (sd + 1)
  if first = sd + 1 then ⟨true, 0, first, 0, 0⟩
  else
    let second := firstNonzero cf (first + 1) (sd + 1)
    if second = sd + 1 then ⟨true, 1, first, 0, - cf (first - 1)⟩
    else if !allZeroes cf (second + 1) (sd + 1) then ⟨false, 2, first, second, 0⟩
    else
      let c0 := cf (first - 1)
      let c1 := cf (second - 1)
      if Int.sign c0 = Int.sign c1 ∨ c0 ≠ - c1 then ⟨false, 2, first, second, 0⟩
      else ⟨true, 2, first, second, c1⟩

/-- result of a call that may mark the shape empty or throw -/
inductive Outcome where
  | ok (m : Mat)
  | empty
  | throws
  deriving Inhabited

/-- the common tail of `add_constraint` (`:453-479`) and `refine_no_check` (`:542-568`) -/
def addBD (R : Rnd) (m : Mat) (x : BDX) (inhomo : Int) (isEq : Bool) : Mat :=
  let negative := x.coeff < 0
  let coeff := if negative then - x.coeff else x.coeff
  -- `N& x = negative ? dbm[i][j] : dbm[j][i]`
  let (xi, xj) := if negative then (x.i, x.j) else (x.j, x.i)
  let d := divRoundUp R inhomo coeff
  let m := if m xi xj ≤ d then m else m.set xi xj d
  if isEq then
    let d := divRoundUp R (- inhomo) coeff
    if m xj xi ≤ d then m else m.set xj xi d
  else m

/-- `refine_no_check(const Constraint& c)` (`:519`) -/
def refineNoCheck (R : Rnd) (sd : Nat) (cf : Nat → Int) (inhomo : Int) (kind : CKind) (m : Mat) : Outcome :=
  let x := extractBoundedDifference sd cf
  if !x.ok then .ok m
  else if x.numVars = 0 then
    if inhomo < 0 ∨ (kind = .eq ∧ inhomo ≠ 0) ∨ (kind = .gt ∧ inhomo = 0) then .empty else .ok m
  else .ok (addBD R m x inhomo (kind = .eq))

/-- `add_constraint(const Constraint& c)` (`:415`) -/
def addConstraint (R : Rnd) (sd : Nat) (cf : Nat → Int) (inhomo : Int) (kind : CKind) (m : Mat) : Outcome :=
  let x := extractBoundedDifference sd cf
  if kind = .gt then
    -- strict inequalities: only the trivial ones are accepted
    if x.ok ∧ x.numVars = 0 then (if inhomo ≤ 0 then .empty else .ok m) else .throws
  else if !x.ok then .throws
  else if x.numVars = 0 then
    if inhomo < 0 ∨ (inhomo ≠ 0 ∧ kind = .eq) then .empty else .ok m
  else .ok (addBD R m x inhomo (kind = .eq))

/-! ## approximating an expression over the box of the unary bounds -/

/-- `sum`, `pinf_count`, `pinf_index` -/
structure Acc where
  sum : ExtRat
  cnt : Nat
  idx : Nat
  deriving Inhabited

/-- one iteration of the accumulation loops of `affine_image` (`:4249-4307`), `bounded_affine_image`
(`:5416-5452`) and `refine(…, EQUAL, …)` (`:3793-3852`) for one of the two sums: `pos = true`
approximates `sc_expr`, `pos = false` approximates `-sc_expr`; `i` is the variable id. -/
def accStepA (R : Rnd) (m : Mat) (sc : Nat → Int) (pos : Bool) (i : Nat) (st : Acc) : Acc :=
  let i_dim := i + 1
  if sc i = 0 then st
  else
    -- `assign_r(coeff_i, ±sc_i, ROUND_UP)`
    let coeff_i := R.up ((absI (sc i) : Int) : Rat)
    if st.cnt ≤ 1 then
      let approx := if decide (sc i > 0) = pos then m 0 i_dim else m i_dim 0
      if !approx.isPinf then { st with sum := addMulUp R st.sum coeff_i approx }
      else { st with cnt := st.cnt + 1, idx := i_dim }
    else st

/-- one iteration of the loops of `generalized_affine_image` (`:5837-5860`, `:5906-5929`) and
`refine(…, LESS_OR_EQUAL / GREATER_OR_EQUAL, …)` (`:3925-3948`, `:3982-4005`): `break` once a second
unbounded variable is met (`cnt > 1` afterwards: every later iteration is skipped), `continue`
on the first one, the coefficient is converted only when it is used. -/
def accStepG (R : Rnd) (m : Mat) (sc : Nat → Int) (pos : Bool) (i : Nat) (st : Acc) : Acc :=
  let i_dim := i + 1
  if st.cnt > 1 then st
  else if sc i = 0 then st
  else
    let approx := if decide (sc i > 0) = pos then m 0 i_dim else m i_dim 0
    if approx.isPinf then
      if st.cnt + 1 > 1 then { st with cnt := st.cnt + 1 }
      else { st with cnt := st.cnt + 1, idx := i_dim }
    else
      let coeff_i := R.up ((absI (sc i) : Int) : Rat)
      { st with sum := addMulUp R st.sum coeff_i approx }

/-- the sign-corrected expression -/
def scExpr (e : Nat → Int) (den : Int) : Nat → Int := fun i => if den > 0 then e i else - e i

/-- "Exploit the upper approximation" (`affine_image :4325-4346`, `bounded_affine_image :5467-5489`,
`refine EQUAL :3868-3888`): quotient, `dbm[0][v] = sum` + `deduce_v_minus_u_bounds`, or the single
constraint `v - pinf_index <= sum` -/
def exploitUpper (R : Rnd) (v w : Nat) (sc : Nat → Int) (scDen : Int) (pos : Acc) (m : Mat) : Mat :=
  if pos.cnt ≤ 1 then
    let s := if scDen ≠ 1 then divRoundUpByPositive R pos.sum scDen else pos.sum
    if pos.cnt = 0 then deduceVMinusU R.up v w sc scDen s (m.set 0 v s)
    else if pos.idx ≠ v ∧ sc (pos.idx - 1) = scDen then m.set pos.idx v s
    else m
  else m

/-- "Exploit the lower approximation" (`:4349-4373`, `:3891-3911`) -/
def exploitLower (R : Rnd) (v w : Nat) (sc : Nat → Int) (scDen : Int) (neg : Acc) (m : Mat) : Mat :=
  if neg.cnt ≤ 1 then
    let s := if scDen ≠ 1 then divRoundUpByPositive R neg.sum scDen else neg.sum
    if neg.cnt = 0 then deduceUMinusV R.up v w sc scDen s (m.set v 0 s)
    else if neg.idx ≠ v ∧ sc (neg.idx - 1) = scDen then m.set v neg.idx s
    else m
  else m

/-! ## `affine_image` -/

/-- general case of `affine_image` (`:4200-4375`) -/
def affineImageGeneral (R : Rnd) (n v w : Nat) (e : Nat → Int) (b den : Int) (m : Mat) : Mat :=
  let is_sc := den > 0
  let sc_b := if is_sc then b else - b
  let minus_sc_b := if is_sc then - b else b
  let sc_denom := if is_sc then den else - den
  let sc := scExpr e den
  let pn := loopUp w (fun i (pq : Acc × Acc) => (accStepA R m sc true i pq.1, accStepA R m sc false i pq.2))
    (⟨R.up (sc_b : Rat), 0, 0⟩, ⟨R.up (minus_sc_b : Rat), 0, 0⟩)
  let m := forgetAll (n + 1) v m
  if pn.1.cnt > 1 ∧ pn.2.cnt > 1 then m
  else exploitLower R v w sc sc_denom pn.2 (exploitUpper R v w sc sc_denom pn.1 m)

/-- `affine_image(var, expr, denominator)` after the initial `shortest_path_closure_assign()` and
emptiness test (`:4068-4375`); `n = space_dim`, `var < n`, `den ≠ 0` -/
def affineImageCore (R : Rnd) (n var : Nat) (e : Nat → Int) (b den : Int) (m : Mat) : Mat :=
  let v := var + 1
  let w := lastNonzero e n
  let t := exprT e w
  if t = 0 then
    -- Case 1: expr == b
    let m := forgetAll (n + 1) v m
    let m := addDbmConstraintQ R m 0 v b den
    addDbmConstraintQ R m v 0 b (- den)
  else
    let a := e (w - 1)
    if t = 1 ∧ (a = den ∨ a = - den) then
      if w = v then
        if a = den then
          if b = 0 then m
          else
            let d := divRoundUp R b den
            let c := divRoundUp R b (- den)
            loopDown (n + 1) (fun i m =>
              let m := m.set v i (addUp R.up (m v i) c)
              m.set i v (addUp R.up (m i v) d)) m
        else
          let m := forgetBinary (n + 1) v m
          -- `swap(dbm[v][0], dbm[0][v])`
          let m := (m.set v 0 (m 0 v)).set 0 v (m v 0)
          if b ≠ 0 then
            let c := divRoundUp R b (- den)
            let m := m.set v 0 (addUp R.up (m v 0) c)
            let d := divRoundUp R b den
            m.set 0 v (addUp R.up (m 0 v) d)
          else m
      else
        let m := forgetAll (n + 1) v m
        if a = den then
          let m := addDbmConstraintQ R m w v b den
          addDbmConstraintQ R m v w b (- den)
        else
          let m :=
            if !(m w 0).isPinf then m.set 0 v (addUp R.up (divRoundUp R b den) (m w 0)) else m
          if !(m 0 w).isPinf then m.set v 0 (addUp R.up (m 0 w) (divRoundUp R b (- den))) else m
    else affineImageGeneral R n v w e b den m

/-- `shortest_path_closure_assign()` as the first step of a transformer: a no-op when the shape is
marked closed; `none` = marked empty -/
def closeFirst {n : Nat} (up : Rat → ExtRat) (closed : Bool) (m : DBM n) : Option Mat :=
  if closed then some m.e
  else if DBM.closureEmpty up m then none else some (DBM.closure up m).e

/-- `affine_image` (`:4043`): `none` = the shape is (marked) empty -/
def affineImage {n : Nat} (R : Rnd) (closed : Bool) (var : Nat) (e : Nat → Int) (b den : Int) (m : DBM n) :
    Option Mat :=
  (closeFirst R.up closed m).map (affineImageCore R n var e b den)

/-! ## `generalized_affine_image(var, relsym, expr, denominator)` -/

/-- `LESS_OR_EQUAL` / `GREATER_OR_EQUAL` (the strict symbols and `NOT_EQUAL` throw, `EQUAL` is
`affine_image`) -/
inductive RelSym | le | ge | eq
  deriving DecidableEq, Repr, Inhabited

/-- general case of `generalized_affine_image` (`:5794-5973`), `isLe`: `LESS_OR_EQUAL` -/
def genAffineImageGeneral (R : Rnd) (n v w : Nat) (isLe : Bool) (e : Nat → Int) (b den : Int) (m : Mat) : Mat :=
  let is_sc := den > 0
  let sc_b := if is_sc then b else - b
  let minus_sc_b := if is_sc then - b else b
  let sc_denom := if is_sc then den else - den
  let sc := scExpr e den
  let st := loopUp w (accStepG R m sc isLe) ⟨R.up ((if isLe then sc_b else minus_sc_b : Int) : Rat), 0, 0⟩
  let m := forgetAll (n + 1) v m
  if st.cnt > 1 then m
  else
    let sum := if sc_denom ≠ 1 then divRoundUpByPositive R st.sum sc_denom else st.sum
    if st.cnt = 0 then
      if isLe then deduceVMinusU R.up v w sc sc_denom sum (addDbmConstraint m 0 v sum)
      else deduceUMinusV R.up v w sc sc_denom sum (addDbmConstraint m v 0 sum)
    else
      -- `pinf_count == 1`: the test reads `expr` and `denominator`, not the sign-corrected ones
      if st.idx ≠ v ∧ e (st.idx - 1) = den then
        if isLe then addDbmConstraint m st.idx v sum else addDbmConstraint m v st.idx sum
      else m

/-- `generalized_affine_image(var, relsym, expr, denominator)` for `relsym ∈ {≤, ≥}` after the initial
closure (`:5614-5973`) -/
def genAffineImageCore (R : Rnd) (n var : Nat) (isLe : Bool) (e : Nat → Int) (b den : Int) (m : Mat) : Mat :=
  let v := var + 1
  let w := lastNonzero e n
  let t := exprT e w
  if t = 0 then
    let m := forgetAll (n + 1) v m
    if isLe then addDbmConstraintQ R m 0 v b den else addDbmConstraintQ R m v 0 b (- den)
  else
    let a := e (w - 1)
    if t = 1 ∧ (a = den ∨ a = - den) then
      if isLe then
        let d := divRoundUp R b den
        if w = v then
          if a = den then
            loopDown (n + 1) (fun i m => (m.set i v (addUp R.up (m i v) d)).set v i pinf) m
          else
            let m := m.set 0 v (addUp R.up (m v 0) d)
            let m := m.set v 0 pinf
            forgetBinary (n + 1) v m
        else
          let m := forgetAll (n + 1) v m
          if a = den then addDbmConstraint m w v d
          else if !(m w 0).isPinf then m.set 0 v (addUp R.up d (m w 0)) else m
      else
        let d := divRoundUp R b (- den)
        if w = v then
          if a = den then
            loopDown (n + 1) (fun i m => (m.set v i (addUp R.up (m v i) d)).set i v pinf) m
          else
            let m := m.set v 0 (addUp R.up (m 0 v) d)
            let m := m.set 0 v pinf
            forgetBinary (n + 1) v m
        else
          let m := forgetAll (n + 1) v m
          if a = den then addDbmConstraint m v w d
          else if !(m 0 w).isPinf then m.set v 0 (addUp R.up (m 0 w) d) else m
    else genAffineImageGeneral R n v w isLe e b den m

/-- `generalized_affine_image(var, relsym, expr, denominator)` (`:5568`) -/
def genAffineImage {n : Nat} (R : Rnd) (closed : Bool) (var : Nat) (rel : RelSym) (e : Nat → Int) (b den : Int)
    (m : DBM n) : Option Mat :=
  match rel with
  | .eq => affineImage R closed var e b den m
  | .le => (closeFirst R.up closed m).map (genAffineImageCore R n var true e b den)
  | .ge => (closeFirst R.up closed m).map (genAffineImageCore R n var false e b den)

/-! ## `bounded_affine_image` -/

/-- a `DBM` from a raw matrix (the diagonal is forced to `+∞`, the class invariant; every transformer
below leaves `+∞` there anyway) -/
def DBM.ofMat (n : Nat) (m : Mat) : DBM n where
  e := Mat.diagDown (n+1) pinf m
  diag := by intro i hi; rw [Mat.diagDown_apply]; simp; omega

/-- `add_space_dimensions_and_embed(1)` on the matrix: row and column `n+1` are `+∞` -/
def embedOne (n : Nat) (m : Mat) : Mat :=
  { f := fun i j => if i = n + 1 ∨ j = n + 1 then pinf else m i j }

/-- `bounded_affine_image(var, lb_expr, ub_expr, denominator)` after the initial closure
(`:5283-5490`).  The matrix has been closed and is marked closed, so the
`shortest_path_closure_assign()` at the head of the inner `generalized_affine_image` is a no-op.
`none` = marked empty (only the branch through an additional dimension can detect emptiness). -/
def boundedAffineImageCore (R : Rnd) (n var : Nat) (el : Nat → Int) (bl : Int) (eu : Nat → Int) (bu : Int)
    (den : Int) (m : Mat) : Option Mat :=
  let v := var + 1
  let w := lastNonzero eu n
  let t := exprT eu w
  if t = 0 then
    let m := genAffineImageCore R n var false el bl den m
    some (addDbmConstraintQ R m 0 v bu den)
  else
    let a := eu (w - 1)
    if t = 1 ∧ (a = den ∨ a = - den) then
      if w = v then
        -- through an additional dimension `new_var` (`:5324-5343`)
        let m := embedOne n m
        -- `affine_image(new_var, ub_expr, denominator)`: the closure at its head is a no-op
        let m1 := affineImageCore R (n + 1) n eu bu den m
        -- `shortest_path_closure_assign()`: `affine_image` reset the closed flag iff it stored an entry
        let base := forgetAll (n + 2) (n + 1) m
        let changed := (List.range (n + 2)).any fun i => (List.range (n + 2)).any fun j =>
          decide (m1 i j ≠ base i j)
        let m2 : DBM (n + 1) := DBM.ofMat (n + 1) m1
        if changed && DBM.closureEmpty R.up m2 then none
        else
          let m2 := if changed then (DBM.closure R.up m2).e else m1
          let m3 := genAffineImageCore R (n + 1) var false el bl den m2
          -- `add_constraint(var <= new_var)`, i.e. `new_var - var >= 0`
          let m4 := addDbmConstraint m3 (n + 1) v (divRoundUp R 0 1)
          -- `remove_higher_space_dimensions(bds_space_dim)`: closure, then the matrix is cut
          let m5 : DBM (n + 1) := DBM.ofMat (n + 1) m4
          if DBM.closureEmpty R.up m5 then none else some (DBM.closure R.up m5).e
      else
        let m := genAffineImageCore R n var false el bl den m
        if a = den then some (addDbmConstraintQ R m w v bu den)
        else if !(m w 0).isPinf then some (m.set 0 v (addUp R.up (divRoundUp R bu den) (m w 0)))
        else some m
    else
      -- general case (`:5376-5490`)
      let is_sc := den > 0
      let sc_b := if is_sc then bu else - bu
      let sc_denom := if is_sc then den else - den
      let sc := scExpr eu den
      let pos := loopUp w (accStepA R m sc true) ⟨R.up (sc_b : Rat), 0, 0⟩
      let m := genAffineImageCore R n var false el bl den m
      if pos.cnt > 1 then some m else some (exploitUpper R v w sc sc_denom pos m)

/-- `bounded_affine_image` (`:5250`) -/
def boundedAffineImage {n : Nat} (R : Rnd) (closed : Bool) (var : Nat) (el : Nat → Int) (bl : Int)
    (eu : Nat → Int) (bu : Int) (den : Int) (m : DBM n) : Option Mat :=
  (closeFirst R.up closed m).bind (boundedAffineImageCore R n var el bl eu bu den)

/-! ## `unconstrain(Variable)` -/

/-- `unconstrain(var)` (`:3593`) -/
def unconstrain {n : Nat} (R : Rnd) (closed : Bool) (var : Nat) (m : DBM n) : Option Mat :=
  (closeFirst R.up closed m).map (forgetAll (n + 1) (var + 1))

/-! ## `refine(var, relsym, expr, denominator)` (private; `:3645-4039`)

Called by `generalized_affine_preimage` (`expr.coefficient(var) == 0`) on a closed matrix.  The second
component is the shortest-path-closed flag afterwards (`add_dbm_constraint` resets it only when it
stores; the `EQUAL` general case resets it always; the `deduce_*` helpers never touch it). -/

/-- `add_dbm_constraint(i, j, k)` together with the closed flag -/
def addDbmF (mf : Mat × Bool) (i j : Nat) (k : ExtRat) : Mat × Bool :=
  if mf.1 i j ≤ k then mf else (mf.1.set i j k, false)

def refineVar (R : Rnd) (n var : Nat) (rel : RelSym) (e : Nat → Int) (b den : Int) (m : Mat) : Mat × Bool :=
  let v := var + 1
  let w := lastNonzero e n
  let t0 := exprT e w
  -- `if (t == 1 && expr.get(Variable(w - 1)) != denominator) t = 2;` (`:3675`)
  let t := if t0 = 1 ∧ e (w - 1) ≠ den then 2 else t0
  if t = 0 then
    match rel with
    | .eq => addDbmF (addDbmF (m, true) 0 v (divRoundUp R b den)) v 0 (divRoundUp R b (- den))
    | .le => addDbmF (m, true) 0 v (divRoundUp R b den)
    | .ge => addDbmF (m, true) v 0 (divRoundUp R b (- den))
  else if t = 1 then
    match rel with
    | .eq => addDbmF (addDbmF (m, true) w v (divRoundUp R b den)) v w (divRoundUp R b (- den))
    | .le => addDbmF (m, true) w v (divRoundUp R b den)
    | .ge => addDbmF (m, true) v w (divRoundUp R b (- den))
  else
    let is_sc := den > 0
    let sc_b := if is_sc then b else - b
    let minus_sc_b := if is_sc then - b else b
    let sc_denom := if is_sc then den else - den
    let sc := scExpr e den
    match rel with
    | .eq =>
      let pn := loopUp w (fun i (pq : Acc × Acc) => (accStepA R m sc true i pq.1, accStepA R m sc false i pq.2))
        (⟨R.up (sc_b : Rat), 0, 0⟩, ⟨R.up (minus_sc_b : Rat), 0, 0⟩)
      if pn.1.cnt > 1 ∧ pn.2.cnt > 1 then (m, true)
      else (exploitLower R v w sc sc_denom pn.2 (exploitUpper R v w sc sc_denom pn.1 m), false)
    | .le =>
      let st := loopUp w (accStepG R m sc true) ⟨R.up (sc_b : Rat), 0, 0⟩
      let sum := if sc_denom ≠ 1 then divRoundUpByPositive R st.sum sc_denom else st.sum
      if st.cnt = 0 then
        let mf := addDbmF (m, true) 0 v sum
        (deduceVMinusU R.up v w sc sc_denom sum mf.1, mf.2)
      else if st.cnt = 1 then
        -- no `pinf_index != v` test here (`:3966`): `expr.coefficient(var) == 0` is a precondition
        if e (st.idx - 1) = den then addDbmF (m, true) st.idx v sum else (m, true)
      else (m, true)
    | .ge =>
      let st := loopUp w (accStepG R m sc false) ⟨R.up (minus_sc_b : Rat), 0, 0⟩
      let sum := if sc_denom ≠ 1 then divRoundUpByPositive R st.sum sc_denom else st.sum
      if st.cnt = 0 then
        let mf := addDbmF (m, true) v 0 sum
        (deduceUMinusV R.up v w sc sc_denom sum mf.1, mf.2)
      else if st.cnt = 1 then
        if st.idx ≠ v ∧ e (st.idx - 1) = den then addDbmF (m, true) v st.idx sum else (m, true)
      else (m, true)

/-! ## `affine_preimage`, `generalized_affine_preimage(var, relsym, expr, denominator)` -/

/-- `affine_preimage(var, expr, denominator)` after the initial closure (`:5170-5244`): the inverse image
through `affine_image` when the transformation is invertible, otherwise all constraints on `var` are
forgotten -/
def affinePreimageCore (R : Rnd) (n var : Nat) (e : Nat → Int) (b den : Int) (m : Mat) : Mat :=
  let v := var + 1
  let w := lastNonzero e n
  let t := exprT e w
  if t = 0 then forgetAll (n + 1) v m
  else
    let a := e (w - 1)
    if t = 1 ∧ (a = den ∨ a = - den) then
      if w = v then
        -- `affine_image(var, denominator*var - b, a)`
        affineImageCore R n var (fun i => if i = var then den else 0) (- b) a m
      else forgetAll (n + 1) v m
    else
      let expr_v := e var
      if expr_v ≠ 0 then
        -- `inverse = (expr_v + denominator)*var - expr; affine_image(var, inverse, expr_v)`
        affineImageCore R n var (fun i => (if i = var then expr_v + den else 0) - e i) (- b) expr_v m
      else forgetAll (n + 1) v m

def affinePreimage {n : Nat} (R : Rnd) (closed : Bool) (var : Nat) (e : Nat → Int) (b den : Int) (m : DBM n) :
    Option Mat :=
  (closeFirst R.up closed m).map (affinePreimageCore R n var e b den)

/-- `generalized_affine_preimage(var, relsym, expr, denominator)` for `relsym ∈ {≤, ≥}` after the initial
closure (`:6227-6253`); `none` = marked empty (by the `is_empty()` after `refine`) -/
def genAffinePreimageCore (R : Rnd) (n var : Nat) (isLe : Bool) (e : Nat → Int) (b den : Int) (m : Mat) :
    Option Mat :=
  let v := var + 1
  let expr_v := e var
  if expr_v ≠ 0 then
    -- `inverse = expr - (expr_v + denominator)*var`, `inverse_denom = -expr_v`
    let inverse : Nat → Int := fun i => e i - (if i = var then expr_v + den else 0)
    let inverse_denom := - expr_v
    let isLe' := if Int.sign den = Int.sign inverse_denom then isLe else !isLe
    some (genAffineImageCore R n var isLe' inverse b inverse_denom m)
  else
    let mf := refineVar R n var (if isLe then .le else .ge) e b den m
    -- `is_empty()`: the closure runs unless the shape is still marked closed
    if mf.2 then some (forgetAll (n + 1) v mf.1)
    else
      let d : DBM n := DBM.ofMat n mf.1
      if DBM.closureEmpty R.up d then none else some (forgetAll (n + 1) v (DBM.closure R.up d).e)

def genAffinePreimage {n : Nat} (R : Rnd) (closed : Bool) (var : Nat) (rel : RelSym) (e : Nat → Int) (b den : Int)
    (m : DBM n) : Option Mat :=
  match rel with
  | .eq => affinePreimage R closed var e b den m
  | .le => (closeFirst R.up closed m).bind (genAffinePreimageCore R n var true e b den)
  | .ge => (closeFirst R.up closed m).bind (genAffinePreimageCore R n var false e b den)

end PPLV.WR
