import PPLV.WR.ReduceProofsMathLeaders
import PPLV.Props.C03Closure
/-!
# Reduction of a closed difference-bound matrix, pure mathematics (3)

* `bds_reduced_preserves` (M1): the kept entries describe the same set of points;
* `DBM.closure_of_isClosed` : `shortest_path_closure_assign` is the identity on a closed matrix;
* `bds_reduced_recloses` (M2): closing the reduced matrix gives `c` back;
* `bds_reduced_irredundant` (M3, literal form): what the algorithm guarantees for a kept leader–leader entry.
-/
namespace PPLV.WR
open ExtRat (fin pinf)

variable {n : Nat}

/-- from a potential of the zero-diagonal matrix to a point of `c` with the same differences -/
theorem DBM.point_of_z (c : DBM n) {p : Nat → Rat} (hp : Holds (SB (n+1)) p c.z) :
    ∃ x : Nat → Rat, c.Sat x ∧ ∀ i, DBM.val x i = p i - p 0 := by
  have hv : ∀ i, DBM.val (fun i => p (i+1) - p 0) i = p i - p 0 := by
    intro i; cases i <;> simp [DBM.val]
  refine ⟨fun i => p (i+1) - p 0, ?_, hv⟩
  intro i j hi hj
  rw [hv, hv]
  have e : p j - p 0 - (p i - p 0) = p j - p i := by ring
  rw [e]
  by_cases hij : i = j
  · rw [hij, c.diag j hj]; exact ExtRat.le_pinf _
  · rw [← c.z_ne hij]
    exact hp i j ⟨by omega, by omega⟩

/-- a point of `c` is a potential of the zero-diagonal matrix -/
theorem DBM.holds_z (c : DBM n) {x : Nat → Rat} (hx : c.Sat x) : Holds (SB (n+1)) (DBM.val x) c.z :=
  holds_diagDown_zero ((DBM.sat_iff_holds c x).1 hx)

/-- a closed matrix has a point -/
theorem DBM.IsClosed.nonempty {c : DBM n} (hc : c.IsClosed) : ∃ x, c.Sat x := by
  obtain ⟨p, hp⟩ := hc.closed.nonempty
  obtain ⟨x, hx, _⟩ := c.point_of_z hp
  exact ⟨x, hx⟩

theorem DBM.closureEmpty_false_of_sat (m : DBM n) {x : Nat → Rat} (hx : m.Sat x) :
    DBM.closureEmpty upId m = false := by
  cases h : DBM.closureEmpty upId m with
  | false => rfl
  | true => exact absurd hx (DBM.closureEmpty_sound upId_sound m h x)

/-- `shortest_path_closure_assign` (exact arithmetic) does not change a closed matrix -/
theorem DBM.closure_of_isClosed {n : Nat} (c : DBM n) (hc : c.IsClosed) :
    DBM.closureEmpty upId c = false ∧
    ∀ i j, i ≤ n → j ≤ n → (DBM.closure upId c).e i j = c.e i j := by
  obtain ⟨x0, hx0⟩ := hc.nonempty
  refine ⟨c.closureEmpty_false_of_sat hx0, fun i j hi hj => ?_⟩
  by_cases hij : i = j
  · rw [hij, (DBM.closure upId c).diag j hj, c.diag j hj]
  · apply DBM.le_antisymm' (DBM.closure_le upId_sound c i j hi hj)
    cases hw : c.e i j with
    | fin w =>
      obtain ⟨p, hp, hd⟩ := hc.closed.tight_fin (a := i) (b := j) (by omega) (by omega) hij
        (by rw [c.z_ne hij]; exact hw)
      obtain ⟨x, hx, hv⟩ := c.point_of_z hp
      have := DBM.closure_sat upId_sound c x hx i j hi hj
      rw [hv, hv] at this
      have e : p j - p 0 - (p i - p 0) = w := by rw [← hd]; ring
      rw [e] at this
      exact this
    | pinf =>
      cases hu : (DBM.closure upId c).e i j with
      | pinf => exact ExtRat.le_rfl' _
      | fin u =>
        exfalso
        obtain ⟨p, hp, hd⟩ := hc.closed.tight_inf (a := i) (b := j) (by omega) (by omega) hij
          (by rw [c.z_ne hij]; exact hw) (u + 1)
        obtain ⟨x, hx, hv⟩ := c.point_of_z hp
        have := DBM.closure_sat upId_sound c x hx i j hi hj
        rw [hv, hv, hu, ExtRat.fin_le_fin] at this
        linarith

section
variable (c : DBM n) (hc : c.IsClosed) (lead pred : Nat → Nat) (hl : IsLeaderMap n c.e lead)
  (hp : IsPredMap n c.e pred) (red : BMat) (hr : IsReduction n c.e lead pred red)

include hc hl hp hr in
/-- M1: the reduction keeps the set of points -/
theorem bds_reduced_preserves : DBM.γ (c.reduced red) = DBM.γ c := by
  apply Set.Subset.antisymm
  · intro x hx a b ha hb
    by_cases hab : a = b
    · rw [hab, c.diag b hb]; exact ExtRat.le_pinf _
    · rw [← c.z_ne hab]
      exact reduced_le c hc lead pred hl hp red hr x hx ha hb
  · intro x hx a b ha hb
    have e : (c.reduced red).e a b = if red a b then pinf else c.e a b := rfl
    rw [e]
    split
    · exact ExtRat.le_pinf _
    · exact hx a b ha hb

include hc hl hp hr in
/-- M2: closing the reduced matrix gives the closed matrix back -/
theorem bds_reduced_recloses :
    DBM.closureEmpty upId (c.reduced red) = false ∧
    ∀ i j, i ≤ n → j ≤ n → (DBM.closure upId (c.reduced red)).e i j = c.e i j := by
  have hγ := bds_reduced_preserves c hc lead pred hl hp red hr
  obtain ⟨x0, hx0⟩ := hc.nonempty
  have hx0' : (c.reduced red).Sat x0 := by
    have : x0 ∈ DBM.γ (c.reduced red) := by rw [hγ]; exact hx0
    exact this
  have h1 := (c.reduced red).closureEmpty_false_of_sat hx0'
  have h2 := DBM.closure_of_isClosed c hc
  refine ⟨h1, fun i j hi hj => ?_⟩
  rw [C03.closure_canonical (c.reduced red) c h1 h2.1 hγ i j hi hj]
  exact h2.2 i j hi hj

set_option linter.unusedSectionVars false in
include hc hl hp hr in
/-- M3 (literal): a kept entry between two leaders joins distinct leaders, is finite, and is strictly below
the sum through every other leader -/
theorem bds_reduced_irredundant (i j : Nat) (hi : i ≤ n) (hj : j ≤ n) (h : red i j = false)
    (hli : lead i = i) (hlj : lead j = j) :
    i ≠ j ∧ (∃ q, c.e i j = fin q) ∧
    ∀ k, k ≤ n → lead k = k → k ≠ i → k ≠ j → ¬ (eadd (c.e i k) (c.e k j) ≤ c.e i j) := by
  have hA : ∀ k, k ≤ n → lead k = k → ¬ (eadd (c.e i k) (c.e k j) ≤ c.e i j) := by
    rcases (hr.spec i j hi hj).1 h with h | h | h
    · exact h.2.2
    · exfalso
      have hz := hp.zeq j hj
      rw [h.2] at hz
      have := hl.least j i hj hi hz
      omega
    · exfalso
      omega
  have hfin : ∃ q, c.e i j = fin q := by
    cases hq : c.e i j with
    | fin q => exact ⟨q, rfl⟩
    | pinf =>
      exfalso
      apply hA i hi hli
      rw [hq]; exact ExtRat.le_pinf _
  refine ⟨?_, hfin, fun k hk hlk _ _ => hA k hk hlk⟩
  rintro rfl
  obtain ⟨q, hq⟩ := hfin
  rw [c.diag i hi] at hq
  exact ExtRat.noConfusion hq

end
end PPLV.WR
