import PPLV.WR.TransOct2ProofsSpecial
import PPLV.WR.TransOct2ProofsGen
import PPLV.WR.TransOctProofsMain
/-!
# `Octagonal_Shape<T>::generalized_affine_image(var, relsym, expr, denominator)`: every branch
-/
set_option linter.unusedVariables false
set_option linter.unusedSimpArgs false
set_option linter.unusedTactic false
namespace PPLV.WR
open ExtRat

/-- the branches `expr == b`, `±den*w + b` (`w ≠ var`), `±den*var + b`: no side condition -/
theorem octGenAffineImageCoreF_special_sound {R : Rnd} (hR : R.Sound) {n vid : Nat} (hv : vid < n)
    {e : Nat → Int} {b den : Int} (hden : den ≠ 0) {m : Mat} {x : Nat → Rat} (hx : x ∈ γO n m) (isLe : Bool)
    {t : Rat} (ht : if isLe then t ≤ (linEval e x n + b) / den else (linEval e x n + b) / den ≤ t)
    (hsp : exprT e (lastNonzero e n) = 0 ∨
      (exprT e (lastNonzero e n) = 1 ∧ (e (lastNonzero e n - 1) = den ∨ e (lastNonzero e n - 1) = - den))) :
    ∃ mf, octGenAffineImageCoreF R n vid isLe e b den m = some mf ∧ upd x vid t ∈ γO n mf.1 := by
  have hx' : Holds (SO n) (OctM.oval x) m := hx
  have hF := holds_octForgetAll hv hx' t
  have ov0 : OctM.oval (upd x vid t) (2 * vid) = t := by rw [oval_upd, if_pos rfl]
  have ov1 : OctM.oval (upd x vid t) (2 * vid + 1) = - t := by rw [oval_upd, if_neg (by omega), if_pos rfl]
  unfold octGenAffineImageCoreF
  simp only []
  rcases hsp with h0 | ⟨h1, ha⟩
  · rw [if_pos h0]
    rw [linEval_t0 x h0, zero_add] at ht
    cases isLe
    · simp only [Bool.false_eq_true, ↓reduceIte] at ht ⊢
      refine ⟨_, rfl, ?_⟩
      show Holds (SO n) (OctM.oval (upd x vid t)) _
      refine holds_addDbmQ hR hF ?_
      rw [ov0, ov1, two_mul_div_neg]; linarith
    · simp only [↓reduceIte] at ht ⊢
      refine ⟨_, rfl, ?_⟩
      show Holds (SO n) (OctM.oval (upd x vid t)) _
      refine holds_addDbmQ hR hF ?_
      rw [ov0, ov1, two_mul_div]; linarith
  · obtain ⟨hw0, hE⟩ := linEval_t1 x h1
    have hwn := lastNonzero_le e n
    rw [if_neg (by omega), if_pos ⟨h1, ha⟩]
    rw [hE] at ht
    generalize lastNonzero e n = w at *
    obtain ⟨k, rfl⟩ : ∃ k, w = k + 1 := ⟨w - 1, by omega⟩
    simp only [Nat.add_sub_cancel] at *
    by_cases hwv : k = vid
    · -- `expr == ±den*var + b`
      rw [if_pos hwv]
      subst hwv
      refine ⟨_, rfl, ?_⟩
      show Holds (SO n) (OctM.oval (upd x k t)) _
      by_cases ha1 : e k = den
      · rw [special_val_pos hden ha1] at ht
        have hdec : decide (e k = den) = true := by simp [ha1]
        rw [hdec, octGenTranslate_plus_eq]
        cases isLe
        · simp only [Bool.false_eq_true, ↓reduceIte] at ht ⊢
          refine octShiftP_holds hR.up_le hv false (q := t - x k) (le_pinf _)
            (fin_le_divRoundUp hR (by rw [div_negden]; linarith)) hx' ?_ ?_ ?_
          · rw [ov0, oval_even]; ring
          · rw [ov1, oval_odd]; ring
          · intro i hi0 hi1; exact oval_upd_ne x _ hi0 hi1
        · simp only [↓reduceIte] at ht ⊢
          refine octShiftP_holds hR.up_le hv true (q := t - x k)
            (fin_le_divRoundUp hR (by linarith)) (le_pinf _) hx' ?_ ?_ ?_
          · rw [ov0, oval_even]; ring
          · rw [ov1, oval_odd]; ring
          · intro i hi0 hi1; exact oval_upd_ne x _ hi0 hi1
      · have ha2 := ha.resolve_left ha1
        rw [special_val_neg hden ha2] at ht
        have hdec : decide (e k = den) = false := by simp [ha1]
        rw [hdec]
        cases isLe
        · simp only [Bool.false_eq_true, ↓reduceIte] at ht ⊢
          refine octGenTranslate_minus_holds hR hv false (q := -((b : Rat) / den))
            (fin_le_divRoundUp hR (by rw [div_negden])) hx' ?_
          simp only [Bool.false_eq_true, ↓reduceIte]; linarith
        · simp only [↓reduceIte] at ht ⊢
          refine octGenTranslate_minus_holds hR hv true (q := (b : Rat) / den)
            (fin_le_divRoundUp hR (le_refl _)) hx' ?_
          simp only [↓reduceIte]; linarith
    · -- `expr == ±den*w + b`, `w ≠ var`
      rw [if_neg hwv]
      have ovk0 : OctM.oval (upd x vid t) (2 * k) = x k := by
        rw [oval_upd_ne x t (by omega) (by omega), oval_even]
      have ovk1 : OctM.oval (upd x vid t) (2 * k + 1) = - x k := by
        rw [oval_upd_ne x t (by omega) (by omega), oval_odd]
      refine ⟨_, rfl, ?_⟩
      show Holds (SO n) (OctM.oval (upd x vid t)) _
      by_cases ha1 : e k = den
      · rw [special_val_pos hden ha1] at ht
        cases isLe
        · simp only [Bool.false_eq_true, ↓reduceIte, if_pos ha1] at ht ⊢
          split <;> rw [octAddQF_fst] <;> refine holds_addDbmQ hR hF ?_
          · rw [ov1, ovk1, div_negden]; linarith
          · rw [ov0, ovk0, div_negden]; linarith
        · simp only [↓reduceIte, if_pos ha1] at ht ⊢
          split <;> rw [octAddQF_fst] <;> refine holds_addDbmQ hR hF ?_
          · rw [ov0, ovk0]; linarith
          · rw [ov1, ovk1]; linarith
      · have ha2 := ha.resolve_left ha1
        rw [special_val_neg hden ha2] at ht
        cases isLe
        · simp only [Bool.false_eq_true, ↓reduceIte, if_neg ha1] at ht ⊢
          split <;> rw [octAddQF_fst] <;> refine holds_addDbmQ hR hF ?_
          · rw [ov1, ovk0, div_negden]; linarith
          · rw [ov0, ovk1, div_negden]; linarith
        · simp only [↓reduceIte, if_neg ha1] at ht ⊢
          split <;> rw [octAddQF_fst] <;> refine holds_addDbmQ hR hF ?_
          · rw [ov0, ovk1]; linarith
          · rw [ov1, ovk0]; linarith

/-- `generalized_affine_image(var, ≤ / ≥, expr, den)` after the closure: every point `x[var := t]` with
`t ⋈ expr(x)/den` is in the result, which is not marked empty -/
theorem octGenAffineImageCoreF_sound {R : Rnd} (hR : R.Sound) {n vid : Nat} (hv : vid < n)
    {e : Nat → Int} (hc : CoeffExact R e) {b den : Int} (hden : den ≠ 0) {m : Mat}
    (hh : HalfFiniteOn R.up m) {x : Nat → Rat} (hx : x ∈ γO n m) (isLe : Bool)
    {t : Rat} (ht : if isLe then t ≤ (linEval e x n + b) / den else (linEval e x n + b) / den ≤ t) :
    ∃ mf, octGenAffineImageCoreF R n vid isLe e b den m = some mf ∧ upd x vid t ∈ γO n mf.1 := by
  by_cases hsp : exprT e (lastNonzero e n) = 0 ∨
      (exprT e (lastNonzero e n) = 1 ∧ (e (lastNonzero e n - 1) = den ∨ e (lastNonzero e n - 1) = - den))
  · exact octGenAffineImageCoreF_special_sound hR hv hden hx isLe ht hsp
  · have h0 : ¬ exprT e (lastNonzero e n) = 0 := fun h => hsp (Or.inl h)
    have h1 : ¬ (exprT e (lastNonzero e n) = 1 ∧
        (e (lastNonzero e n - 1) = den ∨ e (lastNonzero e n - 1) = - den)) := fun h => hsp (Or.inr h)
    have hg := octGenAffineImageGeneral_sound hR hv hc (b := b) hden hh hx h0 isLe ht
    unfold octGenAffineImageCoreF
    simp only []
    rw [if_neg h0, if_neg h1]
    split
    · exact ⟨_, rfl, hg⟩
    · obtain ⟨m', hm', hx'⟩ := octIncClose_sound hR hv hg
      exact ⟨(m', true), by rw [hm']; rfl, hx'⟩

theorem octGenAffineImageCore_sound {R : Rnd} (hR : R.Sound) {n vid : Nat} (hv : vid < n)
    {e : Nat → Int} (hc : CoeffExact R e) {b den : Int} (hden : den ≠ 0) {m : Mat}
    (hh : HalfFiniteOn R.up m) {x : Nat → Rat} (hx : x ∈ γO n m) (isLe : Bool)
    {t : Rat} (ht : if isLe then t ≤ (linEval e x n + b) / den else (linEval e x n + b) / den ≤ t) :
    ∃ m', octGenAffineImageCore R n vid isLe e b den m = some m' ∧ upd x vid t ∈ γO n m' := by
  obtain ⟨mf, h1, h2⟩ := octGenAffineImageCoreF_sound hR hv hc hden hh hx isLe ht
  exact ⟨mf.1, by simp [octGenAffineImageCore, h1], h2⟩

theorem octGenAffineImageCore_special_sound {R : Rnd} (hR : R.Sound) {n vid : Nat} (hv : vid < n)
    {e : Nat → Int} {b den : Int} (hden : den ≠ 0) {m : Mat} {x : Nat → Rat} (hx : x ∈ γO n m) (isLe : Bool)
    {t : Rat} (ht : if isLe then t ≤ (linEval e x n + b) / den else (linEval e x n + b) / den ≤ t)
    (hsp : exprT e (lastNonzero e n) = 0 ∨
      (exprT e (lastNonzero e n) = 1 ∧ (e (lastNonzero e n - 1) = den ∨ e (lastNonzero e n - 1) = - den))) :
    ∃ m', octGenAffineImageCore R n vid isLe e b den m = some m' ∧ upd x vid t ∈ γO n m' := by
  obtain ⟨mf, h1, h2⟩ := octGenAffineImageCoreF_special_sound hR hv hden hx isLe ht hsp
  exact ⟨mf.1, by simp [octGenAffineImageCore, h1], h2⟩

/-- `Octagonal_Shape<T>::generalized_affine_image(var, relsym, expr, den)` (Core-level export) -/
theorem octGenAffineImage_sound {R : Rnd} (hR : R.Sound) {n : Nat} (m : OctM n) (closed : Bool) {vid : Nat}
    (hv : vid < n) (rel : RelSym) {e : Nat → Int} {b den : Int} (hden : den ≠ 0) (hc : CoeffExact R e)
    (hh : ∀ m', octCloseFirst R.up closed m = some m' → HalfFiniteOn R.up m') :
    ∀ x ∈ OctM.γ m, ∀ t : Rat, RelSym.holds rel t ((linEval e x n + b) / den) →
      ∃ m', octGenAffineImage R closed vid rel e b den m = some m' ∧ upd x vid t ∈ γO n m' := by
  intro x hx t ht
  obtain ⟨m1, h1, hx1⟩ := octCloseFirst_sound hR.up_le closed m hx
  cases rel with
  | eq =>
    have ht' : t = (linEval e x n + b) / den := ht
    subst ht'
    obtain ⟨m', hm', hx'⟩ := octAffineImageCore_sound hR hv hc hden (b := b) (hh m1 h1) hx1
    exact ⟨m', by simp [octGenAffineImage, octAffineImage, h1, hm'], hx'⟩
  | le =>
    have ht' : t ≤ (linEval e x n + b) / den := ht
    obtain ⟨m', hm', hx'⟩ := octGenAffineImageCore_sound hR hv hc hden (b := b) (hh m1 h1) hx1 true
      (by simpa using ht')
    exact ⟨m', by simp [octGenAffineImage, h1, hm'], hx'⟩
  | ge =>
    have ht' : (linEval e x n + b) / den ≤ t := ht
    obtain ⟨m', hm', hx'⟩ := octGenAffineImageCore_sound hR hv hc hden (b := b) (hh m1 h1) hx1 false
      (by simpa using ht')
    exact ⟨m', by simp [octGenAffineImage, h1, hm'], hx'⟩

theorem octGenAffineImage_special_sound {R : Rnd} (hR : R.Sound) {n : Nat} (m : OctM n) (closed : Bool) {vid : Nat}
    (hv : vid < n) (rel : RelSym) {e : Nat → Int} {b den : Int} (hden : den ≠ 0)
    (hsp : exprT e (lastNonzero e n) = 0 ∨
      (exprT e (lastNonzero e n) = 1 ∧ (e (lastNonzero e n - 1) = den ∨ e (lastNonzero e n - 1) = - den))) :
    ∀ x ∈ OctM.γ m, ∀ t : Rat, RelSym.holds rel t ((linEval e x n + b) / den) →
      ∃ m', octGenAffineImage R closed vid rel e b den m = some m' ∧ upd x vid t ∈ γO n m' := by
  intro x hx t ht
  obtain ⟨m1, h1, hx1⟩ := octCloseFirst_sound hR.up_le closed m hx
  cases rel with
  | eq =>
    have ht' : t = (linEval e x n + b) / den := ht
    subst ht'
    obtain ⟨m', hm', hx'⟩ := octAffineImageCore_sound_special hR hv hden (b := b) hx1 hsp
    exact ⟨m', by simp [octGenAffineImage, octAffineImage, h1, hm'], hx'⟩
  | le =>
    have ht' : t ≤ (linEval e x n + b) / den := ht
    obtain ⟨m', hm', hx'⟩ := octGenAffineImageCore_special_sound hR hv hden (b := b) hx1 true
      (by simpa using ht') hsp
    exact ⟨m', by simp [octGenAffineImage, h1, hm'], hx'⟩
  | ge =>
    have ht' : (linEval e x n + b) / den ≤ t := ht
    obtain ⟨m', hm', hx'⟩ := octGenAffineImageCore_special_sound hR hv hden (b := b) hx1 false
      (by simpa using ht') hsp
    exact ⟨m', by simp [octGenAffineImage, h1, hm'], hx'⟩

end PPLV.WR
