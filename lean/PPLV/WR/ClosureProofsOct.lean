import PPLV.WR.ClosureProofsBase
import Mathlib.Data.Rat.Defs
/-!
# `Octagonal_Shape` closure kernels: every step keeps every point and only lowers entries
-/
namespace PPLV.WR
open ExtRat

/-- stored index pairs of the pseudo-triangular matrix of an octagon of dimension `dim` -/
def SO (dim : Nat) : Nat → Nat → Prop := fun a b => a < 2 * dim ∧ b < rowSize a

/-- the potential is coherent: `V_{ci} = - V_i` -/
def Coh (p : Nat → Rat) : Prop := ∀ i, p (cidx i) = - p i

variable {up : Rat → ExtRat} {P : (Nat → Rat) → Prop}

theorem cidx_lt {dim i : Nat} (h : i < 2 * dim) : cidx i < 2 * dim := by
  unfold cidx; split <;> omega

theorem rowSize_le {dim i : Nat} (h : i < 2 * dim) : rowSize i ≤ 2 * dim := by
  unfold rowSize; omega

theorem cidx_lt_rowSize (i : Nat) : cidx i < rowSize i := by
  unfold cidx rowSize; split <;> omega

theorem lt_rowSize_cidx (j : Nat) : j < rowSize (cidx j) := by
  unfold cidx rowSize; split <;> omega

theorem swap_stored {i j : Nat} (h : ¬ j < rowSize i) : cidx i < rowSize (cidx j) := by
  unfold cidx rowSize at *; split <;> split <;> omega

theorem coh_oval (x : Nat → Rat) : Coh (OctM.oval x) := by
  intro i
  unfold OctM.oval cidx
  by_cases h : i % 2 = 0
  · have h1 : ¬ ((i + 1) % 2 = 0) := by omega
    have h2 : (i + 1) / 2 = i / 2 := by omega
    simp [h, h1, h2]
  · have h1 : (i - 1) % 2 = 0 := by omega
    have h2 : (i - 1) / 2 = i / 2 := by omega
    simp [h, h1, h2]

theorem holds_mAt {dim : Nat} {p : Nat → Rat} {m : Mat} (h : Holds (SO dim) p m) (hc : Coh p)
    {i j : Nat} (hi : i < 2 * dim) (hj : j < 2 * dim) : fin (p j - p i) ≤ m.mAt i j := by
  unfold Mat.mAt
  split
  · rename_i hs
    exact h i j ⟨hi, hs⟩
  · rename_i hn
    have := h (cidx j) (cidx i) ⟨cidx_lt hj, swap_stored hn⟩
    rw [hc, hc] at this
    have e : p j - p i = -p i - -p j := by ring
    rw [e]; exact this

theorem Pres.strengthen {S : Nat → Nat → Prop} {m m' : Mat}
    (h : Pres S (fun p => P p ∧ Holds S p m) m m') : Pres S P m m' :=
  ⟨fun p hp hh => h.1 p ⟨hp, hh⟩ hh, h.2⟩

/-- a write through a `matrix_at`-style reference -/
theorem Pres.setAt {dim : Nat} (hP : ∀ p, P p → Coh p) {m : Mat} {i j : Nat} {v : ExtRat}
    (hle : v ≤ m.mAt i j)
    (hb : ∀ p, P p → Holds (SO dim) p m → fin (p j - p i) ≤ v) :
    Pres (SO dim) P m (m.setAt i j v) := by
  unfold Mat.setAt
  unfold Mat.mAt at hle
  split
  · rename_i hs
    rw [if_pos hs] at hle
    exact Pres.set hle (fun p hp h _ => hb p hp h)
  · rename_i hs
    rw [if_neg hs] at hle
    refine Pres.set hle (fun p hp h _ => ?_)
    have := hb p hp h
    rw [hP p hp, hP p hp]
    have e : -p i - -p j = p j - p i := by ring
    rw [e]; exact this

/-! ## `strong_closure_assign` -/

theorem rowSize_even (k : Nat) : rowSize (2 * k) = 2 * k + 2 := by unfold rowSize; omega
theorem rowSize_odd (k : Nat) : rowSize (2 * k + 1) = 2 * k + 2 := by unfold rowSize; omega
theorem cidx_even (k : Nat) : cidx (2 * k) = 2 * k + 1 := by unfold cidx; split <;> omega
theorem cidx_odd (k : Nat) : cidx (2 * k + 1) = 2 * k := by unfold cidx; split <;> omega

theorem vecK_eq (m : Mat) (kk j : Nat) :
    (if j < 2 * kk + 2 then m (2 * kk) j else m (cidx j) (2 * kk + 1)) = m.mAt (2 * kk) j := by
  unfold Mat.mAt; rw [rowSize_even, cidx_even]

theorem vecCK_eq (m : Mat) (kk j : Nat) :
    (if j < 2 * kk + 2 then m (2 * kk + 1) j else m (cidx j) (2 * kk)) = m.mAt (2 * kk + 1) j := by
  unfold Mat.mAt; rw [rowSize_odd, cidx_odd]

theorem pres_octClosureK (hup : ∀ x, fin x ≤ up x) (hP : ∀ p, P p → Coh p) {dim kk : Nat}
    (hkk : kk < dim) (m : Mat) :
    Pres (SO dim) P m (octClosureK up (2 * dim) (2 * kk) m) := by
  apply Pres.strengthen
  unfold octClosureK
  simp only [vecK_eq, vecCK_eq]
  apply Pres.loopUp; intro i hi m'
  apply Pres.loopUp; intro j hj m'
  apply Pres.set (minA_le_left _ _)
  intro p hp h' hij
  obtain ⟨hp, h0⟩ := hp
  have hc := hP p hp
  have hj2 : j < 2 * dim := lt_of_lt_of_le hj (rowSize_le hi)
  have hk : 2 * kk < 2 * dim := by omega
  have hck : 2 * kk + 1 < 2 * dim := by omega
  have pck : p (2 * kk + 1) = - p (2 * kk) := by rw [← cidx_even]; exact hc _
  apply le_minA (h' i j hij)
  apply le_minA
  · have a1 := holds_mAt h0 hc hck (cidx_lt hi)
    have a2 := holds_mAt h0 hc hk hj2
    have := fin_le_addUp hup a1 a2
    rw [hc, pck] at this
    have e : p j - p i = -p i - -p (2 * kk) + (p j - p (2 * kk)) := by ring
    rw [e]; exact this
  · have a1 := holds_mAt h0 hc hk (cidx_lt hi)
    have a2 := holds_mAt h0 hc hck hj2
    have := fin_le_addUp hup a1 a2
    rw [hc, pck] at this
    have e : p j - p i = -p i - p (2 * kk) + (p j - -p (2 * kk)) := by ring
    rw [e]; exact this

theorem pres_octLoops (hup : ∀ x, fin x ≤ up x) (hP : ∀ p, P p → Coh p) (dim : Nat) (m : Mat) :
    Pres (SO dim) P m (octLoops up dim m) := by
  unfold octLoops
  apply Pres.loopUp; intro _ _ m
  apply Pres.loopUp; intro kk hkk m
  exact pres_octClosureK hup hP hkk m

/-! ## `strong_coherence_assign` -/

theorem pres_strongCoherenceM (hup : ∀ x, fin x ≤ up x) (hP : ∀ p, P p → Coh p) (dim : Nat) (m : Mat) :
    Pres (SO dim) P m (strongCoherenceM up dim m) := by
  unfold strongCoherenceM
  apply Pres.loopUp; intro i hi m
  apply Pres.ite; exact Pres.refl _
  apply Pres.loopUp; intro j hj m
  apply Pres.ite; exact Pres.refl _
  apply Pres.ite; exact Pres.refl _
  apply Pres.set (minA_le_left _ _)
  intro p hp h hij
  have hc := hP p hp
  have hj2 : j < 2 * dim := lt_of_lt_of_le hj (rowSize_le hi)
  apply le_minA (h i j hij)
  have a1 := h i (cidx i) ⟨hi, cidx_lt_rowSize i⟩
  have a2 := h (cidx j) j ⟨cidx_lt hj2, lt_rowSize_cidx j⟩
  have := fin_le_halfUp hup (fin_le_addUp hup a1 a2)
  rw [hc, hc] at this
  have e : p j - p i = (-p i - p i + (p j - -p j)) / 2 := by ring
  rw [e]; exact this

/-! ## `incremental_strong_closure_assign` -/

theorem pres_octRelaxAt (hup : ∀ x, fin x ≤ up x) (hP : ∀ p, P p → Coh p) {dim i k j : Nat}
    (hi : i < 2 * dim) (hk : k < 2 * dim) (hj : j < 2 * dim) (m : Mat) :
    Pres (SO dim) P m (octRelaxAt up m i k j) := by
  unfold octRelaxAt
  apply Pres.setAt hP (minA_le_left _ _)
  intro p hp h
  have hc := hP p hp
  apply le_minA (holds_mAt h hc hi hj)
  have := fin_le_addUp hup (holds_mAt h hc hi hk) (holds_mAt h hc hk hj)
  have e : p j - p i = (p k - p i) + (p j - p k) := by ring
  rw [e]; exact this

theorem pres_octIncStep1 (hup : ∀ x, fin x ≤ up x) (hP : ∀ p, P p → Coh p) {dim v : Nat}
    (hv : v + 1 < 2 * dim) (m : Mat) :
    Pres (SO dim) P m (octIncStep1 up (2 * dim) v m) := by
  have hv0 : v < 2 * dim := by omega
  unfold octIncStep1
  apply Pres.loopUp; intro k hk m
  apply Pres.loopUp; intro i hi m
  refine Pres.trans (b := if (m.mAt i k).isPinf = true then m else
      if ((if (m.mAt k v).isPinf = true then m else octRelaxAt up m i k v).mAt k (v + 1)).isPinf = true
      then (if (m.mAt k v).isPinf = true then m else octRelaxAt up m i k v)
      else octRelaxAt up (if (m.mAt k v).isPinf = true then m else octRelaxAt up m i k v) i k (v + 1))
    ?_ ?_
  · apply Pres.ite; exact Pres.refl _
    refine Pres.trans (b := if (m.mAt k v).isPinf = true then m else octRelaxAt up m i k v) ?_ ?_
    · apply Pres.ite; exact Pres.refl _
      exact pres_octRelaxAt hup hP hi hk hv0 m
    · apply Pres.ite; exact Pres.refl _
      exact pres_octRelaxAt hup hP hi hk hv _
  · generalize (if (m.mAt i k).isPinf = true then m else _) = m1
    apply Pres.ite; exact Pres.refl _
    refine Pres.trans (b := if (m1.mAt v k).isPinf = true then m1 else octRelaxAt up m1 v k i) ?_ ?_
    · apply Pres.ite; exact Pres.refl _
      exact pres_octRelaxAt hup hP hv0 hk hi m1
    · apply Pres.ite; exact Pres.refl _
      exact pres_octRelaxAt hup hP hv hk hi _

theorem pres_octIncStep2 (hup : ∀ x, fin x ≤ up x) (hP : ∀ p, P p → Coh p) {dim v : Nat}
    (hv : v + 1 < 2 * dim) (m : Mat) :
    Pres (SO dim) P m (octIncStep2 up (2 * dim) v m) := by
  have hv0 : v < 2 * dim := by omega
  unfold octIncStep2
  apply Pres.loopUp; intro i hi m
  apply Pres.loopUp; intro j hj m
  refine Pres.trans (b := if (m.mAt i v).isPinf = true then m else
      if (m.mAt v j).isPinf = true then m else octRelaxAt up m i v j) ?_ ?_
  · apply Pres.ite; exact Pres.refl _
    apply Pres.ite; exact Pres.refl _
    exact pres_octRelaxAt hup hP hi hv0 hj m
  · generalize (if (m.mAt i v).isPinf = true then m else _) = m1
    apply Pres.ite; exact Pres.refl _
    apply Pres.ite; exact Pres.refl _
    exact pres_octRelaxAt hup hP hi hv hj m1

/-! ## wrapping -/

theorem holds_diagUp_zero {dim : Nat} {p : Nat → Rat} {m : Mat} (h : Holds (SO dim) p m) :
    Holds (SO dim) p (Mat.diagUp (2 * dim) (fin 0) m) := by
  intro a b hab
  rw [Mat.diagUp_apply]
  split
  · rename_i hc
    obtain ⟨rfl, _⟩ := hc
    simp
  · exact h a b hab

theorem holds_diagUp_pinf {dim : Nat} {p : Nat → Rat} {m : Mat} (h : Holds (SO dim) p m) :
    Holds (SO dim) p (Mat.diagUp (2 * dim) pinf m) := by
  intro a b hab
  rw [Mat.diagUp_apply]
  split
  · simp
  · exact h a b hab

/-- integer potentials -/
def IntPot (dim : Nat) (p : Nat → Rat) : Prop := ∀ i, i < 2 * dim → ∃ z : Int, p i = z

/-- soundness-only step relation (no claim that entries decrease) -/
def PresH (S : Nat → Nat → Prop) (P : (Nat → Rat) → Prop) (m m' : Mat) : Prop :=
  ∀ p, P p → Holds S p m → Holds S p m'

theorem odd_tighten {q : Rat} (hodd : (fin q).isOddInt = true) {z : Int} (h : (2 : Rat) * z ≤ q) :
    (2 : Rat) * z ≤ q - 1 := by
  simp only [isOddInt, Bool.and_eq_true, beq_iff_eq] at hodd
  obtain ⟨hden, hnum⟩ := hodd
  have hq : (q.num : Rat) = q := Rat.coe_int_num_of_den_eq_one hden
  rw [← hq] at h ⊢
  have h' : 2 * z ≤ q.num := by exact_mod_cast h
  have : 2 * z ≤ q.num - 1 := by omega
  exact_mod_cast this

theorem presH_tightenUnary (hup : ∀ x, fin x ≤ up x) (dim : Nat) (m : Mat) :
    PresH (SO dim) (fun p => Coh p ∧ IntPot dim p) m (tightenUnary up dim m) := by
  unfold tightenUnary
  refine loopUp_rel (PresH (SO dim) (fun p => Coh p ∧ IntPot dim p)) (fun _ _ _ h => h)
    (fun a b c h1 h2 p hp h => h2 p hp (h1 p hp h)) dim _ ?_ m
  intro h hh m
  have step : ∀ (m : Mat) (a b : Nat), a < 2 * dim → b = cidx a →
      PresH (SO dim) (fun p => Coh p ∧ IntPot dim p) m
        (if (!(m a b).isPinf && (m a b).isOddInt) = true then m.set a b (subUp up (m a b) (fin 1)) else m) := by
    intro m a b ha hb p hp hm
    split
    · rename_i hc
      simp only [Bool.and_eq_true, Bool.not_eq_true'] at hc
      obtain ⟨hfin, hodd⟩ := hc
      intro a' b' hab'
      simp only [Mat.set_apply]
      split
      · rename_i he
        obtain ⟨rfl, rfl⟩ := he
        have h0 := hm a' b' hab'
        cases hv : m a' b' with
        | pinf => rw [hv] at hfin; simp [isPinf] at hfin
        | fin q =>
          rw [hv] at h0 hodd
          obtain ⟨z, hz⟩ := hp.2 a' ha
          rw [hb, hp.1, hz] at h0 ⊢
          simp only [subUp]
          rw [fin_le_fin] at h0
          have e : -(z : Rat) - z = 2 * ((-z : Int) : Rat) := by push_cast; ring
          rw [e] at h0 ⊢
          exact le_trans' (fin_le_fin.2 (odd_tighten hodd h0)) (hup _)
      · exact hm a' b' hab'
    · exact hm
  intro p hp hm
  have h1 := step m (2 * h) (2 * h + 1) (by omega) (cidx_even h).symm p hp hm
  exact step _ (2 * h + 1) (2 * h) (by omega) (cidx_odd h).symm p hp h1

theorem mle_tightenUnary (hdec : ∀ q : Rat, (fin q).isOddInt = true → up (q - 1) ≤ fin q) (dim : Nat)
    (m : Mat) : MLe (tightenUnary up dim m) m := by
  unfold tightenUnary
  refine loopUp_rel (fun a b => MLe b a) (fun _ _ _ => le_rfl' _)
    (fun a b c h1 h2 i j => le_trans' (h2 i j) (h1 i j)) dim _ ?_ m
  intro h _ m
  have step : ∀ (m : Mat) (a b : Nat),
      MLe (if (!(m a b).isPinf && (m a b).isOddInt) = true then m.set a b (subUp up (m a b) (fin 1)) else m) m := by
    intro m a b
    split
    · rename_i hc
      simp only [Bool.and_eq_true, Bool.not_eq_true'] at hc
      obtain ⟨hfin, hodd⟩ := hc
      intro a' b'
      simp only [Mat.set_apply]
      split
      · rename_i he
        obtain ⟨rfl, rfl⟩ := he
        cases hv : m a' b' with
        | pinf => simp
        | fin q =>
          rw [hv] at hodd
          simp only [subUp]
          exact hdec q hodd
      · exact le_rfl' _
    · exact fun _ _ => le_rfl' _
  intro i j
  exact le_trans' (step _ (2 * h + 1) (2 * h) i j) (step m (2 * h) (2 * h + 1) i j)

namespace OctM
variable {n : Nat}

theorem sat_iff_holds (m : OctM n) (x : Nat → Rat) : m.Sat x ↔ Holds (SO n) (oval x) m.e := by
  constructor
  · intro h a b hab
    exact h a b hab.1 hab.2
  · intro h i j hi hj
    exact h i j ⟨hi, hj⟩

theorem wrap_core_holds (F : Mat → Mat) (hF : ∀ m, Pres (SO n) Coh m (F m))
    (m : OctM n) (x : Nat → Rat) (hx : m.Sat x) :
    Holds (SO n) (oval x) (F (Mat.diagUp (2 * n) (fin 0) m.e)) :=
  (hF _).1 _ (coh_oval x) (holds_diagUp_zero ((sat_iff_holds m x).1 hx))

theorem wrap_le (F : Mat → Mat) (hF : ∀ m, Pres (SO n) Coh m (F m))
    (m : OctM n) (i j : Nat) (hi : i < 2 * n) :
    Mat.diagUp (2 * n) pinf (F (Mat.diagUp (2 * n) (fin 0) m.e)) i j ≤ m.e i j := by
  rw [Mat.diagUp_apply]
  split
  · rename_i hc
    obtain ⟨rfl, _⟩ := hc
    rw [m.diag i hi]; simp
  · rename_i hc
    have := (hF (Mat.diagUp (2 * n) (fin 0) m.e)).2 i j
    rw [Mat.diagUp_apply, if_neg hc] at this
    exact this

theorem strongCoherence_sat (hup : ∀ x, fin x ≤ up x) (m : OctM n) (x : Nat → Rat) (hx : m.Sat x) :
    (strongCoherence up m).Sat x := by
  rw [sat_iff_holds] at hx ⊢
  exact (pres_strongCoherenceM hup (fun _ h => h) n m.e).1 _ (coh_oval x) hx

theorem strongCoherence_le (hup : ∀ x, fin x ≤ up x) (m : OctM n) : strongCoherence up m ≤ m :=
  fun i j _ _ => (pres_strongCoherenceM (P := Coh) hup (fun _ h => h) n m.e).2 i j

theorem closureRestored_sat (hup : ∀ x, fin x ≤ up x) (m : OctM n) (x : Nat → Rat) (hx : m.Sat x) :
    (closureRestored up m).Sat x := by
  rw [sat_iff_holds]
  exact holds_diagUp_pinf (wrap_core_holds _ (pres_octLoops hup (fun _ h => h) n) m x hx)

theorem closureRestored_le (hup : ∀ x, fin x ≤ up x) (m : OctM n) : closureRestored up m ≤ m :=
  fun i j hi _ => wrap_le _ (pres_octLoops hup (fun _ h => h) n) m i j hi

theorem le_trans'' {a b c : OctM n} (h1 : a ≤ b) (h2 : b ≤ c) : a ≤ c :=
  fun i j hi hj => le_trans' (h1 i j hi hj) (h2 i j hi hj)

theorem strongClosure_sat (hup : ∀ x, fin x ≤ up x) (m : OctM n) (x : Nat → Rat) (hx : m.Sat x) :
    (strongClosure up m).Sat x := by
  unfold strongClosure
  split
  · exact closureRestored_sat hup m x hx
  · exact strongCoherence_sat hup _ x (closureRestored_sat hup m x hx)

theorem strongClosure_le (hup : ∀ x, fin x ≤ up x) (m : OctM n) : strongClosure up m ≤ m := by
  unfold strongClosure
  split
  · exact closureRestored_le hup m
  · exact le_trans'' (strongCoherence_le hup _) (closureRestored_le hup m)

theorem strongClosureEmpty_sound (hup : ∀ x, fin x ≤ up x) (m : OctM n)
    (he : strongClosureEmpty up m = true) (x : Nat → Rat) : ¬ m.Sat x := by
  intro hx
  have h := wrap_core_holds _ (pres_octLoops hup (fun _ h => h) n) m x hx
  have := h.negDiag_false (k := 2 * n) (fun h hh => ⟨hh, by unfold rowSize; omega⟩)
  unfold strongClosureEmpty octCore at he
  rw [this] at he
  exact Bool.false_ne_true he

theorem pres_octInc (hup : ∀ x, fin x ≤ up x) {vid : Nat} (hv : vid < n) (m : Mat) :
    Pres (SO n) Coh m (octIncStep2 up (2 * n) (2 * vid) (octIncStep1 up (2 * n) (2 * vid) m)) :=
  (pres_octIncStep1 hup (fun _ h => h) (by omega) m).trans
    (pres_octIncStep2 hup (fun _ h => h) (by omega) _)

theorem incRestored_sat (hup : ∀ x, fin x ≤ up x) {vid : Nat} (hv : vid < n) (m : OctM n)
    (x : Nat → Rat) (hx : m.Sat x) : (incRestored up vid m).Sat x := by
  rw [sat_iff_holds]
  exact holds_diagUp_pinf (wrap_core_holds _ (pres_octInc hup hv) m x hx)

theorem incRestored_le (hup : ∀ x, fin x ≤ up x) {vid : Nat} (hv : vid < n) (m : OctM n) :
    incRestored up vid m ≤ m :=
  fun i j hi _ => wrap_le _ (pres_octInc hup hv) m i j hi

theorem incStrongClosure_sat (hup : ∀ x, fin x ≤ up x) {vid : Nat} (hv : vid < n) (m : OctM n)
    (x : Nat → Rat) (hx : m.Sat x) : (incStrongClosure up vid m).Sat x := by
  unfold incStrongClosure
  split
  · exact incRestored_sat hup hv m x hx
  · exact strongCoherence_sat hup _ x (incRestored_sat hup hv m x hx)

theorem incStrongClosure_le (hup : ∀ x, fin x ≤ up x) {vid : Nat} (hv : vid < n) (m : OctM n) :
    incStrongClosure up vid m ≤ m := by
  unfold incStrongClosure
  split
  · exact incRestored_le hup hv m
  · exact le_trans'' (strongCoherence_le hup _) (incRestored_le hup hv m)

theorem incStrongClosureEmpty_sound (hup : ∀ x, fin x ≤ up x) {vid : Nat} (hv : vid < n) (m : OctM n)
    (he : incStrongClosureEmpty up vid m = true) (x : Nat → Rat) : ¬ m.Sat x := by
  intro hx
  have h := wrap_core_holds _ (pres_octInc hup hv) m x hx
  have := h.negDiag_false (k := 2 * n) (fun h hh => ⟨hh, by unfold rowSize; omega⟩)
  unfold incStrongClosureEmpty octIncCore at he
  rw [this] at he
  exact Bool.false_ne_true he

/-! ### tight closure: integer points -/

/-- the first `n` coordinates are integers -/
def IntPt (n : Nat) (x : Nat → Rat) : Prop := ∀ i, i < n → ∃ z : Int, x i = z

theorem intPot_oval {x : Nat → Rat} (hx : IntPt n x) : IntPot n (oval x) := by
  intro i hi
  obtain ⟨z, hz⟩ := hx (i / 2) (by omega)
  unfold oval
  split
  · exact ⟨z, hz⟩
  · exact ⟨-z, by rw [hz]; push_cast; ring⟩

theorem tighten_sat (hup : ∀ x, fin x ≤ up x) (m : OctM n) (x : Nat → Rat) (hi : IntPt n x)
    (hx : m.Sat x) : (tighten up m).Sat x := by
  rw [sat_iff_holds] at hx ⊢
  exact presH_tightenUnary hup n m.e _ ⟨coh_oval x, intPot_oval hi⟩ hx

theorem tighten_le (hdec : ∀ q : Rat, (fin q).isOddInt = true → up (q - 1) ≤ fin q) (m : OctM n) :
    tighten up m ≤ m :=
  fun i j _ _ => mle_tightenUnary hdec n m.e i j

theorem tightClosure_sat (hup : ∀ x, fin x ≤ up x) (m : OctM n) (x : Nat → Rat) (hi : IntPt n x)
    (hx : m.Sat x) : (tightClosure up m).Sat x := by
  unfold tightClosure
  split
  · exact strongClosure_sat hup m x hx
  · exact strongCoherence_sat hup _ x (tighten_sat hup _ x hi (strongClosure_sat hup m x hx))

theorem tightClosure_le (hup : ∀ x, fin x ≤ up x)
    (hdec : ∀ q : Rat, (fin q).isOddInt = true → up (q - 1) ≤ fin q) (m : OctM n) :
    tightClosure up m ≤ m := by
  unfold tightClosure
  split
  · exact strongClosure_le hup m
  · exact le_trans'' (strongCoherence_le hup _) (le_trans'' (tighten_le hdec _) (strongClosure_le hup m))

theorem tightWouldEmpty_sound (m : OctM n) (he : tightWouldEmpty n m.e = true) (x : Nat → Rat)
    (hi : IntPt n x) : ¬ m.Sat x := by
  intro hx
  simp only [tightWouldEmpty, List.any_eq_true, List.mem_range, Bool.and_eq_true,
    Bool.not_eq_true'] at he
  obtain ⟨h, hh, ⟨_, hodd⟩, hinv⟩ := he
  have h1 := hx (2 * h) (2 * h + 1) (by omega) (by unfold rowSize; omega)
  have h2 := hx (2 * h + 1) (2 * h) (by omega) (by unfold rowSize; omega)
  cases hv1 : m.e (2 * h) (2 * h + 1) with
  | pinf => rw [hv1] at hodd; simp [isOddInt] at hodd
  | fin q =>
    cases hv2 : m.e (2 * h + 1) (2 * h) with
    | pinf => rw [hv1, hv2] at hinv; simp [isAddInv] at hinv
    | fin q' =>
      rw [hv1, hv2] at hinv
      rw [hv1] at h1 hodd
      rw [hv2] at h2
      simp only [isAddInv, decide_eq_true_eq] at hinv
      rw [fin_le_fin] at h1 h2
      obtain ⟨z, hz⟩ := hi h hh
      have o1 : oval x (2 * h) = z := by
        unfold oval
        rw [if_pos (by omega), show 2 * h / 2 = h by omega, hz]
      have o2 : oval x (2 * h + 1) = -z := by
        unfold oval
        rw [if_neg (by omega), show (2 * h + 1) / 2 = h by omega, hz]
      rw [o1, o2] at h1 h2
      have e1 : (2 : Rat) * ((-z : Int) : Rat) ≤ q := by push_cast; linarith
      have := odd_tighten hodd e1
      push_cast at this
      linarith

theorem tightClosureEmpty_sound (hup : ∀ x, fin x ≤ up x) (m : OctM n)
    (he : tightClosureEmpty up m = true) (x : Nat → Rat) (hi : IntPt n x) : ¬ m.Sat x := by
  intro hx
  unfold tightClosureEmpty at he
  rw [Bool.or_eq_true] at he
  rcases he with he | he
  · exact strongClosureEmpty_sound hup m he x hx
  · exact tightWouldEmpty_sound _ he x hi (strongClosure_sat hup m x hx)

/-- the set of points of an octagon matrix -/
def γ (m : OctM n) : Set (ℕ → ℚ) := {x | m.Sat x}
/-- its integer points -/
def γInt (m : OctM n) : Set (ℕ → ℚ) := {x | m.Sat x ∧ IntPt n x}

end OctM
end PPLV.WR
