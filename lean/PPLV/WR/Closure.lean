/-!
# Weakly-relational domains: closure kernels and deduction helpers (executable model, no Mathlib)

Code-shaped models of

* `BD_Shape<T>::shortest_path_closure_assign`, `incremental_shortest_path_closure_assign`,
  `deduce_v_minus_u_bounds`, `deduce_u_minus_v_bounds`            (`/repo/src/BD_Shape_templates.hh`)
* `Octagonal_Shape<T>::strong_closure_assign`, `strong_coherence_assign`,
  `incremental_strong_closure_assign`, `tight_coherence_would_make_empty`, `tight_closure_assign`,
  `deduce_v_pm_u_bounds`, `deduce_minus_v_pm_u_bounds`             (`/repo/src/Octagonal_Shape_templates.hh`)

for **every** bound type `T`: a matrix entry is an extended rational `ℚ ∪ {+∞}` and every rounded
operation of the code (`add_assign_r / sub_assign_r / div_2exp_assign_r / assign_r (…, ROUND_UP)`) is
`up` applied to the exact rational result, for an arbitrary `up : Rat → ExtRat`.  The proofs assume
only `∀ x, fin x ≤ up x` (overflow ↦ `+∞` is an instance; `up = fin` is `mpq_class`, `up = ceil` is
`mpz_class`, round-to-next-float is `double`).

Loops are written with `loopDown` (`for (h = n; h-- > 0; )`) and `loopUp` (`for (h = 0; h < n; ++h)`)
in the order of the code; the matrix is threaded through them as state, so that a reference such as
`const N& x_dbm_i_k = x_dbm_i[k]` — which observes later writes to the same cell — is the read
`m i k` of the *current* state, while a copy such as `vec_k[i] = x_k[i]` is a read of the state at the
time of the copy.

Orientation (as in the code): `dbm[i][j]` is an upper bound of `x_j - x_i`, index `0` is the special
zero variable, variable `Variable(k)` has index `k+1`.  For octagons index `2k` stands for `+x_k`,
`2k+1` for `-x_k`, and `matrix[i][j]` is an upper bound of `V_j - V_i`; row `i` of the
pseudo-triangular `OR_Matrix` stores the columns `j < row_size(i) = i + 2 - i % 2`, any other entry is
read through `matrix[coherent_index(j)][coherent_index(i)]` (`matrix_at`).
-/
namespace PPLV.WR

/-! ## extended rationals -/

/-- `ℚ ∪ {+∞}` -/
inductive ExtRat where
  | fin (q : Rat)
  | pinf
  deriving DecidableEq, Inhabited

namespace ExtRat

instance : Coe Rat ExtRat := ⟨fin⟩

def leB : ExtRat → ExtRat → Bool
  | _, pinf => true
  | pinf, fin _ => false
  | fin a, fin b => decide (a ≤ b)

instance : LE ExtRat := ⟨fun a b => leB a b = true⟩
instance : DecidableRel (α := ExtRat) (· ≤ ·) := fun a b => inferInstanceAs (Decidable (leB a b = true))

/-- `is_plus_infinity` -/
def isPinf : ExtRat → Bool
  | pinf => true
  | fin _ => false

/-- `sgn(x) < 0` -/
def isNeg : ExtRat → Bool
  | pinf => false
  | fin q => decide (q < 0)

/-- `min_assign(x, y)`: `if (x > y) x = y` -/
def minA (a b : ExtRat) : ExtRat := if a ≤ b then a else b

/-- conversion to a plain `mpq_class` (`assign_r(q, x, ROUND_NOT_NEEDED)`); the value for `+∞` is
never used by a caller that respects the preconditions of the deduction helpers -/
def toRat : ExtRat → Rat
  | fin q => q
  | pinf => 0

/-- `add_assign_r(to, a, b, ROUND_UP)` on extended numbers -/
def addUp (up : Rat → ExtRat) : ExtRat → ExtRat → ExtRat
  | fin x, fin y => up (x + y)
  | _, _ => pinf

/-- `sub_assign_r(to, a, b, ROUND_UP)`; `a - (+∞)` is `-∞` in the code, a value that the model does not
have: it only arises when the caller violated the precondition (see `deduce_*`), the model stores `0` -/
def subUp (up : Rat → ExtRat) : ExtRat → ExtRat → ExtRat
  | fin x, fin y => up (x - y)
  | pinf, fin _ => pinf
  | _, pinf => fin 0

/-- `div_2exp_assign_r(to, a, 1, ROUND_UP)` -/
def halfUp (up : Rat → ExtRat) : ExtRat → ExtRat
  | fin x => up (x / 2)
  | pinf => pinf

/-- `!is_even(x)` for a finite bound of an *integer* type: an odd integer.  (Bounds of an integer `T`
are integers, `tight_closure_assign` does not compile for other `T`.) -/
def isOddInt : ExtRat → Bool
  | fin q => q.den == 1 && q.num % 2 == 1
  | pinf => false

/-- `is_additive_inverse(x, y)` -/
def isAddInv : ExtRat → ExtRat → Bool
  | fin x, fin y => decide (x + y = 0)
  | _, _ => false

end ExtRat

open ExtRat (fin pinf minA addUp subUp halfUp)

/-! ## roundings used by the driver (any function with `fin x ≤ up x` is admissible) -/

/-- exact arithmetic (`mpq_class`) -/
def upId : Rat → ExtRat := fin
/-- unbounded integers (`mpz_class`): round to the ceiling -/
def upCeil : Rat → ExtRat := fun x => fin (x.ceil : Int)
/-- bounded integers with maximum `mx`: ceiling, overflow to `+∞` -/
def upCeilMax (mx : Int) : Rat → ExtRat := fun x => if x.ceil ≤ mx then fin (x.ceil : Int) else pinf

/-- bounded integers with finite range `[lo, hi]` (`int8_t` with the extended policy: `[-126, 126]`):
positive overflow to `+∞`, negative overflow rounds up to `lo` (`set_neg_overflow_int`) -/
def upCeilRange (lo hi : Int) : Rat → ExtRat := fun x =>
  if x.ceil > hi then pinf else if x.ceil < lo then fin (lo : Int) else fin (x.ceil : Int)

/-! ## loops -/

/-- `for (h = n; h-- > 0; ) a = f(h, a)` -/
def loopDown {α : Type} : Nat → (Nat → α → α) → α → α
  | 0, _, a => a
  | n+1, f, a => loopDown n f (f n a)

/-- `for (h = 0; h < n; ++h) a = f(h, a)` -/
def loopUp {α : Type} : Nat → (Nat → α → α) → α → α
  | 0, _, a => a
  | n+1, f, a => f n (loopUp n f a)

/-! ## raw matrices -/

/-- a matrix of extended rationals: the lookup function.  (The second, constant field only keeps the
compiler from representing `Mat` by the bare function type: with a bare function type every
`Mat`-valued loop body is eta-expanded and a stored value is re-evaluated at every lookup —
exponential time in the driver.  It carries no information.) -/
structure Mat where
  f : Nat → Nat → ExtRat
  barrier : Unit := ()

instance : CoeFun Mat (fun _ => Nat → Nat → ExtRat) := ⟨Mat.f⟩

namespace Mat

def set (m : Mat) (i j : Nat) (v : ExtRat) : Mat := { f := fun a b => if a = i ∧ b = j then v else m a b }

@[simp] theorem set_apply (m : Mat) (i j : Nat) (v : ExtRat) (a b : Nat) :
    (m.set i j v) a b = if a = i ∧ b = j then v else m a b := rfl

/-- `for h: m[h][h] := v`, descending (`BD_Shape`) -/
def diagDown (k : Nat) (v : ExtRat) (m : Mat) : Mat := loopDown k (fun h m => m.set h h v) m
/-- the same, ascending (`Octagonal_Shape`, row iterators) -/
def diagUp (k : Nat) (v : ExtRat) (m : Mat) : Mat := loopUp k (fun h m => m.set h h v) m

/-- some `m[h][h]`, `h < k`, is negative -/
def negDiag (k : Nat) (m : Mat) : Bool := (List.range k).any fun h => (m h h).isNeg

theorem diagDown_apply (k : Nat) (v : ExtRat) (m : Mat) (a b : Nat) :
    diagDown k v m a b = if a = b ∧ a < k then v else m a b := by
  induction k generalizing m with
  | zero => simp [diagDown, loopDown]
  | succ k ih =>
    have := ih (m.set k k v)
    simp only [diagDown, loopDown] at this ⊢
    rw [this]
    simp only [set_apply]
    by_cases h3 : a = b ∧ a < k + 1
    · rw [if_pos h3]
      by_cases h1 : a = b ∧ a < k
      · rw [if_pos h1]
      · rw [if_neg h1, if_pos (by omega)]
    · rw [if_neg h3, if_neg (by omega), if_neg (by omega)]

theorem diagUp_apply (k : Nat) (v : ExtRat) (m : Mat) (a b : Nat) :
    diagUp k v m a b = if a = b ∧ a < k then v else m a b := by
  induction k with
  | zero => simp [diagUp, loopUp]
  | succ k ih =>
    simp only [diagUp, loopUp] at ih ⊢
    simp only [set_apply, ih]
    by_cases h3 : a = b ∧ a < k + 1
    · rw [if_pos h3]
      by_cases h2 : a = k ∧ b = k
      · rw [if_pos h2]
      · rw [if_neg h2, if_pos (by omega)]
    · rw [if_neg h3, if_neg (by omega), if_neg (by omega)]

end Mat

/-! ## bounded-difference shapes -/

/-- `add_assign_r(sum, x_i_k, x_k_j, ROUND_UP); min_assign(x_i_j, sum);` -/
def bdsRelax (up : Rat → ExtRat) (m : Mat) (i k j : Nat) : Mat :=
  m.set i j (minA (m i j) (addUp up (m i k) (m k j)))

/-- the Floyd–Warshall loop nest of `shortest_path_closure_assign` (`rows = num_dimensions + 1`) -/
def bdsLoops (up : Rat → ExtRat) (rows : Nat) (m : Mat) : Mat :=
  loopDown rows (fun k m =>
    loopDown rows (fun i m =>
      if (m i k).isPinf then m
      else loopDown rows (fun j m =>
        if (m k j).isPinf then m else bdsRelax up m i k j) m) m) m

/-- the matrix of `shortest_path_closure_assign` just before the emptiness test:
diagonal filled with zeros, then the loop nest -/
def bdsCore (up : Rat → ExtRat) (rows : Nat) (m : Mat) : Mat :=
  bdsLoops up rows (Mat.diagDown rows (fin 0) m)

/-- Step 1 of `incremental_shortest_path_closure_assign`, `v = var.id() + 1` -/
def bdsIncStep1 (up : Rat → ExtRat) (rows v : Nat) (m : Mat) : Mat :=
  loopDown rows (fun k m =>
    let x_v_k_finite := !(m v k).isPinf
    let x_k_v_finite := !(m k v).isPinf
    if x_v_k_finite then
      if x_k_v_finite then
        loopDown rows (fun i m =>
          let m1 := if (m i k).isPinf then m else bdsRelax up m i k v
          if (m1 k i).isPinf then m1 else bdsRelax up m1 v k i) m
      else
        loopDown rows (fun i m => if (m k i).isPinf then m else bdsRelax up m v k i) m
    else if x_k_v_finite then
      loopDown rows (fun i m => if (m i k).isPinf then m else bdsRelax up m i k v) m
    else m) m

/-- Step 2 of `incremental_shortest_path_closure_assign` -/
def bdsIncStep2 (up : Rat → ExtRat) (rows v : Nat) (m : Mat) : Mat :=
  loopDown rows (fun i m =>
    if (m i v).isPinf then m
    else loopDown rows (fun j m =>
      if (m v j).isPinf then m else bdsRelax up m i v j) m) m

def bdsIncCore (up : Rat → ExtRat) (rows v : Nat) (m : Mat) : Mat :=
  bdsIncStep2 up rows v (bdsIncStep1 up rows v (Mat.diagDown rows (fin 0) m))

/-- a difference-bound matrix of a `BD_Shape` of space dimension `n`: `n+1` rows and columns, with the
class invariant of `BD_Shape::OK()` that the main diagonal holds `+∞` -/
structure DBM (n : Nat) where
  e : Mat
  diag : ∀ i, i ≤ n → e i i = pinf

namespace DBM
variable {n : Nat}

/-- value of dbm index `i` at the point `x`: index `0` is the zero variable -/
def val (x : Nat → Rat) : Nat → Rat
  | 0 => 0
  | i+1 => x i

/-- `x` satisfies every constraint of the matrix -/
def Sat (m : DBM n) (x : Nat → Rat) : Prop :=
  ∀ i j, i ≤ n → j ≤ n → fin (val x j - val x i) ≤ m.e i j

instance : LE (DBM n) := ⟨fun a b => ∀ i j, i ≤ n → j ≤ n → a.e i j ≤ b.e i j⟩

/-- `shortest_path_closure_assign` detects emptiness (a negative diagonal entry after the loops) -/
def closureEmpty (up : Rat → ExtRat) (m : DBM n) : Bool := (bdsCore up (n+1) m.e).negDiag (n+1)

/-- the matrix left by `shortest_path_closure_assign` (diagonal restored to `+∞`).  When
`closureEmpty` holds the code marks the shape empty and the matrix is not used any more. -/
def closure (up : Rat → ExtRat) (m : DBM n) : DBM n where
  e := Mat.diagDown (n+1) pinf (bdsCore up (n+1) m.e)
  diag := by intro i hi; rw [Mat.diagDown_apply]; simp; omega

def incClosureEmpty (up : Rat → ExtRat) (v : Nat) (m : DBM n) : Bool :=
  (bdsIncCore up (n+1) v m.e).negDiag (n+1)

/-- `incremental_shortest_path_closure_assign(Variable(v - 1))`; `v` is the dbm index -/
def incClosure (up : Rat → ExtRat) (v : Nat) (m : DBM n) : DBM n where
  e := Mat.diagDown (n+1) pinf (bdsIncCore up (n+1) v m.e)
  diag := by intro i hi; rw [Mat.diagDown_apply]; simp; omega

end DBM

/-! ### `deduce_v_minus_u_bounds`, `deduce_u_minus_v_bounds`

`e u` is the coefficient of `Variable(u)` in `sc_expr`, `d = sc_denom > 0`, `v` the dbm index of the
assigned variable, the loop visits the variable ids `u < last` with a non-zero coefficient (sparse
iterator up to `lower_bound(Variable(last_v))`). -/

def deduceVMinusUStep (up : Rat → ExtRat) (v : Nat) (e : Nat → Int) (d : Int) (ub_v : ExtRat)
    (u : Nat) (m : Mat) : Mat :=
  let u_dim := u + 1
  if e u = 0 then m
  else if u_dim = v then m
  else if e u < 0 then m
  else if e u ≥ d then
    -- deducing `v - u <= ub_v - ub_u`
    m.set u_dim v (subUp up ub_v (m 0 u_dim))
  else
    match m u_dim 0 with
    | pinf => m
    | fin minus_lb_u =>
      let q : Rat := (e u : Rat) / (d : Rat)
      let ub_u : Rat := (m 0 u_dim).toRat
      let ub_u := ub_u + minus_lb_u                 -- `ub_u - lb_u`
      let minus_lb_u := minus_lb_u - q * ub_u       -- `(-lb_u) - q * (ub_u - lb_u)`
      let up_approx := up minus_lb_u
      m.set u_dim v (addUp up ub_v up_approx)

def deduceVMinusU (up : Rat → ExtRat) (v last : Nat) (e : Nat → Int) (d : Int) (ub_v : ExtRat)
    (m : Mat) : Mat :=
  loopUp last (deduceVMinusUStep up v e d ub_v) m

def deduceUMinusVStep (up : Rat → ExtRat) (v : Nat) (e : Nat → Int) (d : Int) (minus_lb_v : ExtRat)
    (u : Nat) (m : Mat) : Mat :=
  let u_dim := u + 1
  if e u = 0 then m
  else if u_dim = v then m
  else if e u < 0 then m
  else if e u ≥ d then
    -- deducing `u - v <= lb_u - lb_v`
    m.set v u_dim (subUp up minus_lb_v (m u_dim 0))
  else
    match m 0 u_dim with
    | pinf => m
    | fin ub_u =>
      let q : Rat := (e u : Rat) / (d : Rat)
      let minus_lb_u : Rat := (m u_dim 0).toRat
      let minus_lb_u := minus_lb_u + ub_u           -- `ub_u - lb_u`
      let ub_u := ub_u - q * minus_lb_u             -- `ub_u - q * (ub_u - lb_u)`
      let up_approx := up ub_u
      m.set v u_dim (addUp up up_approx minus_lb_v)

def deduceUMinusV (up : Rat → ExtRat) (v last : Nat) (e : Nat → Int) (d : Int) (minus_lb_v : ExtRat)
    (m : Mat) : Mat :=
  loopUp last (deduceUMinusVStep up v e d minus_lb_v) m

/-! ## octagonal shapes -/

/-- `OR_Matrix::row_size(k)` -/
def rowSize (k : Nat) : Nat := k + 2 - k % 2

/-- `coherent_index(i)` -/
def cidx (i : Nat) : Nat := if i % 2 ≠ 0 then i - 1 else i + 1

namespace Mat

/-- `matrix_at(i, j)`: `(j < row_size(i)) ? matrix[i][j] : matrix[cj][ci]` -/
def mAt (m : Mat) (i j : Nat) : ExtRat := if j < rowSize i then m i j else m (cidx j) (cidx i)

/-- a write through the reference returned by `matrix_at(i, j)` -/
def setAt (m : Mat) (i j : Nat) (v : ExtRat) : Mat :=
  if j < rowSize i then m.set i j v else m.set (cidx j) (cidx i) v

end Mat

/-- one iteration of the outer loop of `strong_closure_assign` for the even index `k`:
the copies `vec_k`, `vec_ck`, then the sweep over all stored elements in row-major order -/
def octClosureK (up : Rat → ExtRat) (rows k : Nat) (m : Mat) : Mat :=
  let ck := k + 1
  -- `vec_k[j] = x_k[j]` for `j ≤ k+1`, `= x_cj[ck]` beyond; the same for `vec_ck`
  let vec_k : Nat → ExtRat := fun j => if j < k + 2 then m k j else m (cidx j) ck
  let vec_ck : Nat → ExtRat := fun j => if j < k + 2 then m ck j else m (cidx j) k
  loopUp rows (fun i m =>
    let ci := cidx i
    loopUp (rowSize i) (fun j m =>
      let sum1 := addUp up (vec_ck ci) (vec_k j)
      let sum2 := addUp up (vec_k ci) (vec_ck j)
      m.set i j (minA (m i j) (minA sum1 sum2))) m) m

/-- the three nested loops of `strong_closure_assign`, executed twice; `dim = space_dim` -/
def octLoops (up : Rat → ExtRat) (dim : Nat) (m : Mat) : Mat :=
  loopUp 2 (fun _ m => loopUp dim (fun kk m => octClosureK up (2 * dim) (2 * kk) m) m) m

def octCore (up : Rat → ExtRat) (dim : Nat) (m : Mat) : Mat :=
  octLoops up dim (Mat.diagUp (2 * dim) (fin 0) m)

/-- `strong_coherence_assign` -/
def strongCoherenceM (up : Rat → ExtRat) (dim : Nat) (m : Mat) : Mat :=
  loopUp (2 * dim) (fun i m =>
    let ci := cidx i
    if (m i ci).isPinf then m
    else loopUp (rowSize i) (fun j m =>
      if i = j then m
      else
        let cj := cidx j
        if (m cj j).isPinf then m
        else
          let semi_sum := addUp up (m i ci) (m cj j)
          let semi_sum := halfUp up semi_sum
          m.set i j (minA (m i j) semi_sum)) m) m

/-- `add_assign_r(sum, x_i_k, x_k_j, ROUND_UP); min_assign(x_i_j, sum)` through `matrix_at`-style
conditional references -/
def octRelaxAt (up : Rat → ExtRat) (m : Mat) (i k j : Nat) : Mat :=
  m.setAt i j (minA (m.mAt i j) (addUp up (m.mAt i k) (m.mAt k j)))

/-- Step 1 of `incremental_strong_closure_assign`, `v = 2*var.id()` -/
def octIncStep1 (up : Rat → ExtRat) (rows v : Nat) (m : Mat) : Mat :=
  let cv := v + 1
  loopUp rows (fun k m =>
    loopUp rows (fun i m =>
      let m :=
        if (m.mAt i k).isPinf then m
        else
          let m := if (m.mAt k v).isPinf then m else octRelaxAt up m i k v
          if (m.mAt k cv).isPinf then m else octRelaxAt up m i k cv
      if (m.mAt k i).isPinf then m
      else
        let m := if (m.mAt v k).isPinf then m else octRelaxAt up m v k i
        if (m.mAt cv k).isPinf then m else octRelaxAt up m cv k i) m) m

/-- Step 2 of `incremental_strong_closure_assign` -/
def octIncStep2 (up : Rat → ExtRat) (rows v : Nat) (m : Mat) : Mat :=
  let cv := v + 1
  loopUp rows (fun i m =>
    loopUp rows (fun j m =>
      let m :=
        if (m.mAt i v).isPinf then m
        else if (m.mAt v j).isPinf then m else octRelaxAt up m i v j
      if (m.mAt i cv).isPinf then m
      else if (m.mAt cv j).isPinf then m else octRelaxAt up m i cv j) m) m

def octIncCore (up : Rat → ExtRat) (dim v : Nat) (m : Mat) : Mat :=
  octIncStep2 up (2 * dim) v (octIncStep1 up (2 * dim) v (Mat.diagUp (2 * dim) (fin 0) m))

/-- `tight_coherence_would_make_empty` -/
def tightWouldEmpty (dim : Nat) (m : Mat) : Bool :=
  (List.range dim).any fun h =>
    let i := 2 * h
    let ci := i + 1
    !(m i ci).isPinf && (m i ci).isOddInt && ExtRat.isAddInv (m i ci) (m ci i)

/-- "Tighten the unary constraints" loop of `tight_closure_assign` -/
def tightenUnary (up : Rat → ExtRat) (dim : Nat) (m : Mat) : Mat :=
  loopUp dim (fun h m =>
    let i := 2 * h
    let ci := i + 1
    let m := if !(m i ci).isPinf && (m i ci).isOddInt then m.set i ci (subUp up (m i ci) (fin 1)) else m
    if !(m ci i).isPinf && (m ci i).isOddInt then m.set ci i (subUp up (m ci i) (fin 1)) else m) m

theorem strongCoherenceM_diag (up : Rat → ExtRat) (dim : Nat) (m : Mat) (h : Nat) :
    strongCoherenceM up dim m h h = m h h := by
  unfold strongCoherenceM
  generalize 2 * dim = r
  induction r with
  | zero => rfl
  | succ r ih =>
    simp only [loopUp]
    generalize loopUp r _ m = m' at ih ⊢
    rw [← ih]
    split
    · rfl
    · generalize rowSize r = s
      induction s with
      | zero => rfl
      | succ s ihs =>
        simp only [loopUp]
        generalize loopUp s _ m' = m'' at ihs ⊢
        rw [← ihs]
        split
        · rfl
        · split
          · rfl
          · simp only [Mat.set_apply]
            split
            · omega
            · rfl

theorem tightenUnary_diag (up : Rat → ExtRat) (dim : Nat) (m : Mat) (h : Nat) :
    tightenUnary up dim m h h = m h h := by
  unfold tightenUnary
  induction dim with
  | zero => rfl
  | succ r ih =>
    simp only [loopUp]
    generalize loopUp r _ m = m' at ih ⊢
    rw [← ih]
    have s1 : ∀ (m : Mat) v, m.set (2 * r) (2 * r + 1) v h h = m h h := by
      intro m v; simp only [Mat.set_apply]; split
      · omega
      · rfl
    have s2 : ∀ (m : Mat) v, m.set (2 * r + 1) (2 * r) v h h = m h h := by
      intro m v; simp only [Mat.set_apply]; split
      · omega
      · rfl
    split <;> split <;> simp only [s1, s2]

/-- the pseudo-triangular matrix of an `Octagonal_Shape` of space dimension `n` (`2n` rows), with the
class invariant of `Octagonal_Shape::OK()` that the main diagonal holds `+∞` -/
structure OctM (n : Nat) where
  e : Mat
  diag : ∀ i, i < 2 * n → e i i = pinf

namespace OctM
variable {n : Nat}

/-- value of matrix index `i` at the point `x`: `2k ↦ x_k`, `2k+1 ↦ -x_k` -/
def oval (x : Nat → Rat) (i : Nat) : Rat := if i % 2 = 0 then x (i / 2) else - x (i / 2)

/-- `x` satisfies every stored constraint -/
def Sat (m : OctM n) (x : Nat → Rat) : Prop :=
  ∀ i j, i < 2 * n → j < rowSize i → fin (oval x j - oval x i) ≤ m.e i j

instance : LE (OctM n) := ⟨fun a b => ∀ i j, i < 2 * n → j < rowSize i → a.e i j ≤ b.e i j⟩

/-- `strong_closure_assign` detects emptiness -/
def strongClosureEmpty (up : Rat → ExtRat) (m : OctM n) : Bool := (octCore up n m.e).negDiag (2 * n)

/-- `strong_coherence_assign` -/
def strongCoherence (up : Rat → ExtRat) (m : OctM n) : OctM n where
  e := strongCoherenceM up n m.e
  diag := by intro i hi; rw [strongCoherenceM_diag]; exact m.diag i hi

/-- the matrix after the emptiness test of `strong_closure_assign` (diagonal restored) -/
def closureRestored (up : Rat → ExtRat) (m : OctM n) : OctM n where
  e := Mat.diagUp (2 * n) pinf (octCore up n m.e)
  diag := by intro i hi; rw [Mat.diagUp_apply]; simp; omega

/-- the matrix left by `strong_closure_assign`: Floyd–Warshall sweeps, emptiness test, and — when the
test does not fire — strong coherence.  When `strongClosureEmpty` holds the code returns before the
coherence step with the shape marked empty. -/
def strongClosure (up : Rat → ExtRat) (m : OctM n) : OctM n :=
  if strongClosureEmpty up m then closureRestored up m else strongCoherence up (closureRestored up m)

def incStrongClosureEmpty (up : Rat → ExtRat) (vid : Nat) (m : OctM n) : Bool :=
  (octIncCore up n (2 * vid) m.e).negDiag (2 * n)

def incRestored (up : Rat → ExtRat) (vid : Nat) (m : OctM n) : OctM n where
  e := Mat.diagUp (2 * n) pinf (octIncCore up n (2 * vid) m.e)
  diag := by intro i hi; rw [Mat.diagUp_apply]; simp; omega

/-- `incremental_strong_closure_assign(Variable(vid))` -/
def incStrongClosure (up : Rat → ExtRat) (vid : Nat) (m : OctM n) : OctM n :=
  if incStrongClosureEmpty up vid m then incRestored up vid m
  else strongCoherence up (incRestored up vid m)

/-- `tight_closure_assign` marks the shape empty -/
def tightClosureEmpty (up : Rat → ExtRat) (m : OctM n) : Bool :=
  strongClosureEmpty up m || tightWouldEmpty n (strongClosure up m).e

/-- "Tighten the unary constraints" -/
def tighten (up : Rat → ExtRat) (m : OctM n) : OctM n where
  e := tightenUnary up n m.e
  diag := by intro i hi; rw [tightenUnary_diag]; exact m.diag i hi

/-- the matrix left by `tight_closure_assign` (integer `T`) -/
def tightClosure (up : Rat → ExtRat) (m : OctM n) : OctM n :=
  if tightClosureEmpty up m then strongClosure up m
  else strongCoherence up (tighten up (strongClosure up m))

end OctM

/-! ### `deduce_v_pm_u_bounds`, `deduce_minus_v_pm_u_bounds`

`v_id` is the id of the assigned variable, the loop visits the ids `u ≤ last_id` with a non-zero
coefficient; `ub_v` (resp. `minus_lb_v`) bounds `v` (resp. `-v`) itself, not its double. -/

def deduceVPmUStep (up : Rat → ExtRat) (v_id : Nat) (e : Nat → Int) (d : Int) (ub_v : ExtRat)
    (u_id : Nat) (m : Mat) : Mat :=
  let n_v := 2 * v_id
  let cv := n_v + 1
  let n_u := u_id * 2
  if e u_id = 0 then m
  else if u_id = v_id then m
  else if e u_id > 0 then
    if e u_id ≥ d then
      -- `q >= 1`: deducing `v - u <= ub_v - ub_u`
      let half := halfUp up (m (n_u + 1) n_u)
      let r := subUp up ub_v half
      if n_v < n_u then m.set n_u n_v r else m.set cv (n_u + 1) r
    else
      match m n_u (n_u + 1) with
      | pinf => m
      | fin m_u_cu =>
        let minus_lb_u : Rat := m_u_cu / 2
        let q : Rat := (e u_id : Rat) / (d : Rat)
        let ub_u : Rat := (m (n_u + 1) n_u).toRat / 2
        let ub_u := ub_u + minus_lb_u               -- `ub_u - lb_u`
        let minus_lb_u := minus_lb_u - q * ub_u     -- `(-lb_u) - q * (ub_u - lb_u)`
        let up_approx := up minus_lb_u
        let r := addUp up ub_v up_approx
        if n_v < n_u then m.set n_u n_v r else m.set cv (n_u + 1) r
  else
    let minus_expr_u := - e u_id
    if minus_expr_u ≥ d then
      -- `q <= -1`: deducing `v + u <= ub_v + lb_u`
      let half := halfUp up (m n_u (n_u + 1))
      let r := subUp up ub_v half
      if n_v < n_u then m.set (n_u + 1) n_v r else m.set cv n_u r
    else
      match m (n_u + 1) n_u with
      | pinf => m
      | fin m_cu_u =>
        let ub_u : Rat := m_cu_u / 2
        let minus_q : Rat := (minus_expr_u : Rat) / (d : Rat)
        let lb_u : Rat := - ((m n_u (n_u + 1)).toRat / 2)
        let lb_u := lb_u - ub_u                      -- `lb_u - ub_u`
        let ub_u := ub_u + minus_q * lb_u            -- `ub_u + (-q) * (lb_u - ub_u)`
        let up_approx := up ub_u
        let r := addUp up ub_v up_approx
        if n_v < n_u then m.set (n_u + 1) n_v r else m.set cv n_u r

def deduceVPmU (up : Rat → ExtRat) (v_id last_id : Nat) (e : Nat → Int) (d : Int) (ub_v : ExtRat)
    (m : Mat) : Mat :=
  loopUp (last_id + 1) (deduceVPmUStep up v_id e d ub_v) m

def deduceMinusVPmUStep (up : Rat → ExtRat) (v_id : Nat) (e : Nat → Int) (d : Int)
    (minus_lb_v : ExtRat) (u_id : Nat) (m : Mat) : Mat :=
  let n_v := 2 * v_id
  let n_u := u_id * 2
  if e u_id = 0 then m
  else if u_id = v_id then m
  else if e u_id > 0 then
    if e u_id ≥ d then
      -- `q >= 1`: deducing `u - v <= lb_u - lb_v`
      let half := halfUp up (m n_u (n_u + 1))
      let r := subUp up minus_lb_v half
      if n_v < n_u then m.set (n_u + 1) (n_v + 1) r else m.set n_v n_u r
    else
      match m (n_u + 1) n_u with
      | pinf => m
      | fin m_cu_u =>
        let ub_u : Rat := m_cu_u / 2
        let q : Rat := (e u_id : Rat) / (d : Rat)
        let minus_lb_u : Rat := (m n_u (n_u + 1)).toRat / 2
        let minus_lb_u := ub_u + minus_lb_u          -- `ub_u - lb_u`
        let ub_u := ub_u - q * minus_lb_u            -- `ub_u - q * (ub_u - lb_u)`
        let up_approx := up ub_u
        let r := addUp up minus_lb_v up_approx
        if n_v < n_u then m.set (n_u + 1) (n_v + 1) r else m.set n_v n_u r
  else
    let minus_expr_u := - e u_id
    if minus_expr_u ≥ d then
      -- `q <= -1`: deducing `-v - u <= -lb_v - ub_u`
      let half := halfUp up (m (n_u + 1) n_u)
      let r := subUp up minus_lb_v half
      if n_v < n_u then m.set n_u (n_v + 1) r else m.set n_v (n_u + 1) r
    else
      match m n_u (n_u + 1) with
      | pinf => m
      | fin m_u_cu =>
        let ub_u : Rat := (m (n_u + 1) n_u).toRat / 2
        let q : Rat := (e u_id : Rat) / (d : Rat)
        let minus_lb_u : Rat := m_u_cu / 2
        let ub_u := ub_u + minus_lb_u                -- `ub_u - lb_u`
        let minus_lb_u := minus_lb_u + q * ub_u      -- `-lb_u + q * (ub_u - lb_u)`
        let up_approx := up minus_lb_u
        let r := addUp up minus_lb_v up_approx
        if n_v < n_u then m.set n_u (n_v + 1) r else m.set n_v (n_u + 1) r

def deduceMinusVPmU (up : Rat → ExtRat) (v_id last_id : Nat) (e : Nat → Int) (d : Int)
    (minus_lb_v : ExtRat) (m : Mat) : Mat :=
  loopUp (last_id + 1) (deduceMinusVPmUStep up v_id e d minus_lb_v) m

/-- `Σ_{i < k} e_i * x_i` -/
def linEval (e : Nat → Int) (x : Nat → Rat) : Nat → Rat
  | 0 => 0
  | k+1 => linEval e x k + (e k : Rat) * x k

/-! ## building and printing matrices (driver, examples) -/

/-- matrix from rows; missing entries are `+∞` -/
def Mat.ofLists (rows : List (List ExtRat)) : Mat := { f := fun i j => (rows.getD i []).getD j pinf }

/-- the first `rows` rows, row `i` up to column `rowLen i` -/
def Mat.toLists (rows : Nat) (rowLen : Nat → Nat) (m : Mat) : List (List ExtRat) :=
  (List.range rows).map fun i => (List.range (rowLen i)).map fun j => m i j

/-- a `DBM` from `n+1` rows of `n+1` entries (the diagonal is forced to `+∞`, the class invariant) -/
def DBM.ofLists (n : Nat) (rows : List (List ExtRat)) : DBM n where
  e := Mat.diagDown (n+1) pinf (Mat.ofLists rows)
  diag := by intro i hi; rw [Mat.diagDown_apply]; simp; omega

/-- an `OctM` from `2n` rows, row `i` of `row_size(i)` entries (diagonal forced to `+∞`) -/
def OctM.ofLists (n : Nat) (rows : List (List ExtRat)) : OctM n where
  e := Mat.diagUp (2 * n) pinf (Mat.ofLists rows)
  diag := by intro i hi; rw [Mat.diagUp_apply]; simp; omega

end PPLV.WR
