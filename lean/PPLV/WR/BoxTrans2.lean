import PPLV.WR.BoxTrans
/-!
# C03 stage 4 — `Box<ITV>`: images, preimages, lattice operations, dimensions (no Mathlib)

Continuation of `BoxTrans.lean`; transliteration of `/repo/src/Box_templates.hh`.  Calls with
arguments the C++ rejects with an exception (zero denominator, `NOT_EQUAL`, dimension
mismatch) are outside the model: the harness never makes them.
-/
namespace PPLV.WR.BoxT
open PPLV.Interval
open PPLV.Interval.ExtRat (ninf fin pinf)

/-! ## interval evaluation of a linear expression -/

/-- the loop of `affine_image` (Box_templates.hh:3135–3141) -/
def evalLoop (cfg : Cfg) (seq : List Iv) : List (Nat × Int) → Iv → Iv
  | [], ev => ev
  | (i, a) :: ts, ev =>
    let temp0 := ivOfInt cfg.p cfg.R a
    let temp1 := assign cfg.p cfg.R cfg.p (seq.getD i Iv.empty)
    let temp0 := mulAssign false cfg.p cfg.R temp0 temp1
    evalLoop cfg seq ts (addAssign cfg.p cfg.R ev temp0)

/-- `expr_value` of `affine_image` / `affine_preimage` (lines 3131–3145, 3221–3235) -/
def evalExprIv (cfg : Cfg) (seq : List Iv) (e : LinExpr) (den : Int) : Iv :=
  let ev := evalLoop cfg seq e.terms (ivOfInt cfg.p cfg.R e.inhom)
  if den != 1 then divAssign cfg.p cfg.R ev (ivOfInt cfg.p cfg.R den) else ev

/-- `affine_image(var, expr, denominator)` (Box_templates.hh:3107) -/
def affineImage (cfg : Cfg) (b : Box) (v : Nat) (e : LinExpr) (den : Int) : Box :=
  let (em, b) := b.isEmptyQ cfg.p
  if em then b
  else b.setIv v (assign cfg.p cfg.R cfg.p (evalExprIv cfg b.seq e den))

/-- `affine_preimage(var, expr, denominator)` (Box_templates.hh:3193) -/
def affinePreimage (cfg : Cfg) (b : Box) (v : Nat) (e : LinExpr) (den : Int) : Box :=
  let (em, b) := b.isEmptyQ cfg.p
  if em then b
  else
    let ev := e.coeff v
    if ev == 0 then
      let val := evalExprIv cfg b.seq e den
      let val := intersectAssign cfg.p cfg.R val (b.get v)
      if isEmpty cfg.p val then b.setEmpty
      else b.setIv v (Iv.universe cfg.p)
    else
      -- inverse = -expr + (expr_v + denominator) * var
      let inverse := (LinExpr.const 0).sub e |>.add (LinExpr.var (ev + den) v)
      affineImage cfg b v inverse ev

/-- `generalized_affine_image(var, relsym, expr, denominator)` (Box_templates.hh:3614) -/
def generalizedAffineImage (cfg : Cfg) (b : Box) (v : Nat) (rel : Rel) (e : LinExpr) (den : Int) : Box :=
  let b := affineImage cfg b v e den
  if rel == .eq then b
  else
    let (em, b) := b.isEmptyQ cfg.p
    if em then b
    else
      let I := b.get v
      match rel with
      | .le => b.setIv v (lowerExtend cfg.p I)
      | .lt =>
        let I := lowerExtend cfg.p I
        b.setIv v (if !isBoundaryInfinity cfg.p .upper I.hi then removeSup cfg.p I else I)
      | .ge => b.setIv v (upperExtend cfg.p I)
      | .gt =>
        let I := upperExtend cfg.p I
        b.setIv v (if !isBoundaryInfinity cfg.p .lower I.lo then removeInf cfg.p I else I)
      | _ => b

def Rel.reversed : Rel → Rel
  | .lt => .gt | .le => .ge | .ge => .le | .gt => .lt | r => r

def intSgn (z : Int) : Int := if z < 0 then -1 else if z == 0 then 0 else 1

/-- `generalized_affine_preimage(var, relsym, expr, denominator)` (Box_templates.hh:3687) -/
def generalizedAffinePreimage (cfg : Cfg) (b : Box) (v : Nat) (rel : Rel) (e : LinExpr) (den : Int) : Box :=
  if rel == .eq then affinePreimage cfg b v e den
  else
    let rrel := Rel.reversed rel
    let vc := e.coeff v
    if vc != 0 then
      let inverseExpr := e.sub (LinExpr.var (den + vc) v)
      let inverseDen := -vc
      let inverseRel := if intSgn den == intSgn inverseDen then rel else rrel
      generalizedAffineImage cfg b v inverseRel inverseExpr inverseDen
    else
      let dv := LinExpr.var den v
      let (mx, b) := maxMin cfg.p b dv true
      let (mn, b) := maxMin cfg.p b dv false
      let crel := if den > 0 then rel else rrel
      let b :=
        match crel with
        | .lt =>
          match mn with
          | some (q, _) => refineWithConstraint cfg b (conLt (LinExpr.const q.num) (e.scale (q.den : Int)))
          | none => b
        | .le =>
          match mn with
          | some (q, incl) =>
            if incl then refineWithConstraint cfg b (conLe (LinExpr.const q.num) (e.scale (q.den : Int)))
            else refineWithConstraint cfg b (conLt (LinExpr.const q.num) (e.scale (q.den : Int)))
          | none => b
        | .ge =>
          match mx with
          | some (q, incl) =>
            if incl then refineWithConstraint cfg b (conGe (LinExpr.const q.num) (e.scale (q.den : Int)))
            else refineWithConstraint cfg b (conGt (LinExpr.const q.num) (e.scale (q.den : Int)))
          | none => b
        | .gt =>
          match mx with
          | some (q, _) => refineWithConstraint cfg b (conGt (LinExpr.const q.num) (e.scale (q.den : Int)))
          | none => b
        | _ => b
      let (em, b) := b.isEmptyQ cfg.p
      if em then b else b.setIv v (Iv.universe cfg.p)

/-- `seq[i] = UNIVERSE` for every variable of `lhs` -/
def unconstrainTerms (p : Policy) (b : Box) : List (Nat × Int) → Box
  | [] => b
  | (i, _) :: ts => unconstrainTerms p (b.setIv i (Iv.universe p)) ts

/-- `generalized_affine_image(lhs, relsym, rhs)` (Box_templates.hh:3839) -/
def generalizedAffineImageLhs (cfg : Cfg) (b : Box) (lhs : LinExpr) (rel : Rel) (rhs : LinExpr) : Box :=
  if b.markedEmpty then b
  else
    let (mx, b) := maxMin cfg.p b rhs true
    let (mn, b) := maxMin cfg.p b rhs false
    match lhs.terms with
    | [] =>
      -- the lhs is a constant
      let n := LinExpr.const lhs.inhom
      match rel with
      | .lt => refineWithConstraint cfg b (conLt n rhs)
      | .le => refineWithConstraint cfg b (conLe n rhs)
      | .eq => refineWithConstraint cfg b (mkCon (rhs.neg.add n) .eq)
      | .ge => refineWithConstraint cfg b (conGe n rhs)
      | .gt => refineWithConstraint cfg b (conGt n rhs)
      | .ne => b
    | [(vid, coeff)] =>
      let inhomo : Rat := (lhs.inhom : Rat)
      let qmax := mx.map (fun (m : Rat × Bool) => ((m.1 - inhomo) / (coeff : Rat), m.2))
      let qmin := mn.map (fun (m : Rat × Bool) => ((m.1 - inhomo) / (coeff : Rat), m.2))
      let U := Iv.universe cfg.p
      let I : Iv :=
        if coeff > 0 then
          match rel with
          | .le => (match qmax with | some (q, incl) => buildC cfg.p cfg.R (if incl then .le else .lt) q | none => U)
          | .lt => (match qmax with | some (q, _) => buildC cfg.p cfg.R .lt q | none => U)
          | .eq =>
            build2 cfg.p cfg.R (qmin.map fun (m : Rat × Bool) => (if m.2 then Rel.ge else Rel.gt, m.1))
              (qmax.map fun (m : Rat × Bool) => (if m.2 then Rel.le else Rel.lt, m.1))
          | .ge => (match qmin with | some (q, incl) => buildC cfg.p cfg.R (if incl then .ge else .gt) q | none => U)
          | .gt => (match qmin with | some (q, _) => buildC cfg.p cfg.R .gt q | none => U)
          | .ne => b.get vid
        else
          match rel with
          | .ge => (match qmin with | some (q, incl) => buildC cfg.p cfg.R (if incl then .le else .lt) q | none => U)
          | .gt => (match qmin with | some (q, _) => buildC cfg.p cfg.R .lt q | none => U)
          | .eq =>
            build2 cfg.p cfg.R (qmax.map fun (m : Rat × Bool) => (if m.2 then Rel.ge else Rel.gt, m.1))
              (qmin.map fun (m : Rat × Bool) => (if m.2 then Rel.le else Rel.lt, m.1))
          | .le => (match qmax with | some (q, incl) => buildC cfg.p cfg.R (if incl then .ge else .gt) q | none => U)
          | .lt => (match qmax with | some (q, _) => buildC cfg.p cfg.R .gt q | none => U)
          | .ne => b.get vid
      b.setIv vid I
    | ts => unconstrainTerms cfg.p b ts

/-- `generalized_affine_preimage(lhs, relsym, rhs)` (Box_templates.hh:4077) -/
def generalizedAffinePreimageLhs (cfg : Cfg) (b : Box) (lhs : LinExpr) (rel : Rel) (rhs : LinExpr) : Box :=
  let (em, b) := b.isEmptyQ cfg.p
  if em then b
  else match lhs.terms with
    | [] =>
      match rel with
      | .lt => refineWithConstraint cfg b (conLt lhs rhs)
      | .le => refineWithConstraint cfg b (conLe lhs rhs)
      | .eq => refineWithConstraint cfg b (conEq lhs rhs)
      | .ge => refineWithConstraint cfg b (conGe lhs rhs)
      | .gt => refineWithConstraint cfg b (conGt lhs rhs)
      | .ne => b
    | ts =>
      let (mn, b) := maxMin cfg.p b lhs false
      let (mx, b) := maxMin cfg.p b lhs true
      let b := unconstrainTerms cfg.p b ts
      let b :=
        match mn with
        | some (q, incl) =>
          if rel == .lt || rel == .le || rel == .eq then
            if rel == .lt || !incl then
              refineWithConstraint cfg b (conGt (rhs.scale (q.den : Int)) (LinExpr.const q.num))
            else refineWithConstraint cfg b (conGe (rhs.scale (q.den : Int)) (LinExpr.const q.num))
          else b
        | none => b
      match mx with
      | some (q, incl) =>
        if rel == .gt || rel == .ge || rel == .eq then
          if rel == .gt || !incl then
            refineWithConstraint cfg b (conLt (rhs.scale (q.den : Int)) (LinExpr.const q.num))
          else refineWithConstraint cfg b (conLe (rhs.scale (q.den : Int)) (LinExpr.const q.num))
        else b
      | none => b

/-- `bounded_affine_image(var, lb_expr, ub_expr, denominator)` (Box_templates.hh:3261) -/
def boundedAffineImage (cfg : Cfg) (b : Box) (v : Nat) (lb ub : LinExpr) (den : Int) : Box :=
  let (em, b) := b.isEmptyQ cfg.p
  if em then b
  else
    let b := if den > 0 then refineWithConstraint cfg b (conLe lb ub) else refineWithConstraint cfg b (conGe lb ub)
    let dv := LinExpr.var den v
    if lb.coeff v == 0 then
      let b := generalizedAffineImage cfg b v .le ub den
      if den > 0 then refineWithConstraint cfg b (conLe lb dv) else refineWithConstraint cfg b (conLe dv lb)
    else if ub.coeff v == 0 then
      let b := generalizedAffineImage cfg b v .ge lb den
      if den > 0 then refineWithConstraint cfg b (conLe dv ub) else refineWithConstraint cfg b (conLe ub dv)
    else
      let posLb := if den < 0 then lb.neg else lb
      let posUb := if den < 0 then ub.neg else ub
      let posDen : Rat := if den < 0 then ((-den : Int) : Rat) else (den : Rat)
      let (mx, b) := maxMin cfg.p b posUb true
      match mx with
      | some (qmax, maxIncl) =>
        let (mn, b) := maxMin cfg.p b posLb false
        match mn with
        | some (qmin, minIncl) =>
          b.setIv v (build2 cfg.p cfg.R (some (if minIncl then Rel.ge else Rel.gt, qmin / posDen))
            (some (if maxIncl then Rel.le else Rel.lt, qmax / posDen)))
        | none => b.setIv v (buildC cfg.p cfg.R (if maxIncl then .le else .lt) (qmax / posDen))
      | none =>
        let (mn, b) := maxMin cfg.p b posLb false
        match mn with
        | some (qmin, minIncl) => b.setIv v (buildC cfg.p cfg.R (if minIncl then .ge else .gt) (qmin / posDen))
        | none => b.setIv v (Iv.universe cfg.p)

/-- `unconstrain(Variable)` (Box_inlines.hh:555) -/
def unconstrain (cfg : Cfg) (b : Box) (v : Nat) : Box :=
  if b.markedEmpty then b
  else if isEmpty cfg.p (b.get v) then b.setEmpty
  else b.setIv v (Iv.universe cfg.p)

/-- `unconstrain(const Variables_Set&)` (Box_templates.hh:1643); `vars` in increasing order -/
def unconstrainSet (cfg : Cfg) (b : Box) (vars : List Nat) : Box :=
  if vars.isEmpty then b
  else if b.markedEmpty then b
  else
    let rec go : List Nat → Box → Box
      | [], b => b
      | v :: vs, b =>
        if !isEmpty cfg.p (b.get v) then go vs (b.setIv v (Iv.universe cfg.p))
        else b.setEmpty
    go vars b

/-! ## lattice operations and dimensions -/

def zipIv (f : Iv → Iv → Iv) : List Iv → List Iv → List Iv
  | x :: xs, y :: ys => f x y :: zipIv f xs ys
  | xs, _ => xs

/-- `intersection_assign(y)` (Box_templates.hh:1929) -/
def intersectionAssign (cfg : Cfg) (x y : Box) : Box :=
  if x.markedEmpty then x
  else if y.markedEmpty then x.setEmpty
  else if x.dim == 0 then x
  else { x.resetEmptyUpToDate with seq := zipIv (intersectAssign cfg.p cfg.R) x.seq y.seq }

/-- `upper_bound_assign(y)` (Box_templates.hh:1966) -/
def upperBoundAssign (cfg : Cfg) (x y : Box) : Box :=
  let (ey, y) := y.isEmptyQ cfg.p
  if ey then x
  else
    let (ex, x) := x.isEmptyQ cfg.p
    if ex then y
    else { x with seq := zipIv (joinAssign cfg.p cfg.R) x.seq y.seq }

/-- the counting loop of `difference_assign` (from the last dimension down, at most two) -/
def nonContained (p : Policy) (xs ys : List Iv) : List Nat :=
  let idx := (List.range xs.length).reverse
  let bad := idx.filter (fun i => !contains p (ys.getD i Iv.empty) (xs.getD i Iv.empty))
  bad.take 2

/-- `difference_assign(y)` (Box_templates.hh:2038) -/
def differenceAssign (cfg : Cfg) (x y : Box) : Box :=
  let (ex, x) := x.isEmptyQ cfg.p
  if ex then x
  else
    let (ey, _) := y.isEmptyQ cfg.p
    if ey then x
    else match x.dim with
      | 0 => x.setEmpty
      | 1 =>
        let I := PPLV.Interval.differenceAssign cfg.p cfg.R (x.get 0) (y.get 0)
        let x := x.setIv 0 I
        if isEmpty cfg.p I then x.setEmpty else x
      | _ =>
        match nonContained cfg.p x.seq y.seq with
        | [] => x.setEmpty
        | [i] =>
          let I := PPLV.Interval.differenceAssign cfg.p cfg.R (x.get i) (y.get i)
          let x := x.setIv i I
          if isEmpty cfg.p I then x.setEmpty else x
        | _ => x

/-- `concatenate_assign(y)` (Box_templates.hh:1992) -/
def concatenateAssign (x y : Box) : Box :=
  let x := if y.markedEmpty then x.setEmpty else x
  if y.dim == 0 then x
  else if x.markedEmpty then { x with seq := x.seq ++ List.replicate y.dim Iv.empty }
  else
    let x := { x with seq := x.seq ++ y.seq }
    if !y.utd then x.resetEmptyUpToDate else x

/-- `remove_higher_space_dimensions(new_dimension)` (Box_templates.hh:2286) -/
def removeHigherSpaceDimensions (cfg : Cfg) (b : Box) (nd : Nat) : Box :=
  if nd == b.dim then b
  else
    let (_, b) := b.isEmptyQ cfg.p
    { b with seq := b.seq.take nd }

/-- `is_universe()` of an interval (Interval_defs.hh:221, `is_domain_inf` / `is_domain_sup`) for the modelled
instantiations (`store_special`, or a floating boundary type) -/
def isUniverseIv (p : Policy) (I : Iv) : Bool :=
  isBoundaryInfinity p .lower I.lo && isBoundaryInfinity p .upper I.hi

/-- one half of `bounded_affine_preimage` (lines 3518–3555 / 3557–3594): `bnd` is the stored finite bound of
`var` (value, reported openness), `other` the *other* bound expression with its coefficient `oc` of `var`,
`lower = true` for the block of the lower bound (which minimizes), `false` for the upper bound (maximizes).
`none` = the GMP division by zero (`q.canonicalize()` with a zero denominator, KF-C03-1) -/
def bapHalf (cfg : Cfg) (b : Box) (v : Nat) (lower : Bool) (bnd : Rat) (bopen : Bool) (other : LinExpr) (oc : Int)
    (den : Int) : Option (Box × Bool) :=
  let negDen := decide (den < 0)
  let posDen : Int := if negDen then -den else den
  -- numer = q.num * pos_denominator ; denom = ± q.den
  let numer : Int := bnd.num * posDen
  let denom : Int := if negDen then -(bnd.den : Int) else (bnd.den : Int)
  -- revised = (other - oc*var) * (-denom) + numer
  let revised := ((other.sub (LinExpr.var oc v)).scale (-denom)).add (LinExpr.const numer)
  let (ext, b) := maxMin cfg.p b revised (!lower)
  match ext with
  | none => some (b, false)
  | some (m, included) =>
    -- denom *= (ext_denom * oc); q = ext_numer / denom
    let d : Int := denom * ((m.den : Int) * oc)
    if d == 0 then none
    else
      let q : Rat := (m.num : Rat) / (d : Rat)
      let opn := bopen || !included
      let up := if oc ≥ 0 then !negDen else negDen
      let rel : Rel :=
        if lower then (if up then (if opn then .gt else .ge) else (if opn then .lt else .le))
        else (if up then (if opn then .lt else .le) else (if opn then .gt else .ge))
      let I := addConstraintIv cfg.p cfg.R (b.get v) rel q
      let b := b.setIv v I
      if isEmpty cfg.p I then some (b.setEmpty, true) else some (b, false)

/-- `bounded_affine_preimage(var, lb_expr, ub_expr, denominator)` (Box_templates.hh:3426); `none` = the
process dies with SIGFPE -/
def boundedAffinePreimage (cfg : Cfg) (b : Box) (v : Nat) (lb ub : LinExpr) (den : Int) : Option Box :=
  if b.markedEmpty then some b
  else
    let lbc := lb.coeff v
    let ubc := ub.coeff v
    let b := if lbc == ubc then
        (if den < 0 then refineWithConstraint cfg b (conGe lb ub) else refineWithConstraint cfg b (conLe lb ub))
      else b
    let final (b : Box) : Box :=
      if lbc != ubc then
        (if den > 0 then refineWithConstraint cfg b (conLe lb ub) else refineWithConstraint cfg b (conGe lb ub))
      else b
    let I := b.get v
    if isUniverseIv cfg.p I then some (final b)
    else
      let openLower := isOpen cfg.p .lower I.lo
      let unbLower := isBoundaryInfinity cfg.p .lower I.lo
      let I1 := if unbLower then I else lowerExtend cfg.p I
      let openUpper := isOpen cfg.p .upper I1.hi
      let unbUpper := isBoundaryInfinity cfg.p .upper I1.hi
      let I2 := if unbUpper then I1 else upperExtend cfg.p I1
      let b := b.setIv v I2
      let step1 : Option (Box × Bool) :=
        if unbLower then some (b, false)
        else match I.lo.value with
          | fin l => bapHalf cfg b v true l openLower ub ubc den
          | _ => some (b, false)
      match step1 with
      | none => none
      | some (b, true) => some b
      | some (b, false) =>
        let step2 : Option (Box × Bool) :=
          if unbUpper then some (b, false)
          else match I.hi.value with
            | fin u => bapHalf cfg b v false u openUpper lb lbc den
            | _ => some (b, false)
        match step2 with
        | none => none
        | some (b, true) => some b
        | some (b, false) => some (final b)

end PPLV.WR.BoxT
