import PPLV.WR.BoxTransProofsBase
/-!
# C03 stage 4 — `Box<ITV>`: emptiness query, `unconstrain`, lattice operations, dimensions

Soundness (the result contains what the exact operation contains) of
`is_empty()`, `unconstrain`, `intersection_assign`, `upper_bound_assign`, `difference_assign`,
`concatenate_assign`, `remove_higher_space_dimensions`, for every policy and every sound
directed rounding.
-/
set_option linter.unusedVariables false
namespace PPLV.WR.BoxT
open PPLV.Interval
open PPLV.Interval.ExtRat (ninf fin pinf)

/-! ## helpers -/

theorem lat_get_eq_getElem (b : Box) {k : Nat} (hk : k < b.seq.length) : b.get k = b.seq[k] := by
  simp [Box.get, List.getD, hk]

/-- the universe interval contains every rational (same statement as `mem_universe` of
`BoxTransProofsRefine.lean`; kept under another name so that both files can be imported) -/
theorem lat_universe_mem (p : Policy) (a : Rat) : (Iv.universe p).mem p a := by
  simp [Iv.universe, Iv.mem, lowerOk, upperOk, setUnbounded, infOf]

theorem lat_mem_congr {p : Policy} {b : Box} {x y : Nat → Rat} (h : ∀ k, k < b.seq.length → y k = x k)
    (hx : b.mem p x) : b.mem p y :=
  ⟨hx.1, fun k hk => by rw [h k hk]; exact hx.2 k hk⟩

/-- the sequence is never changed by the emptiness query -/
theorem lat_isEmptyQ_seq (p : Policy) (b : Box) : (b.isEmptyQ p).2.seq = b.seq := by
  unfold Box.isEmptyQ Box.checkEmpty
  split_ifs <;> simp [Box.setEmpty, Box.setNonempty]

/-- what a `false` answer of `is_empty()` means -/
theorem lat_isEmptyQ_false {p : Policy} {b : Box} (h : (b.isEmptyQ p).1 = false) :
    b.markedEmpty = false ∧ (b.seq.any fun I => isEmpty p I) = false ∧
      (b.isEmptyQ p).2.markedEmpty = false := by
  unfold Box.isEmptyQ Box.checkEmpty at h ⊢
  cases hm : b.markedEmpty
  · simp only [hm, Bool.false_eq_true, if_false] at h ⊢
    cases ha : (b.seq.any fun I => isEmpty p I)
    · simp [Box.setNonempty, Box.markedEmpty]
    · simp [ha] at h
  · simp [hm] at h

/-- what a `true` answer of `is_empty()` means -/
theorem lat_isEmptyQ_true {p : Policy} {b : Box} (h : (b.isEmptyQ p).1 = true) :
    (b.isEmptyQ p).2.markedEmpty = true := by
  unfold Box.isEmptyQ Box.checkEmpty at h ⊢
  cases hm : b.markedEmpty
  · simp only [hm, Bool.false_eq_true, if_false] at h ⊢
    cases ha : (b.seq.any fun I => isEmpty p I)
    · simp [ha] at h
    · simp [Box.setEmpty, Box.markedEmpty]
  · simp [hm]

/-! ## `is_empty()` -/

/-- `is_empty()` answering `true` is right -/
theorem Box.isEmptyQ_true_sound {p : Policy} {b : Box} (h : (b.isEmptyQ p).1 = true) :
    ∀ x, ¬ b.mem p x := by
  intro x hx
  rw [(Box.isEmptyQ_of_mem hx).1] at h
  simp at h

/-- `is_empty()` answering `false` is right when every interval has its bounds on their own
sides (what every interval built by the library satisfies) -/
theorem Box.isEmptyQ_false_complete {p : Policy} {b : Box}
    (hOK : ∀ I ∈ b.seq, I.lo.value ≠ pinf ∧ I.hi.value ≠ ninf)
    (h : (b.isEmptyQ p).1 = false) : ∃ x, b.mem p x := by
  obtain ⟨hm, hany, _⟩ := lat_isEmptyQ_false h
  rw [List.any_eq_false] at hany
  have hex : ∀ k, ∃ a : Rat, k < b.seq.length → (b.get k).mem p a := by
    intro k
    by_cases hk : k < b.seq.length
    · have hI : b.seq[k] ∈ b.seq := List.getElem_mem hk
      have he : isEmpty p b.seq[k] = false := by simpa using hany _ hI
      obtain ⟨a, ha⟩ := lt_upper_lower_false (hOK _ hI).1 (hOK _ hI).2 he
      exact ⟨a, fun _ => by rw [lat_get_eq_getElem b hk]; exact ha⟩
    · exact ⟨0, fun h => absurd h hk⟩
  choose x hx using hex
  exact ⟨x, hm, hx⟩

/-! ## `unconstrain` -/

theorem unconstrain_sound {cfg : Cfg} {b : Box} {x : Nat → Rat} {v : Nat}
    (hv : v < b.dim) (hx : b.mem cfg.p x) (y : Rat) :
    (unconstrain cfg b v).mem cfg.p (upd x v y) := by
  unfold unconstrain
  rw [hx.1, isEmpty_of_mem (hx.2 v hv)]
  simp only [Bool.false_eq_true, if_false]
  exact Box.mem_setIv hx (lat_universe_mem _ _)

theorem unconstrainSet_go_sound {cfg : Cfg} {y : Nat → Rat} :
    ∀ (vars : List Nat) (b : Box) (x : Nat → Rat), (∀ v ∈ vars, v < b.dim) → b.mem cfg.p x →
      (∀ k, k ∉ vars → y k = x k) → (unconstrainSet.go cfg vars b).mem cfg.p y := by
  intro vars
  induction vars with
  | nil =>
    intro b x _ hx hy
    simp only [unconstrainSet.go]
    exact lat_mem_congr (fun k _ => hy k (by simp)) hx
  | cons v vs ih =>
    intro b x hvars hx hy
    simp only [unconstrainSet.go]
    have hv : v < b.dim := hvars v (by simp)
    rw [isEmpty_of_mem (hx.2 v hv)]
    simp only [Bool.not_false, if_true]
    apply ih (b.setIv v (Iv.universe cfg.p)) (upd x v (y v))
    · intro w hw
      have := hvars w (by simp [hw])
      simpa [Box.dim] using this
    · exact Box.mem_setIv hx (lat_universe_mem _ _)
    · intro k hk
      by_cases hkv : k = v
      · subst hkv; simp
      · rw [upd_other x _ hkv]; exact hy k (by simp [hkv, hk])

theorem unconstrainSet_sound {cfg : Cfg} {b : Box} {x y : Nat → Rat} {vars : List Nat}
    (hvars : ∀ v ∈ vars, v < b.dim) (hx : b.mem cfg.p x) (hy : ∀ k, k ∉ vars → y k = x k) :
    (unconstrainSet cfg b vars).mem cfg.p y := by
  unfold unconstrainSet
  cases vars with
  | nil =>
    simp only [List.isEmpty_nil, if_true]
    exact lat_mem_congr (fun k _ => hy k (by simp)) hx
  | cons v vs =>
    simp only [List.isEmpty_cons, Bool.false_eq_true, if_false, hx.1]
    exact unconstrainSet_go_sound _ b x hvars hx hy

/-! ## `zipIv` -/

@[simp] theorem lat_zipIv_length (f : Iv → Iv → Iv) (xs ys : List Iv) : (zipIv f xs ys).length = xs.length := by
  induction xs generalizing ys with
  | nil => simp [zipIv]
  | cons a as ih => cases ys <;> simp [zipIv, ih]

theorem lat_zipIv_getD (f : Iv → Iv → Iv) : ∀ (xs ys : List Iv) (k : Nat), k < xs.length → k < ys.length →
    (zipIv f xs ys).getD k Iv.empty = f (xs.getD k Iv.empty) (ys.getD k Iv.empty) := by
  intro xs
  induction xs with
  | nil => intro ys k hk; simp at hk
  | cons a as ih =>
    intro ys k hk hk2
    cases ys with
    | nil => simp at hk2
    | cons c cs =>
      cases k with
      | zero => simp [zipIv]
      | succ k =>
        simp only [zipIv, List.getD_cons_succ]
        exact ih cs k (by simpa using hk) (by simpa using hk2)

/-! ## `intersection_assign`, `upper_bound_assign` -/

theorem intersectionAssign_sound {cfg : Cfg} {b1 b2 : Box} {x : Nat → Rat} (hS : cfg.Sound)
    (hdim : b1.dim = b2.dim) (h1 : b1.mem cfg.p x) (h2 : b2.mem cfg.p x) :
    (intersectionAssign cfg b1 b2).mem cfg.p x := by
  unfold intersectionAssign
  rw [h1.1, h2.1]
  simp only [Bool.false_eq_true, if_false]
  split_ifs with h0
  · exact h1
  · refine ⟨by simp [Box.resetEmptyUpToDate, Box.markedEmpty], ?_⟩
    intro k hk
    simp only [lat_zipIv_length] at hk
    have hk2 : k < b2.seq.length := by unfold Box.dim at hdim; omega
    show ((zipIv (intersectAssign cfg.p cfg.R) b1.seq b2.seq).getD k Iv.empty).mem cfg.p (x k)
    rw [lat_zipIv_getD _ _ _ _ hk hk2]
    exact intersectAssign_encloses hS.R (h1.2 k hk) (h2.2 k hk2)

theorem upperBoundAssign_sound {cfg : Cfg} {b1 b2 : Box} {x : Nat → Rat} (hS : cfg.Sound)
    (hdim : b1.dim = b2.dim) (h : b1.mem cfg.p x ∨ b2.mem cfg.p x) :
    (upperBoundAssign cfg b1 b2).mem cfg.p x := by
  unfold upperBoundAssign
  simp only []
  cases hey : (b2.isEmptyQ cfg.p).1
  · simp only [Bool.false_eq_true, if_false]
    cases hex : (b1.isEmptyQ cfg.p).1
    · simp only [Bool.false_eq_true, if_false]
      obtain ⟨_, _, hm1⟩ := lat_isEmptyQ_false hex
      refine ⟨by simpa [Box.markedEmpty] using hm1, ?_⟩
      intro k hk
      simp only [lat_zipIv_length, lat_isEmptyQ_seq] at hk
      have hk2 : k < b2.seq.length := by unfold Box.dim at hdim; omega
      show ((zipIv (joinAssign cfg.p cfg.R) (b1.isEmptyQ cfg.p).2.seq (b2.isEmptyQ cfg.p).2.seq).getD k
        Iv.empty).mem cfg.p (x k)
      rw [lat_isEmptyQ_seq, lat_isEmptyQ_seq, lat_zipIv_getD _ _ _ _ hk hk2]
      apply joinAssign_encloses hS.R
      rcases h with h | h
      · exact Or.inl (h.2 k hk)
      · exact Or.inr (h.2 k hk2)
    · simp only [if_true]
      rcases h with h | h
      · exact absurd h (Box.isEmptyQ_true_sound hex x)
      · exact (Box.isEmptyQ_of_mem h).2.1
  · simp only [if_true]
    rcases h with h | h
    · exact h
    · exact absurd h (Box.isEmptyQ_true_sound hey x)

/-! ## `difference_assign` -/

theorem lat_take2_nil {l : List Nat} (h : l.take 2 = []) : l = [] := by
  cases l with
  | nil => rfl
  | cons a as => simp at h

theorem lat_take2_singleton {l : List Nat} {i : Nat} (h : l.take 2 = [i]) : l = [i] := by
  match l, h with
  | [a], h => simpa using h
  | a :: c :: as, h => simp at h

theorem lat_mem_nonContained_bad {p : Policy} {xs ys : List Iv} {k : Nat} (hk : k < xs.length)
    (hc : contains p (ys.getD k Iv.empty) (xs.getD k Iv.empty) = false) :
    k ∈ ((List.range xs.length).reverse.filter
      (fun i => !contains p (ys.getD i Iv.empty) (xs.getD i Iv.empty))) := by
  rw [List.mem_filter]
  exact ⟨by simp [hk], by rw [hc]; rfl⟩

/-- a point outside a box that is neither marked nor detected empty misses one interval -/
theorem lat_exists_not_mem_coord {p : Policy} {b : Box} {x : Nat → Rat} (hm : b.markedEmpty = false)
    (h : ¬ b.mem p x) : ∃ k, k < b.seq.length ∧ ¬ (b.get k).mem p (x k) := by
  by_contra hc
  apply h
  refine ⟨hm, fun k hk => ?_⟩
  by_contra hk2
  exact hc ⟨k, hk, hk2⟩

theorem differenceAssign_sound {cfg : Cfg} {b1 b2 : Box} {x : Nat → Rat} (hS : cfg.Sound)
    (hdim : b1.dim = b2.dim) (h1 : b1.mem cfg.p x) (h2 : ¬ b2.mem cfg.p x) :
    (differenceAssign cfg b1 b2).mem cfg.p x := by
  unfold differenceAssign
  simp only []
  obtain ⟨he1, hm1, hs1⟩ := Box.isEmptyQ_of_mem h1
  rw [he1]
  simp only [Bool.false_eq_true, if_false]
  cases hey : (b2.isEmptyQ cfg.p).1
  swap
  · simpa using hm1
  simp only [Bool.false_eq_true, if_false]
  obtain ⟨hmy, _, _⟩ := lat_isEmptyQ_false hey
  obtain ⟨k, hk, hkn⟩ := lat_exists_not_mem_coord hmy h2
  generalize hb : (b1.isEmptyQ cfg.p).2 = b at hm1 hs1 ⊢
  have hlen : b.seq.length = b2.seq.length := by rw [hs1]; exact hdim
  have hkb : k < b.seq.length := by omega
  -- the coordinate `k` lies in the interval difference
  have hdiff : (PPLV.Interval.differenceAssign cfg.p cfg.R (b.get k) (b2.get k)).mem cfg.p (x k) :=
    differenceAssign_encloses hS.R (hm1.2 k hkb) hkn
  have hfin : ∀ i, i = k →
      (if isEmpty cfg.p (PPLV.Interval.differenceAssign cfg.p cfg.R (b.get i) (b2.get i)) = true then
        (b.setIv i (PPLV.Interval.differenceAssign cfg.p cfg.R (b.get i) (b2.get i))).setEmpty
      else b.setIv i (PPLV.Interval.differenceAssign cfg.p cfg.R (b.get i) (b2.get i))).mem cfg.p x := by
    intro i hi
    subst hi
    rw [isEmpty_of_mem hdiff]
    simp only [Bool.false_eq_true, if_false]
    exact Box.mem_setIv_self hm1 hdiff
  split
  · rename_i hd
    unfold Box.dim at hd; omega
  · rename_i hd
    apply hfin
    unfold Box.dim at hd; omega
  · split
    · rename_i hnc
      exfalso
      have hbad := lat_take2_nil hnc
      by_cases hc : contains cfg.p (b2.seq.getD k Iv.empty) (b.seq.getD k Iv.empty) = true
      · exact hkn (contains_sound hc (hm1.2 k hkb))
      · have := lat_mem_nonContained_bad (p := cfg.p) (ys := b2.seq) hkb (by simpa using hc)
        rw [hbad] at this
        simp at this
    · rename_i i hnc
      apply hfin
      have hbad := lat_take2_singleton hnc
      by_cases hc : contains cfg.p (b2.seq.getD k Iv.empty) (b.seq.getD k Iv.empty) = true
      · exact absurd (contains_sound hc (hm1.2 k hkb)) hkn
      · have := lat_mem_nonContained_bad (p := cfg.p) (ys := b2.seq) hkb (by simpa using hc)
        rw [hbad] at this
        exact (List.mem_singleton.1 this).symm
    · exact hm1

/-! ## `concatenate_assign`, `remove_higher_space_dimensions` -/

theorem concatenateAssign_sound {p : Policy} {b1 b2 : Box} {x y : Nat → Rat}
    (h1 : b1.mem p x) (h2 : b2.mem p y) :
    (concatenateAssign b1 b2).mem p (fun k => if k < b1.dim then x k else y (k - b1.dim)) := by
  unfold concatenateAssign
  simp only [h2.1, Bool.false_eq_true, if_false]
  split_ifs with h0 hm hu
  · exact lat_mem_congr (fun k hk => by simp [Box.dim, hk]) h1
  · rw [h1.1] at hm; simp at hm
  · refine ⟨by simp [Box.resetEmptyUpToDate, Box.markedEmpty], ?_⟩
    intro k hk
    show ((b1.seq ++ b2.seq).getD k Iv.empty).mem p _
    simp only [Box.resetEmptyUpToDate, List.length_append] at hk
    by_cases hk1 : k < b1.seq.length
    · simp only [Box.dim, hk1, if_true]
      have := h1.2 k hk1
      simpa [Box.get, List.getD, List.getElem?_append_left hk1] using this
    · simp only [Box.dim, hk1, if_false]
      have hk2 : k - b1.seq.length < b2.seq.length := by omega
      have := h2.2 _ hk2
      simpa [Box.get, List.getD, List.getElem?_append_right (Nat.le_of_not_lt hk1)] using this
  · refine ⟨by simpa [Box.markedEmpty] using h1.1, ?_⟩
    intro k hk
    show ((b1.seq ++ b2.seq).getD k Iv.empty).mem p _
    simp only [List.length_append] at hk
    by_cases hk1 : k < b1.seq.length
    · simp only [Box.dim, hk1, if_true]
      have := h1.2 k hk1
      simpa [Box.get, List.getD, List.getElem?_append_left hk1] using this
    · simp only [Box.dim, hk1, if_false]
      have hk2 : k - b1.seq.length < b2.seq.length := by omega
      have := h2.2 _ hk2
      simpa [Box.get, List.getD, List.getElem?_append_right (Nat.le_of_not_lt hk1)] using this

theorem removeHigherSpaceDimensions_sound {cfg : Cfg} {b : Box} {x : Nat → Rat} {nd : Nat}
    (hnd : nd ≤ b.dim) (hx : b.mem cfg.p x) :
    (removeHigherSpaceDimensions cfg b nd).mem cfg.p x := by
  unfold removeHigherSpaceDimensions
  split_ifs with h0
  · exact hx
  · obtain ⟨_, hm, hs⟩ := Box.isEmptyQ_of_mem hx
    refine ⟨by simpa [Box.markedEmpty] using hm.1, ?_⟩
    intro k hk
    simp only [hs, List.length_take] at hk
    have hk1 : k < nd := by omega
    have hk2 : k < b.seq.length := by omega
    show (((b.isEmptyQ cfg.p).2.seq.take nd).getD k Iv.empty).mem cfg.p (x k)
    rw [hs]
    have := hx.2 k hk2
    simpa [Box.get, List.getD, List.getElem?_take, hk1] using this

/-- the emptiness detection before the intervals are dropped: an undetected-empty box stays
empty when the contradictory interval is removed -/
theorem removeHigherSpaceDimensions_empty {cfg : Cfg} {b : Box} {nd : Nat}
    (hnd : nd < b.dim) (he : ∃ I ∈ b.seq, isEmpty cfg.p I = true) :
    (removeHigherSpaceDimensions cfg b nd).markedEmpty = true := by
  unfold removeHigherSpaceDimensions
  have h0 : (nd == b.dim) = false := by simpa using Nat.ne_of_lt hnd
  rw [h0]
  simp only [Bool.false_eq_true, if_false]
  have hany : (b.seq.any fun I => isEmpty cfg.p I) = true := by
    rw [List.any_eq_true]; exact he
  show ((b.isEmptyQ cfg.p).2.utd && (b.isEmptyQ cfg.p).2.empty) = true
  unfold Box.isEmptyQ Box.checkEmpty
  rw [hany]
  cases hm : b.markedEmpty
  · simp [Box.setEmpty]
  · simpa [Box.markedEmpty] using hm

/-! ## non-vacuity -/

/-- the rational box `[0,1] × (−∞,+∞)` -/
def latExBox : Box := ⟨[⟨⟨fin 0, false⟩, ⟨fin 1, false⟩⟩, Iv.universe Policy.rational], false, true⟩

theorem latExBox_mem : latExBox.mem Policy.rational (fun _ => 1/2) := by
  refine ⟨rfl, ?_⟩
  intro k hk
  have : k = 0 ∨ k = 1 := by simp [latExBox] at hk; omega
  rcases this with rfl | rfl
  · simp [latExBox, Box.get, Iv.mem, lowerOk, upperOk]; norm_num
  · exact lat_universe_mem _ _

example : (unconstrain Cfg.mpq latExBox 0).mem Policy.rational (upd (fun _ => 1/2) 0 7) :=
  unconstrain_sound (cfg := Cfg.mpq) (by decide) latExBox_mem 7

example : (intersectionAssign Cfg.mpq latExBox latExBox).mem Policy.rational (fun _ => 1/2) :=
  intersectionAssign_sound (cfg := Cfg.mpq) Cfg.mpq_sound rfl latExBox_mem latExBox_mem

example : (upperBoundAssign Cfg.mpq latExBox latExBox).mem Policy.rational (fun _ => 1/2) :=
  upperBoundAssign_sound (cfg := Cfg.mpq) Cfg.mpq_sound rfl (Or.inl latExBox_mem)

/-- the hypothesis of `removeHigherSpaceDimensions_empty` on a box whose only contradictory
interval is the one dropped -/
example : (removeHigherSpaceDimensions Cfg.mpq
    ⟨[Iv.universe Policy.rational, Iv.empty], false, false⟩ 1).markedEmpty = true :=
  removeHigherSpaceDimensions_empty (cfg := Cfg.mpq) (by decide) ⟨Iv.empty, by simp, by decide⟩

example : (Box.isEmptyQ Policy.rational latExBox).1 = false := by decide

example : (unconstrainSet Cfg.mpq latExBox [0]).mem Policy.rational (upd (fun _ => 1/2) 0 7) :=
  unconstrainSet_sound (cfg := Cfg.mpq) (by decide) latExBox_mem
    (by intro k hk; exact upd_other _ _ (by simpa using hk))

/-- `[2,3] × (−∞,+∞)`: the point `(1/2, 1/2)` of `latExBox` is outside -/
def latExBox2 : Box := ⟨[⟨⟨fin 2, false⟩, ⟨fin 3, false⟩⟩, Iv.universe Policy.rational], false, true⟩

example : (differenceAssign Cfg.mpq latExBox latExBox2).mem Policy.rational (fun _ => 1/2) :=
  differenceAssign_sound (cfg := Cfg.mpq) Cfg.mpq_sound rfl latExBox_mem (by
    intro h
    have := (h.2 0 (by decide)).1
    simp [latExBox2, Box.get, lowerOk] at this
    norm_num at this)

example : ∃ z, (concatenateAssign latExBox latExBox).mem Policy.rational z :=
  ⟨_, concatenateAssign_sound latExBox_mem latExBox_mem⟩

example : (removeHigherSpaceDimensions Cfg.mpq latExBox 1).mem Policy.rational (fun _ => 1/2) :=
  removeHigherSpaceDimensions_sound (cfg := Cfg.mpq) (by decide) latExBox_mem

example : ∃ x, latExBox.mem Policy.rational x :=
  Box.isEmptyQ_false_complete (by
    intro I hI
    simp only [latExBox, List.mem_cons, List.not_mem_nil, or_false] at hI
    rcases hI with rfl | rfl <;> simp [Iv.universe, setUnbounded, infOf]) (by decide)

end PPLV.WR.BoxT
