import PPLV.WR.TransOct2LatProofsSem2
/-!
# Lattice / dimension operations of `Octagonal_Shape<T>`: expand_space_dimension (what the loops compute)
-/
set_option linter.unusedVariables false
namespace PPLV.WR
open ExtRat

/-- the body of the outer loop of `expand_space_dimension` -/
def octLatExpandStep (n var t : Nat) (m : Mat) : Mat :=
  let old_num_rows := 2 * n
  let n_var := 2 * var
  let i := old_num_rows + 2 * t
  let ci := i + 1
  let m := m.set i ci (m n_var (n_var + 1))
  let m := m.set ci i (m (n_var + 1) n_var)
  let m := loopUp n_var (fun j m =>
    let m := m.set i j (m n_var j)
    m.set ci j (m (n_var + 1) j)) m
  loopUp (old_num_rows - (n_var + 2)) (fun s m =>
    let j := n_var + 2 + s
    let cj := cidx j
    let m := m.set i j (m cj (n_var + 1))
    m.set ci j (m cj n_var)) m

theorem octLatExpandLoop_eq (n var k : Nat) (m : Mat) :
    octLatExpandLoop n var k m = loopUp k (octLatExpandStep n var) m := rfl

theorem octLatExpandA_apply (i nv c : Nat) (hi : nv + 1 < i) (S : Mat) (a b : Nat) :
    loopUp c (fun j m =>
      let m := m.set i j (m nv j)
      m.set (i + 1) j (m (nv + 1) j)) S a b
      = if a = i ∧ b < c then S nv b else if a = i + 1 ∧ b < c then S (nv + 1) b else S a b := by
  induction c generalizing a b with
  | zero => simp only [loopUp]; rw [if_neg (by omega), if_neg (by omega)]
  | succ c ih =>
    simp only [loopUp]
    generalize loopUp c _ S = T at ih ⊢
    simp only [Mat.set_apply, ih]
    split_ifs <;> first | rfl | omega | simp_all

theorem octLatExpandB_apply (i nv lo c : Nat) (hi : ∀ s, s < c → cidx (lo + s) < i) (S : Mat) (a b : Nat) :
    loopUp c (fun s m =>
      let j := lo + s
      let cj := cidx j
      let m := m.set i j (m cj (nv + 1))
      m.set (i + 1) j (m cj nv)) S a b
      = if a = i ∧ lo ≤ b ∧ b < lo + c then S (cidx b) (nv + 1)
        else if a = i + 1 ∧ lo ≤ b ∧ b < lo + c then S (cidx b) nv else S a b := by
  induction c generalizing a b with
  | zero => simp only [loopUp]; rw [if_neg (by omega), if_neg (by omega)]
  | succ c ih =>
    simp only [loopUp]
    have ih' := ih (fun s hs => hi s (by omega))
    generalize loopUp c _ S = T at ih' ⊢
    have hc := hi c (by omega)
    simp only [Mat.set_apply, ih']
    split_ifs <;> first | rfl | omega | simp_all

theorem octLatExpandStep_apply (n var t : Nat) (hvar : var < n) (S : Mat) (a b : Nat) :
    octLatExpandStep n var t S a b
      = if a = 2 * n + 2 * t then
          (if b = 2 * n + 2 * t + 1 then S (2 * var) (2 * var + 1)
           else if b < 2 * var then S (2 * var) b
           else if 2 * var + 2 ≤ b ∧ b < 2 * n then S (cidx b) (2 * var + 1) else S a b)
        else if a = 2 * n + 2 * t + 1 then
          (if b = 2 * n + 2 * t then S (2 * var + 1) (2 * var)
           else if b < 2 * var then S (2 * var + 1) b
           else if 2 * var + 2 ≤ b ∧ b < 2 * n then S (cidx b) (2 * var) else S a b)
        else S a b := by
  unfold octLatExpandStep
  dsimp only
  rw [octLatExpandB_apply (2 * n + 2 * t) (2 * var) (2 * var + 2) (2 * n - (2 * var + 2))
    (by intro s hs; unfold cidx; split <;> omega)]
  have hcb : b < 2 * n → cidx b < 2 * n := by
    intro hb; unfold cidx; split <;> omega
  simp only [octLatExpandA_apply (2 * n + 2 * t) (2 * var) (2 * var) (by omega)]
  simp only [Mat.set_apply]
  generalize cidx b = cb at hcb ⊢
  grind

/-- the cell `(a, b)` of a new row of `expand_space_dimension`, from the old rows of `m` -/
def octLatExpandCell (n var : Nat) (m : Mat) (a b : Nat) : ExtRat :=
  if a % 2 = 0 then
    (if b = a + 1 then m (2 * var) (2 * var + 1)
     else if b < 2 * var then m (2 * var) b
     else if 2 * var + 2 ≤ b ∧ b < 2 * n then m (cidx b) (2 * var + 1) else m a b)
  else
    (if b + 1 = a then m (2 * var + 1) (2 * var)
     else if b < 2 * var then m (2 * var + 1) b
     else if 2 * var + 2 ≤ b ∧ b < 2 * n then m (cidx b) (2 * var) else m a b)

theorem octLatExpandLoop_apply (n var k : Nat) (hvar : var < n) (m : Mat) (a b : Nat) :
    octLatExpandLoop n var k m a b
      = if 2 * n ≤ a ∧ a < 2 * n + 2 * k then octLatExpandCell n var m a b else m a b := by
  rw [octLatExpandLoop_eq]
  have hQ : ∀ t S, (∀ a' b', a' < 2 * n → S a' b' = m a' b') →
      ∀ a' b', a' < 2 * n → octLatExpandStep n var t S a' b' = m a' b' := by
    intro t S hS a' b' ha'
    rw [octLatExpandStep_apply n var t hvar, if_neg (by omega), if_neg (by omega)]
    exact hS a' b' ha'
  split
  · rename_i ha
    have hcb : b < 2 * n → cidx b < 2 * n := by
      intro hb; unfold cidx; split <;> omega
    refine latLoopUp_cell (fun S : Mat => S a b)
      (fun S => (∀ a' b', a' < 2 * n → S a' b' = m a' b') ∧ S a b = m a b) (k0 := (a - 2 * n) / 2)
      ⟨fun _ _ _ => rfl, rfl⟩ ?_ (by omega) ?_ ?_
    · intro t S ht hne hS
      refine ⟨hQ t S hS.1, ?_⟩
      rw [octLatExpandStep_apply n var t hvar, if_neg (by omega), if_neg (by omega)]
      exact hS.2
    · intro S hS
      show octLatExpandStep n var ((a - 2 * n) / 2) S a b = _
      rw [octLatExpandStep_apply n var _ hvar]
      unfold octLatExpandCell
      by_cases hpar : a % 2 = 0
      · rw [if_pos (by omega), if_pos hpar]
        have e : 2 * n + 2 * ((a - 2 * n) / 2) + 1 = a + 1 := by omega
        rw [e, hS.1 _ _ (by omega), hS.2]
        by_cases hb : 2 * var + 2 ≤ b ∧ b < 2 * n
        · rw [hS.1 _ _ (hcb hb.2), hS.1 _ _ (by omega)]
        · rw [if_neg hb, if_neg hb]
          split
          · rfl
          · split
            · exact hS.1 _ _ (by omega)
            · rfl
      · rw [if_neg (by omega), if_pos (by omega), if_neg hpar]
        by_cases hb0 : b + 1 = a
        · rw [if_pos (by omega), if_pos hb0]; exact hS.1 _ _ (by omega)
        · rw [if_neg (by omega), if_neg hb0, hS.2]
          by_cases hb : 2 * var + 2 ≤ b ∧ b < 2 * n
          · rw [hS.1 _ _ (hcb hb.2), hS.1 (2 * var + 1) b (by omega)]
          · rw [if_neg hb, if_neg hb]
            split
            · exact hS.1 _ _ (by omega)
            · rfl
    · intro t S ht hne
      show octLatExpandStep n var t S a b = S a b
      rw [octLatExpandStep_apply n var t hvar, if_neg (by omega), if_neg (by omega)]
  · rename_i ha
    refine latLoopUp_frame (fun S : Mat => S a b) ?_
    intro t S ht
    show octLatExpandStep n var t S a b = S a b
    rw [octLatExpandStep_apply n var t hvar, if_neg (by omega), if_neg (by omega)]

end PPLV.WR
