import PPLV.WR.Trans2LatProofsLoops
/-!
# Lattice / dimension operations of `BD_Shape<T>`: intersection, upper bound (soundness), embed, project,
concatenate, remove_higher (soundness)
-/
set_option linter.unusedVariables false
namespace PPLV.WR
open ExtRat

theorem latGammaB_congr {n : Nat} {m : Mat} {x y : Nat → Rat} (h : ∀ i, i < n → x i = y i)
    (hx : x ∈ γB n m) : y ∈ γB n m := by
  have hv : ∀ a, a ≤ n → DBM.val y a = DBM.val x a := by
    intro a ha
    cases a with
    | zero => rfl
    | succ a => simp only [DBM.val]; exact (h a (by omega)).symm
  intro a b hab
  rw [hv a (by have := hab.1; omega), hv b (by have := hab.2; omega)]
  exact hx a b hab

theorem latGammaB_mono {n : Nat} {m m' : Mat} (h : ∀ a b, a ≤ n → b ≤ n → m a b ≤ m' a b)
    {x : Nat → Rat} (hx : x ∈ γB n m) : x ∈ γB n m' := by
  intro a b hab
  exact le_trans' (hx a b hab) (h a b (by have := hab.1; omega) (by have := hab.2; omega))

theorem latGammaB_restrict {n k : Nat} (hk : k ≤ n) {m : Mat} {x : Nat → Rat} (hx : x ∈ γB n m) :
    x ∈ γB k m := by
  intro a b hab
  exact hx a b ⟨by have := hab.1; omega, by have := hab.2; omega⟩

/-! ## `intersection_assign` -/

theorem bdsLatIntersection_sound (R : Rnd) (n : Nat) (c1 c2 : Bool) (m1 m2 : Mat) {x : Nat → Rat}
    (h1 : x ∈ γB n m1) (h2 : x ∈ γB n m2) :
    ∃ r, bdsLatIntersection R n c1 m1 c2 m2 = some r ∧ r.dim = n ∧ x ∈ γB n r.m := by
  unfold bdsLatIntersection
  split
  · exact ⟨_, rfl, rfl, h1⟩
  · refine ⟨_, rfl, rfl, ?_⟩
    intro a b hab
    show _ ≤ (bdsLatIntersectionLoop n m1 m2).1 a b
    rw [bdsLatIntersectionLoop_apply, if_pos ⟨hab.1, hab.2⟩]
    exact le_minA (h1 a b hab) (h2 a b hab)

/-- `intersection_assign` is exact for every bound type: no arithmetic is performed -/
theorem bdsLatIntersection_exact (R : Rnd) (n : Nat) (c1 c2 : Bool) (m1 m2 : Mat) (hd2 : bdsLatDiag n m2) :
    ∃ r, bdsLatIntersection R n c1 m1 c2 m2 = some r ∧ r.dim = n ∧
      ∀ x, x ∈ γB n r.m ↔ (x ∈ γB n m1 ∧ x ∈ γB n m2) := by
  unfold bdsLatIntersection
  split
  · rename_i hn
    subst hn
    refine ⟨_, rfl, rfl, fun x => ⟨fun h => ⟨h, ?_⟩, fun h => h.1⟩⟩
    intro a b hab
    have ha : a = 0 := by have := hab.1; omega
    have hb : b = 0 := by have := hab.2; omega
    subst ha; subst hb
    rw [hd2 0 (le_refl _)]; exact le_pinf _
  · refine ⟨_, rfl, rfl, fun x => ⟨fun h => ⟨?_, ?_⟩, fun h => ?_⟩⟩
    · intro a b hab
      have := h a b hab
      change _ ≤ (bdsLatIntersectionLoop n m1 m2).1 a b at this
      rw [bdsLatIntersectionLoop_apply, if_pos ⟨hab.1, hab.2⟩] at this
      exact le_trans' this (minA_le_left _ _)
    · intro a b hab
      have := h a b hab
      change _ ≤ (bdsLatIntersectionLoop n m1 m2).1 a b at this
      rw [bdsLatIntersectionLoop_apply, if_pos ⟨hab.1, hab.2⟩] at this
      exact le_trans' this (minA_le_right _ _)
    · intro a b hab
      show _ ≤ (bdsLatIntersectionLoop n m1 m2).1 a b
      rw [bdsLatIntersectionLoop_apply, if_pos ⟨hab.1, hab.2⟩]
      exact le_minA (h.1 a b hab) (h.2 a b hab)

/-! ## `upper_bound_assign` -/

theorem bdsLatUpperBoundLoop_left {n : Nat} {x y : Mat} {p : Nat → Rat} (h : p ∈ γB n x) :
    p ∈ γB n (bdsLatUpperBoundLoop n x y) := by
  intro a b hab
  rw [bdsLatUpperBoundLoop_apply, if_pos ⟨hab.1, hab.2⟩]
  exact le_trans' (h a b hab) (latMaxA_ge_left _ _)

theorem bdsLatUpperBoundLoop_right {n : Nat} {x y : Mat} {p : Nat → Rat} (h : p ∈ γB n y) :
    p ∈ γB n (bdsLatUpperBoundLoop n x y) := by
  intro a b hab
  rw [bdsLatUpperBoundLoop_apply, if_pos ⟨hab.1, hab.2⟩]
  exact le_trans' (h a b hab) (latMaxA_ge_right _ _)

theorem bdsLatUpperBound_sound {R : Rnd} (hR : R.Sound) (n : Nat) (c1 c2 : Bool) (m1 m2 : Mat)
    {x : Nat → Rat} (h : x ∈ γB n m1 ∨ x ∈ γB n m2) :
    ∃ r, bdsLatUpperBound R n c1 m1 c2 m2 = some r ∧ r.dim = n ∧ x ∈ γB n r.m := by
  unfold bdsLatUpperBound
  rcases h with h | h
  · obtain ⟨x', cx, e1, hx'⟩ := bdsLatClose_sound hR.up_le n c1 m1 h
    cases e2 : bdsLatClose R.up n c2 m2 with
    | none => exact ⟨_, rfl, rfl, h⟩
    | some yc =>
      obtain ⟨y, cy⟩ := yc
      simp only [e1]
      exact ⟨_, rfl, rfl, bdsLatUpperBoundLoop_left hx'⟩
  · obtain ⟨y, cy, e2, hy⟩ := bdsLatClose_sound hR.up_le n c2 m2 h
    simp only [e2]
    cases e1 : bdsLatClose R.up n c1 m1 with
    | none => exact ⟨_, rfl, rfl, hy⟩
    | some xc =>
      obtain ⟨x', cx⟩ := xc
      exact ⟨_, rfl, rfl, bdsLatUpperBoundLoop_right hy⟩

/-! ## `add_space_dimensions_and_embed`, `add_space_dimensions_and_project` -/

theorem bdsLatGrow_gamma (n k : Nat) (m : Mat) (z : Nat → Rat) :
    z ∈ γB (n + k) (bdsLatGrow (n + 1) m) ↔ z ∈ γB n m := by
  constructor
  · intro h a b hab
    have := h a b ⟨by have := hab.1; omega, by have := hab.2; omega⟩
    simp only [bdsLatGrow] at this
    rw [if_pos ⟨hab.1, hab.2⟩] at this
    exact this
  · intro h a b hab
    simp only [bdsLatGrow]
    split
    · rename_i hc; exact h a b hc
    · exact le_pinf _

/-- `add_space_dimensions_and_embed(k)`: the new coordinates are unconstrained (every bound type) -/
theorem bdsLatEmbed_spec (R : Rnd) (n : Nat) (c : Bool) (m : Mat) (k : Nat) :
    ∃ r, bdsLatEmbed R n c m k = some r ∧ r.dim = n + k ∧ ∀ z, z ∈ γB (n + k) r.m ↔ z ∈ γB n m := by
  unfold bdsLatEmbed
  split
  · rename_i hk; subst hk
    exact ⟨_, rfl, rfl, fun z => Iff.rfl⟩
  · exact ⟨_, rfl, rfl, fun z => bdsLatGrow_gamma n k m z⟩

theorem latVal_zero {z : Nat → Rat} {n k : Nat} (hz : ∀ i, n ≤ i → i < n + k → z i = 0) {a : Nat}
    (h1 : n + 1 ≤ a) (h2 : a ≤ n + k) : DBM.val z a = 0 := by
  cases a with
  | zero => rfl
  | succ a => simp only [DBM.val]; exact hz a (by omega) (by omega)

/-- `add_space_dimensions_and_project(k)`: the new coordinates are `0` (every bound type) -/
theorem bdsLatProject_spec (R : Rnd) (n : Nat) (c : Bool) (m : Mat) (k : Nat) :
    ∃ r, bdsLatProject R n c m k = some r ∧ r.dim = n + k ∧
      ∀ z, z ∈ γB (n + k) r.m ↔ (z ∈ γB n m ∧ ∀ i, n ≤ i → i < n + k → z i = 0) := by
  unfold bdsLatProject
  split
  · rename_i hk; subst hk
    exact ⟨_, rfl, rfl, fun z => ⟨fun h => ⟨h, fun i h1 h2 => by omega⟩, fun h => h.1⟩⟩
  · rename_i hk
    split
    · rename_i hn; subst hn
      refine ⟨_, rfl, by simp, fun z => ?_⟩
      simp only [Nat.zero_add]
      constructor
      · intro h
        have cell : ∀ a b, a ≤ k → b ≤ k → fin (DBM.val z b - DBM.val z a) ≤
            (if a ≠ b then fin 0 else bdsLatGrow 1 m a b) := by
          intro a b ha hb
          have := h a b ⟨by omega, by omega⟩
          rw [bdsLatProjectLoop0_apply, if_pos ⟨by omega, by omega⟩] at this
          exact this
        constructor
        · intro a b hab
          have ha : a = 0 := by have := hab.1; omega
          have hb : b = 0 := by have := hab.2; omega
          subst ha; subst hb
          have := cell 0 0 (by omega) (by omega)
          simpa [bdsLatGrow] using this
        · intro i _ hi
          have h1 := cell 0 (i+1) (by omega) (by omega)
          have h2 := cell (i+1) 0 (by omega) (by omega)
          rw [if_pos (by omega)] at h1 h2
          simp only [DBM.val, fin_le_fin] at h1 h2
          linarith
      · intro h a b hab
        rw [bdsLatProjectLoop0_apply, if_pos ⟨hab.1, hab.2⟩]
        have hz : ∀ a, a ≤ k → DBM.val z a = 0 := by
          intro a ha
          cases a with
          | zero => rfl
          | succ a => simp only [DBM.val]; exact h.2 a (by omega) (by omega)
        rw [hz a (by have := hab.1; omega), hz b (by have := hab.2; omega)]
        split
        · simp
        · rename_i hab'
          simp only [bdsLatGrow]
          split
          · rename_i hc
            have ha : a = 0 := by omega
            have hb : b = 0 := by omega
            subst ha; subst hb
            have := h.1 0 0 ⟨by omega, by omega⟩
            simpa using this
          · exact le_pinf _
    · rename_i hn
      refine ⟨_, rfl, rfl, fun z => ?_⟩
      have key : ∀ a b, (loopUp k (fun t m => (m.set (n + 1 + t) 0 (fin 0)).set 0 (n + 1 + t) (fin 0))
          (bdsLatGrow (n + 1) m)) a b
          = if (b = 0 ∧ n + 1 ≤ a ∧ a < n + 1 + k) ∨ (a = 0 ∧ n + 1 ≤ b ∧ b < n + 1 + k) then fin 0
            else bdsLatGrow (n+1) m a b := bdsLatProjectLoop_apply n k _
      constructor
      · intro h
        constructor
        · intro a b hab
          have := h a b ⟨by have := hab.1; omega, by have := hab.2; omega⟩
          rw [key, if_neg (by have := hab.1; have := hab.2; omega)] at this
          simp only [bdsLatGrow] at this
          rw [if_pos ⟨hab.1, hab.2⟩] at this
          exact this
        · intro i h1 h2
          have e1 := h 0 (i+1) ⟨by omega, by omega⟩
          have e2 := h (i+1) 0 ⟨by omega, by omega⟩
          rw [key, if_pos (by omega)] at e1 e2
          simp only [DBM.val, fin_le_fin] at e1 e2
          linarith
      · intro h a b hab
        rw [key]
        split
        · rename_i hc
          rcases hc with ⟨rfl, h1, h2⟩ | ⟨rfl, h1, h2⟩
          · rw [latVal_zero h.2 h1 (by omega)]; simp [DBM.val]
          · rw [latVal_zero h.2 h1 (by omega)]; simp [DBM.val]
        · simp only [bdsLatGrow]
          split
          · rename_i hc; exact h.1 a b hc
          · exact le_pinf _

/-! ## `remove_higher_space_dimensions` (soundness) -/

theorem bdsLatRemoveHigher_sound {R : Rnd} (hR : R.Sound) (n : Nat) (c : Bool) (m : Mat) (newDim : Nat)
    (hnd : newDim ≤ n) {x : Nat → Rat} (hx : x ∈ γB n m) :
    ∃ r, bdsLatRemoveHigher R n c m newDim = some r ∧ r.dim = newDim ∧ x ∈ γB newDim r.m := by
  unfold bdsLatRemoveHigher
  split
  · rename_i h; subst h; exact ⟨_, rfl, rfl, hx⟩
  · obtain ⟨m', c', e, hx'⟩ := bdsLatClose_sound hR.up_le n c m hx
    simp only [e]
    exact ⟨_, rfl, rfl, latGammaB_restrict hnd hx'⟩

end PPLV.WR
