import PPLV.WR.TransOct2LhsProofsImage
import PPLV.WR.TransOct2ProofsPre
/-!
# `Octagonal_Shape<T>::generalized_affine_preimage(lhs, relsym, rhs)`: the delegate and the whole function

The delegate `generalized_affine_preimage(v, relsym', rhs - b_lhs, a)` goes through the private
`refine(var, relsym, expr, den)`, whose `GREATER_OR_EQUAL` / `pinf_count == 1` branch writes the wrong cell
(`Octagonal_Shape_templates.hh:5111`, open finding KF-C03-75/76): A's `octGenAffinePreimage_sound` excludes it
by `relsym' ≠ ≥ ∨ ∀ u > v, rhs_u ≠ a`, and so does the `t_lhs == 1` case here (`LhsDelegateOK`).
-/
set_option linter.unusedVariables false
set_option linter.unusedSimpArgs false
namespace PPLV.WR
open ExtRat

/-- `lhs == a*v + b`: the delegate `generalized_affine_preimage(v, relsym', rhs - b_lhs, a)` -/
theorem octLhsPre_t1_sound {R : Rnd} (hR : R.Sound) {n : Nat} (rel : RelSym) {el er : Nat → Int} (bl br : Int)
    (h1 : exprT el (lastNonzero el n) = 1) (hc : CoeffExact R er)
    (hcd : R.up ((absI (el (lastNonzero el n - 1)) : Int) : Rat) = fin ((absI (el (lastNonzero el n - 1)) : Int) : Rat))
    (hok : lhsNewRelSym rel (el (lastNonzero el n - 1)) ≠ .ge ∨
      ∀ u, lastNonzero el n - 1 < u → er u ≠ el (lastNonzero el n - 1))
    {m : Mat} (hh : HalfFiniteOn R.up m) {x x' : Nat → Rat} (hx' : x' ∈ γO n m)
    (hag : ∀ i, i < n → el i = 0 → x' i = x i)
    (hrel : rel.holds (linEval el x' n + bl) (linEval er x n + br)) :
    ∃ m', octLhsGenAffinePreimageCore R n rel el bl er br m = some m' ∧ x ∈ γO n m' := by
  obtain ⟨hw0, ha0, hz⟩ := lhs_t1_zero h1
  obtain ⟨_, hval⟩ := linEval_t1 x' h1
  have hwn := lastNonzero_le el n
  have hj : lastNonzero el n - 1 < n := by omega
  rw [hval] at hrel
  have hnew := lhs_newRel_holds ha0 hrel
  have hcong : ∀ i, i < n → upd x (lastNonzero el n - 1) (x' (lastNonzero el n - 1)) i = x' i := by
    intro i hi
    unfold upd
    split
    · rename_i h; rw [h]
    · rename_i h; exact (hag i hi (hz i hi h)).symm
  have hx'' := octLhs_holds_congr hcong hx'
  obtain ⟨m', hm', hx2⟩ := octGenAffinePreimage_sound hR (OctM.ofMat n m) true hj
    (lhsNewRelSym rel (el (lastNonzero el n - 1))) (e := er) (b := br - bl) ha0 hc hcd (octLhs_hh_ofMat hh) hok
    x _ (octLhs_mem_ofMat hx'') hnew
  refine ⟨m', ?_, hx2⟩
  unfold octLhsGenAffinePreimageCore
  dsimp only [lhsForm]
  rw [if_neg (by omega), if_pos h1]
  exact hm'

/-- every branch of `generalized_affine_preimage(lhs, relsym, rhs)` after the strong closure -/
theorem octLhsGenAffinePreimageCore_sound {R : Rnd} (hR : R.Sound) {n : Nat} (rel : RelSym) {el er : Nat → Int}
    (bl br : Int) (hel : ∀ i, n ≤ i → el i = 0) (her : ∀ i, n ≤ i → er i = 0)
    (hc1 : exprT el (lastNonzero el n) = 1 → CoeffExact R er ∧
      R.up ((absI (el (lastNonzero el n - 1)) : Int) : Rat) = fin ((absI (el (lastNonzero el n - 1)) : Int) : Rat) ∧
      (lhsNewRelSym rel (el (lastNonzero el n - 1)) ≠ .ge ∨
        ∀ u, lastNonzero el n - 1 < u → er u ≠ el (lastNonzero el n - 1)))
    (hc2 : exprT el (lastNonzero el n) = 2 →
      lhsHaveCommonVar el er (min (lhsSpaceDim el n) (lhsSpaceDim er n)) = true → CoeffExact R el)
    {m : Mat}
    (hh : exprT el (lastNonzero el n) = 1 ∨ (exprT el (lastNonzero el n) = 2 ∧
      lhsHaveCommonVar el er (min (lhsSpaceDim el n) (lhsSpaceDim er n)) = true) → HalfFiniteOn R.up m)
    {x x' : Nat → Rat} (hx' : x' ∈ γO n m)
    (hag : ∀ i, i < n → el i = 0 → x' i = x i)
    (hrel : rel.holds (linEval el x' n + bl) (linEval er x n + br)) :
    ∃ m', octLhsGenAffinePreimageCore R n rel el bl er br m = some m' ∧ x ∈ γO n m' := by
  by_cases h0 : exprT el (lastNonzero el n) = 0
  · exact octLhsPre_t0_sound hR rel bl br h0 hx' hag hrel
  · by_cases h1 : exprT el (lastNonzero el n) = 1
    · exact octLhsPre_t1_sound hR rel bl br h1 (hc1 h1).1 (hc1 h1).2.1 (hc1 h1).2.2 (hh (Or.inl h1)) hx' hag hrel
    · cases hcom : lhsHaveCommonVar el er (min (lhsSpaceDim el n) (lhsSpaceDim er n)) with
      | false => exact octLhsPre_disjoint_sound hR rel bl br h0 h1 hcom hx' hag hrel
      | true =>
        have h2 : exprT el (lastNonzero el n) = 2 := by
          unfold exprT at h0 h1 ⊢
          split_ifs at h0 h1 ⊢ <;> first | rfl | omega
        have := octLhsPreimageNewDim_sound hR rel bl br hel her (hc2 h2 hcom) (hh (Or.inr ⟨h2, hcom⟩)) hx' hag hrel
        unfold octLhsGenAffinePreimageCore
        dsimp only [lhsForm]
        rw [if_neg h0, if_neg h1, hcom]
        simpa using this

theorem octLhsGenAffinePreimage_sound {R : Rnd} (hR : R.Sound) {n : Nat} (m : OctM n) (closed : Bool)
    (rel : RelSym) {el er : Nat → Int} (bl br : Int) (hel : ∀ i, n ≤ i → el i = 0) (her : ∀ i, n ≤ i → er i = 0)
    (hc1 : exprT el (lastNonzero el n) = 1 → CoeffExact R er ∧
      R.up ((absI (el (lastNonzero el n - 1)) : Int) : Rat) = fin ((absI (el (lastNonzero el n - 1)) : Int) : Rat) ∧
      (lhsNewRelSym rel (el (lastNonzero el n - 1)) ≠ .ge ∨
        ∀ u, lastNonzero el n - 1 < u → er u ≠ el (lastNonzero el n - 1)))
    (hc2 : exprT el (lastNonzero el n) = 2 →
      lhsHaveCommonVar el er (min (lhsSpaceDim el n) (lhsSpaceDim er n)) = true → CoeffExact R el)
    (hh : exprT el (lastNonzero el n) = 1 ∨ (exprT el (lastNonzero el n) = 2 ∧
      lhsHaveCommonVar el er (min (lhsSpaceDim el n) (lhsSpaceDim er n)) = true) →
      ∀ m', octCloseFirst R.up closed m = some m' → HalfFiniteOn R.up m')
    {x x' : Nat → Rat} (hx' : x' ∈ OctM.γ m) (hag : ∀ i, i < n → el i = 0 → x' i = x i)
    (hrel : rel.holds (linEval el x' n + bl) (linEval er x n + br)) :
    ∃ m', octLhsGenAffinePreimage R closed rel el bl er br m = some m' ∧ x ∈ γO n m' := by
  obtain ⟨m1, h1, hx1⟩ := octCloseFirst_sound hR.up_le closed m hx'
  obtain ⟨m', hm', hx2⟩ := octLhsGenAffinePreimageCore_sound hR rel bl br hel her hc1 hc2
    (fun h => hh h m1 h1) hx1 hag hrel
  exact ⟨m', by simp [octLhsGenAffinePreimage, h1, hm'], hx2⟩

end PPLV.WR
