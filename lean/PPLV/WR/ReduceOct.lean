import PPLV.WR.Reduce
/-!
# `Octagonal_Shape<T>`: strong reduction, its readers, the exact-join test (executable model, no Mathlib)

Code-shaped models of (`/repo/src/Octagonal_Shape_templates.hh`)

* `compute_successors` (l. 2949), `compute_leaders(leaders)` (l. 2983),
  `compute_leaders(successor, no_sing_leaders, exist_sing_class, sing_leader)` (l. 3017),
* `non_redundant_matrix_entries` (l. 3087), `strong_reduction_assign` (l. 3046),
* `affine_dimension` (l. 1017), `constraints` (l. 7364), `minimized_constraints`
  (`Octagonal_Shape_inlines.hh` l. 392: `strong_reduction_assign(); return constraints();`),
* `upper_bound_assign_if_exact` (l. 7631): the test.

`matrix[i][j]` bounds `V_j − V_i` (`V_{2k} = x_k`, `V_{2k+1} = −x_k`); only `j < row_size(i)` is stored.  The
code reads raw rows (`m_i[j]`, `matrix[cj][ck]`, …): the model reads the same cells `m i j` of the lookup
function.  For exact `T` every such read is inside the stored part (the non-singular leaders come in
coherent pairs); for an inexact `T` the pairing can fail and the code reads beyond `no_sing_leaders`
(open finding KF-C03-61) — the model is tied and proved for exact arithmetic only (`up = upId`), where
`no_sing_leaders[lj]` is `getD … 0` and never takes the default.
In `non_redundant` bit `true` = *not redundant* (the opposite polarity of `BD_Shape::redundancy_dbm`).
-/
namespace PPLV.WR
open ExtRat (fin pinf addUp halfUp)

/-- the full (coherent) view of the pseudo-triangular matrix with a zero diagonal -/
def octFull (m : Mat) (i j : Nat) : ExtRat := if i = j then fin 0 else m.mAt i j

/-- executable form of `OctM.IsStronglyClosed` (`ReduceProofsBase.lean`): the full view with zero diagonal
satisfies the triangle inequality and strong coherence `m_ij ≤ (m_{i,ci} + m_{cj,j}) / 2` -/
def isStronglyClosedB (n : Nat) (m : Mat) : Bool :=
  (List.range (2 * n)).all fun i => (List.range (2 * n)).all fun j =>
    ((List.range (2 * n)).all fun k => decide (octFull m i j ≤ addUp fin (octFull m i k) (octFull m k j))) &&
    (i == j || decide (octFull m i j ≤ halfUp fin (addUp fin (octFull m i (cidx i)) (octFull m (cidx j) j))))

/-- `compute_successors` (l. 2949): `successor[j]` is the least `i > j` zero-equivalent to `j`
(`matrix[ci][cj] == -matrix[i][j]`), or `j` (the rows are visited downwards, a later, smaller `i` overwrites) -/
def octComputeSuccessors (rows : Nat) (m : Mat) : Vec :=
  loopDown rows (fun i successor =>
    let ci := cidx i
    loopUp i (fun j successor =>
      let cj := cidx j
      if ExtRat.isAddInv (m ci cj) (m i j) then successor.set j i else successor) successor) Vec.iota

/-- `compute_leaders(leaders)` (l. 2983) -/
def octComputeLeaders (rows : Nat) (m : Mat) : Vec :=
  loopUp rows (fun i leaders =>
    let ci := cidx i
    loopUp i (fun j leaders =>
      let cj := cidx j
      if ExtRat.isAddInv (m ci cj) (m i j) then leaders.set i (leaders j) else leaders) leaders) Vec.iota

/-- the outputs of the four-argument `compute_leaders` -/
structure OctLeaders where
  no_sing_leaders : List Nat := []
  exist_sing_class : Bool := false
  sing_leader : Nat := 0
  deriving Repr, DecidableEq

/-- `compute_leaders(successor, no_sing_leaders, exist_sing_class, sing_leader)` (l. 3017) -/
def octComputeLeaders4 (rows : Nat) (successor : Vec) : OctLeaders :=
  (loopUp rows (fun i (st : OctLeaders × BVec) =>
    let next_i := successor i
    let out :=
      if !st.2 i then
        if next_i = cidx i then { st.1 with exist_sing_class := true, sing_leader := i }
        else { st.1 with no_sing_leaders := st.1.no_sing_leaders ++ [i] }
      else st.1
    (out, st.2.set next_i true)) ({}, BVec.const false)).1

/-- `while (j != next_j) { non_redundant[next_j].set(j); j = next_j; next_j = successor[j]; }` (l. 3126):
the final `j` and the bits -/
def octChain (successor : Vec) : Nat → Nat → BMat → Option (BMat × Nat)
  | 0, _, _ => none
  | fuel+1, j, nr =>
    let next_j := successor j
    if j = next_j then some (nr, j) else octChain successor fuel next_j (nr.put next_j j true)

/-- `while (next_j != j + 1) { non_redundant[next_j].set(j); j = next_j; next_j = successor[j + 1]; }`
(l. 3206) -/
def octSingChain (successor : Vec) : Nat → Nat → BMat → Option (BMat × Nat)
  | 0, _, _ => none
  | fuel+1, j, nr =>
    let next_j := successor (j + 1)
    if next_j = j + 1 then some (nr, j) else octSingChain successor fuel next_j (nr.put next_j j true)

/-- the redundancy test of one `(i, j)` (l. 3139–3194): `true` = `non_redundant[i].set(j)` -/
def octToAdd (up : Rat → ExtRat) (m : Mat) (no_sing_leaders : List Nat) (i j : Nat) : Bool :=
  let ci := cidx i
  let cj := cidx j
  let m_i_j := m i j
  let m_i_ci := m i ci
  -- redundant by strong coherence
  if j ≠ ci && decide (halfUp up (addUp up m_i_ci (m cj j)) ≤ m_i_j) then false
  else
    -- redundant by strong closure
    !(no_sing_leaders.any fun k =>
      k ≠ i && k ≠ j &&
        (let ck := cidx k
         let tmp :=
           if k < j then addUp up (m i k) (m cj ck)                  -- case 1
           else if k < i then addUp up (m i k) (m k j)               -- case 2
           else addUp up (m ck ci) (m k j)                           -- case 3
         decide (tmp ≤ m_i_j)))

/-- `non_redundant_matrix_entries` (l. 3087) on a non-empty strongly closed matrix, `dim = space_dim ≥ 1` -/
def octNonRedundantMatrixEntries (up : Rat → ExtRat) (dim : Nat) (m : Mat) : Option BMat :=
  let rows := 2 * dim
  let successor := octComputeSuccessors rows m
  let L := octComputeLeaders4 rows successor
  let num_no_sing_leaders := L.no_sing_leaders.length
  -- Step 2: the non-singular leaders
  let step2 : Option BMat := loopUp num_no_sing_leaders (fun li (nr : Option BMat) =>
    nr.bind fun nr =>
      let i := L.no_sing_leaders.getD li 0
      let ci := cidx i
      let nr1 : Option BMat :=
        if i % 2 = 0 then
          if i ≠ successor i then
            (octChain successor (rows + 1) i nr).map fun (nr, j) => nr.put (cidx j) ci true
          else some nr
        else some nr
      nr1.map fun nr =>
        let rs_li := if li % 2 ≠ 0 then li else li + 1
        loopUp (rs_li + 1) (fun lj nr =>
          let j := L.no_sing_leaders.getD lj 0
          if octToAdd up m L.no_sing_leaders i j then nr.put i j true else nr) nr) (some (BMat.const false))
  -- the singular class
  step2.bind fun nr =>
    if L.exist_sing_class then
      let sing_leader := L.sing_leader
      let nr := nr.put sing_leader (sing_leader + 1) true
      if successor (sing_leader + 1) ≠ sing_leader + 1 then
        (octSingChain successor (rows + 1) sing_leader nr).map fun (nr, j) => nr.put (j + 1) j true
      else some (nr.put (sing_leader + 1) sing_leader true)
    else some nr

/-- the matrix left by `strong_reduction_assign` (l. 3046): redundant cells become `+∞` -/
def octReducedMat (m : Mat) (non_red : BMat) : Mat := { f := fun i j => if non_red i j then m i j else pinf }

def octStrongReduction (up : Rat → ExtRat) (dim : Nat) (m : Mat) : Option Mat :=
  (octNonRedundantMatrixEntries up dim m).map (octReducedMat m)

/-- `affine_dimension()` (l. 1017) of a non-empty strongly closed matrix -/
def octAffineDimension (dim : Nat) (m : Mat) : Nat :=
  let leaders := octComputeLeaders (2 * dim) m
  loopUp dim (fun h affine_dim =>
    let i := 2 * h
    if leaders i = i && leaders (i + 1) = i + 1 then affine_dim + 1 else affine_dim) 0

/-- `a*x_p ± a*x_q` in dimension `n` (variable ids) -/
def octCoeffs (n : Nat) (cp : Int) (p : Nat) (cq : Int) (q : Nat) : List Int :=
  (List.range n).map fun k => (if k = p then cp else 0) + (if k = q then cq else 0)

/-- `constraints()` (l. 7364) of a non-empty shape -/
def octConstraints (n : Nat) (m : Mat) : List LCon :=
  -- unary constraints
  let cs := loopUp n (fun h cs =>
    let i := 2 * h
    let c_i_ii := m i (i + 1)
    let c_ii_i := m (i + 1) i
    if ExtRat.isAddInv c_i_ii c_ii_i then
      cs ++ [⟨true, octCoeffs n (2 * denomOf c_ii_i) h 0 n, numerOf c_ii_i⟩]
    else
      let cs := if !c_i_ii.isPinf then cs ++ [⟨false, octCoeffs n (-(2 * denomOf c_i_ii)) h 0 n, numerOf c_i_ii⟩] else cs
      if !c_ii_i.isPinf then cs ++ [⟨false, octCoeffs n (2 * denomOf c_ii_i) h 0 n, numerOf c_ii_i⟩] else cs) []
  -- binary constraints: `y = Variable(i/2)`, `x = Variable(j/2)`
  loopUp n (fun h cs =>
    let i := 2 * h
    loopUp h (fun g cs =>
      let j := 2 * g
      let c_i_j := m i j
      let c_ii_jj := m (i + 1) (j + 1)
      let cs :=
        if ExtRat.isAddInv c_ii_jj c_i_j then
          cs ++ [⟨true, octCoeffs n (denomOf c_i_j) g (-(denomOf c_i_j)) h, numerOf c_i_j⟩]
        else
          let cs := if !c_i_j.isPinf then cs ++ [⟨false, octCoeffs n (denomOf c_i_j) g (-(denomOf c_i_j)) h, numerOf c_i_j⟩] else cs
          if !c_ii_jj.isPinf then cs ++ [⟨false, octCoeffs n (-(denomOf c_ii_jj)) g (denomOf c_ii_jj) h, numerOf c_ii_jj⟩] else cs
      let c_ii_j := m (i + 1) j
      let c_i_jj := m i (j + 1)
      if ExtRat.isAddInv c_i_jj c_ii_j then
        cs ++ [⟨true, octCoeffs n (denomOf c_ii_j) g (denomOf c_ii_j) h, numerOf c_ii_j⟩]
      else
        let cs := if !c_i_jj.isPinf then cs ++ [⟨false, octCoeffs n (-(denomOf c_i_jj)) g (-(denomOf c_i_jj)) h, numerOf c_i_jj⟩] else cs
        if !c_ii_j.isPinf then cs ++ [⟨false, octCoeffs n (denomOf c_ii_j) g (denomOf c_ii_j) h, numerOf c_ii_j⟩] else cs) cs) cs

/-- `minimized_constraints()` of a non-empty strongly closed shape -/
def octMinimizedConstraints (up : Rat → ExtRat) (n : Nat) (m : Mat) : Option (List LCon) :=
  (octStrongReduction up n m).map (octConstraints n)

/-! ## `upper_bound_assign_if_exact` (l. 7631): both arguments non-empty and strongly closed -/

/-- `true` = "the upper bound is exact" -/
def octUpperBoundIfExact (up : Rat → ExtRat) (dim : Nat) (x y : Mat) (x_non_red y_non_red : BMat) : Bool :=
  let ub := matMax x y
  let n_rows := 2 * dim
  (List.range n_rows).reverse.all fun i =>
    let ci := cidx i
    let row_size_i := rowSize i
    let ub_i_ci := ub i ci
    (List.range row_size_i).reverse.all fun j =>
      !x_non_red i j ||
      decide (y i j ≤ x i j) ||                                     -- 1st condition fails
      (let x_i_j := x i j
       let cj := cidx j
       let row_size_cj := rowSize cj
       let ub_cj_j := ub cj j
       (List.range n_rows).all fun k =>
         let ck := cidx k
         let row_size_k := rowSize k
         let ub_k_ck := ub k ck
         let ub_k_j := if k = j then fin 0 else if j < row_size_k then ub k j else ub cj ck
         let ub_i_ck := if i = ck then fin 0 else if ck < row_size_i then ub i ck else ub k ci
         (List.range row_size_k).reverse.all fun ell =>
           !y_non_red k ell ||
           decide (x k ell ≤ y k ell) ||                            -- 2nd condition fails
           (let y_k_ell := y k ell
            let cell := cidx ell
            let ub_i_ell := if i = ell then fin 0 else if ell < row_size_i then ub i ell else ub cell ci
            let ub_cj_ell := if cj = ell then fin 0 else if ell < row_size_cj then ub cj ell else ub cell j
            let lhs := addUp up x_i_j y_k_ell
            -- 3rd … 8th condition: `continue` as soon as one fails
            decide (addUp up ub_i_ell ub_k_j ≤ lhs) ||
            decide (addUp up ub_i_ck ub_cj_ell ≤ lhs) ||
            (let lhs_copy := lhs
             let lhs5 := addUp up lhs_copy x_i_j
             decide (addUp up (addUp up ub_i_ell ub_i_ck) ub_cj_j ≤ lhs5) ||
             decide (addUp up (addUp up ub_k_j ub_cj_ell) ub_i_ci ≤ lhs5) ||
             (let lhs7 := addUp up lhs_copy y_k_ell
              decide (addUp up (addUp up ub_i_ell ub_cj_ell) ub_k_ck ≤ lhs7) ||
              !(ExtRat.ltB lhs7 (addUp up (addUp up ub_k_j ub_i_ck) (ub cell ell)))))))

end PPLV.WR
