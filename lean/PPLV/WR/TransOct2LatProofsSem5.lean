import PPLV.WR.TransOct2LatProofsSem4
import PPLV.WR.Trans2LatProofsSem4
/-!
# Lattice / dimension operations of `Octagonal_Shape<T>`: fold_space_dimensions (soundness)
-/
set_option linter.unusedVariables false
namespace PPLV.WR
open ExtRat

theorem latMaxAt_infl (m : Mat) (a b c d : Nat) : MLe m (latMaxAt m a b c d) := latMLe_setMax m a b _

theorem latMaxAt_ge (m : Mat) (a b c d : Nat) : m c d ≤ latMaxAt m a b c d a b := by
  unfold latMaxAt
  simp only [Mat.set_apply, and_self, if_true]
  exact latMaxA_ge_right _ _

/-- four `max_assign`s in a row: entries only grow, and each target dominates its source -/
theorem latMax4_spec (m : Mat) (a1 b1 c1 d1 a2 b2 c2 d2 a3 b3 c3 d3 a4 b4 c4 d4 : Nat) :
    MLe m (latMaxAt (latMaxAt (latMaxAt (latMaxAt m a1 b1 c1 d1) a2 b2 c2 d2) a3 b3 c3 d3) a4 b4 c4 d4) ∧
    m c1 d1 ≤ (latMaxAt (latMaxAt (latMaxAt (latMaxAt m a1 b1 c1 d1) a2 b2 c2 d2) a3 b3 c3 d3) a4 b4 c4 d4) a1 b1 ∧
    m c2 d2 ≤ (latMaxAt (latMaxAt (latMaxAt (latMaxAt m a1 b1 c1 d1) a2 b2 c2 d2) a3 b3 c3 d3) a4 b4 c4 d4) a2 b2 ∧
    m c3 d3 ≤ (latMaxAt (latMaxAt (latMaxAt (latMaxAt m a1 b1 c1 d1) a2 b2 c2 d2) a3 b3 c3 d3) a4 b4 c4 d4) a3 b3 ∧
    m c4 d4 ≤ (latMaxAt (latMaxAt (latMaxAt (latMaxAt m a1 b1 c1 d1) a2 b2 c2 d2) a3 b3 c3 d3) a4 b4 c4 d4) a4 b4 := by
  set s1 := latMaxAt m a1 b1 c1 d1 with h1
  set s2 := latMaxAt s1 a2 b2 c2 d2 with h2
  set s3 := latMaxAt s2 a3 b3 c3 d3 with h3
  set s4 := latMaxAt s3 a4 b4 c4 d4 with h4
  have i1 : MLe m s1 := latMaxAt_infl _ _ _ _ _
  have i2 : MLe s1 s2 := latMaxAt_infl _ _ _ _ _
  have i3 : MLe s2 s3 := latMaxAt_infl _ _ _ _ _
  have i4 : MLe s3 s4 := latMaxAt_infl _ _ _ _ _
  refine ⟨latMLe_trans i1 (latMLe_trans i2 (latMLe_trans i3 i4)), ?_, ?_, ?_, ?_⟩
  · exact le_trans' (latMaxAt_ge m a1 b1 c1 d1) (le_trans' (i2 _ _) (le_trans' (i3 _ _) (i4 _ _)))
  · exact le_trans' (i1 _ _) (le_trans' (latMaxAt_ge s1 a2 b2 c2 d2) (le_trans' (i3 _ _) (i4 _ _)))
  · exact le_trans' (i1 _ _) (le_trans' (i2 _ _) (le_trans' (latMaxAt_ge s2 a3 b3 c3 d3) (i4 _ _)))
  · exact le_trans' (i1 _ _) (le_trans' (i2 _ _) (le_trans' (i3 _ _) (latMaxAt_ge s3 a4 b4 c4 d4)))

/-! ## the pieces of `octLatFoldOne` -/

def octLatFoldL1 (nd tv : Nat) (m : Mat) : Mat :=
  loopUp (min nd tv) (fun j m =>
    let cj := cidx j
    let m := latMaxAt m nd j tv j
    let m := latMaxAt m (nd + 1) j (tv + 1) j
    let m := latMaxAt m (nd + 1) cj (tv + 1) cj
    latMaxAt m nd cj tv cj) m

def octLatFoldL2 (nd tv : Nat) (m : Mat) : Mat :=
  loopUp (max nd tv - (min nd tv + 2)) (fun s m =>
    let j := min nd tv + 2 + s
    let cj := cidx j
    if nd = min nd tv then
      let m := latMaxAt m cj (nd + 1) tv j
      let m := latMaxAt m cj nd (tv + 1) j
      let m := latMaxAt m j nd (tv + 1) cj
      latMaxAt m j (nd + 1) tv cj
    else
      let m := latMaxAt m nd j cj (tv + 1)
      let m := latMaxAt m (nd + 1) j cj tv
      let m := latMaxAt m (nd + 1) cj j tv
      latMaxAt m nd cj j (tv + 1)) m

def octLatFoldL3 (n nd tv : Nat) (m : Mat) : Mat :=
  loopUp (2 * n - (max nd tv + 2)) (fun s m =>
    let j := max nd tv + 2 + s
    let cj := cidx j
    let m := latMaxAt m cj (nd + 1) cj (tv + 1)
    let m := latMaxAt m cj nd cj tv
    let m := latMaxAt m j nd j tv
    latMaxAt m j (nd + 1) j (tv + 1)) m

theorem octLatFoldOne_eq (n dest w : Nat) (m : Mat) :
    octLatFoldOne n dest w m
      = octLatFoldL3 n (2 * dest) (2 * w) (octLatFoldL2 (2 * dest) (2 * w) (octLatFoldL1 (2 * dest) (2 * w)
          (latMaxAt (latMaxAt m (2 * dest) (2 * dest + 1) (2 * w) (2 * w + 1)) (2 * dest + 1) (2 * dest)
            (2 * w + 1) (2 * w)))) := rfl

theorem octLatFoldL1_infl (nd tv : Nat) (m : Mat) : MLe m (octLatFoldL1 nd tv m) :=
  latLoopUp_infl (fun j m => (latMax4_spec m _ _ _ _ _ _ _ _ _ _ _ _ _ _ _ _).1) m

theorem octLatFoldL2_infl (nd tv : Nat) (m : Mat) : MLe m (octLatFoldL2 nd tv m) := by
  refine latLoopUp_infl (fun j m => ?_) m
  dsimp only
  split
  · exact (latMax4_spec m _ _ _ _ _ _ _ _ _ _ _ _ _ _ _ _).1
  · exact (latMax4_spec m _ _ _ _ _ _ _ _ _ _ _ _ _ _ _ _).1

theorem octLatFoldL3_infl (n nd tv : Nat) (m : Mat) : MLe m (octLatFoldL3 n nd tv m) :=
  latLoopUp_infl (fun j m => (latMax4_spec m _ _ _ _ _ _ _ _ _ _ _ _ _ _ _ _).1) m

theorem octLatFoldOne_infl (n dest w : Nat) (m : Mat) : MLe m (octLatFoldOne n dest w m) := by
  rw [octLatFoldOne_eq]
  exact latMLe_trans (latMaxAt_infl _ _ _ _ _) (latMLe_trans (latMaxAt_infl _ _ _ _ _)
    (latMLe_trans (octLatFoldL1_infl _ _ _) (latMLe_trans (octLatFoldL2_infl _ _ _) (octLatFoldL3_infl _ _ _ _))))

/-- the lower bounds that folding `w` into `dest` establishes on the rows and columns of `dest` -/
def octLatFoldBounds (n dest w : Nat) (m0 r : Mat) : Prop :=
  m0 (2 * w) (2 * w + 1) ≤ r (2 * dest) (2 * dest + 1) ∧ m0 (2 * w + 1) (2 * w) ≤ r (2 * dest + 1) (2 * dest) ∧
  (∀ b, b < 2 * dest → b < 2 * w → m0 (2 * w) b ≤ r (2 * dest) b ∧ m0 (2 * w + 1) b ≤ r (2 * dest + 1) b) ∧
  (∀ b, 2 * w + 2 ≤ b → b < 2 * dest →
    m0 (cidx b) (2 * w + 1) ≤ r (2 * dest) b ∧ m0 (cidx b) (2 * w) ≤ r (2 * dest + 1) b) ∧
  (∀ a, 2 * dest + 2 ≤ a → a < 2 * w →
    m0 (2 * w + 1) (cidx a) ≤ r a (2 * dest) ∧ m0 (2 * w) (cidx a) ≤ r a (2 * dest + 1)) ∧
  (∀ a, 2 * dest + 2 ≤ a → 2 * w + 2 ≤ a → a < 2 * n →
    m0 a (2 * w) ≤ r a (2 * dest) ∧ m0 a (2 * w + 1) ≤ r a (2 * dest + 1))

theorem octLatFoldBounds_mono {n dest w : Nat} {m0 r r' : Mat} (h : MLe r r')
    (hb : octLatFoldBounds n dest w m0 r) : octLatFoldBounds n dest w m0 r' := by
  obtain ⟨h1, h2, h3, h4, h5, h6⟩ := hb
  refine ⟨le_trans' h1 (h _ _), le_trans' h2 (h _ _), ?_, ?_, ?_, ?_⟩
  · intro b hb1 hb2; exact ⟨le_trans' (h3 b hb1 hb2).1 (h _ _), le_trans' (h3 b hb1 hb2).2 (h _ _)⟩
  · intro b hb1 hb2; exact ⟨le_trans' (h4 b hb1 hb2).1 (h _ _), le_trans' (h4 b hb1 hb2).2 (h _ _)⟩
  · intro a ha1 ha2; exact ⟨le_trans' (h5 a ha1 ha2).1 (h _ _), le_trans' (h5 a ha1 ha2).2 (h _ _)⟩
  · intro a ha1 ha2 ha3
    exact ⟨le_trans' (h6 a ha1 ha2 ha3).1 (h _ _), le_trans' (h6 a ha1 ha2 ha3).2 (h _ _)⟩

theorem octLatFoldOne_bounds (n dest w : Nat) (m0 s : Mat) (hs : MLe m0 s) :
    octLatFoldBounds n dest w m0 (octLatFoldOne n dest w s) := by
  rw [octLatFoldOne_eq]
  set nd := 2 * dest with hnd
  set tv := 2 * w with htv
  set s1 := latMaxAt s nd (nd + 1) tv (tv + 1) with hs1
  set s2 := latMaxAt s1 (nd + 1) nd (tv + 1) tv with hs2
  set s3 := octLatFoldL1 nd tv s2 with hs3
  set s4 := octLatFoldL2 nd tv s3 with hs4
  set s5 := octLatFoldL3 n nd tv s4 with hs5
  have i1 : MLe s s1 := latMaxAt_infl _ _ _ _ _
  have i2 : MLe s1 s2 := latMaxAt_infl _ _ _ _ _
  have i3 : MLe s2 s3 := octLatFoldL1_infl _ _ _
  have i4 : MLe s3 s4 := octLatFoldL2_infl _ _ _
  have i5 : MLe s4 s5 := octLatFoldL3_infl _ _ _ _
  have m2 : MLe m0 s2 := latMLe_trans hs (latMLe_trans i1 i2)
  have m3 : MLe m0 s3 := latMLe_trans m2 i3
  have m4 : MLe m0 s4 := latMLe_trans m3 i4
  refine ⟨?_, ?_, ?_, ?_, ?_, ?_⟩
  · exact le_trans' (hs _ _) (le_trans' (latMaxAt_ge s nd (nd + 1) tv (tv + 1))
      (latMLe_trans i2 (latMLe_trans i3 (latMLe_trans i4 i5)) _ _))
  · exact le_trans' (hs _ _) (le_trans' (i1 _ _) (le_trans' (latMaxAt_ge s1 (nd + 1) nd (tv + 1) tv)
      (latMLe_trans i3 (latMLe_trans i4 i5) _ _)))
  · intro b hb1 hb2
    have := latLoopUp_collect (n := min nd tv)
      (f := fun j m =>
        let cj := cidx j
        let m := latMaxAt m nd j tv j
        let m := latMaxAt m (nd + 1) j (tv + 1) j
        let m := latMaxAt m (nd + 1) cj (tv + 1) cj
        latMaxAt m nd cj tv cj)
      (fun j m => (latMax4_spec m _ _ _ _ _ _ _ _ _ _ _ _ _ _ _ _).1)
      (fun j S => m0 tv j ≤ S nd j ∧ m0 (tv + 1) j ≤ S (nd + 1) j)
      (fun j S S' hSS hp => ⟨le_trans' hp.1 (hSS _ _), le_trans' hp.2 (hSS _ _)⟩) m0
      (fun j S hj hS => by
        have sp := latMax4_spec S nd j tv j (nd + 1) j (tv + 1) j (nd + 1) (cidx j) (tv + 1) (cidx j)
          nd (cidx j) tv (cidx j)
        exact ⟨le_trans' (hS _ _) sp.2.1, le_trans' (hS _ _) sp.2.2.1⟩) s2 m2 b (by omega)
    have i45 := latMLe_trans i4 i5
    exact ⟨le_trans' this.1 (i45 _ _), le_trans' this.2 (i45 _ _)⟩
  · intro b hb1 hb2
    have hmin : min nd tv = tv := by omega
    have hmax : max nd tv = nd := by omega
    have hne : ¬ nd = min nd tv := by omega
    have := latLoopUp_collect (n := max nd tv - (min nd tv + 2))
      (f := fun s m =>
        let j := min nd tv + 2 + s
        let cj := cidx j
        if nd = min nd tv then
          let m := latMaxAt m cj (nd + 1) tv j
          let m := latMaxAt m cj nd (tv + 1) j
          let m := latMaxAt m j nd (tv + 1) cj
          latMaxAt m j (nd + 1) tv cj
        else
          let m := latMaxAt m nd j cj (tv + 1)
          let m := latMaxAt m (nd + 1) j cj tv
          let m := latMaxAt m (nd + 1) cj j tv
          latMaxAt m nd cj j (tv + 1))
      (fun j m => by
        dsimp only
        split
        · exact (latMax4_spec m _ _ _ _ _ _ _ _ _ _ _ _ _ _ _ _).1
        · exact (latMax4_spec m _ _ _ _ _ _ _ _ _ _ _ _ _ _ _ _).1)
      (fun s S => m0 (cidx (tv + 2 + s)) (tv + 1) ≤ S nd (tv + 2 + s) ∧
        m0 (cidx (tv + 2 + s)) tv ≤ S (nd + 1) (tv + 2 + s))
      (fun j S S' hSS hp => ⟨le_trans' hp.1 (hSS _ _), le_trans' hp.2 (hSS _ _)⟩) m0
      (fun s S hj hS => by
        dsimp only
        rw [if_neg hne, hmin]
        have sp := latMax4_spec S nd (tv + 2 + s) (cidx (tv + 2 + s)) (tv + 1) (nd + 1) (tv + 2 + s)
          (cidx (tv + 2 + s)) tv (nd + 1) (cidx (tv + 2 + s)) (tv + 2 + s) tv nd (cidx (tv + 2 + s))
          (tv + 2 + s) (tv + 1)
        exact ⟨le_trans' (hS _ _) sp.2.1, le_trans' (hS _ _) sp.2.2.1⟩) s3 m3 (b - (tv + 2)) (by omega)
    have e : tv + 2 + (b - (tv + 2)) = b := by omega
    rw [e] at this
    exact ⟨le_trans' this.1 (i5 _ _), le_trans' this.2 (i5 _ _)⟩
  · intro a ha1 ha2
    have hmin : min nd tv = nd := by omega
    have hmax : max nd tv = tv := by omega
    have heq : nd = min nd tv := by omega
    have := latLoopUp_collect (n := max nd tv - (min nd tv + 2))
      (f := fun s m =>
        let j := min nd tv + 2 + s
        let cj := cidx j
        if nd = min nd tv then
          let m := latMaxAt m cj (nd + 1) tv j
          let m := latMaxAt m cj nd (tv + 1) j
          let m := latMaxAt m j nd (tv + 1) cj
          latMaxAt m j (nd + 1) tv cj
        else
          let m := latMaxAt m nd j cj (tv + 1)
          let m := latMaxAt m (nd + 1) j cj tv
          let m := latMaxAt m (nd + 1) cj j tv
          latMaxAt m nd cj j (tv + 1))
      (fun j m => by
        dsimp only
        split
        · exact (latMax4_spec m _ _ _ _ _ _ _ _ _ _ _ _ _ _ _ _).1
        · exact (latMax4_spec m _ _ _ _ _ _ _ _ _ _ _ _ _ _ _ _).1)
      (fun s S => m0 (tv + 1) (cidx (nd + 2 + s)) ≤ S (nd + 2 + s) nd ∧
        m0 tv (cidx (nd + 2 + s)) ≤ S (nd + 2 + s) (nd + 1))
      (fun j S S' hSS hp => ⟨le_trans' hp.1 (hSS _ _), le_trans' hp.2 (hSS _ _)⟩) m0
      (fun s S hj hS => by
        dsimp only
        rw [if_pos heq, hmin]
        have sp := latMax4_spec S (cidx (nd + 2 + s)) (nd + 1) tv (nd + 2 + s) (cidx (nd + 2 + s)) nd (tv + 1)
          (nd + 2 + s) (nd + 2 + s) nd (tv + 1) (cidx (nd + 2 + s)) (nd + 2 + s) (nd + 1) tv
          (cidx (nd + 2 + s))
        exact ⟨le_trans' (hS _ _) sp.2.2.2.1, le_trans' (hS _ _) sp.2.2.2.2⟩) s3 m3 (a - (nd + 2)) (by omega)
    have e : nd + 2 + (a - (nd + 2)) = a := by omega
    rw [e] at this
    exact ⟨le_trans' this.1 (i5 _ _), le_trans' this.2 (i5 _ _)⟩
  · intro a ha1 ha2 ha3
    have := latLoopUp_collect (n := 2 * n - (max nd tv + 2))
      (f := fun s m =>
        let j := max nd tv + 2 + s
        let cj := cidx j
        let m := latMaxAt m cj (nd + 1) cj (tv + 1)
        let m := latMaxAt m cj nd cj tv
        let m := latMaxAt m j nd j tv
        latMaxAt m j (nd + 1) j (tv + 1))
      (fun j m => (latMax4_spec m _ _ _ _ _ _ _ _ _ _ _ _ _ _ _ _).1)
      (fun s S => m0 (max nd tv + 2 + s) tv ≤ S (max nd tv + 2 + s) nd ∧
        m0 (max nd tv + 2 + s) (tv + 1) ≤ S (max nd tv + 2 + s) (nd + 1))
      (fun j S S' hSS hp => ⟨le_trans' hp.1 (hSS _ _), le_trans' hp.2 (hSS _ _)⟩) m0
      (fun s S hj hS => by
        have sp := latMax4_spec S (cidx (max nd tv + 2 + s)) (nd + 1) (cidx (max nd tv + 2 + s)) (tv + 1)
          (cidx (max nd tv + 2 + s)) nd (cidx (max nd tv + 2 + s)) tv (max nd tv + 2 + s) nd
          (max nd tv + 2 + s) tv (max nd tv + 2 + s) (nd + 1) (max nd tv + 2 + s) (tv + 1)
        exact ⟨le_trans' (hS _ _) sp.2.2.2.1, le_trans' (hS _ _) sp.2.2.2.2⟩) s4 m4
      (a - (max nd tv + 2)) (by omega)
    have e : max nd tv + 2 + (a - (max nd tv + 2)) = a := by omega
    rw [e] at this
    exact this

end PPLV.WR
