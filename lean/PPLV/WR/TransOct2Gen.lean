import PPLV.WR.TransOct2
/-!
# Octagonal_Shape<T>: `generalized_affine_image(var, …)`, `bounded_affine_image`, `affine_preimage`,
`generalized_affine_preimage(var, …)` (executable model, no Mathlib)

Code-shaped models of (`/repo/src/Octagonal_Shape_templates.hh`, as it is in the tree NOW):

* `generalized_affine_image(var, relsym, expr, denominator)`   (`:6016-6529`)
* `bounded_affine_image(var, lb_expr, ub_expr, denominator)`   (`:6730-7025`)
* `affine_preimage(var, expr, denominator)`                    (`:5904-6011`)
* `generalized_affine_preimage(var, relsym, expr, denominator)`(`:7031-7111`)

Every function starts with `strong_closure_assign()` (`octCloseFirst`: a no-op when the shape is marked
strongly closed); afterwards the shape IS marked closed, so the closure at the head of a nested public call
(`affine_image`, `generalized_affine_image`) is a no-op and the nested call is the `…Core` function.  Where the
code tests the strongly-closed flag later (`incremental_strong_closure_assign`, `strong_closure_assign`,
`is_empty()`, `remove_higher_space_dimensions`) the flag is modelled (`…F` functions).
`none` = the shape is marked empty afterwards.
-/
set_option linter.unusedVariables false
namespace PPLV.WR
open ExtRat (fin pinf minA addUp subUp halfUp)

/-! ## `generalized_affine_image(var, relsym, expr, denominator)` -/

/-- `expr == ±denominator*var + b` (`:6137-6176`, `:6209-6247`); `d` is `div_round_up(b, denominator)`
(`LESS_OR_EQUAL`) or `div_round_up(b, minus_denom)` (`GREATER_OR_EQUAL`) -/
def octGenTranslate (R : Rnd) (n vid : Nat) (isLe : Bool) (plus : Bool) (d : ExtRat) (m : Mat) : Mat :=
  let n_var := 2 * vid
  if plus then
    -- `w_coeff == denominator`: the rows below `var` first, then the two rows of `var`, then the unary cells
    let m := loopUp (2 * n - (n_var + 2)) (fun k m =>
      let i := n_var + 2 + k
      if isLe then (m.set i n_var (addUp R.up (m i n_var) d)).set i (n_var + 1) pinf
      else (m.set i n_var pinf).set i (n_var + 1) (addUp R.up (m i (n_var + 1)) d)) m
    let m := loopDown n_var (fun k m =>
      if isLe then (m.set n_var k pinf).set (n_var + 1) k (addUp R.up (m (n_var + 1) k) d)
      else (m.set n_var k (addUp R.up (m n_var k) d)).set (n_var + 1) k pinf) m
    -- `mul_2exp_assign_r(d, d, 1, ROUND_UP)`
    let d2 := mulTwoUp R.up d
    if isLe then (m.set (n_var + 1) n_var (addUp R.up (m (n_var + 1) n_var) d2)).set n_var (n_var + 1) pinf
    else (m.set n_var (n_var + 1) (addUp R.up (m n_var (n_var + 1)) d2)).set (n_var + 1) n_var pinf
  else
    -- `w_coeff == -denominator`
    let d2 := mulTwoUp R.up d
    let m :=
      if isLe then (m.set (n_var + 1) n_var (addUp R.up (m n_var (n_var + 1)) d2)).set n_var (n_var + 1) pinf
      else (m.set n_var (n_var + 1) (addUp R.up (m (n_var + 1) n_var) d2)).set (n_var + 1) n_var pinf
    octForgetBinary n vid m

/-- `LESS_OR_EQUAL`, general case, `pinf_count <= 1` (`:6374-6416`): quotient, then `matrix[n_var+1][n_var] =
2*sum` + `deduce_v_pm_u_bounds`, or the single constraint `v ∓ pinf_index <= sum`.  The `pinf_count == 1` test
reads `expr` and `denominator`, not the sign-corrected ones. -/
def octGenExploitUpper (R : Rnd) (vid w_id : Nat) (e : Nat → Int) (den : Int) (sc : Nat → Int) (scDen : Int)
    (pos : Acc) (m : Mat) : Mat :=
  let n_var := 2 * vid
  let s := if scDen ≠ 1 then divRoundUpByPositive R pos.sum scDen else pos.sum
  if pos.cnt = 0 then
    deduceVPmU R.up vid w_id sc scDen s (m.set (n_var + 1) n_var (mulTwoUp R.up s))
  else if pos.idx ≠ vid then
    let pi := e pos.idx
    if pi = den then
      if vid < pos.idx then m.set (2 * pos.idx) n_var s else m.set (n_var + 1) (2 * pos.idx + 1) s
    else if pi = - den then
      if vid < pos.idx then m.set (2 * pos.idx + 1) n_var s else m.set (n_var + 1) (2 * pos.idx) s
    else m
  else m

/-- `GREATER_OR_EQUAL`, general case, `pinf_count <= 1` (`:6474-6518`).  With `pinf_count == 0` the code passes
`pinf_index` (value-initialised by `PPL_UNINITIALIZED`, never assigned: `0`) as `last_id` to
`deduce_minus_v_pm_u_bounds` (`:6490`), which therefore visits `Variable(0)` only. -/
def octGenExploitLower (R : Rnd) (vid w_id : Nat) (e : Nat → Int) (den : Int) (sc : Nat → Int) (scDen : Int)
    (neg : Acc) (m : Mat) : Mat :=
  let n_var := 2 * vid
  let s := if scDen ≠ 1 then divRoundUpByPositive R neg.sum scDen else neg.sum
  if neg.cnt = 0 then
    deduceMinusVPmU R.up vid neg.idx sc scDen s (m.set n_var (n_var + 1) (mulTwoUp R.up s))
  else if neg.idx ≠ vid then
    let pi := e neg.idx
    if pi = den then
      if neg.idx < vid then m.set n_var (2 * neg.idx) s else m.set (2 * neg.idx + 1) (n_var + 1) s
    else if pi = - den then
      if neg.idx < vid then m.set n_var (2 * neg.idx + 1) s else m.set (2 * neg.idx) (n_var + 1) s
    else m
  else m

/-- general case (`:6292-6527`) up to, not including, the final `incremental_strong_closure_assign(var)`;
the second component is `false` for the early return `pinf_count > 1` (all constraints on `var` forgotten, no
closure) -/
def octGenAffineImageGeneral (R : Rnd) (n vid w_id : Nat) (isLe : Bool) (e : Nat → Int) (b den : Int) (m : Mat) :
    Mat × Bool :=
  let is_sc := den > 0
  let sc_b := if is_sc then b else - b
  let minus_sc_b := if is_sc then - b else b
  let sc_denom := if is_sc then den else - den
  let sc := scExpr e den
  let st := loopUp (w_id + 1) (octAccStepG R m sc isLe)
    ⟨R.up ((if isLe then sc_b else minus_sc_b : Int) : Rat), 0, 0⟩
  let m := octForgetAll n vid m
  if st.cnt > 1 then (m, false)
  else if isLe then (octGenExploitUpper R vid w_id e den sc sc_denom st m, true)
  else (octGenExploitLower R vid w_id e den sc sc_denom st m, true)

/-- `generalized_affine_image(var, relsym, expr, denominator)` for `relsym ∈ {≤, ≥}` after the initial
closure (`:6065-6529`), with the strongly-closed flag afterwards; `none` = marked empty (by the final
incremental closure of the general case).  Only the general case runs a closure. -/
def octGenAffineImageCoreF (R : Rnd) (n vid : Nat) (isLe : Bool) (e : Nat → Int) (b den : Int) (m : Mat) :
    Option (Mat × Bool) :=
  let n_var := 2 * vid
  let w := lastNonzero e n
  let t := exprT e w
  let w_id := w - 1
  let minus_denom := - den
  if t = 0 then
    -- Case 1: `forget_all_octagonal_constraints`, `reset_strongly_closed()`, one unary constraint
    let m := octForgetAll n vid m
    if isLe then some (addDbmConstraintQ R m (n_var + 1) n_var (2 * b) den, false)
    else some (addDbmConstraintQ R m n_var (n_var + 1) (2 * b) minus_denom, false)
  else
    let w_coeff := e w_id
    if t = 1 ∧ (w_coeff = den ∨ w_coeff = minus_denom) then
      let d := if isLe then divRoundUp R b den else divRoundUp R b minus_denom
      if w_id = vid then
        -- `reset_strongly_closed()`
        some (octGenTranslate R n vid isLe (decide (w_coeff = den)) d m, false)
      else
        let m := octForgetAll n vid m
        let n_w := 2 * w_id
        let mf : Mat × Bool :=
          if isLe then
            if w_coeff = den then
              if vid < w_id then octAddQF R (m, true) n_w n_var b den
              else octAddQF R (m, true) (n_var + 1) (n_w + 1) b den
            else
              if vid < w_id then octAddQF R (m, true) (n_w + 1) n_var b den
              else octAddQF R (m, true) (n_var + 1) n_w b den
          else
            if w_coeff = den then
              if vid < w_id then octAddQF R (m, true) (n_w + 1) (n_var + 1) b minus_denom
              else octAddQF R (m, true) n_var n_w b minus_denom
            else
              if vid < w_id then octAddQF R (m, true) n_w (n_var + 1) b minus_denom
              else octAddQF R (m, true) n_var (n_w + 1) b minus_denom
        some mf
    else
      let g := octGenAffineImageGeneral R n vid w_id isLe e b den m
      -- `g.2 = false`: the early return; otherwise `incremental_strong_closure_assign(var)`
      if !g.2 then some (g.1, false)
      else (octIncClose R n vid g.1).map fun m' => (m', true)

def octGenAffineImageCore (R : Rnd) (n vid : Nat) (isLe : Bool) (e : Nat → Int) (b den : Int) (m : Mat) :
    Option Mat :=
  (octGenAffineImageCoreF R n vid isLe e b den m).map Prod.fst

/-- `generalized_affine_image(var, relsym, expr, denominator)` (`:6016`): `EQUAL` is `affine_image` -/
def octGenAffineImage {n : Nat} (R : Rnd) (closed : Bool) (vid : Nat) (rel : RelSym) (e : Nat → Int) (b den : Int)
    (m : OctM n) : Option Mat :=
  match rel with
  | .eq => octAffineImage R closed vid e b den m
  | .le => (octCloseFirst R.up closed m).bind (octGenAffineImageCore R n vid true e b den)
  | .ge => (octCloseFirst R.up closed m).bind (octGenAffineImageCore R n vid false e b den)

/-! ## `bounded_affine_image` -/

/-- `add_space_dimensions_and_embed(1)` (`:3583`): `matrix.grow`: the two new rows hold `+∞` (the columns
`2n`, `2n+1` exist in these rows only); the strongly-closed flag is kept -/
def octEmbedOne (n : Nat) (m : Mat) : Mat :=
  { f := fun i j => if i = 2 * n ∨ i = 2 * n + 1 ∨ j = 2 * n ∨ j = 2 * n + 1 then pinf else m i j }

/-- `strong_closure_assign()` on a raw matrix of space dimension `n`; `none` = marked empty -/
def octCloseRaw (R : Rnd) (n : Nat) (m : Mat) : Option Mat :=
  let o : OctM n := OctM.ofMat n m
  if OctM.strongClosureEmpty R.up o then none else some (OctM.strongClosure R.up o).e

/-- first half of the branch of `bounded_affine_image` through an additional dimension (`:6821-6828`):
`add_space_dimensions_and_embed(1)`, `affine_image(new_var, lb_expr, denominator)`, `strong_closure_assign()`;
the matrix (of space dimension `n + 1`) on which the upper bound is then applied -/
def octBoundedExtraMid (R : Rnd) (n : Nat) (el : Nat → Int) (bl : Int) (den : Int) (m : Mat) : Option Mat :=
  -- `add_space_dimensions_and_embed(1)`, `new_var = Variable(n)`
  let m := octEmbedOne n m
  -- `affine_image(new_var, lb_expr, denominator)`: the closure at its head is a no-op; case
  -- `w_id != var_id`: `forget_all_octagonal_constraints(new_var)`, two `add_octagonal_constraint`, then
  -- `incremental_strong_closure_assign(new_var)` — which returns at once when neither constraint was
  -- stored (both quotients `+∞`: the shape is still marked strongly closed).
  -- `strong_closure_assign()`: the shape is marked strongly closed (or empty) afterwards: a no-op
  if (divRoundUp R bl den).isPinf ∧ (divRoundUp R bl (- den)).isPinf then some (octForgetAll (n + 1) n m)
  else octAffineImageCore R (n + 1) n el bl den m

/-- the branch of `bounded_affine_image` through an additional dimension (`:6818-6839`): `lb_expr` is
`±denominator*var + b` -/
def octBoundedExtraDim (R : Rnd) (n vid : Nat) (el : Nat → Int) (bl : Int) (eu : Nat → Int) (bu : Int)
    (den : Int) (m : Mat) : Option Mat :=
  (octBoundedExtraMid R n el bl den m).bind fun m1 =>
    -- `generalized_affine_image(var, LESS_OR_EQUAL, ub_expr, denominator)`: closure at its head a no-op
    (octGenAffineImageCoreF R (n + 1) vid true eu bu den m1).bind fun mf =>
      -- `refine_no_check(var >= new_var)`
      let cf : Nat → Int := fun i => (if i = vid then 1 else 0) - (if i = n then 1 else 0)
      match octRefineNoCheck R (n + 1) (n + 1) cf 0 .ge mf.1 with
      | .ok m3 =>
        let flag := octRefineNoCheckFlag R (n + 1) cf 0 .ge mf.1 mf.2
        -- `remove_higher_space_dimensions(space_dim - 1)`: `strong_closure_assign()`, `matrix.shrink`
        if flag then some m3 else octCloseRaw R (n + 1) m3
      | _ => none

/-- `bounded_affine_image(var, lb_expr, ub_expr, denominator)` after the initial closure (`:6766-7025`).
The form of `lb_expr` selects the branch; the upper bound goes through
`generalized_affine_image(var, LESS_OR_EQUAL, ub_expr, denominator)`. -/
def octBoundedAffineImageCore (R : Rnd) (n vid : Nat) (el : Nat → Int) (bl : Int) (eu : Nat → Int) (bu : Int)
    (den : Int) (m : Mat) : Option Mat :=
  let n_var := 2 * vid
  let w := lastNonzero el n
  let t := exprT el w
  let w_id := w - 1
  let minus_denom := - den
  if t = 0 then
    (octGenAffineImageCore R n vid true eu bu den m).map fun m =>
      addDbmConstraintQ R m n_var (n_var + 1) (2 * bl) minus_denom
  else
    let w_coeff := el w_id
    if t = 1 ∧ (w_coeff = den ∨ w_coeff = minus_denom) then
      if w_id = vid then octBoundedExtraDim R n vid el bl eu bu den m
      else
        (octGenAffineImageCore R n vid true eu bu den m).map fun m =>
          let n_w := 2 * w_id
          if w_coeff = den then
            if vid < w_id then addDbmConstraintQ R m (n_w + 1) (n_var + 1) bl minus_denom
            else addDbmConstraintQ R m n_var n_w bl minus_denom
          else
            if vid < w_id then addDbmConstraintQ R m n_w (n_var + 1) bl minus_denom
            else addDbmConstraintQ R m n_var (n_w + 1) bl minus_denom
    else
      -- general case (`:6873-7022`): `-lb_expr` is approximated on the matrix BEFORE the upper bound is applied
      let is_sc := den > 0
      let minus_sc_b := if is_sc then - bl else bl
      let sc_denom := if is_sc then den else minus_denom
      let sc := scExpr el den
      let neg := loopUp (w_id + 1) (octAccStep R m sc false) ⟨R.up (minus_sc_b : Rat), 0, 0⟩
      (octGenAffineImageCore R n vid true eu bu den m).map fun m =>
        if neg.cnt > 1 then m else octExploitLower R vid w_id sc sc_denom neg m

/-- `bounded_affine_image` (`:6730`) -/
def octBoundedAffineImage {n : Nat} (R : Rnd) (closed : Bool) (vid : Nat) (el : Nat → Int) (bl : Int)
    (eu : Nat → Int) (bu : Int) (den : Int) (m : OctM n) : Option Mat :=
  (octCloseFirst R.up closed m).bind (octBoundedAffineImageCore R n vid el bl eu bu den)

/-! ## `affine_preimage` -/

/-- `affine_preimage(var, expr, denominator)` after the initial closure (`:5934-6011`): `affine_image` of
the inverse transformation when `expr` mentions `var`, otherwise all constraints on `var` are forgotten -/
def octAffinePreimageCore (R : Rnd) (n vid : Nat) (e : Nat → Int) (b den : Int) (m : Mat) : Option Mat :=
  let w := lastNonzero e n
  let t := exprT e w
  let w_id := w - 1
  if t = 0 then some (octForgetAll n vid m)
  else
    let w_coeff := e w_id
    if t = 1 ∧ (w_coeff = den ∨ w_coeff = - den) then
      if w_id = vid then
        -- `affine_image(var, denominator*var - b, w_coeff)`
        octAffineImageCore R n vid (fun i => if i = vid then den else 0) (- b) w_coeff m
      else some (octForgetAll n vid m)
    else
      let coeff_v := e vid
      if coeff_v ≠ 0 then
        if coeff_v > 0 then
          -- `inverse = (coeff_v + denominator)*var - expr; affine_image(var, inverse, coeff_v)`
          octAffineImageCore R n vid (fun i => (if i = vid then coeff_v + den else 0) - e i) (- b) coeff_v m
        else
          -- `inverse = (minus_coeff_v - denominator)*var + expr; affine_image(var, inverse, minus_coeff_v)`
          octAffineImageCore R n vid (fun i => (if i = vid then - coeff_v - den else 0) + e i) b (- coeff_v) m
      else some (octForgetAll n vid m)

/-- `affine_preimage` (`:5904`) -/
def octAffinePreimage {n : Nat} (R : Rnd) (closed : Bool) (vid : Nat) (e : Nat → Int) (b den : Int) (m : OctM n) :
    Option Mat :=
  (octCloseFirst R.up closed m).bind (octAffinePreimageCore R n vid e b den)

/-! ## `generalized_affine_preimage(var, relsym, expr, denominator)` -/

/-- `generalized_affine_preimage(var, relsym, expr, denominator)` for `relsym ∈ {≤, ≥}` after the initial
closure (`:7083-7111`); `fx` selects the variant of `refine` (`octRefineVarV`) -/
def octGenAffinePreimageCoreV (fx : Bool) (R : Rnd) (n vid : Nat) (isLe : Bool) (e : Nat → Int) (b den : Int)
    (m : Mat) : Option Mat :=
  let expr_v := e vid
  if expr_v ≠ 0 then
    -- `inverse = expr - (expr_v + denominator)*var`, `inverse_denom = -expr_v`
    let inverse : Nat → Int := fun i => e i - (if i = vid then expr_v + den else 0)
    let inverse_denom := - expr_v
    let isLe' := if Int.sign den = Int.sign inverse_denom then isLe else !isLe
    octGenAffineImageCore R n vid isLe' inverse b inverse_denom m
  else
    let mf := octRefineVarV fx R n vid (if isLe then .le else .ge) e b den m
    -- `is_empty()`: `strong_closure_assign()` runs unless the shape is still marked strongly closed
    if mf.2 then some (octForgetAll n vid mf.1)
    else (octCloseRaw R n mf.1).map (octForgetAll n vid)

/-- the code as written -/
def octGenAffinePreimageCore (R : Rnd) (n vid : Nat) (isLe : Bool) (e : Nat → Int) (b den : Int) (m : Mat) :
    Option Mat :=
  octGenAffinePreimageCoreV false R n vid isLe e b den m

/-- `generalized_affine_preimage(var, relsym, expr, denominator)` (`:7031`): `EQUAL` is `affine_preimage` -/
def octGenAffinePreimageV {n : Nat} (fx : Bool) (R : Rnd) (closed : Bool) (vid : Nat) (rel : RelSym) (e : Nat → Int)
    (b den : Int) (m : OctM n) : Option Mat :=
  match rel with
  | .eq => octAffinePreimage R closed vid e b den m
  | .le => (octCloseFirst R.up closed m).bind (octGenAffinePreimageCoreV fx R n vid true e b den)
  | .ge => (octCloseFirst R.up closed m).bind (octGenAffinePreimageCoreV fx R n vid false e b den)

def octGenAffinePreimage {n : Nat} (R : Rnd) (closed : Bool) (vid : Nat) (rel : RelSym) (e : Nat → Int) (b den : Int)
    (m : OctM n) : Option Mat :=
  octGenAffinePreimageV false R closed vid rel e b den m

end PPLV.WR
