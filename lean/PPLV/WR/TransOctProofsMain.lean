import PPLV.WR.TransOctProofsExploit
import PPLV.WR.TransOctProofsSpecial
import PPLV.WR.TransOctProofsTranslate
/-!
# `Octagonal_Shape<T>::affine_image`: every branch
-/
set_option linter.unusedVariables false
namespace PPLV.WR
open ExtRat

theorem octAffineImageCore_sound {R : Rnd} (hR : R.Sound) {n vid : Nat} (hv : vid < n)
    {e : Nat → Int} (hc : CoeffExact R e) {b den : Int} (hden : den ≠ 0) {m : Mat}
    (hh : HalfFiniteOn R.up m) {x : Nat → Rat} (hx : x ∈ γO n m) :
    ∃ m', octAffineImageCore R n vid e b den m = some m' ∧
      upd x vid ((linEval e x n + b) / den) ∈ γO n m' := by
  by_cases h0 : exprT e (lastNonzero e n) = 0
  · exact octAffineImageCore_special_sound hR hv hden hx (Or.inl h0)
  · by_cases h1 : exprT e (lastNonzero e n) = 1 ∧
        (e (lastNonzero e n - 1) = den ∨ e (lastNonzero e n - 1) = - den)
    · by_cases hwv : lastNonzero e n - 1 = vid
      · exact octAffineImageCore_translate_sound hR hv hden hx h1.1 hwv h1.2
      · exact octAffineImageCore_special_sound hR hv hden hx (Or.inr ⟨h1.1, hwv, h1.2⟩)
    · exact octAffineImageCore_general_sound hR hv hc hden hh hx h0 h1

/-- the special forms need neither side condition -/
theorem octAffineImageCore_sound_special {R : Rnd} (hR : R.Sound) {n vid : Nat} (hv : vid < n)
    {e : Nat → Int} {b den : Int} (hden : den ≠ 0) {m : Mat} {x : Nat → Rat} (hx : x ∈ γO n m)
    (hsp : exprT e (lastNonzero e n) = 0 ∨
      (exprT e (lastNonzero e n) = 1 ∧ (e (lastNonzero e n - 1) = den ∨ e (lastNonzero e n - 1) = - den))) :
    ∃ m', octAffineImageCore R n vid e b den m = some m' ∧
      upd x vid ((linEval e x n + b) / den) ∈ γO n m' := by
  rcases hsp with h0 | h1
  · exact octAffineImageCore_special_sound hR hv hden hx (Or.inl h0)
  · by_cases hwv : lastNonzero e n - 1 = vid
    · exact octAffineImageCore_translate_sound hR hv hden hx h1.1 hwv h1.2
    · exact octAffineImageCore_special_sound hR hv hden hx (Or.inr ⟨h1.1, hwv, h1.2⟩)

theorem halfFiniteOn_exact (m : Mat) : HalfFiniteOn Rnd.exact.up m := by
  intro u q _; simp [Rnd.exact, upId]
theorem halfFiniteOn_ceil (m : Mat) : HalfFiniteOn Rnd.ceil.up m := by
  intro u q _; simp [Rnd.ceil, upCeil]

end PPLV.WR
