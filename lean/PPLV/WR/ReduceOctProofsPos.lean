import PPLV.WR.ReduceOctProofsChains
/-!
# Octagon reduction: positions in the vector of non-singular leaders (`rs_li` is the position of the odd
partner), and the redundancy test `octToAdd` read on the full view (every raw read is a stored cell)
-/
namespace PPLV.WR
open ExtRat (fin pinf addUp halfUp)

/-! ## positions in a filtered range -/

/-- number of selected indices below `i`: the position of `i` in the filtered list -/
def fpos (P : Nat → Bool) (i : Nat) : Nat := ((List.range i).filter P).length

theorem fpos_succ (P : Nat → Bool) (i : Nat) : fpos P (i + 1) = fpos P i + if P i then 1 else 0 := by
  unfold fpos
  rw [List.range_succ, List.filter_append, List.length_append]
  cases h : P i <;> simp [List.filter, h]

theorem fpos_mono (P : Nat → Bool) {j i : Nat} (h : j ≤ i) : fpos P j ≤ fpos P i := by
  induction i with
  | zero => have : j = 0 := by omega
            subst this; exact Nat.le_refl _
  | succ i ih =>
    by_cases e : j = i + 1
    · subst e; exact Nat.le_refl _
    · have := ih (by omega)
      rw [fpos_succ]; omega

theorem filter_getElem_fpos (P : Nat → Bool) (N i : Nat) (hi : i < N) (hP : P i = true) :
    ((List.range N).filter P)[fpos P i]? = some i := by
  induction N with
  | zero => omega
  | succ N ih =>
    rw [List.range_succ, List.filter_append]
    by_cases e : i = N
    · subst e
      have : List.filter P [i] = [i] := by simp [List.filter, hP]
      rw [this]
      unfold fpos
      rw [List.getElem?_append_right (Nat.le_refl _)]
      simp
    · have h := ih (by omega)
      have hlt : fpos P i < ((List.range N).filter P).length := by
        by_contra hcon
        rw [List.getElem?_eq_none (by omega)] at h
        cases h
      rw [List.getElem?_append_left hlt]
      exact h

theorem filter_getD_fpos (P : Nat → Bool) (N i : Nat) (hi : i < N) (hP : P i = true) :
    ((List.range N).filter P).getD (fpos P i) 0 = i ∧ fpos P i < ((List.range N).filter P).length := by
  have h := filter_getElem_fpos P N i hi hP
  constructor
  · rw [List.getD_eq_getElem?_getD, h]; rfl
  · by_contra hcon
    rw [List.getElem?_eq_none (by omega)] at h
    cases h

/-- with `P` constant on the pairs `{2g, 2g+1}` the position of an even index is even -/
theorem fpos_even (P : Nat → Bool) (N : Nat) (hpair : ∀ g, 2 * g + 1 < N → P (2 * g) = P (2 * g + 1)) :
    ∀ h, 2 * h ≤ N → fpos P (2 * h) % 2 = 0 := by
  intro h
  induction h with
  | zero => intro _; rfl
  | succ h ih =>
    intro hN
    have := ih (by omega)
    have e : 2 * (h + 1) = 2 * h + 1 + 1 := by ring
    rw [e, fpos_succ, fpos_succ, ← hpair h (by omega)]
    cases P (2 * h) <;> simp <;> omega

/-- `rs_li` of the code -/
def rsOf (li : Nat) : Nat := if li % 2 ≠ 0 then li else li + 1

/-- the inner loop `lj ≤ rs_li` visits every selected `j` stored in row `i` -/
theorem fpos_le_rs (P : Nat → Bool) (N : Nat) (hpair : ∀ g, 2 * g + 1 < N → P (2 * g) = P (2 * g + 1))
    {i j : Nat} (hN : N % 2 = 0) (hi : i < N) (hPi : P i = true) (hj : j < rowSize i) :
    fpos P j ≤ rsOf (fpos P i) := by
  unfold rsOf
  rcases Nat.mod_two_eq_zero_or_one i with hev | hodd
  · -- `i = 2h`
    obtain ⟨h, rfl⟩ : ∃ h, i = 2 * h := ⟨i / 2, by omega⟩
    have hp := fpos_even P N hpair h (by omega)
    rw [if_neg (by omega)]
    have hj' : j ≤ 2 * h + 1 := by unfold rowSize at hj; omega
    have h1 := fpos_mono P hj'
    rw [fpos_succ, hPi] at h1
    simpa using h1
  · obtain ⟨h, rfl⟩ : ∃ h, i = 2 * h + 1 := ⟨i / 2, by omega⟩
    have hp := fpos_even P N hpair h (by omega)
    have hP0 : P (2 * h) = true := by rw [hpair h hi]; exact hPi
    have e : fpos P (2 * h + 1) = fpos P (2 * h) + 1 := by rw [fpos_succ, hP0]; rfl
    rw [if_pos (by omega)]
    have hj' : j ≤ 2 * h + 1 := by unfold rowSize at hj; omega
    exact fpos_mono P hj'

/-! ## the redundancy test on the full view -/

theorem addUp_upId (a b : ExtRat) : addUp upId a b = eadd a b := rfl
theorem halfUp_upId (a : ExtRat) : halfUp upId a = halfUp fin a := rfl

/-- the three cases of the closure test are the same sum read through twins -/
theorem octTmp_eq (m : Mat) {i j k : Nat} (_hij : i ≠ j) (hs : j < rowSize i) (hki : k ≠ i) (hkj : k ≠ j) :
    (if k < j then addUp upId (m i k) (m (cidx j) (cidx k))
     else if k < i then addUp upId (m i k) (m k j)
     else addUp upId (m (cidx k) (cidx i)) (m k j))
    = eadd (octFull m i k) (octFull m k j) := by
  have si := cidx_spec i
  have sj := cidx_spec j
  have sk := cidx_spec k
  unfold rowSize at hs
  by_cases h1 : k < j
  · rw [if_pos h1, addUp_upId]
    rw [raw_eq_octFull m (i := i) (j := k) (by unfold rowSize; omega) (Ne.symm hki),
      raw_eq_octFull m (i := cidx j) (j := cidx k) (by unfold rowSize; omega) (fun e => hkj (cidx_inj e).symm),
      octFull_coh' m j k]
  · rw [if_neg h1]
    by_cases h2 : k < i
    · rw [if_pos h2, addUp_upId]
      rw [raw_eq_octFull m (i := i) (j := k) (by unfold rowSize; omega) (Ne.symm hki),
        raw_eq_octFull m (i := k) (j := j) (by unfold rowSize; omega) hkj]
    · rw [if_neg h2, addUp_upId]
      rw [raw_eq_octFull m (i := cidx k) (j := cidx i) (by unfold rowSize; omega) (fun e => hki (cidx_inj e)),
        raw_eq_octFull m (i := k) (j := j) (by unfold rowSize; omega) hkj,
        octFull_coh' m k i]

/-- a stored off-diagonal pair that is neither redundant by strong coherence nor by strong closure (read on
the full view) passes the test of the code -/
theorem octToAdd_true (m : Mat) (nsl : List Nat) {i j : Nat} (hij : i ≠ j) (hs : j < rowSize i)
    (hcoh : ¬ (j ≠ cidx i ∧
      halfUp fin (eadd (octFull m i (cidx i)) (octFull m (cidx j) j)) ≤ octFull m i j))
    (hclo : ∀ k, k ∈ nsl → k ≠ i → k ≠ j → ¬ eadd (octFull m i k) (octFull m k j) ≤ octFull m i j) :
    octToAdd upId m nsl i j = true := by
  unfold octToAdd
  simp only
  have e1 : m i j = octFull m i j := raw_eq_octFull m hs hij
  have e2 : m i (cidx i) = octFull m i (cidx i) := raw_eq_octFull m (cidx_lt_rowSize i) (cidx_ne i).symm
  have e3 : m (cidx j) j = octFull m (cidx j) j := raw_eq_octFull m (lt_rowSize_cidx j) (cidx_ne j)
  rw [e1, e2, e3, addUp_upId, halfUp_upId]
  rw [if_neg]
  · rw [Bool.not_eq_true', List.any_eq_false]
    intro k hk
    by_cases hki : k = i
    · simp [hki]
    by_cases hkj : k = j
    · simp [hkj]
    rw [octTmp_eq m hij hs hki hkj]
    have := hclo k hk hki hkj
    simp [hki, hkj, this]
  · intro h
    simp only [Bool.and_eq_true, decide_eq_true_eq, ne_eq] at h
    exact hcoh ⟨by simpa using h.1, h.2⟩

end PPLV.WR
