import PPLV.WR.ReduceProofsBase
/-!
# The executable strong-closedness test is sound

`isStronglyClosedB n m` (`ReduceOct.lean`) is what the driver `pplv_wrr` evaluates on every journalled octagon matrix
before it replays the reduction: when it answers `true` the hypothesis `OctM.IsStronglyClosed` of the octagon theorems
holds of that matrix (and conversely).
-/
namespace PPLV.WR
open ExtRat (fin pinf)

theorem isStronglyClosedB_iff {n : Nat} (c : OctM n) : isStronglyClosedB n c.e = true ↔ c.IsStronglyClosed := by
  unfold isStronglyClosedB
  simp only [List.all_eq_true, List.mem_range, Bool.and_eq_true, Bool.or_eq_true, beq_iff_eq, decide_eq_true_eq]
  constructor
  · intro h
    refine ⟨fun i j k hi hj hk => (h i hi j hj).1 k hk, fun i j hi hj hij => ?_⟩
    rcases (h i hi j hj).2 with e | e
    · exact absurd e hij
    · exact e
  · intro h i hi j hj
    refine ⟨fun k hk => h.tri i j k hi hj hk, ?_⟩
    by_cases e : i = j
    · exact Or.inl e
    · exact Or.inr (h.coh i j hi hj e)

end PPLV.WR
