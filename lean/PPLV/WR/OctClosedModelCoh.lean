import PPLV.WR.OctClosedModelCore
import PPLV.WR.OctClosedModelMine
/-!
# `strong_coherence_assign` in exact arithmetic: the in-place sweep is the simultaneous update

The sweep reads only the "unary" cells `(i, ī)`, `(j̄, j)`, and leaves every unary cell unchanged
(`min (x, (x + x) / 2) = x`); hence every stored off-diagonal cell `(a, b)` ends with
`min (m a b) ((m a ā + m b̄ b) / 2)` computed on the matrix before the sweep.
-/
namespace PPLV.WR.OCM
open ExtRat

/-- the value `strong_coherence_assign` leaves in the stored cell `(a, b)` -/
def sval (m : Mat) (a b : Nat) : ExtRat :=
  if a = b then m a b else minA (m a b) (halfUp fin (eadd (m a (cidx a)) (m (cidx b) b)))

theorem strongCoherenceM_cell (dim : Nat) (m : Mat) {a b : Nat} (ha : a < 2 * dim) (hb : b < rowSize a) :
    strongCoherenceM fin dim m a b = sval m a b := by
  unfold strongCoherenceM
  refine (rows_spec (2 * dim) rowSize _ (fun s => ∀ a, s a (cidx a) = m a (cidx a)) m (sval m) ?_
    (fun _ => rfl)).2.1 a b ha hb
  intro i s hi hI hs
  by_cases hp : (s i (cidx i)).isPinf = true
  · rw [if_pos hp]
    refine ⟨hI, fun b hb => ?_, fun _ _ _ => rfl⟩
    rw [hs b hb]
    unfold sval
    split
    · rfl
    · have : m i (cidx i) = pinf := by rw [← hI i]; exact (isPinf_iff _).1 hp
      rw [this, eadd_pinf_left, halfUp_pinf, minA_pinf]
  · rw [if_neg hp]
    refine row_spec i (rowSize i) _ (fun s => ∀ a, s a (cidx a) = m a (cidx a)) s (sval m i) ?_ hI
    intro j t hj hIt ht
    have hcj : t (cidx j) j = m (cidx j) j := by
      have := hIt (cidx j); rwa [cidx_cidx] at this
    by_cases hij : i = j
    · rw [if_pos hij]
      refine ⟨hIt, ?_, fun _ _ _ => rfl⟩
      rw [ht, hs j hj]
      unfold sval; rw [if_pos hij]
    · rw [if_neg hij]
      by_cases hq : (t (cidx j) j).isPinf = true
      · rw [if_pos hq]
        refine ⟨hIt, ?_, fun _ _ _ => rfl⟩
        rw [ht, hs j hj]
        unfold sval; rw [if_neg hij]
        have : m (cidx j) j = pinf := by rw [← hcj]; exact (isPinf_iff _).1 hq
        rw [this, eadd_pinf_right, halfUp_pinf, minA_pinf]
      · rw [if_neg hq]
        refine ⟨fun a => ?_, ?_, fun a b hab => ?_⟩
        · rw [Mat.set_apply]
          split
          · rename_i hc
            obtain ⟨rfl, rfl⟩ := hc
            rw [cidx_cidx, half_eadd_self, minA_self]
            exact hIt a
          · exact hIt a
        · rw [Mat.set_apply, if_pos ⟨rfl, rfl⟩, ht, hs j hj, hIt i, hcj]
          unfold sval; rw [if_neg hij]
        · rw [Mat.set_apply, if_neg hab]

end PPLV.WR.OCM
