import PPLV.WR.ReduceProofsUB
/-!
# The pointwise maximum of two closed difference-bound matrices

* `DBM.join_isClosed`: the pointwise maximum of two shortest-path closed matrices is shortest-path closed;
* `DBM.le_of_γ_subset`: a closed matrix is the tightest description of its set of points — every matrix whose
  points include those of the closed `x` is entrywise above `x` (off the diagonal);
* `DBM.γ_join_least`: the join is below every bounded-difference shape that contains both operands, hence
  (`DBM.join_of_union_eq`) a union that is a bounded-difference shape is the join.
-/
namespace PPLV.WR
open ExtRat (fin pinf)

namespace DBM
variable {n : Nat}

theorem z_le_join_left (x y : DBM n) (a b : Nat) : x.z a b ≤ (join x y).z a b := by
  unfold z
  rw [Mat.diagDown_apply, Mat.diagDown_apply]
  split
  · exact ExtRat.le_rfl' _
  · exact ExtRat.le_maxA_left _ _

theorem z_le_join_right (x y : DBM n) (a b : Nat) : y.z a b ≤ (join x y).z a b := by
  unfold z
  rw [Mat.diagDown_apply, Mat.diagDown_apply]
  split
  · exact ExtRat.le_rfl' _
  · exact ExtRat.le_maxA_right _ _

theorem join_z_cases (x y : DBM n) (a b : Nat) : (join x y).z a b = x.z a b ∨ (join x y).z a b = y.z a b := by
  unfold z
  rw [Mat.diagDown_apply, Mat.diagDown_apply, Mat.diagDown_apply]
  split
  · exact Or.inl rfl
  · exact ExtRat.maxA_cases _ _

/-- the pointwise maximum of two closed matrices is closed -/
theorem join_isClosed {x y : DBM n} (hx : x.IsClosed) (hy : y.IsClosed) : (join x y).IsClosed := by
  refine ⟨fun i hi => (join x y).z_self (by omega), fun i j k hi hj hk => ?_⟩
  show (join x y).z i j ≤ eadd ((join x y).z i k) ((join x y).z k j)
  rcases join_z_cases x y i j with e | e <;> rw [e]
  · exact ExtRat.le_trans' (hx.closed.tri i j k hi hj hk)
      (eadd_mono (z_le_join_left x y i k) (z_le_join_left x y k j))
  · exact ExtRat.le_trans' (hy.closed.tri i j k hi hj hk)
      (eadd_mono (z_le_join_right x y i k) (z_le_join_right x y k j))

/-- a closed matrix is the least one (off the diagonal) among the matrices containing its points -/
theorem le_of_γ_subset {x : DBM n} (hx : x.IsClosed) (Q : DBM n) (h : DBM.γ x ⊆ DBM.γ Q)
    {a b : Nat} (ha : a ≤ n) (hb : b ≤ n) (hab : a ≠ b) : x.e a b ≤ Q.e a b := by
  cases hu : Q.e a b with
  | pinf => exact ExtRat.le_pinf _
  | fin u =>
    cases hw : x.e a b with
    | fin w =>
      obtain ⟨p, hp, hd⟩ := hx.closed.tight_fin (a := a) (b := b) (by omega) (by omega) hab
        (by rw [x.z_ne hab]; exact hw)
      obtain ⟨pt, hpt, hv⟩ := x.point_of_z hp
      have := h hpt a b ha hb
      rw [hv, hv, hu] at this
      have e : p b - p 0 - (p a - p 0) = w := by rw [← hd]; ring
      rw [e] at this
      exact this
    | pinf =>
      exfalso
      obtain ⟨p, hp, hd⟩ := hx.closed.tight_inf (a := a) (b := b) (by omega) (by omega) hab
        (by rw [x.z_ne hab]; exact hw) (u + 1)
      obtain ⟨pt, hpt, hv⟩ := x.point_of_z hp
      have := h hpt a b ha hb
      rw [hv, hv, hu, ExtRat.fin_le_fin] at this
      linarith

/-- the join of two closed matrices is included in every bounded-difference shape containing both -/
theorem γ_join_least {x y : DBM n} (hx : x.IsClosed) (hy : y.IsClosed) (Q : DBM n)
    (h1 : DBM.γ x ⊆ DBM.γ Q) (h2 : DBM.γ y ⊆ DBM.γ Q) : DBM.γ (join x y) ⊆ DBM.γ Q := by
  intro p hp i j hi hj
  by_cases hij : i = j
  · rw [hij, Q.diag j hj]; exact ExtRat.le_pinf _
  · refine ExtRat.le_trans' (hp i j hi hj) ?_
    rw [join_apply]
    rcases ExtRat.maxA_cases (x.e i j) (y.e i j) with e | e <;> rw [e]
    · exact le_of_γ_subset hx Q h1 hi hj hij
    · exact le_of_γ_subset hy Q h2 hi hj hij

/-- if the union of two closed shapes is a bounded-difference shape, it is their join -/
theorem join_of_union_eq {x y : DBM n} (hx : x.IsClosed) (hy : y.IsClosed) (Q : DBM n)
    (h : DBM.γ Q = DBM.γ x ∪ DBM.γ y) : DBM.γ (join x y) = DBM.γ x ∪ DBM.γ y := by
  apply Set.Subset.antisymm
  · rw [← h]
    exact γ_join_least hx hy Q (by rw [h]; exact Set.subset_union_left)
      (by rw [h]; exact Set.subset_union_right)
  · exact Set.union_subset (γ_subset_join_left x y) (γ_subset_join_right x y)

end DBM
end PPLV.WR
