import PPLV.WR.TransOct2Gen
import PPLV.WR.Trans2Lhs
/-!
# Octagonal_Shape<T>: the transformers with an EXPRESSION on the left-hand side (executable model, no Mathlib)

Code-shaped models of (`/repo/src/Octagonal_Shape_templates.hh`, `Octagonal_Shape_inlines.hh`, as they are in
the tree NOW):

* `generalized_affine_image(lhs, relsym, rhs)`      (`Octagonal_Shape_templates.hh:6533`)
* `generalized_affine_preimage(lhs, relsym, rhs)`   (`Octagonal_Shape_templates.hh:7116`)

on top of `refine_no_check(const Constraint&)` (`:940`, `octRefineNoCheck` of `TransOct2.lean`), the single
variable transformers `generalized_affine_image(var, …)`, `generalized_affine_preimage(var, …)`
(`TransOct2Gen.lean`), `affine_image` (`TransOct.lean`), `forget_all_octagonal_constraints` (`:4456`),
`add_space_dimensions_and_embed` (`:3583`), `remove_higher_space_dimensions` (`Octagonal_Shape_inlines.hh:556`).
The `Constraint` objects `lhs relsym rhs`, `lhs_vars`, `have_a_common_variable`, `t_lhs`/`j_lhs` and the
sign-corrected relation symbol are those of `Trans2Lhs.lean` (the code of the two classes is the same text).

After the initial `strong_closure_assign()` the octagon is marked strongly closed: the nested public calls
are A's / stage 3's entry points with `closed := true` on `OctM.ofMat`.  The strongly-closed flag is modelled
where the code tests it later (`is_empty()`, `strong_closure_assign()`, `remove_higher_space_dimensions`).
`none` = the shape is marked empty afterwards.
-/
namespace PPLV.WR
open ExtRat (fin pinf)

/-- `refine_no_check(lhs relsym rhs)` on an octagon of space dimension `n` -/
def octLhsRefineRel (R : Rnd) (n : Nat) (rel : RelSym) (sdl : Nat) (el : Nat → Int) (bl : Int) (sdr : Nat)
    (er : Nat → Int) (br : Int) (m : Mat) : Outcome :=
  let c := lhsRelConstraint rel sdl el bl sdr er br
  octRefineNoCheck R n c.1 c.2.1 c.2.2.1 c.2.2.2 m

/-- the strongly-closed flag after `refine_no_check(lhs relsym rhs)` on a shape marked strongly closed -/
def octLhsRefineRelFlag (R : Rnd) (rel : RelSym) (sdl : Nat) (el : Nat → Int) (bl : Int) (sdr : Nat)
    (er : Nat → Int) (br : Int) (m : Mat) : Bool :=
  let c := lhsRelConstraint rel sdl el bl sdr er br
  octRefineNoCheckFlag R c.1 c.2.1 c.2.2.1 c.2.2.2 m true

/-- `for (i = lhs_vars.size(); i-- > 0; ) forget_all_octagonal_constraints(lhs_vars[i].id());`
(`:6643-6646`); `n` is the current space dimension -/
def octLhsForgetVars (n : Nat) (vars : List Nat) (m : Mat) : Mat :=
  loopDown vars.length (fun i m => octForgetAll n (vars.getD i 0) m) m

/-! ## `generalized_affine_image(lhs, relsym, rhs)` -/

/-- `generalized_affine_image(lhs, relsym, rhs)` after the initial strong closure (`:6569-6725`); the matrix
is strongly closed and marked so -/
def octLhsGenAffineImageCore (R : Rnd) (n : Nat) (rel : RelSym) (el : Nat → Int) (bl : Int)
    (er : Nat → Int) (br : Int) (m : Mat) : Option Mat :=
  let lhs_space_dim := lhsSpaceDim el n
  let rhs_space_dim := lhsSpaceDim er n
  let tj := lhsForm el n
  let t_lhs := tj.1
  let j_lhs := tj.2
  if t_lhs = 0 then
    -- `lhs` is a constant: `refine_no_check(lhs relsym rhs)`
    lhsOutcomeToOption (octLhsRefineRel R n rel lhs_space_dim el bl rhs_space_dim er br m)
  else if t_lhs = 1 then
    -- `generalized_affine_image(v, new_relsym, rhs - b_lhs, a_lhs)`: the closure at its head is a no-op
    let denom := el j_lhs
    octGenAffineImage R true j_lhs (lhsNewRelSym rel denom) er (br - bl) denom (OctM.ofMat n m)
  else
    let lhs_vars := lhsVars el n
    let num_common_dims := min lhs_space_dim rhs_space_dim
    if !lhsHaveCommonVar el er num_common_dims then
      -- disjoint: forget the variables of `lhs`, then `refine_no_check(lhs relsym rhs)`
      let m := octLhsForgetVars n lhs_vars m
      lhsOutcomeToOption (octLhsRefineRel R n rel lhs_space_dim el bl rhs_space_dim er br m)
    else
      -- `#if 1`: simplified computation, the variables of `lhs` are forgotten and nothing else
      some (octLhsForgetVars n lhs_vars m)

/-- `generalized_affine_image(lhs, relsym, rhs)` (`:6533`): `none` = the shape is (marked) empty -/
def octLhsGenAffineImage {n : Nat} (R : Rnd) (closed : Bool) (rel : RelSym) (el : Nat → Int) (bl : Int)
    (er : Nat → Int) (br : Int) (m : OctM n) : Option Mat :=
  (octCloseFirst R.up closed m).bind (octLhsGenAffineImageCore R n rel el bl er br)

/-! ## `generalized_affine_preimage(lhs, relsym, rhs)` -/

/-- the branch "some variables in `lhs` also occur in `rhs`" (`:7236-7282`): through an additional
dimension `new_var = Variable(n)`.  `m` is strongly closed and marked so. -/
def octLhsPreimageNewDim (R : Rnd) (n : Nat) (rel : RelSym) (el : Nat → Int) (bl : Int)
    (er : Nat → Int) (br : Int) (m : Mat) : Option Mat :=
  -- `add_space_dimensions_and_embed(1)`: the strongly-closed flag is kept
  let m := octEmbedOne n m
  -- `affine_image(new_var, lhs)` (denominator 1): the closure at its head is a no-op.  `t_lhs == 2` forces the
  -- general case: either the early return (still marked strongly closed) or the final
  -- `incremental_strong_closure_assign(new_var)` (marked strongly closed, or empty)
  (octAffineImage R true n el bl 1 (OctM.ofMat (n + 1) m)).bind fun m1 =>
    -- `strong_closure_assign()` (`:7252`): a no-op; then the variables of `lhs` are forgotten
    let m3 := octLhsForgetVars (n + 1) (lhsVars el n) m1
    -- `refine_no_check(new_var relsym rhs)`
    let nv : Nat → Int := fun i => if i = n then 1 else 0
    let rhs_space_dim := lhsSpaceDim er n
    match octLhsRefineRel R (n + 1) rel (n + 1) nv 0 rhs_space_dim er br m3 with
    | .empty => none
    | .throws => none
    | .ok m4 =>
      let flag := octLhsRefineRelFlag R rel (n + 1) nv 0 rhs_space_dim er br m3
      -- `remove_higher_space_dimensions(space_dim - 1)`: `strong_closure_assign()` (a no-op when still marked
      -- strongly closed), `matrix.shrink`
      if flag then some m4 else octCloseRaw R (n + 1) m4

/-- `generalized_affine_preimage(lhs, relsym, rhs)` after the initial strong closure (`:7151-7284`) -/
def octLhsGenAffinePreimageCore (R : Rnd) (n : Nat) (rel : RelSym) (el : Nat → Int) (bl : Int)
    (er : Nat → Int) (br : Int) (m : Mat) : Option Mat :=
  let lhs_space_dim := lhsSpaceDim el n
  let rhs_space_dim := lhsSpaceDim er n
  let tj := lhsForm el n
  let t_lhs := tj.1
  let j_lhs := tj.2
  if t_lhs = 0 then
    -- `generalized_affine_image(lhs, relsym, rhs)`: its initial closure is a no-op
    octLhsGenAffineImageCore R n rel el bl er br m
  else if t_lhs = 1 then
    -- `generalized_affine_preimage(v, new_relsym, rhs - b_lhs, a_lhs)`
    let denom := el j_lhs
    octGenAffinePreimage R true j_lhs (lhsNewRelSym rel denom) er (br - bl) denom (OctM.ofMat n m)
  else
    let lhs_vars := lhsVars el n
    let num_common_dims := min lhs_space_dim rhs_space_dim
    if !lhsHaveCommonVar el er num_common_dims then
      -- disjoint: `refine_no_check(lhs relsym rhs)`, `is_empty()`, forget
      match octLhsRefineRel R n rel lhs_space_dim el bl rhs_space_dim er br m with
      | .empty => none
      | .throws => none
      | .ok m1 =>
        let flag := octLhsRefineRelFlag R rel lhs_space_dim el bl rhs_space_dim er br m
        -- `is_empty()`: `strong_closure_assign()` runs unless the shape is still marked strongly closed
        if flag then some (octLhsForgetVars n lhs_vars m1)
        else (octCloseRaw R n m1).map (octLhsForgetVars n lhs_vars)
    else octLhsPreimageNewDim R n rel el bl er br m

/-- `generalized_affine_preimage(lhs, relsym, rhs)` (`:7116`): `none` = the shape is (marked) empty -/
def octLhsGenAffinePreimage {n : Nat} (R : Rnd) (closed : Bool) (rel : RelSym) (el : Nat → Int) (bl : Int)
    (er : Nat → Int) (br : Int) (m : OctM n) : Option Mat :=
  (octCloseFirst R.up closed m).bind (octLhsGenAffinePreimageCore R n rel el bl er br)

end PPLV.WR
