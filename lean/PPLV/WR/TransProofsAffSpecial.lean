import PPLV.WR.TransProofsBase
import Mathlib.Tactic.Linarith
import Mathlib.Tactic.FieldSimp
import Mathlib.Tactic.Ring
/-!
# `BD_Shape::affine_image`: the special cases (`expr == b`, `±var + b`, `±w + b`)

Soundness of every branch of `affineImageCore` that does not reach `affineImageGeneral`, for an
arbitrary sound rounding (`affineImageCore_special_sound`).
-/
set_option linter.unusedVariables false
set_option linter.unusedSimpArgs false
namespace PPLV.WR
open ExtRat

/-! ## moving the coordinate `var`: a criterion on the rows and columns of the matrix -/

/-- a point of `m` with a new value `t` for `Variable(var)` satisfies `m'` as soon as `m'` is above `m`
outside row/column `v = var+1` and row and column `v` of `m'` bound the new differences -/
theorem holds_upd_of {n var : Nat} {x : Nat → Rat} {m m' : Mat} {t : Rat}
    (hx : Holds (SB (n+1)) (DBM.val x) m)
    (hoth : ∀ a b, a ≤ n → b ≤ n → a ≠ var + 1 → b ≠ var + 1 → m a b ≤ m' a b)
    (hrow : ∀ b, b ≤ n → b ≠ var + 1 → fin (DBM.val x b - t) ≤ m' (var + 1) b)
    (hcol : ∀ a, a ≤ n → a ≠ var + 1 → fin (t - DBM.val x a) ≤ m' a (var + 1))
    (hdiag : var < n → fin 0 ≤ m' (var + 1) (var + 1)) :
    Holds (SB (n+1)) (DBM.val (upd x var t)) m' := by
  intro a b hab
  have ha : a ≤ n := by have := hab.1; omega
  have hb : b ≤ n := by have := hab.2; omega
  rw [val_upd, val_upd]
  by_cases hav : a = var + 1
  · by_cases hbv : b = var + 1
    · rw [if_pos hav, if_pos hbv, sub_self, hav, hbv]; exact hdiag (by omega)
    · rw [if_pos hav, if_neg hbv, hav]; exact hrow b hb hbv
  · by_cases hbv : b = var + 1
    · rw [if_neg hav, if_pos hbv, hbv]; exact hcol a ha hav
    · rw [if_neg hav, if_neg hbv]; exact le_trans' (hx a b hab) (hoth a b ha hb hav hbv)

/-- the same when row and column `v` of `m'` only hold the two unary cells -/
theorem holds_upd_unary {n var : Nat} {x : Nat → Rat} {m m' : Mat} {t : Rat}
    (hx : Holds (SB (n+1)) (DBM.val x) m)
    (hoth : ∀ a b, a ≤ n → b ≤ n → a ≠ var + 1 → b ≠ var + 1 → m' a b = m a b)
    (hrow : ∀ b, 0 < b → b ≤ n → m' (var + 1) b = pinf)
    (hcol : ∀ a, 0 < a → a ≤ n → m' a (var + 1) = pinf)
    (h0v : fin t ≤ m' 0 (var + 1)) (hv0 : fin (- t) ≤ m' (var + 1) 0) :
    Holds (SB (n+1)) (DBM.val (upd x var t)) m' := by
  refine holds_upd_of hx ?_ ?_ ?_ ?_
  · intro a b ha hb hav hbv; rw [hoth a b ha hb hav hbv]; exact le_rfl' _
  · intro b hb hbv
    rcases Nat.eq_zero_or_pos b with h0 | h0
    · subst h0; simp only [DBM.val, zero_sub]; exact hv0
    · rw [hrow b h0 hb]; exact le_pinf _
  · intro a ha hav
    rcases Nat.eq_zero_or_pos a with h0 | h0
    · subst h0; simp only [DBM.val, sub_zero]; exact h0v
    · rw [hcol a h0 ha]; exact le_pinf _
  · intro hv; rw [hrow (var + 1) (by omega) (by omega)]; exact le_pinf _

theorem holds_ite_set {S : Nat → Nat → Prop} {p : Nat → Rat} {m : Mat} {i j : Nat} {k : ExtRat}
    {c : Prop} [Decidable c] (h : Holds S p m) (hk : Holds S p m → S i j → fin (p j - p i) ≤ k) :
    Holds S p (if c then m.set i j k else m) := by
  split
  · exact holds_set h (hk h)
  · exact h

theorem val_upd_self (x : Nat → Rat) (var : Nat) (t : Rat) : DBM.val (upd x var t) (var + 1) = t := by
  rw [val_upd, if_pos rfl]

theorem val_upd_zero (x : Nat → Rat) (var : Nat) (t : Rat) : DBM.val (upd x var t) 0 = 0 := rfl

theorem val_upd_ne (x : Nat → Rat) {var a : Nat} (t : Rat) (h : a ≠ var + 1) :
    DBM.val (upd x var t) a = DBM.val x a := by
  rw [val_upd, if_neg h]

theorem upd_self (x : Nat → Rat) (var : Nat) : upd x var (x var) = x := by
  funext i; unfold upd; split
  · rename_i h; rw [h]
  · rfl

theorem upd_upd (x : Nat → Rat) (var : Nat) (s t : Rat) : upd (upd x var s) var t = upd x var t := by
  funext i; unfold upd; split <;> rfl

/-! ## the translation loop of `var := var + b/den` -/

/-- closed form of the loop `for i: dbm[v][i] += c; dbm[i][v] += d` (the diagonal cell receives both) -/
theorem transLoop_apply (up : Rat → ExtRat) (rows v : Nat) (c d : ExtRat) (m : Mat) (a b : Nat) :
    loopDown rows (fun i m => (m.set v i (addUp up (m v i) c)).set i v
        (addUp up ((m.set v i (addUp up (m v i) c)) i v) d)) m a b
      = if a = v ∧ b = v then (if v < rows then addUp up (addUp up (m v v) c) d else m v v)
        else if a = v ∧ b < rows then addUp up (m v b) c
        else if b = v ∧ a < rows then addUp up (m a v) d
        else m a b := by
  induction rows generalizing m with
  | zero => simp [loopDown]; rintro rfl rfl; rfl
  | succ k ih =>
    simp only [loopDown]
    rw [ih]
    clear ih
    simp only [Mat.set_apply]
    rcases Nat.lt_trichotomy v k with hvk | hvk | hvk
    · split_ifs <;> first | rfl | (exfalso; omega) | simp_all
    · subst hvk
      split_ifs <;> first | rfl | (exfalso; omega) | simp_all
    · split_ifs <;> first | rfl | (exfalso; omega) | simp_all

/-! ## values of the expression in the special cases -/

theorem val_t1_pos {den a : Int} (hden : den ≠ 0) (ha : a = den) (X : Rat) (b : Int) :
    ((a : Rat) * X + b) / den = X + (b : Rat) / den := by
  have : (den : Rat) ≠ 0 := by exact_mod_cast hden
  subst ha; field_simp

theorem val_t1_neg {den a : Int} (hden : den ≠ 0) (ha : a = - den) (X : Rat) (b : Int) :
    ((a : Rat) * X + b) / den = - X + (b : Rat) / den := by
  have : (den : Rat) ≠ 0 := by exact_mod_cast hden
  subst ha; push_cast; field_simp

theorem fin_le_dru_neg {R : Rnd} (hR : R.Sound) (b den : Int) :
    fin (-((b : Rat) / den)) ≤ divRoundUp R b (- den) :=
  fin_le_divRoundUp hR (by push_cast; rw [div_neg])

theorem fin_le_dru {R : Rnd} (hR : R.Sound) (b den : Int) :
    fin ((b : Rat) / den) ≤ divRoundUp R b den :=
  fin_le_divRoundUp hR le_rfl

/-! ## soundness of the special cases of `affine_image` -/

theorem affineImageCore_special_sound {R : Rnd} (hR : R.Sound) {n var : Nat} (hvar : var < n)
    {e : Nat → Int} {b den : Int} (hden : den ≠ 0) {m : Mat} {x : Nat → Rat} (hx : x ∈ γB n m)
    (hsp : exprT e (lastNonzero e n) = 0 ∨
      (exprT e (lastNonzero e n) = 1 ∧
        (e (lastNonzero e n - 1) = den ∨ e (lastNonzero e n - 1) = - den))) :
    upd x var ((linEval e x n + b) / den) ∈ γB n (affineImageCore R n var e b den m) := by
  have hc := fin_le_dru_neg hR b den
  have hd := fin_le_dru hR b den
  have hx' : Holds (SB (n+1)) (DBM.val x) m := hx
  show Holds (SB (n+1)) (DBM.val (upd x var _)) _
  unfold affineImageCore
  dsimp only
  rcases hsp with h0 | ⟨h1, ha⟩
  · -- `expr == b`
    rw [if_pos h0, linEval_t0 x h0, zero_add]
    unfold addDbmConstraintQ
    refine holds_addDbm (holds_addDbm (holds_forgetAll hx' _) ?_) ?_
    · intro _; rw [val_upd_self, val_upd_zero, sub_zero]; exact hd
    · intro _; rw [val_upd_self, val_upd_zero, zero_sub]; exact hc
  · obtain ⟨hw0, hlin⟩ := linEval_t1 x h1
    have hwn := lastNonzero_le e n
    rw [if_neg (by omega), if_pos ⟨h1, ha⟩, hlin]
    by_cases hwv : lastNonzero e n = var + 1
    · -- `w == v`
      rw [if_pos hwv]
      have hw1 : lastNonzero e n - 1 = var := by omega
      rw [hw1] at ha ⊢
      by_cases had : e var = den
      · rw [if_pos had, val_t1_pos hden had]
        by_cases hb : b = 0
        · rw [if_pos hb, hb]
          simp only [Int.cast_zero, zero_div, add_zero]
          rw [upd_self]; exact hx'
        · rw [if_neg hb]
          refine holds_upd_of hx' ?_ ?_ ?_ ?_
          · intro i j hi hj hiv hjv
            rw [transLoop_apply, if_neg (by tauto), if_neg (by tauto), if_neg (by tauto)]
            exact le_rfl' _
          · intro j hj hjv
            rw [transLoop_apply, if_neg (by tauto), if_pos ⟨rfl, by omega⟩]
            have h := hx' (var + 1) j ⟨by omega, by omega⟩
            have e1 : DBM.val x j - (x var + (b : Rat) / den)
                = (DBM.val x j - DBM.val x (var + 1)) + -((b : Rat) / den) := by
              simp only [DBM.val]; ring
            rw [e1]; exact fin_le_addUp' hR h hc
          · intro i hi hiv
            rw [transLoop_apply, if_neg (by tauto), if_neg (by tauto), if_pos ⟨rfl, by omega⟩]
            have h := hx' i (var + 1) ⟨by omega, by omega⟩
            have e1 : x var + (b : Rat) / den - DBM.val x i
                = (DBM.val x (var + 1) - DBM.val x i) + (b : Rat) / den := by
              simp only [DBM.val]; ring
            rw [e1]; exact fin_le_addUp' hR h hd
          · intro _
            rw [transLoop_apply, if_pos ⟨rfl, rfl⟩, if_pos (by omega)]
            have h := hx' (var + 1) (var + 1) ⟨by omega, by omega⟩
            rw [sub_self] at h
            have e1 : (0 : Rat) = 0 + -((b : Rat) / den) + (b : Rat) / den := by ring
            rw [e1]; exact fin_le_addUp' hR (fin_le_addUp' hR h hc) hd
      · have had' : e var = - den := ha.resolve_left had
        rw [if_neg had, val_t1_neg hden had']
        have h0v := hx' 0 (var + 1) ⟨by omega, by omega⟩
        have hv0 := hx' (var + 1) 0 ⟨by omega, by omega⟩
        simp only [DBM.val, sub_zero, zero_sub] at h0v hv0
        by_cases hb : b = 0
        · rw [if_neg (not_not.2 hb), hb]
          simp only [Int.cast_zero, zero_div, add_zero]
          refine holds_upd_unary hx' ?_ ?_ ?_ ?_ ?_
          · intro i j hi hj hiv hjv
            simp only [Mat.set_apply, forgetBinary_apply]
            rw [if_neg (by omega), if_neg (by omega), if_neg (by omega)]
          · intro j hj0 hj
            simp only [Mat.set_apply, forgetBinary_apply]
            rw [if_neg (by omega), if_neg (by omega), if_pos (Or.inl ⟨trivial, hj0, by omega⟩)]
          · intro i hi0 hi
            simp only [Mat.set_apply, forgetBinary_apply]
            rw [if_neg (by omega), if_neg (by omega), if_pos (Or.inr ⟨trivial, hi0, by omega⟩)]
          · simp [Mat.set_apply, forgetBinary_apply]
            exact hv0
          · simp [Mat.set_apply, forgetBinary_apply]
            exact h0v
        · rw [if_pos hb]
          refine holds_upd_unary hx' ?_ ?_ ?_ ?_ ?_
          · intro i j hi hj hiv hjv
            simp only [Mat.set_apply, forgetBinary_apply]
            rw [if_neg (by omega), if_neg (by omega), if_neg (by omega), if_neg (by omega),
              if_neg (by omega)]
          · intro j hj0 hj
            simp only [Mat.set_apply, forgetBinary_apply]
            rw [if_neg (by omega), if_neg (by omega), if_neg (by omega), if_neg (by omega),
              if_pos (Or.inl ⟨trivial, hj0, by omega⟩)]
          · intro i hi0 hi
            simp only [Mat.set_apply, forgetBinary_apply]
            rw [if_neg (by omega), if_neg (by omega), if_neg (by omega), if_neg (by omega),
              if_pos (Or.inr ⟨trivial, hi0, by omega⟩)]
          · have h := fin_le_addUp' hR hv0 hd
            simp [Mat.set_apply, forgetBinary_apply]
            exact h
          · have h := fin_le_addUp' hR h0v hc
            have e1 : -(-x var + (b : Rat) / den) = x var + -((b : Rat) / den) := by ring
            rw [e1]
            simp [Mat.set_apply, forgetBinary_apply]
            exact h
    · -- `w != v`
      rw [if_neg hwv]
      obtain ⟨k, hk⟩ : ∃ k, lastNonzero e n = k + 1 := ⟨lastNonzero e n - 1, by omega⟩
      rw [hk] at ha hwv hwn ⊢
      simp only [Nat.add_sub_cancel] at ha ⊢
      have hkv : k + 1 ≠ var + 1 := hwv
      by_cases had : e k = den
      · rw [if_pos had, val_t1_pos hden had]
        unfold addDbmConstraintQ
        refine holds_addDbm (holds_addDbm (holds_forgetAll hx' _) ?_) ?_
        · intro _
          rw [val_upd_self, val_upd_ne _ _ hkv]
          simp only [DBM.val]
          rw [add_sub_cancel_left]; exact hd
        · intro _
          rw [val_upd_self, val_upd_ne _ _ hkv]
          simp only [DBM.val]
          have e1 : x k - (x k + (b : Rat) / den) = -((b : Rat) / den) := by ring
          rw [e1]; exact hc
      · have had' : e k = - den := ha.resolve_left had
        rw [if_neg had, val_t1_neg hden had']
        refine holds_ite_set (holds_ite_set (holds_forgetAll hx' _) ?_) ?_
        · intro H _
          have h := H (k + 1) 0 ⟨by omega, by omega⟩
          rw [val_upd_zero, val_upd_ne _ _ hkv] at h
          rw [val_upd_self, val_upd_zero]
          simp only [DBM.val] at h
          have e1 : - x k + (b : Rat) / den - 0 = (b : Rat) / den + (0 - x k) := by ring
          rw [e1]; exact fin_le_addUp' hR hd h
        · intro H _
          have h := H 0 (k + 1) ⟨by omega, by omega⟩
          rw [val_upd_zero, val_upd_ne _ _ hkv] at h
          rw [val_upd_self, val_upd_zero]
          simp only [DBM.val] at h
          have e1 : 0 - (- x k + (b : Rat) / den) = (x k - 0) + -((b : Rat) / den) := by ring
          rw [e1]; exact fin_le_addUp' hR h hc

end PPLV.WR
