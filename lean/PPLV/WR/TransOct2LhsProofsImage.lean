import PPLV.WR.TransOct2LhsProofsSpecial
import PPLV.WR.TransOct2ProofsImage
/-!
# `Octagonal_Shape<T>::generalized_affine_image(lhs, relsym, rhs)`: the delegate and the whole function
-/
set_option linter.unusedVariables false
set_option linter.unusedSimpArgs false
namespace PPLV.WR
open ExtRat

/-- the hypothesis `hh` of the delegates for a call on `OctM.ofMat n m` marked strongly closed -/
theorem octLhs_hh_ofMat {up : Rat → ExtRat} {n : Nat} {m : Mat} (hh : HalfFiniteOn up m) :
    ∀ m', octCloseFirst up true (OctM.ofMat n m) = some m' → HalfFiniteOn up m' := by
  intro m' h
  simp only [octCloseFirst, if_true, Option.some.injEq] at h
  subst h
  exact octLhs_halfFinite_ofMat hh

/-- `lhs == a*v + b`: the delegate `generalized_affine_image(v, relsym', rhs - b_lhs, a)` -/
theorem octLhsImage_t1_sound {R : Rnd} (hR : R.Sound) {n : Nat} (rel : RelSym) {el er : Nat → Int} (bl br : Int)
    (h1 : exprT el (lastNonzero el n) = 1) (hc : CoeffExact R er) {m : Mat} (hh : HalfFiniteOn R.up m)
    {x x' : Nat → Rat} (hx : x ∈ γO n m)
    (hag : ∀ i, i < n → el i = 0 → x' i = x i)
    (hrel : rel.holds (linEval el x' n + bl) (linEval er x n + br)) :
    ∃ m', octLhsGenAffineImageCore R n rel el bl er br m = some m' ∧ x' ∈ γO n m' := by
  obtain ⟨hw0, ha0, hz⟩ := lhs_t1_zero h1
  obtain ⟨_, hval⟩ := linEval_t1 x' h1
  have hwn := lastNonzero_le el n
  have hj : lastNonzero el n - 1 < n := by omega
  rw [hval] at hrel
  have hnew := lhs_newRel_holds ha0 hrel
  have hcong : ∀ i, i < n → x' i = upd x (lastNonzero el n - 1) (x' (lastNonzero el n - 1)) i := by
    intro i hi
    unfold upd
    split
    · rename_i h; rw [h]
    · rename_i h; exact hag i hi (hz i hi h)
  obtain ⟨m', hm', hx2⟩ := octGenAffineImage_sound hR (OctM.ofMat n m) true hj
    (lhsNewRelSym rel (el (lastNonzero el n - 1))) (e := er) (b := br - bl) ha0 hc (octLhs_hh_ofMat hh)
    x (octLhs_mem_ofMat hx) _ hnew
  refine ⟨m', ?_, octLhs_holds_congr hcong hx2⟩
  unfold octLhsGenAffineImageCore
  dsimp only [lhsForm, lhsSpaceDim]
  rw [if_neg (by omega), if_pos h1]
  exact hm'

theorem octLhsGenAffineImageCore_sound {R : Rnd} (hR : R.Sound) {n : Nat} (rel : RelSym) {el er : Nat → Int}
    (bl br : Int) (hc : exprT el (lastNonzero el n) = 1 → CoeffExact R er) {m : Mat}
    (hh : exprT el (lastNonzero el n) = 1 → HalfFiniteOn R.up m) {x x' : Nat → Rat}
    (hx : x ∈ γO n m) (hag : ∀ i, i < n → el i = 0 → x' i = x i)
    (hrel : rel.holds (linEval el x' n + bl) (linEval er x n + br)) :
    ∃ m', octLhsGenAffineImageCore R n rel el bl er br m = some m' ∧ x' ∈ γO n m' := by
  by_cases h0 : exprT el (lastNonzero el n) = 0
  · exact octLhsImage_t0_sound hR rel bl br h0 hx hag hrel
  · by_cases h1 : exprT el (lastNonzero el n) = 1
    · exact octLhsImage_t1_sound hR rel bl br h1 (hc h1) (hh h1) hx hag hrel
    · exact octLhsImage_t2_sound hR rel bl br h0 h1 hx hag hrel

/-- `generalized_affine_image(lhs, relsym, rhs)` with the initial strong closure -/
theorem octLhsGenAffineImage_sound {R : Rnd} (hR : R.Sound) {n : Nat} (m : OctM n) (closed : Bool) (rel : RelSym)
    {el er : Nat → Int} (bl br : Int) (hc : exprT el (lastNonzero el n) = 1 → CoeffExact R er)
    (hh : exprT el (lastNonzero el n) = 1 → ∀ m', octCloseFirst R.up closed m = some m' → HalfFiniteOn R.up m')
    {x x' : Nat → Rat} (hx : x ∈ OctM.γ m) (hag : ∀ i, i < n → el i = 0 → x' i = x i)
    (hrel : rel.holds (linEval el x' n + bl) (linEval er x n + br)) :
    ∃ m', octLhsGenAffineImage R closed rel el bl er br m = some m' ∧ x' ∈ γO n m' := by
  obtain ⟨m1, h1, hx1⟩ := octCloseFirst_sound hR.up_le closed m hx
  obtain ⟨m', hm', hx'⟩ := octLhsGenAffineImageCore_sound hR rel bl br hc (fun h => hh h m1 h1) hx1 hag hrel
  exact ⟨m', by simp [octLhsGenAffineImage, h1, hm'], hx'⟩

end PPLV.WR
