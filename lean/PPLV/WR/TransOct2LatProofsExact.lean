import PPLV.WR.TransOct2LatProofsSem6
/-!
# `Octagonal_Shape<T>::upper_bound_assign` on matrices that are marked closed and are canonical:
the result is the least octagon
-/
set_option linter.unusedVariables false
namespace PPLV.WR
open ExtRat

/-- the meaning of the strongly-closed flag in exact arithmetic: the shape has a point and every stored
off-diagonal cell is the least bound of its shape -/
def octLatCanon (n : Nat) (m : Mat) : Prop :=
  (∃ q, q ∈ γO n m) ∧
    ∀ d : Mat, γO n m ⊆ γO n d → ∀ i j, i < 2 * n → j < rowSize i → i ≠ j → m i j ≤ d i j

/-- `upper_bound_assign` on two shapes marked strongly closed whose matrices are canonical
(`octLatCanon`): the result is contained in every octagon that contains both -/
theorem octLatUpperBound_least_closed (R : Rnd) (n : Nat) (m1 m2 : Mat) (hc1 : octLatCanon n m1)
    (hc2 : octLatCanon n m2) :
    ∃ r, octLatUpperBound R n true m1 true m2 = some r ∧ r.dim = n ∧ r.closed = true ∧
      ∀ d : Mat, γO n m1 ⊆ γO n d → γO n m2 ⊆ γO n d → γO n r.m ⊆ γO n d := by
  unfold octLatUpperBound octLatClose
  simp only [if_true]
  refine ⟨_, rfl, rfl, rfl, fun d h1 h2 p hp a b hab => ?_⟩
  have hpab := hp a b hab
  rw [octLatUpperBoundLoop_apply, if_pos ⟨hab.1, hab.2⟩] at hpab
  by_cases hne : a = b
  · subst hne
    obtain ⟨q, hq⟩ := hc1.1
    have := h1 hq a a hab
    simpa using this
  · exact le_trans' hpab (latMaxA_le (hc1.2 d h1 a b hab.1 hab.2 hne) (hc2.2 d h2 a b hab.1 hab.2 hne))

end PPLV.WR
