import PPLV.WR.BoxTransProofsExpr
import PPLV.WR.BoxTransProofsMaxMin
import PPLV.WR.BoxTransProofsRefine
/-!
# C03 stage 4 — `generalized_affine_image(lhs, relsym, rhs)` and
`generalized_affine_preimage(lhs, relsym, rhs)` of `Box<ITV>`: soundness

Image: every `y` that differs from a member `x` of the box on the variables of `lhs` only and
satisfies `lhs(y) ⋈ rhs(x)` belongs to the result.  Preimage: every `x` that differs from a
member `y` on the variables of `lhs` only with `lhs(y) ⋈ rhs(x)` belongs to the result.
-/
set_option linter.unusedVariables false
set_option linter.unusedSimpArgs false
namespace PPLV.WR.BoxT
open PPLV.Interval
open PPLV.Interval.ExtRat (ninf fin pinf)

/-! ## `unconstrainTerms` -/

theorem unconstrainTerms_seq_length (p : Policy) : ∀ (ts : List (Nat × Int)) (b : Box),
    (unconstrainTerms p b ts).seq.length = b.seq.length := by
  intro ts
  induction ts with
  | nil => intro b; rfl
  | cons t ts ih =>
    intro b
    obtain ⟨i, a⟩ := t
    simp only [unconstrainTerms]
    rw [ih]; simp

theorem unconstrainTerms_dim (p : Policy) (b : Box) (ts : List (Nat × Int)) :
    (unconstrainTerms p b ts).dim = b.dim := unconstrainTerms_seq_length p ts b

theorem unconstrainTerms_sound {p : Policy} {y : Nat → Rat} : ∀ {ts : List (Nat × Int)} {b : Box} {x : Nat → Rat},
    b.mem p x → (∀ k, (∀ a, (k, a) ∉ ts) → y k = x k) → (∀ t ∈ ts, t.1 < b.dim) →
    (unconstrainTerms p b ts).mem p y := by
  intro ts
  induction ts with
  | nil =>
    intro b x hx hy _
    simp only [unconstrainTerms]
    exact ⟨hx.1, fun k hk => by rw [hy k (by simp)]; exact hx.2 k hk⟩
  | cons t ts ih =>
    intro b x hx hy hlt
    obtain ⟨i, a⟩ := t
    simp only [unconstrainTerms]
    apply ih (x := upd x i (y i)) (Box.mem_setIv hx (mem_universe _ _))
    · intro k hk
      by_cases hki : k = i
      · subst hki; simp
      · rw [upd_other x _ hki]
        apply hy k
        intro a' hm
        rcases List.mem_cons.1 hm with h | h
        · exact hki (by cases h; rfl)
        · exact hk a' h
    · intro t ht
      have := hlt t (by simp [ht])
      simpa [Box.dim] using this

/-! ## dimensions are kept by `refine_with_constraint` -/

theorem lhs_applyBlock_len (cfg : Cfg) (B : Block) (b : Box) (c : Con) (k : Nat) (ak : Int) (s : Bool) :
    (applyBlock cfg B b c k ak s).seq.length = b.seq.length := by
  unfold applyBlock
  split
  · rfl
  · simp [Box.resetEmptyUpToDate]

theorem lhs_propagateStep_len (cfg : Cfg) (c : Con) (b : Box) (t : Nat × Int) :
    (propagateStep cfg c b t).seq.length = b.seq.length := by
  obtain ⟨k, ak⟩ := t
  unfold propagateStep
  simp only []
  split_ifs <;> simp [lhs_applyBlock_len]

theorem lhs_foldl_propagateStep_len (cfg : Cfg) (c : Con) : ∀ (ts : List (Nat × Int)) (b : Box),
    (ts.foldl (propagateStep cfg c) b).seq.length = b.seq.length := by
  intro ts
  induction ts with
  | nil => intro b; rfl
  | cons t ts ih => intro b; rw [List.foldl_cons, ih, lhs_propagateStep_len]

theorem lhs_refine_dim (cfg : Cfg) (b : Box) (c : Con) : (refineWithConstraint cfg b c).dim = b.dim := by
  unfold refineWithConstraint Box.dim
  split_ifs
  · rfl
  · unfold refineNoCheck
    split
    · unfold propagateConstraintNoCheck
      split
      · split_ifs <;> rfl
      · exact lhs_foldl_propagateStep_len _ _ _ _
    · split_ifs <;> rfl
    · simp [addIntervalConstraintNoCheck, Box.resetEmptyUpToDate]

/-! ## arithmetic -/

theorem lhs_A1 {c t h M : Rat} (hc : 0 < c) (H : c * t + h ≤ M) : t ≤ (M - h) / c := by
  rw [le_div_iff₀ hc]; linarith
theorem lhs_A1s {c t h M : Rat} (hc : 0 < c) (H : c * t + h < M) : t < (M - h) / c := by
  rw [lt_div_iff₀ hc]; linarith
theorem lhs_A2 {c t h m : Rat} (hc : 0 < c) (H : m ≤ c * t + h) : (m - h) / c ≤ t := by
  rw [div_le_iff₀ hc]; linarith
theorem lhs_A2s {c t h m : Rat} (hc : 0 < c) (H : m < c * t + h) : (m - h) / c < t := by
  rw [div_lt_iff₀ hc]; linarith
theorem lhs_A3 {c t h M : Rat} (hc : c < 0) (H : c * t + h ≤ M) : (M - h) / c ≤ t := by
  rw [div_le_iff_of_neg hc]; linarith
theorem lhs_A3s {c t h M : Rat} (hc : c < 0) (H : c * t + h < M) : (M - h) / c < t := by
  rw [div_lt_iff_of_neg hc]; linarith
theorem lhs_A4 {c t h m : Rat} (hc : c < 0) (H : m ≤ c * t + h) : t ≤ (m - h) / c := by
  rw [le_div_iff_of_neg hc]; linarith
theorem lhs_A4s {c t h m : Rat} (hc : c < 0) (H : m < c * t + h) : t < (m - h) / c := by
  rw [lt_div_iff_of_neg hc]; linarith

theorem lhs_num_le (q r : Rat) : (q.num : Rat) ≤ ((q.den : Int) : Rat) * r ↔ q ≤ r := by
  have hd : (0 : Rat) < (q.den : Rat) := by exact_mod_cast q.den_pos
  rw [← Rat.mul_den_eq_num q]
  push_cast
  constructor
  · intro h; by_contra hc; nlinarith
  · intro h; nlinarith

theorem lhs_num_lt (q r : Rat) : (q.num : Rat) < ((q.den : Int) : Rat) * r ↔ q < r := by
  have hd : (0 : Rat) < (q.den : Rat) := by exact_mod_cast q.den_pos
  rw [← Rat.mul_den_eq_num q]
  push_cast
  constructor
  · intro h; by_contra hc; nlinarith
  · intro h; nlinarith

theorem lhs_le_num (q r : Rat) : ((q.den : Int) : Rat) * r ≤ (q.num : Rat) ↔ r ≤ q := by
  have hd : (0 : Rat) < (q.den : Rat) := by exact_mod_cast q.den_pos
  rw [← Rat.mul_den_eq_num q]
  push_cast
  constructor
  · intro h; by_contra hc; nlinarith
  · intro h; nlinarith

theorem lhs_lt_num (q r : Rat) : ((q.den : Int) : Rat) * r < (q.num : Rat) ↔ r < q := by
  have hd : (0 : Rat) < (q.den : Rat) := by exact_mod_cast q.den_pos
  rw [← Rat.mul_den_eq_num q]
  push_cast
  constructor
  · intro h; by_contra hc; nlinarith
  · intro h; nlinarith

/-! ## the interval built from a bound and its inclusion flag -/

theorem lhs_ub_incl {p : Policy} {R : Rounding} (hR : R.Sound) {t q : Rat} {i : Bool} (h1 : t ≤ q)
    (h2 : i = false → t < q) : (buildC p R (if i = true then Rel.le else Rel.lt) q).mem p t := by
  apply buildC_sound hR
  cases i
  · simpa [Rel.holds] using h2 rfl
  · simpa [Rel.holds] using h1

theorem lhs_lb_incl {p : Policy} {R : Rounding} (hR : R.Sound) {t q : Rat} {i : Bool} (h1 : q ≤ t)
    (h2 : i = false → q < t) : (buildC p R (if i = true then Rel.ge else Rel.gt) q).mem p t := by
  apply buildC_sound hR
  cases i
  · simpa [Rel.holds] using h2 rfl
  · simpa [Rel.holds] using h1

/-! ## `generalized_affine_image(lhs, relsym, rhs)` -/

/-- the constant-`lhs` arm: `refine_with_constraint(lhs.inhomogeneous_term() ⋈ rhs)` -/
theorem lhs_image_const {cfg : Cfg} (hRef : RefineSound cfg) {b : Box} {rhs : LinExpr} {rel : Rel} {n : Int}
    {x : Nat → Rat} (hr : rhs.WF b.dim) (hrel : rel ≠ .ne) (hx : b.mem cfg.p x)
    (hy : Rel.holds rel (n : Rat) (rhs.eval x)) :
    (match rel with
      | .lt => refineWithConstraint cfg b (conLt (LinExpr.const n) rhs)
      | .le => refineWithConstraint cfg b (conLe (LinExpr.const n) rhs)
      | .eq => refineWithConstraint cfg b (mkCon (rhs.neg.add (LinExpr.const n)) .eq)
      | .ge => refineWithConstraint cfg b (conGe (LinExpr.const n) rhs)
      | .gt => refineWithConstraint cfg b (conGt (LinExpr.const n) rhs)
      | .ne => b).mem cfg.p x := by
  have hn : (LinExpr.const n).WF b.dim := LinExpr.WF.const _ _
  cases rel <;> simp only [Rel.holds] at hy ⊢
  · apply hRef _ _ _ (mkCon_WF (LinExpr.WF.add (LinExpr.WF.neg hr) hn)) hx
    rw [mkCon_holds]; simp only [Con.holds, LinExpr.eval_add, LinExpr.eval_neg, LinExpr.eval_const]
    linarith
  · exact hRef _ _ _ (conLt_WF hn hr) hx ((conLt_holds _ _ _).2 (by simpa using hy))
  · exact hRef _ _ _ (conLe_WF hn hr) hx ((conLe_holds _ _ _).2 (by simpa using hy))
  · exact hRef _ _ _ (conGt_WF hn hr) hx ((conGt_holds _ _ _).2 (by simpa using hy))
  · exact hRef _ _ _ (conGe_WF hn hr) hx ((conGe_holds _ _ _).2 (by simpa using hy))
  · exact absurd rfl hrel

theorem generalizedAffineImageLhs_sound {cfg : Cfg} {b : Box} {lhs rhs : LinExpr} {rel : Rel} {x y : Nat → Rat}
    (hS : cfg.Sound) (hRef : lhs.terms = [] → RefineSound cfg) (hl : lhs.WF b.dim) (hr : rhs.WF b.dim)
    (hrel : rel ≠ .ne) (hx : b.mem cfg.p x) (hag : AgreeOff lhs x y)
    (hy : Rel.holds rel (lhs.eval y) (rhs.eval x)) :
    (generalizedAffineImageLhs cfg b lhs rel rhs).mem cfg.p y := by
  unfold generalizedAffineImageLhs
  rw [hx.1]
  simp only [Bool.false_eq_true, if_false]
  -- the two calls of `max_min`
  have hb1 : (maxMin cfg.p b rhs true).2.mem cfg.p x := maxMin_mem_iff.2 hx
  have hd1 : (maxMin cfg.p b rhs true).2.dim = b.dim := maxMin_dim _ _ _ _
  have Hmax : ∀ M i, (maxMin cfg.p b rhs true).1 = some (M, i) →
      rhs.eval x ≤ M ∧ (i = false → rhs.eval x < M) := fun M i h => maxMin_sound_max hr h hx
  rcases h1 : maxMin cfg.p b rhs true with ⟨mx, b1⟩
  rw [h1] at hb1 hd1 Hmax
  simp only at hb1 hd1 Hmax ⊢
  have hb2 : (maxMin cfg.p b1 rhs false).2.mem cfg.p x := maxMin_mem_iff.2 hb1
  have hd2 : (maxMin cfg.p b1 rhs false).2.dim = b.dim := by rw [maxMin_dim, hd1]
  have Hmin : ∀ m i, (maxMin cfg.p b1 rhs false).1 = some (m, i) →
      m ≤ rhs.eval x ∧ (i = false → m < rhs.eval x) :=
    fun m i h => maxMin_sound_min (by rw [hd1]; exact hr) h hb1
  rcases h2 : maxMin cfg.p b1 rhs false with ⟨mn, b2⟩
  rw [h2] at hb2 hd2 Hmin
  simp only at hb2 hd2 Hmin ⊢
  rcases hts : lhs.terms with _ | ⟨⟨vid, coeff⟩, _ | ⟨t2, ts⟩⟩
  · -- constant lhs
    simp only []
    have hyx : y = x := by
      funext k; exact hag k ((LinExpr.terms_eq_nil_iff.1 hts) k)
    have he : lhs.eval x = (lhs.inhom : Rat) := by rw [LinExpr.eval_eq_terms, hts]; simp
    rw [hyx] at hy ⊢
    rw [he] at hy
    exact lhs_image_const (hRef hts) (by rw [hd2]; exact hr) hrel hb2 hy
  · -- one variable
    simp only []
    have hmem : (vid, coeff) ∈ lhs.terms := by rw [hts]; simp
    obtain ⟨hc0, hcv, _⟩ := LinExpr.mem_terms hmem
    have he := LinExpr.terms_singleton hts y
    rw [he] at hy
    have hyx : upd x vid (y vid) = y := by
      funext k
      by_cases hk : k = vid
      · subst hk; simp
      · rw [upd_other x _ hk]
        refine (hag k (LinExpr.coeff_eq_zero_of_not_mem_terms ?_)).symm
        intro a hm
        rw [hts] at hm
        simp only [List.mem_singleton, Prod.mk.injEq] at hm
        exact hk hm.1
    have key : ∀ I : Iv, I.mem cfg.p (y vid) → (b2.setIv vid I).mem cfg.p y := fun I hI => by
      have := Box.mem_setIv (v := vid) hb2 hI
      rwa [hyx] at this
    apply key
    generalize y vid = t at hy
    generalize rhs.eval x = r at hy Hmax Hmin
    generalize (lhs.inhom : Rat) = h at hy
    by_cases hc : coeff > 0
    · rw [if_pos hc]
      have hcq : (0 : Rat) < (coeff : Rat) := by exact_mod_cast hc
      cases rel <;> simp only [Rel.holds] at hy ⊢
      · -- eq
        apply build2_sound hS.R
        · intro r' q' hq
          rcases mn with _ | ⟨m, i⟩
          · simp at hq
          · simp only [Option.map, Option.some.injEq, Prod.mk.injEq] at hq
            obtain ⟨rfl, rfl⟩ := hq
            obtain ⟨g1, g2⟩ := Hmin m i rfl
            cases i
            · simp only [Bool.false_eq_true, if_false, Rel.holds]
              exact lhs_A2s hcq (by linarith [g2 rfl])
            · simp only [if_true, Rel.holds]
              exact lhs_A2 hcq (by linarith)
        · intro r' q' hq
          rcases mx with _ | ⟨M, i⟩
          · simp at hq
          · simp only [Option.map, Option.some.injEq, Prod.mk.injEq] at hq
            obtain ⟨rfl, rfl⟩ := hq
            obtain ⟨g1, g2⟩ := Hmax M i rfl
            cases i
            · simp only [Bool.false_eq_true, if_false, Rel.holds]
              exact lhs_A1s hcq (by linarith [g2 rfl])
            · simp only [if_true, Rel.holds]
              exact lhs_A1 hcq (by linarith)
      · -- lt
        rcases mx with _ | ⟨M, i⟩ <;> simp only [Option.map]
        · exact mem_universe _ _
        · obtain ⟨g1, g2⟩ := Hmax M i rfl
          exact buildC_sound hS.R (lhs_A1s hcq (by linarith))
      · -- le
        rcases mx with _ | ⟨M, i⟩ <;> simp only [Option.map]
        · exact mem_universe _ _
        · obtain ⟨g1, g2⟩ := Hmax M i rfl
          exact lhs_ub_incl hS.R (lhs_A1 hcq (by linarith)) (fun hi => lhs_A1s hcq (by linarith [g2 hi]))
      · -- gt
        rcases mn with _ | ⟨m, i⟩ <;> simp only [Option.map]
        · exact mem_universe _ _
        · obtain ⟨g1, g2⟩ := Hmin m i rfl
          exact buildC_sound hS.R (lhs_A2s hcq (by linarith))
      · -- ge
        rcases mn with _ | ⟨m, i⟩ <;> simp only [Option.map]
        · exact mem_universe _ _
        · obtain ⟨g1, g2⟩ := Hmin m i rfl
          exact lhs_lb_incl hS.R (lhs_A2 hcq (by linarith)) (fun hi => lhs_A2s hcq (by linarith [g2 hi]))
      · exact absurd rfl hrel
    · rw [if_neg hc]
      have hcq : (coeff : Rat) < 0 := by
        have : coeff < 0 := by omega
        exact_mod_cast this
      cases rel <;> simp only [Rel.holds] at hy ⊢
      · -- eq
        apply build2_sound hS.R
        · intro r' q' hq
          rcases mx with _ | ⟨M, i⟩
          · simp at hq
          · simp only [Option.map, Option.some.injEq, Prod.mk.injEq] at hq
            obtain ⟨rfl, rfl⟩ := hq
            obtain ⟨g1, g2⟩ := Hmax M i rfl
            cases i
            · simp only [Bool.false_eq_true, if_false, Rel.holds]
              exact lhs_A3s hcq (by linarith [g2 rfl])
            · simp only [if_true, Rel.holds]
              exact lhs_A3 hcq (by linarith)
        · intro r' q' hq
          rcases mn with _ | ⟨m, i⟩
          · simp at hq
          · simp only [Option.map, Option.some.injEq, Prod.mk.injEq] at hq
            obtain ⟨rfl, rfl⟩ := hq
            obtain ⟨g1, g2⟩ := Hmin m i rfl
            cases i
            · simp only [Bool.false_eq_true, if_false, Rel.holds]
              exact lhs_A4s hcq (by linarith [g2 rfl])
            · simp only [if_true, Rel.holds]
              exact lhs_A4 hcq (by linarith)
      · -- lt
        rcases mx with _ | ⟨M, i⟩ <;> simp only [Option.map]
        · exact mem_universe _ _
        · obtain ⟨g1, g2⟩ := Hmax M i rfl
          exact buildC_sound hS.R (lhs_A3s hcq (by linarith))
      · -- le
        rcases mx with _ | ⟨M, i⟩ <;> simp only [Option.map]
        · exact mem_universe _ _
        · obtain ⟨g1, g2⟩ := Hmax M i rfl
          exact lhs_lb_incl hS.R (lhs_A3 hcq (by linarith)) (fun hi => lhs_A3s hcq (by linarith [g2 hi]))
      · -- gt
        rcases mn with _ | ⟨m, i⟩ <;> simp only [Option.map]
        · exact mem_universe _ _
        · obtain ⟨g1, g2⟩ := Hmin m i rfl
          exact buildC_sound hS.R (lhs_A4s hcq (by linarith))
      · -- ge
        rcases mn with _ | ⟨m, i⟩ <;> simp only [Option.map]
        · exact mem_universe _ _
        · obtain ⟨g1, g2⟩ := Hmin m i rfl
          exact lhs_ub_incl hS.R (lhs_A4 hcq (by linarith)) (fun hi => lhs_A4s hcq (by linarith [g2 hi]))
      · exact absurd rfl hrel
  · -- several variables: all of them unconstrained
    simp only []
    rw [← hts]
    apply unconstrainTerms_sound hb2
    · intro k hk
      exact hag k (LinExpr.coeff_eq_zero_of_not_mem_terms hk)
    · rintro ⟨i, a⟩ ht
      rw [hd2]
      exact LinExpr.mem_terms_lt hl ht

/-! ## `generalized_affine_preimage(lhs, relsym, rhs)` -/

/-- the refinement by the infimum of `lhs` over the box: `min_den * rhs ≥ (>) min_num` -/
theorem lhs_pre_lower {cfg : Cfg} (hRef : RefineSound cfg) {b : Box} {rhs : LinExpr} {rel : Rel} {x : Nat → Rat}
    {q L : Rat} {incl : Bool} (hr : rhs.WF b.dim) (hx : b.mem cfg.p x) (h1 : q ≤ L) (h2 : incl = false → q < L)
    (hh : Rel.holds rel L (rhs.eval x)) :
    (if rel == .lt || rel == .le || rel == .eq then
        if rel == .lt || !incl then
          refineWithConstraint cfg b (conGt (rhs.scale (q.den : Int)) (LinExpr.const q.num))
        else refineWithConstraint cfg b (conGe (rhs.scale (q.den : Int)) (LinExpr.const q.num))
      else b).mem cfg.p x := by
  have hw1 := conGt_WF (LinExpr.WF.scale (q.den : Int) hr) (LinExpr.WF.const q.num b.dim)
  have hw2 := conGe_WF (LinExpr.WF.scale (q.den : Int) hr) (LinExpr.WF.const q.num b.dim)
  have hgt : q < rhs.eval x → (refineWithConstraint cfg b
      (conGt (rhs.scale (q.den : Int)) (LinExpr.const q.num))).mem cfg.p x := fun h =>
    hRef _ _ _ hw1 hx ((conGt_holds _ _ _).2 (by
      rw [LinExpr.eval_const, LinExpr.eval_scale]; exact (lhs_num_lt q _).2 h))
  have hge : q ≤ rhs.eval x → (refineWithConstraint cfg b
      (conGe (rhs.scale (q.den : Int)) (LinExpr.const q.num))).mem cfg.p x := fun h =>
    hRef _ _ _ hw2 hx ((conGe_holds _ _ _).2 (by
      rw [LinExpr.eval_const, LinExpr.eval_scale]; exact (lhs_num_le q _).2 h))
  cases rel <;> cases incl <;> simp only [Rel.holds] at hh <;> simp
  · exact hgt (by linarith [h2 rfl])
  · exact hge (by linarith)
  · exact hgt (by linarith)
  · exact hgt (by linarith)
  · exact hgt (by linarith [h2 rfl])
  · exact hge (by linarith)
  all_goals exact hx

theorem lhs_pre_lower_dim {cfg : Cfg} {b : Box} {rhs : LinExpr} {rel : Rel} {q : Rat} {incl : Bool} :
    (if rel == .lt || rel == .le || rel == .eq then
        if rel == .lt || !incl then
          refineWithConstraint cfg b (conGt (rhs.scale (q.den : Int)) (LinExpr.const q.num))
        else refineWithConstraint cfg b (conGe (rhs.scale (q.den : Int)) (LinExpr.const q.num))
      else b).dim = b.dim := by
  split_ifs <;> first | rfl | exact lhs_refine_dim _ _ _

/-- the refinement by the supremum of `lhs` over the box: `max_den * rhs ≤ (<) max_num` -/
theorem lhs_pre_upper {cfg : Cfg} (hRef : RefineSound cfg) {b : Box} {rhs : LinExpr} {rel : Rel} {x : Nat → Rat}
    {q L : Rat} {incl : Bool} (hr : rhs.WF b.dim) (hx : b.mem cfg.p x) (h1 : L ≤ q) (h2 : incl = false → L < q)
    (hh : Rel.holds rel L (rhs.eval x)) :
    (if rel == .gt || rel == .ge || rel == .eq then
        if rel == .gt || !incl then
          refineWithConstraint cfg b (conLt (rhs.scale (q.den : Int)) (LinExpr.const q.num))
        else refineWithConstraint cfg b (conLe (rhs.scale (q.den : Int)) (LinExpr.const q.num))
      else b).mem cfg.p x := by
  have hw1 := conLt_WF (LinExpr.WF.scale (q.den : Int) hr) (LinExpr.WF.const q.num b.dim)
  have hw2 := conLe_WF (LinExpr.WF.scale (q.den : Int) hr) (LinExpr.WF.const q.num b.dim)
  have hlt : rhs.eval x < q → (refineWithConstraint cfg b
      (conLt (rhs.scale (q.den : Int)) (LinExpr.const q.num))).mem cfg.p x := fun h =>
    hRef _ _ _ hw1 hx ((conLt_holds _ _ _).2 (by
      rw [LinExpr.eval_const, LinExpr.eval_scale]; exact (lhs_lt_num q _).2 h))
  have hle : rhs.eval x ≤ q → (refineWithConstraint cfg b
      (conLe (rhs.scale (q.den : Int)) (LinExpr.const q.num))).mem cfg.p x := fun h =>
    hRef _ _ _ hw2 hx ((conLe_holds _ _ _).2 (by
      rw [LinExpr.eval_const, LinExpr.eval_scale]; exact (lhs_le_num q _).2 h))
  cases rel <;> cases incl <;> simp only [Rel.holds] at hh <;> simp
  · exact hlt (by linarith [h2 rfl])
  · exact hle (by linarith)
  · exact hx
  · exact hx
  · exact hx
  · exact hx
  · exact hlt (by linarith)
  · exact hlt (by linarith)
  · exact hlt (by linarith [h2 rfl])
  · exact hle (by linarith)
  all_goals exact hx

theorem lhs_pre_upper_dim {cfg : Cfg} {b : Box} {rhs : LinExpr} {rel : Rel} {q : Rat} {incl : Bool} :
    (if rel == .gt || rel == .ge || rel == .eq then
        if rel == .gt || !incl then
          refineWithConstraint cfg b (conLt (rhs.scale (q.den : Int)) (LinExpr.const q.num))
        else refineWithConstraint cfg b (conLe (rhs.scale (q.den : Int)) (LinExpr.const q.num))
      else b).dim = b.dim := by
  split_ifs <;> first | rfl | exact lhs_refine_dim _ _ _

theorem generalizedAffinePreimageLhs_sound {cfg : Cfg} {b : Box} {lhs rhs : LinExpr} {rel : Rel}
    {x y : Nat → Rat} (hS : cfg.Sound) (hRef : RefineSound cfg) (hl : lhs.WF b.dim) (hr : rhs.WF b.dim)
    (hrel : rel ≠ .ne) (hy : b.mem cfg.p y) (hag : AgreeOff lhs x y)
    (hh : Rel.holds rel (lhs.eval y) (rhs.eval x)) :
    (generalizedAffinePreimageLhs cfg b lhs rel rhs).mem cfg.p x := by
  unfold generalizedAffinePreimageLhs
  obtain ⟨he0, hm0, _⟩ := Box.isEmptyQ_of_mem hy
  have hd0 : (b.isEmptyQ cfg.p).2.dim = b.dim := Box.isEmptyQ_dim _ _
  rcases h0 : b.isEmptyQ cfg.p with ⟨em, b0⟩
  rw [h0] at he0 hm0 hd0
  simp only at he0 hm0 hd0 ⊢
  subst he0
  simp only [Bool.false_eq_true, if_false]
  have hl0 : lhs.WF b0.dim := by rw [hd0]; exact hl
  have hr0 : rhs.WF b0.dim := by rw [hd0]; exact hr
  rcases hts : lhs.terms with _ | ⟨t, ts⟩
  · -- constant lhs: `x = y`
    simp only []
    have hxy : y = x := by
      funext k; exact hag k ((LinExpr.terms_eq_nil_iff.1 hts) k)
    subst hxy
    cases rel <;> simp only [Rel.holds] at hh ⊢
    · exact hRef _ _ _ (conEq_WF hl0 hr0) hm0 ((conEq_holds _ _ _).2 hh)
    · exact hRef _ _ _ (conLt_WF hl0 hr0) hm0 ((conLt_holds _ _ _).2 hh)
    · exact hRef _ _ _ (conLe_WF hl0 hr0) hm0 ((conLe_holds _ _ _).2 hh)
    · exact hRef _ _ _ (conGt_WF hl0 hr0) hm0 ((conGt_holds _ _ _).2 hh)
    · exact hRef _ _ _ (conGe_WF hl0 hr0) hm0 ((conGe_holds _ _ _).2 hh)
    · exact absurd rfl hrel
  · simp only []
    rw [← hts]
    -- the two calls of `max_min`
    have hb1 : (maxMin cfg.p b0 lhs false).2.mem cfg.p y := maxMin_mem_iff.2 hm0
    have hd1 : (maxMin cfg.p b0 lhs false).2.dim = b.dim := by rw [maxMin_dim, hd0]
    have Hmin : ∀ m i, (maxMin cfg.p b0 lhs false).1 = some (m, i) →
        m ≤ lhs.eval y ∧ (i = false → m < lhs.eval y) := fun m i h => maxMin_sound_min hl0 h hm0
    rcases h1 : maxMin cfg.p b0 lhs false with ⟨mn, b1⟩
    rw [h1] at hb1 hd1 Hmin
    simp only at hb1 hd1 Hmin ⊢
    have hb2 : (maxMin cfg.p b1 lhs true).2.mem cfg.p y := maxMin_mem_iff.2 hb1
    have hd2 : (maxMin cfg.p b1 lhs true).2.dim = b.dim := by rw [maxMin_dim, hd1]
    have Hmax : ∀ M i, (maxMin cfg.p b1 lhs true).1 = some (M, i) →
        lhs.eval y ≤ M ∧ (i = false → lhs.eval y < M) :=
      fun M i h => maxMin_sound_max (by rw [hd1]; exact hl) h hb1
    rcases h2 : maxMin cfg.p b1 lhs true with ⟨mx, b2⟩
    rw [h2] at hb2 hd2 Hmax
    simp only at hb2 hd2 Hmax ⊢
    -- the variables of lhs are forgotten
    have hb3 : (unconstrainTerms cfg.p b2 lhs.terms).mem cfg.p x := by
      apply unconstrainTerms_sound hb2
      · intro k hk
        exact (hag k (LinExpr.coeff_eq_zero_of_not_mem_terms hk)).symm
      · rintro ⟨i, a⟩ ht
        rw [hd2]
        exact LinExpr.mem_terms_lt hl ht
    have hr3 : rhs.WF (unconstrainTerms cfg.p b2 lhs.terms).dim := by
      rw [unconstrainTerms_dim, hd2]; exact hr
    rcases mn with _ | ⟨qn, iN⟩ <;> rcases mx with _ | ⟨qx, iX⟩ <;> simp only []
    · exact hb3
    · obtain ⟨g1, g2⟩ := Hmax qx iX rfl
      exact lhs_pre_upper hRef hr3 hb3 g1 g2 hh
    · obtain ⟨g1, g2⟩ := Hmin qn iN rfl
      exact lhs_pre_lower hRef hr3 hb3 g1 g2 hh
    · obtain ⟨g1, g2⟩ := Hmin qn iN rfl
      obtain ⟨g3, g4⟩ := Hmax qx iX rfl
      have m4 := lhs_pre_lower (q := qn) (incl := iN) hRef hr3 hb3 g1 g2 hh
      exact lhs_pre_upper hRef (by rw [lhs_pre_lower_dim]; exact hr3) m4 g3 g4 hh

/-! ## non-vacuity -/

theorem lhsEx_mem : (Box.univ Policy.rational 2).mem Policy.rational (fun _ => 3) := by
  refine ⟨rfl, fun k hk => ?_⟩
  have : k < 2 := by simpa [Box.univ] using hk
  have hg : (Box.univ Policy.rational 2).get k = Iv.universe Policy.rational := by
    rcases k with _ | _ | k
    · rfl
    · rfl
    · omega
  rw [hg]; exact mem_universe _ _

theorem lhsEx_agree : AgreeOff ⟨[2], 1⟩ (fun _ => 3) (upd (fun _ => 3) 0 1) := by
  intro k hk
  by_cases h : k = 0
  · subst h; simp [LinExpr.coeff] at hk
  · simp [upd, h]

/-- `2·x₀ + 1 ≤ x₁` on the universe: `x = (3,3)`, `y = (1,3)` -/
example : (generalizedAffineImageLhs Cfg.mpq (Box.univ Policy.rational 2) ⟨[2], 1⟩ .le ⟨[0, 1], 0⟩).mem
    Policy.rational (upd (fun _ => 3) 0 1) :=
  generalizedAffineImageLhs_sound (cfg := Cfg.mpq) Cfg.mpq_sound (fun h => absurd h (by decide))
    (by simp [LinExpr.WF, Box.univ, Box.dim]) (by simp [LinExpr.WF, Box.univ, Box.dim]) (by decide) lhsEx_mem
    lhsEx_agree
    (by norm_num [Rel.holds, LinExpr.eval, LinExpr.dot, upd])

/-- the preimage of the same relation: `y = (3,3)` in the box, `x = (1,3)` with `2·3 + 1 ≥ x₁(x) = 3` -/
example (hRef : RefineSound Cfg.mpq) :
    (generalizedAffinePreimageLhs Cfg.mpq (Box.univ Policy.rational 2) ⟨[2], 1⟩ .ge ⟨[0, 1], 0⟩).mem
      Policy.rational (upd (fun _ => 3) 0 1) :=
  generalizedAffinePreimageLhs_sound (cfg := Cfg.mpq) (y := fun _ => 3) Cfg.mpq_sound hRef
    (by simp [LinExpr.WF, Box.univ, Box.dim]) (by simp [LinExpr.WF, Box.univ, Box.dim]) (by decide) lhsEx_mem
    (by intro k hk
        by_cases h : k = 0
        · subst h; simp [LinExpr.coeff] at hk
        · simp [upd, h])
    (by norm_num [Rel.holds, LinExpr.eval, LinExpr.dot, upd])

example : (unconstrainTerms Policy.rational (Box.univ Policy.rational 2) [(0, 2), (1, -1)]).mem Policy.rational
    (fun k => if k = 0 then 7 else if k = 1 then 8 else 3) :=
  unconstrainTerms_sound lhsEx_mem (by
    intro k hk
    have h0 : k ≠ 0 := fun h => hk 2 (by simp [h])
    have h1 : k ≠ 1 := fun h => hk (-1) (by simp [h])
    simp [h0, h1]) (by decide)

end PPLV.WR.BoxT
