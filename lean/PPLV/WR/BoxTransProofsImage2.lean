import PPLV.WR.BoxTransProofsImage
/-!
# C03 stage 4 — soundness of `generalized_affine_preimage(var, relsym, expr, denominator)`

`x` is kept whenever some value `y` of `var` with `y ⋈ expr(x)/denominator` gives a point of the
box.  The non-invertible case refines with a constraint on the other variables: its soundness
is the hypothesis `RefineSound cfg` (needed in that case only).
-/
set_option linter.unusedVariables false
namespace PPLV.WR.BoxT
open PPLV.Interval
open PPLV.Interval.ExtRat (ninf fin pinf)

/-! ## relation symbols -/

theorem Rel.holds_sub {rel : Rel} {a c : Rat} : Rel.holds rel a c ↔ Rel.holds rel 0 (c - a) := by
  cases rel <;> simp only [Rel.holds]
  · constructor <;> intro h <;> linarith
  · constructor <;> intro h <;> linarith
  · constructor <;> intro h <;> linarith
  · constructor <;> intro h <;> linarith
  · constructor <;> intro h <;> linarith
  · constructor
    · intro h h'; exact h (by linarith)
    · intro h h'; exact h (by linarith)

theorem Rel.holds_mul_pos {rel : Rel} {k d : Rat} (hk : 0 < k) (h : Rel.holds rel 0 d) : Rel.holds rel 0 (k * d) := by
  cases rel <;> simp only [Rel.holds] at h ⊢
  · rw [← h]; simp
  · exact mul_pos hk h
  · exact mul_nonneg hk.le h
  · exact mul_neg_of_pos_of_neg hk h
  · exact mul_nonpos_of_nonneg_of_nonpos hk.le h
  · intro h'
    rcases mul_eq_zero.1 h'.symm with h1 | h1
    · exact absurd h1 hk.ne'
    · exact h h1.symm

theorem Rel.holds_mul_neg {rel : Rel} {k d : Rat} (hk : k < 0) (h : Rel.holds rel 0 d) :
    Rel.holds (Rel.reversed rel) 0 (k * d) := by
  cases rel <;> simp only [Rel.holds, Rel.reversed] at h ⊢
  · rw [← h]; simp
  · exact mul_neg_of_neg_of_pos hk h
  · exact mul_nonpos_of_nonpos_of_nonneg hk.le h
  · exact mul_pos_of_neg_of_neg hk h
  · exact mul_nonneg_of_nonpos_of_nonpos hk.le h
  · intro h'
    rcases mul_eq_zero.1 h'.symm with h1 | h1
    · exact absurd h1 hk.ne
    · exact h h1.symm

theorem Rel.reversed_ne_ne {rel : Rel} (h : rel ≠ .ne) : Rel.reversed rel ≠ .ne := by
  cases rel <;> simp [Rel.reversed] at h ⊢

/-- multiplying `y ⋈ E/den` by `den` -/
theorem rel_scale_den {rel : Rel} {den : Int} {y E : Rat} (hd : den ≠ 0) (hy : Rel.holds rel y (E / (den : Rat))) :
    Rel.holds (if den > 0 then rel else Rel.reversed rel) ((den : Rat) * y) E := by
  have hdq : (den : Rat) ≠ 0 := by exact_mod_cast hd
  have h0 := Rel.holds_sub.1 hy
  have e1 : E - (den : Rat) * y = (den : Rat) * (E / (den : Rat) - y) := by field_simp
  rw [Rel.holds_sub, e1]
  split
  · rename_i hp
    exact Rel.holds_mul_pos (by exact_mod_cast hp) h0
  · rename_i hp
    have : den < 0 := lt_of_le_of_ne (not_lt.1 hp) hd
    exact Rel.holds_mul_neg (by exact_mod_cast this) h0

theorem intSgn_pos {z : Int} (h : 0 < z) : intSgn z = 1 := by
  unfold intSgn
  rw [if_neg (by omega)]
  have : (z == 0) = false := by simpa using (by omega : z ≠ 0)
  simp [this]

theorem intSgn_neg {z : Int} (h : z < 0) : intSgn z = -1 := by
  unfold intSgn; rw [if_pos h]

theorem rat_num_lt_iff (q E : Rat) : (q.num : Rat) < ((q.den : Int) : Rat) * E ↔ q < E := by
  have hpos : (0 : Rat) < (q.den : Rat) := by exact_mod_cast q.den_pos
  rw [← Rat.mul_den_eq_num q]
  push_cast
  constructor <;> intro h <;> nlinarith

theorem rat_num_le_iff (q E : Rat) : (q.num : Rat) ≤ ((q.den : Int) : Rat) * E ↔ q ≤ E := by
  have hpos : (0 : Rat) < (q.den : Rat) := by exact_mod_cast q.den_pos
  rw [← Rat.mul_den_eq_num q]
  push_cast
  constructor <;> intro h <;> nlinarith

theorem rat_lt_num_iff (q E : Rat) : ((q.den : Int) : Rat) * E < (q.num : Rat) ↔ E < q := by
  have hpos : (0 : Rat) < (q.den : Rat) := by exact_mod_cast q.den_pos
  rw [← Rat.mul_den_eq_num q]
  push_cast
  constructor <;> intro h <;> nlinarith

theorem rat_le_num_iff (q E : Rat) : ((q.den : Int) : Rat) * E ≤ (q.num : Rat) ↔ E ≤ q := by
  have hpos : (0 : Rat) < (q.den : Rat) := by exact_mod_cast q.den_pos
  rw [← Rat.mul_den_eq_num q]
  push_cast
  constructor <;> intro h <;> nlinarith

/-! ## the refinement step of the non-invertible case -/

/-- lines 3760–3816 of Box_templates.hh: the constraint added from `max_min(denominator*var)` -/
def gapRefine (cfg : Cfg) (b : Box) (crel : Rel) (mx mn : Option (Rat × Bool)) (e : LinExpr) : Box :=
  match crel with
  | .lt =>
    match mn with
    | some (q, _) => refineWithConstraint cfg b (conLt (LinExpr.const q.num) (e.scale (q.den : Int)))
    | none => b
  | .le =>
    match mn with
    | some (q, incl) =>
      if incl then refineWithConstraint cfg b (conLe (LinExpr.const q.num) (e.scale (q.den : Int)))
      else refineWithConstraint cfg b (conLt (LinExpr.const q.num) (e.scale (q.den : Int)))
    | none => b
  | .ge =>
    match mx with
    | some (q, incl) =>
      if incl then refineWithConstraint cfg b (conGe (LinExpr.const q.num) (e.scale (q.den : Int)))
      else refineWithConstraint cfg b (conGt (LinExpr.const q.num) (e.scale (q.den : Int)))
    | none => b
  | .gt =>
    match mx with
    | some (q, _) => refineWithConstraint cfg b (conGt (LinExpr.const q.num) (e.scale (q.den : Int)))
    | none => b
  | _ => b

theorem gapRefine_sound {cfg : Cfg} (hRef : RefineSound cfg) {b : Box} {crel : Rel} {mx mn : Option (Rat × Bool)}
    {e : LinExpr} {z : Nat → Rat} {t : Rat}
    (hwf : e.WF b.dim) (hz : b.mem cfg.p z) (hcr : Rel.holds crel t (e.eval z))
    (hmx : ∀ q incl, mx = some (q, incl) → t ≤ q ∧ (incl = false → t < q))
    (hmn : ∀ q incl, mn = some (q, incl) → q ≤ t ∧ (incl = false → q < t)) :
    (gapRefine cfg b crel mx mn e).mem cfg.p z := by
  have hc : ∀ q : Rat, (LinExpr.const q.num).WF b.dim := fun q => LinExpr.WF.const _ _
  have hs : ∀ q : Rat, (e.scale (q.den : Int)).WF b.dim := fun q => LinExpr.WF.scale _ hwf
  cases crel with
  | eq => exact hz
  | ne => exact hz
  | lt =>
    have hcr' : t < e.eval z := hcr
    rcases mn with _ | ⟨q, incl⟩
    · exact hz
    · obtain ⟨h1, h2⟩ := hmn q incl rfl
      simp only [gapRefine]
      refine hRef _ _ _ (conLt_WF (hc q) (hs q)) hz ((conLt_holds _ _ _).2 ?_)
      rw [LinExpr.eval_const, LinExpr.eval_scale, rat_num_lt_iff]
      linarith
  | le =>
    have hcr' : t ≤ e.eval z := hcr
    rcases mn with _ | ⟨q, incl⟩
    · exact hz
    · obtain ⟨h1, h2⟩ := hmn q incl rfl
      simp only [gapRefine]
      cases incl
      · simp only [Bool.false_eq_true, if_false]
        refine hRef _ _ _ (conLt_WF (hc q) (hs q)) hz ((conLt_holds _ _ _).2 ?_)
        rw [LinExpr.eval_const, LinExpr.eval_scale, rat_num_lt_iff]
        linarith [h2 rfl]
      · simp only [if_true]
        refine hRef _ _ _ (conLe_WF (hc q) (hs q)) hz ((conLe_holds _ _ _).2 ?_)
        rw [LinExpr.eval_const, LinExpr.eval_scale, rat_num_le_iff]
        linarith
  | ge =>
    have hcr' : e.eval z ≤ t := hcr
    rcases mx with _ | ⟨q, incl⟩
    · exact hz
    · obtain ⟨h1, h2⟩ := hmx q incl rfl
      simp only [gapRefine]
      cases incl
      · simp only [Bool.false_eq_true, if_false]
        refine hRef _ _ _ (conGt_WF (hc q) (hs q)) hz ((conGt_holds _ _ _).2 ?_)
        rw [LinExpr.eval_const, LinExpr.eval_scale, rat_lt_num_iff]
        linarith [h2 rfl]
      · simp only [if_true]
        refine hRef _ _ _ (conGe_WF (hc q) (hs q)) hz ((conGe_holds _ _ _).2 ?_)
        rw [LinExpr.eval_const, LinExpr.eval_scale, rat_le_num_iff]
        linarith
  | gt =>
    have hcr' : e.eval z < t := hcr
    rcases mx with _ | ⟨q, incl⟩
    · exact hz
    · obtain ⟨h1, h2⟩ := hmx q incl rfl
      simp only [gapRefine]
      refine hRef _ _ _ (conGt_WF (hc q) (hs q)) hz ((conGt_holds _ _ _).2 ?_)
      rw [LinExpr.eval_const, LinExpr.eval_scale, rat_lt_num_iff]
      linarith

/-! ## `generalized_affine_preimage` -/

theorem generalizedAffinePreimage_eq (cfg : Cfg) (b : Box) (v : Nat) (rel : Rel) (e : LinExpr) (den : Int) :
    generalizedAffinePreimage cfg b v rel e den =
      if rel == .eq then affinePreimage cfg b v e den
      else if e.coeff v != 0 then
        generalizedAffineImage cfg b v
          (if intSgn den == intSgn (-(e.coeff v)) then rel else Rel.reversed rel)
          (e.sub (LinExpr.var (den + e.coeff v) v)) (-(e.coeff v))
      else
        let r1 := maxMin cfg.p b (LinExpr.var den v) true
        let r2 := maxMin cfg.p r1.2 (LinExpr.var den v) false
        let b3 := gapRefine cfg r2.2 (if den > 0 then rel else Rel.reversed rel) r1.1 r2.1 e
        if (b3.isEmptyQ cfg.p).1 then (b3.isEmptyQ cfg.p).2
        else (b3.isEmptyQ cfg.p).2.setIv v (Iv.universe cfg.p) := by
  unfold generalizedAffinePreimage
  split
  · rfl
  · split
    · rfl
    · simp only []
      rcases h1 : maxMin cfg.p b (LinExpr.var den v) true with ⟨mx, b1⟩
      simp only []
      rcases h2 : maxMin cfg.p b1 (LinExpr.var den v) false with ⟨mn, b2⟩
      simp only []
      unfold gapRefine
      rcases h3 : Box.isEmptyQ cfg.p _ with ⟨em, b4⟩
      rfl

theorem generalizedAffinePreimage_sound {cfg : Cfg} (hS : cfg.Sound) {b : Box} {v : Nat} {rel : Rel} {e : LinExpr}
    {den : Int} {x : Nat → Rat} {y : Rat}
    (hRef : e.coeff v = 0 → rel ≠ .eq → RefineSound cfg)
    (hv : v < b.dim) (hwf : e.WF b.dim) (hd : den ≠ 0) (hrel : rel ≠ .ne)
    (hx : b.mem cfg.p (upd x v y)) (hy : Rel.holds rel y (e.eval x / (den : Rat))) :
    (generalizedAffinePreimage cfg b v rel e den).mem cfg.p x := by
  rw [generalizedAffinePreimage_eq]
  have hdq : (den : Rat) ≠ 0 := by exact_mod_cast hd
  split
  · rename_i hr
    have : rel = .eq := by simpa using hr
    subst this
    have hy' : y = e.eval x / (den : Rat) := hy
    rw [hy'] at hx
    exact affinePreimage_sound hS hv hwf hd hx
  · rename_i hr
    have hreq : rel ≠ .eq := by simpa using hr
    split
    · rename_i hc
      have hvc : e.coeff v ≠ 0 := by simpa using hc
      have hvcq : ((e.coeff v : Int) : Rat) ≠ 0 := by exact_mod_cast hvc
      have h0 := Rel.holds_sub.1 hy
      have hval : (e.sub (LinExpr.var (den + e.coeff v) v)).eval (upd x v y) / ((-(e.coeff v) : Int) : Rat)
          = x v + ((den : Rat) / (-(e.coeff v : Rat))) * (e.eval x / (den : Rat) - y) := by
        simp only [LinExpr.eval_sub, LinExpr.eval_var, upd_same]
        rw [LinExpr.eval_upd]
        push_cast
        field_simp
        ring
      have hrel' : (if intSgn den == intSgn (-(e.coeff v)) then rel else Rel.reversed rel) ≠ .ne := by
        split
        · exact hrel
        · exact Rel.reversed_ne_ne hrel
      have hy' : Rel.holds (if intSgn den == intSgn (-(e.coeff v)) then rel else Rel.reversed rel) (x v)
          ((e.sub (LinExpr.var (den + e.coeff v) v)).eval (upd x v y) / ((-(e.coeff v) : Int) : Rat)) := by
        rw [hval, Rel.holds_sub]
        have e1 : x v + ((den : Rat) / (-(e.coeff v : Rat))) * (e.eval x / (den : Rat) - y) - x v
            = ((den : Rat) / (-(e.coeff v : Rat))) * (e.eval x / (den : Rat) - y) := by ring
        rw [e1]
        rcases lt_or_gt_of_ne hd with hdn | hdp <;> rcases lt_or_gt_of_ne hvc with hvn | hvp
        · have hdn' : (den : Rat) < 0 := by exact_mod_cast hdn
          have hvn' : ((e.coeff v : Int) : Rat) < 0 := by exact_mod_cast hvn
          rw [intSgn_neg hdn, intSgn_pos (by omega : 0 < -(e.coeff v))]
          simp only [show ((-1 : Int) == 1) = false by decide, Bool.false_eq_true, if_false]
          exact Rel.holds_mul_neg (div_neg_of_neg_of_pos hdn' (by linarith)) h0
        · have hdn' : (den : Rat) < 0 := by exact_mod_cast hdn
          have hvp' : (0 : Rat) < ((e.coeff v : Int) : Rat) := by exact_mod_cast hvp
          rw [intSgn_neg hdn, intSgn_neg (by omega : -(e.coeff v) < 0)]
          simp only [beq_self_eq_true, if_true]
          exact Rel.holds_mul_pos (div_pos_of_neg_of_neg hdn' (by linarith)) h0
        · have hdp' : (0 : Rat) < (den : Rat) := by exact_mod_cast hdp
          have hvn' : ((e.coeff v : Int) : Rat) < 0 := by exact_mod_cast hvn
          rw [intSgn_pos hdp, intSgn_pos (by omega : 0 < -(e.coeff v))]
          simp only [beq_self_eq_true, if_true]
          exact Rel.holds_mul_pos (div_pos hdp' (by linarith)) h0
        · have hdp' : (0 : Rat) < (den : Rat) := by exact_mod_cast hdp
          have hvp' : (0 : Rat) < ((e.coeff v : Int) : Rat) := by exact_mod_cast hvp
          rw [intSgn_pos hdp, intSgn_neg (by omega : -(e.coeff v) < 0)]
          simp only [show ((1 : Int) == -1) = false by decide, Bool.false_eq_true, if_false]
          exact Rel.holds_mul_neg (div_neg_of_pos_of_neg hdp' (by linarith)) h0
      have := generalizedAffineImage_sound hS hv (LinExpr.WF.sub hwf (LinExpr.WF.var _ hv))
        (neg_ne_zero.2 hvc) hrel' hx hy'
      rwa [upd_upd_self] at this
    · rename_i hc
      have hvc : e.coeff v = 0 := by simpa using hc
      have hR := hRef hvc hreq
      simp only []
      have hdv : (LinExpr.var den v).WF b.dim := LinExpr.WF.var _ hv
      have hz1 : (maxMin cfg.p b (LinExpr.var den v) true).2.mem cfg.p (upd x v y) := maxMin_mem_iff.2 hx
      have hd1 : (maxMin cfg.p b (LinExpr.var den v) true).2.dim = b.dim := maxMin_dim _ _ _ _
      have hz2 : (maxMin cfg.p (maxMin cfg.p b (LinExpr.var den v) true).2 (LinExpr.var den v) false).2.mem cfg.p
          (upd x v y) := maxMin_mem_iff.2 hz1
      have hd2 : (maxMin cfg.p (maxMin cfg.p b (LinExpr.var den v) true).2 (LinExpr.var den v) false).2.dim = b.dim := by
        rw [maxMin_dim, hd1]
      have hdve : (LinExpr.var den v).eval (upd x v y) = (den : Rat) * y := by simp
      have hez : e.eval (upd x v y) = e.eval x := LinExpr.eval_upd_of_coeff_zero hvc
      have hcr := rel_scale_den hd hy
      rw [← hez] at hcr
      have hb3 := gapRefine_sound (cfg := cfg) hR (b := (maxMin cfg.p (maxMin cfg.p b (LinExpr.var den v) true).2
          (LinExpr.var den v) false).2)
        (mx := (maxMin cfg.p b (LinExpr.var den v) true).1)
        (mn := (maxMin cfg.p (maxMin cfg.p b (LinExpr.var den v) true).2 (LinExpr.var den v) false).1)
        (by rw [hd2]; exact hwf) hz2 hcr
        (by
          intro q incl hq
          have := maxMin_sound_max hdv hq hx
          rwa [hdve] at this)
        (by
          intro q incl hq
          have := maxMin_sound_min (by rw [hd1]; exact hdv) hq hz1
          rwa [hdve] at this)
      obtain ⟨h1, h2, h3⟩ := Box.isEmptyQ_of_mem hb3
      rw [h1]
      simp only [Bool.false_eq_true, if_false]
      have := Box.mem_setIv (v := v) h2 (Iv.mem_universe cfg.p (x v))
      rwa [upd_upd_self] at this

/-! ## non-vacuity -/

example : (generalizedAffinePreimage Cfg.mpq (Box.univ Policy.rational 2) 0 .le ⟨[2, 1], 0⟩ 1).mem Policy.rational
    (fun _ => 1) :=
  generalizedAffinePreimage_sound (y := 0) Cfg.mpq_sound (fun h => absurd h (by decide)) (by decide)
    (by unfold LinExpr.WF; decide) (by decide) (by decide) (Box.univ_mem _ _ _)
    (by norm_num [Rel.holds, LinExpr.eval, LinExpr.dot])

example (hRef : RefineSound Cfg.mpq) :
    (generalizedAffinePreimage Cfg.mpq (Box.univ Policy.rational 2) 0 .ge ⟨[0, 1], 0⟩ (-3)).mem Policy.rational
    (fun _ => 1) :=
  generalizedAffinePreimage_sound (y := 0) Cfg.mpq_sound (fun _ _ => hRef) (by decide)
    (by unfold LinExpr.WF; decide) (by decide) (by decide) (Box.univ_mem _ _ _)
    (by norm_num [Rel.holds, LinExpr.eval, LinExpr.dot])

end PPLV.WR.BoxT
