import PPLV.WR.BoxTransProofsFails
/-!
# C03 stage 4 — the transformers that refine internally inherit the defect of
`propagate_constraint_no_check` on `Double_Box`

Same receiver and same constraint as `BoxTransProofsFails.lean` (`A ∈ [0,+∞)`, `B ∈ [1,1]`,
`A − (2^53+1)·B ≥ 0`), reached through `generalized_affine_image(lhs, ≤, rhs)` with the constant
lhs `0`, `generalized_affine_preimage(lhs, ≤, rhs)` with the constant lhs `0`,
`generalized_affine_preimage(C, ≤, rhs, 1)` with `rhs` not mentioning `C`, and
`bounded_affine_image(C, 0, rhs, 1)`.  The real `Double_Box` returns the same boxes (journal lines
W1–W4 recorded in known_findings.json, KF-C03-69…72): the lower bound of `A` becomes the open
`2^53+2`, and the point `A = 2^53+1`, `B = 1` (`C = 0`) of the exact result is lost.
-/
set_option linter.unusedVariables false
namespace PPLV.WR.BoxT
open PPLV.Interval
open PPLV.Interval.ExtRat (ninf fin pinf)

/-- `A − 9007199254740993·B` -/
def failRhs : LinExpr := ⟨[1, -9007199254740993], 0⟩
/-- the same over three variables -/
def failRhs3 : LinExpr := ⟨[1, -9007199254740993, 0], 0⟩
/-- `A ∈ [0,+∞)`, `B ∈ [1,1]`, `C ∈ [0,0]` -/
def failBox3 : Box :=
  ⟨[⟨⟨fin 0, false⟩, ⟨pinf, true⟩⟩, ⟨⟨fin 1, false⟩, ⟨fin 1, false⟩⟩, ⟨⟨fin 0, false⟩, ⟨fin 0, false⟩⟩], false, true⟩
/-- `A = 2^53+1`, `B = 1`, `C = 0` -/
def failPt3 : Nat → Rat := fun k => if k = 0 then 9007199254740993 else if k = 1 then 1 else 0

/-- the interval of `A` after each of the four calls -/
def cutA : Iv := ⟨⟨fin 9007199254740994, true⟩, ⟨pinf, true⟩⟩

theorem not_mem_of_cutA {b : Box} {x : Nat → Rat} (hlen : 0 < b.seq.length) (h0 : b.get 0 = cutA)
    (hx : x 0 = 9007199254740993) : ¬ b.mem Cfg.dbl.p x := by
  intro h
  have h1 := (h.2 0 hlen).1
  rw [h0, hx] at h1
  have : lowerOkV (fin 9007199254740994) true (9007199254740993 : Rat) := h1
  norm_num at this

theorem failPt3_mem : failBox3.mem Cfg.dbl.p failPt3 := by
  refine ⟨rfl, ?_⟩
  intro k hk
  have hk3 : k < 3 := hk
  rcases k with _ | _ | _ | k
  · constructor
    · show lowerOkV (fin 0) false (9007199254740993 : Rat)
      norm_num
    · show upperOkV pinf true (9007199254740993 : Rat)
      simp
  · constructor
    · show lowerOkV (fin 1) false (1 : Rat)
      norm_num
    · show upperOkV (fin 1) false (1 : Rat)
      norm_num
  · constructor
    · show lowerOkV (fin 0) false (0 : Rat)
      norm_num
    · show upperOkV (fin 0) false (0 : Rat)
      norm_num
  · omega

theorem failRhs_eval : failRhs.eval failPt = 0 := by
  norm_num [LinExpr.eval, LinExpr.dot, failPt, failRhs]

theorem failRhs3_eval (x : Nat → Rat) (h0 : x 0 = 9007199254740993) (h1 : x 1 = 1) : failRhs3.eval x = 0 := by
  simp [LinExpr.eval, LinExpr.dot, failRhs3, h0, h1]

theorem gaffl_compute : (generalizedAffineImageLhs Cfg.dbl failBox ⟨[], 0⟩ .le failRhs).get 0 = cutA := by
  decide +kernel
theorem gaffl_len : 0 < (generalizedAffineImageLhs Cfg.dbl failBox ⟨[], 0⟩ .le failRhs).seq.length := by
  decide +kernel
theorem gaprel_compute : (generalizedAffinePreimageLhs Cfg.dbl failBox ⟨[], 0⟩ .le failRhs).get 0 = cutA := by
  decide +kernel
theorem gaprel_len : 0 < (generalizedAffinePreimageLhs Cfg.dbl failBox ⟨[], 0⟩ .le failRhs).seq.length := by
  decide +kernel
theorem gapre_compute : (generalizedAffinePreimage Cfg.dbl failBox3 2 .le failRhs3 1).get 0 = cutA := by
  decide +kernel
theorem gapre_len : 0 < (generalizedAffinePreimage Cfg.dbl failBox3 2 .le failRhs3 1).seq.length := by
  decide +kernel
theorem baff_compute : (boundedAffineImage Cfg.dbl failBox3 2 ⟨[0, 0, 0], 0⟩ failRhs3 1).get 0 = cutA := by
  decide +kernel
theorem baff_len : 0 < (boundedAffineImage Cfg.dbl failBox3 2 ⟨[0, 0, 0], 0⟩ failRhs3 1).seq.length := by
  decide +kernel

/-- `generalized_affine_image(lhs, relsym, rhs)` is not sound for `Double_Box` -/
theorem generalizedAffineImageLhs_sound_fails :
    ¬ (∀ (b : Box) (lhs rhs : LinExpr) (rel : Rel) (x y : Nat → Rat), lhs.WF b.dim → rhs.WF b.dim → rel ≠ .ne →
      b.mem Cfg.dbl.p x → AgreeOff lhs x y → Rel.holds rel (lhs.eval y) (rhs.eval x) →
      (generalizedAffineImageLhs Cfg.dbl b lhs rel rhs).mem Cfg.dbl.p y) := by
  intro h
  have := h failBox ⟨[], 0⟩ failRhs .le failPt failPt (by simp [LinExpr.WF]) (by simp [LinExpr.WF, failRhs, failBox, Box.dim])
    (by decide) failPt_mem (fun k _ => rfl) (by
      show LinExpr.eval ⟨[], 0⟩ failPt ≤ failRhs.eval failPt
      rw [failRhs_eval]; simp [LinExpr.eval, LinExpr.dot])
  exact not_mem_of_cutA gaffl_len gaffl_compute (by simp [failPt]) this

/-- `generalized_affine_preimage(lhs, relsym, rhs)` is not sound for `Double_Box` -/
theorem generalizedAffinePreimageLhs_sound_fails :
    ¬ (∀ (b : Box) (lhs rhs : LinExpr) (rel : Rel) (x y : Nat → Rat), lhs.WF b.dim → rhs.WF b.dim → rel ≠ .ne →
      b.mem Cfg.dbl.p y → AgreeOff lhs x y → Rel.holds rel (lhs.eval y) (rhs.eval x) →
      (generalizedAffinePreimageLhs Cfg.dbl b lhs rel rhs).mem Cfg.dbl.p x) := by
  intro h
  have := h failBox ⟨[], 0⟩ failRhs .le failPt failPt (by simp [LinExpr.WF]) (by simp [LinExpr.WF, failRhs, failBox, Box.dim])
    (by decide) failPt_mem (fun k _ => rfl) (by
      show LinExpr.eval ⟨[], 0⟩ failPt ≤ failRhs.eval failPt
      rw [failRhs_eval]; simp [LinExpr.eval, LinExpr.dot])
  exact not_mem_of_cutA gaprel_len gaprel_compute (by simp [failPt]) this

/-- `generalized_affine_preimage(var, relsym, expr, d)` is not sound for `Double_Box` -/
theorem generalizedAffinePreimage_sound_fails :
    ¬ (∀ (b : Box) (v : Nat) (rel : Rel) (e : LinExpr) (den : Int) (x : Nat → Rat) (y : Rat), v < b.dim → e.WF b.dim →
      den ≠ 0 → rel ≠ .ne → b.mem Cfg.dbl.p (upd x v y) → Rel.holds rel y (e.eval x / (den : Rat)) →
      (generalizedAffinePreimage Cfg.dbl b v rel e den).mem Cfg.dbl.p x) := by
  intro h
  have hu : upd failPt3 2 0 = failPt3 := by
    funext k; by_cases hk : k = 2 <;> simp [upd, hk, failPt3]
  have := h failBox3 2 .le failRhs3 1 failPt3 0 (by decide) (by simp [LinExpr.WF, failRhs3, failBox3, Box.dim])
    (by decide) (by decide) (by rw [hu]; exact failPt3_mem) (by
      show (0 : Rat) ≤ failRhs3.eval failPt3 / ((1 : Int) : Rat)
      rw [failRhs3_eval failPt3 (by simp [failPt3]) (by simp [failPt3])]; simp)
  exact not_mem_of_cutA gapre_len gapre_compute (by simp [failPt3]) this

/-- `bounded_affine_image(var, lb, ub, d)` is not sound for `Double_Box` -/
theorem boundedAffineImage_sound_fails :
    ¬ (∀ (b : Box) (v : Nat) (lb ub : LinExpr) (den : Int) (x : Nat → Rat) (y : Rat), v < b.dim → lb.WF b.dim →
      ub.WF b.dim → den ≠ 0 → b.mem Cfg.dbl.p x → lb.eval x / (den : Rat) ≤ y → y ≤ ub.eval x / (den : Rat) →
      (boundedAffineImage Cfg.dbl b v lb ub den).mem Cfg.dbl.p (upd x v y)) := by
  intro h
  have hu : upd failPt3 2 0 = failPt3 := by
    funext k; by_cases hk : k = 2 <;> simp [upd, hk, failPt3]
  have := h failBox3 2 ⟨[0, 0, 0], 0⟩ failRhs3 1 failPt3 0 (by decide) (by simp [LinExpr.WF, failBox3, Box.dim])
    (by simp [LinExpr.WF, failRhs3, failBox3, Box.dim]) (by decide) failPt3_mem
    (by simp [LinExpr.eval, LinExpr.dot])
    (by rw [failRhs3_eval failPt3 (by simp [failPt3]) (by simp [failPt3])]; simp)
  rw [hu] at this
  exact not_mem_of_cutA baff_len baff_compute (by simp [failPt3]) this

end PPLV.WR.BoxT
