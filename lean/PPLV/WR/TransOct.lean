import PPLV.WR.Trans
/-!
# Octagonal_Shape<T>::affine_image (executable model, no Mathlib)

Code-shaped model of `Octagonal_Shape<T>::affine_image(var, expr, denominator)`
(`/repo/src/Octagonal_Shape_templates.hh:5140-5541`) with `forget_all_octagonal_constraints` (`:4456`) and
`add_octagonal_constraint` (`Octagonal_Shape_inlines.hh:399/418`), over the rounding record `Rnd` of
`Trans.lean`.  Matrix conventions as in `Closure.lean`: index `2k` is `+x_k`, `2k+1` is `-x_k`,
`matrix[i][j]` bounds `V_j - V_i` and is stored for `j < rowSize i`; a unary cell holds the DOUBLED bound
(`matrix[2k+1][2k]` bounds `2·x_k`), which the general case halves with
`div_2exp_assign_r(half, ·, 1, ROUND_UP)` before use and doubles with `mul_2exp_assign_r(·, ·, 1, ROUND_UP)`
before storing.
-/
namespace PPLV.WR
open ExtRat (fin pinf minA addUp subUp halfUp)

/-- `mul_2exp_assign_r(to, x, 1, ROUND_UP)` -/
def mulTwoUp (up : Rat → ExtRat) : ExtRat → ExtRat
  | fin x => up (2 * x)
  | pinf => pinf

/-- an `OctM` from a raw matrix (the diagonal is forced to `+∞`, the class invariant) -/
def OctM.ofMat (n : Nat) (m : Mat) : OctM n where
  e := Mat.diagUp (2 * n) pinf m
  diag := by intro i hi; rw [Mat.diagUp_apply]; simp; omega

/-- `forget_all_octagonal_constraints(v_id)` (`:4456`) -/
def octForgetAll (n vid : Nat) (m : Mat) : Mat :=
  let n_v := 2 * vid
  let m := loopDown (n_v + 2) (fun h m => (m.set n_v h pinf).set (n_v + 1) h pinf) m
  loopUp (2 * n - (n_v + 2)) (fun k m => (m.set (n_v + 2 + k) n_v pinf).set (n_v + 2 + k) (n_v + 1) pinf) m

/-- `expr == ±denominator*var + b` (`:5221-5275`); `ss` is `sign_symmetry` -/
def octTranslate (R : Rnd) (n vid : Nat) (ss : Bool) (b den : Int) (m : Mat) : Mat :=
  let n_var := 2 * vid
  let d0 := divRoundUp R b den
  let md0 := divRoundUp R b (- den)
  -- `if (sign_symmetry) swap(d, minus_d);`
  let d := if ss then md0 else d0
  let minus_d := if ss then d0 else md0
  let m := loopDown n_var (fun j m =>
    let a := addUp R.up (m n_var j) minus_d
    let c := addUp R.up (m (n_var + 1) j) d
    if ss then (m.set n_var j c).set (n_var + 1) j a else (m.set n_var j a).set (n_var + 1) j c) m
  let m := loopUp (2 * n - (n_var + 2)) (fun k m =>
    let i := n_var + 2 + k
    let a := addUp R.up (m i n_var) d
    let c := addUp R.up (m i (n_var + 1)) minus_d
    if ss then (m.set i n_var c).set i (n_var + 1) a else (m.set i n_var a).set i (n_var + 1) c) m
  -- "Now update unary constraints on var."
  let a := addUp R.up (m (n_var + 1) n_var) (mulTwoUp R.up d)
  let c := addUp R.up (m n_var (n_var + 1)) (mulTwoUp R.up minus_d)
  if ss then (m.set (n_var + 1) n_var c).set n_var (n_var + 1) a
  else (m.set (n_var + 1) n_var a).set n_var (n_var + 1) c

/-- one iteration (variable `id`) of the accumulation loop of the general case (`:5361-5430`) for one of
the two sums: `pos = true` approximates `sc_expr`, `pos = false` approximates `-sc_expr` -/
def octAccStep (R : Rnd) (m : Mat) (sc : Nat → Int) (pos : Bool) (id : Nat) (st : Acc) : Acc :=
  let n_i := 2 * id
  if sc id = 0 then st
  else
    let coeff_i := R.up ((absI (sc id) : Int) : Rat)
    if st.cnt ≤ 1 then
      -- `m_ci[n_i]` (doubled upper bound of `x_id`) or `m_i[n_i + 1]` (doubled upper bound of `-x_id`)
      let dua := if decide (sc id > 0) = pos then m (n_i + 1) n_i else m n_i (n_i + 1)
      if !dua.isPinf then { st with sum := addMulUp R st.sum coeff_i (halfUp R.up dua) }
      else { st with cnt := st.cnt + 1, idx := id }
    else st

/-- "Exploit the upper approximation" (`:5444-5488`); `pos.idx` is a variable id here -/
def octExploitUpper (R : Rnd) (vid w_id : Nat) (sc : Nat → Int) (scDen : Int) (pos : Acc) (m : Mat) : Mat :=
  let n_var := 2 * vid
  if pos.cnt ≤ 1 then
    let s := if scDen ≠ 1 then divRoundUpByPositive R pos.sum scDen else pos.sum
    if pos.cnt = 0 then
      deduceVPmU R.up vid w_id sc scDen s (m.set (n_var + 1) n_var (mulTwoUp R.up s))
    else if pos.idx ≠ vid then
      let ppi := sc pos.idx
      if ppi = scDen then
        if vid < pos.idx then m.set (2 * pos.idx) n_var s else m.set (n_var + 1) (2 * pos.idx + 1) s
      else if ppi = - scDen then
        if vid < pos.idx then m.set (2 * pos.idx + 1) n_var s else m.set (n_var + 1) (2 * pos.idx) s
      else m
    else m
  else m

/-- "Exploit the lower approximation" (`:5491-5537`) -/
def octExploitLower (R : Rnd) (vid w_id : Nat) (sc : Nat → Int) (scDen : Int) (neg : Acc) (m : Mat) : Mat :=
  let n_var := 2 * vid
  if neg.cnt ≤ 1 then
    let s := if scDen ≠ 1 then divRoundUpByPositive R neg.sum scDen else neg.sum
    if neg.cnt = 0 then
      deduceMinusVPmU R.up vid w_id sc scDen s (m.set n_var (n_var + 1) (mulTwoUp R.up s))
    else if neg.idx ≠ vid then
      let npi := sc neg.idx
      if npi = scDen then
        if neg.idx < vid then m.set n_var (2 * neg.idx) s else m.set (2 * neg.idx + 1) (n_var + 1) s
      else if npi = - scDen then
        if neg.idx < vid then m.set n_var (2 * neg.idx + 1) s else m.set (2 * neg.idx) (n_var + 1) s
      else m
    else m
  else m

/-- `incremental_strong_closure_assign(var)` on a raw matrix; `none` = marked empty -/
def octIncClose (R : Rnd) (n vid : Nat) (m : Mat) : Option Mat :=
  let o : OctM n := OctM.ofMat n m
  if OctM.incStrongClosureEmpty R.up vid o then none else some (OctM.incStrongClosure R.up vid o).e

/-- `affine_image(var, expr, denominator)` after the initial `strong_closure_assign()` and emptiness
test (`:5169-5541`); `none` = marked empty by the final incremental closure -/
def octAffineImageCore (R : Rnd) (n vid : Nat) (e : Nat → Int) (b den : Int) (m : Mat) : Option Mat :=
  let n_var := 2 * vid
  let w := lastNonzero e n
  let t := exprT e w
  let w_id := w - 1
  if t = 0 then
    let m := octForgetAll n vid m
    let m := addDbmConstraintQ R m (n_var + 1) n_var (2 * b) den
    some (addDbmConstraintQ R m n_var (n_var + 1) (2 * b) (- den))
  else
    let w_coeff := e w_id
    if t = 1 ∧ (w_coeff = den ∨ w_coeff = - den) then
      if w_id = vid then
        let ss := decide (w_coeff ≠ den)
        if !ss ∧ b = 0 then some m else some (octTranslate R n vid ss b den m)
      else
        let m := octForgetAll n vid m
        let n_w := 2 * w_id
        let m :=
          if w_coeff = den then
            if vid < w_id then
              addDbmConstraintQ R (addDbmConstraintQ R m n_w n_var b den) (n_w + 1) (n_var + 1) b (- den)
            else
              addDbmConstraintQ R (addDbmConstraintQ R m (n_var + 1) (n_w + 1) b den) n_var n_w b (- den)
          else
            if vid < w_id then
              addDbmConstraintQ R (addDbmConstraintQ R m (n_w + 1) n_var b den) n_w (n_var + 1) b (- den)
            else
              addDbmConstraintQ R (addDbmConstraintQ R m (n_var + 1) n_w b den) n_var (n_w + 1) b (- den)
        octIncClose R n vid m
    else
      -- general case
      let is_sc := den > 0
      let sc_b := if is_sc then b else - b
      let minus_sc_b := if is_sc then - b else b
      let sc_denom := if is_sc then den else - den
      let sc := scExpr e den
      let pn := loopUp (w_id + 1) (fun i (pq : Acc × Acc) =>
          (octAccStep R m sc true i pq.1, octAccStep R m sc false i pq.2))
        (⟨R.up (sc_b : Rat), 0, 0⟩, ⟨R.up (minus_sc_b : Rat), 0, 0⟩)
      let m := octForgetAll n vid m
      if pn.1.cnt > 1 ∧ pn.2.cnt > 1 then some m
      else
        octIncClose R n vid
          (octExploitLower R vid w_id sc sc_denom pn.2 (octExploitUpper R vid w_id sc sc_denom pn.1 m))

/-- `strong_closure_assign()` as the first step: a no-op when the shape is marked strongly closed -/
def octCloseFirst {n : Nat} (up : Rat → ExtRat) (closed : Bool) (m : OctM n) : Option Mat :=
  if closed then some m.e
  else if OctM.strongClosureEmpty up m then none else some (OctM.strongClosure up m).e

/-- `Octagonal_Shape<T>::affine_image` (`:5140`): `none` = the shape is (marked) empty -/
def octAffineImage {n : Nat} (R : Rnd) (closed : Bool) (vid : Nat) (e : Nat → Int) (b den : Int) (m : OctM n) :
    Option Mat :=
  (octCloseFirst R.up closed m).bind (octAffineImageCore R n vid e b den)

end PPLV.WR
