import PPLV.WR.TransProofsAffSpecial
/-!
# `BD_Shape::affine_image` with exact arithmetic: the special cases lose nothing

With `T = mpq_class` (`Rnd.exact`) the result of the special cases of `affine_image` is exactly the
image of the input shape:

* `var := var + b/den` (`affineImage_translation_exact`), unconditionally;
* `var := b/den` (`affineImage_constant_exact`) and `var := w + b/den`, `w ≠ var`
  (`affineImage_w_plus_b_exact`), provided the input matrix is closed at `v = var+1` (triangle
  inequality through `v`) and non-empty — `affine_image` runs `shortest_path_closure_assign()` first.

The `⊆` direction of the last two needs `forgetAll_extend`: a point of
`forget_all_dbm_constraints(v)` of a matrix closed at `v` is the projection of a point of the matrix.
-/
set_option linter.unusedVariables false
set_option linter.unusedSimpArgs false
namespace PPLV.WR
open ExtRat

/-! ## exact arithmetic -/

theorem divRoundUp_exact (x y : Int) : divRoundUp Rnd.exact x y = fin ((x : Rat) / (y : Rat)) := rfl

theorem fin_le_addUp_exact {a c : Rat} {M : ExtRat} (h : fin a ≤ addUp Rnd.exact.up M (fin c)) :
    fin (a - c) ≤ M := by
  cases M with
  | pinf => exact le_pinf _
  | fin q =>
    have h' : a ≤ q + c := fin_le_fin.1 h
    exact fin_le_fin.2 (by linarith)

theorem holds_of_addDbm {S : Nat → Nat → Prop} {p : Nat → Rat} {m : Mat} {i j : Nat} {k : ExtRat}
    (h : Holds S p (addDbmConstraint m i j k)) : Holds S p m ∧ (S i j → fin (p j - p i) ≤ k) := by
  constructor
  · intro a b hab
    have h' := h a b hab
    rw [addDbm_apply] at h'
    split at h'
    · rename_i hc; obtain ⟨rfl, rfl⟩ := hc; exact le_trans' h' (minA_le_left _ _)
    · exact h'
  · intro hij
    have h' := h i j hij
    rw [addDbm_apply, if_pos ⟨rfl, rfl⟩] at h'
    exact le_trans' h' (minA_le_right _ _)

/-! ## translation: `var := var + b/den` -/

theorem affineImage_translation_exact {n var : Nat} (hvar : var < n) {e : Nat → Int} {b den : Int}
    (hden : den ≠ 0) {m : Mat} (h1 : exprT e (lastNonzero e n) = 1)
    (hwv : lastNonzero e n = var + 1) (ha : e var = den) :
    ∀ y, y ∈ γB n (affineImageCore Rnd.exact n var e b den m) ↔
      ∃ x ∈ γB n m, y = upd x var ((linEval e x n + b) / den) := by
  have hw1 : lastNonzero e n - 1 = var := by omega
  have hval : ∀ x : Nat → Rat, (linEval e x n + b) / den = x var + (b : Rat) / den := by
    intro x
    rw [(linEval_t1 x h1).2, hw1]
    exact val_t1_pos hden ha _ _
  intro y
  constructor
  · intro hy
    have hy' : Holds (SB (n+1)) (DBM.val y) (affineImageCore Rnd.exact n var e b den m) := hy
    refine ⟨upd y var (y var - (b : Rat) / den), ?_, ?_⟩
    · show Holds (SB (n+1)) (DBM.val (upd y var _)) m
      unfold affineImageCore at hy'
      dsimp only at hy'
      rw [if_neg (by omega), if_pos ⟨h1, Or.inl (by rw [hw1]; exact ha)⟩, if_pos hwv, hw1,
        if_pos ha] at hy'
      by_cases hb : b = 0
      · rw [if_pos hb] at hy'
        rw [hb]; simp only [Int.cast_zero, zero_div, sub_zero]
        rw [upd_self]; exact hy'
      · rw [if_neg hb] at hy'
        have hcneg : ((b : Rat) / ((- den : Int) : Rat)) = -((b : Rat) / den) := by
          push_cast; rw [div_neg]
        refine holds_upd_of hy' ?_ ?_ ?_ ?_
        · intro i j hi hj hiv hjv
          rw [transLoop_apply, if_neg (by tauto), if_neg (by tauto), if_neg (by tauto)]
          exact le_rfl' _
        · intro j hj hjv
          have h := hy' (var + 1) j ⟨by omega, by omega⟩
          rw [transLoop_apply, if_neg (by tauto), if_pos ⟨rfl, by omega⟩, divRoundUp_exact] at h
          have h2 := fin_le_addUp_exact h
          rw [hcneg] at h2
          have e1 : DBM.val y j - (y var - (b : Rat) / den)
              = DBM.val y j - DBM.val y (var + 1) - -((b : Rat) / den) := by
            simp only [DBM.val]; ring
          rw [e1]; exact h2
        · intro i hi hiv
          have h := hy' i (var + 1) ⟨by omega, by omega⟩
          rw [transLoop_apply, if_neg (by tauto), if_neg (by tauto), if_pos ⟨rfl, by omega⟩,
            divRoundUp_exact] at h
          have h2 := fin_le_addUp_exact h
          have e1 : y var - (b : Rat) / den - DBM.val y i
              = DBM.val y (var + 1) - DBM.val y i - (b : Rat) / den := by
            simp only [DBM.val]; ring
          rw [e1]; exact h2
        · intro _
          have h := hy' (var + 1) (var + 1) ⟨by omega, by omega⟩
          rw [transLoop_apply, if_pos ⟨rfl, rfl⟩, if_pos (by omega), divRoundUp_exact,
            divRoundUp_exact, sub_self] at h
          have h2 := fin_le_addUp_exact (fin_le_addUp_exact h)
          rw [hcneg] at h2
          have e1 : (0 : Rat) - (b : Rat) / den - -((b : Rat) / den) = 0 := by ring
          rw [e1] at h2; exact h2
    · rw [hval]
      have e1 : upd y var (y var - (b : Rat) / den) var + (b : Rat) / den = y var := by
        simp only [upd, if_pos]; ring
      rw [e1, upd_upd, upd_self]
  · rintro ⟨x, hx, rfl⟩
    exact affineImageCore_special_sound Rnd.exact_sound hvar hden hx
      (Or.inr ⟨h1, Or.inl (by rw [hw1]; exact ha)⟩)

/-! ## the extension lemma -/

/-- finitely many lower bounds, each below each of finitely many upper bounds: a value in between -/
theorem exists_between (ls us : List Rat) (h : ∀ l ∈ ls, ∀ u ∈ us, l ≤ u) :
    ∃ t : Rat, (∀ l ∈ ls, l ≤ t) ∧ (∀ u ∈ us, t ≤ u) := by
  induction ls with
  | nil =>
    induction us with
    | nil => exact ⟨0, by simp, by simp⟩
    | cons u us ih =>
      obtain ⟨t, _, ht⟩ := ih (by simp)
      refine ⟨min t u, by simp, ?_⟩
      intro u' hu'
      rcases List.mem_cons.1 hu' with rfl | hu'
      · exact min_le_right _ _
      · exact le_trans (min_le_left _ _) (ht _ hu')
  | cons l ls ih =>
    obtain ⟨t, h1, h2⟩ := ih (fun l' hl' u hu => h l' (List.mem_cons_of_mem _ hl') u hu)
    refine ⟨max t l, ?_, ?_⟩
    · intro l' hl'
      rcases List.mem_cons.1 hl' with rfl | hl'
      · exact le_max_right _ _
      · exact le_trans (h1 _ hl') (le_max_left _ _)
    · intro u hu
      exact max_le (h2 u hu) (h l List.mem_cons_self u hu)

/-- the same for bounds indexed by `i < N`, some of them absent -/
theorem exists_between_idx (N : Nat) (L U : Nat → Option Rat)
    (h : ∀ i j, i < N → j < N → ∀ l u, L i = some l → U j = some u → l ≤ u) :
    ∃ t : Rat, (∀ i, i < N → ∀ l, L i = some l → l ≤ t) ∧ (∀ j, j < N → ∀ u, U j = some u → t ≤ u) := by
  obtain ⟨t, h1, h2⟩ := exists_between ((List.range N).filterMap L) ((List.range N).filterMap U) (by
    intro l hl u hu
    obtain ⟨i, hi, hil⟩ := List.mem_filterMap.1 hl
    obtain ⟨j, hj, hju⟩ := List.mem_filterMap.1 hu
    exact h i j (List.mem_range.1 hi) (List.mem_range.1 hj) l u hil hju)
  exact ⟨t, fun i hi l hl => h1 l (List.mem_filterMap.2 ⟨i, List.mem_range.2 hi, hl⟩),
    fun j hj u hu => h2 u (List.mem_filterMap.2 ⟨j, List.mem_range.2 hj, hu⟩)⟩

/-- a finite entry as an optional bound -/
def optBound (k : ExtRat) (f : Rat → Rat) : Option Rat :=
  match k with
  | fin q => some (f q)
  | pinf => none

theorem optBound_eq_some {k : ExtRat} {f : Rat → Rat} {r : Rat} (h : optBound k f = some r) :
    ∃ q, k = fin q ∧ r = f q := by
  cases k with
  | pinf => simp [optBound] at h
  | fin q => simp only [optBound, Option.some.injEq] at h; exact ⟨q, rfl, h.symm⟩

/-- the matrix is closed at `v`: triangle inequality through `v` for the other indices -/
def ClosedAt (n v : Nat) (m : Mat) : Prop :=
  ∀ i j, i ≤ n → j ≤ n → i ≠ v → j ≠ v → i ≠ j →
    ∀ p q, m i v = fin p → m v j = fin q → m i j ≤ fin (p + q)

/-- a point that satisfies every entry not involving `v` extends to a point of the matrix, when the
matrix is closed at `v` and non-empty -/
theorem forgetAll_extend {n var : Nat} (hvar : var < n) {m : Mat} (hclosed : ClosedAt n (var + 1) m)
    (hne : ∃ x, x ∈ γB n m) {y : Nat → Rat} (hy : y ∈ γB n (forgetAll (n+1) (var+1) m)) :
    ∃ t, upd y var t ∈ γB n m := by
  obtain ⟨x0, hx0⟩ := hne
  have hx0' : Holds (SB (n+1)) (DBM.val x0) m := hx0
  have hy' : Holds (SB (n+1)) (DBM.val y) (forgetAll (n+1) (var+1) m) := hy
  have hyo : ∀ i j, i ≤ n → j ≤ n → i ≠ var + 1 → j ≠ var + 1 →
      fin (DBM.val y j - DBM.val y i) ≤ m i j := by
    intro i j hi hj hiv hjv
    have h := hy' i j ⟨by omega, by omega⟩
    rw [forgetAll_apply, if_neg (by omega)] at h
    exact h
  obtain ⟨t, hL, hU⟩ := exists_between_idx (n + 1)
    (fun i => if i = var + 1 then none else optBound (m (var + 1) i) (fun q => DBM.val y i - q))
    (fun j => if j = var + 1 then none else optBound (m j (var + 1)) (fun p => DBM.val y j + p))
    (by
      intro i j hi hj l u hl hu
      split at hl
      · cases hl
      · rename_i hiv
        split at hu
        · cases hu
        · rename_i hjv
          obtain ⟨q, hq, rfl⟩ := optBound_eq_some hl
          obtain ⟨p, hp, rfl⟩ := optBound_eq_some hu
          by_cases hij : i = j
          · subst hij
            have a1 := hx0' (var + 1) i ⟨by omega, by omega⟩
            have a2 := hx0' i (var + 1) ⟨by omega, by omega⟩
            rw [hq] at a1; rw [hp] at a2
            have a1' := fin_le_fin.1 a1
            have a2' := fin_le_fin.1 a2
            linarith
          · have a1 := hclosed j i (by omega) (by omega) hjv hiv (Ne.symm hij) p q hp hq
            have a2 := le_trans' (hyo j i (by omega) (by omega) hjv hiv) a1
            have a2' := fin_le_fin.1 a2
            linarith)
  refine ⟨t, holds_upd_of hy' ?_ ?_ ?_ ?_⟩
  · intro i j hi hj hiv hjv
    rw [forgetAll_apply, if_neg (by omega)]
    exact le_rfl' _
  · intro j hj hjv
    cases hq : m (var + 1) j with
    | pinf => exact le_pinf _
    | fin q =>
      have h := hL j (by omega) (DBM.val y j - q) (by
        rw [if_neg hjv, hq]; rfl)
      exact fin_le_fin.2 (by linarith)
  · intro i hi hiv
    cases hp : m i (var + 1) with
    | pinf => exact le_pinf _
    | fin p =>
      have h := hU i (by omega) (DBM.val y i + p) (by
        rw [if_neg hiv, hp]; rfl)
      exact fin_le_fin.2 (by linarith)
  · intro _
    have h := hx0' (var + 1) (var + 1) ⟨by omega, by omega⟩
    rw [sub_self] at h; exact h

/-! ## `var := b/den` and `var := w + b/den` -/

theorem affineImage_constant_exact {n var : Nat} (hvar : var < n) {e : Nat → Int} {b den : Int}
    (hden : den ≠ 0) {m : Mat} (h0 : exprT e (lastNonzero e n) = 0)
    (hclosed : ClosedAt n (var + 1) m) (hne : ∃ x, x ∈ γB n m) :
    ∀ y, y ∈ γB n (affineImageCore Rnd.exact n var e b den m) ↔
      ∃ x ∈ γB n m, y = upd x var ((linEval e x n + b) / den) := by
  intro y
  constructor
  · intro hy
    have hy' : Holds (SB (n+1)) (DBM.val y) (affineImageCore Rnd.exact n var e b den m) := hy
    unfold affineImageCore at hy'
    dsimp only at hy'
    rw [if_pos h0] at hy'
    unfold addDbmConstraintQ at hy'
    obtain ⟨hy1, hb2⟩ := holds_of_addDbm hy'
    obtain ⟨hy2, hb1⟩ := holds_of_addDbm hy1
    have hb1' := fin_le_fin.1 (hb1 ⟨by omega, by omega⟩)
    have hb2' := fin_le_fin.1 (hb2 ⟨by omega, by omega⟩)
    have hcneg : ((b : Rat) / ((- den : Int) : Rat)) = -((b : Rat) / den) := by
      push_cast; rw [div_neg]
    rw [hcneg] at hb2'
    simp only [DBM.val] at hb1' hb2'
    have hyv : y var = (b : Rat) / den := by linarith
    obtain ⟨t, ht⟩ := forgetAll_extend hvar hclosed hne hy2
    refine ⟨upd y var t, ht, ?_⟩
    rw [linEval_t0 _ h0, zero_add, upd_upd, ← hyv, upd_self]
  · rintro ⟨x, hx, rfl⟩
    exact affineImageCore_special_sound Rnd.exact_sound hvar hden hx (Or.inl h0)

theorem affineImage_w_plus_b_exact {n var : Nat} (hvar : var < n) {e : Nat → Int} {b den : Int}
    (hden : den ≠ 0) {m : Mat} (h1 : exprT e (lastNonzero e n) = 1)
    (hwv : lastNonzero e n ≠ var + 1) (ha : e (lastNonzero e n - 1) = den)
    (hclosed : ClosedAt n (var + 1) m) (hne : ∃ x, x ∈ γB n m) :
    ∀ y, y ∈ γB n (affineImageCore Rnd.exact n var e b den m) ↔
      ∃ x ∈ γB n m, y = upd x var ((linEval e x n + b) / den) := by
  intro y
  constructor
  · intro hy
    have hy' : Holds (SB (n+1)) (DBM.val y) (affineImageCore Rnd.exact n var e b den m) := hy
    have hw0 : lastNonzero e n ≠ 0 := (linEval_t1 y h1).1
    have hwn := lastNonzero_le e n
    unfold affineImageCore at hy'
    dsimp only at hy'
    rw [if_neg (by omega), if_pos ⟨h1, Or.inl ha⟩, if_neg hwv, if_pos ha] at hy'
    unfold addDbmConstraintQ at hy'
    obtain ⟨hy1, hb2⟩ := holds_of_addDbm hy'
    obtain ⟨hy2, hb1⟩ := holds_of_addDbm hy1
    have hb1' := fin_le_fin.1 (hb1 ⟨by omega, by omega⟩)
    have hb2' := fin_le_fin.1 (hb2 ⟨by omega, by omega⟩)
    have hcneg : ((b : Rat) / ((- den : Int) : Rat)) = -((b : Rat) / den) := by
      push_cast; rw [div_neg]
    rw [hcneg] at hb2'
    obtain ⟨k, hk⟩ : ∃ k, lastNonzero e n = k + 1 := ⟨lastNonzero e n - 1, by omega⟩
    rw [hk] at hb1' hb2' hwv
    simp only [DBM.val] at hb1' hb2'
    have hkv : k ≠ var := by omega
    have hyv : y var = y k + (b : Rat) / den := by linarith
    obtain ⟨t, ht⟩ := forgetAll_extend hvar hclosed hne hy2
    refine ⟨upd y var t, ht, ?_⟩
    rw [(linEval_t1 _ h1).2, val_t1_pos hden ha, hk, Nat.add_sub_cancel]
    have e1 : upd y var t k = y k := by simp only [upd, if_neg hkv]
    rw [e1, upd_upd, ← hyv, upd_self]
  · rintro ⟨x, hx, rfl⟩
    exact affineImageCore_special_sound Rnd.exact_sound hvar hden hx (Or.inr ⟨h1, Or.inl ha⟩)

end PPLV.WR
