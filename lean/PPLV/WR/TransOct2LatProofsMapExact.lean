import PPLV.WR.TransOct2LatProofsSem1
import PPLV.WR.Trans2LatProofsMapExact
/-!
# `Octagonal_Shape<T>::map_space_dimensions` with a total injective function and no shrinking: exact
(every bound type, no hypothesis on the matrix: the loop nest copies the diagonal cells as well)
-/
set_option linter.unusedVariables false
namespace PPLV.WR
open ExtRat

/-- the four writes of the innermost body (`:3760-3783`) for the pair `i ↦ a`, `j ↦ b` -/
def octLatMapXStep (mat : Mat) (i a j b : Nat) (x : Mat) : Mat :=
  if a ≥ b then
    let x := x.set (2 * a) (2 * b) (mat (2 * i) (2 * j))
    let x := x.set (2 * a + 1) (2 * b) (mat (2 * i + 1) (2 * j))
    let x := x.set (2 * a + 1) (2 * b + 1) (mat (2 * i + 1) (2 * j + 1))
    x.set (2 * a) (2 * b + 1) (mat (2 * i) (2 * j + 1))
  else
    let x := x.set (2 * b + 1) (2 * a + 1) (mat (2 * i) (2 * j))
    let x := x.set (2 * b + 1) (2 * a) (mat (2 * i + 1) (2 * j))
    let x := x.set (2 * b) (2 * a + 1) (mat (2 * i) (2 * j + 1))
    x.set (2 * b) (2 * a) (mat (2 * i + 1) (2 * j + 1))

/-- the body of the inner loop -/
def octLatMapXInner (pf : List (Option Nat)) (mat : Mat) (i a j : Nat) (x : Mat) : Mat :=
  match latMaps pf j with
  | some b => octLatMapXStep mat i a j b x
  | none => x

/-- the body of the outer loop -/
def octLatMapXRow (pf : List (Option Nat)) (mat : Mat) (i : Nat) (x : Mat) : Mat :=
  match latMaps pf i with
  | some a => loopUp (i + 1) (octLatMapXInner pf mat i a) x
  | none => x

theorem octLatMapXLoops_eq (n : Nat) (pf : List (Option Nat)) (mat x : Mat) :
    octLatMapLoops n pf mat x = loopUp n (octLatMapXRow pf mat) x := rfl

/-- where the cell `(2i+s, 2j+t)` goes -/
def octLatMapXTgt (a b s t : Nat) : Nat × Nat :=
  if a ≥ b then (2 * a + s, 2 * b + t) else (2 * b + 1 - t, 2 * a + 1 - s)

/-- the step for the pair of images `(a, b)` writes the block `(max a b, min a b)` only -/
theorem octLatMapXStep_miss (mat : Mat) (i a j b : Nat) (x : Mat) (A B : Nat)
    (h : ¬ (A / 2 = max a b ∧ B / 2 = min a b)) : octLatMapXStep mat i a j b x A B = x A B := by
  unfold octLatMapXStep
  split
  · simp only [Mat.set_apply]
    rw [if_neg (by omega), if_neg (by omega), if_neg (by omega), if_neg (by omega)]
  · simp only [Mat.set_apply]
    rw [if_neg (by omega), if_neg (by omega), if_neg (by omega), if_neg (by omega)]

theorem octLatMapXStep_hit (mat : Mat) (i a j b : Nat) (x : Mat) {s t : Nat} (hs : s < 2) (ht : t < 2) :
    octLatMapXStep mat i a j b x (octLatMapXTgt a b s t).1 (octLatMapXTgt a b s t).2
      = mat (2 * i + s) (2 * j + t) := by
  unfold octLatMapXStep octLatMapXTgt
  have hs' : s = 0 ∨ s = 1 := by omega
  have ht' : t = 0 ∨ t = 1 := by omega
  by_cases hab : a ≥ b
  · simp only [if_pos hab, Mat.set_apply]
    rcases hs' with rfl | rfl <;> rcases ht' with rfl | rfl <;> simp
  · simp only [if_neg hab, Mat.set_apply]
    rcases hs' with rfl | rfl <;> rcases ht' with rfl | rfl <;> simp

theorem octLatMapXTgt_block (a b : Nat) {s t : Nat} (hs : s < 2) (ht : t < 2) :
    (octLatMapXTgt a b s t).1 / 2 = max a b ∧ (octLatMapXTgt a b s t).2 / 2 = min a b := by
  unfold octLatMapXTgt
  split <;> simp only <;> omega

/-- the cells of the mapped matrix -/
theorem octLatMapXLoops_cell (n : Nat) (pf : List (Option Nat)) (hinj : latInjective pf n) (mat x : Mat)
    {i j a b s t : Nat} (hi : i < n) (hji : j ≤ i) (hmi : latMaps pf i = some a) (hmj : latMaps pf j = some b)
    (hs : s < 2) (ht : t < 2) :
    octLatMapLoops n pf mat x (octLatMapXTgt a b s t).1 (octLatMapXTgt a b s t).2
      = mat (2 * i + s) (2 * j + t) := by
  rw [octLatMapXLoops_eq]
  obtain ⟨hA, hB⟩ := octLatMapXTgt_block a b hs ht
  -- a step for another pair does not touch the cell
  have hmiss : ∀ i' j' a' b' (x : Mat), i' < n → j' ≤ i' → latMaps pf i' = some a' → latMaps pf j' = some b' →
      ¬ (i' = i ∧ j' = j) →
      octLatMapXStep mat i' a' j' b' x (octLatMapXTgt a b s t).1 (octLatMapXTgt a b s t).2
        = x (octLatMapXTgt a b s t).1 (octLatMapXTgt a b s t).2 := by
    intro i' j' a' b' x hi' hji' h1 h2 hne
    apply octLatMapXStep_miss
    rw [hA, hB]
    intro hc
    have hcase : (a' = a ∧ b' = b) ∨ (a' = b ∧ b' = a) := by omega
    rcases hcase with ⟨e1, e2⟩ | ⟨e1, e2⟩
    · subst e1; subst e2
      exact hne ⟨hinj i' i a' hi' hi h1 hmi, hinj j' j b' (by omega) (by omega) h2 hmj⟩
    · subst e1; subst e2
      have := hinj i' j a' hi' (by omega) h1 hmj
      have := hinj j' i b' (by omega) hi h2 hmi
      exact hne ⟨by omega, by omega⟩
  refine latLoopUp_cell (fun x : Mat => x (octLatMapXTgt a b s t).1 (octLatMapXTgt a b s t).2)
    (fun _ => True) (k0 := i) trivial (fun _ _ _ _ _ => trivial) hi ?_ ?_
  · intro x _
    simp only [octLatMapXRow, hmi]
    refine latLoopUp_cell (fun x : Mat => x (octLatMapXTgt a b s t).1 (octLatMapXTgt a b s t).2)
      (fun _ => True) (k0 := j) trivial (fun _ _ _ _ _ => trivial) (by omega) ?_ ?_
    · intro x _
      simp only [octLatMapXInner, hmj]
      exact octLatMapXStep_hit mat i a j b x hs ht
    · intro k x hk hne
      simp only [octLatMapXInner]
      cases hm2 : latMaps pf k with
      | none => rfl
      | some b' => exact hmiss i k a b' x hi (by omega) hmi hm2 (fun h => hne h.2)
  · intro k x hk hne
    simp only [octLatMapXRow]
    cases hm1 : latMaps pf k with
    | none => rfl
    | some a' =>
      dsimp only
      refine latLoopUp_frame (fun x : Mat => x (octLatMapXTgt a b s t).1 (octLatMapXTgt a b s t).2) ?_
      intro k2 x hk2
      simp only [octLatMapXInner]
      cases hm2 : latMaps pf k2 with
      | none => rfl
      | some b' => exact hmiss k k2 a' b' x hk (by omega) hm1 hm2 (fun h => hne h.1)

theorem octLatMapXOval_tgt (y : Nat → Rat) (img : Nat → Nat) (i j : Nat) {s t : Nat} (hs : s < 2) (ht : t < 2) :
    OctM.oval y (octLatMapXTgt (img i) (img j) s t).2 - OctM.oval y (octLatMapXTgt (img i) (img j) s t).1
      = OctM.oval (fun k => y (img k)) (2 * j + t) - OctM.oval (fun k => y (img k)) (2 * i + s) := by
  unfold octLatMapXTgt
  have hs' : s = 0 ∨ s = 1 := by omega
  have ht' : t = 0 ∨ t = 1 := by omega
  split
  · rcases hs' with rfl | rfl <;> rcases ht' with rfl | rfl <;>
      simp only [Nat.add_zero, oval_even, oval_odd]
  · rcases hs' with rfl | rfl <;> rcases ht' with rfl | rfl <;>
      simp only [Nat.add_zero, Nat.sub_zero, Nat.add_sub_cancel, oval_even, oval_odd] <;> ring

/-- `map_space_dimensions` with a total injective `pfunc` that does not shrink the space (no closure is
run): exact for every bound type and every matrix; `img i` is the image of `Variable(i)` -/
theorem octLatMapDims_exact (R : Rnd) (n : Nat) (c : Bool) (m : Mat)
    (pf : List (Option Nat)) (img : Nat → Nat) (himg : ∀ i, i < n → latMaps pf i = some (img i))
    (hinj : latInjective pf n) (hns : ¬ latMaxInCodomain pf n + 1 < n) :
    ∃ r, octLatMapDims R n c m pf = some r ∧ r.dim = latMapNewDim pf n ∧
      ∀ y, y ∈ γO r.dim r.m ↔ (fun i => y (img i)) ∈ γO n m := by
  unfold octLatMapDims latMapNewDim
  by_cases hn : n = 0
  · subst hn
    simp only [if_true]
    exact ⟨_, rfl, rfl, fun y => ⟨fun h => latGammaO_congr (n := 0) (fun i hi => absurd hi (Nat.not_lt_zero i)) h,
      fun h => latGammaO_congr (n := 0) (fun i hi => absurd hi (Nat.not_lt_zero i)) h⟩⟩
  · have hec : latEmptyCodomain pf n = false := by
      unfold latEmptyCodomain
      rw [List.all_eq_false]
      exact ⟨0, List.mem_range.2 (by omega), by rw [himg 0 (by omega)]; simp⟩
    simp only [if_neg hn, hec, Bool.false_eq_true, if_false, if_neg hns]
    refine ⟨_, rfl, rfl, fun y => ⟨fun h => ?_, fun h => ?_⟩⟩
    · intro I J hIJ
      have hI : I < 2 * n := hIJ.1
      have hJ : J < rowSize I := hIJ.2
      have hs : I % 2 < 2 := by omega
      have ht : J % 2 < 2 := by omega
      have hi : I / 2 < n := by omega
      have hji : J / 2 ≤ I / 2 := by unfold rowSize at hJ; omega
      have hcell := octLatMapXLoops_cell n pf hinj m { f := fun _ _ => pinf } hi hji (himg _ hi)
        (himg _ (by omega)) hs ht
      have eI : 2 * (I / 2) + I % 2 = I := by omega
      have eJ : 2 * (J / 2) + J % 2 = J := by omega
      rw [eI, eJ] at hcell
      have hov := octLatMapXOval_tgt y img (I / 2) (J / 2) hs ht
      rw [eI, eJ] at hov
      rw [← hcell, ← hov]
      have ha := latMaxInCodomain_ge pf n hi (himg _ hi)
      have hb := latMaxInCodomain_ge pf n (by omega : J / 2 < n) (himg _ (by omega))
      apply h
      unfold octLatMapXTgt
      constructor
      · simp only
        split <;> simp only <;> omega
      · unfold rowSize
        split <;> simp only <;> omega
    · exact octLatMapInv_holds (octLatMapLoops_inv n pf m) h
        (fun i hi a ha => by rw [himg i hi] at ha; simp only [Option.some.injEq] at ha; rw [ha]) _

end PPLV.WR
