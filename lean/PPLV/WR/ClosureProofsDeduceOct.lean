import PPLV.WR.ClosureProofsDeduce
import PPLV.WR.ClosureProofsOct
/-!
# `Octagonal_Shape::deduce_v_pm_u_bounds`, `deduce_minus_v_pm_u_bounds`

The `q ≥ 1` rules subtract the *rounded* half `div_2exp(m_cu_u, 1, ROUND_UP)` from `ub_v`; this is
sound because every caller computes `ub_v` from the same rounded halves.  Accordingly the caller's
bound `c` is assumed over the box of the rounded halves `halfUp up (m[2w+1][2w])`,
`halfUp up (m[2w][2w+1])` (a superset of the exact box).  With a bound over the exact box only, the
`q ≥ 1` rule would not be sound for an inexact `up`.
-/
namespace PPLV.WR
open ExtRat

variable {up : Rat → ExtRat}

theorem oval_even (x : Nat → Rat) (k : Nat) : OctM.oval x (2 * k) = x k := by
  unfold OctM.oval
  rw [if_pos (by omega), show 2 * k / 2 = k by omega]

theorem oval_odd (x : Nat → Rat) (k : Nat) : OctM.oval x (2 * k + 1) = - x k := by
  unfold OctM.oval
  rw [if_neg (by omega), show (2 * k + 1) / 2 = k by omega]

/-- points of a raw pseudo-triangular octagon matrix of dimension `n` -/
def γO (n : Nat) (m : Mat) : Set (ℕ → ℚ) := {x | Holds (SO n) (OctM.oval x) m}

theorem OctM.γ_eq {n : Nat} (m : OctM n) : m.γ = γO n m.e := by
  ext x; exact OctM.sat_iff_holds m x

/-- loop invariant: the new point satisfies the matrix and the unary entries are those of `m` -/
def OInv (n : Nat) (x' : Nat → Rat) (m m' : Mat) : Prop :=
  Holds (SO n) (OctM.oval x') m' ∧
    ∀ w, m' (2 * w) (2 * w + 1) = m (2 * w) (2 * w + 1) ∧ m' (2 * w + 1) (2 * w) = m (2 * w + 1) (2 * w)

theorem OInv.set {n : Nat} {x' : Nat → Rat} {m m' : Mat} (h : OInv n x' m m') {a b : Nat} {v : ExtRat}
    (hnu : ∀ w, ¬ (a = 2 * w ∧ b = 2 * w + 1) ∧ ¬ (a = 2 * w + 1 ∧ b = 2 * w))
    (hv : fin (OctM.oval x' b - OctM.oval x' a) ≤ v) :
    OInv n x' m (m'.set a b v) := by
  constructor
  · intro i j hij
    simp only [Mat.set_apply]
    split
    · rename_i hc; obtain ⟨rfl, rfl⟩ := hc; exact hv
    · exact h.1 i j hij
  · intro w
    simp only [Mat.set_apply]
    rw [if_neg (by have := (hnu w).1; omega), if_neg (by have := (hnu w).2; omega)]
    exact h.2 w

/-- the two alternative cells of one deduced constraint -/
theorem OInv.set2 {n : Nat} {x' : Nat → Rat} {m m' : Mat} (h : OInv n x' m m') {a1 b1 a2 b2 : Nat}
    {v : ExtRat} {D : Rat} (c : Prop) [Decidable c]
    (hn1 : ∀ w, ¬ (a1 = 2 * w ∧ b1 = 2 * w + 1) ∧ ¬ (a1 = 2 * w + 1 ∧ b1 = 2 * w))
    (hn2 : ∀ w, ¬ (a2 = 2 * w ∧ b2 = 2 * w + 1) ∧ ¬ (a2 = 2 * w + 1 ∧ b2 = 2 * w))
    (h1 : OctM.oval x' b1 - OctM.oval x' a1 = D) (h2 : OctM.oval x' b2 - OctM.oval x' a2 = D)
    (hv : fin D ≤ v) :
    OInv n x' m (if c then m'.set a1 b1 v else m'.set a2 b2 v) := by
  split
  · exact h.set hn1 (by rw [h1]; exact hv)
  · exact h.set hn2 (by rw [h2]; exact hv)

theorem oct_box {n : Nat} {x' : Nat → Rat} {m : Mat} (h : Holds (SO n) (OctM.oval x') m) {w : Nat}
    (hw : w < n) : fin (2 * x' w) ≤ m (2 * w + 1) (2 * w) ∧ fin (2 * -(x' w)) ≤ m (2 * w) (2 * w + 1) := by
  have h1 := h (2 * w + 1) (2 * w) ⟨by omega, by unfold rowSize; omega⟩
  have h2 := h (2 * w) (2 * w + 1) ⟨by omega, by unfold rowSize; omega⟩
  rw [oval_even, oval_odd] at h1 h2
  have e1 : x' w - -x' w = 2 * x' w := by ring
  have e2 : -x' w - x' w = 2 * -(x' w) := by ring
  rw [e1] at h1; rw [e2] at h2
  exact ⟨h1, h2⟩

theorem half_box (hup : ∀ x, fin x ≤ up x) {X : Rat} {a : ExtRat} (h : fin (2 * X) ≤ a) :
    fin X ≤ halfUp up a := by
  have := fin_le_halfUp hup h
  rwa [show 2 * X / 2 = X by ring] at this

/-- from the rounded box to the exact one -/
theorem Slide.exact (hup : ∀ x, fin x ≤ up x) {E q X c w w' : Rat}
    (sl : Slide E q X c (halfUp up (fin w)) (halfUp up (fin w')))
    (h1 : fin (2 * X) ≤ fin w) (h2 : fin (2 * -X) ≤ fin w') :
    Slide E q X c (fin (w / 2)) (fin (w' / 2)) := by
  rw [fin_le_fin] at h1 h2
  exact sl.mono (hup _) (hup _) (fin_le_fin.2 (by linarith)) (fin_le_fin.2 (by linarith))

theorem q_neg {a d : Int} (hd : 0 < d) (h : a < 0) : (a : Rat) / d < 0 := by
  have hd' : (0 : Rat) < d := by exact_mod_cast hd
  have : (a : Rat) < 0 := by exact_mod_cast h
  rw [div_lt_iff₀ hd']; linarith

theorem q_le_neg_one {a d : Int} (hd : 0 < d) (h : -a ≥ d) : (a : Rat) / d ≤ -1 := by
  have := q_ge_one hd h
  push_cast at this
  rw [neg_div] at this
  linarith

theorem q_gt_neg_one {a d : Int} (hd : 0 < d) (h : ¬ -a ≥ d) : -1 < (a : Rat) / d := by
  have := q_lt_one hd h
  push_cast at this
  rw [neg_div] at this
  linarith

section
variable {n : Nat} {m : Mat} {vid last : Nat} {e : Nat → Int} {d : Int} {b c : Rat}
  {x x' : Nat → Rat}

/-- the common part of both helpers: a `Slide` over the rounded box for every visited `u ≠ v` -/
theorem oct_slides (hup : ∀ x, fin x ≤ up x) (hd : 0 < d) (hlast : last < n)
    (hx' : Holds (SO n) (OctM.oval x') m)
    (hframe : ∀ u, u ≠ vid → x' u = x u)
    (hS : ∀ y : Nat → Rat, y vid = x vid →
      (∀ w, w < last + 1 → w ≠ vid →
        fin (y w) ≤ halfUp up (m (2 * w + 1) (2 * w)) ∧ fin (-(y w)) ≤ halfUp up (m (2 * w) (2 * w + 1))) →
      (linEval e y (last + 1) + b) / d ≤ c)
    {u : Nat} (hu : u < last + 1) (huv : u ≠ vid) :
    Slide ((linEval e x (last + 1) + b) / d) ((e u : Rat) / d) (x u) c
      (halfUp up (m (2 * u + 1) (2 * u))) (halfUp up (m (2 * u) (2 * u + 1))) := by
  refine slide_of_box (UBf := fun w => halfUp up (m (2 * w + 1) (2 * w)))
    (LBf := fun w => halfUp up (m (2 * w) (2 * w + 1))) hd ?_ hS hu huv
  intro w hw hwv
  rw [← hframe w hwv]
  have := oct_box hx' (w := w) (by omega)
  exact ⟨half_box hup this.1, half_box hup (by rw [show 2 * -(x' w) = 2 * -x' w by ring] at this; exact this.2)⟩

/-- `deduce_v_pm_u_bounds`: the new point `x'` (`x'_v ≤ e(x)/d`, other coordinates those of `x`)
satisfies every bound written by the helper. -/
theorem deduceVPmU_holds (hup : ∀ x, fin x ≤ up x) (hd : 0 < d) (hlast : last < n)
    (hx' : Holds (SO n) (OctM.oval x') m)
    (hframe : ∀ u, u ≠ vid → x' u = x u)
    (hval : x' vid ≤ (linEval e x (last + 1) + b) / d)
    (hS : ∀ y : Nat → Rat, y vid = x vid →
      (∀ w, w < last + 1 → w ≠ vid →
        fin (y w) ≤ halfUp up (m (2 * w + 1) (2 * w)) ∧ fin (-(y w)) ≤ halfUp up (m (2 * w) (2 * w + 1))) →
      (linEval e y (last + 1) + b) / d ≤ c) :
    Holds (SO n) (OctM.oval x') (deduceVPmU up vid last e d (fin c) m) := by
  suffices h : OInv n x' m (deduceVPmU up vid last e d (fin c) m) from h.1
  unfold deduceVPmU
  refine loopUp_rel (fun a b => OInv n x' m a → OInv n x' m b) (fun _ h => h)
    (fun _ _ _ h1 h2 h => h2 (h1 h)) (last + 1) _ ?_ m ⟨hx', fun _ => ⟨rfl, rfl⟩⟩
  intro u hu m' hI
  unfold deduceVPmUStep
  simp only [Nat.mul_comm u 2]
  split; exact hI
  split; exact hI
  rename_i h0 huv
  have sl := oct_slides hup hd hlast hx' hframe hS hu huv
  have bx := oct_box hx' (w := u) (by omega)
  rw [hframe u huv] at bx
  have pv0 : OctM.oval x' (2 * vid) = x' vid := oval_even _ _
  have pv1 : OctM.oval x' (2 * vid + 1) = - x' vid := oval_odd _ _
  have pu0 : OctM.oval x' (2 * u) = x u := by rw [oval_even, hframe u huv]
  have pu1 : OctM.oval x' (2 * u + 1) = - x u := by rw [oval_odd, hframe u huv]
  rw [(hI.2 u).1, (hI.2 u).2]
  split
  · -- `e u > 0`: bounds on `v - u`
    rename_i hpos
    have hgoal : x' vid - x u ≤ (linEval e x (last + 1) + b) / d - x u := by linarith
    split
    · rename_i hge
      refine hI.set2 (D := x' vid - x u) _ (by intro w; omega) (by intro w; omega)
        (by rw [pv0, pu0]) (by rw [pv1, pu1]; ring) ?_
      cases hub : halfUp up (m (2 * u + 1) (2 * u)) with
      | pinf => rw [hub] at sl; exact (sl.ruleAinf (q_pos hd hpos)).elim
      | fin U =>
        rw [hub] at sl
        exact fin_le_subUp_fin hup (le_trans hgoal (sl.ruleA (q_ge_one hd hge)))
    · rename_i hlt
      split
      · exact hI
      · rename_i L2 hL
        refine hI.set2 (D := x' vid - x u) _ (by intro w; omega) (by intro w; omega)
          (by rw [pv0, pu0]) (by rw [pv1, pu1]; ring) ?_
        cases hub : m (2 * u + 1) (2 * u) with
        | pinf =>
          rw [hub] at sl; simp only [halfUp] at sl
          exact (sl.ruleAinf (q_pos hd hpos)).elim
        | fin U2 =>
          rw [hub, hL] at sl bx
          have sl' := sl.exact hup bx.1 bx.2
          simp only [toRat]
          exact fin_le_addUp_up hup (le_trans hgoal (sl'.ruleB (q_pos hd hpos) (q_lt_one hd hlt)))
  · -- `e u < 0`: bounds on `v + u`
    rename_i hnpos
    have hneg : e u < 0 := by omega
    have hgoal : x' vid + x u ≤ (linEval e x (last + 1) + b) / d + x u := by linarith
    split
    · rename_i hge
      refine hI.set2 (D := x' vid + x u) _ (by intro w; omega) (by intro w; omega)
        (by rw [pv0, pu1]; ring) (by rw [pv1, pu0]; ring) ?_
      cases hlb : halfUp up (m (2 * u) (2 * u + 1)) with
      | pinf => rw [hlb] at sl; exact (sl.ruleCinf (q_neg hd hneg)).elim
      | fin L =>
        rw [hlb] at sl
        exact fin_le_subUp_fin hup (le_trans hgoal (sl.ruleC (q_le_neg_one hd hge)))
    · rename_i hlt
      split
      · exact hI
      · rename_i U2 hU
        refine hI.set2 (D := x' vid + x u) _ (by intro w; omega) (by intro w; omega)
          (by rw [pv0, pu1]; ring) (by rw [pv1, pu0]; ring) ?_
        cases hlb : m (2 * u) (2 * u + 1) with
        | pinf =>
          rw [hlb] at sl; simp only [halfUp] at sl
          exact (sl.ruleCinf (q_neg hd hneg)).elim
        | fin L2 =>
          rw [hU, hlb] at sl bx
          have sl' := sl.exact hup bx.1 bx.2
          simp only [toRat]
          refine fin_le_addUp_up hup (le_trans hgoal ?_)
          have := sl'.ruleD (q_neg hd hneg) (q_gt_neg_one hd hlt)
          have e2 : U2 / 2 + -((e u : Rat) / d) * (-(L2 / 2) - U2 / 2)
              = U2 / 2 + ((-e u : Int) : Rat) / d * (-(L2 / 2) - U2 / 2) := by push_cast; ring
          rw [e2] at this
          exact this

/-- `deduce_minus_v_pm_u_bounds`: the same for `x'_v ≥ e(x)/d` and a bound `c` of `-e/d` over the
(rounded) box. -/
theorem deduceMinusVPmU_holds (hup : ∀ x, fin x ≤ up x) (hd : 0 < d) (hlast : last < n)
    (hx' : Holds (SO n) (OctM.oval x') m)
    (hframe : ∀ u, u ≠ vid → x' u = x u)
    (hval : (linEval e x (last + 1) + b) / d ≤ x' vid)
    (hS : ∀ y : Nat → Rat, y vid = x vid →
      (∀ w, w < last + 1 → w ≠ vid →
        fin (y w) ≤ halfUp up (m (2 * w + 1) (2 * w)) ∧ fin (-(y w)) ≤ halfUp up (m (2 * w) (2 * w + 1))) →
      -((linEval e y (last + 1) + b) / d) ≤ c) :
    Holds (SO n) (OctM.oval x') (deduceMinusVPmU up vid last e d (fin c) m) := by
  have hS' : ∀ y : Nat → Rat, y vid = x vid →
      (∀ w, w < last + 1 → w ≠ vid →
        fin (y w) ≤ halfUp up (m (2 * w + 1) (2 * w)) ∧ fin (-(y w)) ≤ halfUp up (m (2 * w) (2 * w + 1))) →
      (linEval (fun i => - e i) y (last + 1) + -b) / d ≤ c := by
    intro y h1 h2
    have := hS y h1 h2
    rw [linEval_neg]
    have e1 : (-linEval e y (last + 1) + -b) / (d : Rat) = -((linEval e y (last + 1) + b) / d) := by ring
    rw [e1]; exact this
  have hE : (linEval (fun i => - e i) x (last + 1) + -b) / (d : Rat)
      = -((linEval e x (last + 1) + b) / d) := by
    rw [linEval_neg]; ring
  suffices h : OInv n x' m (deduceMinusVPmU up vid last e d (fin c) m) from h.1
  unfold deduceMinusVPmU
  refine loopUp_rel (fun a b => OInv n x' m a → OInv n x' m b) (fun _ h => h)
    (fun _ _ _ h1 h2 h => h2 (h1 h)) (last + 1) _ ?_ m ⟨hx', fun _ => ⟨rfl, rfl⟩⟩
  intro u hu m' hI
  unfold deduceMinusVPmUStep
  simp only [Nat.mul_comm u 2]
  split; exact hI
  split; exact hI
  rename_i h0 huv
  have sl := oct_slides hup hd hlast hx' hframe hS' hu huv
  rw [hE] at sl
  have hq : ((fun i => - e i) u : Rat) / (d : Rat) = -((e u : Rat) / d) := by push_cast; ring
  rw [hq] at sl
  have bx := oct_box hx' (w := u) (by omega)
  rw [hframe u huv] at bx
  have pv0 : OctM.oval x' (2 * vid) = x' vid := oval_even _ _
  have pv1 : OctM.oval x' (2 * vid + 1) = - x' vid := oval_odd _ _
  have pu0 : OctM.oval x' (2 * u) = x u := by rw [oval_even, hframe u huv]
  have pu1 : OctM.oval x' (2 * u + 1) = - x u := by rw [oval_odd, hframe u huv]
  rw [(hI.2 u).1, (hI.2 u).2]
  split
  · -- `e u > 0`: bounds on `u - v`
    rename_i hpos
    have hgoal : x u - x' vid ≤ -((linEval e x (last + 1) + b) / d) + x u := by linarith
    split
    · rename_i hge
      refine hI.set2 (D := x u - x' vid) _ (by intro w; omega) (by intro w; omega)
        (by rw [pv1, pu1]; ring) (by rw [pv0, pu0]) ?_
      cases hlb : halfUp up (m (2 * u) (2 * u + 1)) with
      | pinf =>
        rw [hlb] at sl
        exact (sl.ruleCinf (by have := q_pos hd hpos; linarith)).elim
      | fin L =>
        rw [hlb] at sl
        exact fin_le_subUp_fin hup (le_trans hgoal (sl.ruleC (by have := q_ge_one hd hge; linarith)))
    · rename_i hlt
      split
      · exact hI
      · rename_i U2 hU
        refine hI.set2 (D := x u - x' vid) _ (by intro w; omega) (by intro w; omega)
          (by rw [pv1, pu1]; ring) (by rw [pv0, pu0]) ?_
        cases hlb : m (2 * u) (2 * u + 1) with
        | pinf =>
          rw [hlb] at sl; simp only [halfUp] at sl
          exact (sl.ruleCinf (by have := q_pos hd hpos; linarith)).elim
        | fin L2 =>
          rw [hU, hlb] at sl bx
          have sl' := sl.exact hup bx.1 bx.2
          simp only [toRat]
          refine fin_le_addUp_up hup (le_trans hgoal ?_)
          have := sl'.ruleD (by have := q_pos hd hpos; linarith) (by have := q_lt_one hd hlt; linarith)
          have e2 : U2 / 2 + -(-((e u : Rat) / d)) * (-(L2 / 2) - U2 / 2)
              = U2 / 2 - (e u : Rat) / d * (U2 / 2 + L2 / 2) := by ring
          rw [e2] at this
          exact this
  · -- `e u < 0`: bounds on `-v - u`
    rename_i hnpos
    have hneg : e u < 0 := by omega
    have hgoal : -x' vid - x u ≤ -((linEval e x (last + 1) + b) / d) - x u := by linarith
    split
    · rename_i hge
      refine hI.set2 (D := -x' vid - x u) _ (by intro w; omega) (by intro w; omega)
        (by rw [pv1, pu0]) (by rw [pv0, pu1]; ring) ?_
      cases hub : halfUp up (m (2 * u + 1) (2 * u)) with
      | pinf =>
        rw [hub] at sl
        exact (sl.ruleAinf (by have := q_neg hd hneg; linarith)).elim
      | fin U =>
        rw [hub] at sl
        exact fin_le_subUp_fin hup
          (le_trans hgoal (sl.ruleA (by have := q_le_neg_one hd hge; linarith)))
    · rename_i hlt
      split
      · exact hI
      · rename_i L2 hL
        refine hI.set2 (D := -x' vid - x u) _ (by intro w; omega) (by intro w; omega)
          (by rw [pv1, pu0]) (by rw [pv0, pu1]; ring) ?_
        cases hub : m (2 * u + 1) (2 * u) with
        | pinf =>
          rw [hub] at sl; simp only [halfUp] at sl
          exact (sl.ruleAinf (by have := q_neg hd hneg; linarith)).elim
        | fin U2 =>
          rw [hub, hL] at sl bx
          have sl' := sl.exact hup bx.1 bx.2
          simp only [toRat]
          refine fin_le_addUp_up hup (le_trans hgoal ?_)
          have := sl'.ruleB (by have := q_neg hd hneg; linarith)
            (by have := q_gt_neg_one hd hlt; linarith)
          have e2 : L2 / 2 - -((e u : Rat) / d) * (U2 / 2 + L2 / 2)
              = L2 / 2 + (e u : Rat) / d * (U2 / 2 + L2 / 2) := by ring
          rw [e2] at this
          exact this

end
end PPLV.WR
