import PPLV.WR.TransOct2ProofsRefineVar
import PPLV.WR.TransProofsPre
/-!
# `Octagonal_Shape<T>::affine_preimage`, `generalized_affine_preimage(var, relsym, expr, denominator)`
-/
set_option linter.unusedVariables false
set_option linter.unusedSimpArgs false
set_option linter.unusedTactic false
namespace PPLV.WR
open ExtRat

/-- `strong_closure_assign()` on a raw matrix keeps every point -/
theorem octCloseRaw_sound {R : Rnd} (hR : R.Sound) {n : Nat} {m : Mat} {x : Nat → Rat}
    (hx : Holds (SO n) (OctM.oval x) m) :
    ∃ m', octCloseRaw R n m = some m' ∧ Holds (SO n) (OctM.oval x) m' := by
  unfold octCloseRaw
  dsimp only
  have hs := sat_octOfMat hx
  split
  · rename_i he
    exact absurd hs (OctM.strongClosureEmpty_sound hR.up_le _ he x)
  · exact ⟨_, rfl, (OctM.sat_iff_holds _ x).1 (OctM.strongClosure_sat hR.up_le _ x hs)⟩

theorem octForget_back_holds {n vid : Nat} (hv : vid < n) {x : Nat → Rat} {t : Rat} {m : Mat}
    (hx : Holds (SO n) (OctM.oval (upd x vid t)) m) : Holds (SO n) (OctM.oval x) (octForgetAll n vid m) := by
  have := holds_octForgetAll hv hx (x vid)
  rw [upd_back] at this
  exact this

/-- the inverse expression used for a negative coefficient of `var` -/
theorem octCoeffExact_inverse_neg {R : Rnd} {e : Nat → Int} (hc : CoeffExact R e) {den : Int}
    (hcd : R.up ((absI den : Int) : Rat) = fin ((absI den : Int) : Rat)) (var : Nat) :
    CoeffExact R (fun i => (if i = var then - e var - den else 0) + e i) := by
  intro i hi
  by_cases h : i = var
  · subst h
    simp only [if_true] at hi ⊢
    have : - e i - den + e i = - den := by ring
    rw [this, absI_neg]
    exact hcd
  · simp only [if_neg h, zero_add] at hi ⊢
    exact hc i hi

theorem octLinEval_add (f g : Nat → Int) (x : Nat → Rat) (k : Nat) :
    linEval (fun i => f i + g i) x k = linEval f x k + linEval g x k := by
  induction k with
  | zero => simp [linEval]
  | succ k ih => simp only [linEval, ih]; push_cast; ring

theorem octAffinePreimageCore_sound {R : Rnd} (hR : R.Sound) {n vid : Nat} (hv : vid < n) {e : Nat → Int}
    (hc : CoeffExact R e) {b den : Int} (hden : den ≠ 0)
    (hcd : R.up ((absI den : Int) : Rat) = fin ((absI den : Int) : Rat)) {m : Mat}
    (hh : HalfFiniteOn R.up m) {x : Nat → Rat}
    (hx : upd x vid ((linEval e x n + b) / den) ∈ γO n m) :
    ∃ m', octAffinePreimageCore R n vid e b den m = some m' ∧ x ∈ γO n m' := by
  have hforget : x ∈ γO n (octForgetAll n vid m) := octForget_back_holds hv hx
  have hd' : (den : Rat) ≠ 0 := by exact_mod_cast hden
  unfold octAffinePreimageCore
  dsimp only
  split
  · exact ⟨_, rfl, hforget⟩
  · split
    · rename_i h0 h1
      split
      · rename_i hwv
        obtain ⟨hw0, hval⟩ := linEval_t1 x h1.1
        rw [hwv] at hval h1 ⊢
        have ha0 : e vid ≠ 0 := by rcases h1.2 with h | h <;> rw [h] <;> omega
        have ha' : (e vid : Rat) ≠ 0 := by exact_mod_cast ha0
        obtain ⟨m', hm', this⟩ := octAffineImageCore_sound hR hv (coeffExact_single hcd vid) ha0 (b := - b) hh hx
        refine ⟨m', hm', ?_⟩
        rw [linEval_single den _ hv] at this
        have e1 : ((den : Rat) * upd x vid ((linEval e x n + b) / den) vid + ((-b : Int) : Rat)) / (e vid : Rat)
            = x vid := by
          simp only [upd, if_true]
          rw [hval]
          push_cast
          field_simp
          ring
        rw [e1, upd_back] at this
        exact this
      · exact ⟨_, rfl, hforget⟩
    · split
      · rename_i h0 h1 hev
        have ha' : (e vid : Rat) ≠ 0 := by exact_mod_cast hev
        split
        · rename_i hpos
          obtain ⟨m', hm', this⟩ :=
            octAffineImageCore_sound hR hv (coeffExact_inverse hc hcd vid) hev (b := - b) hh hx
          refine ⟨m', hm', ?_⟩
          rw [linEval_sub, linEval_single _ _ hv, linEval_upd, if_pos hv] at this
          have e1 : (((e vid + den : Int) : Rat) * upd x vid ((linEval e x n + b) / den) vid
              - (linEval e x n + (e vid : Rat) * ((linEval e x n + b) / den - x vid)) + ((-b : Int) : Rat))
                / (e vid : Rat) = x vid := by
            simp only [upd, if_true]
            push_cast
            field_simp
            ring
          rw [e1, upd_back] at this
          exact this
        · rename_i hneg
          obtain ⟨m', hm', this⟩ :=
            octAffineImageCore_sound hR hv (octCoeffExact_inverse_neg hc hcd vid) (by omega : - e vid ≠ 0) (b := b) hh hx
          refine ⟨m', hm', ?_⟩
          rw [octLinEval_add, linEval_single _ _ hv, linEval_upd, if_pos hv] at this
          have e1 : (((- e vid - den : Int) : Rat) * upd x vid ((linEval e x n + b) / den) vid
              + (linEval e x n + (e vid : Rat) * ((linEval e x n + b) / den - x vid)) + (b : Rat))
                / ((- e vid : Int) : Rat) = x vid := by
            simp only [upd, if_true]
            push_cast
            field_simp
            ring
          rw [e1, upd_back] at this
          exact this
      · exact ⟨_, rfl, hforget⟩

/-! ## `generalized_affine_preimage(var, relsym, expr, den)` -/

theorem octGenAffinePreimageCoreV_sound (fx : Bool) {R : Rnd} (hR : R.Sound) {n vid : Nat} (hv : vid < n)
    {e : Nat → Int} (hc : CoeffExact R e) {b den : Int} (hden : den ≠ 0)
    (hcd : R.up ((absI den : Int) : Rat) = fin ((absI den : Int) : Rat)) {m : Mat}
    (hh : HalfFiniteOn R.up m) {x : Nat → Rat} (isLe : Bool)
    (hok : OctRefineOK fx vid (if isLe then .le else .ge) e den)
    {t : Rat} (hx : upd x vid t ∈ γO n m)
    (ht : if isLe then t ≤ (linEval e x n + b) / den else (linEval e x n + b) / den ≤ t) :
    ∃ m', octGenAffinePreimageCoreV fx R n vid isLe e b den m = some m' ∧ x ∈ γO n m' := by
  have hd' : (den : Rat) ≠ 0 := by exact_mod_cast hden
  unfold octGenAffinePreimageCoreV
  dsimp only
  split
  · rename_i hev
    have ha' : (e vid : Rat) ≠ 0 := by exact_mod_cast hev
    have hinv : CoeffExact R (fun i => e i - (if i = vid then e vid + den else 0)) := by
      have := (coeffExact_inverse hc hcd vid).neg
      intro i hi
      have h2 := this i (by simpa using hi)
      simpa using h2
    have hval : (linEval (fun i => e i - (if i = vid then e vid + den else 0)) (upd x vid t) n + (b : Rat))
        / ((- e vid : Int) : Rat) = x vid - (linEval e x n + b - den * t) / (e vid : Rat) := by
      rw [linEval_sub, linEval_single _ _ hv, linEval_upd, if_pos hv]
      simp only [upd, if_true]
      push_cast
      field_simp
      ring
    have key : ∀ isLe' : Bool,
        (if isLe' then x vid ≤ x vid - (linEval e x n + b - den * t) / (e vid : Rat)
         else x vid - (linEval e x n + b - den * t) / (e vid : Rat) ≤ x vid) →
        ∃ m', octGenAffineImageCore R n vid isLe' (fun i => e i - (if i = vid then e vid + den else 0)) b
          (- e vid) m = some m' ∧ x ∈ γO n m' := by
      intro isLe' h
      obtain ⟨m', hm', this⟩ := octGenAffineImageCore_sound hR hv hinv (by omega : - e vid ≠ 0) (b := b) hh hx
        isLe' (t := x vid) (by rw [hval]; exact h)
      rw [upd_back] at this
      exact ⟨m', hm', this⟩
    apply key
    have hD : ∀ (q : Rat), (0 < (den : Rat) → t ≤ q / den → 0 ≤ q - den * t) ∧
        ((den : Rat) < 0 → t ≤ q / den → q - den * t ≤ 0) ∧
        (0 < (den : Rat) → q / den ≤ t → q - den * t ≤ 0) ∧
        ((den : Rat) < 0 → q / den ≤ t → 0 ≤ q - den * t) := by
      intro q
      have hq : q / (den : Rat) * den = q := by field_simp
      refine ⟨fun hp h => ?_, fun hn h => ?_, fun hp h => ?_, fun hn h => ?_⟩
      · have := mul_le_mul_of_nonneg_right h hp.le; rw [hq] at this; linarith
      · have := mul_le_mul_of_nonpos_right h hn.le; rw [hq] at this; linarith
      · have := mul_le_mul_of_nonneg_right h hp.le; rw [hq] at this; linarith
      · have := mul_le_mul_of_nonpos_right h hn.le; rw [hq] at this; linarith
    obtain ⟨hD1, hD2, hD3, hD4⟩ := hD (linEval e x n + b)
    rcases lt_or_gt_of_ne hden with hdn | hdp <;> rcases lt_or_gt_of_ne hev with hen | hep
    · have hs : ¬ Int.sign den = Int.sign (- e vid) := by
        rw [Int.sign_eq_neg_one_of_neg hdn, Int.sign_eq_one_of_pos (by omega)]; decide
      rw [if_neg hs]
      have hdn' : (den : Rat) < 0 := by exact_mod_cast hdn
      have hen' : (e vid : Rat) < 0 := by exact_mod_cast hen
      cases isLe with
      | true =>
        simp only [if_true, Bool.not_true, Bool.false_eq_true, if_false] at ht ⊢
        have := div_nonneg_of_nonpos' (hD2 hdn' ht) hen'.le
        linarith
      | false =>
        simp only [Bool.false_eq_true, if_false, Bool.not_false, if_true] at ht ⊢
        have := div_nonpos_of_nonneg_of_nonpos (hD4 hdn' ht) hen'.le
        linarith
    · have hs : Int.sign den = Int.sign (- e vid) := by
        rw [Int.sign_eq_neg_one_of_neg hdn, Int.sign_eq_neg_one_of_neg (by omega)]
      rw [if_pos hs]
      have hdn' : (den : Rat) < 0 := by exact_mod_cast hdn
      have hep' : (0 : Rat) < e vid := by exact_mod_cast hep
      cases isLe with
      | true =>
        simp only [if_true] at ht ⊢
        have := div_nonpos_of_nonpos_of_nonneg (hD2 hdn' ht) hep'.le
        linarith
      | false =>
        simp only [Bool.false_eq_true, if_false] at ht ⊢
        have := div_nonneg (hD4 hdn' ht) hep'.le
        linarith
    · have hs : Int.sign den = Int.sign (- e vid) := by
        rw [Int.sign_eq_one_of_pos hdp, Int.sign_eq_one_of_pos (by omega)]
      rw [if_pos hs]
      have hdp' : (0 : Rat) < den := by exact_mod_cast hdp
      have hen' : (e vid : Rat) < 0 := by exact_mod_cast hen
      cases isLe with
      | true =>
        simp only [if_true] at ht ⊢
        have := div_nonpos_of_nonneg_of_nonpos (hD1 hdp' ht) hen'.le
        linarith
      | false =>
        simp only [Bool.false_eq_true, if_false] at ht ⊢
        have := div_nonneg_of_nonpos' (hD3 hdp' ht) hen'.le
        linarith
    · have hs : ¬ Int.sign den = Int.sign (- e vid) := by
        rw [Int.sign_eq_one_of_pos hdp, Int.sign_eq_neg_one_of_neg (by omega)]; decide
      rw [if_neg hs]
      have hdp' : (0 : Rat) < den := by exact_mod_cast hdp
      have hep' : (0 : Rat) < e vid := by exact_mod_cast hep
      cases isLe with
      | true =>
        simp only [if_true, Bool.not_true, Bool.false_eq_true, if_false] at ht ⊢
        have := div_nonneg (hD1 hdp' ht) hep'.le
        linarith
      | false =>
        simp only [Bool.false_eq_true, if_false, Bool.not_false, if_true] at ht ⊢
        have := div_nonpos_of_nonpos_of_nonneg (hD3 hdp' ht) hep'.le
        linarith
  · rename_i hev
    have hev0 : e vid = 0 := by simpa using hev
    have hl : linEval e (upd x vid t) n = linEval e x n := by
      rw [linEval_upd, if_pos hv, hev0]; simp
    have href := octRefineVarV_sound fx hR hv hc hev0 hden hh hx (if isLe then .le else .ge) hok (b := b) (by
      rw [hl]
      simp only [upd, if_true]
      cases isLe with
      | true => simpa [RelSym.holds] using ht
      | false => simpa [RelSym.holds] using ht)
    generalize octRefineVarV fx R n vid (if isLe = true then RelSym.le else RelSym.ge) e b den m = mf at href ⊢
    split
    · exact ⟨_, rfl, octForget_back_holds hv href⟩
    · obtain ⟨m', hm', hx'⟩ := octCloseRaw_sound hR href
      exact ⟨_, by rw [hm']; rfl, octForget_back_holds hv hx'⟩

/-- Core-level exports -/
theorem octAffinePreimage_sound {R : Rnd} (hR : R.Sound) {n : Nat} (m : OctM n) (closed : Bool) {vid : Nat}
    (hv : vid < n) {e : Nat → Int} {b den : Int} (hden : den ≠ 0) (hc : CoeffExact R e)
    (hcd : R.up ((absI den : Int) : Rat) = fin ((absI den : Int) : Rat))
    (hh : ∀ m', octCloseFirst R.up closed m = some m' → HalfFiniteOn R.up m') :
    ∀ x, upd x vid ((linEval e x n + b) / den) ∈ OctM.γ m →
      ∃ m', octAffinePreimage R closed vid e b den m = some m' ∧ x ∈ γO n m' := by
  intro x hx
  obtain ⟨m1, h1, hx1⟩ := octCloseFirst_sound hR.up_le closed m hx
  obtain ⟨m', hm', hx'⟩ := octAffinePreimageCore_sound hR hv hc hden hcd (hh m1 h1) hx1
  exact ⟨m', by simp [octAffinePreimage, h1, hm'], hx'⟩

theorem octGenAffinePreimageV_sound (fx : Bool) {R : Rnd} (hR : R.Sound) {n : Nat} (m : OctM n) (closed : Bool)
    {vid : Nat} (hv : vid < n) (rel : RelSym) {e : Nat → Int} {b den : Int} (hden : den ≠ 0) (hc : CoeffExact R e)
    (hcd : R.up ((absI den : Int) : Rat) = fin ((absI den : Int) : Rat))
    (hh : ∀ m', octCloseFirst R.up closed m = some m' → HalfFiniteOn R.up m')
    (hok : OctRefineOK fx vid rel e den) :
    ∀ x, ∀ t : Rat, upd x vid t ∈ OctM.γ m → RelSym.holds rel t ((linEval e x n + b) / den) →
      ∃ m', octGenAffinePreimageV fx R closed vid rel e b den m = some m' ∧ x ∈ γO n m' := by
  intro x t hx ht
  obtain ⟨m1, h1, hx1⟩ := octCloseFirst_sound hR.up_le closed m hx
  cases rel with
  | eq =>
    have ht' : t = (linEval e x n + b) / den := ht
    subst ht'
    obtain ⟨m', hm', hx'⟩ := octAffinePreimageCore_sound hR hv hc hden hcd (hh m1 h1) hx1
    exact ⟨m', by simp [octGenAffinePreimageV, octAffinePreimage, h1, hm'], hx'⟩
  | le =>
    have ht' : t ≤ (linEval e x n + b) / den := ht
    obtain ⟨m', hm', hx'⟩ := octGenAffinePreimageCoreV_sound fx hR hv hc hden hcd (hh m1 h1) true hok (b := b) hx1
      (by simpa using ht')
    exact ⟨m', by simp [octGenAffinePreimageV, h1, hm'], hx'⟩
  | ge =>
    have ht' : (linEval e x n + b) / den ≤ t := ht
    obtain ⟨m', hm', hx'⟩ := octGenAffinePreimageCoreV_sound fx hR hv hc hden hcd (hh m1 h1) false hok (b := b) hx1
      (by simpa using ht')
    exact ⟨m', by simp [octGenAffinePreimageV, h1, hm'], hx'⟩

/-- the code as written (`fx = false`): sound outside the branch of KF-C03-75 -/
theorem octGenAffinePreimage_sound {R : Rnd} (hR : R.Sound) {n : Nat} (m : OctM n) (closed : Bool)
    {vid : Nat} (hv : vid < n) (rel : RelSym) {e : Nat → Int} {b den : Int} (hden : den ≠ 0) (hc : CoeffExact R e)
    (hcd : R.up ((absI den : Int) : Rat) = fin ((absI den : Int) : Rat))
    (hh : ∀ m', octCloseFirst R.up closed m = some m' → HalfFiniteOn R.up m')
    (hok : rel ≠ .ge ∨ ∀ u, vid < u → e u ≠ den) :
    ∀ x, ∀ t : Rat, upd x vid t ∈ OctM.γ m → RelSym.holds rel t ((linEval e x n + b) / den) →
      ∃ m', octGenAffinePreimage R closed vid rel e b den m = some m' ∧ x ∈ γO n m' :=
  octGenAffinePreimageV_sound false hR m closed hv rel hden hc hcd hh (Or.inr hok)

end PPLV.WR
