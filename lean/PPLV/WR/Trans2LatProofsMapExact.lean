import PPLV.WR.Trans2LatProofsExact
/-!
# `map_space_dimensions` with a total injective function and no shrinking: exact (every bound type)
-/
set_option linter.unusedVariables false
namespace PPLV.WR
open ExtRat

/-- `pfunc` is injective on the variables of the shape -/
def latInjective (pf : List (Option Nat)) (n : Nat) : Prop :=
  ∀ i j a, i < n → j < n → latMaps pf i = some a → latMaps pf j = some a → i = j

theorem latMaxInCodomain_ge (pf : List (Option Nat)) (n : Nat) {i a : Nat} (hi : i < n)
    (h : latMaps pf i = some a) : a ≤ latMaxInCodomain pf n := by
  unfold latMaxInCodomain
  have gen : ∀ (l : List Nat) (acc : Nat),
      acc ≤ l.foldl (fun acc i => match latMaps pf i with | some j => max acc j | none => acc) acc ∧
      (i ∈ l → a ≤ l.foldl (fun acc i => match latMaps pf i with | some j => max acc j | none => acc) acc) := by
    intro l
    induction l with
    | nil => intro acc; exact ⟨le_refl _, fun h => by simp at h⟩
    | cons u us ih =>
      intro acc
      simp only [List.foldl_cons]
      have h1 := ih (match latMaps pf u with | some j => max acc j | none => acc)
      have hacc : acc ≤ (match latMaps pf u with | some j => max acc j | none => acc) := by
        cases latMaps pf u <;> simp
      refine ⟨le_trans hacc h1.1, fun hmem => ?_⟩
      rcases List.mem_cons.1 hmem with rfl | hmem
      · simp only [h] at h1 ⊢
        exact le_trans (le_max_right _ _) h1.1
      · exact h1.2 hmem
  exact (gen (List.range n) 0).2 (List.mem_range.2 hi)

/-- the unary loop of `map_space_dimensions` -/
def bdsLatMapU (n : Nat) (pf : List (Option Nat)) (dbm x : Mat) : Mat :=
  loopUp n (fun j0 x =>
    let j := j0 + 1
    match latMaps pf (j - 1) with
    | some new_j => (x.set 0 (new_j + 1) (dbm 0 j)).set (new_j + 1) 0 (dbm j 0)
    | none => x) x

/-- the body of the outer binary loop -/
def bdsLatMapBStep (n : Nat) (pf : List (Option Nat)) (dbm : Mat) (i0 : Nat) (x : Mat) : Mat :=
  let i := i0 + 1
  match latMaps pf (i - 1) with
  | some new_i0 =>
    let new_i := new_i0 + 1
    loopUp (n - i) (fun s x =>
      let j := i + 1 + s
      match latMaps pf (j - 1) with
      | some new_j0 =>
        let new_j := new_j0 + 1
        (x.set new_i new_j (dbm i j)).set new_j new_i (dbm j i)
      | none => x) x
  | none => x

theorem bdsLatMapLoops_eq (n : Nat) (pf : List (Option Nat)) (dbm x : Mat) :
    bdsLatMapLoops n pf dbm x = loopUp n (bdsLatMapBStep n pf dbm) (bdsLatMapU n pf dbm x) := rfl

/-- a binary step only writes cells `(pf i + 1, pf j + 1)`, `(pf j + 1, pf i + 1)` with `i0 = i < j < n` -/
theorem bdsLatMapBStep_miss (n : Nat) (pf : List (Option Nat)) (dbm : Mat) (i0 : Nat) (x : Mat) (A B : Nat)
    (h : ∀ j a b, i0 < j → j < n → latMaps pf i0 = some a → latMaps pf j = some b →
      ¬ ((A = a + 1 ∧ B = b + 1) ∨ (A = b + 1 ∧ B = a + 1))) :
    bdsLatMapBStep n pf dbm i0 x A B = x A B := by
  unfold bdsLatMapBStep
  simp only [Nat.add_sub_cancel]
  cases hm : latMaps pf i0 with
  | none => rfl
  | some ni =>
    dsimp only
    refine latLoopUp_frame (fun x : Mat => x A B) ?_
    intro s x hs
    have e : i0 + 1 + 1 + s - 1 = i0 + 1 + s := by omega
    rw [e]
    cases hm2 : latMaps pf (i0 + 1 + s) with
    | none => rfl
    | some nj =>
      dsimp only
      have := h (i0 + 1 + s) ni nj (by omega) (by omega) hm hm2
      simp only [Mat.set_apply]
      rw [if_neg (by omega), if_neg (by omega)]

theorem bdsLatMapU_miss (n : Nat) (pf : List (Option Nat)) (dbm x : Mat) (A B : Nat) (hA : A ≠ 0) (hB : B ≠ 0) :
    bdsLatMapU n pf dbm x A B = x A B := by
  unfold bdsLatMapU
  refine latLoopUp_frame (fun x : Mat => x A B) ?_
  intro j0 x hj
  simp only [Nat.add_sub_cancel]
  cases hm : latMaps pf j0 with
  | none => rfl
  | some nj =>
    dsimp only
    simp only [Mat.set_apply]
    rw [if_neg (by omega), if_neg (by omega)]

theorem bdsLatMapU_hit (n : Nat) (pf : List (Option Nat)) (hinj : latInjective pf n) (dbm x : Mat) {j a : Nat}
    (hj : j < n) (hm : latMaps pf j = some a) :
    bdsLatMapU n pf dbm x 0 (a + 1) = dbm 0 (j + 1) ∧ bdsLatMapU n pf dbm x (a + 1) 0 = dbm (j + 1) 0 := by
  unfold bdsLatMapU
  constructor
  · refine latLoopUp_cell (fun x : Mat => x 0 (a + 1)) (fun _ => True) (k0 := j) trivial
      (fun _ _ _ _ _ => trivial) hj ?_ ?_
    · intro x _
      simp only [Nat.add_sub_cancel, hm, Mat.set_apply]
      simp
    · intro k x hk hne
      simp only [Nat.add_sub_cancel]
      cases hm2 : latMaps pf k with
      | none => rfl
      | some nk =>
        dsimp only
        simp only [Mat.set_apply]
        have : nk ≠ a := fun h => hne (hinj k j a hk hj (h ▸ hm2) hm)
        rw [if_neg (by omega), if_neg (by omega)]
  · refine latLoopUp_cell (fun x : Mat => x (a + 1) 0) (fun _ => True) (k0 := j) trivial
      (fun _ _ _ _ _ => trivial) hj ?_ ?_
    · intro x _
      simp only [Nat.add_sub_cancel, hm, Mat.set_apply]
      simp
    · intro k x hk hne
      simp only [Nat.add_sub_cancel]
      cases hm2 : latMaps pf k with
      | none => rfl
      | some nk =>
        dsimp only
        simp only [Mat.set_apply]
        have : nk ≠ a := fun h => hne (hinj k j a hk hj (h ▸ hm2) hm)
        rw [if_neg (by omega), if_neg (by omega)]

/-- the binary step `i` writes both cells of the pair `i < j` -/
theorem bdsLatMapBStep_hit (n : Nat) (pf : List (Option Nat)) (hinj : latInjective pf n) (dbm x : Mat)
    {i j a b : Nat} (hij : i < j) (hj : j < n) (hmi : latMaps pf i = some a) (hmj : latMaps pf j = some b) :
    bdsLatMapBStep n pf dbm i x (a + 1) (b + 1) = dbm (i + 1) (j + 1) ∧
    bdsLatMapBStep n pf dbm i x (b + 1) (a + 1) = dbm (j + 1) (i + 1) := by
  have hab : a ≠ b := fun h => by have := hinj i j a (by omega) hj hmi (h ▸ hmj); omega
  unfold bdsLatMapBStep
  simp only [Nat.add_sub_cancel, hmi]
  have hstep : ∀ (s : Nat) (x : Mat) (A B : Nat), s < n - (i + 1) → i + 1 + s ≠ j →
      ((A = a + 1 ∧ B = b + 1) ∨ (A = b + 1 ∧ B = a + 1)) →
      (match latMaps pf (i + 1 + 1 + s - 1) with
        | some new_j0 => (x.set (a + 1) (new_j0 + 1) (dbm (i + 1) (i + 1 + 1 + s))).set (new_j0 + 1) (a + 1)
            (dbm (i + 1 + 1 + s) (i + 1))
        | none => x) A B = x A B := by
    intro s x A B hs hne hAB
    have e : i + 1 + 1 + s - 1 = i + 1 + s := by omega
    rw [e]
    cases hm2 : latMaps pf (i + 1 + s) with
    | none => rfl
    | some nk =>
      dsimp only
      simp only [Mat.set_apply]
      have : nk ≠ b := fun h => hne (hinj (i + 1 + s) j b (by omega) hj (h ▸ hm2) hmj)
      rw [if_neg (by omega), if_neg (by omega)]
  have hhit : ∀ (x : Mat),
      (match latMaps pf (i + 1 + 1 + (j - (i + 1)) - 1) with
        | some new_j0 => (x.set (a + 1) (new_j0 + 1) (dbm (i + 1) (i + 1 + 1 + (j - (i + 1))))).set
            (new_j0 + 1) (a + 1) (dbm (i + 1 + 1 + (j - (i + 1))) (i + 1))
        | none => x) = (x.set (a + 1) (b + 1) (dbm (i + 1) (j + 1))).set (b + 1) (a + 1) (dbm (j + 1) (i + 1)) := by
    intro x
    have e : i + 1 + 1 + (j - (i + 1)) - 1 = j := by omega
    have e2 : i + 1 + 1 + (j - (i + 1)) = j + 1 := by omega
    rw [e, hmj, e2]
  constructor
  · refine latLoopUp_cell (fun x : Mat => x (a + 1) (b + 1)) (fun _ => True) (k0 := j - (i + 1)) trivial
      (fun _ _ _ _ _ => trivial) (by omega) ?_ ?_
    · intro x _
      show (match latMaps pf (i + 1 + 1 + (j - (i + 1)) - 1) with
        | some new_j0 => _ | none => x) (a + 1) (b + 1) = _
      rw [hhit]
      simp only [Mat.set_apply]
      simp; intro h1 h2; omega
    · intro k x hk hne
      exact hstep k x _ _ hk (by omega) (Or.inl ⟨rfl, rfl⟩)
  · refine latLoopUp_cell (fun x : Mat => x (b + 1) (a + 1)) (fun _ => True) (k0 := j - (i + 1)) trivial
      (fun _ _ _ _ _ => trivial) (by omega) ?_ ?_
    · intro x _
      show (match latMaps pf (i + 1 + 1 + (j - (i + 1)) - 1) with
        | some new_j0 => _ | none => x) (b + 1) (a + 1) = _
      rw [hhit]
      simp only [Mat.set_apply]
      simp
    · intro k x hk hne
      exact hstep k x _ _ hk (by omega) (Or.inr ⟨rfl, rfl⟩)

/-- the cells of the mapped matrix between two different mapped indices -/
theorem bdsLatMapLoops_cell (n : Nat) (pf : List (Option Nat)) (hinj : latInjective pf n) (dbm x : Mat)
    {I J A B : Nat} (hI : I ≤ n) (hJ : J ≤ n) (hIJ : I ≠ J) (hA : latPhi pf I = some A)
    (hB : latPhi pf J = some B) : bdsLatMapLoops n pf dbm x A B = dbm I J := by
  rw [bdsLatMapLoops_eq]
  -- the images
  have img : ∀ K C, K ≤ n → latPhi pf K = some C → (K = 0 ∧ C = 0) ∨
      ∃ k c, K = k + 1 ∧ C = c + 1 ∧ k < n ∧ latMaps pf k = some c := by
    intro K C hK hC
    cases K with
    | zero => simp only [latPhi, Option.some.injEq] at hC; exact Or.inl ⟨rfl, hC.symm⟩
    | succ k =>
      right
      simp only [latPhi] at hC
      cases hm : latMaps pf k with
      | none => rw [hm] at hC; simp at hC
      | some c =>
        rw [hm] at hC
        simp only [Option.map_some, Option.some.injEq] at hC
        exact ⟨k, c, rfl, hC.symm, by omega, hm⟩
  rcases img I A hI hA with ⟨rfl, rfl⟩ | ⟨i, a, rfl, rfl, hi, hmi⟩
  · rcases img J B hJ hB with ⟨rfl, rfl⟩ | ⟨j, b, rfl, rfl, hj, hmj⟩
    · exact absurd rfl hIJ
    · rw [latLoopUp_frame (fun x : Mat => x 0 (b + 1)) (fun k x hk =>
        bdsLatMapBStep_miss n pf dbm k x 0 (b + 1) (by intro j' a' b' _ _ _ _; omega))]
      exact (bdsLatMapU_hit n pf hinj dbm x hj hmj).1
  · rcases img J B hJ hB with ⟨rfl, rfl⟩ | ⟨j, b, rfl, rfl, hj, hmj⟩
    · rw [latLoopUp_frame (fun x : Mat => x (a + 1) 0) (fun k x hk =>
        bdsLatMapBStep_miss n pf dbm k x (a + 1) 0 (by intro j' a' b' _ _ _ _; omega))]
      exact (bdsLatMapU_hit n pf hinj dbm x hi hmi).2
    · have hij : i ≠ j := fun h => hIJ (by rw [h])
      have hmiss : ∀ k x, k < n → k ≠ min i j →
          bdsLatMapBStep n pf dbm k x (a + 1) (b + 1) = x (a + 1) (b + 1) := by
        intro k x hk hne
        apply bdsLatMapBStep_miss
        intro j' a' b' h1 h2 h3 h4 hc
        rcases hc with ⟨e1, e2⟩ | ⟨e1, e2⟩
        · have := hinj k i a hk hi (by rw [h3]; congr 1; omega) hmi
          have := hinj j' j b h2 hj (by rw [h4]; congr 1; omega) hmj
          omega
        · have := hinj j' i a h2 hi (by rw [h4]; congr 1; omega) hmi
          have := hinj k j b hk hj (by rw [h3]; congr 1; omega) hmj
          omega
      refine latLoopUp_cell (fun x : Mat => x (a + 1) (b + 1)) (fun _ => True) (k0 := min i j) trivial
        (fun _ _ _ _ _ => trivial) (by omega) ?_ (fun k x hk hne => hmiss k x hk hne)
      intro x _
      rcases Nat.lt_or_gt_of_ne hij with h | h
      · have e : min i j = i := by omega
        rw [e]
        exact (bdsLatMapBStep_hit n pf hinj dbm x h hj hmi hmj).1
      · have e : min i j = j := by omega
        rw [e]
        exact (bdsLatMapBStep_hit n pf hinj dbm x h hi hmj hmi).2

/-- `map_space_dimensions` with a total injective `pfunc` that does not shrink the space (no closure is
run): exact for every bound type; `img i` is the image of `Variable(i)` -/
theorem bdsLatMapDims_exact (R : Rnd) (n : Nat) (c : Bool) (m : Mat) (hd : bdsLatDiag n m)
    (pf : List (Option Nat)) (img : Nat → Nat) (himg : ∀ i, i < n → latMaps pf i = some (img i))
    (hinj : latInjective pf n) (hns : ¬ latMaxInCodomain pf n + 1 < n) :
    ∃ r, bdsLatMapDims R n c m pf = some r ∧ r.dim = latMapNewDim pf n ∧
      ∀ y, y ∈ γB r.dim r.m ↔ (fun i => y (img i)) ∈ γB n m := by
  unfold bdsLatMapDims latMapNewDim
  by_cases hn : n = 0
  · subst hn
    simp only [if_true]
    exact ⟨_, rfl, rfl, fun y => ⟨fun h => latGammaB_congr (n := 0) (fun i hi => absurd hi (Nat.not_lt_zero i)) h,
      fun h => latGammaB_congr (n := 0) (fun i hi => absurd hi (Nat.not_lt_zero i)) h⟩⟩
  · have hec : latEmptyCodomain pf n = false := by
      unfold latEmptyCodomain
      rw [List.all_eq_false]
      exact ⟨0, List.mem_range.2 (by omega), by rw [himg 0 (by omega)]; simp⟩
    simp only [if_neg hn, hec, Bool.false_eq_true, if_false, if_neg hns]
    refine ⟨_, rfl, rfl, fun y => ⟨fun h => ?_, fun h => ?_⟩⟩
    · -- exactness: every cell of `m` is a cell of the result
      have hphi : ∀ K, K ≤ n → ∃ C, latPhi pf K = some C ∧ C ≤ latMaxInCodomain pf n + 1 ∧
          DBM.val (fun i => y (img i)) K = DBM.val y C := by
        intro K hK
        cases K with
        | zero => exact ⟨0, rfl, by omega, rfl⟩
        | succ k =>
          refine ⟨img k + 1, by simp [latPhi, himg k (by omega)], ?_, rfl⟩
          have := latMaxInCodomain_ge pf n (by omega : k < n) (himg k (by omega))
          omega
      intro I J hIJ
      have hI : I ≤ n := by have := hIJ.1; omega
      have hJ : J ≤ n := by have := hIJ.2; omega
      by_cases hne : I = J
      · subst hne; rw [hd I hI]; exact le_pinf _
      · obtain ⟨A, hA, hA2, eA⟩ := hphi I hI
        obtain ⟨B, hB, hB2, eB⟩ := hphi J hJ
        rw [eA, eB, ← bdsLatMapLoops_cell n pf hinj m { f := fun _ _ => pinf } hI hJ hne hA hB]
        exact h A B ⟨by simp only; omega, by simp only; omega⟩
    · exact bdsLatMapInv_holds (bdsLatMapLoops_inv n pf m) h
        (fun i hi a ha => by rw [himg i hi] at ha; simp only [Option.some.injEq] at ha; rw [ha]) _

end PPLV.WR
