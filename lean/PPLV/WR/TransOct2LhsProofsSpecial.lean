import PPLV.WR.TransOct2LhsProofsBase
import PPLV.WR.Trans2LhsProofsPre
/-!
# `Octagonal_Shape<T>::generalized_affine_image / _preimage (lhs, relsym, rhs)`: the branches that do not
delegate to the single-variable transformers (constant `lhs`, general `lhs`)
-/
set_option linter.unusedVariables false
set_option linter.unusedSimpArgs false
namespace PPLV.WR
open ExtRat

/-- `lhs` constant: `refine_no_check(lhs relsym rhs)`; no side condition -/
theorem octLhsImage_t0_sound {R : Rnd} (hR : R.Sound) {n : Nat} (rel : RelSym) {el er : Nat → Int} (bl br : Int)
    (h0 : exprT el (lastNonzero el n) = 0) {m : Mat} {x x' : Nat → Rat} (hx : x ∈ γO n m)
    (hag : ∀ i, i < n → el i = 0 → x' i = x i)
    (hrel : rel.holds (linEval el x' n + bl) (linEval er x n + br)) :
    ∃ m', octLhsGenAffineImageCore R n rel el bl er br m = some m' ∧ x' ∈ γO n m' := by
  have hall : ∀ i, i < n → x' i = x i := fun i hi => hag i hi (lhs_t0_zero h0 i hi)
  have hx' : x' ∈ γO n m := octLhs_holds_congr hall hx
  rw [← linEval_congr_x er hall] at hrel
  obtain ⟨m', hm', hy, _⟩ := octLhsRefineRel_sound (R := R) hR.up_le rel bl br (lastNonzero_le el n)
    (lastNonzero_le er n) (lastNonzero_above el n) (lastNonzero_above er n) hx' hrel
  refine ⟨m', ?_, hy⟩
  unfold octLhsGenAffineImageCore
  dsimp only [lhsForm, lhsSpaceDim]
  rw [if_pos h0, hm']
  rfl

/-- `lhs` general: forget the variables of `lhs`, then (disjoint case) `refine_no_check`; no side condition -/
theorem octLhsImage_t2_sound {R : Rnd} (hR : R.Sound) {n : Nat} (rel : RelSym) {el er : Nat → Int} (bl br : Int)
    (h0 : ¬ exprT el (lastNonzero el n) = 0) (h1 : ¬ exprT el (lastNonzero el n) = 1)
    {m : Mat} {x x' : Nat → Rat} (hx : x ∈ γO n m)
    (hag : ∀ i, i < n → el i = 0 → x' i = x i)
    (hrel : rel.holds (linEval el x' n + bl) (linEval er x n + br)) :
    ∃ m', octLhsGenAffineImageCore R n rel el bl er br m = some m' ∧ x' ∈ γO n m' := by
  have hfor : x' ∈ γO n (octLhsForgetVars n (lhsVars el n) m) :=
    holds_octForget_lhsVars (le_refl n) hx hag (fun i h1 h2 => by omega)
  unfold octLhsGenAffineImageCore
  dsimp only [lhsForm, lhsSpaceDim]
  rw [if_neg h0, if_neg h1]
  split
  · rename_i hcom
    have hcom' : lhsHaveCommonVar el er (min (lhsSpaceDim el n) (lhsSpaceDim er n)) = false := by
      simpa [lhsSpaceDim] using hcom
    have hnc := lhs_no_common hcom'
    have hr : linEval er x' n = linEval er x n :=
      lhs_linEval_support er (fun i hi hne => hag i hi (by
        by_contra hel
        exact hne (hnc i hi hel)))
    rw [← hr] at hrel
    obtain ⟨m', hm', hy, _⟩ := octLhsRefineRel_sound (R := R) hR.up_le rel bl br (lastNonzero_le el n)
      (lastNonzero_le er n) (lastNonzero_above el n) (lastNonzero_above er n) hfor hrel
    rw [hm']
    exact ⟨m', rfl, hy⟩
  · exact ⟨_, rfl, hfor⟩

/-- `lhs` constant: the preimage is the image -/
theorem octLhsPre_t0_sound {R : Rnd} (hR : R.Sound) {n : Nat} (rel : RelSym) {el er : Nat → Int} (bl br : Int)
    (h0 : exprT el (lastNonzero el n) = 0) {m : Mat} {x x' : Nat → Rat} (hx' : x' ∈ γO n m)
    (hag : ∀ i, i < n → el i = 0 → x' i = x i)
    (hrel : rel.holds (linEval el x' n + bl) (linEval er x n + br)) :
    ∃ m', octLhsGenAffinePreimageCore R n rel el bl er br m = some m' ∧ x ∈ γO n m' := by
  have hall : ∀ i, i < n → x' i = x i := fun i hi => hag i hi (lhs_t0_zero h0 i hi)
  have hrel' : rel.holds (linEval el x n + bl) (linEval er x' n + br) := by
    rw [linEval_congr_x er hall, ← linEval_congr_x el hall]; exact hrel
  have := octLhsImage_t0_sound hR rel bl br h0 hx' (fun i hi h => (hag i hi h).symm) hrel'
  unfold octLhsGenAffinePreimageCore
  dsimp only [lhsForm]
  rw [if_pos h0]
  exact this

/-- `lhs` general, variables disjoint from `rhs`: `refine_no_check`, `is_empty()`, forget; no side condition -/
theorem octLhsPre_disjoint_sound {R : Rnd} (hR : R.Sound) {n : Nat} (rel : RelSym) {el er : Nat → Int} (bl br : Int)
    (h0 : ¬ exprT el (lastNonzero el n) = 0) (h1 : ¬ exprT el (lastNonzero el n) = 1)
    (hcom : lhsHaveCommonVar el er (min (lhsSpaceDim el n) (lhsSpaceDim er n)) = false)
    {m : Mat} {x x' : Nat → Rat} (hx' : x' ∈ γO n m)
    (hag : ∀ i, i < n → el i = 0 → x' i = x i)
    (hrel : rel.holds (linEval el x' n + bl) (linEval er x n + br)) :
    ∃ m', octLhsGenAffinePreimageCore R n rel el bl er br m = some m' ∧ x ∈ γO n m' := by
  have hnc := lhs_no_common hcom
  have hr : linEval er x' n = linEval er x n :=
    lhs_linEval_support er (fun i hi hne => hag i hi (by
      by_contra hel
      exact hne (hnc i hi hel)))
  rw [← hr] at hrel
  obtain ⟨m1, hm1, hy, _⟩ := octLhsRefineRel_sound (R := R) hR.up_le rel bl br (lastNonzero_le el n)
    (lastNonzero_le er n) (lastNonzero_above el n) (lastNonzero_above er n) hx' hrel
  have hforget : ∀ {mm : Mat}, x' ∈ γO n mm → x ∈ γO n (octLhsForgetVars n (lhsVars el n) mm) :=
    fun h => holds_octForget_lhsVars (le_refl n) h (fun i hi h => (hag i hi h).symm) (fun i h1 h2 => by omega)
  unfold octLhsGenAffinePreimageCore
  dsimp only [lhsForm]
  rw [if_neg h0, if_neg h1, hcom]
  simp only [Bool.not_false, if_true]
  unfold lhsSpaceDim
  rw [hm1]
  dsimp only
  split
  · exact ⟨_, rfl, hforget hy⟩
  · obtain ⟨m2, hm2, hy2⟩ := octLhs_closeRaw_sound hR hy
    rw [hm2]
    exact ⟨_, rfl, hforget hy2⟩

/-- `lhs` general, sharing variables with `rhs`: the additional dimension -/
theorem octLhsPreimageNewDim_sound {R : Rnd} (hR : R.Sound) {n : Nat} (rel : RelSym) {el er : Nat → Int}
    (bl br : Int) (hel : ∀ i, n ≤ i → el i = 0) (her : ∀ i, n ≤ i → er i = 0) (hc : CoeffExact R el)
    {m : Mat} (hh : HalfFiniteOn R.up m) {x x' : Nat → Rat} (hx' : x' ∈ γO n m)
    (hag : ∀ i, i < n → el i = 0 → x' i = x i)
    (hrel : rel.holds (linEval el x' n + bl) (linEval er x n + br)) :
    ∃ m', octLhsPreimageNewDim R n rel el bl er br m = some m' ∧ x ∈ γO n m' := by
  unfold octLhsPreimageNewDim
  dsimp only
  -- the new dimension receives the value of `lhs`
  have hx0 := octLhs_holds_embedOne hx'
  have hh0 : HalfFiniteOn R.up (OctM.ofMat (n + 1) (octEmbedOne n m)).e :=
    octLhs_halfFinite_ofMat (octLhs_halfFinite_embed hh)
  have hx0' : x' ∈ γO (n + 1) (OctM.ofMat (n + 1) (octEmbedOne n m)).e :=
    (OctM.sat_iff_holds _ _).1 (sat_octOfMat hx0)
  obtain ⟨m1, hm1, hx1⟩ := octAffineImageCore_sound hR (Nat.lt_succ_self n) hc (by decide : (1 : Int) ≠ 0)
    (b := bl) hh0 hx0'
  have hu : linEval el x' (n+1) = linEval el x' n := by simp [linEval, hel n (le_refl n)]
  rw [hu, Int.cast_one, div_one] at hx1
  generalize hU : linEval el x' n + (bl : Rat) = U at hx1 hrel
  have hcall : octAffineImage R true n el bl 1 (OctM.ofMat (n + 1) (octEmbedOne n m)) = some m1 := by
    simp only [octAffineImage, octCloseFirst, if_true, Option.bind_some]
    exact hm1
  rw [hcall]
  simp only [Option.bind_some]
  -- the variables of `lhs` are forgotten: the point `(x, U)`
  have hx3 : upd x n U ∈ γO (n+1) (octLhsForgetVars (n + 1) (lhsVars el n) m1) :=
    holds_octForget_lhsVars (N := n + 1) (n := n) (by omega) hx1
      (fun i hi h => by
        simp only [upd, if_neg (show i ≠ n by omega)]
        exact (hag i hi h).symm)
      (fun i h1 h2 => by
        have : i = n := by omega
        subst this; simp [upd])
  -- `new_var relsym rhs`
  have hnv : linEval (fun i => if i = n then (1 : Int) else 0) (upd x n U) (n + 1) = U := by
    rw [linEval_single 1 _ (Nat.lt_succ_self n)]; simp [upd]
  have hrv : linEval er (upd x n U) (n + 1) = linEval er x n := by
    simp only [linEval, her n (le_refl n)]
    rw [linEval_congr_x er (x := upd x n U) (y := x) (fun i hi => by simp [upd]; intro h; omega)]
    simp
  obtain ⟨m4, hm4, hy4, _⟩ := octLhsRefineRel_sound (R := R) hR.up_le (N := n + 1) rel
    (sdl := n + 1) (sdr := lhsSpaceDim er n) (el := fun i => if i = n then (1 : Int) else 0) (er := er) 0 br
    (le_refl _) (by unfold lhsSpaceDim; have := lastNonzero_le er n; omega)
    (fun i h1 h2 => by omega)
    (fun i h1 h2 => by
      by_cases hin : i < n
      · exact lastNonzero_above er n i h1 hin
      · exact her i (by omega))
    hx3 (by rw [hnv, hrv]; simpa using hrel)
  rw [hm4]
  dsimp only
  split
  · exact ⟨_, rfl, octLhs_restrict hy4⟩
  · obtain ⟨m5, hm5, hy5⟩ := octLhs_closeRaw_sound hR hy4
    rw [hm5]
    exact ⟨_, rfl, octLhs_restrict hy5⟩

end PPLV.WR
