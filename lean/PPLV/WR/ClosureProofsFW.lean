import PPLV.WR.ClosureProofsExact
/-!
# Exact arithmetic: the in-place Floyd–Warshall loop nest produces a shortest-path closed matrix

Part A of `C03.closure_exact`.  With `up = fin` and a non-negative diagonal entry `d k k`, the
in-place sweep of outer iteration `k` equals the simultaneous update
`T i j = min (d i j) (d i k + d k j)` (row `k` and column `k` are fixed points of the sweep), and the
simultaneous update extends the triangle inequality from the pivots `> k` to the pivots `≥ k`.
The diagonal is non-negative all along because entries only decrease and the final test is silent.
-/
namespace PPLV.WR
open ExtRat

/-! ## exact `ExtRat` algebra -/

theorem eadd_comm (a b : ExtRat) : eadd a b = eadd b a := by
  cases a <;> cases b <;> simp [eadd, addUp, add_comm]

theorem eadd_assoc (a b c : ExtRat) : eadd (eadd a b) c = eadd a (eadd b c) := by
  cases a <;> cases b <;> cases c <;> simp [eadd, addUp, add_assoc]

theorem eadd_mono {a b c d : ExtRat} (h1 : a ≤ b) (h2 : c ≤ d) : eadd a c ≤ eadd b d := by
  cases a <;> cases b <;> cases c <;> cases d <;> simp_all [eadd, addUp]
  exact add_le_add h1 h2

theorem le_eadd_left {a b : ExtRat} (h : fin 0 ≤ a) : b ≤ eadd a b := by
  cases a <;> cases b <;> simp_all [eadd, addUp]

theorem le_eadd_right {a b : ExtRat} (h : fin 0 ≤ a) : b ≤ eadd b a := by
  rw [eadd_comm]; exact le_eadd_left h

theorem eadd_pinf_left (b : ExtRat) : eadd pinf b = pinf := by cases b <;> rfl
theorem eadd_pinf_right (a : ExtRat) : eadd a pinf = pinf := by cases a <;> rfl

theorem minA_eq_left {a b : ExtRat} (h : a ≤ b) : minA a b = a := by unfold minA; rw [if_pos h]
theorem minA_pinf (a : ExtRat) : minA a pinf = a := minA_eq_left (le_pinf a)
theorem minA_cases (a b : ExtRat) : minA a b = a ∨ minA a b = b := by
  unfold minA; split <;> simp

/-! ## loops with a progress-indexed invariant -/

theorem loopDown_ind {α : Type} (I : Nat → α → Prop) (n : Nat) (f : Nat → α → α) (a : α)
    (h0 : I n a) (hs : ∀ t, t < n → ∀ s, I (t+1) s → I t (f t s)) : I 0 (loopDown n f a) := by
  induction n generalizing a with
  | zero => exact h0
  | succ n ih =>
    simp only [loopDown]
    exact ih (f n a) (hs n (Nat.lt_succ_self n) a h0) (fun t ht s => hs t (Nat.lt_succ_of_lt ht) s)

/-! ## one outer iteration -/

/-- the body of the `k` loop of `shortest_path_closure_assign` -/
def bdsIterK (up : Rat → ExtRat) (rows k : Nat) (m : Mat) : Mat :=
  loopDown rows (fun i m =>
    if (m i k).isPinf then m
    else loopDown rows (fun j m =>
      if (m k j).isPinf then m else bdsRelax up m i k j) m) m

theorem bdsLoops_eq (up : Rat → ExtRat) (rows : Nat) (m : Mat) :
    bdsLoops up rows m = loopDown rows (bdsIterK up rows) m := rfl

theorem pres_bdsIterK {up : Rat → ExtRat} (hup : ∀ x, fin x ≤ up x) {rows k : Nat} (hk : k < rows)
    (m : Mat) : Pres (SB rows) (fun _ => True) m (bdsIterK up rows k m) := by
  unfold bdsIterK
  apply Pres.loopDown; intro i _ m
  apply Pres.ite; exact Pres.refl _
  apply Pres.loopDown; intro j _ m
  apply Pres.ite; exact Pres.refl _
  exact pres_bdsRelax hup hk i j m

/-- the simultaneous update of pivot `k` -/
def simT (d : Mat) (k i j : Nat) : ExtRat := minA (d i j) (eadd (d i k) (d k j))

theorem simT_col {d : Mat} {k : Nat} (hkk : fin 0 ≤ d k k) (i : Nat) : simT d k i k = d i k :=
  minA_eq_left (le_eadd_right hkk)

theorem simT_row {d : Mat} {k : Nat} (hkk : fin 0 ≤ d k k) (j : Nat) : simT d k k j = d k j :=
  minA_eq_left (le_eadd_left hkk)

/-- row `k` and column `k` of the state are those of `d` -/
def RowCol (R k : Nat) (d m : Mat) : Prop :=
  (∀ a, a < R → m a k = d a k) ∧ (∀ b, b < R → m k b = d k b)

/-- the sweep over row `i` -/
theorem inner_spec {R k i : Nat} (_hk : k < R) (hi : i < R) {d s : Mat} (hkk : fin 0 ≤ d k k)
    (hP : RowCol R k d s) (hrow : ∀ b, b < R → s i b = d i b) :
    let s' := if (s i k).isPinf = true then s
      else loopDown R (fun j m => if (m k j).isPinf = true then m else bdsRelax fin m i k j) s
    RowCol R k d s' ∧ (∀ b, b < R → s' i b = simT d k i b) ∧ (∀ a, a ≠ i → ∀ b, s' a b = s a b) := by
  intro s'
  by_cases hpinf : (s i k).isPinf = true
  · have hs' : s' = s := if_pos hpinf
    rw [hs']
    refine ⟨hP, fun b hb => ?_, fun _ _ _ => rfl⟩
    have : d i k = pinf := by rw [← hP.1 i hi]; exact (isPinf_iff _).1 hpinf
    unfold simT
    rw [this, eadd_pinf_left, minA_pinf]
    exact hrow b hb
  · have hs' : s' = loopDown R (fun j m => if (m k j).isPinf = true then m else bdsRelax fin m i k j) s :=
      if_neg hpinf
    rw [hs']
    have key := loopDown_ind
      (fun u m => RowCol R k d m ∧ (∀ b, u ≤ b → b < R → m i b = simT d k i b) ∧
        (∀ b, b < u → m i b = d i b) ∧ (∀ a, a ≠ i → ∀ b, m a b = s a b))
      R (fun j m => if (m k j).isPinf = true then m else bdsRelax fin m i k j) s
      ⟨hP, fun b h1 h2 => absurd h2 (by omega), hrow, fun _ _ _ => rfl⟩
      (by
        intro t ht m ⟨hPm, hdone, htodo, hoth⟩
        -- the value the step stores at `(i, t)`, in both branches, is `simT d k i t`
        have hval : simT d k i t = minA (m i t) (eadd (m i k) (m k t)) := by
          unfold simT
          rw [htodo t (Nat.lt_succ_self t), hPm.1 i hi, hPm.2 t ht]
        by_cases hp : (m k t).isPinf = true
        · -- skipped: the cell keeps its value, which is already `simT`
          rw [if_pos hp]
          have hmk : m k t = pinf := (isPinf_iff _).1 hp
          have hsame : m i t = simT d k i t := by
            rw [hval, hmk, eadd_pinf_right, minA_pinf]
          refine ⟨hPm, fun b h1 h2 => ?_, fun b hb => htodo b (by omega), hoth⟩
          by_cases hbt : b = t
          · rw [hbt]; exact hsame
          · exact hdone b (by omega) h2
        · rw [if_neg hp]
          have hset : ∀ a b, bdsRelax fin m i k t a b = if a = i ∧ b = t then simT d k i t else m a b := by
            intro a b
            unfold bdsRelax
            rw [Mat.set_apply, hval]
          refine ⟨⟨fun a ha => ?_, fun b hb => ?_⟩, fun b h1 h2 => ?_, fun b hb => ?_, fun a ha b => ?_⟩
          · rw [hset]
            split
            · rename_i hc
              rw [hc.1, ← hc.2, simT_col hkk]
            · exact hPm.1 a ha
          · rw [hset]
            split
            · rename_i hc
              rw [← hc.1, hc.2, simT_row hkk]
            · exact hPm.2 b hb
          · rw [hset]
            by_cases hbt : b = t
            · rw [if_pos ⟨rfl, hbt⟩, hbt]
            · rw [if_neg (by omega)]
              exact hdone b (by omega) h2
          · rw [hset, if_neg (by omega)]
            exact htodo b (by omega)
          · rw [hset, if_neg (by omega)]
            exact hoth a ha b)
    exact ⟨key.1, fun b hb => key.2.1 b (Nat.zero_le b) hb, key.2.2.2⟩

/-- with a non-negative `d k k` the in-place sweep of pivot `k` is the simultaneous update -/
theorem bdsIterK_spec {R k : Nat} (hk : k < R) {d : Mat} (hkk : fin 0 ≤ d k k) :
    ∀ a b, a < R → b < R → bdsIterK fin R k d a b = simT d k a b := by
  unfold bdsIterK
  have key := loopDown_ind
    (fun t m => RowCol R k d m ∧ (∀ a, t ≤ a → a < R → ∀ b, b < R → m a b = simT d k a b) ∧
      (∀ a, a < t → ∀ b, b < R → m a b = d a b))
    R (fun i m => if (m i k).isPinf = true then m
      else loopDown R (fun j m => if (m k j).isPinf = true then m else bdsRelax fin m i k j) m) d
    ⟨⟨fun _ _ => rfl, fun _ _ => rfl⟩, fun a h1 h2 => absurd h2 (by omega), fun _ _ _ _ => rfl⟩
    (by
      intro t ht m ⟨hPm, hdone, htodo⟩
      obtain ⟨h1, h2, h3⟩ := inner_spec hk ht hkk hPm (htodo t (Nat.lt_succ_self t))
      refine ⟨h1, fun a ha1 ha2 b hb => ?_, fun a ha b hb => ?_⟩
      · by_cases hat : a = t
        · rw [hat]; exact h2 b hb
        · rw [h3 a hat b]; exact hdone a (by omega) ha2 b hb
      · rw [h3 a (by omega) b]; exact htodo a (by omega) b hb)
  intro a b ha hb
  exact key.2.1 a (Nat.zero_le a) ha b hb

/-! ## the triangle inequality for the processed pivots -/

/-- triangle inequality through every pivot `k` with `t ≤ k < R` -/
def CK (R t : Nat) (d : Mat) : Prop :=
  ∀ i j k, i < R → j < R → t ≤ k → k < R → d i j ≤ eadd (d i k) (d k j)

theorem ck_step {R t : Nat} (ht : t < R) {d d' : Mat} (hck : CK R (t+1) d) (htt : fin 0 ≤ d t t)
    (hd' : ∀ a b, a < R → b < R → d' a b = simT d t a b) : CK R t d' := by
  intro i j k hi hj hk1 hk2
  rw [hd' i j hi hj, hd' i k hi hk2, hd' k j hk2 hj]
  have base : simT d t i j ≤ eadd (d i t) (d t j) := minA_le_right _ _
  by_cases hkt : k = t
  · rw [hkt, simT_col htt, simT_row htt]; exact base
  · have hk : t + 1 ≤ k := by omega
    have c1 := hck i j k hi hj hk hk2
    have c2 := hck i t k hi ht hk hk2
    have c3 := hck t j k ht hj hk hk2
    have c4 := hck t t k ht ht hk hk2
    unfold simT
    rcases minA_cases (d i k) (eadd (d i t) (d t k)) with h1 | h1 <;>
      rcases minA_cases (d k j) (eadd (d k t) (d t j)) with h2 | h2 <;> rw [h1, h2]
    · exact le_trans' (minA_le_left _ _) c1
    · rw [← eadd_assoc]
      exact le_trans' base (eadd_mono c2 (le_rfl' _))
    · rw [eadd_assoc]
      exact le_trans' base (eadd_mono (le_rfl' _) c3)
    · have e : eadd (eadd (d i t) (d t k)) (eadd (d k t) (d t j))
          = eadd (d i t) (eadd (eadd (d t k) (d k t)) (d t j)) := by
        rw [eadd_assoc, eadd_assoc]
      rw [e]
      refine le_trans' base (eadd_mono (le_rfl' _) ?_)
      exact le_trans' (le_eadd_left htt) (eadd_mono c4 (le_rfl' _))

theorem fw_closed_aux (R : Nat) (n : Nat) (hn : n ≤ R) (d : Mat) (hck : CK R n d)
    (hdiag : ∀ h, h < R → fin 0 ≤ loopDown n (bdsIterK fin R) d h h) :
    CK R 0 (loopDown n (bdsIterK fin R) d) := by
  induction n generalizing d with
  | zero => exact hck
  | succ n ih =>
    simp only [loopDown] at hdiag ⊢
    have hn' : n < R := by omega
    have hmle : MLe (loopDown n (bdsIterK fin R) (bdsIterK fin R n d)) (bdsIterK fin R n d) :=
      (Pres.loopDown (S := SB R) (P := fun _ => True) n (bdsIterK fin R)
        (fun i hi a => pres_bdsIterK (fun _ => le_rfl' _) (by omega) a) _).2
    have hmle1 : MLe (bdsIterK fin R n d) d := (pres_bdsIterK (fun _ => le_rfl' _) hn' d).2
    have hnn : fin 0 ≤ d n n := le_trans' (hdiag n hn') (le_trans' (hmle n n) (hmle1 n n))
    exact ih (by omega) _ (ck_step hn' hck hnn (bdsIterK_spec hn' hnn)) hdiag

theorem negDiag_false_iff (k : Nat) (m : Mat) :
    m.negDiag k = false ↔ ∀ h, h < k → (m h h).isNeg = false := by
  simp [Mat.negDiag]

/-- exact arithmetic: when the emptiness test is silent, the matrix before "restore `+∞`" is
shortest-path closed with zero diagonal -/
theorem bdsCore_closed (R : Nat) (m : Mat) (hne : (bdsCore fin R m).negDiag R = false) :
    Closed R (bdsCore fin R m) := by
  have hnd := (negDiag_false_iff R _).1 hne
  have hmle : MLe (bdsCore fin R m) (Mat.diagDown R (fin 0) m) :=
    (pres_bdsLoops (P := fun _ => True) (fun _ => le_rfl' _) R _).2
  have hdiag : ∀ h, h < R → bdsCore fin R m h h = fin 0 := by
    intro h hh
    have h1 := hmle h h
    rw [Mat.diagDown_apply, if_pos ⟨rfl, hh⟩] at h1
    have h2 := hnd h hh
    cases hv : bdsCore fin R m h h with
    | pinf => rw [hv] at h1; simp at h1
    | fin q =>
      rw [hv] at h1 h2
      simp only [isNeg, decide_eq_false_iff_not, not_lt] at h2
      rw [fin_le_fin] at h1
      rw [le_antisymm h1 h2]
  refine ⟨hdiag, ?_⟩
  have := fw_closed_aux R R le_rfl (Mat.diagDown R (fin 0) m)
    (fun i j k _ _ h1 h2 => absurd h2 (by omega))
    (fun h hh => by
      have := hdiag h hh
      unfold bdsCore at this
      rw [bdsLoops_eq] at this
      rw [this]; exact le_rfl' _)
  intro i j k hi hj hk
  have h := this i j k hi hj (Nat.zero_le k) hk
  unfold bdsCore
  rw [bdsLoops_eq]
  exact h

namespace DBM
variable {n : Nat}

/-- from a potential of the closed core matrix to a point of `m` with the same differences -/
theorem point_of_potential (m : DBM n) {p : Nat → Rat}
    (hp : Holds (SB (n+1)) p (bdsCore fin (n+1) m.e)) :
    ∃ x : Nat → Rat, m.Sat x ∧ ∀ i, val x i = p i - p 0 := by
  refine ⟨fun i => p (i+1) - p 0, ?_, ?_⟩
  · have hv : ∀ i, val (fun i => p (i+1) - p 0) i = p i - p 0 := by
      intro i; cases i <;> simp [val]
    intro i j hi hj
    rw [hv, hv]
    have h1 := hp i j ⟨by omega, by omega⟩
    have h2 : bdsCore fin (n+1) m.e i j ≤ Mat.diagDown (n+1) (fin 0) m.e i j :=
      (pres_bdsLoops (P := fun _ => True) (fun _ => le_rfl' _) (n+1) _).2 i j
    rw [Mat.diagDown_apply] at h2
    have e : p j - p 0 - (p i - p 0) = p j - p i := by ring
    rw [e]
    by_cases hij : i = j
    · rw [hij, m.diag j hj]; exact le_pinf _
    · rw [if_neg (by omega)] at h2
      exact le_trans' h1 h2
  · intro i; cases i <;> simp [val]

theorem le_antisymm' {a b : ExtRat} (h1 : a ≤ b) (h2 : b ≤ a) : a = b := by
  cases a <;> cases b <;> simp_all
  exact le_antisymm h1 h2

theorem closure_core_closed (m : DBM n) (hne : closureEmpty upId m = false) :
    Closed (n+1) (bdsCore fin (n+1) m.e) :=
  bdsCore_closed (n+1) m.e hne

theorem closure_offdiag (m : DBM n) {i j : Nat} (hij : i ≠ j) :
    (closure upId m).e i j = bdsCore fin (n+1) m.e i j := by
  show Mat.diagDown (n+1) pinf (bdsCore fin (n+1) m.e) i j = _
  rw [Mat.diagDown_apply, if_neg (by omega)]

/-- exact arithmetic, test silent: the shape has a point -/
theorem closure_nonempty (m : DBM n) (hne : closureEmpty upId m = false) : ∃ x, m.Sat x := by
  obtain ⟨p, hp⟩ := (closure_core_closed m hne).nonempty
  obtain ⟨x, hx, _⟩ := point_of_potential m hp
  exact ⟨x, hx⟩

/-- exact arithmetic, test silent: every finite entry of the closed matrix is attained, every infinite
entry is unbounded, on the points of `m` -/
theorem closure_tight (m : DBM n) (hne : closureEmpty upId m = false) {i j : Nat} (hi : i ≤ n)
    (hj : j ≤ n) (hij : i ≠ j) :
    (∀ w, (closure upId m).e i j = fin w → ∃ x, m.Sat x ∧ val x j - val x i = w) ∧
    ((closure upId m).e i j = pinf → ∀ B : Rat, ∃ x, m.Sat x ∧ B ≤ val x j - val x i) := by
  have hc := closure_core_closed m hne
  rw [closure_offdiag m hij]
  constructor
  · intro w hw
    obtain ⟨p, hp, hd⟩ := hc.tight_fin (by omega) (by omega) hij hw
    obtain ⟨x, hx, hv⟩ := point_of_potential m hp
    exact ⟨x, hx, by rw [hv, hv]; linarith⟩
  · intro hw B
    obtain ⟨p, hp, hd⟩ := hc.tight_inf (by omega) (by omega) hij hw B
    obtain ⟨x, hx, hv⟩ := point_of_potential m hp
    exact ⟨x, hx, by rw [hv, hv]; linarith⟩

/-- exact arithmetic: closed matrices of equal non-empty shapes are equal -/
theorem closure_canonical (m1 m2 : DBM n) (h1 : closureEmpty upId m1 = false)
    (h2 : closureEmpty upId m2 = false) (heq : ∀ x, m1.Sat x ↔ m2.Sat x) {i j : Nat} (hi : i ≤ n)
    (hj : j ≤ n) : (closure upId m1).e i j = (closure upId m2).e i j := by
  by_cases hij : i = j
  · rw [hij, (closure upId m1).diag j hj, (closure upId m2).diag j hj]
  · have half : ∀ (a b : DBM n), closureEmpty upId a = false → (∀ x, a.Sat x → b.Sat x) →
        (closure upId a).e i j ≤ (closure upId b).e i j := by
      intro a b ha hab
      have ta := closure_tight a ha hi hj hij
      cases hv : (closure upId b).e i j with
      | pinf => exact le_pinf _
      | fin u =>
        cases hw : (closure upId a).e i j with
        | fin w =>
          obtain ⟨x, hx, hd⟩ := ta.1 w hw
          have := closure_sat (up := upId) (fun _ => le_rfl' _) b x (hab x hx) i j hi hj
          rw [hv, hd] at this
          exact this
        | pinf =>
          obtain ⟨x, hx, hd⟩ := ta.2 hw (u + 1)
          have := closure_sat (up := upId) (fun _ => le_rfl' _) b x (hab x hx) i j hi hj
          rw [hv, fin_le_fin] at this
          linarith
    exact le_antisymm' (half m1 m2 h1 (fun x => (heq x).1)) (half m2 m1 h2 (fun x => (heq x).2))

end DBM
end PPLV.WR
