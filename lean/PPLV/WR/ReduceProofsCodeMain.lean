import PPLV.WR.ReduceProofsCodeStep3
/-!
# Reduction (BD shapes): the loop of Step 3 and the specification of `shortest_path_reduction_assign`
-/
namespace PPLV.WR
open ExtRat (fin pinf)

theorem exists_ge_split (Q : Nat → Prop) (t : Nat) :
    (∃ g, t ≤ g ∧ Q g) ↔ Q t ∨ ∃ g, t + 1 ≤ g ∧ Q g := by
  constructor
  · rintro ⟨g, hg, hq⟩
    by_cases h : g = t
    · subst h; exact Or.inl hq
    · exact Or.inr ⟨g, by omega, hq⟩
  · rintro (h | ⟨g, hg, hq⟩)
    · exact ⟨t, Nat.le_refl t, h⟩
    · exact ⟨g, by omega, hq⟩

section
variable {n : Nat} {c : DBM n}

/-- every class has a greatest element -/
theorem exists_top (hc : c.IsClosed) : ∀ d i, i ≤ n → n - i ≤ d → ∃ g, Top n c.e g ∧ i ≤ g ∧ ZEq c.e i g := by
  intro d
  induction d with
  | zero =>
    intro i hi hd
    have : i = n := by omega
    subst this
    exact ⟨i, ⟨Nat.le_refl i, fun k hk hlt => by omega⟩, Nat.le_refl i, ZEq.refl _ _⟩
  | succ d ih =>
    intro i hi hd
    by_cases h : ∃ k, k ≤ n ∧ i < k ∧ ZEq c.e k i
    · obtain ⟨k, hk, hik, hz⟩ := h
      obtain ⟨g, hT, hkg, hzg⟩ := ih k hk (by omega)
      exact ⟨g, hT, by omega, ZEq.trans hc hi hk hT.1 hz.symm hzg⟩
    · refine ⟨i, ⟨hi, fun k hk hlt hz => h ⟨k, hk, hlt, hz⟩⟩, Nat.le_refl i, ZEq.refl _ _⟩

/-- the state of the loop of Step 3 before iteration `t - 1` (iterations `t, …, n` done) -/
def Inv3 (n : Nat) (c : Mat) (P : Nat → Nat) (red2 : BMat) (t : Nat) (st : BMat × BVec) : Prop :=
  (∀ s, st.2 s = true ↔ ∃ g, t ≤ g ∧ (Top n c g ∧ s < g ∧ ZEq c s g)) ∧
  (∀ a b, st.1 a b = false ↔
    red2 a b = false ∨ ∃ g, t ≤ g ∧ (Top n c g ∧ P g ≠ g ∧ WalkCells c P g g a b))

/-- an iteration that does nothing: `t` is a leader or is not the top of its class -/
theorem Inv3.skip {P : Nat → Nat} (hP : IsPredMap n c.e P) {red2 : BMat} {t : Nat} {st : BMat × BVec}
    (ht : t ≤ n) (hno : ¬ (Top n c.e t ∧ P t ≠ t)) (h : Inv3 n c.e P red2 (t+1) st) :
    Inv3 n c.e P red2 t st := by
  obtain ⟨h1, h2⟩ := h
  constructor
  · intro s
    rw [h1 s, exists_ge_split _ t]
    constructor
    · intro h; exact Or.inr h
    · rintro (⟨hT, hs, hz⟩ | h)
      · exfalso
        apply hno
        refine ⟨hT, fun hpt => ?_⟩
        exact hP.self t s ht hpt hs hz
      · exact h
  · intro a b
    rw [h2 a b, exists_ge_split _ t]
    constructor
    · rintro (h | h)
      · exact Or.inl h
      · exact Or.inr (Or.inr h)
    · rintro (h | ⟨hT, hp, _⟩ | h)
      · exact Or.inl h
      · exact absurd ⟨hT, hp⟩ hno
      · exact Or.inr h

/-- one iteration of the loop of Step 3 -/
theorem step3_iter (hc : c.IsClosed) (P : Vec) (hP : IsPredMap n c.e P) (red2 : BMat) (t : Nat)
    (ht : t ≤ n) (st : BMat × BVec) (h : Inv3 n c.e P red2 (t+1) st) :
    ∃ st', (if t ≠ P t && !st.2 t then bdsChainWalk P t (n + 1 + 1) t st else some st) = some st' ∧
      Inv3 n c.e P red2 t st' := by
  by_cases hpt : P t = t
  · have hcond : (decide (t ≠ P t) && !st.2 t) = false := by
      simp [hpt]
    rw [hcond]
    exact ⟨st, rfl, h.skip hP ht (fun hh => hh.2 hpt)⟩
  · by_cases hdw : st.2 t = true
    · have hcond : (decide (t ≠ P t) && !st.2 t) = false := by
        simp [hdw]
      rw [hcond]
      refine ⟨st, rfl, h.skip hP ht ?_⟩
      rintro ⟨hT, _⟩
      obtain ⟨g, hg, hTg, htg, hz⟩ := (h.1 t).1 hdw
      exact hT.2 g hTg.1 htg hz.symm
    · have hdw : st.2 t = false := by simpa using hdw
      have hcond : (decide (t ≠ P t) && !st.2 t) = true := by
        simp only [hdw, Bool.not_false, Bool.and_true, decide_eq_true_eq]
        exact fun e => hpt e.symm
      rw [hcond]
      -- `t` is the top of its class
      have hT : Top n c.e t := by
        refine ⟨ht, fun k hk hlt hz => ?_⟩
        obtain ⟨g, hTg, hkg, hzg⟩ := exists_top hc (n - k) k hk (Nat.le_refl _)
        have : st.2 t = true :=
          (h.1 t).2 ⟨g, by omega, hTg, by omega, ZEq.trans hc ht hk hTg.1 hz.symm hzg⟩
        rw [hdw] at this
        cases this
      obtain ⟨red, dw⟩ := st
      obtain ⟨red', dw', hw, hr, hd⟩ := bdsChainWalk_spec hc P hP t (n+1+1) t red dw ht (by omega)
      refine ⟨(red', dw'), hw, ?_, ?_⟩
      · intro s
        show dw' s = true ↔ _
        rw [hd s, exists_ge_split _ t, h.1 s]
        constructor
        · rintro (h | ⟨hs, hz⟩)
          · exact Or.inr h
          · exact Or.inl ⟨hT, hs, hz⟩
        · rintro (⟨_, hs, hz⟩ | h)
          · exact Or.inr ⟨hs, hz⟩
          · exact Or.inl h
      · intro a b
        show red' a b = false ↔ _
        rw [hr a b, exists_ge_split _ t, h.2 a b]
        constructor
        · rintro ((h | h) | h)
          · exact Or.inl h
          · exact Or.inr (Or.inr h)
          · exact Or.inr (Or.inl ⟨hT, hpt, h⟩)
        · rintro (h | ⟨_, _, h⟩ | h)
          · exact Or.inl (Or.inl h)
          · exact Or.inr h
          · exact Or.inl (Or.inr h)

/-- the loop of Step 3 -/
theorem bdsStep3_spec (hc : c.IsClosed) (P : Vec) (hP : IsPredMap n c.e P) (red2 : BMat) :
    ∃ st, bdsStep3 (n+1) P red2 = some st.1 ∧ Inv3 n c.e P red2 0 st := by
  have key := loopDown_ind
    (fun t (o : Option (BMat × BVec)) => ∃ st, o = some st ∧ Inv3 n c.e P red2 t st) (n+1)
    (fun i st => st.bind fun (st : BMat × BVec) =>
      if i ≠ P i && !st.2 i then bdsChainWalk P i (n + 1 + 1) i st else some st)
    (some (red2, BVec.const false)) ⟨_, rfl, ?_⟩ ?_
  · obtain ⟨st, hst, hI⟩ := key
    refine ⟨st, ?_, hI⟩
    unfold bdsStep3
    rw [hst]
    rfl
  · constructor
    · intro s
      constructor
      · intro h; cases h
      · rintro ⟨g, hg, hT, _⟩
        have := hT.1
        omega
    · intro a b
      constructor
      · intro h; exact Or.inl h
      · rintro (h | ⟨g, hg, hT, _⟩)
        · exact h
        · have := hT.1
          omega
  · rintro t ht _ ⟨st, rfl, hI⟩
    simp only [Option.bind_some]
    exact step3_iter hc P hP red2 t (by omega) st hI

/-- the cells cleared by Step 3, in terms of the leader and predecessor maps -/
theorem walkCells_iff (hc : c.IsClosed) {lead P : Nat → Nat} (hL : IsLeaderMap n c.e lead)
    (hP : IsPredMap n c.e P) (i j : Nat) (hi : i ≤ n) (hj : j ≤ n) :
    (∃ g, 0 ≤ g ∧ (Top n c.e g ∧ P g ≠ g ∧ WalkCells c.e P g g i j))
      ↔ (i < j ∧ P j = i) ∨ (j < i ∧ lead i = j ∧ ∀ k, k ≤ n → i < k → ¬ ZEq c.e k i) := by
  have hself := fun t ht => pred_self_iff_lead_self hL hP t ht
  constructor
  · rintro ⟨g, _, hT, hpg, ⟨ha, hb, hz, hp⟩ | ⟨hab, hb, hz, hp⟩⟩
    · right
      subst ha
      have hji : j ≠ i := by
        intro e; rw [e] at hp; exact hpg hp
      refine ⟨by omega, ?_, hT.2⟩
      have h1 : lead j = j := (hself j hj).1 hp
      have h2 : lead j = lead i := (hL.eq_iff hc j i hj hi).2 hz
      rw [← h2, h1]
    · left
      exact ⟨hab, hp⟩
  · rintro (⟨hij, hp⟩ | ⟨hji, hl, htop⟩)
    · obtain ⟨g, hT, hjg, hz⟩ := exists_top hc (n - j) j hj (Nat.le_refl _)
      refine ⟨g, Nat.zero_le g, hT, ?_, Or.inr ⟨hij, hjg, hz, hp⟩⟩
      intro hpg
      have := eq_of_pred_self hP hT.1 hpg hjg hz
      subst this
      omega
    · refine ⟨i, Nat.zero_le i, ⟨hi, htop⟩, ?_, Or.inl ⟨rfl, by omega, ?_, ?_⟩⟩
      · intro hpi
        have := (hself i hi).1 hpi
        omega
      · rw [← hl]; exact hL.zeq i hi
      · apply (hself j hj).2
        rw [← hl]
        exact hL.lead_lead hc i hi

end

/-- `shortest_path_reduction_assign` (exact arithmetic) on a closed matrix leaves the specified `redundancy_dbm` -/
theorem bdsShortestPathReduction_spec {n : Nat} (c : DBM n) (hc : c.IsClosed) (red : BMat)
    (h : bdsShortestPathReduction upId n c.e = some red) :
    IsReduction n c.e (bdsComputeLeaders (n+1) c.e) (bdsComputePredecessors (n+1) c.e) red := by
  have hP := bdsComputePredecessors_spec c
  have hL := bdsComputeLeaders_spec c hc
  obtain ⟨st, hst, hI⟩ := bdsStep3_spec hc (bdsComputePredecessors (n+1) c.e) hP
    (bdsStep2 upId (computeLeaderIndices (n+1) (bdsComputePredecessors (n+1) c.e)) c.e (BMat.const true))
  have hred : red = st.1 := by
    have h' : bdsStep3 (n+1) (bdsComputePredecessors (n+1) c.e)
        (bdsStep2 upId (computeLeaderIndices (n+1) (bdsComputePredecessors (n+1) c.e)) c.e (BMat.const true))
        = some red := h
    rw [hst] at h'
    exact (Option.some.inj h').symm
  subst hred
  constructor
  intro i j hi hj
  rw [hI.2 i j, walkCells_iff hc hL hP i j hi hj, bdsStep2_false_iff]
  have hmem : ∀ k, k ∈ computeLeaderIndices (n+1) (bdsComputePredecessors (n+1) c.e)
      ↔ k ≤ n ∧ bdsComputeLeaders (n+1) c.e k = k := by
    intro k
    rw [mem_computeLeaderIndices]
    constructor
    · rintro ⟨h1, h2⟩; exact ⟨h1, (bdsPred_self_iff_leader c hc k h1).1 h2⟩
    · rintro ⟨h1, h2⟩; exact ⟨h1, (bdsPred_self_iff_leader c hc k h1).2 h2⟩
  constructor
  · rintro (⟨h1, h2, h3⟩ | h)
    · left
      exact ⟨((hmem i).1 h1).2, ((hmem j).1 h2).2, fun k hk hlk => h3 k ((hmem k).2 ⟨hk, hlk⟩)⟩
    · exact Or.inr h
  · rintro (⟨h1, h2, h3⟩ | h)
    · left
      exact ⟨(hmem i).2 ⟨hi, h1⟩, (hmem j).2 ⟨hj, h2⟩, fun k hk => h3 k ((hmem k).1 hk).1 ((hmem k).1 hk).2⟩
    · exact Or.inr h

end PPLV.WR
