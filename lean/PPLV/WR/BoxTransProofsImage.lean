import PPLV.WR.BoxTransProofsMaxMin
import Mathlib.Tactic.FieldSimp
/-!
# C03 stage 4 — soundness of `affine_image`, `affine_preimage`, `generalized_affine_image`

Every transformer keeps the points it has to keep: the image of a member is a member of the
result (`_sound`), and the dimension is unchanged (`_dim`).
-/
set_option linter.unusedVariables false
namespace PPLV.WR.BoxT
open PPLV.Interval
open PPLV.Interval.ExtRat (ninf fin pinf)

/-! ## helpers -/

theorem Iv.mem_universe (p : Policy) (a : Rat) : (Iv.universe p).mem p a := by
  constructor
  · simp [Iv.universe, setUnbounded, infOf, lowerOk]
  · simp [Iv.universe, setUnbounded, infOf, upperOk]

/-- `Interval::assign(const Coefficient&)` contains the integer (same statement as
`ivOfInt_sound` of `BoxTransProofsRefine.lean`; this file does not depend on that one) -/
private theorem ivOfInt_mem {p : Policy} {R : Rounding} (hR : R.Sound) (z : Int) : (ivOfInt p R z).mem p (z : Rat) := by
  unfold ivOfInt assign
  have hm : (⟨⟨fin (z : Rat), false⟩, ⟨fin (z : Rat), false⟩⟩ : Iv).mem Policy.scalar (z : Rat) := by
    constructor <;> simp [lowerOk, upperOk, getOpen, Policy.scalar]
  rw [checkEmptyArg_of_mem hm]
  exact ⟨bAssign_sound' (t := .lower) hR hm.1, bAssign_sound' (t := .upper) hR hm.2⟩

theorem upd_upd (x : Nat → Rat) (v : Nat) (a c : Rat) : upd (upd x v a) v c = upd x v c := by
  funext k; by_cases h : k = v <;> simp [upd, h]

theorem upd_upd_self (x : Nat → Rat) (v : Nat) (a : Rat) : upd (upd x v a) v (x v) = x := by
  funext k; by_cases h : k = v <;> simp [upd, h]

theorem Box.setIv_dim (b : Box) (k : Nat) (I : Iv) : (b.setIv k I).dim = b.dim := by
  simp [Box.dim, Box.setIv]

theorem Box.mem_get {p : Policy} {b : Box} {x : Nat → Rat} {v : Nat} (hx : b.mem p x) (hv : v < b.dim) :
    (b.get v).mem p (x v) := hx.2 v hv

/-! ## interval evaluation of a linear expression -/

theorem evalLoop_sound {cfg : Cfg} (hS : cfg.Sound) {seq : List Iv} {x : Nat → Rat} :
    ∀ (ts : List (Nat × Int)) (ev : Iv) (s : Rat), ev.mem cfg.p s →
      (∀ t ∈ ts, (seq.getD t.1 Iv.empty).mem cfg.p (x t.1)) →
      (evalLoop cfg seq ts ev).mem cfg.p (s + termSum ts x) := by
  intro ts
  induction ts with
  | nil => intro ev s hev _; simpa [evalLoop] using hev
  | cons t ts ih =>
    obtain ⟨i, a⟩ := t
    intro ev s hev hm
    have hi := hm (i, a) (by simp)
    simp only at hi
    simp only [evalLoop]
    rw [termSum_cons, ← add_assoc]
    exact ih _ _ (addAssign_encloses hS.R hev
      (mulAssign_encloses hS.R (ivOfInt_mem hS.R a) (assign_encloses hS.R hi)))
      (fun t ht => hm t (by simp [ht]))

theorem evalExprIv_sound {cfg : Cfg} (hS : cfg.Sound) {b : Box} {e : LinExpr} {den : Int} {x : Nat → Rat}
    (hwf : e.WF b.dim) (hd : den ≠ 0) (hx : b.mem cfg.p x) :
    (evalExprIv cfg b.seq e den).mem cfg.p (e.eval x / (den : Rat)) := by
  have hev : (evalLoop cfg b.seq e.terms (ivOfInt cfg.p cfg.R e.inhom)).mem cfg.p (e.eval x) := by
    rw [LinExpr.eval_eq_terms, add_comm]
    exact evalLoop_sound hS _ _ _ (ivOfInt_mem hS.R _) (fun t ht => (terms_mem hwf hx t ht).2)
  unfold evalExprIv
  simp only []
  split
  · exact divAssign_encloses hS.R hev (ivOfInt_mem hS.R den) (by exact_mod_cast hd)
  · rename_i h1
    have : den = 1 := by simpa using h1
    subst this
    simpa using hev

/-! ## `affine_image` -/

theorem affineImage_eq (cfg : Cfg) (b : Box) (v : Nat) (e : LinExpr) (den : Int) :
    affineImage cfg b v e den =
      if (b.isEmptyQ cfg.p).1 then (b.isEmptyQ cfg.p).2
      else (b.isEmptyQ cfg.p).2.setIv v
        (assign cfg.p cfg.R cfg.p (evalExprIv cfg (b.isEmptyQ cfg.p).2.seq e den)) := by
  unfold affineImage
  rcases h : b.isEmptyQ cfg.p with ⟨em, b'⟩
  rfl

theorem affineImage_dim (cfg : Cfg) (b : Box) (v : Nat) (e : LinExpr) (den : Int) :
    (affineImage cfg b v e den).dim = b.dim := by
  rw [affineImage_eq]
  split
  · exact Box.isEmptyQ_dim b cfg.p
  · rw [Box.setIv_dim]; exact Box.isEmptyQ_dim b cfg.p

theorem affineImage_sound {cfg : Cfg} (hS : cfg.Sound) {b : Box} {v : Nat} {e : LinExpr} {den : Int} {x : Nat → Rat}
    (hv : v < b.dim) (hwf : e.WF b.dim) (hd : den ≠ 0) (hx : b.mem cfg.p x) :
    (affineImage cfg b v e den).mem cfg.p (upd x v (e.eval x / (den : Rat))) := by
  rw [affineImage_eq]
  obtain ⟨h1, h2, h3⟩ := Box.isEmptyQ_of_mem hx
  rw [h1]
  simp only [Bool.false_eq_true, if_false]
  have hwf' : e.WF (b.isEmptyQ cfg.p).2.dim := by rw [Box.isEmptyQ_dim]; exact hwf
  exact Box.mem_setIv h2 (assign_encloses hS.R (evalExprIv_sound hS hwf' hd h2))

/-! ## `affine_preimage` -/

theorem affinePreimage_eq (cfg : Cfg) (b : Box) (v : Nat) (e : LinExpr) (den : Int) :
    affinePreimage cfg b v e den =
      if (b.isEmptyQ cfg.p).1 then (b.isEmptyQ cfg.p).2
      else if e.coeff v == 0 then
        if isEmpty cfg.p (intersectAssign cfg.p cfg.R (evalExprIv cfg (b.isEmptyQ cfg.p).2.seq e den)
            ((b.isEmptyQ cfg.p).2.get v)) then (b.isEmptyQ cfg.p).2.setEmpty
        else (b.isEmptyQ cfg.p).2.setIv v (Iv.universe cfg.p)
      else affineImage cfg (b.isEmptyQ cfg.p).2 v
        (((LinExpr.const 0).sub e).add (LinExpr.var (e.coeff v + den) v)) (e.coeff v) := by
  unfold affinePreimage
  rcases h : b.isEmptyQ cfg.p with ⟨em, b'⟩
  rfl

theorem affinePreimage_dim (cfg : Cfg) (b : Box) (v : Nat) (e : LinExpr) (den : Int) :
    (affinePreimage cfg b v e den).dim = b.dim := by
  rw [affinePreimage_eq]
  split
  · exact Box.isEmptyQ_dim b cfg.p
  · split
    · split
      · exact Box.isEmptyQ_dim b cfg.p
      · rw [Box.setIv_dim]; exact Box.isEmptyQ_dim b cfg.p
    · rw [affineImage_dim]; exact Box.isEmptyQ_dim b cfg.p

theorem affinePreimage_sound {cfg : Cfg} (hS : cfg.Sound) {b : Box} {v : Nat} {e : LinExpr} {den : Int} {x : Nat → Rat}
    (hv : v < b.dim) (hwf : e.WF b.dim) (hd : den ≠ 0)
    (hx : b.mem cfg.p (upd x v (e.eval x / (den : Rat)))) :
    (affinePreimage cfg b v e den).mem cfg.p x := by
  rw [affinePreimage_eq]
  obtain ⟨h1, h2, h3⟩ := Box.isEmptyQ_of_mem hx
  rw [h1]
  simp only [Bool.false_eq_true, if_false]
  have hdim : (b.isEmptyQ cfg.p).2.dim = b.dim := Box.isEmptyQ_dim b cfg.p
  have hwf' : e.WF (b.isEmptyQ cfg.p).2.dim := by rw [hdim]; exact hwf
  have hv' : v < (b.isEmptyQ cfg.p).2.dim := by rw [hdim]; exact hv
  have hdq : (den : Rat) ≠ 0 := by exact_mod_cast hd
  split
  · rename_i hc
    have hc0 : e.coeff v = 0 := by simpa using hc
    have hval := evalExprIv_sound hS hwf' hd h2
    rw [LinExpr.eval_upd_of_coeff_zero hc0] at hval
    have hg := Box.mem_get h2 hv'
    rw [upd_same] at hg
    have hmeet := intersectAssign_encloses hS.R hval hg
    rw [isEmpty_of_mem hmeet]
    simp only [Bool.false_eq_true, if_false]
    have := Box.mem_setIv (v := v) h2 (Iv.mem_universe cfg.p (x v))
    rwa [upd_upd_self] at this
  · rename_i hc
    have hc0 : e.coeff v ≠ 0 := by simpa using hc
    have hcq : ((e.coeff v : Int) : Rat) ≠ 0 := by exact_mod_cast hc0
    have hwfi : (((LinExpr.const 0).sub e).add (LinExpr.var (e.coeff v + den) v)).WF (b.isEmptyQ cfg.p).2.dim :=
      LinExpr.WF.add (LinExpr.WF.sub (LinExpr.WF.const 0 _) hwf') (LinExpr.WF.var _ hv')
    have := affineImage_sound hS hv' hwfi hc0 h2
    rw [upd_upd] at this
    have hval : (((LinExpr.const 0).sub e).add (LinExpr.var (e.coeff v + den) v)).eval
        (upd x v (e.eval x / (den : Rat))) / ((e.coeff v : Int) : Rat) = x v := by
      simp only [LinExpr.eval_add, LinExpr.eval_sub, LinExpr.eval_const, LinExpr.eval_var, upd_same]
      rw [LinExpr.eval_upd]
      push_cast
      field_simp
      ring
    rw [hval] at this
    have e2 : upd x v (x v) = x := by funext k; by_cases h : k = v <;> simp [upd, h]
    rwa [e2] at this

/-! ## `generalized_affine_image` -/

theorem lowerExtend_mem {p : Policy} {I : Iv} {w y : Rat} (h : I.mem p w) (hy : y ≤ w) : (lowerExtend p I).mem p y :=
  ⟨(Iv.mem_universe p y).1, upperOkV_trans_le h.2 hy⟩

theorem upperExtend_mem {p : Policy} {I : Iv} {w y : Rat} (h : I.mem p w) (hy : w ≤ y) : (upperExtend p I).mem p y :=
  ⟨lowerOkV_trans_le h.1 hy, (Iv.mem_universe p y).2⟩

theorem hi_fin_of_not_inf {p : Policy} {b : Bound} {w : Rat} (h : upperOk p b w)
    (hi : isBoundaryInfinity p .upper b = false) : ∃ c, b.value = fin c ∧ w ≤ c := by
  rw [isBoundaryInfinity_eq, normalIsBoundaryInfinity_upper] at hi
  unfold upperOk at h
  cases hv : b.value with
  | ninf => rw [hv] at h; simp at h
  | pinf => simp [hv] at hi
  | fin c => rw [hv] at h; exact ⟨c, rfl, upperOkV_fin_le h⟩

theorem lo_fin_of_not_inf {p : Policy} {b : Bound} {w : Rat} (h : lowerOk p b w)
    (hi : isBoundaryInfinity p .lower b = false) : ∃ c, b.value = fin c ∧ c ≤ w := by
  rw [isBoundaryInfinity_eq, normalIsBoundaryInfinity_lower] at hi
  unfold lowerOk at h
  cases hv : b.value with
  | pinf => rw [hv] at h; simp at h
  | ninf => simp [hv] at hi
  | fin c => rw [hv] at h; exact ⟨c, rfl, lowerOkV_fin_le h⟩

/-- the interval that `generalized_affine_image` stores for `var` -/
def gaiIv (p : Policy) (rel : Rel) (I : Iv) : Iv :=
  match rel with
  | .le => lowerExtend p I
  | .lt =>
    if !isBoundaryInfinity p .upper (lowerExtend p I).hi then removeSup p (lowerExtend p I) else lowerExtend p I
  | .ge => upperExtend p I
  | .gt =>
    if !isBoundaryInfinity p .lower (upperExtend p I).lo then removeInf p (upperExtend p I) else upperExtend p I
  | _ => I

theorem gaiIv_mem {p : Policy} {rel : Rel} {I : Iv} {w y : Rat} (h : I.mem p w) (hrel : rel ≠ .ne)
    (hy : Rel.holds rel y w) : (gaiIv p rel I).mem p y := by
  cases rel with
  | ne => exact absurd rfl hrel
  | eq =>
    have : y = w := hy
    subst this; exact h
  | le => exact lowerExtend_mem h hy
  | ge => exact upperExtend_mem h hy
  | lt =>
    have hy' : y < w := hy
    have hm := lowerExtend_mem h (le_of_lt hy')
    simp only [gaiIv]
    split
    · rename_i hi
      have hi' : isBoundaryInfinity p .upper I.hi = false := by simpa [lowerExtend] using hi
      obtain ⟨c, hc, hwc⟩ := hi_fin_of_not_inf h.2 hi'
      exact removeSup_sound hm (by simpa [lowerExtend] using hc) (lt_of_lt_of_le hy' hwc)
    · exact hm
  | gt =>
    have hy' : w < y := hy
    have hm := upperExtend_mem h (le_of_lt hy')
    simp only [gaiIv]
    split
    · rename_i hi
      have hi' : isBoundaryInfinity p .lower I.lo = false := by simpa [upperExtend] using hi
      obtain ⟨c, hc, hcw⟩ := lo_fin_of_not_inf h.1 hi'
      exact removeInf_sound hm (by simpa [upperExtend] using hc) (lt_of_le_of_lt hcw hy')
    · exact hm

theorem generalizedAffineImage_eq (cfg : Cfg) (b : Box) (v : Nat) (rel : Rel) (e : LinExpr) (den : Int) :
    generalizedAffineImage cfg b v rel e den =
      if rel == .eq then affineImage cfg b v e den
      else if ((affineImage cfg b v e den).isEmptyQ cfg.p).1 then ((affineImage cfg b v e den).isEmptyQ cfg.p).2
      else if rel == .ne then ((affineImage cfg b v e den).isEmptyQ cfg.p).2
      else ((affineImage cfg b v e den).isEmptyQ cfg.p).2.setIv v
        (gaiIv cfg.p rel (((affineImage cfg b v e den).isEmptyQ cfg.p).2.get v)) := by
  unfold generalizedAffineImage
  simp only []
  rcases h : (affineImage cfg b v e den).isEmptyQ cfg.p with ⟨em, b'⟩
  cases rel <;> cases em <;> rfl

theorem generalizedAffineImage_dim (cfg : Cfg) (b : Box) (v : Nat) (rel : Rel) (e : LinExpr) (den : Int) :
    (generalizedAffineImage cfg b v rel e den).dim = b.dim := by
  rw [generalizedAffineImage_eq]
  have h1 := affineImage_dim cfg b v e den
  have h2 := Box.isEmptyQ_dim (affineImage cfg b v e den) cfg.p
  split
  · exact h1
  · split
    · rw [h2, h1]
    · split
      · rw [h2, h1]
      · rw [Box.setIv_dim, h2, h1]

theorem generalizedAffineImage_sound {cfg : Cfg} (hS : cfg.Sound) {b : Box} {v : Nat} {rel : Rel} {e : LinExpr}
    {den : Int} {x : Nat → Rat} {y : Rat}
    (hv : v < b.dim) (hwf : e.WF b.dim) (hd : den ≠ 0) (hrel : rel ≠ .ne) (hx : b.mem cfg.p x)
    (hy : Rel.holds rel y (e.eval x / (den : Rat))) :
    (generalizedAffineImage cfg b v rel e den).mem cfg.p (upd x v y) := by
  rw [generalizedAffineImage_eq]
  have hz := affineImage_sound hS hv hwf hd hx
  split
  · rename_i hr
    have : rel = .eq := by simpa using hr
    subst this
    have : y = e.eval x / (den : Rat) := hy
    rw [this]; exact hz
  · obtain ⟨h1, h2, h3⟩ := Box.isEmptyQ_of_mem hz
    rw [h1]
    simp only [Bool.false_eq_true, if_false]
    have hne : (rel == Rel.ne) = false := by simpa using hrel
    rw [hne]
    simp only [Bool.false_eq_true, if_false]
    have hv' : v < ((affineImage cfg b v e den).isEmptyQ cfg.p).2.dim := by
      rw [Box.isEmptyQ_dim, affineImage_dim]; exact hv
    have hg := Box.mem_get h2 hv'
    rw [upd_same] at hg
    have := Box.mem_setIv (v := v) h2 (gaiIv_mem hg hrel hy)
    rwa [upd_upd] at this

/-! ## non-vacuity -/

theorem Box.univ_mem (p : Policy) (n : Nat) (x : Nat → Rat) : (Box.univ p n).mem p x := by
  refine ⟨rfl, ?_⟩
  intro k hk
  have hk' : k < n := by simpa [Box.univ] using hk
  have : (Box.univ p n).get k = Iv.universe p := by
    simp [Box.get, Box.univ, List.getD, hk']
  rw [this]; exact Iv.mem_universe p _

example : (affineImage Cfg.mpq (Box.univ Policy.rational 2) 0 ⟨[0, 1], 3⟩ 2).mem Policy.rational
    (upd (fun _ => 1) 0 ((⟨[0, 1], 3⟩ : LinExpr).eval (fun _ => 1) / ((2 : Int) : Rat))) :=
  affineImage_sound Cfg.mpq_sound (by decide) (by unfold LinExpr.WF; decide) (by decide) (Box.univ_mem _ _ _)

example : (affinePreimage Cfg.mpq (Box.univ Policy.rational 2) 0 ⟨[2, 1], 3⟩ 2).mem Policy.rational (fun _ => 1) :=
  affinePreimage_sound Cfg.mpq_sound (by decide) (by unfold LinExpr.WF; decide) (by decide) (Box.univ_mem _ _ _)

example : (generalizedAffineImage Cfg.mpq (Box.univ Policy.rational 2) 0 .lt ⟨[0, 1], 3⟩ 2).mem Policy.rational
    (upd (fun _ => 1) 0 0) :=
  generalizedAffineImage_sound Cfg.mpq_sound (by decide) (by unfold LinExpr.WF; decide) (by decide) (by decide)
    (Box.univ_mem _ _ _) (by norm_num [Rel.holds, LinExpr.eval, LinExpr.dot])

end PPLV.WR.BoxT
