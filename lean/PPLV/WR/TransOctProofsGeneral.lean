import PPLV.WR.TransOctProofsBase
/-!
# `Octagonal_Shape<T>::affine_image`: the general case (accumulation over the halved unary cells,
`deduce_v_pm_u_bounds` / `deduce_minus_v_pm_u_bounds`, the `pinf_count == 1` cells)
-/
set_option linter.unusedVariables false
set_option linter.unusedSimpArgs false
set_option linter.unusedSectionVars false
namespace PPLV.WR
open ExtRat

/-- the box of the halved (rounded) unary cells of `m` over the ids `< k` -/
def OBox (up : Rat → ExtRat) (m : Mat) (k : Nat) (y : Nat → Rat) : Prop :=
  ∀ i, i < k → fin (y i) ≤ halfUp up (m (2 * i + 1) (2 * i)) ∧ fin (-(y i)) ≤ halfUp up (m (2 * i) (2 * i + 1))

structure OAccInv (up : Rat → ExtRat) (m : Mat) (w : Nat) (g : Nat → Int) (B : Rat) (k : Nat) (st : Acc) : Prop where
  c0 : st.cnt = 0 → ∀ y, OBox up m w y → fin (B + linEval g y k) ≤ st.sum
  f0p : st.cnt = 0 → ∀ i, i < k → g i > 0 → m (2 * i + 1) (2 * i) ≠ pinf
  f0n : st.cnt = 0 → ∀ i, i < k → g i < 0 → m (2 * i) (2 * i + 1) ≠ pinf
  c1 : st.cnt = 1 → st.idx < k ∧ ∀ y, OBox up m w y → fin (B + linEval (zeroAt g st.idx) y k) ≤ st.sum
  n1 : st.cnt = 1 → g st.idx ≠ 0

variable {R : Rnd} {m : Mat} {w : Nat} {g : Nat → Int} {B : Rat} {k : Nat} {st : Acc}

theorem OAccInv.init (hR : R.Sound) (m : Mat) (w : Nat) (g : Nat → Int) {B B' : Rat} (h : B' = B) :
    OAccInv R.up m w g B' 0 ⟨R.up B, 0, 0⟩ := by
  subst h
  refine ⟨fun _ y _ => ?_, fun _ i hi => by omega, fun _ i hi => by omega, fun h => by simp at h,
    fun h => by simp at h⟩
  simp only [linEval, add_zero]
  exact hR.up_le B'

theorem OAccInv.skip (h : OAccInv R.up m w g B k st) (hg : g k = 0) : OAccInv R.up m w g B (k+1) st := by
  refine ⟨fun hc y hy => ?_, fun hc i hi hp => ?_, fun hc i hi hp => ?_, fun hc => ?_, h.n1⟩
  · simp only [linEval, hg]; simpa using h.c0 hc y hy
  · have : i ≠ k := by intro e; subst e; omega
    exact h.f0p hc i (by omega) hp
  · have : i ≠ k := by intro e; subst e; omega
    exact h.f0n hc i (by omega) hp
  · obtain ⟨h2, h3⟩ := h.c1 hc
    refine ⟨by omega, fun y hy => ?_⟩
    have : zeroAt g st.idx k = 0 := by
      unfold zeroAt; split
      · rfl
      · exact hg
    simp only [linEval, this]; simpa using h3 y hy

theorem OAccInv.dead {up : Rat → ExtRat} (hc : st.cnt > 1) : OAccInv up m w g B k st :=
  ⟨fun h => by omega, fun h => by omega, fun h => by omega, fun h => by omega, fun h => by omega⟩

/-- the doubled bound of the variable on the side needed for the sign of its coefficient -/
def duaOf (m : Mat) (g : Nat → Int) (i : Nat) : ExtRat :=
  if g i > 0 then m (2 * i + 1) (2 * i) else m (2 * i) (2 * i + 1)

theorem oterm_le {up : Rat → ExtRat} {y : Nat → Rat} (hy : OBox up m w y) (hk : k < w) (hg : g k ≠ 0) {A : Rat}
    (hA : halfUp up (duaOf m g k) = fin A) : (g k : Rat) * y k ≤ ((absI (g k) : Int) : Rat) * A := by
  unfold duaOf at hA
  have hb := hy k hk
  by_cases hp : g k > 0
  · rw [if_pos hp] at hA
    rw [absI_pos hp]
    have h1 : y k ≤ A := by have := hb.1; rw [hA] at this; exact fin_le_fin.1 this
    have h2 : (0 : Rat) < g k := by exact_mod_cast hp
    nlinarith
  · rw [if_neg hp] at hA
    have hn : g k < 0 := by omega
    rw [absI_neg' hn]
    have h1 : -(y k) ≤ A := by have := hb.2; rw [hA] at this; exact fin_le_fin.1 this
    have h2 : (g k : Rat) < 0 := by exact_mod_cast hn
    push_cast
    nlinarith

theorem addMulUp_pinf (R : Rnd) (s : ExtRat) (c : Rat) : addMulUp R s (fin c) pinf = pinf := by
  cases s <;> rfl

theorem fin_le_addMulUp' (hR : R.Sound) {s' t c : Rat} {sum h : ExtRat} (hs : fin s' ≤ sum)
    (ht : ∀ A, h = fin A → t ≤ c * A) : fin (s' + t) ≤ addMulUp R sum (fin c) h := by
  cases h with
  | pinf => rw [addMulUp_pinf]; exact le_pinf _
  | fin A => exact fin_le_addMulUp hR hs (ht A rfl)

theorem OAccInv.addMul (hR : R.Sound) (h : OAccInv R.up m w g B k st) (hk : k < w) (hg : g k ≠ 0)
    (hcoef : R.up ((absI (g k) : Int) : Rat) = fin ((absI (g k) : Int) : Rat))
    (hA : duaOf m g k ≠ pinf) :
    OAccInv R.up m w g B (k+1)
      { st with sum := addMulUp R st.sum (R.up ((absI (g k) : Int) : Rat)) (halfUp R.up (duaOf m g k)) } := by
  rw [hcoef]
  refine ⟨fun hc y hy => ?_, fun hc i hi hp => ?_, fun hc i hi hp => ?_, fun hc => ?_, fun hc => h.n1 hc⟩
  · simp only [linEval]
    rw [← add_assoc]
    exact fin_le_addMulUp' hR (h.c0 hc y hy) (fun A hA' => oterm_le hy hk hg hA')
  · by_cases hik : i = k
    · subst hik
      unfold duaOf at hA; rw [if_pos hp] at hA; exact hA
    · exact h.f0p hc i (by omega) hp
  · by_cases hik : i = k
    · subst hik
      unfold duaOf at hA; rw [if_neg (by omega)] at hA; exact hA
    · exact h.f0n hc i (by omega) hp
  · obtain ⟨h2, h3⟩ := h.c1 hc
    dsimp only
    refine ⟨by omega, fun y hy => ?_⟩
    have hz : zeroAt g st.idx k = g k := by
      unfold zeroAt; rw [if_neg (by omega)]
    simp only [linEval, hz]
    rw [← add_assoc]
    exact fin_le_addMulUp' hR (h3 y hy) (fun A hA' => oterm_le hy hk hg hA')

theorem OAccInv.pinf {up : Rat → ExtRat} (h : OAccInv up m w g B k st) (hk : k < w) (hg : g k ≠ 0) :
    OAccInv up m w g B (k+1) { st with cnt := st.cnt + 1, idx := k } := by
  refine ⟨fun hc => by simp at hc, fun hc => by simp at hc, fun hc => by simp at hc, fun hc => ?_, fun hc => hg⟩
  have hc0 : st.cnt = 0 := by simpa using hc
  dsimp only
  refine ⟨by omega, fun y hy => ?_⟩
  simp only [linEval]
  have : zeroAt g k k = 0 := by simp [zeroAt]
  rw [this, linEval_congr y (e := zeroAt g k) (e' := g) (fun i hi => by simp [zeroAt]; intro e; omega)]
  simpa using h.c0 hc0 y hy

theorem octAccStep_inv (hR : R.Sound) (hcoef : CoeffExact R g) (h : OAccInv R.up m w g B k st) (hk : k < w) :
    OAccInv R.up m w g B (k+1) (octAccStep R m g true k st) := by
  unfold octAccStep
  dsimp only
  split
  · rename_i h0; exact h.skip h0
  · rename_i h0
    split
    · have happ : (if decide (g k > 0) = true then m (2 * k + 1) (2 * k) else m (2 * k) (2 * k + 1))
          = duaOf m g k := by
        unfold duaOf; by_cases hp : g k > 0 <;> simp [hp]
      rw [happ]
      cases hA : duaOf m g k with
      | pinf =>
        simp only [isPinf, Bool.not_true, Bool.false_eq_true, if_false]
        exact h.pinf hk h0
      | fin A =>
        simp only [isPinf, Bool.not_false, if_true]
        have := h.addMul hR hk h0 (hcoef k h0) (by rw [hA]; simp)
        rw [hA] at this
        exact this
    · rename_i hc; exact OAccInv.dead (by omega)

theorem octAccLoop_inv (hR : R.Sound) (hcoef : CoeffExact R g) (st0 : Acc) (h0 : OAccInv R.up m w g B 0 st0) :
    ∀ k, k ≤ w → OAccInv R.up m w g B k (loopUp k (octAccStep R m g true) st0) := by
  intro k
  induction k with
  | zero => intro _; exact h0
  | succ k ih => intro hk; simp only [loopUp]; exact octAccStep_inv hR hcoef (ih (by omega)) (by omega)

theorem octAccStep_false (R : Rnd) (m : Mat) (sc : Nat → Int) :
    octAccStep R m sc false = octAccStep R m (fun j => - sc j) true := by
  funext i st
  unfold octAccStep
  dsimp only
  rcases lt_trichotomy (sc i) 0 with h | h | h
  · have h1 : ¬ sc i = 0 := by omega
    have h2 : ¬ - sc i = 0 := by omega
    have h3 : ¬ sc i > 0 := by omega
    have h4 : - sc i > 0 := by omega
    simp only [h1, h2, h3, h4, absI_neg, if_false, decide_false, decide_true, if_true]
  · simp [h]
  · have h1 : ¬ sc i = 0 := by omega
    have h2 : ¬ - sc i = 0 := by omega
    have h3 : sc i > 0 := by omega
    have h4 : ¬ - sc i > 0 := by omega
    simp only [h1, h2, h3, h4, absI_neg, if_false, decide_false, decide_true, if_true]
    simp

/-! ## the deduction helpers called with `ub_v = +∞` -/

/-- halving a finite unary cell of `m` does not overflow (`div_2exp_assign_r(·, ·, 1, ROUND_UP)` of a value of
`T` is a value of `T`: true of every bound type; for an abstract `up` it has to be said) -/
def HalfFiniteOn (up : Rat → ExtRat) (m : Mat) : Prop :=
  ∀ u q, (m (2 * u + 1) (2 * u) = fin q ∨ m (2 * u) (2 * u + 1) = fin q) → up (q / 2) ≠ pinf

theorem subUp_pinf_half {up : Rat → ExtRat} {a : ExtRat} (hh : ∀ q, a = fin q → up (q / 2) ≠ pinf)
    (ha : a ≠ pinf) : subUp up pinf (halfUp up a) = pinf := by
  cases a with
  | pinf => exact absurd rfl ha
  | fin q =>
    simp only [halfUp]
    cases hq : up (q / 2) with
    | pinf => exact absurd hq (hh q rfl)
    | fin z => rfl

section
variable {up : Rat → ExtRat} {n : Nat} {vid last : Nat} {e : Nat → Int} {d : Int} {x' : Nat → Rat}

theorem deduceVPmU_pinf_holds
    (hh : ∀ u, u ≠ vid → ∀ q, (m (2 * u + 1) (2 * u) = fin q ∨ m (2 * u) (2 * u + 1) = fin q) → up (q / 2) ≠ pinf)
    (hx' : Holds (SO n) (OctM.oval x') m)
    (hp : ∀ u, u < last + 1 → u ≠ vid → e u > 0 → m (2 * u + 1) (2 * u) ≠ pinf)
    (hn : ∀ u, u < last + 1 → u ≠ vid → e u < 0 → m (2 * u) (2 * u + 1) ≠ pinf) :
    Holds (SO n) (OctM.oval x') (deduceVPmU up vid last e d pinf m) := by
  suffices h : OInv n x' m (deduceVPmU up vid last e d pinf m) from h.1
  unfold deduceVPmU
  refine loopUp_rel (fun a b => OInv n x' m a → OInv n x' m b) (fun _ h => h)
    (fun _ _ _ h1 h2 h => h2 (h1 h)) (last + 1) _ ?_ m ⟨hx', fun _ => ⟨rfl, rfl⟩⟩
  intro u hu m' hI
  unfold deduceVPmUStep
  simp only [Nat.mul_comm u 2]
  split; exact hI
  split; exact hI
  rename_i h0 huv
  rw [(hI.2 u).1, (hI.2 u).2]
  split
  · rename_i hpos
    split
    · rw [subUp_pinf_half (fun q hq => hh u huv q (Or.inl hq)) (hp u hu huv hpos)]
      split
      · exact hI.set (by intro w; omega) (le_pinf _)
      · exact hI.set (by intro w; omega) (le_pinf _)
    · split
      · exact hI
      · rw [addUp_pinf_left]
        split
        · exact hI.set (by intro w; omega) (le_pinf _)
        · exact hI.set (by intro w; omega) (le_pinf _)
  · rename_i hnpos
    have hneg : e u < 0 := by omega
    split
    · rw [subUp_pinf_half (fun q hq => hh u huv q (Or.inr hq)) (hn u hu huv hneg)]
      split
      · exact hI.set (by intro w; omega) (le_pinf _)
      · exact hI.set (by intro w; omega) (le_pinf _)
    · split
      · exact hI
      · rw [addUp_pinf_left]
        split
        · exact hI.set (by intro w; omega) (le_pinf _)
        · exact hI.set (by intro w; omega) (le_pinf _)

theorem deduceMinusVPmU_pinf_holds
    (hh : ∀ u, u ≠ vid → ∀ q, (m (2 * u + 1) (2 * u) = fin q ∨ m (2 * u) (2 * u + 1) = fin q) → up (q / 2) ≠ pinf)
    (hx' : Holds (SO n) (OctM.oval x') m)
    (hp : ∀ u, u < last + 1 → u ≠ vid → e u > 0 → m (2 * u) (2 * u + 1) ≠ pinf)
    (hn : ∀ u, u < last + 1 → u ≠ vid → e u < 0 → m (2 * u + 1) (2 * u) ≠ pinf) :
    Holds (SO n) (OctM.oval x') (deduceMinusVPmU up vid last e d pinf m) := by
  suffices h : OInv n x' m (deduceMinusVPmU up vid last e d pinf m) from h.1
  unfold deduceMinusVPmU
  refine loopUp_rel (fun a b => OInv n x' m a → OInv n x' m b) (fun _ h => h)
    (fun _ _ _ h1 h2 h => h2 (h1 h)) (last + 1) _ ?_ m ⟨hx', fun _ => ⟨rfl, rfl⟩⟩
  intro u hu m' hI
  unfold deduceMinusVPmUStep
  simp only [Nat.mul_comm u 2]
  split; exact hI
  split; exact hI
  rename_i h0 huv
  rw [(hI.2 u).1, (hI.2 u).2]
  split
  · rename_i hpos
    split
    · rw [subUp_pinf_half (fun q hq => hh u huv q (Or.inr hq)) (hp u hu huv hpos)]
      split
      · exact hI.set (by intro w; omega) (le_pinf _)
      · exact hI.set (by intro w; omega) (le_pinf _)
    · split
      · exact hI
      · rw [addUp_pinf_left]
        split
        · exact hI.set (by intro w; omega) (le_pinf _)
        · exact hI.set (by intro w; omega) (le_pinf _)
  · rename_i hnpos
    have hneg : e u < 0 := by omega
    split
    · rw [subUp_pinf_half (fun q hq => hh u huv q (Or.inl hq)) (hn u hu huv hneg)]
      split
      · exact hI.set (by intro w; omega) (le_pinf _)
      · exact hI.set (by intro w; omega) (le_pinf _)
    · split
      · exact hI
      · rw [addUp_pinf_left]
        split
        · exact hI.set (by intro w; omega) (le_pinf _)
        · exact hI.set (by intro w; omega) (le_pinf _)

end

end PPLV.WR
