import PPLV.WR.TransOct2Lhs
import PPLV.WR.Trans2LhsProofsBase
import PPLV.WR.TransOct2ProofsRefine
import PPLV.WR.TransOctProofsMain
/-!
# Octagon transformers with an expression on the left-hand side: `refine_no_check(lhs relsym rhs)`, the forget
loop, the additional dimension, the raw closure
-/
set_option linter.unusedVariables false
set_option linter.unusedSimpArgs false
namespace PPLV.WR
open ExtRat

/-- `refine_no_check(lhs relsym rhs)` keeps every point at which the relation holds -/
theorem octLhsRefineRel_sound {R : Rnd} (hup : ∀ q, fin q ≤ R.up q) {N : Nat} (rel : RelSym) {sdl sdr : Nat}
    {el er : Nat → Int} (bl br : Int) (hl : sdl ≤ N) (hr : sdr ≤ N) (hzl : ∀ i, sdl ≤ i → i < N → el i = 0)
    (hzr : ∀ i, sdr ≤ i → i < N → er i = 0) {m : Mat} {y : Nat → Rat} (hy : y ∈ γO N m)
    (h : rel.holds (linEval el y N + bl) (linEval er y N + br)) :
    ∃ m', octLhsRefineRel R N rel sdl el bl sdr er br m = .ok m' ∧ y ∈ γO N m' ∧ MLe m' m := by
  obtain ⟨hsd, hc⟩ := lhsRelConstraint_sat rel bl br hl hr hzl hzr h
  have := octRefineNoCheck_sound_raw hup _ _ _ m hy hc
  unfold octLhsRefineRel
  dsimp only
  generalize octRefineNoCheck R N _ _ _ _ m = o at this ⊢
  cases o with
  | ok m' => exact ⟨m', rfl, this⟩
  | empty => exact this.elim
  | throws => exact this.elim

/-! ## points that agree on the first `N` coordinates -/

theorem octLhs_oval_congr {N : Nat} {y y' : Nat → Rat} (h : ∀ i, i < N → y' i = y i) :
    ∀ a, a < 2 * N → OctM.oval y' a = OctM.oval y a := by
  intro a ha
  unfold OctM.oval
  rw [h (a / 2) (by omega)]

theorem octLhs_rowSize_lt {N a c : Nat} (ha : a < 2 * N) (hc : c < rowSize a) : c < 2 * N := by
  unfold rowSize at hc; omega

theorem octLhs_holds_congr {N : Nat} {y y' : Nat → Rat} {m : Mat} (h : ∀ i, i < N → y' i = y i)
    (hy : y ∈ γO N m) : y' ∈ γO N m := by
  intro a c hac
  rw [octLhs_oval_congr h a hac.1, octLhs_oval_congr h c (octLhs_rowSize_lt hac.1 hac.2)]
  exact hy a c hac

/-! ## the forget loop -/

theorem octLhsForgetVars_loop (n : Nat) (vars : List Nat) (a c : Nat) : ∀ (k : Nat) (m : Mat),
    loopDown k (fun i m => octForgetAll n (vars.getD i 0) m) m a c
      = if ∃ i, i < k ∧
            (((a = 2 * vars.getD i 0 ∨ a = 2 * vars.getD i 0 + 1) ∧ c < 2 * vars.getD i 0 + 2) ∨
             ((2 * vars.getD i 0 + 2 ≤ a ∧ a < 2 * n) ∧ (c = 2 * vars.getD i 0 ∨ c = 2 * vars.getD i 0 + 1)))
        then pinf else m a c := by
  intro k
  induction k with
  | zero => intro m; simp [loopDown]
  | succ k ih =>
    intro m
    simp only [loopDown]
    rw [ih, octForgetAll_apply]
    by_cases h1 : ∃ i, i < k ∧
        (((a = 2 * vars.getD i 0 ∨ a = 2 * vars.getD i 0 + 1) ∧ c < 2 * vars.getD i 0 + 2) ∨
         ((2 * vars.getD i 0 + 2 ≤ a ∧ a < 2 * n) ∧ (c = 2 * vars.getD i 0 ∨ c = 2 * vars.getD i 0 + 1)))
    · obtain ⟨i, hi, hc⟩ := h1
      rw [if_pos ⟨i, hi, hc⟩, if_pos ⟨i, by omega, hc⟩]
    · rw [if_neg h1]
      by_cases h2 : ((a = 2 * vars.getD k 0 ∨ a = 2 * vars.getD k 0 + 1) ∧ c < 2 * vars.getD k 0 + 2) ∨
         ((2 * vars.getD k 0 + 2 ≤ a ∧ a < 2 * n) ∧ (c = 2 * vars.getD k 0 ∨ c = 2 * vars.getD k 0 + 1))
      · rw [if_pos h2, if_pos ⟨k, by omega, h2⟩]
      · rw [if_neg h2, if_neg]
        rintro ⟨i, hi, hc⟩
        by_cases hik : i = k
        · subst hik; exact h2 hc
        · exact h1 ⟨i, by omega, hc⟩

/-- after the forget loop every point that differs from a point of the matrix on forgotten variables only
satisfies it -/
theorem holds_octLhsForgetVars {N : Nat} {vars : List Nat} {y y' : Nat → Rat} {m : Mat}
    (hy : y ∈ γO N m) (hag : ∀ i, i < N → i ∉ vars → y' i = y i) :
    y' ∈ γO N (octLhsForgetVars N vars m) := by
  intro a c hac
  unfold octLhsForgetVars
  rw [octLhsForgetVars_loop]
  split
  · exact le_pinf _
  · rename_i hne
    obtain ⟨ha, hc⟩ := hac
    have hc2 := octLhs_rowSize_lt ha hc
    unfold rowSize at hc
    have key : ∀ d, d < 2 * N → (∀ i, i < vars.length → d / 2 ≠ vars.getD i 0) → OctM.oval y' d = OctM.oval y d := by
      intro d hd hn
      unfold OctM.oval
      rw [hag (d / 2) (by omega) (fun hmem => by
        obtain ⟨i, hi, he⟩ := lhs_mem_getD hmem
        exact hn i hi he.symm)]
    rw [key a ha (fun i hi hv => hne ⟨i, hi, Or.inl ⟨by omega, by omega⟩⟩),
      key c hc2 (fun i hi hv => hne ⟨i, hi, by
        by_cases hav : a / 2 = vars.getD i 0
        · exact Or.inl ⟨by omega, by omega⟩
        · exact Or.inr ⟨⟨by omega, ha⟩, by omega⟩⟩)]
    exact hy a c ⟨ha, by unfold rowSize; exact hc⟩

/-- the loop over `lhs_vars` on an octagon of dimension `N`, `n ≤ N` -/
theorem holds_octForget_lhsVars {N n : Nat} (hn : n ≤ N) {el : Nat → Int} {y y' : Nat → Rat} {m : Mat}
    (hy : y ∈ γO N m) (hag : ∀ i, i < n → el i = 0 → y' i = y i) (hhi : ∀ i, n ≤ i → i < N → y' i = y i) :
    y' ∈ γO N (octLhsForgetVars N (lhsVars el n) m) := by
  refine holds_octLhsForgetVars hy (fun i hi hmem => ?_)
  rw [lhs_mem_lhsVars] at hmem
  by_cases hin : i < n
  · exact hag i hin (by by_contra h0; exact hmem ⟨hin, h0⟩)
  · exact hhi i (by omega) hi

/-! ## the additional dimension -/

theorem octLhs_holds_embedOne {n : Nat} {m : Mat} {x : Nat → Rat} (hx : x ∈ γO n m) :
    x ∈ γO (n + 1) (octEmbedOne n m) := by
  intro a c hac
  show fin _ ≤ (if a = 2 * n ∨ a = 2 * n + 1 ∨ c = 2 * n ∨ c = 2 * n + 1 then pinf else m a c)
  split
  · exact le_pinf _
  · rename_i hc
    obtain ⟨ha, hcc⟩ := hac
    exact hx a c ⟨by omega, hcc⟩

theorem octLhs_restrict {n : Nat} {x : Nat → Rat} {U : Rat} {m : Mat} (h : upd x n U ∈ γO (n + 1) m) :
    x ∈ γO n m := by
  intro a c hac
  obtain ⟨ha, hc⟩ := hac
  have hc2 := octLhs_rowSize_lt ha hc
  have := h a c ⟨by omega, hc⟩
  rw [oval_upd_ne x U (by omega) (by omega), oval_upd_ne x U (by omega) (by omega)] at this
  exact this

/-- `strong_closure_assign()` on a raw matrix keeps every point -/
theorem octLhs_closeRaw_sound {R : Rnd} (hR : R.Sound) {n : Nat} {m : Mat} {x : Nat → Rat} (hx : x ∈ γO n m) :
    ∃ m', octCloseRaw R n m = some m' ∧ x ∈ γO n m' := by
  unfold octCloseRaw
  dsimp only
  have hs := sat_octOfMat hx
  split
  · rename_i he
    exact absurd hs (OctM.strongClosureEmpty_sound hR.up_le _ he x)
  · exact ⟨_, rfl, (OctM.sat_iff_holds _ x).1 (OctM.strongClosure_sat hR.up_le _ x hs)⟩

/-! ## `HalfFiniteOn` of the matrices handed to the nested calls -/

theorem octLhs_halfFinite_ofMat {up : Rat → ExtRat} {n : Nat} {m : Mat} (h : HalfFiniteOn up m) :
    HalfFiniteOn up (OctM.ofMat n m).e := by
  intro u q hq
  apply h u q
  simp only [OctM.ofMat, Mat.diagUp_apply] at hq
  rw [if_neg (by omega), if_neg (by omega)] at hq
  exact hq

theorem octLhs_halfFinite_embed {up : Rat → ExtRat} {n : Nat} {m : Mat} (h : HalfFiniteOn up m) :
    HalfFiniteOn up (octEmbedOne n m) := by
  intro u q hq
  apply h u q
  have e1 : octEmbedOne n m (2 * u + 1) (2 * u)
      = if 2 * u + 1 = 2 * n ∨ 2 * u + 1 = 2 * n + 1 ∨ 2 * u = 2 * n ∨ 2 * u = 2 * n + 1 then pinf
        else m (2 * u + 1) (2 * u) := rfl
  have e2 : octEmbedOne n m (2 * u) (2 * u + 1)
      = if 2 * u = 2 * n ∨ 2 * u = 2 * n + 1 ∨ 2 * u + 1 = 2 * n ∨ 2 * u + 1 = 2 * n + 1 then pinf
        else m (2 * u) (2 * u + 1) := rfl
  rw [e1, e2] at hq
  by_cases hu : u = n
  · subst hu
    rw [if_pos (by omega), if_pos (by omega)] at hq
    rcases hq with hq | hq <;> exact absurd hq (by simp)
  · rw [if_neg (by omega), if_neg (by omega)] at hq
    exact hq

/-- a point of the raw matrix is a point of `OctM.ofMat` -/
theorem octLhs_mem_ofMat {n : Nat} {m : Mat} {x : Nat → Rat} (hx : x ∈ γO n m) : x ∈ OctM.γ (OctM.ofMat n m) :=
  sat_octOfMat hx

end PPLV.WR
