import PPLV.WR.ReduceOctProofsPreserveTight
/-!
# Octagon reduction keeps every point, part 6: the unary cells `(i, cidx i)` of the non-singular leaders

Induction on the set `Dset i` of non-singular leaders `k ≠ i` through which the unary bound of `i` is attained
(`Tight0 i k`).  If there is one, the unary cell follows from the tight pair `(i, k)` and the unary cell of `k`.
Otherwise no pair on a tight path from `i` to `cidx i` can be redundant by strong coherence, so the closure
induction runs inside that family without unary cells.
-/
namespace PPLV.WR
open ExtRat (fin pinf addUp halfUp)

/-- the non-singular leaders through which the unary bound of `i` is attained -/
noncomputable def Dset {n : Nat} (c : OctM n) (i : Nat) : Finset Nat :=
  @Finset.filter _ (fun k => NSL (2 * n) c.e k ∧ k ≠ i ∧ Tight0 c.e i k) (Classical.decPred _)
    (Finset.range (2 * n))

theorem mem_Dset {n : Nat} {c : OctM n} {i k : Nat} :
    k ∈ Dset c i ↔ NSL (2 * n) c.e k ∧ k ≠ i ∧ Tight0 c.e i k := by
  unfold Dset
  rw [@Finset.mem_filter _ _ (Classical.decPred _), Finset.mem_range]
  exact ⟨fun h => h.2, fun h => ⟨h.1.lt, h⟩⟩

theorem Dset_ssubset {n : Nat} {c : OctM n} (hc : c.IsStronglyClosed) {i k : Nat} (hi : NSL (2 * n) c.e i)
    (hk : k ∈ Dset c i) : Dset c k ⊂ Dset c i := by
  obtain ⟨k1, k2, k3⟩ := mem_Dset.1 hk
  have hsub : Dset c k ⊆ Dset c i := by
    intro l hl
    obtain ⟨l1, l2, l3⟩ := mem_Dset.1 hl
    refine mem_Dset.2 ⟨l1, ?_, Tight0.trans hc hi.lt k1.lt l1.lt k3 l3⟩
    intro e
    subst e
    exact k2 (Tight0.antisymm k1 l1 l3 k3)
  rw [Finset.ssubset_iff_of_subset hsub]
  exact ⟨k, hk, fun h => (mem_Dset.1 h).2.1 rfl⟩

section ctx
variable {n : Nat} {c : OctM n} {succ : Nat → Nat} {nr : BMat} {p : Nat → Rat} (X : RCtx c succ nr p)
include X

/-- pairs on a tight path from `i` to `cidx i`, other than `(i, cidx i)` itself -/
def OnPath {n : Nat} (c : OctM n) (i a b : Nat) : Prop :=
  NSL (2 * n) c.e a ∧ NSL (2 * n) c.e b ∧ a ≠ b ∧ ¬ (a = i ∧ b = cidx i) ∧
    eadd (octFull c.e i a) (eadd (octFull c.e a b) (octFull c.e b (cidx i))) ≤ octFull c.e i (cidx i)

/-- with `Dset i` empty, every pair on a tight path from `i` to `cidx i` holds -/
theorem RCtx.ok_of_onPath {i : Nat} (hi : NSL (2 * n) c.e i) (hD : Dset c i = ∅) {x : Rat}
    (hx : octFull c.e i (cidx i) = fin x) {a b : Nat} (hab : OnPath c i a b) : Ok c.e p a b := by
  have hnot : ∀ k, NSL (2 * n) c.e k → k ≠ i → ¬ Tight0 c.e i k := by
    intro k hk hki ht
    have : k ∈ Dset c i := mem_Dset.2 ⟨hk, hki, ht⟩
    rw [hD] at this
    exact absurd this (Finset.notMem_empty k)
  have hci := NSL.cidx hi
  refine X.ok_of_family (OnPath c i) (fun a b h => ⟨h.1, h.2.1, h.2.2.1⟩) ?_ ?_ a b hab
  · -- never redundant by strong coherence
    rintro a b ⟨ha, hb, hne, hnot', hle⟩ ⟨hbca, hco⟩
    exfalso
    rw [hx] at hle
    obtain ⟨r, y', hr, hy', h1⟩ := eadd_le_fin_inv hle
    obtain ⟨y, t, hy, ht, h2⟩ := eadd_le_fin_inv (x := octFull c.e a b) (y := octFull c.e b (cidx i)) (v := y')
      (by rw [hy']; exact ExtRat.le_rfl' _)
    rw [hy] at hco
    obtain ⟨α, β, hα, hβ, h3⟩ := half_eadd_le_fin_inv hco
    obtain ⟨x1, hx1, h4⟩ := unary_le X.hc hi.lt ha.lt hr hα
    rw [hx] at hx1; cases hx1
    have ht' : octFull c.e i (cidx b) = fin t := by
      have := octFull_coh' c.e (cidx i) b; rw [cidx_cidx] at this; rw [this]; exact ht
    have hβ' : octFull c.e (cidx b) (cidx (cidx b)) = fin β := by rw [cidx_cidx]; exact hβ
    obtain ⟨x2, hx2, h5⟩ := unary_le X.hc hi.lt (cidx_lt hb.lt) ht' hβ'
    rw [hx] at hx2; cases hx2
    by_cases e : a = i
    · have hb' : cidx b ≠ i := fun e' => hnot' ⟨e, by rw [← e', cidx_cidx]⟩
      exact hnot (cidx b) (NSL.cidx hb) hb' ⟨x, t, β, hx, ht', hβ', by linarith⟩
    · exact hnot a ha e ⟨x, r, α, hx, hr, hα, by linarith⟩
  · -- splitting by closure stays on a tight path
    rintro a b k ⟨ha, hb, hne, hnot', hle⟩ hk hka hkb hsum _
    have base : eadd (octFull c.e i a) (eadd (eadd (octFull c.e a k) (octFull c.e k b)) (octFull c.e b (cidx i)))
        ≤ octFull c.e i (cidx i) :=
      ExtRat.le_trans' (eadd_mono (ExtRat.le_rfl' _) (eadd_mono hsum (ExtRat.le_rfl' _))) hle
    refine ⟨⟨ha, hk, Ne.symm hka, ?_, ?_⟩, ⟨hk, hb, hkb, ?_, ?_⟩⟩
    · rintro ⟨rfl, rfl⟩
      rw [octFull_self, eadd_zero_left, hx] at hle
      obtain ⟨y, t, hy, ht, h1⟩ := eadd_le_fin_inv hle
      rw [hx, hy] at hsum
      obtain ⟨x', u, hx', hu, h2⟩ := eadd_le_fin_inv hsum
      cases hx'
      have := NSL.cycle_pos X.hc hci hb hkb hu ht
      linarith
    · have t := X.hc.tri k (cidx i) b hk.lt (cidx_lt hi.lt) hb.lt
      have s1 := eadd_mono (ExtRat.le_rfl' (octFull c.e i a)) (eadd_mono (ExtRat.le_rfl' (octFull c.e a k)) t)
      rw [← eadd_assoc (octFull c.e a k)] at s1
      exact ExtRat.le_trans' s1 base
    · rintro ⟨rfl, rfl⟩
      rw [octFull_self, eadd_zero_right, hx] at hle
      obtain ⟨r, y, hr, hy, h1⟩ := eadd_le_fin_inv hle
      rw [hx, hy] at hsum
      obtain ⟨u, x', hu, hx', h2⟩ := eadd_le_fin_inv hsum
      cases hx'
      have := NSL.cycle_pos X.hc hk ha hka hr hu
      linarith
    · have t := X.hc.tri i k a hi.lt hk.lt ha.lt
      have s1 := eadd_mono t (ExtRat.le_rfl' (eadd (octFull c.e k b) (octFull c.e b (cidx i))))
      rw [eadd_assoc, ← eadd_assoc (octFull c.e a k)] at s1
      exact ExtRat.le_trans' s1 base

/-- the unary cell of every non-singular leader holds -/
theorem RCtx.ok_unary : ∀ i, NSL (2 * n) c.e i → Ok c.e p i (cidx i) := by
  suffices h : ∀ N i, (Dset c i).card < N → NSL (2 * n) c.e i → Ok c.e p i (cidx i) from
    fun i hi => h _ i (Nat.lt_succ_self _) hi
  intro N
  induction N with
  | zero => intro i h; omega
  | succ N ih =>
    intro i hcard hi
    by_cases hD : Dset c i = ∅
    · cases hx : octFull c.e i (cidx i) with
      | pinf => exact Ok.of_pinf hx
      | fin x =>
        have hci := NSL.cidx hi
        rcases X.trichotomy hi hci (cidx_ne i).symm with h | h | h
        · exact h
        · exact absurd rfl h.1
        · obtain ⟨k, hk, hki, hkc, hle⟩ := h
          have h1 : Ok c.e p i k := X.ok_of_onPath hi hD hx
            ⟨hi, hk, Ne.symm hki, fun h => hkc h.2, by rw [octFull_self, eadd_zero_left]; exact hle⟩
          have h2 : Ok c.e p k (cidx i) := X.ok_of_onPath hi hD hx
            ⟨hk, hci, hkc, fun h => hki h.1, by rw [octFull_self, eadd_zero_right]; exact hle⟩
          exact Ok.trans h1 h2 hle
    · obtain ⟨k, hk⟩ := Finset.nonempty_iff_ne_empty.2 hD
      obtain ⟨k1, k2, x, r, q, hx, hr, hq, e⟩ := mem_Dset.1 hk
      have l1 := Finset.card_lt_card (Dset_ssubset X.hc hi hk)
      have h1 : Ok c.e p i k := X.ok_of_tight hi k1 (Ne.symm k2) ⟨x, r, q, hx, hr, hq, e⟩
      have h2 : Ok c.e p k (cidx k) := ih k (by omega) k1
      unfold Ok at h1 h2 ⊢
      rw [hr] at h1
      rw [hq, X.hp] at h2
      rw [hx, X.hp]
      have a1 := ExtRat.fin_le_fin.1 h1
      have a2 := ExtRat.fin_le_fin.1 h2
      exact ExtRat.fin_le_fin.2 (by linarith)

end ctx

end PPLV.WR
