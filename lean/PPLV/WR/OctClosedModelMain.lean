import PPLV.WR.OctClosedModelCoh
/-!
# Exact arithmetic: `strong_closure_assign` leaves a strongly closed matrix with the same points

`OctM.strongClosure_isStronglyClosed` takes the combinatorial fact `OctTwoClosed` (two passes of weak steps close a
zero-diagonal matrix; proved separately) as an explicit hypothesis.
-/
namespace PPLV.WR
open ExtRat

namespace OCM

theorem diagUp_ne (k : Nat) (v : ExtRat) (m : Mat) {a b : Nat} (h : a ≠ b) : Mat.diagUp k v m a b = m a b := by
  rw [Mat.diagUp_apply, if_neg (fun hc => h hc.1)]

theorem strongClosure_e {n : Nat} (m : OctM n) (hne : OctM.strongClosureEmpty upId m = false) :
    (OctM.strongClosure upId m).e =
      strongCoherenceM fin n (Mat.diagUp (2 * n) pinf (octCore fin n m.e)) := by
  unfold OctM.strongClosure
  rw [hne]; rfl

/-- a stored off-diagonal cell after `strong_closure_assign` -/
theorem strongClosure_stored {n : Nat} (m : OctM n) (hne : OctM.strongClosureEmpty upId m = false)
    {a b : Nat} (ha : a < 2 * n) (hb : b < rowSize a) (hab : a ≠ b) :
    (OctM.strongClosure upId m).e a b = mineS (fv (octCore fin n m.e)) a b := by
  rw [strongClosure_e m hne, strongCoherenceM_cell n _ ha hb]
  unfold sval mineS mineH
  rw [if_neg hab, diagUp_ne _ _ _ hab, diagUp_ne _ _ _ (cidx_ne a).symm, diagUp_ne _ _ _ (cidx_ne b),
    fv_apply, fv_apply, fv_apply, mAt_stored _ hb, mAt_stored _ (cidx_lt_rowSize a),
    mAt_stored _ (lt_rowSize_cidx b)]

/-- the full view after `strong_closure_assign`, off the diagonal -/
theorem octFull_strongClosure {n : Nat} (m : OctM n) (hne : OctM.strongClosureEmpty upId m = false)
    (hcoh : CohM (2 * n) (fv (octCore fin n m.e))) {i j : Nat} (hi : i < 2 * n) (hj : j < 2 * n)
    (hij : i ≠ j) :
    octFull (OctM.strongClosure upId m).e i j = mineS (fv (octCore fin n m.e)) i j := by
  rw [octFull_ne _ hij]
  by_cases hs : j < rowSize i
  · rw [mAt_stored _ hs]; exact strongClosure_stored m hne hi hs hij
  · rw [mAt_unstored _ hs,
      strongClosure_stored m hne (cidx_lt hj) (swap_stored hs) (fun h => hij (cidx_inj h).symm)]
    unfold mineS mineH
    rw [cidx_cidx, cidx_cidx, ← hcoh i j hi hj, eadd_comm]

end OCM

/-- exact arithmetic: when the emptiness test of `strong_closure_assign` is silent, the matrix it leaves is strongly
closed (`hT`: two passes of weak steps close a zero-diagonal matrix) -/
theorem OctM.strongClosure_isStronglyClosed (hT : OctTwoClosed) {n : Nat} (m : OctM n)
    (hne : OctM.strongClosureEmpty upId m = false) : (OctM.strongClosure upId m).IsStronglyClosed := by
  obtain ⟨hc, hcoh⟩ := OCM.core_closed hT m hne
  have key : ∀ i j, i < 2 * n → j < 2 * n →
      octFull (OctM.strongClosure upId m).e i j = OCM.mineS (OCM.fv (octCore fin n m.e)) i j := by
    intro i j hi hj
    by_cases hij : i = j
    · subst hij; rw [octFull_self, OCM.mineS_diag hc hi]
    · exact OCM.octFull_strongClosure m hne hcoh hi hj hij
  constructor
  · intro i j k hi hj hk
    rw [key i j hi hj, key i k hi hk, key k j hk hj]
    exact OCM.mineS_tri hc hcoh hi hj hk
  · intro i j hi hj _
    rw [key i j hi hj, key i _ hi (cidx_lt hi), key _ j (cidx_lt hj) hj]
    exact OCM.mineS_coh _ i j

/-- exact arithmetic: `strong_closure_assign` keeps the set of points -/
theorem OctM.strongClosure_γ {n : Nat} (m : OctM n) : OctM.γ (OctM.strongClosure upId m) = OctM.γ m := by
  ext x
  constructor
  · intro hx
    show m.Sat x
    intro i j hi hj
    exact le_trans' ((show (OctM.strongClosure upId m).Sat x from hx) i j hi hj)
      (OctM.strongClosure_le upId_sound m i j hi hj)
  · intro hx
    exact OctM.strongClosure_sat upId_sound m x hx

end PPLV.WR
