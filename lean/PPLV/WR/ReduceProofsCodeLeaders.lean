import PPLV.WR.ReduceProofsCodeClosed
/-!
# Reduction (BD shapes): `compute_predecessors`, `compute_leaders`, `compute_leader_indices`
-/
namespace PPLV.WR
open ExtRat (fin pinf)

/-! ## loops -/

theorem loopUp_ind {α : Type} (I : Nat → α → Prop) (n : Nat) (f : Nat → α → α) (a : α)
    (h0 : I 0 a) (hs : ∀ t, t < n → ∀ s, I t s → I (t+1) (f t s)) : I n (loopUp n f a) := by
  induction n with
  | zero => exact h0
  | succ n ih =>
    simp only [loopUp]
    exact hs n (Nat.lt_succ_self n) _ (ih (fun t ht s => hs t (Nat.lt_succ_of_lt ht) s))

/-! ## `findDown` -/

theorem findDown_congr {i : Nat} {p q : Nat → Bool} (h : ∀ j, j < i → p j = q j) :
    findDown i p = findDown i q := by
  induction i with
  | zero => rfl
  | succ i ih =>
    simp only [findDown]
    rw [h i (Nat.lt_succ_self i), ih (fun j hj => h j (Nat.lt_succ_of_lt hj))]

theorem findDown_some_iff (i : Nat) (p : Nat → Bool) (j : Nat) :
    findDown i p = some j ↔ j < i ∧ p j = true ∧ ∀ t, j < t → t < i → p t = false := by
  induction i with
  | zero => simp [findDown]
  | succ i ih =>
    simp only [findDown]
    by_cases hp : p i = true
    · rw [if_pos hp]
      constructor
      · intro h
        have : i = j := by simpa using h
        subst this
        exact ⟨Nat.lt_succ_self _, hp, fun t h1 h2 => by omega⟩
      · rintro ⟨h1, h2, h3⟩
        by_cases hji : j = i
        · rw [hji]
        · have := h3 i (by omega) (Nat.lt_succ_self i)
          rw [hp] at this
          cases this
    · rw [if_neg hp, ih]
      have hp' : p i = false := by simpa using hp
      constructor
      · rintro ⟨h1, h2, h3⟩
        refine ⟨by omega, h2, fun t ht1 ht2 => ?_⟩
        by_cases hti : t = i
        · rw [hti]; exact hp'
        · exact h3 t ht1 (by omega)
      · rintro ⟨h1, h2, h3⟩
        have hji : j ≠ i := by
          intro hji; rw [hji] at h2; rw [h2] at hp'; cases hp'
        exact ⟨by omega, h2, fun t ht1 ht2 => h3 t ht1 (by omega)⟩

theorem findDown_none_iff (i : Nat) (p : Nat → Bool) :
    findDown i p = none ↔ ∀ t, t < i → p t = false := by
  induction i with
  | zero => simp [findDown]
  | succ i ih =>
    simp only [findDown]
    by_cases hp : p i = true
    · rw [if_pos hp]
      constructor
      · intro h; cases h
      · intro h
        have := h i (Nat.lt_succ_self i)
        rw [hp] at this
        cases this
    · rw [if_neg hp, ih]
      have hp' : p i = false := by simpa using hp
      constructor
      · intro h t ht
        by_cases hti : t = i
        · rw [hti]; exact hp'
        · exact h t (by omega)
      · intro h t ht
        exact h t (by omega)

/-! ## `compute_predecessors` -/

/-- closed form of `predecessor[s]` -/
def predF (m : Mat) (s : Nat) : Nat :=
  match findDown s (fun j => ExtRat.isAddInv (m j s) (m s j)) with
  | some j => j
  | none => s

theorem predF_zero (m : Mat) : predF m 0 = 0 := rfl

theorem predF_le (m : Mat) (s : Nat) : predF m s ≤ s := by
  unfold predF
  split
  · rename_i j hj
    have := ((findDown_some_iff _ _ _).1 hj).1
    omega
  · exact Nat.le_refl _

theorem bdsComputePredecessors_apply (rows : Nat) (m : Mat) (s : Nat) :
    bdsComputePredecessors rows m s = if s < rows then predF m s else s := by
  unfold bdsComputePredecessors
  refine Eq.trans (loopDown_ind
    (fun t (pr : Vec) => ∀ s, pr s = if t ≤ s ∧ s < rows then predF m s else s)
    rows _ Vec.iota ?_ ?_ s) ?_
  · intro s
    rw [if_neg (by omega)]
    rfl
  · intro t ht pr hI s
    have hlow : ∀ j, j < t + 1 → pr j = j := fun j hj => by rw [hI j, if_neg (by omega)]
    by_cases ht0 : t = 0
    · rw [if_pos ht0, hI s]
      subst ht0
      by_cases hs0 : s = 0
      · subst hs0
        rw [if_neg (by omega)]
        split
        · rfl
        · rfl
      · by_cases hs : s < rows
        · rw [if_pos ⟨by omega, hs⟩, if_pos ⟨by omega, hs⟩]
        · rw [if_neg (by omega), if_neg (by omega)]
    · rw [if_neg ht0, if_pos (hlow t (Nat.lt_succ_self t)).symm]
      have hfd : findDown t (fun j => j == pr j && ExtRat.isAddInv (m j t) (m t j))
          = findDown t (fun j => ExtRat.isAddInv (m j t) (m t j)) := by
        apply findDown_congr
        intro j hj
        simp only [hlow j (by omega), beq_self_eq_true, Bool.true_and]
      rw [hfd]
      by_cases hst : s = t
      · subst hst
        rw [if_pos ⟨Nat.le_refl _, ht⟩]
        unfold predF
        cases hf : findDown s (fun j => ExtRat.isAddInv (m j s) (m s j)) with
        | none => exact hlow s (Nat.lt_succ_self s)
        | some j => simp only [Vec.set_apply, if_true]
      · have hset : ∀ j, (pr.set t j) s = pr s := fun j => by
          simp only [Vec.set_apply, if_neg hst]
        have hgoal : pr s = if t ≤ s ∧ s < rows then predF m s else s := by
          rw [hI s]
          by_cases hs : t + 1 ≤ s ∧ s < rows
          · rw [if_pos hs, if_pos ⟨by omega, hs.2⟩]
          · rw [if_neg hs, if_neg (by omega)]
        cases hf : findDown t (fun j => ExtRat.isAddInv (m j t) (m t j)) with
        | none => exact hgoal
        | some j => exact (hset j).trans hgoal
  · by_cases hs : s < rows
    · rw [if_pos ⟨Nat.zero_le _, hs⟩, if_pos hs]
    · rw [if_neg (by omega), if_neg hs]

theorem bdsPred_le_all (rows : Nat) (m : Mat) (s : Nat) : bdsComputePredecessors rows m s ≤ s := by
  rw [bdsComputePredecessors_apply]
  split
  · exact predF_le m s
  · exact Nat.le_refl _

theorem bdsPred_zero (rows : Nat) (m : Mat) : bdsComputePredecessors rows m 0 = 0 :=
  Nat.le_zero.1 (bdsPred_le_all rows m 0)

theorem predF_isPredMap (n : Nat) (c : Mat) : IsPredMap n c (predF c) := by
  have hcase : ∀ i, (∃ j, findDown i (fun j => ExtRat.isAddInv (c j i) (c i j)) = some j ∧ predF c i = j)
      ∨ (findDown i (fun j => ExtRat.isAddInv (c j i) (c i j)) = none ∧ predF c i = i) := by
    intro i
    unfold predF
    cases findDown i (fun j => ExtRat.isAddInv (c j i) (c i j)) with
    | none => exact Or.inr ⟨rfl, rfl⟩
    | some j => exact Or.inl ⟨j, rfl, rfl⟩
  have hz : ∀ j i, j ≠ i → ZEq c j i → ExtRat.isAddInv (c j i) (c i j) = true := by
    intro j i hji h
    rcases h with h | h
    · exact absurd h hji
    · exact h
  refine ⟨fun i _ => predF_le c i, ?_, ?_, ?_⟩
  · intro i _
    rcases hcase i with ⟨j, hf, hp⟩ | ⟨_, hp⟩
    · rw [hp]
      exact Or.inr ((findDown_some_iff _ _ _).1 hf).2.1
    · rw [hp]; exact Or.inl rfl
  · intro i j _ h1 h2 hz'
    have hinv := hz j i (by omega) hz'
    rcases hcase i with ⟨j0, hf, hp⟩ | ⟨_, hp⟩
    · rw [hp] at h1
      have := ((findDown_some_iff _ _ _).1 hf).2.2 j h1 h2
      rw [hinv] at this
      cases this
    · omega
  · intro i j _ h1 h2 hz'
    have hinv := hz j i (by omega) hz'
    rcases hcase i with ⟨j0, hf, hp⟩ | ⟨hf, _⟩
    · have := ((findDown_some_iff _ _ _).1 hf).1
      omega
    · have := (findDown_none_iff _ _).1 hf j h2
      rw [hinv] at this
      cases this

theorem IsPredMap.congr {n : Nat} {c : Mat} {p q : Nat → Nat} (h : ∀ i, i ≤ n → q i = p i)
    (hp : IsPredMap n c p) : IsPredMap n c q := by
  refine ⟨?_, ?_, ?_, ?_⟩
  · intro i hi; rw [h i hi]; exact hp.le i hi
  · intro i hi; rw [h i hi]; exact hp.zeq i hi
  · intro i j hi; rw [h i hi]; exact hp.greatest i j hi
  · intro i j hi; rw [h i hi]; exact hp.self i j hi

theorem bdsComputePredecessors_spec {n : Nat} (c : DBM n) :
    IsPredMap n c.e (bdsComputePredecessors (n+1) c.e) := by
  refine IsPredMap.congr ?_ (predF_isPredMap n c.e)
  intro i hi
  rw [bdsComputePredecessors_apply, if_pos (by omega)]

/-! ## `compute_leaders` -/

/-- flattening a predecessor map gives the leader map -/
theorem leaders_loop_spec {n : Nat} (c : DBM n) (hc : c.IsClosed) (P : Vec)
    (hP : IsPredMap n c.e P) :
    IsLeaderMap n c.e (loopUp (α := Vec) (n+1) (fun i (leaders : Vec) =>
      if i = 0 then leaders
      else
        let leaders_i := leaders i
        if leaders_i ≠ i then leaders.set i (leaders leaders_i) else leaders) P) := by
  have key := loopUp_ind
    (fun t (L : Vec) => (∀ s, t ≤ s → L s = P s) ∧
      (∀ s, s < t → s ≤ n → L s ≤ s ∧ ZEq c.e (L s) s ∧ ∀ j, j ≤ n → ZEq c.e j s → L s ≤ j))
    (n+1) (fun i (leaders : Vec) =>
      if i = 0 then leaders
      else
        let leaders_i := leaders i
        if leaders_i ≠ i then leaders.set i (leaders leaders_i) else leaders) P
    ⟨fun _ _ => rfl, fun s hs => absurd hs (Nat.not_lt_zero s)⟩ ?_
  · exact ⟨fun i hi => (key.2 i (by omega) hi).1, fun i hi => (key.2 i (by omega) hi).2.1,
      fun i j hi hj h => (key.2 i (by omega) hi).2.2 j hj h⟩
  · intro t ht L ⟨h1, h2⟩
    have htn : t ≤ n := by omega
    by_cases ht0 : t = 0
    · rw [if_pos ht0]
      subst ht0
      refine ⟨fun s hs => h1 s (by omega), ?_⟩
      intro s hs _
      have hs0 : s = 0 := by omega
      subst hs0
      have hL0 : L 0 = 0 := by
        rw [h1 0 (Nat.le_refl 0)]
        exact Nat.le_zero.1 (hP.le 0 (Nat.zero_le n))
      rw [hL0]
      exact ⟨Nat.le_refl 0, ZEq.refl _ _, fun j _ _ => Nat.zero_le j⟩
    · rw [if_neg ht0]
      dsimp only
      have hLt : L t = P t := h1 t (Nat.le_refl t)
      by_cases hne : L t ≠ t
      · rw [if_pos hne]
        have hlt : L t < t := by
          have := hP.le t htn
          rw [hLt] at hne ⊢
          omega
        have hltn : L t ≤ n := by omega
        obtain ⟨a1, a2, a3⟩ := h2 (L t) hlt hltn
        have hzt : ZEq c.e (L t) t := by rw [hLt]; exact hP.zeq t htn
        refine ⟨?_, ?_⟩
        · intro s hs
          simp only [Vec.set_apply, if_neg (show s ≠ t by omega)]
          exact h1 s (by omega)
        · intro s hs hsn
          by_cases hst : s = t
          · subst hst
            simp only [Vec.set_apply, if_true]
            refine ⟨by omega, ?_, ?_⟩
            · exact ZEq.trans hc (by omega) hltn htn a2 hzt
            · intro j hj hz
              exact a3 j hj (ZEq.trans hc hj htn hltn hz hzt.symm)
          · simp only [Vec.set_apply, if_neg hst]
            exact h2 s (by omega) hsn
      · rw [if_neg hne]
        have hLtt : L t = t := by simpa using hne
        refine ⟨fun s hs => h1 s (by omega), ?_⟩
        intro s hs hsn
        by_cases hst : s = t
        · subst hst
          rw [hLtt]
          refine ⟨Nat.le_refl _, ZEq.refl _ _, ?_⟩
          intro j _ hz
          by_cases hjs : j < s
          · exact absurd hz (hP.self s j htn (by rw [← hLt]; exact hLtt) hjs)
          · omega
        · exact h2 s (by omega) hsn

theorem bdsComputeLeaders_spec {n : Nat} (c : DBM n) (hc : c.IsClosed) :
    IsLeaderMap n c.e (bdsComputeLeaders (n+1) c.e) :=
  leaders_loop_spec c hc _ (bdsComputePredecessors_spec c)

/-! ## abstract consequences -/

theorem IsLeaderMap.eq_iff {n : Nat} {c : DBM n} (hc : c.IsClosed) {lead : Nat → Nat}
    (hL : IsLeaderMap n c.e lead) (i j : Nat) (hi : i ≤ n) (hj : j ≤ n) :
    lead i = lead j ↔ ZEq c.e i j := by
  have hli : lead i ≤ n := Nat.le_trans (hL.le i hi) hi
  have hlj : lead j ≤ n := Nat.le_trans (hL.le j hj) hj
  constructor
  · intro h
    have h1 : ZEq c.e i (lead i) := (hL.zeq i hi).symm
    have h2 : ZEq c.e (lead i) j := by rw [h]; exact hL.zeq j hj
    exact ZEq.trans hc hi hli hj h1 h2
  · intro h
    have a : lead i ≤ lead j := hL.least i (lead j) hi hlj (ZEq.trans hc hlj hj hi (hL.zeq j hj) h.symm)
    have b : lead j ≤ lead i := hL.least j (lead i) hj hli (ZEq.trans hc hli hi hj (hL.zeq i hi) h)
    omega

theorem pred_self_iff_lead_self {n : Nat} {c : Mat} {lead pred : Nat → Nat}
    (hL : IsLeaderMap n c lead) (hP : IsPredMap n c pred) (i : Nat) (hi : i ≤ n) :
    pred i = i ↔ lead i = i := by
  constructor
  · intro h
    have h1 := hL.le i hi
    by_cases hlt : lead i < i
    · exact absurd (hL.zeq i hi) (hP.self i (lead i) hi h hlt)
    · omega
  · intro h
    have h1 := hP.le i hi
    have h2 := hL.least i (pred i) hi (by omega) (hP.zeq i hi)
    omega

/-- the leader of a leader -/
theorem IsLeaderMap.lead_lead {n : Nat} {c : DBM n} (hc : c.IsClosed) {lead : Nat → Nat}
    (hL : IsLeaderMap n c.e lead) (i : Nat) (hi : i ≤ n) : lead (lead i) = lead i := by
  have hli : lead i ≤ n := Nat.le_trans (hL.le i hi) hi
  exact (hL.eq_iff hc (lead i) i hli hi).2 (hL.zeq i hi)

theorem bdsLeaders_eq_iff {n : Nat} (c : DBM n) (hc : c.IsClosed) (i j : Nat) (hi : i ≤ n) (hj : j ≤ n) :
    bdsComputeLeaders (n+1) c.e i = bdsComputeLeaders (n+1) c.e j ↔ ZEq c.e i j :=
  (bdsComputeLeaders_spec c hc).eq_iff hc i j hi hj

theorem bdsPred_self_iff_leader {n : Nat} (c : DBM n) (hc : c.IsClosed) (i : Nat) (hi : i ≤ n) :
    bdsComputePredecessors (n+1) c.e i = i ↔ bdsComputeLeaders (n+1) c.e i = i :=
  pred_self_iff_lead_self (bdsComputeLeaders_spec c hc) (bdsComputePredecessors_spec c) i hi

/-! ## `compute_leader_indices` -/

theorem computeLeaderIndices_succ (size : Nat) (p : Vec) :
    computeLeaderIndices (size+1) p
      = (List.range (size+1)).filter (fun i => i == 0 || p i == i) := by
  unfold computeLeaderIndices
  induction size with
  | zero => rfl
  | succ k ih =>
    rw [loopUp, ih, List.range_succ (n := k+1), List.filter_append]
    rw [if_neg (Nat.succ_ne_zero k)]
    by_cases h : k + 1 = p (k + 1)
    · rw [if_pos h]
      congr 1
      simp [← h]
    · rw [if_neg h]
      have h' : (p (k+1) == k + 1) = false := by
        simp only [beq_eq_false_iff_ne, ne_eq]
        exact fun e => h e.symm
      simp [h']

theorem computeLeaderIndices_eq {n : Nat} (c : DBM n) :
    computeLeaderIndices (n+1) (bdsComputePredecessors (n+1) c.e)
      = (List.range (n+1)).filter (fun i => i == 0 || bdsComputePredecessors (n+1) c.e i == i) :=
  computeLeaderIndices_succ n _

theorem mem_computeLeaderIndices {n : Nat} (c : DBM n) (i : Nat) :
    i ∈ computeLeaderIndices (n+1) (bdsComputePredecessors (n+1) c.e)
      ↔ i ≤ n ∧ bdsComputePredecessors (n+1) c.e i = i := by
  rw [computeLeaderIndices_eq, List.mem_filter, List.mem_range]
  constructor
  · rintro ⟨h1, h2⟩
    refine ⟨by omega, ?_⟩
    simp only [Bool.or_eq_true, beq_iff_eq] at h2
    rcases h2 with h2 | h2
    · subst h2; exact bdsPred_zero _ _
    · exact h2
  · rintro ⟨h1, h2⟩
    refine ⟨by omega, ?_⟩
    simp only [Bool.or_eq_true, beq_iff_eq]
    exact Or.inr h2

theorem computeLeaderIndices_nodup {n : Nat} (c : DBM n) :
    (computeLeaderIndices (n+1) (bdsComputePredecessors (n+1) c.e)).Nodup := by
  rw [computeLeaderIndices_eq]
  exact List.Nodup.sublist List.filter_sublist List.nodup_range

end PPLV.WR
