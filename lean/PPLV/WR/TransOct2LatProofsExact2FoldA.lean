import PPLV.WR.TransOct2LatProofsExact2Remove
/-!
# Exact arithmetic: `Octagonal_Shape<T>::fold_space_dimensions` computes the least octagon containing every
folded piece

Every `max_assign` of the code joins into a cell `(a, b)` of `dest` the cell of the folded variable `w` that
bounds the same difference after the substitution `dest := w` (or its coherent twin); the closed matrix is
tight, so each such source cell is attained by a point of the shape, whose folded piece lies in every octagon
`d` containing the pieces.
-/
set_option linter.unusedVariables false
namespace PPLV.WR
open ExtRat

/-- the matrix index after the substitution `dest := w` -/
def octLatSub (dest w i : Nat) : Nat := if i / 2 = dest then 2 * w + i % 2 else i

theorem octLatSub_oval (x : Nat → Rat) (dest w i : Nat) :
    OctM.oval (upd x dest (x w)) i = OctM.oval x (octLatSub dest w i) := by
  unfold octLatSub
  split
  · rename_i h
    unfold OctM.oval upd
    have e1 : (2 * w + i % 2) % 2 = i % 2 := by omega
    have e2 : (2 * w + i % 2) / 2 = w := by omega
    rw [if_pos h, e1, e2]
  · rename_i h; exact latOval_upd_ne x dest _ h

/-- a stored cell that bounds, after the substitution, the difference `b - a`: tightness gives the bound `t` -/
theorem octLatSem {n : Nat} {c : OctM n} (hc : c.IsStronglyClosed) {dest w a b : Nat} {t : ExtRat}
    (H : ∀ x, c.Sat x →
      fin (OctM.oval (upd x dest (x w)) b - OctM.oval (upd x dest (x w)) a) ≤ t)
    {c' e : Nat} (hc' : c' < 2 * n) (he : e < rowSize c') (hne : c' ≠ e)
    (hid : (c' = octLatSub dest w a ∧ e = octLatSub dest w b) ∨
      (c' = cidx (octLatSub dest w b) ∧ e = cidx (octLatSub dest w a))) : c.e c' e ≤ t := by
  have he' : e < 2 * n := lt_of_lt_of_le he (rowSize_le hc')
  have key : ∀ x, c.Sat x → fin (OctM.oval x e - OctM.oval x c') ≤ t := by
    intro x hx
    have := H x hx
    rw [octLatSub_oval, octLatSub_oval] at this
    rcases hid with ⟨h1, h2⟩ | ⟨h1, h2⟩
    · rw [h1, h2]; exact this
    · rw [h1, h2, latOval_cidx, latOval_cidx]
      have e' : -OctM.oval x (octLatSub dest w a) - -OctM.oval x (octLatSub dest w b)
          = OctM.oval x (octLatSub dest w b) - OctM.oval x (octLatSub dest w a) := by ring
      rw [e']; exact this
  have hfull := raw_eq_octFull c.e he hne
  cases ht : t with
  | pinf => exact le_pinf _
  | fin v =>
    cases hu : c.e c' e with
    | fin u =>
      obtain ⟨x, hx, hd⟩ := hc.exists_point_ge hc' he' (w := u) (by rw [← hfull, hu]; exact le_rfl' _)
      have := key x hx
      rw [ht, fin_le_fin] at this
      rw [fin_le_fin]; linarith
    | pinf =>
      exfalso
      obtain ⟨x, hx, hd⟩ := hc.exists_point_ge hc' he' (w := v + 1) (by rw [← hfull, hu]; exact le_pinf _)
      have := key x hx
      rw [ht, fin_le_fin] at this
      linarith

/-- the invariant of the `max_assign`s for one fixed cell `(a, b)` and bound `t`: cells without an index of
`dest` are untouched, the cell stays below `t` -/
def octLatFoldInv (dest : Nat) (m' : Mat) (a b : Nat) (t : ExtRat) (S : Mat) : Prop :=
  (∀ i j, i / 2 ≠ dest → j / 2 ≠ dest → S i j = m' i j) ∧ S a b ≤ t

theorem octLatFoldInv_op {dest : Nat} {m' : Mat} {a b : Nat} {t : ExtRat} {S : Mat}
    (h : octLatFoldInv dest m' a b t S) {a' b' c' e : Nat} (htgt : a' / 2 = dest ∨ b' / 2 = dest)
    (hsrc : c' / 2 ≠ dest ∧ e / 2 ≠ dest) (hsem : a' = a → b' = b → m' c' e ≤ t) :
    octLatFoldInv dest m' a b t (latMaxAt S a' b' c' e) := by
  unfold latMaxAt
  constructor
  · intro i j hi hj
    simp only [Mat.set_apply]
    rw [if_neg (by intro hc; obtain ⟨rfl, rfl⟩ := hc; rcases htgt with h' | h' <;> omega)]
    exact h.1 i j hi hj
  · simp only [Mat.set_apply]
    split
    · rename_i hc
      obtain ⟨rfl, rfl⟩ := hc
      refine latMaxA_le h.2 ?_
      rw [h.1 c' e hsrc.1 hsrc.2]
      exact hsem rfl rfl
    · exact h.2

/-- the index side conditions of `octLatSem`, discharged by arithmetic -/
macro "oct_idx" : tactic =>
  `(tactic| ((try simp only [octLatSub, cidx, rowSize]) <;> (try split_ifs) <;> omega))

theorem octLatFoldB1_e {n : Nat} {c : OctM n} (hc : c.IsStronglyClosed) {dest w a b : Nat} {t : ExtRat}
    (hdn : dest < n) (hwn : w < n) (hwd : w ≠ dest)
    (H : ∀ x, c.Sat x →
      fin (OctM.oval (upd x dest (x w)) b - OctM.oval (upd x dest (x w)) a) ≤ t)
    {j : Nat} (hj1 : j < 2 * dest) (hj2 : j < 2 * w) (hp : (j) % 2 = 0)
    {S : Mat} (hS : octLatFoldInv dest c.e a b t S) :
    octLatFoldInv dest c.e a b t (latMaxAt (latMaxAt (latMaxAt (latMaxAt S (2 * dest) (j) (2 * w) (j)) (2 * dest + 1) (j) (2 * w + 1) (j))
      (2 * dest + 1) (cidx (j)) (2 * w + 1) (cidx (j))) (2 * dest) (cidx (j)) (2 * w) (cidx (j))) := by
  have hcv : cidx (j) = j + 1 := by unfold cidx; rw [if_neg (by omega)]
  simp only [hcv]
  refine octLatFoldInv_op (octLatFoldInv_op (octLatFoldInv_op (octLatFoldInv_op hS ?_ ?_ ?_) ?_ ?_ ?_)
      ?_ ?_ ?_) ?_ ?_ ?_
  all_goals first | (left; omega) | (right; omega) | (constructor <;> omega) |
    (intro ha hb; subst ha; subst hb; exact octLatSem hc H (by oct_idx) (by oct_idx) (by oct_idx) (by oct_idx))

theorem octLatFoldB2a_e {n : Nat} {c : OctM n} (hc : c.IsStronglyClosed) {dest w a b : Nat} {t : ExtRat}
    (hdn : dest < n) (hwn : w < n) (hwd : w ≠ dest)
    (H : ∀ x, c.Sat x →
      fin (OctM.oval (upd x dest (x w)) b - OctM.oval (upd x dest (x w)) a) ≤ t)
    {j : Nat} (hj1 : 2 * dest + 2 ≤ j) (hj2 : j < 2 * w) (hp : (j) % 2 = 0)
    {S : Mat} (hS : octLatFoldInv dest c.e a b t S) :
    octLatFoldInv dest c.e a b t (latMaxAt (latMaxAt (latMaxAt (latMaxAt S (cidx (j)) (2 * dest + 1) (2 * w) (j)) (cidx (j)) (2 * dest) (2 * w + 1) (j))
      (j) (2 * dest) (2 * w + 1) (cidx (j))) (j) (2 * dest + 1) (2 * w) (cidx (j))) := by
  have hcv : cidx (j) = j + 1 := by unfold cidx; rw [if_neg (by omega)]
  simp only [hcv]
  refine octLatFoldInv_op (octLatFoldInv_op (octLatFoldInv_op (octLatFoldInv_op hS ?_ ?_ ?_) ?_ ?_ ?_)
      ?_ ?_ ?_) ?_ ?_ ?_
  all_goals first | (left; omega) | (right; omega) | (constructor <;> omega) |
    (intro ha hb; subst ha; subst hb; exact octLatSem hc H (by oct_idx) (by oct_idx) (by oct_idx) (by oct_idx))

theorem octLatFoldB2b_e {n : Nat} {c : OctM n} (hc : c.IsStronglyClosed) {dest w a b : Nat} {t : ExtRat}
    (hdn : dest < n) (hwn : w < n) (hwd : w ≠ dest)
    (H : ∀ x, c.Sat x →
      fin (OctM.oval (upd x dest (x w)) b - OctM.oval (upd x dest (x w)) a) ≤ t)
    {j : Nat} (hj1 : 2 * w + 2 ≤ j) (hj2 : j < 2 * dest) (hp : (j) % 2 = 0)
    {S : Mat} (hS : octLatFoldInv dest c.e a b t S) :
    octLatFoldInv dest c.e a b t (latMaxAt (latMaxAt (latMaxAt (latMaxAt S (2 * dest) (j) (cidx (j)) (2 * w + 1)) (2 * dest + 1) (j) (cidx (j)) (2 * w))
      (2 * dest + 1) (cidx (j)) (j) (2 * w)) (2 * dest) (cidx (j)) (j) (2 * w + 1)) := by
  have hcv : cidx (j) = j + 1 := by unfold cidx; rw [if_neg (by omega)]
  simp only [hcv]
  refine octLatFoldInv_op (octLatFoldInv_op (octLatFoldInv_op (octLatFoldInv_op hS ?_ ?_ ?_) ?_ ?_ ?_)
      ?_ ?_ ?_) ?_ ?_ ?_
  all_goals first | (left; omega) | (right; omega) | (constructor <;> omega) |
    (intro ha hb; subst ha; subst hb; exact octLatSem hc H (by oct_idx) (by oct_idx) (by oct_idx) (by oct_idx))

theorem octLatFoldB3_e {n : Nat} {c : OctM n} (hc : c.IsStronglyClosed) {dest w a b : Nat} {t : ExtRat}
    (hdn : dest < n) (hwn : w < n) (hwd : w ≠ dest)
    (H : ∀ x, c.Sat x →
      fin (OctM.oval (upd x dest (x w)) b - OctM.oval (upd x dest (x w)) a) ≤ t)
    {j : Nat} (hj1 : 2 * dest + 2 ≤ j) (hj2 : 2 * w + 2 ≤ j) (hj3 : j < 2 * n) (hp : (j) % 2 = 0)
    {S : Mat} (hS : octLatFoldInv dest c.e a b t S) :
    octLatFoldInv dest c.e a b t (latMaxAt (latMaxAt (latMaxAt (latMaxAt S (cidx (j)) (2 * dest + 1) (cidx (j)) (2 * w + 1)) (cidx (j)) (2 * dest) (cidx (j)) (2 * w))
      (j) (2 * dest) (j) (2 * w)) (j) (2 * dest + 1) (j) (2 * w + 1)) := by
  have hcv : cidx (j) = j + 1 := by unfold cidx; rw [if_neg (by omega)]
  simp only [hcv]
  refine octLatFoldInv_op (octLatFoldInv_op (octLatFoldInv_op (octLatFoldInv_op hS ?_ ?_ ?_) ?_ ?_ ?_)
      ?_ ?_ ?_) ?_ ?_ ?_
  all_goals first | (left; omega) | (right; omega) | (constructor <;> omega) |
    (intro ha hb; subst ha; subst hb; exact octLatSem hc H (by oct_idx) (by oct_idx) (by oct_idx) (by oct_idx))


end PPLV.WR
