import PPLV.WR.TransOct2
import PPLV.WR.TransProofsRefine
import PPLV.WR.TransOctProofsBase
/-!
# `Octagonal_Shape::refine_no_check(const Constraint&)`, `add_constraint(const Constraint&)`, `unconstrain`:
soundness

For every rounding with `fin q ≤ R.up q` the models `octRefineNoCheck` and `octAddConstraint` keep every point
of the octagon that satisfies the constraint and only lower entries; the shape is marked empty only when no
point satisfies the constraint.  No side condition.
-/
set_option linter.unusedVariables false
set_option linter.unusedSimpArgs false
set_option linter.unusedTactic false
namespace PPLV.WR
open ExtRat

theorem octOval_even' (x : Nat → Rat) (k : Nat) : OctM.oval x (k * 2) = x k := by
  rw [Nat.mul_comm]; exact oval_even x k
theorem octOval_odd' (x : Nat → Rat) (k : Nat) : OctM.oval x (k * 2 + 1) = - x k := by
  rw [Nat.mul_comm]; exact oval_odd x k

/-- the normal form of a proper octagonal difference: with `c = |coeff|`,
`c·(V_i - V_j) + term = μ·(cf·x + inhomo)` for a positive `μ` (`2` for one variable: the term is doubled and
the cell is the unary one; `1` for two variables) -/
def OctODShape (sd : Nat) (cf : Nat → Int) (inhomo : Int) (r : OctDX) : Prop :=
  r.coeff ≠ 0 ∧ ∃ μ : Rat, 0 < μ ∧ ∀ x : Nat → Rat,
    (((if r.coeff < 0 then - r.coeff else r.coeff : Int) : Rat)) * (OctM.oval x r.i - OctM.oval x r.j) + (r.term : Rat)
      = μ * (linEval cf x sd + inhomo)

theorem octExtract_spec (sd : Nat) (cf : Nat → Int) (inhomo : Int)
    (hok : (octExtractOctagonalDifference sd cf inhomo).ok = true) :
    ((octExtractOctagonalDifference sd cf inhomo).numVars = 0 ∧ ∀ x, linEval cf x sd = 0) ∨
    ((octExtractOctagonalDifference sd cf inhomo).numVars ≠ 0 ∧
      OctODShape sd cf inhomo (octExtractOctagonalDifference sd cf inhomo)) := by
  obtain ⟨f1, f2, f3, f4⟩ := firstNonzero_spec cf (show 1 ≤ sd + 1 by omega)
  unfold octExtractOctagonalDifference at hok ⊢
  dsimp only at hok ⊢
  generalize firstNonzero cf 1 (sd + 1) = i at *
  by_cases h1 : i = sd + 1
  · left
    rw [if_pos h1]
    refine ⟨rfl, fun x => linEval_zero_of _ _ _ (fun t ht => ?_)⟩
    have := f3 (t + 1) (by omega) (by omega)
    simpa using this
  · rw [if_neg h1] at hok ⊢
    obtain ⟨i', rfl⟩ : ∃ i', i = i' + 1 := ⟨i - 1, by omega⟩
    simp only [Nat.add_sub_cancel] at hok ⊢
    obtain ⟨s1, s2, s3, s4⟩ := firstNonzero_spec cf (show i' + 2 ≤ sd + 1 by omega)
    generalize firstNonzero cf (i' + 2) (sd + 1) = j at *
    have hci : cf i' ≠ 0 := by simpa using f4 (by omega)
    have zlo : ∀ t, t < i' → cf t = 0 := by
      intro t ht
      have := f3 (t + 1) (by omega) (by omega)
      simpa using this
    have zmid : ∀ t, i' < t → t + 1 < j → cf t = 0 := by
      intro t ht1 ht2
      have := s3 (t + 1) (by omega) (by omega)
      simpa using this
    right
    by_cases h2 : j = sd + 1
    · rw [if_pos h2]
      have hlin : ∀ x, linEval cf x sd = (cf i' : Rat) * x i' := by
        intro x
        refine linEval_support1 cf x (a := i') (by omega) ?_
        intro t ht hta
        rcases Nat.lt_or_gt_of_ne hta with hlt | hgt
        · exact zlo t hlt
        · exact zmid t hgt (by omega)
      by_cases hneg : cf i' < 0
      · rw [if_pos hneg]
        refine ⟨by simp, hci, 2, by norm_num, fun x => ?_⟩
        dsimp only
        rw [if_pos hneg, octOval_even', octOval_odd', hlin]
        push_cast; ring
      · rw [if_neg hneg]
        refine ⟨by simp, hci, 2, by norm_num, fun x => ?_⟩
        dsimp only
        rw [if_neg hneg, octOval_even', octOval_odd', hlin]
        push_cast; ring
    · rw [if_neg h2] at hok ⊢
      obtain ⟨j', rfl⟩ : ∃ j', j = j' + 1 := ⟨j - 1, by omega⟩
      simp only [Nat.add_sub_cancel] at hok ⊢
      by_cases h3 : (!allZeroes cf (j' + 2) (sd + 1)) = true
      · rw [if_pos h3] at hok
        simp at hok
      · rw [if_neg h3] at hok ⊢
        by_cases h4 : cf j' ≠ cf i' ∧ cf j' ≠ - cf i'
        · rw [if_pos h4] at hok
          simp at hok
        · rw [if_neg h4]
          have hcj : cf j' ≠ 0 := by simpa using s4 (by omega)
          have hall : firstNonzero cf (j' + 2) (sd + 1) = sd + 1 := by
            simpa [allZeroes] using h3
          obtain ⟨u1, u2, u3, u4⟩ := firstNonzero_spec cf (show j' + 2 ≤ sd + 1 by omega)
          rw [hall] at u3
          have zhi : ∀ t, j' < t → t < sd → cf t = 0 := by
            intro t ht1 ht2
            have := u3 (t + 1) (by omega) (by omega)
            simpa using this
          have hlin : ∀ x, linEval cf x sd = (cf i' : Rat) * x i' + (cf j' : Rat) * x j' := by
            intro x
            refine linEval_support2 cf x (a := i') (b := j') (by omega) (by omega) (by omega) ?_
            intro t ht hta htb
            rcases Nat.lt_or_gt_of_ne hta with hlt | hgt
            · exact zlo t hlt
            · rcases Nat.lt_or_gt_of_ne htb with hlt' | hgt'
              · exact zmid t hgt (by omega)
              · exact zhi t hgt' ht
          have h01 : cf j' = cf i' ∨ cf j' = - cf i' := by
            by_contra hcon
            exact h4 ⟨fun h => hcon (Or.inl h), fun h => hcon (Or.inr h)⟩
          refine ⟨by simp, hcj, 1, by norm_num, fun x => ?_⟩
          dsimp only
          rw [hlin, one_mul]
          by_cases hn0 : cf j' < 0 <;> by_cases hp1 : cf i' > 0
          · rw [if_pos hn0, if_pos hn0, if_pos hp1, octOval_odd', octOval_odd']
            have : cf j' = - cf i' := by rcases h01 with h | h <;> omega
            rw [this]; push_cast; ring
          · rw [if_pos hn0, if_pos hn0, if_neg hp1, octOval_odd', octOval_even']
            have : cf j' = cf i' := by rcases h01 with h | h <;> omega
            rw [this]; push_cast; ring
          · rw [if_neg hn0, if_neg hn0, if_pos hp1, octOval_even', octOval_odd']
            have : cf j' = cf i' := by rcases h01 with h | h <;> omega
            rw [this]; push_cast; ring
          · rw [if_neg hn0, if_neg hn0, if_neg hp1, octOval_even', octOval_even']
            have : cf j' = - cf i' := by rcases h01 with h | h <;> omega
            rw [this]; push_cast; ring

/-! ## the common tail -/

/-- `octAddOD` on the cell `(a, b)` with the positive divisor `c` -/
def octAddOD2 (R : Rnd) (m : Mat) (a b : Nat) (c term : Int) (isEq : Bool) : Mat :=
  let m1 := if m a b ≤ divRoundUp R term c then m else m.set a b (divRoundUp R term c)
  if isEq then
    (if m1 (cidx a) (cidx b) ≤ divRoundUp R (- term) c then m1
     else m1.set (cidx a) (cidx b) (divRoundUp R (- term) c))
  else m1

theorem octAddOD_eq (R : Rnd) (m : Mat) (x : OctDX) (isEq : Bool) :
    octAddOD R m x isEq = octAddOD2 R m x.i x.j (if x.coeff < 0 then - x.coeff else x.coeff) x.term isEq := rfl

theorem octPres_addOD2 {R : Rnd} (hup : ∀ q, fin q ≤ R.up q) {S : Nat → Nat → Prop} (m : Mat) (a b : Nat)
    {c : Int} (hc : 0 < c) (term : Int) (isEq : Bool) :
    Pres S (fun p => Coh p ∧ 0 ≤ (c : Rat) * (p a - p b) + term ∧
        (isEq = true → (c : Rat) * (p a - p b) + term = 0)) m (octAddOD2 R m a b c term isEq) := by
  have hc' : (0 : Rat) < c := by exact_mod_cast hc
  unfold octAddOD2
  dsimp only
  refine Pres.trans (b := if m a b ≤ divRoundUp R term c then m else m.set a b (divRoundUp R term c))
    (pres_store _ _ _ _ ?_) ?_
  · intro p hp
    exact le_trans' (fin_le_fin.2 (le_div_of_sat hc' hp.2.1)) (hup _)
  · generalize (if m a b ≤ divRoundUp R term c then m else m.set a b (divRoundUp R term c)) = m1
    split
    · rename_i he
      refine pres_store _ _ _ _ ?_
      intro p hp
      refine le_trans' (fin_le_fin.2 ?_) (hup _)
      have h0 := hp.2.2 he
      rw [hp.1 a, hp.1 b]
      push_cast
      apply le_div_of_sat hc'
      linarith
    · exact Pres.refl _

theorem octAddOD_sound {R : Rnd} (hup : ∀ q, fin q ≤ R.up q) {n sd : Nat}
    {cf : Nat → Int} {inhomo : Int} {r : OctDX} (hr : OctODShape sd cf inhomo r) (kind : CKind) (m : Mat)
    {x : Nat → Rat} (hx : x ∈ γO n m) (hc : CSat cf sd inhomo kind x) :
    x ∈ γO n (octAddOD R m r (decide (kind = .eq))) ∧ MLe (octAddOD R m r (decide (kind = .eq))) m := by
  obtain ⟨hc0, μ, hμ, hlin⟩ := hr
  have hge := hc.ge
  rw [octAddOD_eq]
  have hcpos : 0 < (if r.coeff < 0 then - r.coeff else r.coeff : Int) := by split <;> omega
  have hp := octPres_addOD2 hup (S := SO n) m r.i r.j hcpos r.term (decide (kind = .eq))
  refine ⟨hp.1 (OctM.oval x) ⟨coh_oval x, ?_, fun he => ?_⟩ hx, hp.2⟩
  · rw [hlin x]; positivity
  · have := hc.eq_of (of_decide_eq_true he)
    rw [hlin x, this, mul_zero]

theorem octRefineNoCheck_sound_raw {R : Rnd} (hup : ∀ q, fin q ≤ R.up q) {n sd : Nat}
    (cf : Nat → Int) (inhomo : Int) (kind : CKind) (m : Mat) {x : Nat → Rat} (hx : x ∈ γO n m)
    (hc : CSat cf sd inhomo kind x) :
    match octRefineNoCheck R n sd cf inhomo kind m with
    | .ok m' => x ∈ γO n m' ∧ MLe m' m
    | .empty => False
    | .throws => False := by
  unfold octRefineNoCheck
  dsimp only
  by_cases hok : (octExtractOctagonalDifference sd cf inhomo).ok = true
  · rw [if_neg (by simp [hok])]
    rcases octExtract_spec sd cf inhomo hok with ⟨h0, hl⟩ | ⟨h0, hs⟩
    · rw [if_pos h0]
      have hl := hl x
      by_cases hcond : inhomo < 0 ∨ (inhomo ≠ 0 ∧ kind = .eq) ∨ (inhomo = 0 ∧ kind = .gt)
      · rw [if_pos hcond]
        show False
        cases kind <;> simp only [CSat, hl, zero_add] at hc <;>
          simp only [reduceCtorEq, and_false, and_true, or_false, false_or] at hcond
        · have h1 : inhomo = 0 := by exact_mod_cast hc
          omega
        · have h1 : 0 ≤ inhomo := by exact_mod_cast hc
          omega
        · have h1 : 0 < inhomo := by exact_mod_cast hc
          omega
      · rw [if_neg hcond]
        exact ⟨hx, mle_refl m⟩
    · rw [if_neg h0]
      exact octAddOD_sound hup hs kind m hx hc
  · rw [if_pos (by simpa using hok)]
    exact ⟨hx, mle_refl m⟩

theorem octAllZeroes_lin {cf : Nat → Int} {sd : Nat} (h : allZeroes cf 1 (sd + 1) = true) (x : Nat → Rat) :
    linEval cf x sd = 0 := by
  obtain ⟨f1, f2, f3, f4⟩ := firstNonzero_spec cf (show 1 ≤ sd + 1 by omega)
  have hall : firstNonzero cf 1 (sd + 1) = sd + 1 := by simpa [allZeroes] using h
  rw [hall] at f3
  refine linEval_zero_of _ _ _ (fun t ht => ?_)
  have := f3 (t + 1) (by omega) (by omega)
  simpa using this

theorem octAddConstraint_sound_raw {R : Rnd} (hup : ∀ q, fin q ≤ R.up q) {n sd : Nat}
    (cf : Nat → Int) (inhomo : Int) (kind : CKind) (m : Mat) {x : Nat → Rat} (hx : x ∈ γO n m)
    (hc : CSat cf sd inhomo kind x) :
    match octAddConstraint R n sd cf inhomo kind m with
    | .ok m' => x ∈ γO n m' ∧ MLe m' m
    | .empty => False
    | .throws => True := by
  unfold octAddConstraint
  dsimp only
  by_cases hgt : kind = .gt
  · rw [if_pos hgt]
    by_cases h : allZeroes cf 1 (sd + 1) = true
    · rw [if_pos h]
      subst hgt
      simp only [CSat, octAllZeroes_lin h x, zero_add] at hc
      have h1 : 0 < inhomo := by exact_mod_cast hc
      rw [if_neg (by omega)]
      exact ⟨hx, mle_refl m⟩
    · rw [if_neg h]
      trivial
  · rw [if_neg hgt]
    by_cases hok : (octExtractOctagonalDifference sd cf inhomo).ok = true
    · rw [if_neg (by simp [hok])]
      rcases octExtract_spec sd cf inhomo hok with ⟨h0, hl⟩ | ⟨h0, hs⟩
      · rw [if_pos h0]
        have hl := hl x
        by_cases hcond : inhomo < 0 ∨ (kind = .eq ∧ inhomo ≠ 0)
        · rw [if_pos hcond]
          show False
          cases kind <;> simp only [CSat, hl, zero_add] at hc <;>
            simp only [reduceCtorEq, false_and, true_and, or_false] at hcond
          · have h1 : inhomo = 0 := by exact_mod_cast hc
            omega
          · have h1 : 0 ≤ inhomo := by exact_mod_cast hc
            omega
          · exact hgt rfl
        · rw [if_neg hcond]
          exact ⟨hx, mle_refl m⟩
      · rw [if_neg h0]
        exact octAddOD_sound hup hs kind m hx hc
    · rw [if_pos (by simpa using hok)]
      trivial

/-! ## `unconstrain` -/

theorem octUnconstrain_sound {R : Rnd} (hR : R.Sound) {n vid : Nat} (hv : vid < n) (closed : Bool) (m : OctM n)
    {x : Nat → Rat} (hx : x ∈ OctM.γ m) (t : Rat) :
    ∃ m', octUnconstrain R closed vid m = some m' ∧ upd x vid t ∈ γO n m' := by
  obtain ⟨m1, h1, hx1⟩ := octCloseFirst_sound hR.up_le closed m hx
  exact ⟨_, by simp [octUnconstrain, h1], holds_octForgetAll hv hx1 t⟩

end PPLV.WR
