import PPLV.WR.Trans2LhsProofsImage
/-!
# `BD_Shape<T>::generalized_affine_preimage(lhs, relsym, rhs)`: soundness of every branch
-/
set_option linter.unusedVariables false
set_option linter.unusedSimpArgs false
namespace PPLV.WR
open ExtRat

theorem lhs_restrict {n : Nat} {x : Nat → Rat} {U : Rat} {m : Mat} (h : upd x n U ∈ γB (n + 1) m) :
    x ∈ γB n m := by
  intro a b hab
  have := h a b ⟨by have := hab.1; omega, by have := hab.2; omega⟩
  rw [val_upd, if_neg (by have := hab.2; omega), val_upd, if_neg (by have := hab.1; omega)] at this
  exact this

/-- `lhs` constant: the preimage is the image -/
theorem bdsLhsPre_t0_sound {R : Rnd} (hR : R.Sound) {n : Nat} (rel : RelSym) {el er : Nat → Int} (bl br : Int)
    (h0 : exprT el (lastNonzero el n) = 0) {m : Mat} {x x' : Nat → Rat} (hx' : x' ∈ γB n m)
    (hag : ∀ i, i < n → el i = 0 → x' i = x i)
    (hrel : rel.holds (linEval el x' n + bl) (linEval er x n + br)) :
    ∃ m', bdsLhsGenAffinePreimageCore R n rel el bl er br m = some m' ∧ x ∈ γB n m' := by
  have hall : ∀ i, i < n → x' i = x i := fun i hi => hag i hi (lhs_t0_zero h0 i hi)
  have hrel' : rel.holds (linEval el x n + bl) (linEval er x' n + br) := by
    rw [linEval_congr_x er hall, ← linEval_congr_x el hall]; exact hrel
  have := bdsLhsImage_t0_sound hR rel bl br h0 hx' (fun i hi h => (hag i hi h).symm) hrel'
  unfold bdsLhsGenAffinePreimageCore
  dsimp only [lhsForm]
  rw [if_pos h0]
  exact this

/-- `lhs == a*v + b`: the delegate `generalized_affine_preimage(v, relsym', rhs - b_lhs, a)` -/
theorem bdsLhsPre_t1_sound {R : Rnd} (hR : R.Sound) {n : Nat} (rel : RelSym) {el er : Nat → Int} (bl br : Int)
    (h1 : exprT el (lastNonzero el n) = 1) (hc : CoeffExact R er)
    (hcd : R.up ((absI (el (lastNonzero el n - 1)) : Int) : Rat) = fin ((absI (el (lastNonzero el n - 1)) : Int) : Rat))
    {m : Mat} {x x' : Nat → Rat} (hx' : x' ∈ γB n m)
    (hag : ∀ i, i < n → el i = 0 → x' i = x i)
    (hrel : rel.holds (linEval el x' n + bl) (linEval er x n + br)) :
    ∃ m', bdsLhsGenAffinePreimageCore R n rel el bl er br m = some m' ∧ x ∈ γB n m' := by
  obtain ⟨hw0, ha0, hz⟩ := lhs_t1_zero h1
  obtain ⟨_, hval⟩ := linEval_t1 x' h1
  have hwn := lastNonzero_le el n
  have hj : lastNonzero el n - 1 < n := by omega
  rw [hval] at hrel
  have hnew := lhs_newRel_holds ha0 hrel
  have hcong : ∀ i, i < n → upd x (lastNonzero el n - 1) (x' (lastNonzero el n - 1)) i = x' i := by
    intro i hi
    unfold upd
    split
    · rename_i h; rw [h]
    · rename_i h; exact (hag i hi (hz i hi h)).symm
  have hx'' := lhs_holds_congr hcong hx'
  unfold bdsLhsGenAffinePreimageCore
  dsimp only [lhsForm]
  rw [if_neg (by omega), if_pos h1]
  generalize lhsNewRelSym rel (el (lastNonzero el n - 1)) = rel' at hnew ⊢
  cases rel' with
  | eq =>
    have ht : x' (lastNonzero el n - 1) = _ := hnew
    rw [ht] at hx''
    exact ⟨_, rfl, affinePreimageCore_sound hR hj hc ha0 hcd hx''⟩
  | le =>
    have ht : x' (lastNonzero el n - 1) ≤ _ := hnew
    exact genAffinePreimageCore_sound hR hj hc ha0 hcd true hx'' (by simpa using ht)
  | ge =>
    have ht : _ ≤ x' (lastNonzero el n - 1) := hnew
    exact genAffinePreimageCore_sound hR hj hc ha0 hcd false hx'' (by simpa using ht)

/-- `lhs` general, variables disjoint from `rhs`: `refine_no_check`, `is_empty()`, forget; no side condition -/
theorem bdsLhsPre_disjoint_sound {R : Rnd} (hR : R.Sound) {n : Nat} (rel : RelSym) {el er : Nat → Int} (bl br : Int)
    (h0 : ¬ exprT el (lastNonzero el n) = 0) (h1 : ¬ exprT el (lastNonzero el n) = 1)
    (hcom : lhsHaveCommonVar el er (min (lhsSpaceDim el n) (lhsSpaceDim er n)) = false)
    {m : Mat} {x x' : Nat → Rat} (hx' : x' ∈ γB n m)
    (hag : ∀ i, i < n → el i = 0 → x' i = x i)
    (hrel : rel.holds (linEval el x' n + bl) (linEval er x n + br)) :
    ∃ m', bdsLhsGenAffinePreimageCore R n rel el bl er br m = some m' ∧ x ∈ γB n m' := by
  have hnc := lhs_no_common hcom
  have hr : linEval er x' n = linEval er x n :=
    lhs_linEval_support er (fun i hi hne => hag i hi (by
      by_contra hel
      exact hne (hnc i hi hel)))
  rw [← hr] at hrel
  obtain ⟨m1, hm1, hy, _⟩ := lhsRefineRel_sound (R := R) hR.up_le rel bl br (lastNonzero_le el n)
    (lastNonzero_le er n) (lastNonzero_above el n) (lastNonzero_above er n) hx' hrel
  have hforget : ∀ {mm : Mat}, x' ∈ γB n mm → x ∈ γB n (bdsLhsForgetVars (n + 1) (lhsVars el n) mm) :=
    fun h => holds_forget_lhsVars (le_refl n) h (fun i hi h => (hag i hi h).symm) (fun i h1 h2 => by omega)
  unfold bdsLhsGenAffinePreimageCore
  dsimp only [lhsForm]
  rw [if_neg h0, if_neg h1, hcom]
  simp only [Bool.not_false, if_true]
  unfold lhsSpaceDim
  rw [hm1]
  dsimp only
  split
  · exact ⟨_, rfl, hforget hy⟩
  · have hs := sat_ofMat hy
    split
    · rename_i he
      exact absurd hs (DBM.closureEmpty_sound hR.up_le _ he _)
    · exact ⟨_, rfl, hforget ((DBM.sat_iff_holds _ _).1 (DBM.closure_sat hR.up_le _ _ hs))⟩

/-- `lhs` general, sharing variables with `rhs`: the additional dimension -/
theorem bdsLhsPreimageNewDim_sound {R : Rnd} (hR : R.Sound) {n : Nat} (rel : RelSym) {el er : Nat → Int}
    (bl br : Int) (hel : ∀ i, n ≤ i → el i = 0) (her : ∀ i, n ≤ i → er i = 0) (hc : CoeffExact R el)
    {m : Mat} {x x' : Nat → Rat} (hx' : x' ∈ γB n m)
    (hag : ∀ i, i < n → el i = 0 → x' i = x i)
    (hrel : rel.holds (linEval el x' n + bl) (linEval er x n + br)) :
    ∃ m', bdsLhsPreimageNewDim R n rel el bl er br m = some m' ∧ x ∈ γB n m' := by
  unfold bdsLhsPreimageNewDim
  dsimp only
  -- the new dimension receives the value of `lhs`
  have hx0 := holds_embedOne hx'
  have hx1 : upd x' n ((linEval el x' (n+1) + bl) / ((1 : Int) : Rat)) ∈ γB (n+1) _ :=
    affineImageCore_sound hR (Nat.lt_succ_self n) hc (by decide : (1 : Int) ≠ 0) (b := bl) hx0
  have hu : linEval el x' (n+1) = linEval el x' n := by simp [linEval, hel n (le_refl n)]
  rw [hu, Int.cast_one, div_one] at hx1
  generalize hU : linEval el x' n + (bl : Rat) = U at hx1 hrel
  generalize affineImageCore R (n + 1) n el bl 1 (embedOne n m) = m1 at hx1 ⊢
  generalize bdsLhsAffineImageGeneralClosed R (lastNonzero el (n + 1)) el bl 1 (embedOne n m) = closed1
  have hs2 := sat_ofMat hx1
  have hm2 : (!closed1 && DBM.closureEmpty R.up (DBM.ofMat (n + 1) m1)) = false ∧
      upd x' n U ∈ γB (n+1) (if closed1 = true then m1 else (DBM.closure R.up (DBM.ofMat (n + 1) m1)).e) := by
    cases closed1 with
    | true => exact ⟨rfl, by simpa using hx1⟩
    | false =>
      simp only [Bool.not_false, Bool.true_and, Bool.false_eq_true, if_false]
      constructor
      · cases he : DBM.closureEmpty R.up (DBM.ofMat (n + 1) m1) with
        | false => rfl
        | true => exact absurd hs2 (DBM.closureEmpty_sound hR.up_le _ he _)
      · exact (DBM.sat_iff_holds _ _).1 (DBM.closure_sat hR.up_le _ _ hs2)
  rw [hm2.1]
  simp only [Bool.false_eq_true, if_false]
  have hx2 := hm2.2
  generalize (if closed1 = true then m1 else (DBM.closure R.up (DBM.ofMat (n + 1) m1)).e) = m2 at hx2 ⊢
  -- the variables of `lhs` are forgotten: the point `(x, U)`
  have hx3 : upd x n U ∈ γB (n+1) (bdsLhsForgetVars (n + 2) (lhsVars el n) m2) :=
    holds_forget_lhsVars (N := n + 1) (n := n) (by omega) hx2
      (fun i hi h => by
        simp only [upd, if_neg (show i ≠ n by omega)]
        exact (hag i hi h).symm)
      (fun i h1 h2 => by
        have : i = n := by omega
        subst this; simp [upd])
  -- `new_var relsym rhs`
  have hnv : linEval (fun i => if i = n then (1 : Int) else 0) (upd x n U) (n + 1) = U := by
    rw [linEval_single 1 _ (Nat.lt_succ_self n)]; simp [upd]
  have hrv : linEval er (upd x n U) (n + 1) = linEval er x n := by
    simp only [linEval, her n (le_refl n)]
    rw [linEval_congr_x er (x := upd x n U) (y := x) (fun i hi => by simp [upd]; intro h; omega)]
    simp
  obtain ⟨m4, hm4, hy4, _⟩ := lhsRefineRel_sound (R := R) hR.up_le (N := n + 1) rel
    (sdl := n + 1) (sdr := lhsSpaceDim er n) (el := fun i => if i = n then (1 : Int) else 0) (er := er) 0 br
    (le_refl _) (by unfold lhsSpaceDim; have := lastNonzero_le er n; omega)
    (fun i h1 h2 => by omega)
    (fun i h1 h2 => by
      by_cases hin : i < n
      · exact lastNonzero_above er n i h1 hin
      · exact her i (by omega))
    hx3 (by rw [hnv, hrv]; simpa using hrel)
  rw [hm4]
  dsimp only
  split
  · exact ⟨_, rfl, lhs_restrict hy4⟩
  · have hs5 := sat_ofMat hy4
    split
    · rename_i he
      exact absurd hs5 (DBM.closureEmpty_sound hR.up_le _ he _)
    · exact ⟨_, rfl, lhs_restrict ((DBM.sat_iff_holds _ _).1 (DBM.closure_sat hR.up_le _ _ hs5))⟩

/-- every branch of `generalized_affine_preimage(lhs, relsym, rhs)` after the closure.  Side conditions:
`t_lhs == 1`: the coefficients of `rhs` and `|a_lhs|` representable (the delegate); shared variables: the
coefficients of `lhs` representable (`affine_image(new_var, lhs)`); otherwise none. -/
theorem bdsLhsGenAffinePreimageCore_sound {R : Rnd} (hR : R.Sound) {n : Nat} (rel : RelSym) {el er : Nat → Int}
    (bl br : Int) (hel : ∀ i, n ≤ i → el i = 0) (her : ∀ i, n ≤ i → er i = 0)
    (hc1 : exprT el (lastNonzero el n) = 1 → CoeffExact R er ∧
      R.up ((absI (el (lastNonzero el n - 1)) : Int) : Rat) = fin ((absI (el (lastNonzero el n - 1)) : Int) : Rat))
    (hc2 : exprT el (lastNonzero el n) = 2 →
      lhsHaveCommonVar el er (min (lhsSpaceDim el n) (lhsSpaceDim er n)) = true → CoeffExact R el)
    {m : Mat} {x x' : Nat → Rat} (hx' : x' ∈ γB n m)
    (hag : ∀ i, i < n → el i = 0 → x' i = x i)
    (hrel : rel.holds (linEval el x' n + bl) (linEval er x n + br)) :
    ∃ m', bdsLhsGenAffinePreimageCore R n rel el bl er br m = some m' ∧ x ∈ γB n m' := by
  by_cases h0 : exprT el (lastNonzero el n) = 0
  · exact bdsLhsPre_t0_sound hR rel bl br h0 hx' hag hrel
  · by_cases h1 : exprT el (lastNonzero el n) = 1
    · exact bdsLhsPre_t1_sound hR rel bl br h1 (hc1 h1).1 (hc1 h1).2 hx' hag hrel
    · cases hcom : lhsHaveCommonVar el er (min (lhsSpaceDim el n) (lhsSpaceDim er n)) with
      | false => exact bdsLhsPre_disjoint_sound hR rel bl br h0 h1 hcom hx' hag hrel
      | true =>
        have h2 : exprT el (lastNonzero el n) = 2 := by
          unfold exprT at h0 h1 ⊢
          split_ifs at h0 h1 ⊢ <;> first | rfl | omega
        have := bdsLhsPreimageNewDim_sound hR rel bl br hel her (hc2 h2 hcom) hx' hag hrel
        unfold bdsLhsGenAffinePreimageCore
        dsimp only [lhsForm]
        rw [if_neg h0, if_neg h1, hcom]
        simpa using this

theorem bdsLhsGenAffinePreimage_sound {R : Rnd} (hR : R.Sound) {n : Nat} (m : DBM n) (closed : Bool)
    (rel : RelSym) {el er : Nat → Int} (bl br : Int) (hel : ∀ i, n ≤ i → el i = 0) (her : ∀ i, n ≤ i → er i = 0)
    (hc1 : exprT el (lastNonzero el n) = 1 → CoeffExact R er ∧
      R.up ((absI (el (lastNonzero el n - 1)) : Int) : Rat) = fin ((absI (el (lastNonzero el n - 1)) : Int) : Rat))
    (hc2 : exprT el (lastNonzero el n) = 2 →
      lhsHaveCommonVar el er (min (lhsSpaceDim el n) (lhsSpaceDim er n)) = true → CoeffExact R el)
    {x x' : Nat → Rat} (hx' : x' ∈ DBM.γ m) (hag : ∀ i, i < n → el i = 0 → x' i = x i)
    (hrel : rel.holds (linEval el x' n + bl) (linEval er x n + br)) :
    ∃ m', bdsLhsGenAffinePreimage R closed rel el bl er br m = some m' ∧ x ∈ γB n m' := by
  obtain ⟨m1, h1, hx1⟩ := closeFirst_sound hR.up_le closed m hx'
  obtain ⟨m', hm', hx2⟩ := bdsLhsGenAffinePreimageCore_sound hR rel bl br hel her hc1 hc2 hx1 hag hrel
  exact ⟨m', by simp [bdsLhsGenAffinePreimage, h1, hm'], hx2⟩

end PPLV.WR
