import PPLV.WR.Trans2LhsProofsBase
/-!
# The private `BD_Shape<T>::refine(var, relsym, expr, denominator)` as an entry point

Soundness is stage 3's `refineVar_sound`.  "Entries only decrease" holds in the cases `t == 0` and
`t == 1` (only `add_dbm_constraint` writes); it FAILS in the general case: `deduce_v_minus_u_bounds` /
`deduce_u_minus_v_bounds` (and, for `EQUAL`, `dbm[0][v] = sum`) overwrite cells unconditionally
(`bdsRefineVar_not_decreasing`).
-/
set_option linter.unusedVariables false
set_option linter.unusedSimpArgs false
namespace PPLV.WR
open ExtRat

theorem bdsRefineVar_sound {R : Rnd} (hR : R.Sound) {n var : Nat} (hvar : var < n) {e : Nat → Int}
    (hc : CoeffExact R e) (hev : e var = 0) {b den : Int} (hden : den ≠ 0) {m : Mat} {x : Nat → Rat}
    (hx : x ∈ γB n m) (rel : RelSym) (ht : rel.holds (x var) ((linEval e x n + b) / den)) :
    x ∈ γB n (bdsRefineVar R n var rel e b den m) :=
  refineVar_sound hR hvar hc hev hden hx rel ht

theorem lhs_addDbm_mle (m : Mat) (i j : Nat) (k : ExtRat) : MLe (addDbmConstraint m i j k) m := by
  intro a b
  rw [addDbm_apply]
  split
  · rename_i h; obtain ⟨rfl, rfl⟩ := h; exact minA_le_left _ _
  · exact le_rfl' _

theorem lhs_mle_trans {a b c : Mat} (h1 : MLe a b) (h2 : MLe b c) : MLe a c :=
  fun i j => le_trans' (h1 i j) (h2 i j)

/-- `t == 0` or `t == 1` with `a == denominator`: only `add_dbm_constraint` writes, entries only decrease -/
theorem bdsRefineVar_mle_special (R : Rnd) (n var : Nat) (rel : RelSym) (e : Nat → Int) (b den : Int) (m : Mat)
    (hsp : exprT e (lastNonzero e n) = 0 ∨
      (exprT e (lastNonzero e n) = 1 ∧ e (lastNonzero e n - 1) = den)) :
    MLe (bdsRefineVar R n var rel e b den m) m := by
  unfold bdsRefineVar refineVar
  dsimp only
  rcases hsp with h0 | ⟨h1, ha⟩
  · have hT : (if exprT e (lastNonzero e n) = 1 ∧ e (lastNonzero e n - 1) ≠ den then 2
        else exprT e (lastNonzero e n)) = 0 := by rw [if_neg (by omega)]; exact h0
    rw [hT, if_pos rfl]
    cases rel <;> dsimp only <;> simp only [addDbmF_fst]
    · exact lhs_addDbm_mle _ _ _ _
    · exact lhs_addDbm_mle _ _ _ _
    · exact lhs_mle_trans (lhs_addDbm_mle _ _ _ _) (lhs_addDbm_mle _ _ _ _)
  · have hT : (if exprT e (lastNonzero e n) = 1 ∧ e (lastNonzero e n - 1) ≠ den then 2
        else exprT e (lastNonzero e n)) = 1 := by
      rw [if_neg (by intro h; exact h.2 ha)]; exact h1
    rw [hT, if_neg (by decide), if_pos rfl]
    cases rel <;> dsimp only <;> simp only [addDbmF_fst]
    · exact lhs_addDbm_mle _ _ _ _
    · exact lhs_addDbm_mle _ _ _ _
    · exact lhs_mle_trans (lhs_addDbm_mle _ _ _ _) (lhs_addDbm_mle _ _ _ _)

/-- `0 ≤ x₀, x₁, x₂ ≤ 10`, `x₀ - x₁ ≤ 0` (shortest-path closed) -/
def lhsExLoose : DBM 3 := DBM.ofLists 3
  [[pinf, fin 10, fin 10, fin 10],
   [fin 0, pinf, fin 10, fin 10],
   [fin 0, fin 0, pinf, fin 10],
   [fin 0, fin 10, fin 10, pinf]]

/-- `refine(x₀, ≤, x₁ + x₂, 1)` on it: `deduce_v_minus_u_bounds` OVERWRITES the cell of `x₀ - x₁ ≤ 0` by
`ub_v - ub_u = 20 - 10`: the private `refine` is not a refinement entry-wise (no point that satisfies the
relation is lost, and its only caller forgets `var` right afterwards) -/
theorem bdsRefineVar_not_decreasing :
    (bdsRefineVar Rnd.exact 3 0 .le (fun i => if i = 1 ∨ i = 2 then 1 else 0) 0 1 lhsExLoose.e) 2 1 = fin 10 ∧
    lhsExLoose.e 2 1 = fin 0 := by
  decide +kernel

end PPLV.WR
