import PPLV.Lin.GenSem
import PPLV.Lin.Ops

/-! # K1 theorems: generator systems against constraint rows

`genSem_subset_row_iff`: a row holds on the whole generated set iff every generator "admits" it
(points satisfy it, closure points satisfy its non-strict version, rays have a non-negative and
lines a zero scalar product with it).  Together with `sem_gensToCons` (the generated set *is* a
polyhedron) this gives the least-upper-bound statements for poly-hull, `add_generators` and
time-elapse. -/
namespace PPLV.Lin
open List

/-- indicator of points and closure points / of points (the weights in `GenSem`) -/
abbrev pcf : Gen → Rat := fun g => if g.isPtOrCp then 1 else 0
abbrev ptf : Gen → Rat := fun g => if g.isPt then 1 else 0

/-! ### `wsum` is bilinear -/

theorem wsum_zero (f : Gen → Rat) (gs : List Gen) : wsum f gs (fun _ => 0) = 0 := by
  induction gs with
  | nil => rfl
  | cons g gs ih =>
    simp only [wsum, zero_mul, zero_add]
    exact ih

theorem wsum_fn_zero (gs : List Gen) (lam : Val) : wsum (fun _ => (0 : Rat)) gs lam = 0 := by
  induction gs generalizing lam with
  | nil => rfl
  | cons g gs ih => simp only [wsum, mul_zero, zero_add]; exact ih lam.tail

theorem wsum_lin (f : Gen → Rat) (gs : List Gen) (a : Rat) (l1 l2 : Val) :
    wsum f gs (fun j => a * l1 j + l2 j) = a * wsum f gs l1 + wsum f gs l2 := by
  induction gs generalizing l1 l2 with
  | nil => simp [wsum]
  | cons g gs ih =>
    simp only [wsum]
    have : Val.tail (fun j => a * l1 j + l2 j) = fun j => a * l1.tail j + l2.tail j := rfl
    rw [this, ih]; ring

theorem wsum_lin_fn (f1 f2 : Gen → Rat) (a : Rat) (gs : List Gen) (lam : Val) :
    wsum (fun g => a * f1 g + f2 g) gs lam = a * wsum f1 gs lam + wsum f2 gs lam := by
  induction gs generalizing lam with
  | nil => simp [wsum]
  | cons g gs ih => simp only [wsum, ih]; ring

/-- multiplier vector concentrated on index `j0` -/
def delta (j0 : Nat) (t : Rat) : Val := fun j => if j = j0 then t else 0

theorem wsum_delta (f : Gen → Rat) (gs : List Gen) (j0 : Nat) (t : Rat) (h : j0 < gs.length) :
    wsum f gs (delta j0 t) = t * f (gs.getD j0 default) := by
  induction gs generalizing j0 with
  | nil => simp at h
  | cons g gs ih =>
    cases j0 with
    | zero =>
      have : (delta 0 t).tail = fun _ => 0 := by funext j; simp [delta, Val.tail]
      simp only [wsum, this, wsum_zero, List.getD_cons_zero]
      simp [delta]
    | succ k =>
      have : (delta (k+1) t).tail = delta k t := by funext j; simp [delta, Val.tail]
      simp only [wsum, this, List.getD_cons_succ]
      rw [ih k (by simpa using h)]
      simp [delta]

theorem mem_getD (gs : List Gen) (j : Nat) (h : j < gs.length) : gs.getD j default ∈ gs := by
  have : gs.getD j default = gs[j] := by simp [List.getD_eq_getElem?_getD, h]
  rw [this]; exact List.getElem_mem h

theorem exists_index (gs : List Gen) (g : Gen) (h : g ∈ gs) :
    ∃ j, j < gs.length ∧ gs.getD j default = g := by
  obtain ⟨j, hj, rfl⟩ := List.mem_iff_getElem.mp h
  exact ⟨j, hj, by simp [List.getD_eq_getElem?_getD, hj]⟩

/-! ### membership in `GenSem` with the point condition as a sum -/

theorem pt_pos_iff (gs : List Gen) (lam : Val)
    (h2 : ∀ j < gs.length, (gs.getD j default).isLine = false → 0 ≤ lam j) :
    (∃ j < gs.length, (gs.getD j default).isPt = true ∧ 0 < lam j) ↔ 0 < wsum ptf gs lam :=
  ((wsum_pos_iff _ gs lam (ptind_nonneg gs lam h2)).trans
    (exists_congr fun _ => and_congr_right fun _ => ptind_pos_iff _ _)).symm

theorem mem_GenSem_iff (n : Nat) (gs : List Gen) (x : Val) :
    x ∈ GenSem n gs ↔ ∃ lam : Val,
      (∀ j < gs.length, (gs.getD j default).isLine = false → 0 ≤ lam j) ∧
      wsum pcf gs lam = 1 ∧ 0 < wsum ptf gs lam ∧
      ∀ i < n, x i = wsum (fun g => g.coord i) gs lam := by
  constructor
  · rintro ⟨lam, h1, h2, h3, h4⟩; exact ⟨lam, h1, h2, (pt_pos_iff gs lam h1).mp h3, h4⟩
  · rintro ⟨lam, h1, h2, h3, h4⟩; exact ⟨lam, h1, h2, (pt_pos_iff gs lam h1).mpr h3, h4⟩

/-! ### kinds -/

theorem Gen.isPt_pc (g : Gen) (h : g.isPt = true) : g.isPtOrCp = true := by
  unfold Gen.isPt at h; unfold Gen.isPtOrCp; simp [h]

theorem Gen.pc_not_line (g : Gen) (h : g.isPtOrCp = true) : g.isLine = false := by
  unfold Gen.isPtOrCp at h; unfold Gen.isLine
  cases hk : g.kind <;> simp_all

/-- the vector denoted by a generator (`coords / divisor`; divisor 1 for rays and lines) -/
def Gen.vec (g : Gen) : Val := fun i => g.coord i

/-! ### closure properties of `GenSem` -/

/-- a point generator denotes a point of the set -/
theorem genSem_point (n : Nat) (gs : List Gen) (g : Gen) (hg : g ∈ gs) (hp : g.isPt = true)
    (x : Val) (hx : ∀ i < n, x i = g.vec i) : x ∈ GenSem n gs := by
  obtain ⟨j0, hj0, hj⟩ := exists_index gs g hg
  rw [mem_GenSem_iff]
  refine ⟨delta j0 1, ?_, ?_, ?_, ?_⟩
  · intro j _ _; unfold delta; split <;> norm_num
  · rw [wsum_delta _ _ _ _ hj0, hj]; simp [pcf, Gen.isPt_pc _ hp]
  · rw [wsum_delta _ _ _ _ hj0, hj]; simp [ptf, hp]
  · intro i hi; rw [wsum_delta _ _ _ _ hj0, hj, hx i hi]; simp [Gen.vec]

/-- `a·x + t·g` stays in the set when the convexity constraint is respected -/
theorem genSem_combine (n : Nat) (gs : List Gen) (g : Gen) (hg : g ∈ gs) (x : Val)
    (hx : x ∈ GenSem n gs) (a t : Rat) (ha : 0 < a) (ht : g.isLine = false → 0 ≤ t)
    (hpc : a + t * (if g.isPtOrCp then 1 else 0) = 1)
    (y : Val) (hy : ∀ i < n, y i = a * x i + t * g.vec i) : y ∈ GenSem n gs := by
  obtain ⟨j0, hj0, rfl⟩ := exists_index gs g hg
  rw [mem_GenSem_iff] at hx ⊢
  obtain ⟨lam, h1, h2, h3, h4⟩ := hx
  refine ⟨fun j => a * lam j + delta j0 t j, ?_, ?_, ?_, ?_⟩
  · intro j hj hl
    have := h1 j hj hl
    have hd : 0 ≤ delta j0 t j := by
      unfold delta; split
      · rename_i h; subst h; exact ht hl
      · exact le_refl _
    have := mul_nonneg (le_of_lt ha) this
    linarith
  · rw [wsum_lin, wsum_delta _ _ _ _ hj0, h2]; linarith
  · rw [wsum_lin, wsum_delta _ _ _ _ hj0]
    have : 0 ≤ t * (if (gs.getD j0 default).isPt then (1 : Rat) else 0) := by
      split
      · rename_i hp; rw [mul_one]; exact ht (Gen.isPt_not_line _ hp)
      · simp
    have := mul_pos ha h3
    linarith
  · intro i hi
    rw [wsum_lin, wsum_delta _ _ _ _ hj0, hy i hi, h4 i hi]; rfl

/-! ### linearity of rows -/

theorem dot_lin (as : List Int) (a b : Rat) (u v y : Val)
    (h : ∀ i < as.length, y i = a * u i + b * v i) : dot as y = a * dot as u + b * dot as v := by
  induction as generalizing u v y with
  | nil => simp
  | cons c cs ih =>
    simp only [dot_cons]
    rw [h 0 (by simp), ih u.tail v.tail y.tail (fun i hi => h (i+1) (by simp; omega))]
    ring

theorem dot_wsum (as : List Int) (gs : List Gen) (lam x : Val)
    (h : ∀ i < as.length, x i = wsum (fun g => g.coord i) gs lam) :
    dot as x = wsum (fun g => dot as g.vec) gs lam := by
  induction gs generalizing lam x with
  | nil =>
    simp only [wsum] at h ⊢
    rw [dot_agree as x Val.zero (fun i hi => h i hi), dot_zero]
  | cons g gs ih =>
    simp only [wsum] at h ⊢
    rw [← ih lam.tail (fun i => wsum (fun g => g.coord i) gs lam.tail) (fun _ _ => rfl)]
    rw [dot_lin as (lam 0) 1 g.vec (fun i => wsum (fun g => g.coord i) gs lam.tail) x
      (fun i hi => by rw [h i hi]; simp [Gen.vec])]
    ring

/-! ### a generator admits a row -/

/-- the row's homogeneous non-strict part -/
def Con.hom (c : Con) : Con := ⟨c.coeffs, 0, false⟩

/-- generator `g` is compatible with row `c` (what `relation_with(g)` calls "subsumes") -/
def rowAdmits (c : Con) (g : Gen) : Prop :=
  match g.kind with
  | .point => c.sat g.vec
  | .cpoint => 0 ≤ c.eval g.vec
  | .ray => 0 ≤ dot c.coeffs g.vec
  | .line => dot c.coeffs g.vec = 0

theorem sat_nonneg (c : Con) (x : Val) (h : c.sat x) : 0 ≤ c.eval x := by
  unfold Con.sat at h; split at h
  · exact le_of_lt h
  · exact h

/-- contribution of generator `g` to the value of row `c` -/
noncomputable def rowVal (c : Con) (g : Gen) : Rat :=
  1 * dot c.coeffs g.vec + (c.k : Rat) * (if g.isPtOrCp then 1 else 0)

theorem admits_term (c : Con) (g : Gen) (hadm : rowAdmits c g) (l : Rat)
    (hl : g.isLine = false → 0 ≤ l) :
    0 ≤ l * rowVal c g ∧ (c.strict = true → g.isPt = true → 0 < l → 0 < l * rowVal c g) := by
  unfold rowAdmits at hadm
  unfold rowVal
  unfold Gen.isLine at hl
  unfold Gen.isPt Gen.isPtOrCp
  rcases hk : g.kind <;> simp only [hk] at hadm hl ⊢
  · -- line
    simp [hadm]
  · -- ray
    have := hl (by decide)
    simp only [show (GKind.ray == GKind.point || GKind.ray == GKind.cpoint) = false by decide,
      Bool.false_eq_true, if_false, mul_zero, add_zero, one_mul]
    exact ⟨mul_nonneg this hadm, fun _ h => by simp at h⟩
  · -- point
    have hl' := hl (by decide)
    simp only [show (GKind.point == GKind.point || GKind.point == GKind.cpoint) = true by decide,
      if_true, mul_one, one_mul]
    have he : dot c.coeffs g.vec + (c.k : Rat) = c.eval g.vec := rfl
    rw [he]
    refine ⟨mul_nonneg hl' (sat_nonneg c _ hadm), fun hs _ hpos => ?_⟩
    unfold Con.sat at hadm; rw [if_pos hs] at hadm
    exact mul_pos hpos hadm
  · -- closure point
    have hl' := hl (by decide)
    simp only [show (GKind.cpoint == GKind.point || GKind.cpoint == GKind.cpoint) = true by decide,
      if_true, mul_one, one_mul]
    have he : dot c.coeffs g.vec + (c.k : Rat) = c.eval g.vec := rfl
    rw [he]
    exact ⟨mul_nonneg hl' hadm, fun _ h => by simp at h⟩

theorem eval_genSem (n : Nat) (gs : List Gen) (c : Con) (hc : c.coeffs.length ≤ n) (lam x : Val)
    (h2 : wsum pcf gs lam = 1) (h4 : ∀ i < n, x i = wsum (fun g => g.coord i) gs lam) :
    c.eval x = wsum (rowVal c) gs lam := by
  unfold Con.eval
  have : rowVal c = fun g => 1 * (fun g => dot c.coeffs g.vec) g + (fun g => (c.k : Rat) * pcf g) g := rfl
  rw [this, wsum_lin_fn, dot_wsum c.coeffs gs lam x (fun i hi => h4 i (by omega))]
  have h0 := wsum_lin_fn pcf (fun _ => 0) (c.k : Rat) gs lam
  simp only [add_zero] at h0
  have hz := wsum_fn_zero gs lam
  rw [h0, h2, hz]; ring

/-- every generator admits the row ⇒ the row holds on the generated set -/
theorem genSem_row_of_admits (n : Nat) (gs : List Gen) (c : Con) (hc : c.coeffs.length ≤ n)
    (h : ∀ g ∈ gs, rowAdmits c g) : GenSem n gs ⊆ {x | c.sat x} := by
  rintro x ⟨lam, h1, h2, ⟨j0, hj0, hp0, hl0⟩, h4⟩
  have hterm : ∀ j < gs.length, 0 ≤ lam j * rowVal c (gs.getD j default) ∧
      (c.strict = true → (gs.getD j default).isPt = true → 0 < lam j →
        0 < lam j * rowVal c (gs.getD j default)) :=
    fun j hj => admits_term c _ (h _ (mem_getD gs j hj)) (lam j) (h1 j hj)
  show c.sat x
  unfold Con.sat
  rw [eval_genSem n gs c hc lam x h2 h4]
  split
  · rename_i hs
    exact (wsum_pos_iff _ gs lam (fun j hj => (hterm j hj).1)).mpr
      ⟨j0, hj0, (hterm j0 hj0).2 hs hp0 hl0⟩
  · exact wsum_nonneg _ gs lam (fun j hj => (hterm j hj).1)

theorem ray_argument (E D : Rat) (h : ∀ t : Rat, 0 ≤ t → 0 ≤ E + t * D) : 0 ≤ D := by
  by_contra hn
  have hD : D < 0 := not_le.mp hn
  have h0 := h 0 (le_refl _)
  have hE : 0 ≤ E := by simpa using h0
  have ht : 0 ≤ (E + 1) / (-D) := div_nonneg (by linarith) (by linarith)
  have := h _ ht
  have hcalc : (E + 1) / (-D) * D = -(E + 1) := by
    have : D ≠ 0 := ne_of_lt hD
    field_simp
  rw [hcalc] at this
  linarith

theorem eval_lin (c : Con) (n : Nat) (hc : c.coeffs.length ≤ n) (a t : Rat) (x u y : Val)
    (hy : ∀ i < n, y i = a * x i + t * u i) :
    c.eval y = a * c.eval x + t * dot c.coeffs u + (1 - a) * (c.k : Rat) := by
  unfold Con.eval
  rw [dot_lin c.coeffs a t x u y (fun i hi => hy i (by omega))]; ring

/-- **Generators against a row**: on a non-empty generated set the row holds everywhere iff
    every generator admits it. -/
theorem genSem_subset_row_iff (n : Nat) (gs : List Gen) (hpt : ∃ g ∈ gs, g.isPt = true) (c : Con)
    (hc : c.coeffs.length ≤ n) :
    GenSem n gs ⊆ {x | c.sat x} ↔ ∀ g ∈ gs, rowAdmits c g := by
  refine ⟨fun hsub g hg => ?_, genSem_row_of_admits n gs c hc⟩
  obtain ⟨p0, hp0, hp0pt⟩ := hpt
  have hx0 : p0.vec ∈ GenSem n gs := genSem_point n gs p0 hp0 hp0pt _ (fun _ _ => rfl)
  have hE0 : 0 ≤ c.eval p0.vec := sat_nonneg c _ (hsub hx0)
  have hpcg : ∀ b : Bool, g.isPtOrCp = b → (if g.isPtOrCp then (1 : Rat) else 0) = if b then 1 else 0 :=
    fun b hb => by rw [hb]
  unfold rowAdmits
  rcases hk : g.kind <;> simp only
  · -- line
    have hline : g.isLine = true := by unfold Gen.isLine; rw [hk]; decide
    have hnpc : g.isPtOrCp = false := by unfold Gen.isPtOrCp; rw [hk]; decide
    have key : ∀ t : Rat, 0 ≤ c.eval p0.vec + t * dot c.coeffs g.vec := by
      intro t
      have hy : (fun i => 1 * p0.vec i + t * g.vec i) ∈ GenSem n gs :=
        genSem_combine n gs g hg _ hx0 1 t one_pos (fun h => by rw [hline] at h; cases h)
          (by rw [hnpc]; simp) _ (fun _ _ => rfl)
      have := sat_nonneg c _ (hsub hy)
      rw [eval_lin c n hc 1 t p0.vec g.vec _ (fun _ _ => rfl)] at this
      linarith
    have h1 := ray_argument _ _ (fun t _ => key t)
    have h2 := ray_argument (c.eval p0.vec) (-(dot c.coeffs g.vec)) (fun t _ => by
      have := key (-t); linarith)
    linarith
  · -- ray
    have hline : g.isLine = false := by unfold Gen.isLine; rw [hk]; decide
    have hnpc : g.isPtOrCp = false := by unfold Gen.isPtOrCp; rw [hk]; decide
    refine ray_argument (c.eval p0.vec) _ (fun t ht => ?_)
    have hy : (fun i => 1 * p0.vec i + t * g.vec i) ∈ GenSem n gs :=
      genSem_combine n gs g hg _ hx0 1 t one_pos (fun _ => ht)
        (by rw [hnpc]; simp) _ (fun _ _ => rfl)
    have := sat_nonneg c _ (hsub hy)
    rw [eval_lin c n hc 1 t p0.vec g.vec _ (fun _ _ => rfl)] at this
    linarith
  · -- point
    have hp : g.isPt = true := by unfold Gen.isPt; rw [hk]; decide
    exact hsub (genSem_point n gs g hg hp _ (fun _ _ => rfl))
  · -- closure point: approach it from the point `p0`
    have hpc : g.isPtOrCp = true := by unfold Gen.isPtOrCp; rw [hk]; decide
    by_contra hn
    have hneg : c.eval g.vec < 0 := not_le.mp hn
    -- s ∈ (0, 1/2], value at (1-s)·g + s·p0 is negative
    set E0 := c.eval p0.vec with hE0def
    set Eg := c.eval g.vec with hEgdef
    have hden : 0 < E0 - Eg := by linarith
    set s : Rat := (-Eg) / (2 * (E0 - Eg)) with hs
    have hspos : 0 < s := div_pos (by linarith) (by linarith)
    have hsle : s ≤ 1 / 2 := by
      rw [hs, div_le_div_iff₀ (by linarith) (by norm_num)]; linarith
    have hy : (fun i => s * p0.vec i + (1 - s) * g.vec i) ∈ GenSem n gs :=
      genSem_combine n gs g hg _ hx0 s (1 - s) hspos (fun _ => by linarith)
        (by rw [hpc]; simp) _ (fun _ _ => rfl)
    have := sat_nonneg c _ (hsub hy)
    rw [eval_lin c n hc s (1 - s) p0.vec g.vec _ (fun _ _ => rfl)] at this
    have he : dot c.coeffs g.vec = Eg - (c.k : Rat) := by rw [hEgdef]; unfold Con.eval; ring
    rw [he, ← hE0def] at this
    have hval : s * E0 + (1 - s) * (Eg - (c.k : Rat)) + (1 - s) * (c.k : Rat) = Eg + s * (E0 - Eg) := by
      ring
    rw [hval] at this
    have hs2 : s * (E0 - Eg) = -Eg / 2 := by
      rw [hs]; field_simp
    rw [hs2] at this
    linarith

/-! ### least upper bounds: poly-hull, `add_generators` -/

theorem subset_sem_iff (S : Set Val) (cs : List Con) :
    S ⊆ sem cs ↔ ∀ c ∈ cs, S ⊆ {x | c.sat x} :=
  ⟨fun h c hc _ hx => h hx c hc, fun h _ hx c hc => h c hc hx⟩

theorem gensWF_append (n : Nat) (g1 g2 : List Gen) (h1 : gensWF n g1 = true) (h2 : gensWF n g2 = true) :
    gensWF n (g1 ++ g2) = true := by
  unfold gensWF at *
  rw [List.all_append, h1, h2]; rfl

/-- a polyhedron contains the set generated by `g1 ++ g2` iff it contains the set generated by
    `g1` and each of its rows is admitted by every generator of `g2` -/
theorem addGens_subset_iff (n : Nat) (g1 g2 : List Gen) (hp1 : ∃ g ∈ g1, g.isPt = true)
    (cs : List Con) (hcs : WF n cs) :
    GenSem n (g1 ++ g2) ⊆ sem cs ↔
      GenSem n g1 ⊆ sem cs ∧ ∀ c ∈ cs, ∀ g ∈ g2, rowAdmits c g := by
  have hp12 : ∃ g ∈ g1 ++ g2, g.isPt = true := by
    obtain ⟨g, hg, hp⟩ := hp1; exact ⟨g, List.mem_append_left _ hg, hp⟩
  rw [subset_sem_iff, subset_sem_iff]
  constructor
  · intro h
    refine ⟨fun c hc => ?_, fun c hc g hg => ?_⟩
    · rw [genSem_subset_row_iff n g1 hp1 c (hcs c hc)]
      intro g hg
      exact (genSem_subset_row_iff n _ hp12 c (hcs c hc)).mp (h c hc) g (List.mem_append_left _ hg)
    · exact (genSem_subset_row_iff n _ hp12 c (hcs c hc)).mp (h c hc) g (List.mem_append_right _ hg)
  · rintro ⟨h1, h2⟩ c hc
    rw [genSem_subset_row_iff n _ hp12 c (hcs c hc)]
    intro g hg
    rcases List.mem_append.mp hg with hg | hg
    · exact (genSem_subset_row_iff n g1 hp1 c (hcs c hc)).mp (h1 c hc) g hg
    · exact h2 c hc g hg

theorem polyHull_subset_iff (n : Nat) (g1 g2 : List Gen) (hp1 : ∃ g ∈ g1, g.isPt = true)
    (hp2 : ∃ g ∈ g2, g.isPt = true) (cs : List Con) (hcs : WF n cs) :
    GenSem n (g1 ++ g2) ⊆ sem cs ↔ GenSem n g1 ∪ GenSem n g2 ⊆ sem cs := by
  rw [addGens_subset_iff n g1 g2 hp1 cs hcs, Set.union_subset_iff]
  refine and_congr_right fun _ => ?_
  rw [subset_sem_iff]
  exact forall_congr' fun c => imp_congr_right fun hc =>
    (genSem_subset_row_iff n g2 hp2 c (hcs c hc)).symm

theorem genSem_subset_append_left (n : Nat) (g1 g2 : List Gen) (hw : gensWF n (g1 ++ g2) = true)
    (hp1 : ∃ g ∈ g1, g.isPt = true) : GenSem n g1 ⊆ GenSem n (g1 ++ g2) := by
  have h := (addGens_subset_iff n g1 g2 hp1 (gensToCons n (g1 ++ g2)) (gensToCons_wf n _)).mp
    (by rw [sem_gensToCons n _ hw])
  rw [sem_gensToCons n _ hw] at h
  exact h.1

theorem genSem_subset_append_right (n : Nat) (g1 g2 : List Gen) (hw : gensWF n (g1 ++ g2) = true)
    (hp2 : ∃ g ∈ g2, g.isPt = true) : GenSem n g2 ⊆ GenSem n (g1 ++ g2) := by
  have hp12 : ∃ g ∈ g1 ++ g2, g.isPt = true := by
    obtain ⟨g, hg, hp⟩ := hp2; exact ⟨g, List.mem_append_right _ hg, hp⟩
  have hsem := sem_gensToCons n _ hw
  rw [← hsem, subset_sem_iff]
  intro c hc
  have hlen := gensToCons_wf n (g1 ++ g2) c hc
  rw [genSem_subset_row_iff n g2 hp2 c hlen]
  intro g hg
  refine (genSem_subset_row_iff n _ hp12 c hlen).mp ?_ g (List.mem_append_right _ hg)
  rw [← hsem]; exact fun x hx => hx c hc

/-! ### time elapse -/

/-- `{p + t·q | p ∈ P, q ∈ Q, t ≥ 0}` on the first `n` coordinates -/
def TESet (n : Nat) (gp gq : List Gen) : Set Val :=
  {y | ∃ p ∈ GenSem n gp, ∃ q ∈ GenSem n gq, ∃ t : Rat, 0 ≤ t ∧ ∀ i < n, y i = p i + t * q i}

theorem hom_sat (c : Con) (x : Val) : c.hom.sat x ↔ 0 ≤ dot c.coeffs x := by
  unfold Con.sat Con.hom Con.eval; simp

theorem TESet_row_iff (n : Nat) (gp gq : List Gen) (hpp : ∃ g ∈ gp, g.isPt = true)
    (hpq : ∃ g ∈ gq, g.isPt = true) (c : Con) (hc : c.coeffs.length ≤ n) :
    TESet n gp gq ⊆ {x | c.sat x} ↔
      (∀ g ∈ gp, rowAdmits c g) ∧ (∀ g ∈ gq, rowAdmits c.hom g) := by
  obtain ⟨p0, hp0, hp0pt⟩ := hpp
  obtain ⟨q0, hq0, hq0pt⟩ := hpq
  have hP0 : p0.vec ∈ GenSem n gp := genSem_point n gp p0 hp0 hp0pt _ (fun _ _ => rfl)
  have hQ0 : q0.vec ∈ GenSem n gq := genSem_point n gq q0 hq0 hq0pt _ (fun _ _ => rfl)
  have hch : c.hom.coeffs.length ≤ n := hc
  constructor
  · intro h
    constructor
    · rw [← genSem_subset_row_iff n gp ⟨p0, hp0, hp0pt⟩ c hc]
      intro p hp
      exact h ⟨p, hp, q0.vec, hQ0, 0, le_refl _, fun i _ => by simp⟩
    · rw [← genSem_subset_row_iff n gq ⟨q0, hq0, hq0pt⟩ c.hom hch]
      intro q hq
      show c.hom.sat q
      rw [hom_sat]
      refine ray_argument (c.eval p0.vec) _ (fun t ht => ?_)
      have hy : (fun i => 1 * p0.vec i + t * q i) ∈ TESet n gp gq :=
        ⟨p0.vec, hP0, q, hq, t, ht, fun i _ => by simp⟩
      have := sat_nonneg c _ (h hy)
      rw [eval_lin c n hc 1 t p0.vec q _ (fun _ _ => rfl)] at this
      linarith
  · rintro ⟨hA, hB⟩ y ⟨p, hp, q, hq, t, ht, hy⟩
    have h1 : c.sat p := genSem_row_of_admits n gp c hc hA hp
    have h2 : 0 ≤ dot c.coeffs q := (hom_sat c q).mp (genSem_row_of_admits n gq c.hom hch hB hq)
    have he := eval_lin c n hc 1 t p q y (fun i hi => by rw [hy i hi]; ring)
    have h3 : 0 ≤ t * dot c.coeffs q := mul_nonneg ht h2
    show c.sat y
    unfold Con.sat at h1 ⊢
    rw [he]
    split at h1 <;> rename_i hs <;> simp only [hs, if_true, Bool.false_eq_true, if_false] <;> linarith

theorem getD_allZero (l : List Int) (h : l.all (· == 0) = true) (i : Nat) : l.getD i 0 = 0 := by
  induction l generalizing i with
  | nil => rfl
  | cons a as ih =>
    simp only [List.all_cons, Bool.and_eq_true, beq_iff_eq] at h
    cases i with
    | zero => simpa using h.1
    | succ i => simpa using ih h.2 i

theorem ray_d (cs : List Int) : Gen.d ⟨.ray, cs, 1⟩ = 1 := rfl

/-- the generators that `timeElapseGens` derives from `gq` -/
def teDir (g : Gen) : Option Gen :=
  match g.kind with
  | .line => some g
  | .ray => some g
  | .point | .cpoint =>
    if g.coords.all (· == 0) then none else some { kind := .ray, coords := g.coords, div := 1 }

theorem timeElapseGens_eq (gp gq : List Gen) : timeElapseGens gp gq = gp ++ gq.filterMap teDir := rfl

theorem teDir_admits (c : Con) (g : Gen) (hd : 0 < g.d) :
    rowAdmits c.hom g ↔ ∀ g', teDir g = some g' → rowAdmits c g' := by
  have hd' : (0 : Rat) < (g.d : Rat) := by exact_mod_cast hd
  -- the direction of a point: coordinates without the divisor
  have hray : dot c.coeffs (Gen.vec { kind := .ray, coords := g.coords, div := 1 })
      = (g.d : Rat) * dot c.coeffs g.vec := by
    rw [dot_lin c.coeffs (g.d : Rat) 0 g.vec g.vec _ (fun i _ => ?_)]; ring
    show ((g.coords.getD i 0 : Int) : Rat) / ((Gen.d ⟨.ray, g.coords, 1⟩ : Int) : Rat)
      = (g.d : Rat) * (((g.coords.getD i 0 : Int) : Rat) / (g.d : Rat)) + 0 * _
    rw [ray_d]
    field_simp
    simp
  have hzero : g.coords.all (· == 0) = true → dot c.coeffs g.vec = 0 := by
    intro hz
    rw [dot_agree c.coeffs g.vec Val.zero (fun i _ => ?_), dot_zero]
    show ((g.coords.getD i 0 : Int) : Rat) / _ = 0
    rw [getD_allZero _ hz]; simp
  have hpc : (0 ≤ dot c.coeffs g.vec) ↔ ∀ g', (if g.coords.all (· == 0) then none
      else some ({ kind := .ray, coords := g.coords, div := 1 } : Gen)) = some g' → rowAdmits c g' := by
    by_cases hz : g.coords.all (· == 0) = true
    · rw [if_pos hz]
      exact ⟨fun _ g' h => (by cases h), fun _ => (by rw [hzero hz])⟩
    · rw [if_neg hz]
      constructor
      · intro h g' hg'
        cases hg'
        show 0 ≤ dot c.coeffs _
        rw [hray]; exact mul_nonneg (le_of_lt hd') h
      · intro h
        have := h _ rfl
        change 0 ≤ dot c.coeffs _ at this
        rw [hray] at this
        exact (mul_nonneg_iff_of_pos_left hd').mp this
  unfold teDir
  rcases hk : g.kind
  · simp only [rowAdmits, hk, Option.some.injEq, forall_eq']; rfl
  · simp only [rowAdmits, hk, Option.some.injEq, forall_eq']; rfl
  · rw [← hpc]; simp only [rowAdmits, hk]; exact hom_sat c g.vec
  · rw [← hpc]; simp only [rowAdmits, hk]
    show 0 ≤ dot c.coeffs g.vec + ((0 : Int) : Rat) ↔ _
    simp

theorem gensWF_mem (n : Nat) (gs : List Gen) (hw : gensWF n gs = true) (g : Gen) (hg : g ∈ gs) :
    g.coords.length ≤ n ∧ 0 < g.d := by
  unfold gensWF at hw
  simp only [List.all_eq_true, Bool.and_eq_true, decide_eq_true_eq] at hw
  exact hw g hg

theorem gensWF_timeElapse (n : Nat) (gp gq : List Gen) (hwp : gensWF n gp = true)
    (hwq : gensWF n gq = true) : gensWF n (timeElapseGens gp gq) = true := by
  rw [timeElapseGens_eq]
  apply gensWF_append n _ _ hwp
  unfold gensWF
  simp only [List.all_eq_true, Bool.and_eq_true, decide_eq_true_eq, List.mem_filterMap]
  rintro g' ⟨g, hg, hgg'⟩
  have := gensWF_mem n gq hwq g hg
  unfold teDir at hgg'
  rcases hk : g.kind <;> simp only [hk] at hgg'
  · cases hgg'; exact this
  · cases hgg'; exact this
  · split at hgg'
    · cases hgg'
    · cases hgg'; exact ⟨this.1, by rw [ray_d]; exact Int.one_pos⟩
  · split at hgg'
    · cases hgg'
    · cases hgg'; exact ⟨this.1, by rw [ray_d]; exact Int.one_pos⟩

/-- a polyhedron contains `{p + t·q}` iff it contains the set generated by `timeElapseGens` -/
theorem timeElapse_subset_iff (n : Nat) (gp gq : List Gen) (hwq : gensWF n gq = true)
    (hpp : ∃ g ∈ gp, g.isPt = true) (hpq : ∃ g ∈ gq, g.isPt = true) (cs : List Con) (hcs : WF n cs) :
    TESet n gp gq ⊆ sem cs ↔ GenSem n (timeElapseGens gp gq) ⊆ sem cs := by
  rw [timeElapseGens_eq, addGens_subset_iff n gp _ hpp cs hcs, subset_sem_iff, subset_sem_iff,
    ← forall_and]
  refine forall_congr' fun c => ?_
  rw [← imp_and]
  refine imp_congr_right fun hc => ?_
  rw [TESet_row_iff n gp gq hpp hpq c (hcs c hc), genSem_subset_row_iff n gp hpp c (hcs c hc)]
  refine and_congr_right fun _ => ?_
  simp only [List.mem_filterMap]
  constructor
  · rintro h g' ⟨g, hg, hgg'⟩
    exact (teDir_admits c g (gensWF_mem n gq hwq g hg).2).mp (h g hg) g' hgg'
  · intro h g hg
    exact (teDir_admits c g (gensWF_mem n gq hwq g hg).2).mpr fun g' hgg' => h g' ⟨g, hg, hgg'⟩

end PPLV.Lin
